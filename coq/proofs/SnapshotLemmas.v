(* C20: lemmas about the snapshot activation model (model/Snapshot.v). *)
From Coq Require Import NArith Lia.
From BV Require Import lib.Ints gen.Params_gen model.SerBase model.SerTx model.Compress model.CompressEC model.CryptoSHA256 model.Snapshot
                       proofs.SerBaseLemmas proofs.SerTxLemmas.
Local Open Scope Z_scope.

Lemma bytes_eq_eq a : forall b, bytes_eq a b = true <-> a = b.
Proof.
  induction a as [|x a IH]; intros [|y b]; cbn; split; intros H; try reflexivity; try discriminate.
  - apply andb_prop in H. destruct H as [H1 H2]. apply N.eqb_eq in H1. apply IH in H2. congruence.
  - inversion H; subst. rewrite N.eqb_refl. cbn. apply IH. reflexivity.
Qed.

(* ---- readers never return more than they were given ---- *)
Definition shrinks {A} (rd : list N -> res A) : Prop := forall s x r, rd s = Ok x r -> (length r <= length s)%nat.
Definition consumes {A} (rd : list N -> res A) : Prop := forall s x r, rd s = Ok x r -> (length r < length s)%nat.

Lemma read_bytes_len n s b r : read_bytes n s = Ok b r -> length s = (n + length r)%nat.
Proof. intros H. apply read_bytes_inv in H. destruct H as [-> L]. rewrite app_length. lia. Qed.

Lemma read_bytes_z_len n s b r : read_bytes_z n s = Ok b r -> (length r <= length s)%nat.
Proof.
  unfold read_bytes_z. destruct (n <=? Z.of_nat (length s)); [|discriminate]. intros H. apply read_bytes_len in H. lia.
Qed.

Lemma read_le_len k s v r : read_le k s = Ok v r -> length s = (k + length r)%nat.
Proof.
  unfold read_le. destruct (read_bytes k s) as [b r'|e] eqn:R; [|discriminate]. cbn [bind]. intros H. inversion H; subst.
  eapply read_bytes_len. exact R.
Qed.

Lemma read_compact_size_len rc s v r : read_compact_size rc s = Ok v r -> (length r < length s)%nat.
Proof.
  unfold read_compact_size. destruct (read_le 1 s) as [ch s1|e] eqn:R1; [|discriminate]. cbn [bind].
  apply read_le_len in R1.
  assert (G : forall k (f : Z -> bool), match bind (read_le k s1) (fun v0 s2 => if f v0 then Err ENonCanonical else Ok v0 s2) with
                                           | Ok _ s2 => (length s2 <= length s1)%nat | Err _ => True end).
  { intros k f. destruct (read_le k s1) as [v0 s3|e] eqn:R; cbn [bind]; [|exact I]. destruct (f v0); [exact I|]. apply read_le_len in R. lia. }
  destruct (ch <? 253).
  - cbn [bind]. destruct (rc && (ch >? MAX_SIZE)); [discriminate|]. intros H. inversion H; subst. lia.
  - destruct (ch =? 253); [|destruct (ch =? 254)].
    + pose proof (G 2%nat (fun v => v <? 253)) as X.
      destruct (bind (read_le 2 s1) _) as [v1 s2|e]; [|discriminate]. cbn [bind].
      destruct (rc && (v1 >? MAX_SIZE)); [discriminate|]. intros H. inversion H; subst. lia.
    + pose proof (G 4%nat (fun v => v <? 65536)) as X.
      destruct (bind (read_le 4 s1) _) as [v1 s2|e]; [|discriminate]. cbn [bind].
      destruct (rc && (v1 >? MAX_SIZE)); [discriminate|]. intros H. inversion H; subst. lia.
    + pose proof (G 8%nat (fun v => v <? 4294967296)) as X.
      destruct (bind (read_le 8 s1) _) as [v1 s2|e]; [|discriminate]. cbn [bind].
      destruct (rc && (v1 >? MAX_SIZE)); [discriminate|]. intros H. inversion H; subst. lia.
Qed.

Lemma read_varint_loop_len w : forall s n v r, read_varint_loop w n s = Ok v r -> (length r < length s)%nat.
Proof.
  induction s as [|c s IH]; intros n v r H; cbn [read_varint_loop] in H; [discriminate|].
  destruct (n >? Z.shiftr (2 ^ w - 1) 7); [discriminate|].
  destruct (negb (Z.land (Z.of_N c) 128 =? 0)).
  - destruct (_ =? 2 ^ w - 1); [discriminate|]. apply IH in H. cbn [length]. lia.
  - inversion H; subst. cbn [length]. lia.
Qed.

Lemma read_varint_len w s v r : read_varint w s = Ok v r -> (length r < length s)%nat.
Proof. apply read_varint_loop_len. Qed.

Section CoinLen.
  Variable ec_decompress : list N -> option (list N).

  Lemma unser_script_len prev s sc r : unser_script ec_decompress prev s = Ok sc r -> (length r < length s)%nat.
  Proof.
    unfold unser_script. destruct (read_varint 32 s) as [nSize s1|e] eqn:R; [|discriminate]. cbn [bind].
    apply read_varint_len in R.
    destruct (nSize <? N_SPECIAL_SCRIPTS).
    - destruct (read_bytes (special_script_size nSize) s1) as [vch s2|e] eqn:R2; [|discriminate]. cbn [bind].
      apply read_bytes_len in R2. destruct (decompress_script ec_decompress nSize vch); intros H; inversion H; subst; lia.
    - destruct (_ >? MAX_SCRIPT_SIZE).
      + destruct (read_bytes_z _ s1) as [x s2|e] eqn:R2; [|discriminate]. cbn [bind]. apply read_bytes_z_len in R2.
        intros H. inversion H; subst. lia.
      + intros H. apply read_bytes_z_len in H. lia.
  Qed.

  Lemma unser_coin_len prev s c r : unser_coin ec_decompress prev s = Ok c r -> (length r < length s)%nat.
  Proof.
    unfold unser_coin. destruct (read_varint 32 s) as [code s1|e] eqn:R; [|discriminate]. cbn [bind]. apply read_varint_len in R.
    unfold unser_txout. destruct (read_varint 64 s1) as [v s2|e] eqn:R2; [|discriminate]. cbn [bind]. apply read_varint_len in R2.
    destruct (unser_script ec_decompress prev s2) as [sc s3|e] eqn:R3; [|discriminate]. cbn [bind]. apply unser_script_len in R3.
    intros H. inversion H; subst. lia.
  Qed.

  (* ---- the loading loop ---- *)
  Definition coin_ok (base_height : Z) (u : ucoin) : Prop :=
    c_height (u_coin u) <= base_height /\ 0 <= c_value (u_coin u) <= MAX_MONEY /\ 0 <= u_n u < UINT32_MAX.

  Definition grp_ok (left : Z) (grp : option (list N * Z)) : Prop :=
    match grp with Some (_, remaining) => remaining <= left | None => True end.

  (* when the loop ends normally: exactly `left` more coin records were read, each of them acceptable *)
  Lemma load_coins_done fuel : forall bh count left processed grp s acc coins rest,
    0 <= left -> grp_ok left grp ->
    load_coins ec_decompress fuel bh count left processed grp s acc = CDone coins rest ->
    exists new, coins = rev acc ++ new /\ Z.of_nat (length new) = left /\ Forall (coin_ok bh) new.
  Proof.
    induction fuel as [|f IH]; intros bh count left processed grp s acc coins rest HL HG H; cbn [load_coins] in H; [discriminate|].
    destruct (match grp with Some (_, remaining) => 0 <? remaining | None => false end) eqn:IG.
    - destruct grp as [[txid remaining]|]; [|discriminate].
      destruct (read_compact_size true s) as [n s1|e]; [|discriminate].
      destruct (unser_coin ec_decompress [] s1) as [c s2|e]; [|discriminate].
      destruct ((c_height c >? bh) || (wrapu32 n >=? UINT32_MAX)) eqn:B1; [discriminate|].
      destruct (negb (money_range (c_value c))) eqn:B2; [discriminate|].
      cbn [grp_ok] in HG.
      apply IH in H; [|lia|cbn [grp_ok]; lia].
      destruct H as [new [E [L F]]]. cbn [rev] in E. rewrite <- app_assoc in E. cbn [app] in E.
      exists (mk_ucoin txid (wrapu32 n) c :: new). split; [exact E|]. split; [cbn [length]; lia|].
      constructor; [|exact F]. unfold coin_ok. cbn [u_coin u_n].
      apply orb_false_iff in B1. destruct B1 as [B1a B1b]. apply negb_false_iff in B2. unfold money_range in B2.
      apply andb_prop in B2. destruct B2 as [B2a B2b].
      assert (0 <= wrapu32 n) by (unfold wrapu32, wrapu; apply Z.mod_pos_bound; lia).
      repeat split; lia.
    - destruct (left <=? 0) eqn:LZ.
      + inversion H; subst. exists []. rewrite app_nil_r. split; [reflexivity|]. split; [cbn; lia|constructor].
      + destruct (read_bytes 32 s) as [txid s1|e]; [|discriminate].
        destruct (read_compact_size true s1) as [per s2|e]; [|discriminate].
        destruct (per >? left) eqn:PL; [discriminate|].
        apply IH in H; [exact H|exact HL|cbn [grp_ok]; lia].
  Qed.

  (* fuel: every step that goes on consumes at least one byte, so S (length s) steps are always enough:
     more fuel never changes the answer *)
  Lemma load_coins_fuel fuel1 : forall fuel2 bh count left processed grp s acc,
    (length s < fuel1)%nat -> (length s < fuel2)%nat ->
    load_coins ec_decompress fuel1 bh count left processed grp s acc = load_coins ec_decompress fuel2 bh count left processed grp s acc.
  Proof.
    induction fuel1 as [|f1 IH]; intros fuel2 bh count left processed grp s acc H1 H2; [lia|].
    destruct fuel2 as [|f2]; [lia|]. cbn [load_coins].
    destruct (match grp with Some (_, remaining) => 0 <? remaining | None => false end).
    - destruct grp as [[txid remaining]|]; [|reflexivity].
      destruct (read_compact_size true s) as [n s1|e] eqn:R1; [|reflexivity]. apply read_compact_size_len in R1.
      destruct (unser_coin ec_decompress [] s1) as [c s2|e] eqn:R2; [|reflexivity]. apply unser_coin_len in R2.
      destruct (_ || _); [reflexivity|]. destruct (negb _); [reflexivity|]. apply IH; lia.
    - destruct (left <=? 0); [reflexivity|].
      destruct (read_bytes 32 s) as [txid s1|e] eqn:R1; [|reflexivity]. apply read_bytes_len in R1.
      destruct (read_compact_size true s1) as [per s2|e] eqn:R2; [|reflexivity]. apply read_compact_size_len in R2.
      destruct (per >? left); [reflexivity|]. apply IH; lia.
  Qed.

  Lemma load_all_done bh count s coins rest : 0 <= count ->
    load_all ec_decompress bh count s = CDone coins rest ->
    Z.of_nat (length coins) = count /\ Forall (coin_ok bh) coins.
  Proof.
    intros HC H. unfold load_all in H. apply load_coins_done in H; [|exact HC|exact I].
    destruct H as [new [E [L F]]]. cbn [rev app] in E. subst coins. split; assumption.
  Qed.
End CoinLen.

(* ---- the canonical serialization of a coin set is injective ---- *)
Definition ucoin_wf (u : ucoin) : Prop :=
  length (u_txid u) = 32%nat /\ 0 <= u_n u <= UINT32_MAX /\ 0 <= c_height (u_coin u) < 2 ^ 31 /\
  INT64_MIN <= c_value (u_coin u) <= INT64_MAX /\ Z.of_nat (length (c_script (u_coin u))) <= MAX_SIZE.

Definition txout_unser (s : list N) : res ucoin :=
  bind (read_bytes 32 s) (fun txid s1 =>
  bind (read_le 4 s1) (fun n s2 =>
  bind (read_le 4 s2) (fun code s3 =>
  bind (read_le 8 s3) (fun v s4 =>
  bind (unser_bytes s4) (fun sc s5 =>
    Ok (mk_ucoin txid n (mk_coin (Z.shiftr code 1) (negb (Z.land code 1 =? 0)) (wrap64 v) sc)) s5))))).

Lemma coin_code_decode h (cb : bool) : 0 <= h < 2 ^ 31 ->
  let code := Z.lor (wrapu32 (Z.shiftl h 1)) (if cb then 1 else 0) in
  0 <= code <= UINT32_MAX /\ Z.shiftr code 1 = h /\ negb (Z.land code 1 =? 0) = cb.
Proof.
  intros H code. change (2 ^ 31) with 2147483648 in H.
  assert (E1 : wrapu32 (Z.shiftl h 1) = 2 * h).
  { rewrite Z.shiftl_mul_pow2 by lia. change (2 ^ 1) with 2. unfold wrapu32, wrapu. change (2 ^ 32) with 4294967296. rewrite Z.mod_small; lia. }
  assert (E2 : code = 2 * h + (if cb then 1 else 0)).
  { unfold code. rewrite E1. destruct cb.
    - pose proof (lor_shiftl_small h 1 1 ltac:(lia) ltac:(change (2 ^ 1) with 2; lia)) as X.
      rewrite Z.shiftl_mul_pow2 in X by lia. change (2 ^ 1) with 2 in X. replace (h * 2) with (2 * h) in X by lia. exact X.
    - rewrite Z.lor_0_r. lia. }
  split; [unfold UINT32_MAX; destruct cb; lia|]. split.
  - rewrite Z.shiftr_div_pow2 by lia. change (2 ^ 1) with 2. rewrite E2. destruct cb; lia.
  - change 1 with (Z.ones 1). rewrite Z.land_ones by lia. change (2 ^ 1) with 2. rewrite E2.
    destruct cb; cbn [negb].
    + replace ((2 * h + 1) mod 2) with 1 by lia. reflexivity.
    + replace ((2 * h + 0) mod 2) with 0 by lia. reflexivity.
Qed.

Lemma txout_roundtrip u rest : ucoin_wf u -> txout_unser (txout_ser u ++ rest) = Ok u rest.
Proof.
  intros [L [Hn [Hh [Hv Hs]]]]. unfold txout_unser, txout_ser. rewrite <- !app_assoc.
  rewrite <- L at 1. rewrite read_bytes_app. cbn [bind].
  rewrite read_le_write. cbn [bind]. rewrite read_le_write. cbn [bind]. rewrite read_le_write. cbn [bind].
  rewrite ser_bytes_roundtrip by exact Hs. cbn [bind].
  change (8 * Z.of_nat 4) with 32. change (8 * Z.of_nat 8) with 64.
  change (wrapu 32) with wrapu32. change (wrapu 64) with wrapu64.
  rewrite (wrapu32_id (u_n u)) by exact Hn.
  destruct (coin_code_decode (c_height (u_coin u)) (c_coinbase (u_coin u)) Hh) as [R [D1 D2]].
  unfold coin_code. rewrite (wrapu32_id _ R). rewrite D1, D2. rewrite wrap64_wrapu64 by exact Hv.
  destruct u as [t n c]. destruct c. reflexivity.
Qed.

Fixpoint decode_set (k : nat) (s : list N) : option (list ucoin) :=
  match k with
  | O => match s with [] => Some [] | _ => None end
  | S k' => match txout_unser s with
            | Ok u r => match decode_set k' r with Some l => Some (u :: l) | None => None end
            | Err _ => None
            end
  end.

Lemma decode_set_ser l : Forall ucoin_wf l -> decode_set (length l) (set_ser l) = Some l.
Proof.
  induction l as [|u l IH]; intros W; [reflexivity|]. inversion W; subst.
  cbn [length decode_set]. unfold set_ser. cbn [map concat]. rewrite txout_roundtrip by assumption.
  fold (set_ser l). rewrite IH by assumption. reflexivity.
Qed.

Lemma txout_ser_nonempty u : length (u_txid u) = 32%nat -> (32 <= length (txout_ser u))%nat.
Proof. intros L. unfold txout_ser. rewrite app_length. lia. Qed.

(* two well-formed coin lists with the same serialization are equal *)
Lemma set_ser_injective l1 : forall l2, Forall ucoin_wf l1 -> Forall ucoin_wf l2 -> set_ser l1 = set_ser l2 -> l1 = l2.
Proof.
  induction l1 as [|u l1 IH]; intros l2 W1 W2 E.
  - destruct l2 as [|v l2]; [reflexivity|]. exfalso. inversion W2; subst.
    unfold set_ser in E. cbn [map concat] in E. apply (f_equal (@length N)) in E. rewrite app_length in E.
    destruct H1 as [L _]. pose proof (txout_ser_nonempty v L). cbn [length] in E. lia.
  - destruct l2 as [|v l2].
    + exfalso. inversion W1; subst.
      unfold set_ser in E. cbn [map concat] in E. apply (f_equal (@length N)) in E. rewrite app_length in E.
      destruct H1 as [L _]. pose proof (txout_ser_nonempty u L). cbn [length] in E. lia.
    + inversion W1; subst. inversion W2; subst.
      unfold set_ser in E. cbn [map concat] in E.
      pose proof (txout_roundtrip u (concat (map txout_ser l1)) H1) as R1.
      pose proof (txout_roundtrip v (concat (map txout_ser l2)) H3) as R2.
      rewrite E in R1. rewrite R1 in R2. inversion R2; subst.
      f_equal. apply IH; assumption.
Qed.

(* ---- the decision ---- *)
Lemma find_some_in {A} (f : A -> bool) l x : find f l = Some x -> In x l /\ f x = true.
Proof. apply find_some. Qed.

Section Decision.
  Variable ec_decompress : list N -> option (list N).
  Variable hashf : list N -> list N.

  Notation activate := (activate ec_decompress hashf).
  Notation populate := (populate ec_decompress hashf).
  Notation utxo_hash := (utxo_hash hashf).

  Definition accepted_facts (e : env) (m : smeta) (coins_stream : list N) (base : list N) (utxo : list ucoin) : Prop :=
    base = sm_base m
    /\ e_has_snapshot e = false
    /\ e_mempool_size e <= 0
    /\ (exists au, In au (e_table e) /\ au_blockhash au = base)
    /\ exists b, e_lookup e base = Some b /\ b_failed b = false /\ b_on_best b = true /\ b_more_work b = true
       /\ exists au coins, In au (e_table e) /\ au_height au = b_height b
          /\ load_all ec_decompress (b_height b) (sm_count m) coins_stream = CDone coins []
          /\ utxo = coin_set coins
          /\ utxo_hash utxo = au_hash au.

  Lemma activate_ok e m cs base utxo : activate e m cs = AOk base utxo -> accepted_facts e m cs base utxo.
  Proof.
    unfold Snapshot.activate. intros H.
    destruct (e_has_snapshot e) eqn:HS; [discriminate|].
    destruct (au_for_blockhash (e_table e) (sm_base m)) as [au0|] eqn:A0; [|discriminate].
    destruct (e_lookup e (sm_base m)) as [b|] eqn:LK; [|discriminate].
    destruct (b_failed b) eqn:BF; [discriminate|].
    destruct (negb (b_on_best b)) eqn:BB; [discriminate|].
    destruct (e_mempool_size e >? 0) eqn:MP; [discriminate|].
    destruct (populate e m cs) as [pe|s] eqn:PP; [discriminate|].
    destruct (negb (b_more_work b)) eqn:BW; [discriminate|].
    inversion H; subst base utxo. clear H.
    unfold Snapshot.populate in PP. rewrite LK in PP.
    destruct (au_for_height (e_table e) (b_height b)) as [au|] eqn:A1; [|discriminate].
    rewrite BW in PP.
    destruct (load_all ec_decompress (b_height b) (sm_count m) cs) as [coins rest|pe] eqn:LA; [|discriminate].
    destruct rest as [|x rest]; [|discriminate].
    destruct (negb (bytes_eq (Snapshot.utxo_hash hashf (coin_set coins)) (au_hash au))) eqn:HH; [discriminate|].
    inversion PP; subst s. clear PP.
    unfold au_for_blockhash in A0. apply find_some in A0. destruct A0 as [I0 E0]. apply bytes_eq_eq in E0.
    unfold au_for_height in A1. apply find_some in A1. destruct A1 as [I1 E1]. apply Z.eqb_eq in E1.
    apply negb_false_iff in BB. apply negb_false_iff in BW. apply negb_false_iff in HH. apply bytes_eq_eq in HH.
    unfold accepted_facts. split; [reflexivity|]. split; [exact HS|]. split; [lia|].
    split; [exists au0; split; assumption|].
    exists b. split; [exact LK|]. split; [exact BF|]. split; [exact BB|]. split; [exact BW|].
    exists au, coins. repeat split; try assumption; reflexivity.
  Qed.

  (* rejection leaves the node state unchanged; success only adds the snapshot chainstate *)
  Lemma activate_state_spec st e m cs :
    let r := activate_state ec_decompress hashf st e m cs in
    match snd r with
    | AErr _ => fst r = st
    | AOk base utxo => ns_ibd_tip (fst r) = ns_ibd_tip st /\ ns_ibd_utxo (fst r) = ns_ibd_utxo st /\ ns_snapshot (fst r) = Some (base, utxo)
    end.
  Proof.
    unfold activate_state. destruct (activate e m cs); cbn; auto.
  Qed.

  Lemma maybe_validate_success table b :
    maybe_validate hashf table b = CSuccess <->
    bg_ready b = true /\ exists au, au_for_height table (bg_height b) = Some au /\ utxo_hash (bg_utxo b) = au_hash au.
  Proof.
    unfold maybe_validate. destruct (bg_ready b); cbn [negb].
    - destruct (au_for_height table (bg_height b)) as [au|].
      + destruct (negb (bytes_eq (Snapshot.utxo_hash hashf (bg_utxo b)) (au_hash au))) eqn:HH.
        * split; [discriminate|]. intros [_ [au' [E1 E2]]]. inversion E1; subst.
          apply negb_true_iff in HH. rewrite <- E2 in HH. assert (X : bytes_eq (au_hash au') (au_hash au') = true) by (apply bytes_eq_eq; reflexivity).
          rewrite E2 in HH. rewrite <- E2 in HH. congruence.
        * apply negb_false_iff in HH. apply bytes_eq_eq in HH. split; [|reflexivity]. intros _. split; [reflexivity|]. exists au. split; [reflexivity|exact HH].
      + split; [discriminate|]. intros [_ [au [E _]]]. discriminate.
    - split; [discriminate|]. intros [E _]. discriminate.
  Qed.
End Decision.

(* ---- metadata ---- *)
Lemma read_meta_ok netmagic s m rest : read_meta netmagic s = MOk m rest ->
  exists version_bytes count_bytes,
    s = SNAPSHOT_MAGIC_BYTES ++ version_bytes ++ netmagic ++ sm_base m ++ count_bytes ++ rest
    /\ length version_bytes = 2%nat /\ le_value version_bytes = SNAPSHOT_VERSION
    /\ length (sm_base m) = 32%nat /\ length count_bytes = 8%nat /\ le_value count_bytes = sm_count m.
Proof.
  unfold read_meta. intros H.
  destruct (read_bytes 5 s) as [magic s1|e] eqn:R1; [|discriminate].
  destruct (negb (bytes_eq magic SNAPSHOT_MAGIC_BYTES)) eqn:C1; [discriminate|].
  unfold read_le in H.
  destruct (read_bytes 2 s1) as [vb s2|e] eqn:R2; [|discriminate]. cbn [bind] in H.
  destruct (negb (le_value vb =? SNAPSHOT_VERSION)) eqn:C2; [discriminate|].
  destruct (read_bytes 4 s2) as [net s3|e] eqn:R3; [|discriminate].
  destruct (negb (bytes_eq net netmagic)) eqn:C3; [discriminate|].
  destruct (read_bytes 32 s3) as [base s4|e] eqn:R4; [|discriminate].
  destruct (read_bytes 8 s4) as [cb s5|e] eqn:R5; [|discriminate]. cbn [bind] in H.
  inversion H; subst m rest. clear H. cbn [sm_base sm_count].
  apply negb_false_iff in C1. apply bytes_eq_eq in C1. apply negb_false_iff in C2. apply Z.eqb_eq in C2.
  apply negb_false_iff in C3. apply bytes_eq_eq in C3.
  apply read_bytes_inv in R1. apply read_bytes_inv in R2. apply read_bytes_inv in R3. apply read_bytes_inv in R4. apply read_bytes_inv in R5.
  destruct R1 as [E1 L1]. destruct R2 as [E2 L2]. destruct R3 as [E3 L3]. destruct R4 as [E4 L4]. destruct R5 as [E5 L5].
  exists vb, cb. subst. repeat split; try assumption; reflexivity.
Qed.

(* ---- the coins that the loop loads are well-formed objects (needed to speak about their serialization) ---- *)
Lemma bytes_ok_suffix pre r : bytes_ok (pre ++ r) -> bytes_ok r.
Proof. intros H. apply bytes_ok_app in H. tauto. Qed.

Lemma wrap64_range x : INT64_MIN <= wrap64 x <= INT64_MAX.
Proof.
  unfold wrap64, wraps, INT64_MIN, INT64_MAX. change (2 ^ 64) with 18446744073709551616. change (2 ^ (64 - 1)) with 9223372036854775808.
  pose proof (Z.mod_pos_bound x 18446744073709551616 ltac:(lia)) as B. cbv zeta.
  destruct (x mod 18446744073709551616 <? 9223372036854775808) eqn:E; lia.
Qed.

Lemma some_inj {A} (a b : A) : Some a = Some b -> a = b.
Proof. intros H. inversion H. reflexivity. Qed.
Lemma len65 a b : length (4%N :: be_bytes 32 a ++ be_bytes 32 b) = 65%nat.
Proof. cbn [length]. rewrite app_length. unfold be_bytes. rewrite !rev_length, !le_bytes_length. reflexivity. Qed.

Lemma secp_decompress_len c pk : secp_decompress c = Some pk -> length pk = 65%nat.
Proof.
  unfold secp_decompress. destruct c as [|h xs]; [discriminate|].
  destruct (_ && _); [|discriminate]. destruct (_ <? _); [|discriminate]. destruct (_ =? _); [|discriminate].
  intros H. apply some_inj in H. rewrite <- H. apply len65.
Qed.

Section LoadedWf.
  Variable ec : list N -> option (list N).
  Hypothesis ec_len : forall c pk, ec c = Some pk -> length pk = 65%nat.

  Lemma read_varint_ok w s v r : varint_width_ok w -> bytes_ok s -> read_varint w s = Ok v r -> 0 <= v <= 2 ^ w - 1 /\ bytes_ok r.
  Proof.
    intros W B H. destruct (varint_canon w s v r W B H) as [R [enc [_ E]]]. split; [exact R|]. subst s. eapply bytes_ok_suffix; eassumption.
  Qed.

  Lemma read_bytes_ok n s b r : bytes_ok s -> read_bytes n s = Ok b r -> bytes_ok r /\ length b = n.
  Proof. intros B H. apply read_bytes_inv in H. destruct H as [-> L]. split; [eapply bytes_ok_suffix; eassumption|exact L]. Qed.

  Lemma read_bytes_z_ok n s b r : bytes_ok s -> read_bytes_z n s = Ok b r -> bytes_ok r /\ Z.of_nat (length b) <= Z.max 0 n.
  Proof.
    unfold read_bytes_z. destruct (n <=? Z.of_nat (length s)); [|discriminate]. intros B H. apply read_bytes_ok in H; [|exact B].
    destruct H as [B' L]. split; [exact B'|]. rewrite L. lia.
  Qed.

  Lemma decompress_script_len nSize vch sc : decompress_script ec nSize vch = Some sc -> (length sc <= 67)%nat.
  Proof.
    unfold decompress_script.
    destruct (nSize =? 0); [intros H; apply some_inj in H; rewrite <- H; repeat (cbn [app length] || rewrite app_length || rewrite firstn_length); lia|].
    destruct (nSize =? 1); [intros H; apply some_inj in H; rewrite <- H; repeat (cbn [app length] || rewrite app_length || rewrite firstn_length); lia|].
    destruct ((nSize =? 2) || (nSize =? 3)); [intros H; apply some_inj in H; rewrite <- H; repeat (cbn [app length] || rewrite app_length || rewrite firstn_length); lia|].
    destruct ((nSize =? 4) || (nSize =? 5)); [|discriminate].
    destruct (ec _) as [pk|] eqn:E; [|discriminate]. apply ec_len in E.
    intros H; apply some_inj in H; rewrite <- H. repeat (cbn [app length] || rewrite app_length). rewrite E. lia.
  Qed.

  Lemma unser_script_ok s sc r : bytes_ok s -> unser_script ec [] s = Ok sc r -> bytes_ok r /\ Z.of_nat (length sc) <= MAX_SIZE.
  Proof.
    intros B. unfold unser_script. destruct (read_varint 32 s) as [nSize s1|e] eqn:R; [|discriminate]. cbn [bind].
    destruct (read_varint_ok 32 s nSize s1 (or_introl eq_refl) B R) as [_ B1].
    rewrite max_size_value.
    destruct (nSize <? N_SPECIAL_SCRIPTS).
    - destruct (read_bytes (special_script_size nSize) s1) as [vch s2|e] eqn:R2; [|discriminate]. cbn [bind].
      destruct (read_bytes_ok _ _ _ _ B1 R2) as [B2 _].
      destruct (decompress_script ec nSize vch) as [sc'|] eqn:D; intros H; inversion H; subst.
      + split; [exact B2|]. apply decompress_script_len in D. lia.
      + split; [exact B2|]. cbn [length]. lia.
    - destruct (_ >? MAX_SCRIPT_SIZE) eqn:C.
      + destruct (read_bytes_z _ s1) as [x s2|e] eqn:R2; [|discriminate]. cbn [bind].
        destruct (read_bytes_z_ok _ _ _ _ B1 R2) as [B2 _].
        intros H. inversion H; subst. split; [exact B2|]. cbn [app length]. lia.
      + intros H. destruct (read_bytes_z_ok _ _ _ _ B1 H) as [B2 L]. split; [exact B2|].
        assert (X : MAX_SCRIPT_SIZE = 10000) by reflexivity. lia.
  Qed.

  Lemma unser_coin_ok s c r : bytes_ok s -> unser_coin ec [] s = Ok c r ->
    bytes_ok r /\ 0 <= c_height c < 2 ^ 31 /\ INT64_MIN <= c_value c <= INT64_MAX /\ Z.of_nat (length (c_script c)) <= MAX_SIZE.
  Proof.
    intros B. unfold unser_coin. destruct (read_varint 32 s) as [code s1|e] eqn:R; [|discriminate]. cbn [bind].
    destruct (read_varint_ok 32 s code s1 (or_introl eq_refl) B R) as [RC B1].
    unfold unser_txout. destruct (read_varint 64 s1) as [v s2|e] eqn:R2; [|discriminate]. cbn [bind].
    destruct (read_varint_ok 64 s1 v s2 (or_intror eq_refl) B1 R2) as [_ B2].
    destruct (unser_script ec [] s2) as [sc s3|e] eqn:R3; [|discriminate]. cbn [bind].
    destruct (unser_script_ok s2 sc s3 B2 R3) as [B3 LS].
    intros H. inversion H; subst. cbn [c_height c_value c_script fst snd].
    split; [exact B3|]. split; [|split; [apply wrap64_range|exact LS]].
    rewrite Z.shiftr_div_pow2 by lia. change (2 ^ 1) with 2. change (2 ^ 32) with 4294967296 in RC. change (2 ^ 31) with 2147483648. lia.
  Qed.

  Lemma load_coins_wf fuel : forall bh count left processed grp s acc coins rest,
    bytes_ok s -> (match grp with Some (txid, _) => length txid = 32%nat | None => True end) -> Forall ucoin_wf acc ->
    load_coins ec fuel bh count left processed grp s acc = CDone coins rest -> Forall ucoin_wf coins.
  Proof.
    induction fuel as [|f IH]; intros bh count left processed grp s acc coins rest B HG WA H; cbn [load_coins] in H; [discriminate|].
    destruct (match grp with Some (_, remaining) => 0 <? remaining | None => false end).
    - destruct grp as [[txid remaining]|]; [|discriminate].
      destruct (read_compact_size true s) as [n s1|e] eqn:R1; [|discriminate].
      destruct (compact_size_canonical true s n s1 B R1) as [E1 _].
      assert (B1 : bytes_ok s1) by (rewrite E1 in B; eapply bytes_ok_suffix; exact B).
      destruct (unser_coin ec [] s1) as [c s2|e] eqn:R2; [|discriminate].
      destruct (unser_coin_ok s1 c s2 B1 R2) as [B2 [Hh [Hv Hs]]].
      destruct (_ || _); [discriminate|]. destruct (negb _); [discriminate|].
      eapply IH; cycle 3; [exact H|exact B2|exact HG|].
      constructor; [|exact WA]. unfold ucoin_wf. cbn [u_txid u_n u_coin].
      assert (0 <= wrapu32 n <= UINT32_MAX).
      { unfold wrapu32, wrapu, UINT32_MAX. change (2 ^ 32) with 4294967296. pose proof (Z.mod_pos_bound n 4294967296 ltac:(lia)). lia. }
      repeat split; try assumption; try lia.
    - destruct (left <=? 0).
      + inversion H; subst. apply Forall_rev. exact WA.
      + destruct (read_bytes 32 s) as [txid s1|e] eqn:R1; [|discriminate].
        destruct (read_bytes_ok _ _ _ _ B R1) as [B1 L1].
        destruct (read_compact_size true s1) as [per s2|e] eqn:R2; [|discriminate].
        destruct (compact_size_canonical true s1 per s2 B1 R2) as [E2 _].
        assert (B2 : bytes_ok s2) by (rewrite E2 in B1; eapply bytes_ok_suffix; exact B1).
        destruct (per >? left); [discriminate|].
        eapply IH; cycle 3; [exact H|exact B2|exact L1|exact WA].
  Qed.

  Lemma set_add_wf c l : ucoin_wf c -> Forall ucoin_wf l -> Forall ucoin_wf (set_add c l).
  Proof.
    intros Wc. induction l as [|x l IH]; intros W; cbn [set_add]; [constructor; [exact Wc|constructor]|].
    inversion W; subst. destruct (op_eq c x); [exact W|]. destruct (op_lt c x); [constructor; assumption|].
    constructor; [assumption|apply IH; assumption].
  Qed.

  Lemma coin_set_wf coins : Forall ucoin_wf coins -> Forall ucoin_wf (coin_set coins).
  Proof.
    unfold coin_set. assert (G : forall l acc, Forall ucoin_wf l -> Forall ucoin_wf acc -> Forall ucoin_wf (fold_left (fun s c => set_add c s) l acc)).
    { induction l as [|c l IH]; intros acc W WA; [exact WA|]. inversion W; subst. cbn [fold_left]. apply IH; [assumption|apply set_add_wf; assumption]. }
    intros W. apply G; [exact W|constructor].
  Qed.

  Lemma load_all_wf bh count s coins rest : bytes_ok s -> load_all ec bh count s = CDone coins rest -> Forall ucoin_wf (coin_set coins).
  Proof.
    intros B H. apply coin_set_wf. unfold load_all in H. eapply load_coins_wf; cycle 3; [exact H|exact B|exact I|constructor].
  Qed.
End LoadedWf.
