(* Proofs about the wallet balance model (C44): under the executable tracking predicate the transcription of
   GetBalance equals the balances computed from the active chain and mempool. *)
From BV Require Import lib.Ints gen.Params_gen model.WalletBal.
Local Open Scope Z_scope.

(* ------------------------------------------------------------------------------------------- *)
(* equalities *)
Lemma outpoint_eqb_eq a b : outpoint_eqb a b = true <-> a = b.
Proof.
  unfold outpoint_eqb. destruct a as [a1 a2], b as [b1 b2]. simpl. rewrite andb_true_iff, !Nat.eqb_eq.
  split; [intros [? ?]; subst; auto | intros H; inversion H; auto].
Qed.

Lemma combine_forallb_eq {A} (eqb : A -> A -> bool) (Heq : forall x y, eqb x y = true -> x = y) :
  forall l1 l2, length l1 = length l2 -> forallb (fun p => eqb (fst p) (snd p)) (combine l1 l2) = true -> l1 = l2.
Proof.
  induction l1 as [|x l1 IH]; intros [|y l2] Hl H; simpl in *; try discriminate; auto.
  apply andb_prop in H. destruct H as [H1 H2]. f_equal; [apply Heq; auto | apply IH; auto].
Qed.

Lemma wtx_eqb_eq a b : wtx_eqb a b = true -> a = b.
Proof.
  unfold wtx_eqb. intros H.
  apply andb_prop in H. destruct H as [H Houts].
  apply andb_prop in H. destruct H as [H Hlo].
  apply andb_prop in H. destruct H as [H Hins].
  apply andb_prop in H. destruct H as [H Hli].
  apply andb_prop in H. destruct H as [Hid Hcb].
  apply Nat.eqb_eq in Hid. apply Bool.eqb_prop in Hcb. apply Nat.eqb_eq in Hli. apply Nat.eqb_eq in Hlo.
  destruct a as [ia ca insa outsa], b as [ib cb insb outsb]. simpl in *. subst.
  f_equal.
  - apply (combine_forallb_eq outpoint_eqb); auto. intros x y Hxy. apply outpoint_eqb_eq; auto.
  - apply (combine_forallb_eq (fun x y => (o_value x =? o_value y) && Bool.eqb (o_mine x) (o_mine y))); auto.
    intros [vx mx] [vy my] Hxy. simpl in Hxy. apply andb_prop in Hxy. destruct Hxy as [H1 H2].
    apply Z.eqb_eq in H1. apply Bool.eqb_prop in H2. subst. auto.
Qed.

Lemma mem_nat_In x l : mem_nat x l = true <-> In x l.
Proof.
  unfold mem_nat. rewrite existsb_exists. split.
  - intros [y [Hy He]]. apply Nat.eqb_eq in He. subst. auto.
  - intros H. exists x. split; auto. apply Nat.eqb_refl.
Qed.

Lemma nodup_nat_NoDup l : nodup_nat l = true -> NoDup l.
Proof.
  induction l as [|x l IH]; simpl; intros H; constructor.
  - apply andb_prop in H. destruct H as [H _]. apply negb_true_iff in H. intro Hin. apply mem_nat_In in Hin. congruence.
  - apply andb_prop in H. destruct H as [_ H]. auto.
Qed.

Lemma existsb_ext_in' {A} (f g : A -> bool) l : (forall x, In x l -> f x = g x) -> existsb f l = existsb g l.
Proof. induction l as [|x l IH]; simpl; intros H; auto. rewrite H by auto. rewrite IH; auto. Qed.
Lemma forallb_ext_in' {A} (f g : A -> bool) l : (forall x, In x l -> f x = g x) -> forallb f l = forallb g l.
Proof. induction l as [|x l IH]; simpl; intros H; auto. rewrite H by auto. rewrite IH; auto. Qed.

(* balances form a commutative monoid *)
Lemma bal_add_zero_l b : bal_add bal_zero b = b.
Proof. destruct b. unfold bal_add, bal_zero. simpl. reflexivity. Qed.
Lemma bal_add_zero_r b : bal_add b bal_zero = b.
Proof. destruct b. unfold bal_add, bal_zero. simpl. f_equal; lia. Qed.

Lemma find_tx_in_gen : forall tb t, NoDup (map t_id tb) -> In t tb -> find_tx tb (t_id t) = Some t.
Proof.
  unfold find_tx. induction tb as [|x tb IH]; simpl; intros t Hnd Hin; [contradiction|].
  inversion Hnd as [|? ? Hni Hnd']; subst.
  destruct Hin as [Hx|Hin].
  - subst. rewrite Nat.eqb_refl. auto.
  - destruct (Nat.eqb (t_id x) (t_id t)) eqn:E.
    + apply Nat.eqb_eq in E. exfalso. apply Hni. rewrite E. apply in_map. auto.
    + apply IH; auto.
Qed.

(* ------------------------------------------------------------------------------------------- *)
Section Tracks.
Variable table : list wtx.
Variable chain : list (Z * list nat).
Variable pool : list nat.
Variable tip : Z.
Variable fuel : nat.
Variable W : list wentry.
Hypothesis Htracks : tracks table chain pool tip W = true.

Notation St := (status_of chain pool).
Notation pending := (own_pending_of W).

(* the conjuncts of tracks *)
Lemma T_order : listed_in_order W table = true.
Proof. pose proof Htracks as HT. unfold tracks in HT. repeat (apply andb_prop in HT; let H := fresh "HC" in destruct HT as [HT H]). auto. Qed.
Lemma T_nodup : NoDup (map t_id table).
Proof. pose proof Htracks as HT. unfold tracks in HT. repeat (apply andb_prop in HT; let H := fresh "HC" in destruct HT as [HT H]). apply nodup_nat_NoDup; auto. Qed.
Lemma T_state e : In e W -> state_matches table chain pool e = true.
Proof.
  pose proof Htracks as HT. unfold tracks in HT. repeat (apply andb_prop in HT; let H := fresh "HC" in destruct HT as [HT H]).
  match goal with H : forallb (state_matches table chain pool) W = true |- _ => rewrite forallb_forall in H; auto end.
Qed.
Lemma T_complete t : In t table -> present chain pool (t_id t) = true -> relevant table t = true -> in_wallet W t = true.
Proof.
  pose proof Htracks as HT. unfold tracks in HT. repeat (apply andb_prop in HT; let H := fresh "HC" in destruct HT as [HT H]).
  intros Hin Hp Hr.
  match goal with H : forallb (fun t => negb (present chain pool (t_id t)) || negb (relevant table t) || in_wallet W t) table = true |- _ =>
    rewrite forallb_forall in H; specialize (H _ Hin); rewrite Hp, Hr in H; simpl in H; auto end.
Qed.
Lemma T_closed t op p : In t table -> present chain pool (t_id t) = true -> In op (t_ins t) ->
  find_tx table (fst op) = Some p -> present chain pool (t_id p) = true.
Proof.
  pose proof Htracks as HT. unfold tracks in HT. repeat (apply andb_prop in HT; let H := fresh "HC" in destruct HT as [HT H]).
  intros Hin Hp Hop Hf.
  match goal with H : forallb (fun t => negb (present chain pool (t_id t)) || forallb _ (t_ins t)) table = true |- _ =>
    rewrite forallb_forall in H; specialize (H _ Hin); rewrite Hp in H; simpl in H;
    rewrite forallb_forall in H; specialize (H _ Hop); rewrite Hf in H; auto end.
Qed.
Lemma T_height b : In b chain -> fst b <= tip.
Proof.
  pose proof Htracks as HT. unfold tracks in HT. repeat (apply andb_prop in HT; let H := fresh "HC" in destruct HT as [HT H]).
  intros Hin.
  match goal with H : forallb (fun b => fst b <=? tip) chain = true |- _ =>
    rewrite forallb_forall in H; specialize (H _ Hin); lia end.
Qed.

(* ---- table lookups ---- *)
Lemma find_tx_spec id t : find_tx table id = Some t -> In t table /\ t_id t = id.
Proof. unfold find_tx. intros H. apply find_some in H. destruct H as [H1 H2]. apply Nat.eqb_eq in H2. auto. Qed.

Lemma find_tx_in t : In t table -> find_tx table (t_id t) = Some t.
Proof. apply find_tx_in_gen. apply T_nodup. Qed.

Lemma same_id_same_tx a b : In a table -> In b table -> t_id a = t_id b -> a = b.
Proof.
  intros Ha Hb Hid. pose proof (find_tx_in a Ha) as H1. pose proof (find_tx_in b Hb) as H2.
  rewrite Hid in H1. congruence.
Qed.

(* ---- the wallet is a sub-sequence of the table ---- *)
Lemma listed_in : forall tb Wl, listed_in_order Wl tb = true -> forall e, In e Wl -> In (e_tx e) tb.
Proof.
  induction tb as [|t tb IH]; intros Wl H e Hin.
  - destruct Wl; [contradiction|discriminate].
  - destruct Wl as [|e0 Wl']; [contradiction|]. simpl in H.
    destruct (wtx_eqb (e_tx e0) t) eqn:E.
    + apply wtx_eqb_eq in E. destruct Hin as [Hin|Hin].
      * subst. left. auto.
      * right. eapply IH; eauto.
    + right. eapply IH; eauto.
Qed.

Lemma W_in_table e : In e W -> In (e_tx e) table.
Proof. apply listed_in. apply T_order. Qed.

Lemma listed_find : forall tb Wl, listed_in_order Wl tb = true -> NoDup (map t_id tb) ->
  forall e, In e Wl -> find (fun x => Nat.eqb (t_id (e_tx x)) (t_id (e_tx e))) Wl = Some e.
Proof.
  induction tb as [|t tb IH]; intros Wl H Hnd e Hin.
  - destruct Wl; [contradiction|discriminate].
  - destruct Wl as [|e0 Wl']; [contradiction|]. simpl in H. inversion Hnd as [|? ? Hni Hnd']; subst.
    destruct (wtx_eqb (e_tx e0) t) eqn:E.
    + apply wtx_eqb_eq in E. simpl. destruct Hin as [Hin|Hin].
      * subst. rewrite Nat.eqb_refl. auto.
      * destruct (Nat.eqb (t_id (e_tx e0)) (t_id (e_tx e))) eqn:E2.
        -- apply Nat.eqb_eq in E2. exfalso. apply Hni. rewrite <- E, E2. apply in_map. eapply listed_in; eauto.
        -- apply IH; auto.
    + apply IH; auto.
Qed.

Lemma find_entry_in e : In e W -> find_entry W (t_id (e_tx e)) = Some e.
Proof. intros H. unfold find_entry. apply (listed_find table W T_order T_nodup e H). Qed.

Lemma find_entry_spec id e : find_entry W id = Some e -> In e W /\ t_id (e_tx e) = id.
Proof. unfold find_entry. intros H. apply find_some in H. destruct H as [H1 H2]. apply Nat.eqb_eq in H2. auto. Qed.

Lemma in_wallet_entry t : In t table -> in_wallet W t = true -> exists e, In e W /\ e_tx e = t.
Proof.
  intros Ht H. unfold in_wallet in H. apply existsb_exists in H. destruct H as [e [He Hid]]. apply Nat.eqb_eq in Hid.
  exists e. split; auto. apply same_id_same_tx; auto. apply W_in_table; auto.
Qed.

(* ---- states are statuses ---- *)
Lemma state_cases e : In e W ->
  (exists h, St (t_id (e_tx e)) = StConfirmed h /\ e_state e = SConfirmed h) \/
  (St (t_id (e_tx e)) = StMempool /\ e_state e = SMempool) \/
  (St (t_id (e_tx e)) = StAbsent /\ ((exists h, e_state e = SConflicted h) \/ (exists a, e_state e = SInactive a))).
Proof.
  intros Hin. pose proof (T_state e Hin) as H. unfold state_matches in H.
  destruct (St (t_id (e_tx e))) as [h| |]; destruct (e_state e) as [h'| |h'|a]; try discriminate.
  - left. exists h. apply Z.eqb_eq in H. subst. auto.
  - right. left. auto.
  - right. right. split; auto. left. eauto.
  - right. right. split; auto. right. eauto.
Qed.

Lemma present_iff id : present chain pool id = true <-> St id <> StAbsent.
Proof. unfold present. destruct (St id); split; intros H; try congruence; auto; discriminate. Qed.

Lemma confirmed_height id h : St id = StConfirmed h -> h <= tip.
Proof.
  unfold status_of. destruct (find (fun b => mem_nat id (snd b)) chain) as [b|] eqn:E.
  - intros H. inversion H; subst. apply find_some in E. destruct E as [E _]. apply T_height; auto.
  - destruct (mem_nat id pool); discriminate.
Qed.

(* ---- mine outputs ---- *)
Lemma out_mine_entry e n o : In e W -> nth_error (t_outs (e_tx e)) n = Some o -> out_mine table (t_id (e_tx e), n) = o_mine o.
Proof.
  intros Hin Hn. unfold out_mine. simpl. rewrite (find_tx_in _ (W_in_table e Hin)). rewrite Hn. auto.
Qed.

Lemma out_mine_tx t n o : In t table -> nth_error (t_outs t) n = Some o -> out_mine table (t_id t, n) = o_mine o.
Proof. intros Hin Hn. unfold out_mine. simpl. rewrite (find_tx_in _ Hin). rewrite Hn. auto. Qed.

(* a transaction present in the chain or mempool that spends one of the wallet's outputs is in the wallet *)
Lemma spender_in_wallet t op : In t table -> present chain pool (t_id t) = true -> spends op t = true ->
  out_mine table op = true -> exists e, In e W /\ e_tx e = t.
Proof.
  intros Ht Hp Hs Hm. apply in_wallet_entry; auto. apply T_complete; auto.
  unfold relevant. apply orb_true_iff. right. apply existsb_exists.
  unfold spends in Hs. apply existsb_exists in Hs. destruct Hs as [op' [Hin He]]. apply outpoint_eqb_eq in He. subst. eauto.
Qed.

Lemma pending_mem id : mem_nat id pending = true <-> exists e, In e W /\ live_nonmempool e = true /\ t_id (e_tx e) = id.
Proof.
  rewrite mem_nat_In. unfold own_pending_of. rewrite in_map_iff. split.
  - intros [e [Hid Hin]]. apply filter_In in Hin. destruct Hin as [Hin Hl]. eauto.
  - intros [e [Hin [Hl Hid]]]. exists e. split; auto. apply filter_In. auto.
Qed.

(* ---- spent ---- *)
Lemma how_spent_spec op : out_mine table op = true ->
  (match how_spent W op with Unspent => true | _ => false end) = negb (spent_spec table chain pool pending op).
Proof.
  intros Hm. unfold how_spent.
  set (sp := filter (fun e => spends op (e_tx e)) W).
  assert (Hsp : forall e, In e sp <-> In e W /\ spends op (e_tx e) = true) by (intros e; unfold sp; apply filter_In).
  destruct (spent_spec table chain pool pending op) eqn:Es; simpl.
  - (* some present or pending spender: the wallet sees it *)
    unfold spent_spec in Es. apply existsb_exists in Es. destruct Es as [t [Ht Hc]].
    apply andb_prop in Hc. destruct Hc as [Hs Hc].
    assert (He : exists e, In e sp /\ (is_confirmed e = true \/ in_mempool e = true \/ live_nonmempool e = true)).
    { destruct (St (t_id t)) eqn:Est.
      - destruct (spender_in_wallet t op Ht) as [e [He1 He2]]; auto; [apply present_iff; congruence|].
        exists e. split; [apply Hsp; subst; auto|]. destruct (state_cases e He1) as [[h' [H1 H2]]|[[H1 H2]|[H1 _]]]; subst; try congruence.
        left. unfold is_confirmed. rewrite H2. auto.
      - destruct (spender_in_wallet t op Ht) as [e [He1 He2]]; auto; [apply present_iff; congruence|].
        exists e. split; [apply Hsp; subst; auto|]. destruct (state_cases e He1) as [[h' [H1 H2]]|[[H1 H2]|[H1 _]]]; subst; try congruence.
        right; left. unfold in_mempool. rewrite H2. auto.
      - apply pending_mem in Hc. destruct Hc as [e [He1 [He2 He3]]].
        assert (e_tx e = t) by (apply same_id_same_tx; auto; apply W_in_table; auto).
        exists e. split; [apply Hsp; subst; auto|]. auto. }
    destruct He as [e [He1 He2]].
    destruct (existsb is_confirmed sp) eqn:E1; auto.
    destruct (existsb in_mempool sp) eqn:E2; auto.
    destruct (existsb live_nonmempool sp) eqn:E3; auto.
    exfalso. destruct He2 as [H|[H|H]].
    + assert (existsb is_confirmed sp = true) by (apply existsb_exists; eauto). congruence.
    + assert (existsb in_mempool sp = true) by (apply existsb_exists; eauto). congruence.
    + assert (existsb live_nonmempool sp = true) by (apply existsb_exists; eauto). congruence.
  - (* no such spender: every wallet spender is conflicted, abandoned or mempool-conflicted *)
    assert (Hno : forall e, In e sp -> is_confirmed e = false /\ in_mempool e = false /\ live_nonmempool e = false).
    { intros e He. apply Hsp in He. destruct He as [He Hs].
      unfold spent_spec in Es.
      assert (Hf : (spends op (e_tx e) && match St (t_id (e_tx e)) with StAbsent => mem_nat (t_id (e_tx e)) pending | _ => true end) = false).
      { destruct (spends op (e_tx e) && _) eqn:E; auto.
        assert (existsb (fun t => spends op t && match St (t_id t) with StAbsent => mem_nat (t_id t) pending | _ => true end) table = true).
        { apply existsb_exists. exists (e_tx e). split; auto. apply W_in_table; auto. }
        congruence. }
      rewrite Hs in Hf. simpl in Hf.
      destruct (state_cases e He) as [[h' [H1 H2]]|[[H1 H2]|[H1 H2]]]; rewrite H1 in Hf; try discriminate.
      assert (Hl : live_nonmempool e = false).
      { destruct (live_nonmempool e) eqn:El; auto.
        assert (mem_nat (t_id (e_tx e)) pending = true) by (apply pending_mem; eauto). congruence. }
      unfold is_confirmed, in_mempool. destruct H2 as [[h Hh]|[a Ha]]; rewrite ?Hh, ?Ha; auto. }
    replace (existsb is_confirmed sp) with false.
    2:{ symmetry. apply not_true_is_false. intro H. apply existsb_exists in H. destruct H as [e [H1 H2]]. destruct (Hno e H1) as [? _]. congruence. }
    replace (existsb in_mempool sp) with false.
    2:{ symmetry. apply not_true_is_false. intro H. apply existsb_exists in H. destruct H as [e [H1 H2]]. destruct (Hno e H1) as [_ [? _]]. congruence. }
    replace (existsb live_nonmempool sp) with false.
    2:{ symmetry. apply not_true_is_false. intro H. apply existsb_exists in H. destruct H as [e [H1 H2]]. destruct (Hno e H1) as [_ [_ ?]]. congruence. }
    reflexivity.
Qed.

(* ---- trusted ---- *)
Lemma txo_of_out_mine e op : In e W -> present chain pool (t_id (e_tx e)) = true -> In op (t_ins (e_tx e)) ->
  (match txo_of W op with Some _ => true | None => false end) = out_mine table op.
Proof.
  intros He Hp Hop. unfold txo_of, out_mine.
  destruct (find_entry W (fst op)) as [p|] eqn:Ef.
  - apply find_entry_spec in Ef. destruct Ef as [Hp1 Hp2].
    rewrite <- Hp2. rewrite (find_tx_in _ (W_in_table p Hp1)).
    destruct (nth_error (t_outs (e_tx p)) (snd op)) as [o|]; auto. destruct (o_mine o); auto.
  - destruct (find_tx table (fst op)) as [p|] eqn:Et; auto.
    destruct (nth_error (t_outs p) (snd op)) as [o|] eqn:En; auto.
    destruct (o_mine o) eqn:Em; auto.
    (* the parent is present (closure) and pays the wallet, so it would be in the wallet *)
    exfalso. pose proof (T_closed (e_tx e) op p (W_in_table e He) Hp Hop Et) as Hpp.
    apply find_tx_spec in Et. destruct Et as [Ht1 Ht2].
    assert (Hr : relevant table p = true).
    { unfold relevant. apply orb_true_iff. left. apply existsb_exists. exists o. split; auto. eapply nth_error_In; eauto. }
    destruct (in_wallet_entry p Ht1 (T_complete p Ht1 Hpp Hr)) as [pe [Hpe1 Hpe2]].
    pose proof (find_entry_in pe Hpe1) as Hfe. rewrite Hpe2, Ht2 in Hfe. congruence.
Qed.

Lemma is_trusted_spec : forall f e, In e W -> is_trusted W f e = trusted_spec table chain pool f (e_tx e).
Proof.
  induction f as [|f IH]; intros e He; [reflexivity|].
  cbn [is_trusted trusted_spec].
  destruct (state_cases e He) as [[h [H1 H2]]|[[H1 H2]|[H1 H2]]]; rewrite H1.
  - unfold is_confirmed. rewrite H2. reflexivity.
  - unfold is_confirmed, is_block_conflicted, in_mempool. rewrite H2. cbn [negb].
    assert (Hp : present chain pool (t_id (e_tx e)) = true) by (apply present_iff; congruence).
    assert (Hfm : is_from_me W (e_tx e) = existsb (out_mine table) (t_ins (e_tx e))).
    { unfold is_from_me. apply existsb_ext_in'. intros op Hop. apply (txo_of_out_mine e op He Hp Hop). }
    rewrite Hfm. destruct (existsb (out_mine table) (t_ins (e_tx e))); cbn [negb andb]; auto.
    apply forallb_ext_in'. intros op Hop.
    pose proof (txo_of_out_mine e op He Hp Hop) as Hto. unfold txo_of, out_mine in *.
    destruct (find_entry W (fst op)) as [p|] eqn:Ef.
    + apply find_entry_spec in Ef. destruct Ef as [Hp1 Hp2].
      rewrite <- Hp2 in *. rewrite (find_tx_in _ (W_in_table p Hp1)) in *.
      destruct (nth_error (t_outs (e_tx p)) (snd op)) as [o|]; auto.
      rewrite IH by auto. reflexivity.
    + destruct (find_tx table (fst op)) as [p|]; auto.
      destruct (nth_error (t_outs p) (snd op)) as [o|]; auto. rewrite <- Hto. reflexivity.
  - unfold is_confirmed, is_block_conflicted, in_mempool.
    destruct H2 as [[h Hh]|[a Ha]]; rewrite ?Hh, ?Ha; cbn [negb]; auto.
    destruct (is_from_me W (e_tx e)); auto.
Qed.

(* ---- buckets ---- *)
Lemma bucket_of_spec e : (0 < fuel)%nat -> In e W -> bucket_of W tip fuel e = bucket_spec table chain pool tip fuel (e_tx e).
Proof.
  intros Hfuel He. unfold bucket_of, bucket_spec, trusted. rewrite is_trusted_spec by auto.
  destruct fuel as [|f]; [lia|].
  destruct (state_cases e He) as [[h [H1 H2]]|[[H1 H2]|[H1 H2]]]; rewrite H1.
  - pose proof (confirmed_height _ _ H1) as Hh.
    unfold is_immature_coinbase, blocks_to_maturity, is_confirmed, depth, in_mempool. rewrite H2.
    cbn [trusted_spec]. rewrite H1.
    destruct (t_coinbase (e_tx e)); cbn [andb].
    + rewrite andb_true_r.
      destruct (0 <? COINBASE_MATURITY + 1 - (tip - h + 1)) eqn:E.
      * replace (0 <? Z.max 0 (COINBASE_MATURITY + 1 - (tip - h + 1))) with true by (symmetry; apply Z.ltb_lt; lia). reflexivity.
      * replace (0 <? Z.max 0 (COINBASE_MATURITY + 1 - (tip - h + 1))) with false by (symmetry; apply Z.ltb_ge; lia).
        replace (0 <=? tip - h + 1) with true by (symmetry; apply Z.leb_le; lia). reflexivity.
    + change (0 <? 0) with false. cbn [andb].
      replace (0 <=? tip - h + 1) with true by (symmetry; apply Z.leb_le; lia). reflexivity.
  - unfold is_immature_coinbase, blocks_to_maturity, is_confirmed, depth, in_mempool. rewrite H2.
    rewrite andb_false_r. change (0 <=? 0) with true. rewrite andb_true_r.
    destruct (trusted_spec table chain pool (S f) (e_tx e)); reflexivity.
  - assert (Hts : trusted_spec table chain pool (S f) (e_tx e) = false) by (cbn [trusted_spec]; rewrite H1; reflexivity).
    rewrite Hts. unfold is_confirmed, in_mempool.
    destruct H2 as [[h Hh]|[a Ha]]; rewrite ?Hh, ?Ha; rewrite !andb_false_r; reflexivity.
Qed.

(* ---- per transaction ---- *)
Lemma entry_balance_spec e : (0 < fuel)%nat -> In e W ->
  forall outs pre, t_outs (e_tx e) = pre ++ outs ->
  entry_balance W tip fuel e (length pre) outs = tx_balance_spec table chain pool tip fuel pending (e_tx e) (length pre) outs.
Proof.
  intros Hfuel He. induction outs as [|o r IH]; intros pre Hsk; [reflexivity|].
  cbn [entry_balance tx_balance_spec].
  assert (Hn : nth_error (t_outs (e_tx e)) (length pre) = Some o).
  { rewrite Hsk. rewrite nth_error_app2 by lia. rewrite Nat.sub_diag. reflexivity. }
  assert (Hr : t_outs (e_tx e) = (pre ++ [o]) ++ r) by (rewrite <- app_assoc; exact Hsk).
  pose proof (IH _ Hr) as IH'. rewrite app_length in IH'. simpl in IH'. rewrite Nat.add_1_r in IH'.
  rewrite IH'. f_equal.
  destruct (o_mine o) eqn:Em; [|reflexivity]. cbn [andb].
  pose proof (out_mine_entry e (length pre) o He Hn) as Hom. rewrite Em in Hom.
  pose proof (how_spent_spec (t_id (e_tx e), length pre) Hom) as Hs.
  destruct (how_spent W (t_id (e_tx e), length pre)); destruct (spent_spec table chain pool pending (t_id (e_tx e), length pre)); simpl in Hs; try discriminate; cbn [negb]; auto.
  rewrite bucket_of_spec by auto. reflexivity.
Qed.

(* a table transaction that is not in the wallet contributes nothing *)
Lemma absent_tx_zero t : forall outs n, bucket_spec table chain pool tip fuel t = BNone ->
  tx_balance_spec table chain pool tip fuel pending t n outs = bal_zero.
Proof.
  induction outs as [|o r IH]; intros n Hb; [reflexivity|].
  cbn [tx_balance_spec]. rewrite Hb. rewrite IH by auto.
  destruct (o_mine o && negb _); reflexivity.
Qed.

Lemma nomine_tx_zero t : forall outs n, existsb o_mine outs = false ->
  tx_balance_spec table chain pool tip fuel pending t n outs = bal_zero.
Proof.
  induction outs as [|o r IH]; intros n Hb; [reflexivity|].
  cbn [tx_balance_spec]. simpl in Hb. apply orb_false_iff in Hb. destruct Hb as [H1 H2].
  rewrite H1, IH by auto. reflexivity.
Qed.

Lemma outside_wallet_zero t : In t table -> in_wallet W t = false ->
  tx_balance_spec table chain pool tip fuel pending t 0 (t_outs t) = bal_zero.
Proof.
  intros Ht Hw. destruct (present chain pool (t_id t)) eqn:Hp.
  - destruct (relevant table t) eqn:Hr.
    + rewrite (T_complete t Ht Hp Hr) in Hw. discriminate.
    + apply nomine_tx_zero. unfold relevant in Hr. apply orb_false_iff in Hr. tauto.
  - apply absent_tx_zero. unfold bucket_spec. unfold present in Hp. destruct (St (t_id t)); try discriminate. reflexivity.
Qed.

(* ---- the sums ---- *)
Lemma listed_nil tb : listed_in_order [] tb = true.
Proof. destruct tb; reflexivity. Qed.

Lemma sum_over_subsequence : forall tb Wl,
  listed_in_order Wl tb = true -> NoDup (map t_id tb) ->
  (forall e, In e Wl -> In e W) -> (forall t, In t tb -> In t table) ->
  (forall t, In t tb -> in_wallet Wl t = false -> in_wallet W t = false) ->
  (0 < fuel)%nat ->
  sum_bal (map (fun e => entry_balance W tip fuel e 0 (t_outs (e_tx e))) Wl) =
  sum_bal (map (fun t => tx_balance_spec table chain pool tip fuel pending t 0 (t_outs t)) tb).
Proof.
  induction tb as [|t tb IH]; intros Wl Hl Hnd HW Htb Hout Hfuel.
  - destruct Wl; [reflexivity|discriminate].
  - inversion Hnd as [|? ? Hni Hnd']; subst.
    destruct Wl as [|e0 Wl'].
    + assert (IH0 : sum_bal (map (fun e => entry_balance W tip fuel e 0 (t_outs (e_tx e))) []) =
                    sum_bal (map (fun t => tx_balance_spec table chain pool tip fuel pending t 0 (t_outs t)) tb)).
      { refine (IH [] (listed_nil tb) Hnd' _ _ _ Hfuel).
        - intros e [].
        - intros t' Ht'. apply Htb. right; auto.
        - intros t' Ht' _. apply Hout; [right; auto|reflexivity]. }
      cbn [map sum_bal] in *. rewrite <- IH0.
      rewrite outside_wallet_zero; [reflexivity|apply Htb; left; auto|apply Hout; [left; auto|reflexivity]].
    + simpl in Hl. destruct (wtx_eqb (e_tx e0) t) eqn:E.
      * apply wtx_eqb_eq in E. cbn [map sum_bal]. f_equal.
        -- rewrite <- E. apply (entry_balance_spec e0 Hfuel (HW e0 (or_introl eq_refl)) (t_outs (e_tx e0)) []). reflexivity.
        -- refine (IH Wl' Hl Hnd' _ _ _ Hfuel).
           ++ intros e He. apply HW. right; auto.
           ++ intros t' Ht'. apply Htb. right; auto.
           ++ intros t' Ht' Hw. apply Hout; [right; auto|].
              simpl. rewrite Hw. rewrite orb_false_r. apply Nat.eqb_neq. intro Hid. apply Hni. rewrite <- E, Hid. apply in_map; auto.
      * assert (IH0 : sum_bal (map (fun e => entry_balance W tip fuel e 0 (t_outs (e_tx e))) (e0 :: Wl')) =
                      sum_bal (map (fun t => tx_balance_spec table chain pool tip fuel pending t 0 (t_outs t)) tb)).
        { refine (IH (e0 :: Wl') Hl Hnd' HW _ _ Hfuel).
          - intros t' Ht'. apply Htb. right; auto.
          - intros t' Ht' Hw. apply Hout; [right; auto|auto]. }
        cbn [map sum_bal] in *. rewrite IH0.
        rewrite outside_wallet_zero; [rewrite bal_add_zero_l; reflexivity|apply Htb; left; auto|].
        apply Hout; [left; auto|].
        (* t is not among the ids of e0 :: Wl': they all occur later in tb *)
        apply not_true_is_false. intro Hw. unfold in_wallet in Hw. apply existsb_exists in Hw. destruct Hw as [e [He Hid]].
        apply Nat.eqb_eq in Hid. apply Hni. rewrite <- Hid. apply in_map. eapply listed_in; eauto.
Qed.

Theorem balance_is_spec : (0 < fuel)%nat ->
  get_balance W tip fuel = balance_spec table chain pool tip fuel pending.
Proof.
  intros Hfuel. unfold get_balance, balance_spec.
  apply sum_over_subsequence; auto.
  - apply T_order.
  - apply T_nodup.
Qed.
End Tracks.

(* ------------------------------------------------------------------------------------------- *)
(* Conflicted / inactive transactions are not counted; the coins they spent are restored *)
Lemma is_trusted_conflicted W f e :
  (exists h, e_state e = SConflicted h) \/ (exists a, e_state e = SInactive a) -> is_trusted W f e = false.
Proof.
  intros H. destruct f as [|f]; [reflexivity|]. cbn [is_trusted].
  unfold is_confirmed, is_block_conflicted, in_mempool.
  destruct H as [[h Hh]|[a Ha]]; rewrite ?Hh, ?Ha; auto.
  destruct (is_from_me W (e_tx e)); auto.
Qed.

Lemma conflicted_not_counted W tip fuel e :
  (exists h, e_state e = SConflicted h) \/ (exists a, e_state e = SInactive a) ->
  forall outs n, entry_balance W tip fuel e n outs = bal_zero.
Proof.
  intros H.
  assert (Hb : bucket_of W tip fuel e = BNone).
  { unfold bucket_of, trusted. rewrite is_trusted_conflicted by auto.
    unfold is_confirmed, in_mempool. destruct H as [[h Hh]|[a Ha]]; rewrite ?Hh, ?Ha; rewrite !andb_false_r; reflexivity. }
  induction outs as [|o r IH]; intros n; [reflexivity|].
  cbn [entry_balance]. rewrite Hb, IH.
  destruct (o_mine o); [destruct (how_spent W (t_id (e_tx e), n))|]; reflexivity.
Qed.

Lemma conflict_restores_coins W op :
  (forall e, In e W -> spends op (e_tx e) = true ->
             is_block_conflicted e = true \/ is_abandoned e = true \/ (e_mconf e = true /\ is_confirmed e = false /\ in_mempool e = false)) ->
  how_spent W op = Unspent /\ is_spent W op = false.
Proof.
  intros H.
  assert (Hall : forall e, In e (filter (fun e => spends op (e_tx e)) W) ->
                           is_confirmed e = false /\ in_mempool e = false /\ live_nonmempool e = false).
  { intros e He. apply filter_In in He. destruct He as [He Hs]. specialize (H e He Hs).
    unfold live_nonmempool, is_confirmed, in_mempool, is_block_conflicted, is_abandoned in *.
    destruct (e_state e) as [h| |h|[|]]; destruct (e_mconf e); simpl in *; intuition discriminate. }
  split.
  - unfold how_spent.
    replace (existsb is_confirmed _) with false.
    2:{ symmetry. apply not_true_is_false. intro E. apply existsb_exists in E. destruct E as [e [E1 E2]]. destruct (Hall e E1) as [? _]. congruence. }
    replace (existsb in_mempool _) with false.
    2:{ symmetry. apply not_true_is_false. intro E. apply existsb_exists in E. destruct E as [e [E1 E2]]. destruct (Hall e E1) as [_ [? _]]. congruence. }
    replace (existsb live_nonmempool _) with false.
    2:{ symmetry. apply not_true_is_false. intro E. apply existsb_exists in E. destruct E as [e [E1 E2]]. destruct (Hall e E1) as [_ [_ ?]]. congruence. }
    reflexivity.
  - unfold is_spent. apply not_true_is_false. intro E. apply existsb_exists in E. destruct E as [e [E1 E2]].
    apply andb_prop in E2. destruct E2 as [E2 E5]. apply andb_prop in E2. destruct E2 as [E2 E4]. apply andb_prop in E2. destruct E2 as [E2 E3].
    specialize (H e E1 E2). apply negb_true_iff in E3, E4, E5. destruct H as [H|[H|[H _]]]; congruence.
Qed.

(* ------------------------------------------------------------------------------------------- *)
(* Sufficient fuel: when every input refers to a transaction with a smaller id (creation order), any fuel above the
   transaction's id gives the same answer *)
Lemma is_trusted_fuel_irrelevant W :
  (forall e, In e W -> forall op, In op (t_ins (e_tx e)) -> (fst op < t_id (e_tx e))%nat) ->
  forall f1 f2 e, In e W -> (t_id (e_tx e) < f1)%nat -> (f1 <= f2)%nat -> is_trusted W f1 e = is_trusted W f2 e.
Proof.
  intros Htopo. induction f1 as [|f1 IH]; intros f2 e He Hlt Hle; [lia|].
  destruct f2 as [|f2]; [lia|]. cbn [is_trusted].
  destruct (is_confirmed e); auto. destruct (is_block_conflicted e); auto.
  destruct (negb (is_from_me W (e_tx e))); auto. destruct (negb (in_mempool e)); auto.
  apply forallb_ext_in'. intros op Hop.
  destruct (find_entry W (fst op)) as [p|] eqn:Ef; auto.
  unfold find_entry in Ef. apply find_some in Ef. destruct Ef as [Hp Hid]. apply Nat.eqb_eq in Hid.
  destruct (nth_error (t_outs (e_tx p)) (snd op)); auto. f_equal.
  apply IH; auto; [|lia]. specialize (Htopo e He op Hop). lia.
Qed.
