(* VecDeque: every operation preserves the ring-buffer invariant, stays in bounds, and commutes with
   the std::deque (plain list) specification through vd_abs; then all scripts by induction. *)
From Coq Require Import List Arith Bool Lia.
Unset Lia Cache.
From BV Require Import model.ContBuf proofs.ContBufLemmas model.ContVecDeque.
Import ListNotations.

Ltac vb2p :=
  repeat match goal with
  | H : (_ <=? _) = true |- _ => apply Nat.leb_le in H
  | H : (_ <=? _) = false |- _ => apply Nat.leb_gt in H
  | H : (_ <? _) = true |- _ => apply Nat.ltb_lt in H
  | H : (_ <? _) = false |- _ => apply Nat.ltb_ge in H
  | H : (_ =? _) = true |- _ => apply Nat.eqb_eq in H
  | H : (_ =? _) = false |- _ => apply Nat.eqb_neq in H
  | H : (_ && _) = true |- _ => apply andb_true_iff in H; destruct H
  end.
Ltac set_true c := replace c with true by (symmetry; first [apply Nat.leb_le | apply Nat.ltb_lt | apply Nat.eqb_eq]; lia).
Ltac set_false c := replace c with false by (symmetry; first [apply Nat.leb_gt | apply Nat.ltb_ge | apply Nat.eqb_neq]; lia).

Section V.
  Variable T : Type.
  Variables (T0 junk : T).
  Notation vd := (vd T).
  Notation vd_inv := (vd_inv T).
  Notation vd_abs := (vd_abs T).
  Notation rot := (rot T).
  Notation buffer_index := (buffer_index T).
  Notation unwrap_into := (unwrap_into T).
  Notation reallocate := (reallocate T junk).
  Notation construct_loop := (construct_loop T T0).
  Notation resize := (resize T T0 junk).
  Notation push_back := (push_back T junk).
  Notation push_front := (push_front T junk).
  Notation pop_back := (pop_back T).
  Notation pop_front := (pop_front T).
  Notation copy_assign := (copy_assign T junk).
  Notation reserve := (reserve T junk).
  Notation shrink_to_fit := (shrink_to_fit T junk).
  Notation set := (set T).
  Notation get := (get T).
  Notation clear := (clear T).
  Notation vd_empty := (vd_empty T).
  Notation vd_step := (vd_step T T0 junk).
  Notation vd_run := (vd_run T T0 junk).
  Notation deq_step := (deq_step T T0).
  Notation deq_run := (deq_run T T0).
  Notation mkvd := (mkvd T).

  Lemma rot_length off (b : list T) : length (rot off b) = length b.
  Proof. unfold ContVecDeque.rot. rewrite app_length, skipn_length, firstn_length. lia. Qed.
  Lemma rot_0 (b : list T) : rot 0 b = b.
  Proof. unfold ContVecDeque.rot. simpl. apply app_nil_r. Qed.

  Lemma abs_length s : vd_inv s -> length (vd_abs s) = v_size T s.
  Proof.
    intros (L&Sc&O). unfold ContVecDeque.vd_abs. rewrite firstn_length, rot_length. lia.
  Qed.

  (* writing through BufferIndex(i) is writing logical slot i of the unrolled ring *)
  Lemma rot_set (buf : list T) off i v : off < length buf -> i < length buf ->
    rot off (bw buf (if length buf - off <=? i then off + i - length buf else off + i) [v])
    = bw (rot off buf) i [v].
  Proof.
    intros Ho Hi. unfold ContVecDeque.rot.
    remember (firstn off buf) as A eqn:EA. remember (skipn off buf) as B eqn:EB.
    assert (Hb : buf = A ++ B) by (subst; symmetry; apply firstn_skipn).
    assert (LA : length A = off) by (subst A; rewrite firstn_length; lia).
    assert (LB : length B = length buf - off) by (subst B; rewrite skipn_length; lia).
    destruct (length buf - off <=? i) eqn:E; vb2p.
    - (* wrapped part *)
      set (j := off + i - length buf).
      assert (Hj : j + 1 <= length A) by (unfold j; lia).
      rewrite Hb. rewrite bw_app_l by (simpl; lia).
      assert (LA' : length (bw A j [v]) = off) by (rewrite length_bw by (simpl; lia); lia).
      rewrite skipn_app_exact by lia. rewrite firstn_app_exact by lia.
      replace i with (length B + j) by (unfold j; lia). rewrite bw_app_r. reflexivity.
    - rewrite Hb. replace (off + i) with (length A + i) by lia. rewrite bw_app_r.
      rewrite skipn_app_exact by lia. rewrite firstn_app_exact by lia.
      rewrite bw_app_l by (simpl; lia). reflexivity.
  Qed.

  (* reading through BufferIndex(i) is reading logical slot i *)
  Lemma rot_get (buf : list T) off i : off < length buf -> i < length buf ->
    nth_error buf (if length buf - off <=? i then off + i - length buf else off + i) = nth_error (rot off buf) i.
  Proof.
    intros Ho Hi. unfold ContVecDeque.rot.
    rewrite nth_error_app', nth_error_skipn', nth_error_firstn', skipn_length.
    destruct (length buf - off <=? i) eqn:E; vb2p.
    - set_false (i <? length buf - off). set_true (i - (length buf - off) <? off). f_equal. lia.
    - set_true (i <? length buf - off). reflexivity.
  Qed.

  Lemma unwrap_into_ok s dst : vd_inv s -> v_size T s <= length dst ->
    exists nb, unwrap_into s dst = Some nb /\ length nb = length dst /\ firstn (v_size T s) nb = vd_abs s.
  Proof.
    destruct s as [buf off size cap]. intros (L&Sc&O) Hd. simpl in *.
    unfold ContVecDeque.unwrap_into, ContVecDeque.first_part, ContVecDeque.vd_abs, ContVecDeque.rot. simpl.
    destruct (le_lt_dec size (cap - off)) as [Hc|Hc].
    - (* no wrap *)
      rewrite Nat.min_r by lia. rewrite Nat.eqb_refl. simpl.
      destruct (size =? 0) eqn:E0; vb2p; simpl.
      + subst size. exists dst. auto.
      + rewrite buf_read_some by lia. rewrite buf_write_some by (rewrite length_br by lia; lia).
        eexists; split; [reflexivity|]. split; [apply length_bw; rewrite length_br by lia; lia|].
        assert (LR : length (br buf off size) = size) by (apply length_br; lia).
        replace (firstn size (bw dst 0 (br buf off size)))
          with (firstn (0 + length (br buf off size)) (bw dst 0 (br buf off size))) by (f_equal; lia).
        rewrite firstn_bw_exact by lia. simpl.
        rewrite firstn_app_le by (rewrite skipn_length; lia). reflexivity.
    - (* wraps: first part is everything from the offset to the end of the buffer *)
      rewrite Nat.min_l by lia.
      destruct O as [O|[O1 O2]]; [|lia].
      set_false (cap - off =? 0). set_false (cap - off =? size). simpl.
      rewrite buf_read_some by lia.
      assert (LR : length (br buf off (cap - off)) = cap - off) by (apply length_br; lia).
      rewrite buf_write_some by lia.
      rewrite buf_read_some by lia.
      assert (LR2 : length (br buf 0 (size - (cap - off))) = size - (cap - off)) by (apply length_br; lia).
      assert (L1 : length (bw dst 0 (br buf off (cap - off))) = length dst) by (apply length_bw; lia).
      rewrite buf_write_some by lia.
      eexists; split; [reflexivity|]. split; [rewrite length_bw by lia; lia|].
      replace size with ((cap - off) + length (br buf 0 (size - (cap - off)))) at 1 by lia.
      rewrite firstn_bw_exact by lia.
      replace (firstn (cap - off) (bw dst 0 (br buf off (cap - off))))
        with (firstn (0 + length (br buf off (cap - off))) (bw dst 0 (br buf off (cap - off)))) by (f_equal; lia).
      rewrite firstn_bw_exact by lia. simpl.
      rewrite firstn_app_ge by (rewrite skipn_length; lia). rewrite skipn_length, L.
      unfold br. simpl. rewrite firstn_firstn.
      rewrite firstn_all2 by (rewrite skipn_length; lia).
      f_equal. f_equal. lia.
  Qed.

  Lemma reallocate_ok s c : vd_inv s -> v_size T s <= c ->
    exists s', reallocate s c = Some s' /\ vd_inv s' /\ vd_abs s' = vd_abs s /\
      v_size T s' = v_size T s /\ v_cap T s' = c /\ v_off T s' = 0.
  Proof.
    intros Hinv Hc. unfold ContVecDeque.reallocate. set_true (v_size T s <=? c).
    destruct (c =? 0) eqn:E0; vb2p; simpl.
    - subst c. eexists; split; [reflexivity|]. split; [|split]; [| |auto].
      + unfold ContVecDeque.vd_inv. simpl. lia.
      + unfold ContVecDeque.vd_abs. simpl. replace (v_size T s) with 0 by lia. reflexivity.
    - destruct (unwrap_into_ok s (repeat junk c) Hinv) as (nb&E&Ln&A); [rewrite repeat_length; lia|].
      rewrite E. rewrite repeat_length in Ln. eexists; split; [reflexivity|]. split; [|split]; [| |auto].
      + unfold ContVecDeque.vd_inv. simpl. lia.
      + unfold ContVecDeque.vd_abs at 1. simpl. rewrite rot_0. exact A.
  Qed.

  (* the core of emplace_back / the resize loop: construct at BufferIndex(m_size); ++m_size *)
  Lemma construct_back_ok s v : vd_inv s -> v_size T s < v_cap T s ->
    exists b, buf_set (v_buf T s) (buffer_index s (v_size T s)) v = Some b /\
      let s' := mkvd b (v_off T s) (v_size T s + 1) (v_cap T s) in
      vd_inv s' /\ vd_abs s' = vd_abs s ++ [v].
  Proof.
    destruct s as [buf off size cap]. intros (L&Sc&O) Hc. simpl in *.
    destruct O as [O|[O1 O2]]; [|lia].
    unfold ContVecDeque.buffer_index; simpl.
    assert (Hidx : (if cap - off <=? size then off + size - cap else off + size) < cap)
      by (destruct (cap - off <=? size) eqn:E; vb2p; lia).
    rewrite buf_set_some by lia. eexists; split; [reflexivity|]. simpl. split.
    - unfold ContVecDeque.vd_inv; simpl. rewrite length_bw by (simpl; lia). lia.
    - unfold ContVecDeque.vd_abs; simpl. subst cap. rewrite rot_set by lia.
      replace (size + 1) with (size + length [v]) by (simpl; lia).
      rewrite firstn_bw_exact by (rewrite rot_length; lia). reflexivity.
  Qed.

  Lemma construct_loop_ok n : forall s, vd_inv s -> v_size T s + n <= v_cap T s ->
    exists s', construct_loop s n = Some s' /\ vd_inv s' /\ vd_abs s' = vd_abs s ++ repeat T0 n /\
      v_cap T s' = v_cap T s /\ v_off T s' = v_off T s.
  Proof.
    induction n as [|n IH]; intros s Hinv Hc; simpl.
    - exists s. rewrite app_nil_r. auto.
    - destruct (construct_back_ok s T0 Hinv) as (b&E&I&A); [lia|]. rewrite E. cbv zeta in I, A.
      destruct (IH _ I) as (s'&E'&I'&A'&C'&O'); [simpl; lia|].
      exists s'. split; [exact E'|]. split; [exact I'|]. split; [|auto].
      rewrite A', A. rewrite <- app_assoc. reflexivity.
  Qed.

  Lemma resize_ok s n : vd_inv s ->
    exists s', resize s n = Some s' /\ vd_inv s' /\
      vd_abs s' = firstn n (vd_abs s) ++ repeat T0 (n - length (vd_abs s)) /\
      v_cap T s' = (if v_cap T s <? n then n else v_cap T s).
  Proof.
    intros Hinv. pose proof (abs_length s Hinv) as La. pose proof Hinv as (L&Sc&O).
    unfold ContVecDeque.resize.
    destruct (n <? v_size T s) eqn:E1; vb2p.
    - eexists; split; [reflexivity|]. split; [|split].
      + unfold ContVecDeque.vd_inv; simpl. lia.
      + unfold ContVecDeque.vd_abs; simpl. rewrite firstn_firstn, Nat.min_l by lia.
        replace (n - _) with 0 by (fold (vd_abs s); lia). simpl. rewrite app_nil_r. reflexivity.
      + simpl. set_false (v_cap T s <? n). reflexivity.
    - destruct (v_size T s <? n) eqn:E2; vb2p.
      + assert (H1 : exists s1, (if v_cap T s <? n then reallocate s n else Some s) = Some s1 /\ vd_inv s1 /\
                 vd_abs s1 = vd_abs s /\ v_size T s1 = v_size T s /\ v_cap T s1 = (if v_cap T s <? n then n else v_cap T s)).
        { destruct (v_cap T s <? n) eqn:E3; vb2p.
          - destruct (reallocate_ok s n Hinv) as (s1&E&I&A&Sz&C&_); [lia|]. exists s1. auto.
          - exists s. auto. }
        destruct H1 as (s1&E&I&A&Sz&C). rewrite E.
        destruct (construct_loop_ok (n - v_size T s1) s1 I) as (s'&E'&I'&A'&C'&_).
        { rewrite Sz, C. destruct (v_cap T s <? n) eqn:E3; vb2p; lia. }
        exists s'. split; [exact E'|]. split; [exact I'|]. split.
        * rewrite A', A, Sz, La. rewrite firstn_all2 by lia. reflexivity.
        * rewrite C', C. reflexivity.
      + assert (n = v_size T s) by lia. subst n. exists s. split; [reflexivity|]. split; [exact Hinv|]. split.
        * rewrite firstn_all2 by lia. rewrite La, Nat.sub_diag. simpl. rewrite app_nil_r. reflexivity.
        * set_false (v_cap T s <? v_size T s). reflexivity.
  Qed.

  Lemma clear_ok s : vd_inv s -> vd_inv (clear s) /\ vd_abs (clear s) = [].
  Proof. intros (L&Sc&O). unfold ContVecDeque.clear, ContVecDeque.vd_inv, ContVecDeque.vd_abs; simpl. split; [lia|reflexivity]. Qed.

  Lemma push_back_ok s v : vd_inv s ->
    exists s', push_back s v = Some s' /\ vd_inv s' /\ vd_abs s' = vd_abs s ++ [v] /\
      v_cap T s' = (if v_size T s =? v_cap T s then (v_size T s + 1) * 2 else v_cap T s).
  Proof.
    intros Hinv. pose proof Hinv as (L&Sc&O). unfold ContVecDeque.push_back.
    assert (H1 : exists s1, (if v_size T s =? v_cap T s then reallocate s ((v_size T s + 1) * 2) else Some s) = Some s1 /\ vd_inv s1 /\
               vd_abs s1 = vd_abs s /\ v_size T s1 < v_cap T s1 /\
               v_cap T s1 = (if v_size T s =? v_cap T s then (v_size T s + 1) * 2 else v_cap T s)).
    { destruct (v_size T s =? v_cap T s) eqn:E3; vb2p.
      - destruct (reallocate_ok s ((v_size T s + 1) * 2) Hinv) as (s1&E&I&A&Sz&C&_); [lia|]. exists s1.
        split; [exact E|]. split; [exact I|]. split; [exact A|]. split; [lia|exact C].
      - exists s. split; [reflexivity|]. split; [exact Hinv|]. split; [reflexivity|]. split; [lia|reflexivity]. }
    destruct H1 as (s1&E&I&A&Sz&C). rewrite E.
    destruct (construct_back_ok s1 v I Sz) as (b&E'&I'&A'). rewrite E'. cbv zeta in I', A'.
    eexists; split; [reflexivity|]. split; [exact I'|]. split; [rewrite A', A; reflexivity|exact C].
  Qed.

  (* emplace_front core *)
  Lemma construct_front_ok s v : vd_inv s -> v_size T s < v_cap T s ->
    exists b, buf_set (v_buf T s) (buffer_index s (v_cap T s - 1)) v = Some b /\
      let off := if v_off T s =? 0 then v_cap T s else v_off T s in
      1 <= off /\
      let s' := mkvd b (off - 1) (v_size T s + 1) (v_cap T s) in
      vd_inv s' /\ vd_abs s' = v :: vd_abs s.
  Proof.
    destruct s as [buf off size cap]. intros (L&Sc&O) Hc. simpl in *.
    destruct O as [O|[O1 O2]]; [|lia].
    unfold ContVecDeque.buffer_index; simpl.
    set (off' := (if off =? 0 then cap else off) - 1).
    assert (Hoff : (if cap - off <=? cap - 1 then off + (cap - 1) - cap else off + (cap - 1)) = off').
    { unfold off'. destruct (off =? 0) eqn:E0; vb2p.
      - subst off. set_false (cap - 0 <=? cap - 1). lia.
      - set_true (cap - off <=? cap - 1). lia. }
    rewrite Hoff. assert (Ho' : off' < cap) by (unfold off'; destruct (off =? 0) eqn:E0; vb2p; lia).
    rewrite buf_set_some by lia. eexists; split; [reflexivity|]. cbv zeta.
    split; [destruct (off =? 0) eqn:E0; vb2p; lia|]. fold off'. split.
    - unfold ContVecDeque.vd_inv; simpl. rewrite length_bw by (simpl; lia). lia.
    - unfold ContVecDeque.vd_abs, ContVecDeque.rot; simpl.
      rewrite skipn_bw by lia. rewrite firstn_bw_le by lia. simpl length. cbn [app].
      replace (size + 1) with (S size) by lia. cbn [firstn]. f_equal.
      unfold off'. destruct (off =? 0) eqn:E0; vb2p.
      + subst off. replace (cap - 1 + 1) with cap by lia. rewrite skipn_all2 by lia. simpl.
        rewrite app_nil_r. rewrite firstn_firstn. f_equal. lia.
      + replace (off - 1 + 1) with off by lia.
        rewrite (firstn_app_prefix (skipn off buf) buf size (off - 1)) by (rewrite skipn_length; lia).
        rewrite (firstn_app_prefix (skipn off buf) buf size off) by (rewrite skipn_length; lia).
        reflexivity.
  Qed.

  Lemma push_front_ok s v : vd_inv s ->
    exists s', push_front s v = Some s' /\ vd_inv s' /\ vd_abs s' = v :: vd_abs s /\
      v_cap T s' = (if v_size T s =? v_cap T s then (v_size T s + 1) * 2 else v_cap T s).
  Proof.
    intros Hinv. pose proof Hinv as (L&Sc&O). unfold ContVecDeque.push_front.
    assert (H1 : exists s1, (if v_size T s =? v_cap T s then reallocate s ((v_size T s + 1) * 2) else Some s) = Some s1 /\ vd_inv s1 /\
               vd_abs s1 = vd_abs s /\ v_size T s1 < v_cap T s1 /\
               v_cap T s1 = (if v_size T s =? v_cap T s then (v_size T s + 1) * 2 else v_cap T s)).
    { destruct (v_size T s =? v_cap T s) eqn:E3; vb2p.
      - destruct (reallocate_ok s ((v_size T s + 1) * 2) Hinv) as (s1&E&I&A&Sz&C&_); [lia|]. exists s1.
        split; [exact E|]. split; [exact I|]. split; [exact A|]. split; [lia|exact C].
      - exists s. split; [reflexivity|]. split; [exact Hinv|]. split; [reflexivity|]. split; [lia|reflexivity]. }
    destruct H1 as (s1&E&I&A&Sz&C). rewrite E.
    destruct (construct_front_ok s1 v I Sz) as (b&E'&H1&I'&A'). rewrite E'. cbv zeta in H1, I', A'.
    apply Nat.leb_le in H1. rewrite H1.
    eexists; split; [reflexivity|]. split; [exact I'|]. split; [rewrite A', A; reflexivity|exact C].
  Qed.

  Lemma pop_back_ok s : vd_inv s -> 1 <= v_size T s ->
    exists s', pop_back s = Some s' /\ vd_inv s' /\ vd_abs s' = removelast (vd_abs s) /\ v_cap T s' = v_cap T s.
  Proof.
    intros Hinv H1. pose proof Hinv as (L&Sc&O). unfold ContVecDeque.pop_back. set_true (1 <=? v_size T s).
    eexists; split; [reflexivity|]. split; [|split; [|reflexivity]].
    - unfold ContVecDeque.vd_inv; simpl. lia.
    - unfold ContVecDeque.vd_abs; simpl.
      replace (v_size T s) with (S (v_size T s - 1)) at 2 by lia.
      rewrite removelast_firstn by (rewrite rot_length; lia). reflexivity.
  Qed.

  Lemma skipn_skipn' (l : list T) a b : skipn a (skipn b l) = skipn (b + a) l.
  Proof.
    revert l. induction b as [|b IH]; intros l; [reflexivity|].
    destruct l as [|x l]; [rewrite !skipn_nil; reflexivity|]. simpl. apply IH.
  Qed.

  Lemma pop_front_ok s : vd_inv s -> 1 <= v_size T s ->
    exists s', pop_front s = Some s' /\ vd_inv s' /\ vd_abs s' = tl (vd_abs s) /\ v_cap T s' = v_cap T s.
  Proof.
    destruct s as [buf off size cap]. intros (L&Sc&O) H1. simpl in *.
    destruct O as [O|[O1 O2]]; [|lia].
    unfold ContVecDeque.pop_front; cbn [ContVecDeque.v_size ContVecDeque.v_off ContVecDeque.v_cap ContVecDeque.v_buf]. set_true (1 <=? size).
    eexists; split; [reflexivity|]. split; [|split; [|reflexivity]].
    - unfold ContVecDeque.vd_inv; simpl. destruct (off + 1 =? cap) eqn:E; vb2p; lia.
    - unfold ContVecDeque.vd_abs, ContVecDeque.rot; simpl.
      assert (Htl : forall l : list T, tl l = skipn 1 l) by (intros [|? ?]; reflexivity).
      rewrite Htl. rewrite skipn_firstn_comm.
      rewrite skipn_app. rewrite skipn_skipn'. rewrite skipn_length.
      replace (1 - (length buf - off)) with 0 by lia. cbn [skipn].
      destruct (off + 1 =? cap) eqn:E; vb2p.
      + replace (off + 1) with (length buf) by lia. rewrite skipn_all. simpl.
        rewrite app_nil_r. rewrite firstn_firstn. f_equal. lia.
      + rewrite (firstn_app_prefix (skipn (off + 1) buf) buf (size - 1) off) by (rewrite skipn_length; lia).
        rewrite (firstn_app_prefix (skipn (off + 1) buf) buf (size - 1) (off + 1)) by (rewrite skipn_length; lia).
        reflexivity.
  Qed.

  Lemma set_ok s i v : vd_inv s -> i < v_size T s ->
    exists s', set s i v = Some s' /\ vd_inv s' /\
      vd_abs s' = firstn i (vd_abs s) ++ v :: skipn (S i) (vd_abs s) /\ v_cap T s' = v_cap T s.
  Proof.
    destruct s as [buf off size cap]. intros (L&Sc&O) Hi. simpl in *.
    destruct O as [O|[O1 O2]]; [|lia].
    unfold ContVecDeque.set, ContVecDeque.buffer_index; simpl. set_true (i <? size).
    assert (Hidx : (if cap - off <=? i then off + i - cap else off + i) < cap)
      by (destruct (cap - off <=? i) eqn:E; vb2p; lia).
    rewrite buf_set_some by lia. eexists; split; [reflexivity|]. split; [|split; [|reflexivity]].
    - unfold ContVecDeque.vd_inv; simpl. rewrite length_bw by (simpl; lia). lia.
    - unfold ContVecDeque.vd_abs; simpl. subst cap. rewrite rot_set by lia.
      apply firstn_update; [lia|rewrite rot_length; lia].
  Qed.

  Lemma get_ok s i : vd_inv s -> i < v_size T s -> get s i = nth_error (vd_abs s) i.
  Proof.
    destruct s as [buf off size cap]. intros (L&Sc&O) Hi. simpl in *.
    destruct O as [O|[O1 O2]]; [|lia].
    unfold ContVecDeque.get, ContVecDeque.buffer_index, ContVecDeque.vd_abs, buf_get; simpl. set_true (i <? size).
    subst cap. rewrite rot_get by lia. rewrite nth_error_firstn'. set_true (i <? size). reflexivity.
  Qed.

  Lemma vd_empty_inv : vd_inv vd_empty.
  Proof. unfold ContVecDeque.vd_inv; simpl. lia. Qed.
  Lemma vd_empty_abs : vd_abs vd_empty = [].
  Proof. reflexivity. Qed.

  Lemma copy_assign_ok s other : vd_inv s -> vd_inv other ->
    exists s', copy_assign s other = Some s' /\ vd_inv s' /\ vd_abs s' = vd_abs other /\
      v_cap T s' = v_size T other /\ v_off T s' = 0.
  Proof.
    intros Hs Ho. unfold ContVecDeque.copy_assign.
    destruct (clear_ok s Hs) as (Ic&Ac).
    destruct (reallocate_ok (clear s) (v_size T other) Ic) as (s1&E&I&A&Sz&C&Of); [simpl; lia|]. rewrite E.
    destruct I as (L1&S1&O1).
    destruct (unwrap_into_ok other (v_buf T s1) Ho) as (nb&E2&Ln&A2); [lia|]. rewrite E2.
    eexists; split; [reflexivity|]. split; [|split; [|split]]; simpl; auto.
    - unfold ContVecDeque.vd_inv; simpl. lia.
    - unfold ContVecDeque.vd_abs at 1; simpl. rewrite Of, rot_0. exact A2.
  Qed.

  (* ---- scripts ---- *)
  Definition pair_inv (st : vd * vd) : Prop := vd_inv (fst st) /\ vd_inv (snd st).
  Definition pair_abs (st : vd * vd) : list T * list T := (vd_abs (fst st), vd_abs (snd st)).

  Lemma vd_step_refines st o lst' : pair_inv st -> deq_step (pair_abs st) o = Some lst' ->
    exists st', vd_step st o = Some st' /\ pair_inv st' /\ pair_abs st' = lst'.
  Proof.
    destruct st as [a b]. intros [Ia Ib] H. simpl in Ia, Ib.
    pose proof (abs_length a Ia) as La.
    unfold pair_abs in H. simpl fst in H; simpl snd in H.
    destruct o; unfold ContVecDeque.deq_step in H;
      unfold ContVecDeque.vd_step; unfold ContVecDeque.on_a; simpl fst; simpl snd.
    - (* PushBack *) injection H as <-. destruct (push_back_ok a v Ia) as (s'&E&I&A&_). rewrite E.
      eexists; split; [reflexivity|]. split; [split; assumption|]. unfold pair_abs; simpl. rewrite A. reflexivity.
    - (* PushFront *) injection H as <-. destruct (push_front_ok a v Ia) as (s'&E&I&A&_). rewrite E.
      eexists; split; [reflexivity|]. split; [split; assumption|]. unfold pair_abs; simpl. rewrite A. reflexivity.
    - (* PopBack *) destruct (1 <=? _) eqn:E1; [|discriminate]. vb2p. injection H as <-.
      destruct (pop_back_ok a Ia ltac:(lia)) as (s'&E&I&A&_). rewrite E.
      eexists; split; [reflexivity|]. split; [split; assumption|]. unfold pair_abs; simpl. rewrite A. reflexivity.
    - (* PopFront *) destruct (1 <=? _) eqn:E1; [|discriminate]. vb2p. injection H as <-.
      destruct (pop_front_ok a Ia ltac:(lia)) as (s'&E&I&A&_). rewrite E.
      eexists; split; [reflexivity|]. split; [split; assumption|]. unfold pair_abs; simpl. rewrite A. reflexivity.
    - (* Resize *) injection H as <-. destruct (resize_ok a n Ia) as (s'&E&I&A&_). rewrite E.
      eexists; split; [reflexivity|]. split; [split; assumption|]. unfold pair_abs; simpl. rewrite A. reflexivity.
    - (* Clear *) injection H as <-. destruct (clear_ok a Ia) as (I&A).
      eexists; split; [reflexivity|]. split; [split; assumption|]. unfold pair_abs; simpl. rewrite A. reflexivity.
    - (* Reserve *) injection H as <-. unfold ContVecDeque.reserve.
      destruct (v_cap T a <? n) eqn:E3; vb2p.
      + destruct Ia as (L&Sc&O). destruct (reallocate_ok a n (conj L (conj Sc O))) as (s'&E&I&A&_); [lia|]. rewrite E.
        eexists; split; [reflexivity|]. split; [split; assumption|]. unfold pair_abs; simpl. rewrite A. reflexivity.
      + eexists; split; [reflexivity|]. split; [split; assumption|]. reflexivity.
    - (* ShrinkToFit *) injection H as <-. unfold ContVecDeque.shrink_to_fit.
      destruct (v_size T a <? v_cap T a) eqn:E3; vb2p.
      + destruct (reallocate_ok a (v_size T a) Ia) as (s'&E&I&A&_); [lia|]. rewrite E.
        eexists; split; [reflexivity|]. split; [split; assumption|]. unfold pair_abs; simpl. rewrite A. reflexivity.
      + eexists; split; [reflexivity|]. split; [split; assumption|]. reflexivity.
    - (* SetAt *) destruct (i <? _) eqn:E1; [|discriminate]. vb2p. injection H as <-.
      destruct (set_ok a i v Ia ltac:(lia)) as (s'&E&I&A&_). rewrite E.
      eexists; split; [reflexivity|]. split; [split; assumption|]. unfold pair_abs; simpl. rewrite A. reflexivity.
    - (* Swap *) injection H as <-. eexists; split; [reflexivity|]. split; [split; assumption|reflexivity].
    - (* MoveAssign *) injection H as <-. eexists; split; [reflexivity|]. split; [split; assumption|reflexivity].
    - (* CopyAssign *) injection H as <-. destruct (copy_assign_ok a b Ia Ib) as (s'&E&I&A&_). rewrite E.
      eexists; split; [reflexivity|]. split; [split; assumption|]. unfold pair_abs; simpl. rewrite A. reflexivity.
    - (* CopyCtor *) injection H as <-. unfold ContVecDeque.ctor_copy.
      destruct (copy_assign_ok vd_empty a vd_empty_inv Ia) as (s'&E&I&A&_). rewrite E.
      eexists; split; [reflexivity|]. split; [split; assumption|]. unfold pair_abs; simpl. rewrite A. reflexivity.
    - (* MoveCtor *) injection H as <-. eexists; split; [reflexivity|]. split.
      + split; simpl; [apply vd_empty_inv|assumption].
      + reflexivity.
  Qed.

  Theorem vd_refines_deque ops : forall st lst', pair_inv st -> deq_run (pair_abs st) ops = Some lst' ->
    exists st', vd_run st ops = Some st' /\ pair_inv st' /\ pair_abs st' = lst'.
  Proof.
    induction ops as [|o ops IH]; intros st lst' I H;
      cbn [ContVecDeque.deq_run ContVecDeque.vd_run] in *.
    - injection H as <-. exists st. auto.
    - destruct (deq_step (pair_abs st) o) as [l1|] eqn:E1; [|discriminate].
      destruct (vd_step_refines st o l1 I E1) as (st1&E&I1&A1). rewrite E. subst l1.
      apply IH; assumption.
  Qed.

  Theorem vd_trace_refines ops : forall st lst', pair_inv st -> deq_run (pair_abs st) ops = Some lst' ->
    map (option_map pair_abs) (ContVecDeque.vd_trace T T0 junk st ops) = ContVecDeque.deq_trace T T0 (pair_abs st) ops /\
    Forall (fun o => exists st', o = Some st' /\ pair_inv st') (ContVecDeque.vd_trace T T0 junk st ops).
  Proof.
    induction ops as [|o ops IH]; intros st lst' I H;
      cbn [ContVecDeque.deq_run ContVecDeque.vd_trace ContVecDeque.deq_trace] in *.
    - split; [reflexivity|constructor].
    - destruct (deq_step (pair_abs st) o) as [l1|] eqn:E1; [|discriminate].
      destruct (vd_step_refines st o l1 I E1) as (st1&E&I1&A1). rewrite E. subst l1.
      destruct (IH st1 lst' I1 H) as [IH1 IH2]. split.
      + cbn [map option_map]. rewrite IH1. reflexivity.
      + constructor; [exists st1; auto|exact IH2].
  Qed.

  Lemma vd_invb_iff s : vd_invb T s = true <-> vd_inv s.
  Proof.
    unfold ContVecDeque.vd_invb, ContVecDeque.vd_inv.
    rewrite !andb_true_iff, orb_true_iff, andb_true_iff, !Nat.eqb_eq, Nat.leb_le, Nat.ltb_lt. tauto.
  Qed.

  (* wrap-around made explicit: element i lives at (offset + i) mod capacity *)
  Lemma vecdeque_wraparound s i : vd_inv s -> i < v_size T s ->
    buffer_index s i = (v_off T s + i) mod v_cap T s /\
    nth_error (v_buf T s) ((v_off T s + i) mod v_cap T s) = nth_error (vd_abs s) i.
  Proof.
    intros Hinv Hi. pose proof Hinv as (L&Sc&O). destruct O as [O|[O1 O2]]; [|lia].
    assert (E : buffer_index s i = (v_off T s + i) mod v_cap T s).
    { unfold ContVecDeque.buffer_index. destruct (v_cap T s - v_off T s <=? i) eqn:E; vb2p.
      - apply Nat.mod_unique with (q := 1); lia.
      - symmetry. apply Nat.mod_small. lia. }
    split; [exact E|]. rewrite <- E. rewrite <- get_ok by assumption.
    unfold ContVecDeque.get, buf_get. set_true (i <? v_size T s). reflexivity.
  Qed.
End V.
