(* Script verification flags are soft forks (C11): in the interpreter of model/Script.v and in the VerifyScript
   model of model/ScriptVerify.v, a flag only adds failure conditions (or an evaluation stage that can only fail).
   flags_le f g  =  f is a subset of g.   mono rg rf  =  "if the run under g is Ok a, the run under f is Ok a". *)
From BV Require Import lib.Ints gen.Params_gen model.Script model.ScriptVerify
  proofs.ScriptNumLemmas proofs.ScriptLemmas proofs.ScriptInvLemmas.
Local Open Scope Z_scope.

Definition flags_le (f g : Z) : Prop := forall i, has f i = true -> has g i = true.
Definition mono {A} (rg rf : result A) : Prop := forall a, rg = Ok a -> rf = Ok a.

Lemma mono_refl {A} (r : result A) : mono r r.
Proof. intros a H; exact H. Qed.
Lemma mono_err_l {A} e (r : result A) : mono (Err e) r.
Proof. intros a H; discriminate H. Qed.
Lemma mono_bind {A B} (rg rf : result A) (kg kf : A -> result B) :
  mono rg rf -> (forall a, mono (kg a) (kf a)) -> mono (bind rg kg) (bind rf kf).
Proof.
  intros H1 H2 b H. destruct rg as [a|e]; cbn in H; [|discriminate H]. rewrite (H1 a eq_refl). cbn. apply H2. exact H.
Qed.
Lemma mono_guard {A} (cg cf : bool) e e' (kg kf : result A) :
  (cf = true -> cg = true) -> mono kg kf -> mono (if cg then Err e else kg) (if cf then Err e' else kf).
Proof. intros Hc H a Hg. destruct cg; [discriminate Hg|]. destruct cf; [specialize (Hc eq_refl); discriminate Hc|apply H; exact Hg]. Qed.
Lemma mono_guard_l {A} (c : bool) e (kg rf : result A) : mono kg rf -> mono (if c then Err e else kg) rf.
Proof. intros H a Hg. destruct c; [discriminate Hg|apply H; exact Hg]. Qed.

Ltac mono_step :=
  match goal with
  | |- mono ?x ?x => apply mono_refl
  | |- _ => progress (rewrite ?Bool.andb_true_r, ?Bool.andb_false_r; cbn [andb orb negb])
  | |- mono (Err _) _ => apply mono_err_l
  | |- mono (bind _ _) (bind _ _) => apply mono_bind; [ | intros ]
  | |- mono (if ?c then _ else _) (if ?c then _ else _) => let E := fresh "E" in destruct c eqn:E
  | |- mono (match ?x with _ => _ end) (match ?x with _ => _ end) => let E := fresh "E" in destruct x eqn:E
  | |- mono (let '(_, _) := ?x in _) (let '(_, _) := ?x in _) => let E := fresh "E" in destruct x eqn:E
  | |- mono (if _ then Err _ else _) _ => apply mono_guard_l
  | _ => solve [eauto]
  end.
Ltac mono_steps := repeat mono_step.

(* case split on every flag test in the goal; the combinations that contradict f <= g are discarded *)
Ltac split_has Hle :=
  repeat match goal with
         | |- context [has ?f ?i] => let E := fresh "Ehas" in destruct (has f i) eqn:E
         end;
  try (exfalso; match goal with E1 : has ?f ?i = true, E2 : has ?g ?i = false |- _ => apply Hle in E1; congruence end).

Lemma script_num_mono b1 b2 mx v : (b2 = true -> b1 = true) -> mono (script_num b1 mx v) (script_num b2 mx v).
Proof.
  intros Hb. unfold script_num. destruct b2; [rewrite (Hb eq_refl); apply mono_refl|].
  cbn [andb]. destruct (lenz v >? mx); [apply mono_err_l|]. destruct (b1 && negb (num_minimal v)); [apply mono_err_l|apply mono_refl].
Qed.

Section FlagsMono.
Variable sha256 ripemd160 sha1 : bytes -> bytes.
Variable ck : checker.
Variables f g : Z.
Hypothesis Hle : flags_le f g.

Lemma num4_mono v : mono (num4 g v) (num4 f v).
Proof. unfold num4, require_minimal. apply script_num_mono. apply Hle. Qed.
Lemma num5_mono v : mono (num5 g v) (num5 f v).
Proof. unfold num5, require_minimal. apply script_num_mono. apply Hle. Qed.
Hint Resolve num4_mono num5_mono : core.

Lemma cse_mono sig : mono (check_signature_encoding g sig) (check_signature_encoding f sig).
Proof. unfold check_signature_encoding. destruct sig; [apply mono_refl|]. split_has Hle; cbn [andb orb negb]; mono_steps. Qed.
Lemma cpe_mono sv pk : mono (check_pubkey_encoding g sv pk) (check_pubkey_encoding f sv pk).
Proof. unfold check_pubkey_encoding. split_has Hle; cbn [andb orb negb]; mono_steps. Qed.
Hint Resolve cse_mono cpe_mono : core.

Lemma script_code_del_mono sv code sig : mono (script_code_del g sv code sig) (script_code_del f sv code sig).
Proof. unfold script_code_del. destruct (is_base sv); [|apply mono_refl]. destruct (find_and_delete code (push_encoding sig)) as [c k].
  split_has Hle; rewrite ?Bool.andb_true_r, ?Bool.andb_false_r; mono_steps. Qed.
Hint Resolve script_code_del_mono : core.
Lemma script_code_del_all_mono sv sigs : forall code, mono (script_code_del_all g sv code sigs) (script_code_del_all f sv code sigs).
Proof. induction sigs as [|s r IH]; intros code; cbn [script_code_del_all]; mono_steps. Qed.
Hint Resolve script_code_del_all_mono : core.

Lemma eval_checksig_mono sv sig pk st : mono (eval_checksig g ck sv sig pk st) (eval_checksig f ck sv sig pk st).
Proof.
  unfold eval_checksig, eval_checksig_pre, eval_checksig_tapscript.
  destruct sv; split_has Hle; rewrite ?Bool.andb_true_r, ?Bool.andb_false_r; cbn [andb]; mono_steps.
Qed.
Hint Resolve eval_checksig_mono : core.

Lemma multisig_loop_mono sv code keys : forall sigs, mono (multisig_loop g ck sv code keys sigs) (multisig_loop f ck sv code keys sigs).
Proof. induction keys as [|k ks IH]; intros sigs; destruct sigs as [|s ss]; cbn [multisig_loop]; mono_steps. Qed.
Hint Resolve multisig_loop_mono : core.

Lemma eval_checkmultisig_mono sv st : mono (eval_checkmultisig g ck sv st) (eval_checkmultisig f ck sv st).
Proof.
  unfold eval_checkmultisig.
  split_has Hle; rewrite ?Bool.andb_true_r, ?Bool.andb_false_r; cbn [andb]; mono_steps.
Qed.
Hint Resolve eval_checkmultisig_mono : core.

(* CLTV / CSV: with the flag the opcode can only fail, and when it succeeds it leaves the state alone *)
Lemma cltv_mono p fx st sv : mono (exec_op sha256 ripemd160 sha1 g ck sv p O_CLTV fx st) (exec_op sha256 ripemd160 sha1 f ck sv p O_CLTV fx st).
Proof.
  cbn [exec_op invalid_stack]. destruct (has f SCR_FLAG_CHECKLOCKTIMEVERIFY) eqn:Ef.
  - rewrite (Hle _ Ef). cbn [negb]. mono_steps.
  - cbn [negb]. intros a H. destruct (negb (has g SCR_FLAG_CHECKLOCKTIMEVERIFY)); [exact H|]. ok_steps. reflexivity.
Qed.
Lemma csv_mono p fx st sv : mono (exec_op sha256 ripemd160 sha1 g ck sv p O_CSV fx st) (exec_op sha256 ripemd160 sha1 f ck sv p O_CSV fx st).
Proof.
  cbn [exec_op invalid_stack]. destruct (has f SCR_FLAG_CHECKSEQUENCEVERIFY) eqn:Ef.
  - rewrite (Hle _ Ef). cbn [negb]. mono_steps.
  - cbn [negb]. intros a H. destruct (negb (has g SCR_FLAG_CHECKSEQUENCEVERIFY)); [exact H|]. ok_steps; reflexivity.
Qed.

Lemma exec_op_mono sv p o fx st :
  mono (exec_op sha256 ripemd160 sha1 g ck sv p o fx st) (exec_op sha256 ripemd160 sha1 f ck sv p o fx st).
Proof.
  destruct o; try apply cltv_mono; try apply csv_mono; cbn [exec_op invalid_stack]; try (mono_steps; fail).
  - (* NOPN *) split_has Hle; mono_steps.
  - (* IF *) destruct fx; [|apply mono_refl]. destruct (st_stack st) as [|vch r]; [apply mono_refl|].
    split_has Hle; rewrite ?Bool.andb_true_r, ?Bool.andb_false_r; cbn [andb]; mono_steps.
  - (* NOTIF *) destruct fx; [|apply mono_refl]. destruct (st_stack st) as [|vch r]; [apply mono_refl|].
    split_has Hle; rewrite ?Bool.andb_true_r, ?Bool.andb_false_r; cbn [andb]; mono_steps.
Qed.

Theorem step_mono sv p st : mono (step sha256 ripemd160 sha1 g ck sv p st) (step sha256 ripemd160 sha1 f ck sv p st).
Proof.
  unfold step. cbv zeta.
  destruct (lenz (p_data p) >? MAX_SCRIPT_ELEMENT_SIZE); [apply mono_err_l|].
  match goal with |- mono (if ?c then _ else _) _ => destruct c; [apply mono_err_l|] end.
  match goal with |- mono (if ?c then _ else _) _ => destruct c; [apply mono_err_l|] end.
  assert (Hcs : match decode_op (p_code p) with O_CODESEPARATOR => is_base sv && has f SCR_FLAG_CONST_SCRIPTCODE | _ => false end = true ->
                match decode_op (p_code p) with O_CODESEPARATOR => is_base sv && has g SCR_FLAG_CONST_SCRIPTCODE | _ => false end = true).
  { destruct (decode_op (p_code p)); try discriminate. intros H. apply Bool.andb_true_iff in H. destruct H as [H1 H2].
    rewrite H1, (Hle _ H2). reflexivity. }
  apply mono_guard; [exact Hcs|].
  apply mono_bind; [|intros; apply mono_refl].
  destruct (cond_all_true st && (p_code p <=? 78)).
  - unfold require_minimal. split_has Hle; cbn [andb]; mono_steps.
  - destruct (cond_all_true st || in_if_range (p_code p)); [apply exec_op_mono|apply mono_refl].
Qed.

Theorem eval_ops_mono sv ops ok : forall st,
  mono (eval_ops sha256 ripemd160 sha1 g ck sv ops ok st) (eval_ops sha256 ripemd160 sha1 f ck sv ops ok st).
Proof.
  induction ops as [|p r IH]; intros st; cbn [eval_ops]; [apply mono_refl|].
  apply mono_bind; [apply step_mono|intros; apply IH].
Qed.

(* EvalScript: success under the larger flag set implies success under the smaller one, with the identical final state *)
Theorem eval_script_state_mono sv script stack w :
  mono (eval_script_state sha256 ripemd160 sha1 g ck sv script stack w) (eval_script_state sha256 ripemd160 sha1 f ck sv script stack w).
Proof.
  unfold eval_script_state. destruct (negb (is_tapscript sv) && (lenz script >? MAX_SCRIPT_SIZE)); [apply mono_err_l|].
  destruct (parse_script script) as [ops ok]. apply mono_bind; [apply eval_ops_mono|intros; apply mono_refl].
Qed.
Theorem eval_script_mono sv script stack :
  mono (eval_script sha256 ripemd160 sha1 g ck sv script stack) (eval_script sha256 ripemd160 sha1 f ck sv script stack).
Proof. unfold eval_script. apply mono_bind; [apply eval_script_state_mono|intros; apply mono_refl]. Qed.

(* ---- VerifyScript ---- *)
Notation eval_g := (eval sha256 ripemd160 sha1 g ck).
Notation eval_f := (eval sha256 ripemd160 sha1 f ck).

Lemma eval_mono sv script stack : mono (eval_g sv script stack) (eval_f sv script stack).
Proof. apply eval_script_mono. Qed.

Variable tap_commit : bytes -> bytes -> bytes -> bool.

Lemma op_success_scan_mono ops ok r : op_success_scan g ops ok = r ->
  match r with
  | None => op_success_scan f ops ok = None
  | Some rg => exists rf, op_success_scan f ops ok = Some rf /\ mono rg rf
  end.
Proof.
  intros <-. induction ops as [|p ops IH]; cbn [op_success_scan].
  - destruct ok; [reflexivity|]. eexists; split; [reflexivity|apply mono_refl].
  - destruct (is_op_success (p_code p)); [|exact IH].
    eexists; split; [reflexivity|]. split_has Hle; mono_steps.
Qed.

Lemma execute_witness_script_mono sv stack script w :
  mono (execute_witness_script sha256 ripemd160 sha1 g ck sv stack script w) (execute_witness_script sha256 ripemd160 sha1 f ck sv stack script w).
Proof.
  unfold execute_witness_script.
  assert (Hscan : forall (rg : option (result unit)),
            (if is_tapscript sv then let '(ops, ok) := parse_script script in op_success_scan g ops ok else None) = rg ->
            match rg with
            | None => (if is_tapscript sv then let '(ops, ok) := parse_script script in op_success_scan f ops ok else None) = None
            | Some r => exists rf, (if is_tapscript sv then let '(ops, ok) := parse_script script in op_success_scan f ops ok else None) = Some rf /\ mono r rf
            end).
  { intros rg Hg. destruct (is_tapscript sv); [|subst; reflexivity]. destruct (parse_script script) as [ops ok].
    apply op_success_scan_mono. exact Hg. }
  specialize (Hscan _ eq_refl).
  destruct (if is_tapscript sv then let '(ops, ok) := parse_script script in op_success_scan g ops ok else None) as [rg|].
  - destruct Hscan as (rf & -> & Hm). exact Hm.
  - rewrite Hscan.
    destruct (is_tapscript sv && (lenz stack >? MAX_STACK_SIZE)); [apply mono_err_l|].
    match goal with |- context [existsb ?q stack] => destruct (existsb q stack) end; [apply mono_err_l|].
    apply mono_bind; [apply eval_script_state_mono|intros; apply mono_refl].
Qed.

Lemma verify_taproot_mono wstack prog :
  mono (verify_taproot sha256 ripemd160 sha1 g ck tap_commit wstack prog) (verify_taproot sha256 ripemd160 sha1 f ck tap_commit wstack prog).
Proof.
  unfold verify_taproot.
  destruct (has f SCR_FLAG_TAPROOT) eqn:Ef.
  - rewrite (Hle _ Ef). cbn [negb].
    destruct wstack as [|w0 wr]; [apply mono_refl|].
    destruct (drop_annex (w0 :: wr)) as [|c [|s args]]; [apply mono_refl|apply mono_refl|].
    destruct (negb (control_size_ok (lenz c))); [apply mono_refl|].
    destruct (negb (tap_commit c prog s)); [apply mono_refl|].
    destruct (leaf_is_tapscript c); [apply execute_witness_script_mono|].
    split_has Hle; mono_steps.
  - cbn [negb]. intros [] _. reflexivity.
Qed.

(* the witness stage: if it succeeds under g, it succeeds under f *)
Lemma verify_witness_program_mono wstack ver prog p2sh :
  verify_witness_program sha256 ripemd160 sha1 g ck tap_commit wstack ver prog p2sh = Some (Ok tt) ->
  verify_witness_program sha256 ripemd160 sha1 f ck tap_commit wstack ver prog p2sh = Some (Ok tt).
Proof.
  unfold verify_witness_program. intros H.
  destruct (ver =? 0).
  - destruct (lenz prog =? SCR_WITNESS_V0_SCRIPTHASH_SIZE).
    + destruct wstack as [|sb rest]; [discriminate H|]. destruct (negb (bytes_eqb (sha256 sb) prog)); [discriminate H|].
      injection H as H1. f_equal. apply execute_witness_script_mono in H1. exact H1.
    + destruct (lenz prog =? SCR_WITNESS_V0_KEYHASH_SIZE); [|discriminate H].
      destruct (negb (lenz wstack =? 2)); [discriminate H|].
      set (scr := [118; 169] ++ push_encoding prog ++ [136; 172]) in *.
      injection H as H1. f_equal. apply execute_witness_script_mono in H1. exact H1.
  - destruct ((ver =? 1) && (lenz prog =? SCR_WITNESS_V1_TAPROOT_SIZE) && negb p2sh).
    + injection H as H1. f_equal. apply verify_taproot_mono in H1. exact H1.
    + destruct (negb p2sh && is_pay_to_anchor ver prog); [reflexivity|].
      destruct (has g SCR_FLAG_DISCOURAGE_UPGRADABLE_WITNESS_PROGRAM) eqn:Eg; [discriminate H|].
      destruct (has f SCR_FLAG_DISCOURAGE_UPGRADABLE_WITNESS_PROGRAM) eqn:Ef; [apply Hle in Ef; congruence|reflexivity].
Qed.

End FlagsMono.
