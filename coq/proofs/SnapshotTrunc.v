(* C20: truncated snapshots and snapshots with appended bytes are rejected (for every valid coin stream). *)
From Coq Require Import NArith Lia.
From BV Require Import lib.Ints gen.Params_gen model.SerBase model.SerTx model.Compress model.CompressEC model.CryptoSHA256 model.Snapshot
                       proofs.SerBaseLemmas proofs.SnapshotLemmas proofs.MempoolPersistTxPrefix.
Local Open Scope Z_scope.

Lemma ext_read_varint_loop w : forall s n ext x r, read_varint_loop w n s = Ok x r -> read_varint_loop w n (s ++ ext) = Ok x (r ++ ext).
Proof.
  induction s as [|c s IH]; intros n ext x r H; cbn [read_varint_loop app] in *; [discriminate|].
  destruct (n >? Z.shiftr (2 ^ w - 1) 7); [discriminate|].
  destruct (negb (Z.land (Z.of_N c) 128 =? 0)).
  - destruct (_ =? 2 ^ w - 1); [discriminate|]. apply IH. exact H.
  - inversion H; subst. reflexivity.
Qed.

Lemma ext_read_varint w : ext_ok (read_varint w).
Proof. intros s ext x r H. apply ext_read_varint_loop. exact H. Qed.

Section Ext.
  Variable ec : list N -> option (list N).

  Lemma ext_unser_script prev : ext_ok (unser_script ec prev).
  Proof.
    unfold unser_script. apply ext_bind; [apply ext_read_varint|intros nSize].
    apply ext_if.
    - apply ext_bind; [apply ext_read_bytes|intros vch]. destruct (decompress_script ec nSize vch); apply ext_ret.
    - apply ext_if; [|apply ext_read_bytes_z]. apply ext_bind; [apply ext_read_bytes_z|intros x; apply ext_ret].
  Qed.

  Lemma ext_unser_coin prev : ext_ok (unser_coin ec prev).
  Proof.
    unfold unser_coin. apply ext_bind; [apply ext_read_varint|intros code].
    apply ext_bind; [|intros vo; apply ext_ret].
    unfold unser_txout. apply ext_bind; [apply ext_read_varint|intros v]. apply ext_bind; [apply ext_unser_script|intros sc; apply ext_ret].
  Qed.

  Lemma load_coins_ext fuel : forall bh count left processed grp s acc ext coins rest,
    load_coins ec fuel bh count left processed grp s acc = CDone coins rest ->
    load_coins ec fuel bh count left processed grp (s ++ ext) acc = CDone coins (rest ++ ext).
  Proof.
    induction fuel as [|f IH]; intros bh count left processed grp s acc ext coins rest H; cbn [load_coins] in *; [discriminate|].
    destruct (match grp with Some (_, remaining) => 0 <? remaining | None => false end).
    - destruct grp as [[txid remaining]|]; [|discriminate].
      destruct (read_compact_size true s) as [n s1|e] eqn:R1; [|discriminate].
      rewrite (ext_read_compact_size true s ext n s1 R1).
      destruct (unser_coin ec [] s1) as [c s2|e] eqn:R2; [|discriminate].
      rewrite (ext_unser_coin [] s1 ext c s2 R2).
      destruct (_ || _); [discriminate|]. destruct (negb _); [discriminate|]. apply IH. exact H.
    - destruct (left <=? 0); [inversion H; subst; reflexivity|].
      destruct (read_bytes 32 s) as [txid s1|e] eqn:R1; [|discriminate].
      rewrite (ext_read_bytes 32 s ext txid s1 R1).
      destruct (read_compact_size true s1) as [per s2|e] eqn:R2; [|discriminate].
      rewrite (ext_read_compact_size true s1 ext per s2 R2).
      destruct (per >? left); [discriminate|]. apply IH. exact H.
  Qed.

  (* extension stability of the whole loading loop *)
  Lemma load_all_ext bh count s ext coins rest :
    load_all ec bh count s = CDone coins rest -> load_all ec bh count (s ++ ext) = CDone coins (rest ++ ext).
  Proof.
    unfold load_all. intros H.
    rewrite (load_coins_fuel ec (S (length s)) (S (length (s ++ ext)))) in H by (rewrite ?app_length; lia).
    apply load_coins_ext. exact H.
  Qed.

  Variable hashf : list N -> list N.

  (* a stream that loads completely (nothing left over), cut anywhere or extended by anything, does not activate *)
  Lemma valid_then_cut_rejected e m s ext :
    ext <> [] ->
    (forall b, e_lookup e (sm_base m) = Some b -> exists coins, load_all ec (b_height b) (sm_count m) (s ++ ext) = CDone coins []) ->
    forall base utxo, activate ec hashf e m s <> AOk base utxo.
  Proof.
    intros NE V base utxo H. apply activate_ok in H.
    destruct H as [E0 [_ [_ [_ [b [LK [_ [_ [_ [au [coins [_ [_ [LA _]]]]]]]]]]]]]]. subst base.
    destruct (V b LK) as [coins' V']. pose proof (load_all_ext _ _ _ ext _ _ LA) as X. rewrite V' in X.
    inversion X as [[E1 E2]]. destruct ext; [congruence|discriminate].
  Qed.

  Lemma valid_then_extended_rejected e m s ext :
    ext <> [] ->
    (forall b, e_lookup e (sm_base m) = Some b -> exists coins, load_all ec (b_height b) (sm_count m) s = CDone coins []) ->
    forall base utxo, activate ec hashf e m (s ++ ext) <> AOk base utxo.
  Proof.
    intros NE V base utxo H. apply activate_ok in H.
    destruct H as [E0 [_ [_ [_ [b [LK [_ [_ [_ [au [coins [_ [_ [LA _]]]]]]]]]]]]]]. subst base.
    destruct (V b LK) as [coins' V']. pose proof (load_all_ext _ _ _ ext _ _ V') as X. rewrite LA in X.
    inversion X as [[E1 E2]]. destruct ext; [congruence|discriminate].
  Qed.
End Ext.
