(* C49 — FSChaCha20Poly1305 (the BIP324 packet cipher): the C++ object's packet counter / rekey counter /
   rekeying produce, for packet number i, the RFC 8439 AEAD under key K_(i / interval) with nonce
   LE32(i mod interval) || LE64(i / interval), where K_(j+1) is the first 32 bytes of the AEAD encryption of
   32 zero bytes under K_j with nonce FFFFFFFF || LE64(j) — BIP324's definition. *)
From Coq Require Import NArith Arith.
From BV Require Import lib.Ints model.CryptoBase model.CryptoMD model.CryptoChaCha model.CryptoPoly1305 model.CryptoAEAD
  proofs.CryptoBaseLemmas proofs.CryptoMDLemmas proofs.CryptoChaChaLemmas proofs.CryptoPoly1305Lemmas proofs.CryptoAEADLemmas.
Local Open Scope Z_scope.

Strategy 1000 [chacha20_block_words chacha20_block aligned_block inner_block poly1305_update poly1305_finish poly1305_init].

(* ---------- one block of keystream from any block position ---------- *)
Lemma take64_at key nonce ctr : length (le32_words key) = 8%nat -> length (le32_words nonce) = 3%nat ->
  0 <= ctr -> ctr + 1 < 2 ^ 32 ->
  take 64 (rfc_input (le32_words key) ctr (le32_words nonce), []) =
  (chacha20_block key ctr nonce, (rfc_input (le32_words key) (ctr + 1) (le32_words nonce), [])).
Proof.
  intros Hk Hn3 H0 H1. rewrite take_from_empty by lia. rewrite blocks_needed_64, ak_one. cbn [fst snd].
  rewrite aligned_next_rfc by assumption. rewrite aligned_block_rfc.
  pose proof (chacha20_block_length key ctr nonce Hk Hn3) as Hbl64.
  rewrite app_nil_r. rewrite firstn_all2 by lia. rewrite skipn_all2 by lia. reflexivity.
Qed.

Lemma keystream64_at c key nonce ctr : positioned c key nonce ctr -> 0 <= ctr -> ctr + 1 < 2 ^ 32 ->
  fst (chacha20_keystream c 64) = chacha20_block key ctr nonce /\
  positioned (snd (chacha20_keystream c 64)) key nonce (ctr + 1).
Proof.
  intros Hpos H0 H1. pose proof Hpos as (Hin & Hk & Hn3 & Hbuf & Hbl).
  pose proof (positioned_Rc _ _ _ _ Hpos) as HR.
  destruct (keystream_refines c _ 64 HR) as [Ho HR1].
  rewrite Hin in Ho, HR1. rewrite (take64_at key nonce ctr Hk Hn3 H0 H1) in Ho, HR1. cbn [fst snd] in Ho, HR1.
  split; [exact Ho|].
  pose proof (Rc_left_length _ _ HR1) as Hll. cbn [snd length] in Hll.
  destruct HR1 as (Hin1 & _ & Hbuf1 & _ & _). cbn [fst] in Hin1.
  exact (conj Hin1 (conj Hk (conj Hn3 (conj Hbuf1 (eq_sym Hll))))).
Qed.

(* ---------- the BIP324 rekeying value ---------- *)
Lemma bip324_nonce_is_rfc_nonce a b : bip324_nonce a b = rfc_nonce a b.
Proof. reflexivity. Qed.

Lemma aead_spec_zeros32_prefix key nonce : length (le32_words key) = 8%nat -> length (le32_words nonce) = 3%nat ->
  firstn 32 (aead_encrypt_spec key nonce [] (zeros 32)) = firstn 32 (chacha20_block key 1 nonce).
Proof.
  intros Hk Hn. unfold aead_encrypt_spec.
  set (ct := chacha20_encrypt key 1 nonce (zeros 32)).
  assert (Hctl : length ct = 32%nat).
  { unfold ct. rewrite chacha20_encrypt_length by assumption. unfold zeros. apply repeat_length. }
  rewrite firstn_app, Hctl, Nat.sub_diag, firstn_O, app_nil_r. rewrite firstn_all2 by lia.
  unfold ct, chacha20_encrypt.
  rewrite (chacha20_encrypt_fuel_stream key nonce Hk Hn 1) by (unfold zeros; rewrite repeat_length; lia).
  cbn [seq map concat]. rewrite app_nil_r, Z.add_0_r. apply xor_bytes_zeros.
Qed.

(* ---------- nat division by the rekey interval ---------- *)
Lemma succ_div_mod_wrap i n : (0 < n)%nat -> (i mod n + 1 = n)%nat ->
  ((i + 1) / n = i / n + 1 /\ (i + 1) mod n = 0)%nat.
Proof.
  intros Hn Hr. pose proof (Nat.div_mod i n ltac:(lia)) as Hdm.
  split.
  - symmetry. apply (Nat.div_unique (i + 1) n (i / n + 1) 0); [lia|]. nia.
  - symmetry. apply (Nat.mod_unique (i + 1) n (i / n + 1) 0); [lia|]. nia.
Qed.

Lemma succ_div_mod_nowrap i n : (0 < n)%nat -> (i mod n + 1 < n)%nat ->
  ((i + 1) / n = i / n /\ (i + 1) mod n = i mod n + 1)%nat.
Proof.
  intros Hn Hr. pose proof (Nat.div_mod i n ltac:(lia)) as Hdm.
  split.
  - symmetry. apply (Nat.div_unique (i + 1) n (i / n) (i mod n + 1)); [lia|]. nia.
  - symmetry. apply (Nat.mod_unique (i + 1) n (i / n) (i mod n + 1)); [lia|]. nia.
Qed.

(* ---------- the object after i packets ---------- *)
Definition fs_inv (key : list N) (interval : nat) (f : fsaead) (i : nat) : Prop :=
  f_rekey_interval f = Z.of_nat interval /\
  f_packet_counter f = Z.of_nat (i mod interval) /\
  f_rekey_counter f = Z.of_nat (i / interval) /\
  key_loaded (f_aead f) (bip324_key key (i / interval)).

Lemma fs_new_inv ubuf key interval : length ubuf = 64%nat -> length key = 32%nat -> (0 < interval)%nat ->
  fs_inv key interval (fsaead_new ubuf key (Z.of_nat interval)) 0.
Proof.
  intros Hu Hk Hi. unfold fs_inv, fsaead_new. cbn [f_rekey_interval f_packet_counter f_rekey_counter f_aead].
  rewrite Nat.mod_0_l, Nat.div_0_l by lia.
  refine (conj eq_refl (conj eq_refl (conj eq_refl _))).
  cbn [bip324_key]. apply new_key_loaded; [exact Hu | apply le32_words_length_8; exact Hk].
Qed.

Lemma le32_words_length_3 : forall l, length l = 12%nat -> length (le32_words l) = 3%nat.
Proof.
  intros l Hl. do 12 (destruct l as [|? l]; [discriminate|]). destruct l; [reflexivity | discriminate].
Qed.

Lemma bip324_nonce_words a b : length (le32_words (bip324_nonce a b)) = 3%nat.
Proof. apply le32_words_length_3. unfold bip324_nonce. rewrite app_length, !le_bytes_length. reflexivity. Qed.

Lemma bip324_key_length key j : length key = 32%nat -> length (bip324_key key j) = 32%nat.
Proof.
  intros Hk. induction j as [|j IH]; [exact Hk|].
  cbn [bip324_key]. apply firstn_length_le.
  unfold aead_encrypt_spec. rewrite app_length.
  rewrite chacha20_encrypt_length; [unfold zeros; rewrite repeat_length; lia | | apply bip324_nonce_words].
  apply le32_words_length_8. exact IH.
Qed.

Lemma bip324_key_words key j : length key = 32%nat -> length (le32_words (bip324_key key j)) = 8%nat.
Proof. intros Hk. apply le32_words_length_8. apply bip324_key_length. exact Hk. Qed.

Lemma fs_next_packet key interval f c i :
  length key = 32%nat -> (0 < interval)%nat -> Z.of_nat interval < 2 ^ 32 -> Z.of_nat (i + 1) < 2 ^ 64 ->
  f_rekey_interval f = Z.of_nat interval ->
  f_packet_counter f = Z.of_nat (i mod interval) ->
  f_rekey_counter f = Z.of_nat (i / interval) ->
  key_loaded c (bip324_key key (i / interval)) ->
  fs_inv key interval (fsaead_next_packet f c) (i + 1).
Proof.
  intros Hk Hi Hi32 Hi64 Hint Hpc Hrk Hkl.
  pose proof (Nat.mod_upper_bound i interval ltac:(lia)) as Hrlt.
  pose proof (Nat.div_le_upper_bound i interval i ltac:(lia) ltac:(nia)) as Hqle.
  change (2 ^ 32) with 4294967296 in Hi32. change (2 ^ 64) with 18446744073709551616 in Hi64.
  unfold fsaead_next_packet. rewrite Hpc, Hint, Hrk.
  assert (Hw : wrapu32 (Z.of_nat (i mod interval) + 1) = Z.of_nat (i mod interval) + 1).
  { apply wrapu32_id. unfold UINT32_MAX. lia. }
  rewrite Hw.
  destruct (Z.of_nat (i mod interval) + 1 =? Z.of_nat interval) eqn:E.
  - (* rekey *)
    apply Z.eqb_eq in E.
    destruct (succ_div_mod_wrap i interval Hi ltac:(lia)) as [Hq Hr].
    set (K := bip324_key key (i / interval)) in *.
    set (rk := Z.of_nat (i / interval)) in *.
    assert (Hrk64 : 0 <= rk < 2 ^ 64) by (unfold rk; change (2 ^ 64) with 18446744073709551616; lia).
    unfold aead_keystream.
    pose proof (seek_positioned c K 0xFFFFFFFF rk 1 Hkl ltac:(change (2 ^ 32) with 4294967296; lia) Hrk64) as Hpos.
    destruct (keystream64_at _ K (rfc_nonce 0xFFFFFFFF rk) 1 Hpos ltac:(lia) ltac:(change (2 ^ 32) with 4294967296; lia)) as [Hblk _].
    destruct (chacha20_keystream (chacha20_seek c 0xFFFFFFFF rk 1) 64) as [one_block c1]. cbn [fst snd] in *.
    unfold fs_inv. cbn [f_rekey_interval f_packet_counter f_rekey_counter f_aead].
    rewrite Hq, Hr.
    assert (HKw : length (le32_words K) = 8%nat) by (apply bip324_key_words; exact Hk).
    assert (Hnw : length (le32_words (rfc_nonce 0xFFFFFFFF rk)) = 3%nat).
    { apply rfc_nonce_words; [change (2 ^ 32) with 4294967296; lia | exact Hrk64]. }
    assert (Hnewkey : firstn 32 one_block = bip324_key key (i / interval + 1)).
    { rewrite Nat.add_1_r. cbn [bip324_key]. fold K. fold rk. rewrite bip324_nonce_is_rfc_nonce.
      rewrite aead_spec_zeros32_prefix by assumption. rewrite Hblk. reflexivity. }
    refine (conj eq_refl (conj eq_refl (conj _ _))).
    + unfold rk. rewrite wrapu64_id by (unfold UINT64_MAX; lia). lia.
    + rewrite Hnewkey. unfold key_loaded, chacha20_setkey, aligned_setkey. cbn [cc_input cc_buffer].
      assert (Hnk : length (le32_words (bip324_key key (i / interval + 1))) = 8%nat) by (apply bip324_key_words; exact Hk).
      rewrite <- Hnk at 1. rewrite firstn_exact_app.
      refine (conj eq_refl (conj Hnk _)). unfold zeros. apply repeat_length.
  - apply Z.eqb_neq in E.
    destruct (succ_div_mod_nowrap i interval Hi ltac:(lia)) as [Hq Hr].
    unfold fs_inv. cbn [f_rekey_interval f_packet_counter f_rekey_counter f_aead].
    rewrite Hq, Hr. refine (conj eq_refl (conj _ (conj eq_refl Hkl))). lia.
Qed.

Lemma fs_encrypt_step pbuf key interval f i plain1 plain2 aad :
  length key = 32%nat -> (0 < interval)%nat -> Z.of_nat interval < 2 ^ 32 -> Z.of_nat (i + 1) < 2 ^ 64 ->
  length pbuf = 16%nat ->
  1 + Z.of_nat (blocks_needed (length (plain1 ++ plain2))) <= 2 ^ 32 -> Z.of_nat (length aad) < 2 ^ 64 ->
  fs_inv key interval f i ->
  fst (fsaead_encrypt pbuf f plain1 plain2 aad) = bip324_packet_spec key interval i aad (plain1 ++ plain2) /\
  fs_inv key interval (snd (fsaead_encrypt pbuf f plain1 plain2 aad)) (i + 1).
Proof.
  intros Hk Hi Hi32 Hi64 Hpb Hpl Ha (Hint & Hpc & Hrk & Hkl).
  pose proof (Nat.mod_upper_bound i interval ltac:(lia)) as Hrlt.
  pose proof (Nat.div_le_upper_bound i interval i ltac:(lia) ltac:(nia)) as Hqle.
  unfold fsaead_encrypt. rewrite Hpc, Hrk.
  destruct (aead_encrypt_is_rfc8439 pbuf (f_aead f) (bip324_key key (i / interval)) plain1 plain2 aad
              (Z.of_nat (i mod interval)) (Z.of_nat (i / interval)) Hkl Hpb) as [Henc Hkl'].
  - change (2 ^ 32) with 4294967296 in *. lia.
  - change (2 ^ 64) with 18446744073709551616 in *. lia.
  - exact Hpl.
  - exact Ha.
  - destruct (aead_encrypt pbuf (f_aead f) plain1 plain2 aad (Z.of_nat (i mod interval)) (Z.of_nat (i / interval))) as [out c].
    cbn [fst snd] in *. split.
    + rewrite Henc. unfold bip324_packet_spec. reflexivity.
    + apply fs_next_packet; assumption.
Qed.

(* the specification of a whole packet sequence starting at packet number i *)
Fixpoint bip324_seq_spec (key : list N) (interval : nat) (i : nat) (packets : list (list N * list N)) : list (list N) :=
  match packets with
  | [] => []
  | (plain, aad) :: r => bip324_packet_spec key interval i aad plain :: bip324_seq_spec key interval (i + 1) r
  end.

Definition packet_ok (pa : list N * list N) : Prop :=
  1 + Z.of_nat (blocks_needed (length (fst pa))) <= 2 ^ 32 /\ Z.of_nat (length (snd pa)) < 2 ^ 64.

Theorem fsaead_encrypt_seq_is_bip324 pbuf key interval packets : forall f i,
  length key = 32%nat -> (0 < interval)%nat -> Z.of_nat interval < 2 ^ 32 ->
  Z.of_nat (i + length packets) < 2 ^ 64 -> length pbuf = 16%nat ->
  Forall packet_ok packets -> fs_inv key interval f i ->
  fst (fsaead_encrypt_seq pbuf f packets) = bip324_seq_spec key interval i packets.
Proof.
  induction packets as [|[plain aad] r IH]; intros f i Hk Hi Hi32 Hi64 Hpb Hok Hinv; [reflexivity|].
  cbn [fsaead_encrypt_seq bip324_seq_spec].
  inversion Hok as [|? ? [Hp Ha] Hok']. subst. cbn [fst snd] in Hp, Ha.
  cbn [length] in Hi64.
  destruct (fs_encrypt_step pbuf key interval f i plain [] aad Hk Hi Hi32 ltac:(lia) Hpb
              ltac:(rewrite app_nil_r; exact Hp) Ha Hinv) as [Hout Hinv'].
  rewrite app_nil_r in Hout.
  destruct (fsaead_encrypt pbuf f plain [] aad) as [o f1]. cbn [fst snd] in *.
  specialize (IH f1 (i + 1)%nat Hk Hi Hi32 ltac:(lia) Hpb Hok' Hinv').
  destruct (fsaead_encrypt_seq pbuf f1 r) as [os f2]. cbn [fst] in *.
  rewrite Hout, IH. reflexivity.
Qed.

(* from a freshly constructed object *)
Theorem fsaead_is_bip324 ubuf pbuf key interval packets :
  length ubuf = 64%nat -> length pbuf = 16%nat -> length key = 32%nat ->
  (0 < interval)%nat -> Z.of_nat interval < 2 ^ 32 -> Z.of_nat (length packets) < 2 ^ 64 ->
  Forall packet_ok packets ->
  fst (fsaead_encrypt_seq pbuf (fsaead_new ubuf key (Z.of_nat interval)) packets) = bip324_seq_spec key interval 0 packets.
Proof.
  intros Hu Hpb Hk Hi Hi32 Hn Hok.
  apply fsaead_encrypt_seq_is_bip324; try assumption. apply fs_new_inv; assumption.
Qed.
