(* C49 — SHA256D64: the three-compression wrapper with its constant paddings is SHA256(SHA256(block)) for
   every 64-byte block, and the 8/4/2/1-way dispatch loop computes the batch in order for every
   combination of available backends and every block count. *)
From Coq Require Import NArith Arith.
From BV Require Import lib.Ints model.CryptoBase model.CryptoMD model.CryptoSHA256 model.CryptoSHA256D64
  proofs.CryptoBaseLemmas proofs.CryptoMDLemmas proofs.CryptoSHA256Lemmas.
Local Open Scope Z_scope.

Strategy 1000 [sha256_compress].

Lemma md_pad_64 : md_pad 64 8 (be_bytes 8) 64 = d64_padding1.
Proof. vm_compute. reflexivity. Qed.
Lemma md_pad_32 : md_pad 64 8 (be_bytes 8) 32 = d64_buffer2_tail.
Proof. vm_compute. reflexivity. Qed.
Lemma d64_padding1_length : length d64_padding1 = 64%nat. Proof. reflexivity. Qed.
Lemma d64_tail_length : length d64_buffer2_tail = 32%nat. Proof. reflexivity. Qed.

Lemma sha256_spec_of_block block : length block = 64%nat ->
  sha256_spec block = sha256_out (sha256_compress (sha256_compress sha256_iv block) d64_padding1).
Proof.
  intros Hl. unfold sha256_spec, md_spec, md_padded. rewrite Hl, md_pad_64.
  rewrite app_length, Hl, d64_padding1_length. change ((64 + 64) / 64)%nat with 2%nat.
  cbn [process].
  assert (Hf : firstn 64 (block ++ d64_padding1) = block) by (rewrite <- Hl; apply firstn_exact_app).
  assert (Hs : skipn 64 (block ++ d64_padding1) = d64_padding1) by (rewrite <- Hl; apply skipn_exact_app).
  rewrite Hf, Hs.
  rewrite (firstn_all2 d64_padding1) by (rewrite d64_padding1_length; lia). reflexivity.
Qed.

Lemma sha256_spec_of_digest d : length d = 32%nat ->
  sha256_spec d = sha256_out (sha256_compress sha256_iv (d ++ d64_buffer2_tail)).
Proof.
  intros Hl. unfold sha256_spec, md_spec, md_padded. rewrite Hl, md_pad_32.
  rewrite app_length, Hl, d64_tail_length. change ((32 + 32) / 64)%nat with 1%nat.
  cbn [process].
  rewrite firstn_all2 by (rewrite app_length, Hl, d64_tail_length; lia). reflexivity.
Qed.

Theorem transform_d64_wrapper_is_sha256d block : length block = 64%nat ->
  transform_d64_wrapper block = sha256d block.
Proof.
  intros Hl. unfold transform_d64_wrapper, sha256d.
  rewrite (sha256_spec_of_block block Hl).
  rewrite sha256_spec_of_digest by apply sha256_out_length. reflexivity.
Qed.

Lemma nway_is_spec n : forall input, (64 * n <= length input)%nat ->
  transform_d64_nway n input = sha256d64_spec n input.
Proof.
  induction n as [|n IH]; intros input Hl; [reflexivity|].
  cbn [transform_d64_nway sha256d64_spec].
  rewrite transform_d64_wrapper_is_sha256d by (apply firstn_length_le; lia).
  rewrite IH by (rewrite skipn_length; lia). reflexivity.
Qed.

Lemma spec_app a : forall b input,
  sha256d64_spec (a + b) input = sha256d64_spec a input ++ sha256d64_spec b (skipn (64 * a) input).
Proof.
  induction a as [|a IH]; intros b input; [reflexivity|].
  cbn [Nat.add sha256d64_spec]. rewrite IH, <- app_assoc.
  replace (64 * S a)%nat with (64 + 64 * a)%nat by lia. rewrite <- skipn_skipn'. reflexivity.
Qed.

Lemma d64_phase_spec way : (0 < way)%nat -> forall fuel blocks input,
  (blocks <= fuel)%nat -> (64 * blocks <= length input)%nat ->
  let '(o, b, i) := d64_phase way fuel blocks input in
  sha256d64_spec blocks input = o ++ sha256d64_spec b i /\ (b < way)%nat /\ (64 * b <= length i)%nat.
Proof.
  intros Hw. induction fuel as [|fuel IH]; intros blocks input Hf Hl.
  - assert (blocks = 0%nat) by lia. subst blocks. cbn [d64_phase app]. repeat split; lia.
  - cbn [d64_phase]. destruct (way <=? blocks)%nat eqn:E.
    + apply Nat.leb_le in E.
      specialize (IH (blocks - way)%nat (skipn (64 * way) input) ltac:(lia) ltac:(rewrite skipn_length; lia)).
      destruct (d64_phase way fuel (blocks - way) (skipn (64 * way) input)) as [[o b] i].
      destruct IH as (Hs & Hb & Hi). split; [|split; assumption].
      replace blocks with (way + (blocks - way))%nat at 1 by lia.
      rewrite spec_app, Hs, nway_is_spec by lia. rewrite app_assoc. reflexivity.
    + apply Nat.leb_gt in E. cbn [app]. repeat split; lia.
Qed.

(* SHA256D64(out, in, blocks) = the double hash of each of the blocks, whatever backends are present *)
Theorem sha256d64_dispatch_is_spec have8 have4 have2 blocks input :
  (64 * blocks <= length input)%nat ->
  sha256d64_dispatch have8 have4 have2 blocks input = sha256d64_spec blocks input.
Proof.
  intros Hl. unfold sha256d64_dispatch.
  assert (H8 : let '(o, b, i) := (if have8 then d64_phase 8 blocks blocks input else ([], blocks, input)) in
               sha256d64_spec blocks input = o ++ sha256d64_spec b i /\ (64 * b <= length i)%nat).
  { destruct have8.
    - pose proof (d64_phase_spec 8 ltac:(lia) blocks blocks input ltac:(lia) Hl) as H.
      destruct (d64_phase 8 blocks blocks input) as [[o b] i]. destruct H as (Hs & _ & Hi). auto.
    - auto. }
  destruct (if have8 then d64_phase 8 blocks blocks input else ([], blocks, input)) as [[o8 b8] i8].
  destruct H8 as [Hs8 Hl8].
  assert (H4 : let '(o, b, i) := (if have4 then d64_phase 4 b8 b8 i8 else ([], b8, i8)) in
               sha256d64_spec b8 i8 = o ++ sha256d64_spec b i /\ (64 * b <= length i)%nat).
  { destruct have4.
    - pose proof (d64_phase_spec 4 ltac:(lia) b8 b8 i8 ltac:(lia) Hl8) as H.
      destruct (d64_phase 4 b8 b8 i8) as [[o b] i]. destruct H as (Hs & _ & Hi). auto.
    - auto. }
  destruct (if have4 then d64_phase 4 b8 b8 i8 else ([], b8, i8)) as [[o4 b4] i4].
  destruct H4 as [Hs4 Hl4].
  assert (H2 : let '(o, b, i) := (if have2 then d64_phase 2 b4 b4 i4 else ([], b4, i4)) in
               sha256d64_spec b4 i4 = o ++ sha256d64_spec b i /\ (64 * b <= length i)%nat).
  { destruct have2.
    - pose proof (d64_phase_spec 2 ltac:(lia) b4 b4 i4 ltac:(lia) Hl4) as H.
      destruct (d64_phase 2 b4 b4 i4) as [[o b] i]. destruct H as (Hs & _ & Hi). auto.
    - auto. }
  destruct (if have2 then d64_phase 2 b4 b4 i4 else ([], b4, i4)) as [[o2 b2] i2].
  destruct H2 as [Hs2 Hl2].
  pose proof (d64_phase_spec 1 ltac:(lia) b2 b2 i2 ltac:(lia) Hl2) as H1.
  destruct (d64_phase 1 b2 b2 i2) as [[o1 b1] i1]. destruct H1 as (Hs1 & Hb1 & _).
  assert (b1 = 0%nat) by lia. subst b1. cbn [sha256d64_spec] in Hs1. rewrite app_nil_r in Hs1.
  rewrite Hs8, Hs4, Hs2, Hs1. reflexivity.
Qed.
