From BV Require Import lib.Ints gen.Params_gen model.StorePrune.
Local Open Scope Z_scope.

Lemma mbk_288 : MIN_BLOCKS_TO_KEEP = 288. Proof. vm_compute. reflexivity. Qed.

(* well-formed inputs: heights are ints, file heights are the unsigned fields of CBlockFileInfo
   holding block heights, locks are ints >= 0 *)
Definition wf_env (e : prune_env) : Prop :=
  0 <= pe_tip e <= INT32_MAX /\
  (forall l, In l (pe_locks e) -> 0 <= l <= INT32_MAX) /\
  (match pe_snapshot_base e with Some b => 0 <= b < INT32_MAX | None => True end).
Definition wf_files (files : list file_info) : Prop :=
  forall f, In f files -> 0 <= f_hfirst f <= INT32_MAX /\ 0 <= f_hlast f <= INT32_MAX.

(* ---- last_prune from the locks: order-independent closed form and bounds ---- *)
Definition effective (l : Z) : bool := negb (l =? INT32_MAX).

Lemma last_prune_of_upper lp locks :
  (forall l, In l locks -> 0 <= l <= INT32_MAX) ->
  last_prune_of lp locks <= Z.max 1 lp.
Proof.
  revert lp. induction locks as [|l r IH]; intros lp H; cbn [last_prune_of]; [lia|].
  assert (Hr : forall x, In x r -> 0 <= x <= INT32_MAX) by (intros x Hx; apply H; right; exact Hx).
  destruct (l =? INT32_MAX) eqn:E; [apply IH; exact Hr|].
  specialize (IH (Z.max 1 (Z.min lp (wrap32 (l - PRUNE_LOCK_BUFFER - 1)))) Hr). lia.
Qed.

Lemma last_prune_of_lock_bound lp locks l :
  (forall x, In x locks -> 0 <= x <= INT32_MAX) ->
  In l locks -> l <> INT32_MAX ->
  last_prune_of lp locks <= Z.max 1 (l - 11).
Proof.
  revert lp. induction locks as [|x r IH]; intros lp H Hin Hne; [destruct Hin|].
  assert (Hr : forall y, In y r -> 0 <= y <= INT32_MAX) by (intros y Hy; apply H; right; exact Hy).
  cbn [last_prune_of]. destruct Hin as [->|Hin].
  - destruct (l =? INT32_MAX) eqn:E; [lia|].
    assert (W : wrap32 (l - PRUNE_LOCK_BUFFER - 1) = l - 11).
    { unfold PRUNE_LOCK_BUFFER. replace (l - 10 - 1) with (l - 11) by lia. apply wrap32_id.
      assert (0 <= l <= INT32_MAX) by (apply H; left; reflexivity). unfold INT32_MIN, INT32_MAX in *. lia. }
    rewrite W.
    pose proof (last_prune_of_upper (Z.max 1 (Z.min lp (l - 11))) r Hr). lia.
  - destruct (x =? INT32_MAX); apply IH; assumption.
Qed.

Lemma last_prune_of_lower lp locks :
  Z.min 1 lp <= last_prune_of lp locks.
Proof.
  revert lp. induction locks as [|l r IH]; intros lp; cbn [last_prune_of]; [lia|].
  destruct (l =? INT32_MAX); [apply IH|].
  specialize (IH (Z.max 1 (Z.min lp (wrap32 (l - PRUNE_LOCK_BUFFER - 1))))). lia.
Qed.

Definition lockF (l0 acc : Z) : Z := if effective l0 then Z.min acc (l0 - 11) else acc.
Lemma fold_lockF_min r a b : fold_right lockF (Z.min a b) r = Z.min (fold_right lockF a r) b.
Proof. induction r as [|y r IH]; cbn [fold_right]; [reflexivity|]. unfold lockF at 1 3. rewrite IH. destruct (effective y); lia. Qed.
Lemma fold_lockF_max1 r a : Z.max 1 (fold_right lockF (Z.max 1 a) r) = Z.max 1 (fold_right lockF a r).
Proof. induction r as [|y r IH]; cbn [fold_right]; [lia|]. unfold lockF at 1 3. destruct (effective y); lia. Qed.

(* the result does not depend on the iteration order of the unordered_map of locks *)
Lemma last_prune_of_closed lp locks :
  (forall x, In x locks -> 0 <= x <= INT32_MAX) ->
  last_prune_of lp locks =
    if existsb effective locks
    then Z.max 1 (fold_right lockF lp locks)
    else lp.
Proof.
  revert lp. induction locks as [|l r IH]; intros lp H; cbn [last_prune_of existsb fold_right]; [reflexivity|].
  assert (Hr : forall y, In y r -> 0 <= y <= INT32_MAX) by (intros y Hy; apply H; right; exact Hy).
  assert (Hl : 0 <= l <= INT32_MAX) by (apply H; left; reflexivity).
  unfold lockF at 1. assert (EF : effective l = negb (l =? INT32_MAX)) by reflexivity. rewrite !EF.
  destruct (l =? INT32_MAX) eqn:E; cbn [negb orb].
  - apply IH; exact Hr.
  - assert (W : wrap32 (l - PRUNE_LOCK_BUFFER - 1) = l - 11).
    { unfold PRUNE_LOCK_BUFFER. replace (l - 10 - 1) with (l - 11) by lia. apply wrap32_id.
      unfold INT32_MIN, INT32_MAX in *. lia. }
    rewrite W, IH by exact Hr.
    destruct (existsb effective r) eqn:EX.
    + rewrite fold_lockF_max1, fold_lockF_min. reflexivity.
    + (* no effective lock in r: fold is the identity *)
      assert (ID : forall a, fold_right lockF a r = a).
      { intros a. clear -EX. induction r as [|y r' IHr]; cbn [fold_right]; [reflexivity|].
        cbn [existsb] in EX. apply orb_false_iff in EX. destruct EX as [E1 E2]. unfold lockF at 1. rewrite E1. apply IHr. exact E2. }
      rewrite !ID. lia.
Qed.

(* ---- the selection loops only select non-empty files inside the range ---- *)
Lemma prune_loop_sound files n usage buffer target rng k :
  In k (prune_loop files n usage buffer target rng) ->
  exists f, nth_error files (Z.to_nat (k - n)) = Some f /\ n <= k /\ f_size f <> 0 /\ out_of_range f rng = false.
Proof.
  revert n usage. induction files as [|f r IH]; intros n usage Hin; cbn [prune_loop] in Hin; [destruct Hin|].
  destruct (f_size f =? 0) eqn:E0.
  { destruct (IH _ _ Hin) as [g [Hg [Hle [Hs Ho]]]]. exists g. repeat split; try assumption; try lia.
    replace (Z.to_nat (k - n)) with (S (Z.to_nat (k - (n + 1)))) by lia. exact Hg. }
  destruct (wrapu64 (usage + buffer) <? target); [destruct Hin|].
  destruct (out_of_range f rng) eqn:EO.
  { destruct (IH _ _ Hin) as [g [Hg [Hle [Hs Ho]]]]. exists g. repeat split; try assumption; try lia.
    replace (Z.to_nat (k - n)) with (S (Z.to_nat (k - (n + 1)))) by lia. exact Hg. }
  destruct Hin as [<-|Hin].
  - exists f. replace (Z.to_nat (n - n)) with O by lia. repeat split; try reflexivity; try lia; assumption.
  - destruct (IH _ _ Hin) as [g [Hg [Hle [Hs Ho]]]]. exists g. repeat split; try assumption; try lia.
    replace (Z.to_nat (k - n)) with (S (Z.to_nat (k - (n + 1)))) by lia. exact Hg.
Qed.

Lemma manual_loop_sound files n rng k :
  In k (manual_loop files n rng) ->
  exists f, nth_error files (Z.to_nat (k - n)) = Some f /\ n <= k /\ f_size f <> 0 /\ out_of_range f rng = false.
Proof.
  revert n. induction files as [|f r IH]; intros n Hin; cbn [manual_loop] in Hin; [destruct Hin|].
  destruct ((f_size f =? 0) || out_of_range f rng) eqn:E.
  { destruct (IH _ Hin) as [g [Hg [Hle [Hs Ho]]]]. exists g. repeat split; try assumption; try lia.
    replace (Z.to_nat (k - n)) with (S (Z.to_nat (k - (n + 1)))) by lia. exact Hg. }
  apply orb_false_iff in E. destruct E as [E0 EO].
  destruct Hin as [<-|Hin].
  - exists f. replace (Z.to_nat (n - n)) with O by lia. repeat split; try reflexivity; try lia; assumption.
  - destruct (IH _ Hin) as [g [Hg [Hle [Hs Ho]]]]. exists g. repeat split; try assumption; try lia.
    replace (Z.to_nat (k - n)) with (S (Z.to_nat (k - (n + 1)))) by lia. exact Hg.
Qed.

(* every file number returned by flush_prune names a non-empty file inside the prune range
   computed from some `last` that is bounded by last_prune and is >= 1 unless the chain is empty *)
Lemma flush_prune_selected e files manual k :
  In k (flush_prune e files manual) ->
  exists f last,
    nth_file files k = Some f /\ f_size f <> 0 /\
    last <= last_prune_of (pe_tip e) (pe_locks e) /\
    (pe_tip e <= 0 \/ 1 <= last) /\
    out_of_range f (get_prune_range (pe_tip e) (pe_snapshot_base e) last) = false.
Proof.
  unfold flush_prune, find_files_to_prune, find_files_to_prune_manual. intros Hin.
  pose proof (last_prune_of_lower (pe_tip e) (pe_locks e)) as LO.
  set (lp := last_prune_of (pe_tip e) (pe_locks e)) in *.
  assert (NF : forall g, 0 <= k -> nth_error files (Z.to_nat (k - 0)) = Some g -> nth_file files k = Some g).
  { intros g Hk Hg. unfold nth_file. destruct (k <? 0) eqn:E; [lia|]. replace (k - 0) with k in Hg by lia. exact Hg. }
  destruct (manual >? 0) eqn:EM.
  - destruct (pe_tip e <? 0); [destruct Hin|].
    destruct (manual_loop_sound _ _ _ _ Hin) as [f [Hf [Hle [Hs Ho]]]].
    exists f, (Z.min lp manual). repeat split; try assumption; try lia. apply NF; [lia|exact Hf].
  - destruct ((pe_tip e <? 0) || (prune_target_of e =? 0)); [destruct Hin|].
    destruct (pe_tip e <=? pe_prune_after_height e); [destruct Hin|].
    destruct (wrapu64 (current_usage files + (BLOCKFILE_CHUNK_SIZE + UNDOFILE_CHUNK_SIZE)) >=? prune_target_of e); [|destruct Hin].
    destruct (prune_loop_sound _ _ _ _ _ _ _ Hin) as [f [Hf [Hle [Hs Ho]]]].
    exists f, lp. repeat split; try assumption; try lia. apply NF; [lia|exact Hf].
Qed.

(* range arithmetic: no int / unsigned wrap for well-formed inputs *)
Lemma range_bounds e last f :
  wf_env e ->
  0 <= f_hfirst f <= INT32_MAX -> 0 <= f_hlast f <= INT32_MAX ->
  (pe_tip e <= 0 \/ 0 <= last) ->
  out_of_range f (get_prune_range (pe_tip e) (pe_snapshot_base e) last) = false ->
  f_hlast f <= Z.max 0 (pe_tip e - 288) /\
  (1 <= pe_tip e -> f_hlast f <= last) /\
  (1 <= pe_tip e -> match pe_snapshot_base e with Some b => b + 1 <= f_hfirst f | None => True end).
Proof.
  intros [Ht [Hl Hs]] Hf1 Hf2 Hlast. unfold out_of_range, get_prune_range. rewrite mbk_288.
  unfold INT32_MAX in *.
  destruct (pe_tip e <=? 0) eqn:ET; cbn [fst snd]; intros H; apply orb_false_iff in H; destruct H as [H1 H2].
  - rewrite wrapu32_id in H1 by (unfold UINT32_MAX; lia). repeat split; lia.
  - assert (W1 : wrap32 (pe_tip e - 288) = pe_tip e - 288) by (apply wrap32_id; unfold INT32_MIN, INT32_MAX; lia).
    rewrite W1 in H1.
    assert (Hl0 : 0 <= last) by lia.
    rewrite wrapu32_id in H1 by (unfold UINT32_MAX; lia).
    repeat split; try lia.
    intros _. destruct (pe_snapshot_base e) as [b|] eqn:EB; [|exact I].
    assert (W2 : wrap32 (b + 1) = b + 1) by (apply wrap32_id; unfold INT32_MIN, INT32_MAX; lia).
    rewrite W2, wrapu32_id in H2 by (unfold UINT32_MAX; lia). lia.
Qed.

(* ---- the three safety clauses, for every layout, target, lock set, manual height ---- *)
Lemma pruned_files_safe e files manual k :
  wf_env e -> wf_files files ->
  In k (flush_prune e files manual) ->
  exists f, nth_file files k = Some f /\ f_size f <> 0 /\
    f_hlast f <= Z.max 0 (pe_tip e - 288) /\
    (1 <= pe_tip e -> forall l, In l (pe_locks e) -> l <> INT32_MAX -> f_hlast f <= Z.max 1 (l - 11)) /\
    (1 <= pe_tip e -> match pe_snapshot_base e with Some b => b < f_hfirst f | None => True end).
Proof.
  intros WE WF Hin.
  destruct (flush_prune_selected e files manual k Hin) as [f [last [Hf [Hs [Hlp [Hl1 Ho]]]]]].
  assert (Hinf : In f files).
  { unfold nth_file in Hf. destruct (k <? 0); [discriminate|]. eapply nth_error_In; exact Hf. }
  destruct (WF f Hinf) as [B1 B2].
  assert (HL : pe_tip e <= 0 \/ 0 <= last) by lia.
  destruct (range_bounds e last f WE B1 B2 HL Ho) as [R1 [R2 R3]].
  exists f. repeat split; try assumption.
  - intros Ht l Hl Hne. specialize (R2 Ht).
    destruct WE as [_ [WL _]].
    pose proof (last_prune_of_lock_bound (pe_tip e) (pe_locks e) l WL Hl Hne). lia.
  - intros Ht. specialize (R3 Ht). destruct (pe_snapshot_base e); [lia|exact I].
Qed.

(* corollaries in the words of the property *)
Lemma pruned_outside_window e files manual k f :
  wf_env e -> wf_files files -> 288 <= pe_tip e ->
  In k (flush_prune e files manual) -> nth_file files k = Some f ->
  f_hlast f <= pe_tip e - 288.
Proof.
  intros WE WF Ht Hin Hf. destruct (pruned_files_safe e files manual k WE WF Hin) as [g [Hg [_ [H _]]]].
  rewrite Hf in Hg. injection Hg as <-. lia.
Qed.

Lemma pruned_below_locks e files manual k f l :
  wf_env e -> wf_files files -> 1 <= pe_tip e ->
  In k (flush_prune e files manual) -> nth_file files k = Some f ->
  In l (pe_locks e) -> l <> INT32_MAX -> 2 <= l ->
  f_hlast f < l.
Proof.
  intros WE WF Ht Hin Hf Hl Hne H2. destruct (pruned_files_safe e files manual k WE WF Hin) as [g [Hg [_ [_ [H _]]]]].
  rewrite Hf in Hg. injection Hg as <-. specialize (H Ht l Hl Hne). lia.
Qed.

Lemma pruned_above_snapshot_base e files manual k f b :
  wf_env e -> wf_files files -> 1 <= pe_tip e -> pe_snapshot_base e = Some b ->
  In k (flush_prune e files manual) -> nth_file files k = Some f ->
  b < f_hfirst f.
Proof.
  intros WE WF Ht Hb Hin Hf. destruct (pruned_files_safe e files manual k WE WF Hin) as [g [Hg [_ [_ [_ H]]]]].
  rewrite Hf in Hg. injection Hg as <-. specialize (H Ht). rewrite Hb in H. exact H.
Qed.

(* ---- progress of automatic pruning: the loop stops only below the target or when every
        non-empty in-range file has been taken ---- *)
Fixpoint usage_after (files : list file_info) (n : Z) (usage buffer target : Z) (rng : Z * Z) : Z :=
  match files with
  | [] => usage
  | f :: r =>
    if f_size f =? 0 then usage_after r (n + 1) usage buffer target rng
    else if wrapu64 (usage + buffer) <? target then usage
    else if out_of_range f rng then usage_after r (n + 1) usage buffer target rng
    else usage_after r (n + 1) (wrapu64 (usage - file_bytes f)) buffer target rng
  end.

Lemma prune_loop_progress files n usage buffer target rng :
  wrapu64 (usage_after files n usage buffer target rng + buffer) <? target = true \/
  (forall j f, nth_error files j = Some f -> f_size f <> 0 -> out_of_range f rng = false ->
               In (n + Z.of_nat j) (prune_loop files n usage buffer target rng)).
Proof.
  revert n usage. induction files as [|f r IH]; intros n usage; cbn [usage_after prune_loop].
  - right. intros j g Hj. destruct j; discriminate.
  - destruct (f_size f =? 0) eqn:E0.
    { destruct (IH (n + 1) usage) as [H|H]; [left; exact H|right].
      intros j g Hj Hs Ho. destruct j as [|j]; cbn in Hj.
      - injection Hj as <-. lia.
      - replace (n + Z.of_nat (S j)) with (n + 1 + Z.of_nat j) by lia. apply (H j g); assumption. }
    destruct (wrapu64 (usage + buffer) <? target) eqn:EB; [left; exact EB|].
    destruct (out_of_range f rng) eqn:EO.
    { destruct (IH (n + 1) usage) as [H|H]; [left; exact H|right].
      intros j g Hj Hs Ho. destruct j as [|j]; cbn in Hj.
      - injection Hj as <-. congruence.
      - replace (n + Z.of_nat (S j)) with (n + 1 + Z.of_nat j) by lia. apply (H j g); assumption. }
    destruct (IH (n + 1) (wrapu64 (usage - file_bytes f))) as [H|H]; [left; exact H|right].
    intros j g Hj Hs Ho. destruct j as [|j]; cbn in Hj.
    + left. lia.
    + right. replace (n + Z.of_nat (S j)) with (n + 1 + Z.of_nat j) by lia. apply (H j g); assumption.
Qed.

(* ---- prune locks move back on a disconnect ---- *)
Lemma locks_move_back h locks l' :
  In l' (locks_after_disconnect h locks) -> l' <= h - 1.
Proof.
  unfold locks_after_disconnect. intros H. apply in_map_iff in H. destruct H as [l [<- _]].
  destruct (l <=? h - 1) eqn:E; lia.
Qed.
Lemma locks_never_raised h locks :
  Forall2 (fun l l' => l' <= l) locks (locks_after_disconnect h locks).
Proof.
  induction locks as [|l r IH]; cbn; constructor; [|exact IH]. destruct (l <=? h - 1) eqn:E; lia.
Qed.

(* ---- the two corner cases of the unchanged code, with witnesses (DESIGN.md 9.5) ---- *)
Definition env0 : prune_env := {| pe_tip := 1; pe_prune_target := 576716800; pe_num_chainstates := 1;
  pe_prune_after_height := 1000; pe_ibd := false; pe_best_header_height := 1; pe_snapshot_base := None; pe_locks := [] |}.
Definition genesis_only : list file_info := [ {| f_size := 576716800; f_undo := 62914560; f_hfirst := 0; f_hlast := 0 |} ].
Lemma window_clause_refuted_below_288 :
  exists e files manual k f, wf_env e /\ wf_files files /\ In k (flush_prune e files manual) /\
    nth_file files k = Some f /\ pe_tip e - 288 < f_hlast f.
Proof.
  exists env0, genesis_only, 1, 0, {| f_size := 576716800; f_undo := 62914560; f_hfirst := 0; f_hlast := 0 |}.
  split; [|split; [|split; [|split]]].
  - unfold wf_env, env0, INT32_MAX; cbn. repeat split; try lia; try (intros l []).
  - intros f [<-|[]]; unfold INT32_MAX; cbn; lia.
  - vm_compute. left. reflexivity.
  - reflexivity.
  - cbn. lia.
Qed.

Definition env1 : prune_env := {| pe_tip := 1400; pe_prune_target := 576716800; pe_num_chainstates := 1;
  pe_prune_after_height := 1000; pe_ibd := false; pe_best_header_height := 1400; pe_snapshot_base := None; pe_locks := [1] |}.
Definition low_file : file_info := {| f_size := 300000000; f_undo := 1000000; f_hfirst := 0; f_hlast := 1 |}.
Definition layout1 : list file_info := [ low_file; {| f_size := 300000000; f_undo := 1000000; f_hfirst := 2; f_hlast := 1000 |};
                                         {| f_size := 300000000; f_undo := 1000000; f_hfirst := 1001; f_hlast := 1400 |} ].
Lemma lock_clause_refuted_at_lock_1 :
  exists e files manual k f l, wf_env e /\ wf_files files /\ In k (flush_prune e files manual) /\
    nth_file files k = Some f /\ In l (pe_locks e) /\ l <> INT32_MAX /\ l <= f_hlast f.
Proof.
  exists env1, layout1, 0, 0, low_file, 1.
  split; [|split; [|split; [|split; [|split; [|split]]]]].
  - unfold wf_env, env1, INT32_MAX; cbn. repeat split; try lia; try (intros l [<-|[]]; lia).
  - intros f [<-|[<-|[<-|[]]]]; unfold INT32_MAX; cbn; lia.
  - vm_compute. left. reflexivity.
  - reflexivity.
  - left. reflexivity.
  - unfold INT32_MAX. lia.
  - cbn. lia.
Qed.
