(* C14 -- Complete() cannot get stuck and returns after a bounded number of steps, whatever the schedule. *)
From Coq Require Import Permutation.
From BV Require Import lib.Ints model.CheckQueue proofs.CheckQueueInv proofs.CheckQueueStep.
Local Open Scope nat_scope.

Definition in_complete (s : cq) : Prop := match t_pc (q_master s) with PNew | PPend _ => False | _ => True end.

(* ---- deadlock freedom ---- *)

Lemma flat_map_nonempty {A B} (f : A -> list B) : forall l, flat_map f l <> [] -> exists i x, nth_error l i = Some x /\ f x <> [].
Proof.
  induction l as [|a l IH]; simpl; intros H; [congruence|].
  destruct (f a) as [|b r] eqn:E.
  - simpl in H. destruct (IH H) as (i & x & Hi & Hx). exists (S i), x. auto.
  - exists 0, a. simpl. split; [reflexivity | congruence].
Qed.

Lemma holder_can_move bs V s t th : get_thread s t = Some th -> cs_of th <> [] -> exists a s', step bs V s a = Some s'.
Proof.
  intros Hg Hc. unfold cs_of in Hc. destruct (t_pc th) as [| | |cs dw|cs dw] eqn:Ep; try congruence.
  - exists (ARun t). simpl. rewrite Hg, Ep. destruct (if dw then run_checks V cs (t_local th) else (t_local th, [])). eexists. reflexivity.
  - exists (AEnter t). simpl. rewrite Hg, Ep. eexists. reflexivity.
Qed.

Theorem complete_never_deadlocks bs V s :
  Inv V s -> in_complete s -> exists a s', step bs V s a = Some s'.
Proof.
  intros [[H1 H2 H3 H4 H5 H6 H7 H8] H9] Hc. unfold in_complete in Hc.
  destruct (t_pc (q_master s)) as [| |b|cs dw|cs dw] eqn:Em; try contradiction.
  - destruct b.
    + exists (AWake None). simpl. rewrite Em. eexists. reflexivity.
    + (* the master sleeps un-notified: something is still to do, the queue is empty, so a worker holds checks *)
      specialize (H9 eq_refl). assert (Hq : q_queue s = []) by (apply H8; exists false; reflexivity).
      rewrite Hq in H1. simpl in H1.
      assert (Hin : flat_map cs_of (q_workers s) <> []).
      { unfold inflight, threads in H1. simpl in H1. unfold cs_of at 1 in H1. rewrite Em in H1. simpl in H1.
        intro E. rewrite E in H1. simpl in H1. lia. }
      destruct (flat_map_nonempty cs_of _ Hin) as (i & x & Hi & Hx).
      apply (holder_can_move bs V s (Some i) x); assumption.
  - apply (holder_can_move bs V s None (q_master s)); [reflexivity | unfold cs_of; rewrite Em].
    destruct cs; [|congruence]. inversion H6 as [|m ws Hm Hws]; subst. unfold thread_ok in Hm. rewrite Em in Hm. tauto.
  - apply (holder_can_move bs V s None (q_master s)); [reflexivity | unfold cs_of; rewrite Em].
    destruct cs; [|congruence]. inversion H6 as [|m ws Hm Hws]; subst. unfold thread_ok in Hm. rewrite Em in Hm. tauto.
Qed.

(* ---- termination: a measure that every step taken while the master is inside Complete() decreases ---- *)

Definition tw (th : thread) : nat :=
  match t_pc th with
  | PNew => 1 | PPend _ => 0 | PWait true => 1 | PWait false => 0
  | PBatch cs _ => 4 * length cs | PRet cs _ => 2 * length cs
  end.

Definition wsum (l : list thread) : nat := list_sum (map tw l).
Definition mu (s : cq) : nat := 6 * length (q_queue s) + wsum (threads s).

Lemma wsum_perm l l' : Permutation l l' -> wsum l = wsum l'.
Proof. unfold wsum. induction 1; simpl; lia. Qed.

Lemma mu_get s t th : get_thread s t = Some th -> mu s = 6 * length (q_queue s) + tw th + wsum (others s t).
Proof. intros H. unfold mu. rewrite (wsum_perm _ _ (threads_perm s t th H)). unfold wsum. simpl. lia. Qed.

Lemma mu_set s t th x : get_thread s t = Some th -> mu (set_thread s t x) = 6 * length (q_queue s) + tw x + wsum (others s t).
Proof.
  intros H. unfold mu. rewrite (wsum_perm _ _ (threads_set_perm s t th x H)).
  destruct (set_thread_fields s t x) as (F1 & _). rewrite F1. unfold wsum. simpl. lia.
Qed.

Definition master_out (s : cq) : Prop := t_pc (q_master s) = PNew.

Lemma after_cleanup_mu bs s t th loc :
  get_thread s t = Some th ->
  master_out (after_cleanup bs s t loc) \/ mu (after_cleanup bs s t loc) + tw th <= mu s.
Proof.
  intros Hg. unfold after_cleanup. destruct (q_queue s) as [|c0 q'] eqn:Eq.
  - destruct (is_master t && Nat.eqb (q_todo s) 0) eqn:Em.
    + left. reflexivity.
    + right.
      set (s0 := {| q_queue := []; q_todo := q_todo s; q_idle := S (q_idle s); q_total := q_total s; q_result := q_result s;
                    q_master := q_master s; q_workers := q_workers s; q_added := q_added s; q_finished := q_finished s;
                    q_evaluated := q_evaluated s; q_returned := q_returned s |}).
      assert (Hg0 : get_thread s0 t = Some th) by exact Hg.
      set (x := {| t_pc := PWait false; t_local := loc |}).
      assert (Hx : tw x = 0) by reflexivity.
      rewrite (mu_set s0 t th x Hg0). rewrite (mu_get s t th Hg). rewrite Eq.
      assert (Ho : others s0 t = others s t) by (destruct t; reflexivity). rewrite Ho, Hx. simpl. lia.
  - right. set (q := c0 :: q') in *. set (n := batch_now bs (length q) (q_total s) (q_idle s)). set (keep := length q - n).
    assert (Hn2 : n <= length q) by (apply batch_now_le; unfold q; simpl; lia).
    set (s0 := {| q_queue := firstn keep q; q_todo := q_todo s; q_idle := q_idle s; q_total := q_total s; q_result := q_result s;
                  q_master := q_master s; q_workers := q_workers s; q_added := q_added s; q_finished := q_finished s;
                  q_evaluated := q_evaluated s; q_returned := q_returned s |}).
    assert (Hg0 : get_thread s0 t = Some th) by exact Hg.
    set (x := {| t_pc := PBatch (skipn keep q) (match q_result s with None => true | Some _ => false end); t_local := loc |}).
    assert (Hx : tw x = 4 * length (skipn keep q)) by reflexivity.
    rewrite (mu_set s0 t th x Hg0). rewrite (mu_get s t th Hg). rewrite Eq. fold q.
    assert (Ho : others s0 t = others s t) by (destruct t; reflexivity). rewrite Ho, Hx.
    simpl q_queue. rewrite firstn_length, skipn_length. unfold keep. lia.
Qed.

Lemma mu_core s s' : q_queue s = q_queue s' -> q_master s = q_master s' -> q_workers s = q_workers s' -> mu s = mu s'.
Proof. intros H1 H2 H3. unfold mu, threads. rewrite H1, H2, H3. reflexivity. Qed.

Theorem step_decreases_measure bs V s a s' :
  Inv V s -> in_complete s -> step bs V s a = Some s' -> master_out s' \/ mu s' < mu s.
Proof.
  intros HI Hc Hs. unfold in_complete in Hc. destruct a as [cs | w | | t | t | t]; simpl in Hs.
  - destruct (t_pc (q_master s)); try discriminate; contradiction.
  - destruct (t_pc (q_master s)) as [|all| | |]; try discriminate; contradiction.
  - destruct (t_pc (q_master s)) as [|all| | |]; try discriminate; contradiction.
  - destruct (get_thread s t) as [th|] eqn:Hg; [|discriminate].
    pose proof (thread_ok_get V s t th HI Hg) as Hok.
    destruct (t_pc th) as [| | | |cs dw] eqn:Ep; try discriminate.
    + inversion Hs; subst s'. clear Hs.
      set (s0 := {| q_queue := q_queue s; q_todo := q_todo s; q_idle := q_idle s; q_total := S (q_total s); q_result := q_result s;
                    q_master := q_master s; q_workers := q_workers s; q_added := q_added s; q_finished := q_finished s;
                    q_evaluated := q_evaluated s; q_returned := q_returned s |}).
      assert (Hg0 : get_thread s0 t = Some th) by exact Hg.
      destruct (after_cleanup_mu bs s0 t th (t_local th) Hg0) as [Ho|Hm]; [left; exact Ho | right].
      assert (E : mu s0 = mu s) by (apply mu_core; reflexivity). rewrite E in Hm. unfold tw in Hm. rewrite Ep in Hm. lia.
    + inversion Hs; subst s'. clear Hs.
      unfold thread_ok in Hok. rewrite Ep in Hok. destruct Hok as (Hne & _).
      assert (Hlen : 1 <= length cs) by (destruct cs; [congruence | simpl; lia]).
      set (swap := match t_local th, q_result s with Some _, None => true | _, _ => false end).
      set (res' := if swap then t_local th else q_result s).
      set (loc' := if swap then None else t_local th).
      set (todo' := q_todo s - length cs).
      set (s1 := {| q_queue := q_queue s; q_todo := todo'; q_idle := q_idle s; q_total := q_total s; q_result := res';
                    q_master := q_master s; q_workers := q_workers s; q_added := q_added s; q_finished := q_finished s ++ cs;
                    q_evaluated := q_evaluated s; q_returned := q_returned s |}).
      set (x := {| t_pc := PNew; t_local := loc' |}).
      set (s2 := set_thread s1 t x).
      set (s3 := if Nat.eqb todo' 0 && negb (is_master t) then notify_master s2 else s2).
      assert (Hg1 : get_thread s1 t = Some th) by exact Hg.
      assert (Hg2 : get_thread s2 t = Some x) by (eapply get_set_same; exact Hg1).
      assert (Hmu2 : mu s2 + 2 * length cs = mu s + 1).
      { unfold s2. rewrite (mu_set s1 t th x Hg1). rewrite (mu_get s t th Hg).
        assert (Ho : others s1 t = others s t) by (destruct t; reflexivity). rewrite Ho.
        unfold tw. rewrite Ep. simpl. lia. }
      assert (Hmu3 : mu s3 <= mu s2 + 1 /\ get_thread s3 t = Some x).
      { unfold s3. destruct (Nat.eqb todo' 0 && negb (is_master t)) eqn:En; [|split; [lia | exact Hg2]].
        apply andb_true_iff in En. destruct En as [_ Enm]. destruct t as [i|]; [|discriminate].
        unfold notify_master. destruct (t_pc (q_master s2)) as [| |[|]| |] eqn:Em2; try (split; [lia | exact Hg2]).
        split; [|exact Hg2].
        rewrite (mu_set s2 None (q_master s2) _ eq_refl). rewrite (mu_get s2 None (q_master s2) eq_refl).
        unfold tw. rewrite Em2. simpl. lia. }
      destruct Hmu3 as [Hmu3 Hg3].
      destruct (after_cleanup_mu bs s3 t x loc' Hg3) as [Ho|Hm]; [left; exact Ho | right].
      unfold tw in Hm at 1. simpl in Hm. lia.
  - destruct (get_thread s t) as [th|] eqn:Hg; [|discriminate].
    destruct (t_pc th) as [| |b| |] eqn:Ep; try discriminate. destruct b; [|discriminate]. inversion Hs; subst s'. clear Hs.
    set (s0 := {| q_queue := q_queue s; q_todo := q_todo s; q_idle := q_idle s - 1; q_total := q_total s; q_result := q_result s;
                  q_master := q_master s; q_workers := q_workers s; q_added := q_added s; q_finished := q_finished s;
                  q_evaluated := q_evaluated s; q_returned := q_returned s |}).
    assert (Hg0 : get_thread s0 t = Some th) by exact Hg.
    destruct (after_cleanup_mu bs s0 t th (t_local th) Hg0) as [Ho|Hm]; [left; exact Ho | right].
    assert (E : mu s0 = mu s) by (apply mu_core; reflexivity). rewrite E in Hm. unfold tw in Hm. rewrite Ep in Hm. lia.
  - destruct (get_thread s t) as [th|] eqn:Hg; [|discriminate].
    pose proof (thread_ok_get V s t th HI Hg) as Hok.
    destruct (t_pc th) as [| | |cs dw|] eqn:Ep; try discriminate.
    unfold thread_ok in Hok. rewrite Ep in Hok. destruct Hok as [Hne _].
    assert (Hlen : 1 <= length cs) by (destruct cs; [congruence | simpl; lia]).
    destruct (if dw then run_checks V cs (t_local th) else (t_local th, [])) as [loc' ev]. inversion Hs; subst s'. clear Hs. right.
    set (x := {| t_pc := PRet cs dw; t_local := loc' |}).
    assert (E : mu {| q_queue := q_queue (set_thread s t x); q_todo := q_todo (set_thread s t x); q_idle := q_idle (set_thread s t x);
                      q_total := q_total (set_thread s t x); q_result := q_result (set_thread s t x); q_master := q_master (set_thread s t x);
                      q_workers := q_workers (set_thread s t x); q_added := q_added (set_thread s t x); q_finished := q_finished (set_thread s t x);
                      q_evaluated := q_evaluated (set_thread s t x) ++ ev; q_returned := q_returned (set_thread s t x) |} = mu (set_thread s t x))
      by (apply mu_core; reflexivity).
    rewrite E. rewrite (mu_set s t th x Hg), (mu_get s t th Hg). unfold tw. rewrite Ep. simpl. lia.
Qed.

(* hence: a run of k steps during which the master stays inside Complete() has k <= mu *)
Fixpoint all_in_complete (bs : nat) (V : check -> option R) (s : cq) (l : list act) : Prop :=
  match l with
  | [] => True
  | a :: r => match step bs V s a with Some s' => in_complete s' /\ all_in_complete bs V s' r | None => False end
  end.

Theorem complete_returns_within_measure bs V : forall l s,
  Inv V s -> in_complete s -> all_in_complete bs V s l -> length l <= mu s.
Proof.
  induction l as [|a l IH]; intros s HI Hc Hall; simpl in *; [lia|].
  destruct (step bs V s a) as [s'|] eqn:E; [|contradiction]. destruct Hall as [Hc' Hall].
  destruct (step_decreases_measure bs V s a s' HI Hc E) as [Ho|Hm].
  - unfold master_out in Ho. unfold in_complete in Hc'. rewrite Ho in Hc'. contradiction.
  - assert (HI' : Inv V s') by (eapply step_inv; eauto). specialize (IH s' HI' Hc' Hall). lia.
Qed.
