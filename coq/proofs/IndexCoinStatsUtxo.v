(* C21 part B: the replay of a chain from genesis yields the statistics of the chain's UTXO set
   computed from scratch (ComputeUTXOStats): MuHash, output count, bogo size, total amount. *)
From Coq Require Import NArith Znumtheory Permutation.
From BV Require Import lib.Ints model.CryptoBase model.MuHash model.Index model.IndexCoinStats
  proofs.MuHashArith proofs.MuHashLemmas proofs.MuHashVal proofs.IndexCoinStatsOps proofs.IndexCoinStatsHist.
Local Open Scope Z_scope.

(* ---------- decidable equality on UTXO entries ---------- *)
Definition entry_eq_dec : forall a b : utxo_entry, {a = b} + {a <> b}.
Proof.
  assert (Hb : forall a b : bytes, {a = b} + {a <> b}) by (apply list_eq_dec, N.eq_dec).
  assert (Hop : forall a b : outpoint, {a = b} + {a <> b}) by (decide equality; apply Z.eq_dec).
  assert (Hc : forall a b : coin, {a = b} + {a <> b}) by (decide equality; [ apply Bool.bool_dec | apply Z.eq_dec | apply Z.eq_dec ]).
  decide equality.
Defined.

Lemma entry_eqb_eq a b : entry_eqb a b = true -> a = b.
Proof.
  destruct a as [[t n] [v s h cb]], b as [[t' n'] [v' s' h' cb']]. unfold entry_eqb, outpoint_eqb, coin_eqb. simpl.
  intros H. rewrite !Bool.andb_true_iff in H. destruct H as [[Ht En] [[[Ev Es] Eh] Ec]].
  apply bytes_eqb_eq in Ht, Es. apply Z.eqb_eq in En, Ev, Eh. apply Bool.eqb_prop in Ec. subst. reflexivity.
Qed.

Ltac perm_count := apply (Permutation_count_occ entry_eq_dec); intro; rewrite ?count_occ_app; simpl; repeat (destruct (entry_eq_dec _ _)); lia.

Ltac count_lia :=
  unfold utxo_entry in *;
  do 12 try match goal with
         | |- context [count_occ entry_eq_dec ?l ?x] =>
           let n := fresh "n" in generalize (count_occ entry_eq_dec l x); intro n
         end; lia.

Lemma perm_counts (a b : list utxo_entry) : Permutation a b -> forall x, count_occ entry_eq_dec a x = count_occ entry_eq_dec b x.
Proof. apply (Permutation_count_occ entry_eq_dec). Qed.

(* ---------- the UTXO set against the created and spent entries ---------- *)
Lemma utxo_spend_perm : forall u e u', utxo_spend u e = Some u' -> Permutation u (e :: u').
Proof.
  induction u as [| x r IH]; intros e u' H; simpl in H; [ discriminate | ].
  destruct (entry_eqb x e) eqn:E.
  - inversion H. subst. apply entry_eqb_eq in E. subst. apply Permutation_refl.
  - destruct (utxo_spend r e) as [r' |] eqn:Er; [ | discriminate ]. inversion H. subst.
    specialize (IH e r' Er). apply perm_trans with (x :: e :: r'); [ apply perm_skip, IH | apply perm_swap ].
Qed.

Lemma utxo_spend_all_perm : forall ins u u', utxo_spend_all u ins = Some u' ->
  Permutation u (map (fun i => (i_prevout i, i_coin i)) ins ++ u').
Proof.
  induction ins as [| i r IH]; intros u u' H; simpl in H.
  - inversion H. apply Permutation_refl.
  - destruct (utxo_spend u (i_prevout i, i_coin i)) as [u1 |] eqn:E; [ | discriminate ].
    apply utxo_spend_perm in E. specialize (IH u1 u' H). simpl.
    apply perm_trans with ((i_prevout i, i_coin i) :: u1); [ exact E | apply perm_skip, IH ].
Qed.

Lemma utxo_add_outs_spec height t : forall outs j u u', utxo_add_outs height t j outs u = Some u' ->
  u' = u ++ created_from height t j outs.
Proof.
  induction outs as [| o r IH]; intros j u u' H; simpl in H.
  - inversion H. subst. rewrite app_nil_r. reflexivity.
  - simpl. destruct (is_unspendable (o_script o)); [ apply IH, H | ].
    cbv zeta in H. destruct (utxo_has_outpoint u _); [ discriminate | ].
    apply IH in H. rewrite H, <- app_assoc. reflexivity.
Qed.

Fixpoint txs_created (bip30 : bool) (height : Z) (txs : list tx) : list utxo_entry :=
  match txs with [] => [] | t :: r => tx_created bip30 height t ++ txs_created bip30 height r end.
Fixpoint txs_spent (bip30 : bool) (txs : list tx) : list utxo_entry :=
  match txs with [] => [] | t :: r => tx_spent bip30 t ++ txs_spent bip30 r end.

Lemma utxo_connect_tx_perm bip30 height t u0 u1 I R :
  utxo_connect_tx bip30 height (Some u0) t = Some u1 ->
  Permutation I (u0 ++ R) ->
  Permutation (I ++ tx_created bip30 height t) (u1 ++ (R ++ tx_spent bip30 t)).
Proof.
  unfold utxo_connect_tx, tx_created, tx_spent, tx_skipped. intros H HP.
  destruct (t_coinbase t && bip30).
  - inversion H. subst. rewrite !app_nil_r. exact HP.
  - destruct (t_coinbase t).
    + apply utxo_add_outs_spec in H. subst u1. rewrite app_nil_r.
      pose proof (perm_counts _ _ HP) as C. apply (Permutation_count_occ entry_eq_dec). intro x.
      specialize (C x). rewrite !count_occ_app in *. revert C. count_lia.
    + destruct (utxo_spend_all u0 (t_ins t)) as [u' |] eqn:Es; [ | discriminate ].
      apply utxo_spend_all_perm in Es. apply utxo_add_outs_spec in H. subst u1.
      pose proof (perm_counts _ _ HP) as C. pose proof (perm_counts _ _ Es) as C2.
      apply (Permutation_count_occ entry_eq_dec). intro x.
      specialize (C x). specialize (C2 x). rewrite !count_occ_app in *. revert C C2. count_lia.
Qed.

Lemma utxo_connect_txs_none bip30 height : forall txs, fold_left (utxo_connect_tx bip30 height) txs None = None.
Proof. induction txs as [| t r IH]; [ reflexivity | exact IH ]. Qed.

Lemma utxo_connect_txs_perm bip30 height : forall txs u0 u1 I R,
  fold_left (utxo_connect_tx bip30 height) txs (Some u0) = Some u1 ->
  Permutation I (u0 ++ R) ->
  Permutation (I ++ txs_created bip30 height txs) (u1 ++ (R ++ txs_spent bip30 txs)).
Proof.
  induction txs as [| t r IH]; intros u0 u1 I R H HP.
  - simpl in H. inversion H. subst. simpl. rewrite !app_nil_r. exact HP.
  - cbn [fold_left] in H. destruct (utxo_connect_tx bip30 height (Some u0) t) as [u' |] eqn:Et.
    + pose proof (utxo_connect_tx_perm bip30 height t u0 u' I R Et HP) as HP'.
      specialize (IH u' u1 _ _ H HP'). simpl. rewrite !app_assoc in *. exact IH.
    + rewrite utxo_connect_txs_none in H. discriminate.
Qed.

(* created / spent entries of a whole chain (the genesis block contributes nothing) *)
Definition blk_created (b : block) : list utxo_entry := if 0 <? b_height b then txs_created (block_bip30 b) (b_height b) (b_txs b) else [].
Definition blk_spent (b : block) : list utxo_entry := if 0 <? b_height b then txs_spent (block_bip30 b) (b_txs b) else [].
Fixpoint chain_created (c : list block) : list utxo_entry := match c with [] => [] | b :: r => blk_created b ++ chain_created r end.
Fixpoint chain_spent (c : list block) : list utxo_entry := match c with [] => [] | b :: r => blk_spent b ++ chain_spent r end.

Lemma utxo_connect_blocks_none : forall c, fold_left utxo_connect_block c None = None.
Proof.
  induction c as [| b r IH]; [ reflexivity | ]. cbn [fold_left]. unfold utxo_connect_block at 2.
  destruct (0 <? b_height b); [ rewrite utxo_connect_txs_none | ]; exact IH.
Qed.

Lemma utxo_chain_perm : forall c u0 u1 I R,
  fold_left utxo_connect_block c (Some u0) = Some u1 ->
  Permutation I (u0 ++ R) ->
  Permutation (I ++ chain_created c) (u1 ++ (R ++ chain_spent c)).
Proof.
  induction c as [| b r IH]; intros u0 u1 I R H HP.
  - simpl in H. inversion H. subst. simpl. rewrite !app_nil_r. exact HP.
  - cbn [fold_left] in H. unfold utxo_connect_block at 2 in H. simpl. unfold blk_created, blk_spent.
    destruct (0 <? b_height b).
    + fold (block_bip30 b) in H.
      destruct (fold_left (utxo_connect_tx (block_bip30 b) (b_height b)) (b_txs b) (Some u0)) as [u' |] eqn:Eb.
      * pose proof (utxo_connect_txs_perm _ _ _ _ _ _ _ Eb HP) as HP'.
        specialize (IH u' u1 _ _ H HP'). rewrite !app_assoc in *. exact IH.
      * rewrite utxo_connect_blocks_none in H. discriminate.
    + simpl. apply (IH u0 u1 I R H HP).
Qed.

Theorem utxo_of_chain_perm c u : utxo_of_chain c = Some u -> Permutation (chain_created c) (u ++ chain_spent c).
Proof.
  intros H. apply (utxo_chain_perm c [] u [] [] H). apply Permutation_refl.
Qed.

(* ---------- the MuHash of the replay ---------- *)
Definition blk_ops (b : block) : list mh_op := if 0 <? b_height b then block_ops b else [].
Definition chain_ops (c : list block) : list mh_op := flat_map blk_ops c.

Lemma ins_list_ins_ops l : ins_list (ins_ops l) = map txout_ser l.
Proof. induction l as [| e l IH]; simpl; [ reflexivity | rewrite IH; reflexivity ]. Qed.
Lemma rem_list_ins_ops l : rem_list (ins_ops l) = [].
Proof. induction l as [| e l IH]; simpl; [ reflexivity | exact IH ]. Qed.
Lemma ins_list_rem_ops l : ins_list (rem_ops l) = [].
Proof. induction l as [| e l IH]; simpl; [ reflexivity | exact IH ]. Qed.
Lemma rem_list_rem_ops l : rem_list (rem_ops l) = map txout_ser l.
Proof. induction l as [| e l IH]; simpl; [ reflexivity | rewrite IH; reflexivity ]. Qed.

Lemma txs_ops_ins bip30 h : forall txs, ins_list (flat_map (tx_ops bip30 h) txs) = map txout_ser (txs_created bip30 h txs).
Proof.
  induction txs as [| t r IH]; [ reflexivity | ]. cbn [flat_map txs_created]. unfold tx_ops at 1.
  rewrite !ins_list_app, ins_list_ins_ops, ins_list_rem_ops, IH, map_app, app_nil_r. reflexivity.
Qed.
Lemma txs_ops_rem bip30 h : forall txs, rem_list (flat_map (tx_ops bip30 h) txs) = map txout_ser (txs_spent bip30 txs).
Proof.
  induction txs as [| t r IH]; [ reflexivity | ]. cbn [flat_map txs_spent]. unfold tx_ops at 1.
  rewrite !rem_list_app, rem_list_ins_ops, rem_list_rem_ops, IH, map_app. reflexivity.
Qed.
Lemma chain_ops_ins : forall c, ins_list (chain_ops c) = map txout_ser (chain_created c).
Proof.
  induction c as [| b r IH]; [ reflexivity | ]. unfold chain_ops in *. cbn [flat_map chain_created].
  rewrite ins_list_app, IH, map_app. f_equal. unfold blk_ops, blk_created, block_ops.
  destruct (0 <? b_height b); [ apply txs_ops_ins | reflexivity ].
Qed.
Lemma chain_ops_rem : forall c, rem_list (chain_ops c) = map txout_ser (chain_spent c).
Proof.
  induction c as [| b r IH]; [ reflexivity | ]. unfold chain_ops in *. cbn [flat_map chain_spent].
  rewrite rem_list_app, IH, map_app. f_equal. unfold blk_ops, blk_spent, block_ops.
  destruct (0 <? b_height b); [ apply txs_ops_rem | reflexivity ].
Qed.

Lemma chain_ops_invertible c : (forall b, In b c -> ops_invertible (block_ops b)) -> ops_invertible (chain_ops c).
Proof.
  induction c as [| b r IH]; intros H; [ intros o [] | ]. unfold chain_ops. cbn [flat_map].
  apply ops_invertible_app. split.
  - unfold blk_ops. destruct (0 <? b_height b); [ apply H; left; reflexivity | intros o [] ].
  - apply IH. intros a Ha. apply H. right; exact Ha.
Qed.

Lemma replay_val i : forall c x y,
  mh_good (cs_mh x) -> ops_invertible (chain_ops c) -> replay i c x = Ok y ->
  mh_good (cs_mh y) /\ mh_val (cs_mh y) = (mh_val (cs_mh x) * ops_factor (chain_ops c)) mod P3072.
Proof.
  pose proof P3072_gt1 as Hp.
  induction c as [| b r IH]; intros x y Hg Hinv H.
  - simpl in H. inversion H. subst. split; [ exact Hg | ]. change (ops_factor (chain_ops [])) with 1.
    rewrite Z.mul_1_r. symmetry. apply Z.mod_small. apply mh_val_range, Hg.
  - simpl in H. destruct (cs_append i x b) as [x' |] eqn:Ea; [ | discriminate ].
    unfold chain_ops in Hinv. cbn [flat_map] in Hinv. apply ops_invertible_app in Hinv. destruct Hinv as [Hb Hr].
    rewrite cs_append_unfold in Ea.
    destruct (append_core i (cs_mh x) (cs_v x) (cs_cur x) b) as [[m v'] |] eqn:Ec; [ | discriminate ].
    pose proof (append_core_m _ _ _ _ _ _ _ Ec) as Hm. fold (blk_ops b) in Hm.
    assert (Hm' : m = mh_run (blk_ops b) (cs_mh x)).
    { rewrite Hm. unfold blk_ops. destruct (0 <? b_height b); reflexivity. }
    destruct (mh_val_run (blk_ops b) (cs_mh x) Hg Hb) as [G1 V1]. rewrite <- Hm' in G1, V1.
    inversion Ea as [Ex']. 
    assert (Gx' : mh_good (cs_mh x')) by (rewrite <- Ex'; simpl; apply mh_good_finalize_state, G1).
    destruct (IH x' y Gx' Hr H) as [G2 V2]. split; [ exact G2 | ].
    rewrite V2. rewrite <- Ex' at 1. simpl cs_mh. rewrite mh_val_finalize_state by apply G1. rewrite V1.
    unfold chain_ops. cbn [flat_map]. rewrite ops_factor_app. rewrite Zmult_mod_idemp_l. f_equal. ring.
Qed.

Lemma ops_factor_ins_ops l : ops_factor (ins_ops l) = prodl (map txout_ser l).
Proof. induction l as [| e l IH]; [ reflexivity | ]. simpl ins_ops. rewrite ops_factor_cons, IH. reflexivity. Qed.

Theorem replay_muhash_eq_scratch i c y u :
  (forall b, In b c -> ops_invertible (block_ops b)) ->
  cs_replay i c = Ok y -> utxo_of_chain c = Some u ->
  mh_finalize (cs_mh y) = utxo_muhash u.
Proof.
  intros Hinv Hy Hu. pose proof P3072_gt1 as Hp.
  pose proof (chain_ops_invertible c Hinv) as Hci.
  destruct (replay_val i c cs_init y mh_good_empty Hci Hy) as [Gy Vy].
  change (cs_mh cs_init) with mh_empty in Vy. rewrite mh_val_empty, Z.mul_1_l in Vy.
  unfold utxo_muhash. apply mh_finalize_val. rewrite Vy.
  rewrite <- mh_run_ins_ops.
  assert (Hui : ops_invertible (ins_ops u)).
  { intros o Ho. unfold ins_ops in Ho. apply in_map_iff in Ho. destruct Ho as [e [<- He]]. simpl.
    (* every coin of the UTXO set was created by the chain *)
    pose proof (utxo_of_chain_perm c u Hu) as HP.
    assert (Hin : In e (chain_created c)).
    { apply (Permutation_in e (Permutation_sym HP)). apply in_or_app. left; exact He. }
    assert (Hin2 : In (txout_ser e) (ins_list (chain_ops c))) by (rewrite chain_ops_ins; apply in_map, Hin).
    clear - Hci Hin2. induction (chain_ops c) as [| o r IH]; [ destruct Hin2 | ].
    apply ops_invertible_cons in Hci. destruct Hci as [Ho Hr]. destruct o as [d | d]; simpl in Hin2.
    - destruct Hin2 as [<- | Hin2]; [ exact Ho | apply IH; assumption ].
    - apply IH; assumption. }
  destruct (mh_val_run (ins_ops u) mh_empty mh_good_empty Hui) as [_ Vu]. rewrite Vu, mh_val_empty, Z.mul_1_l.
  rewrite ops_factor_ins_ops.
  (* F * prod(spent) = prod(created) = prod(u) * prod(spent) *)
  pose proof (ops_factor_split (chain_ops c) Hci) as Hs. rewrite chain_ops_ins, chain_ops_rem in Hs.
  pose proof (utxo_of_chain_perm c u Hu) as HP.
  pose proof (prodl_perm _ _ (Permutation_map txout_ser HP)) as Hpr. rewrite map_app, prodl_app in Hpr.
  rewrite Hpr in Hs.
  apply invertible_cancel with (a := prodl (map txout_ser (chain_spent c))); [ | exact Hs ].
  apply prodl_invertible. intros d Hd. rewrite <- chain_ops_rem in Hd.
  clear - Hci Hd. induction (chain_ops c) as [| o r IH]; [ destruct Hd | ].
  apply ops_invertible_cons in Hci. destruct Hci as [Ho Hr]. destruct o as [d' | d']; simpl in Hd.
  - apply IH; assumption.
  - destruct Hd as [<- | Hd]; [ exact Ho | apply IH; assumption ].
Qed.

(* ---------- the counters: output count, bogo size, total amount ---------- *)
Local Notation M := 18446744073709551616.
Lemma wrapu64_mod x : wrapu64 x = x mod M.
Proof. reflexivity. Qed.
Lemma wrap64_mod x : wrap64 x mod M = x mod M.
Proof.
  unfold wrap64, wraps. change (2 ^ 64) with M. change (2 ^ (64 - 1)) with 9223372036854775808.
  destruct (x mod M <? 9223372036854775808); lia.
Qed.
Lemma wrap64_range x : -9223372036854775808 <= wrap64 x < 9223372036854775808.
Proof.
  unfold wrap64, wraps. change (2 ^ 64) with M. change (2 ^ (64 - 1)) with 9223372036854775808.
  destruct (x mod M <? 9223372036854775808) eqn:E; lia.
Qed.

Definition sum_bogo (l : list utxo_entry) : Z := fold_right (fun e a => bogo_size (c_script (snd e)) + a) 0 l.
Definition sum_val (l : list utxo_entry) : Z := fold_right (fun e a => c_value (snd e) + a) 0 l.
Definition len (l : list utxo_entry) : Z := Z.of_nat (length l).

Lemma len_app a b : len (a ++ b) = len a + len b.
Proof. unfold len. rewrite app_length. lia. Qed.
Lemma sum_bogo_app a b : sum_bogo (a ++ b) = sum_bogo a + sum_bogo b.
Proof. induction a as [| e a IH]; simpl; [ reflexivity | rewrite IH; lia ]. Qed.
Lemma sum_val_app a b : sum_val (a ++ b) = sum_val a + sum_val b.
Proof. induction a as [| e a IH]; simpl; [ reflexivity | rewrite IH; lia ]. Qed.
Lemma len_perm a b : Permutation a b -> len a = len b.
Proof. intros H. unfold len. rewrite (Permutation_length H). reflexivity. Qed.
Lemma sum_bogo_perm a b : Permutation a b -> sum_bogo a = sum_bogo b.
Proof. induction 1; simpl; lia. Qed.
Lemma sum_val_perm a b : Permutation a b -> sum_val a = sum_val b.
Proof. induction 1; simpl; lia. Qed.

(* v's three counters are v0's plus (dn, db, da), modulo 2^64 *)
Definition cong3 (v v0 : dbval) (dn db da : Z) : Prop :=
  v_txouts v mod M = (v_txouts v0 + dn) mod M /\ v_bogo v mod M = (v_bogo v0 + db) mod M /\ v_amount v mod M = (v_amount v0 + da) mod M.
Definition v_rng (v : dbval) : Prop :=
  0 <= v_txouts v < M /\ 0 <= v_bogo v < M /\ -9223372036854775808 <= v_amount v < 9223372036854775808.

Lemma cong3_refl v : cong3 v v 0 0 0.
Proof. unfold cong3. rewrite !Z.add_0_r. repeat split. Qed.
Lemma cong3_trans v2 v1 v0 a b c a' b' c' : cong3 v2 v1 a' b' c' -> cong3 v1 v0 a b c -> cong3 v2 v0 (a + a') (b + b') (c + c').
Proof. unfold cong3. intros [H1 [H2 H3]] [G1 [G2 G3]]. repeat split; lia. Qed.
Lemma cong3_same_fields v v' v0 a b c :
  v_txouts v' = v_txouts v0 -> v_bogo v' = v_bogo v0 -> v_amount v' = v_amount v0 -> cong3 v v' a b c -> cong3 v v0 a b c.
Proof. unfold cong3. intros -> -> ->. exact (fun H => H). Qed.

Lemma append_out_cong height t : forall outs m v j,
  let C := created_from height t j outs in
  cong3 (acc_v (fold_left (append_out height t) outs (m, v, j))) v (len C) (sum_bogo C) (sum_val C) /\
  (v_rng v -> v_rng (acc_v (fold_left (append_out height t) outs (m, v, j)))).
Proof.
  induction outs as [| o r IH]; intros m v j C.
  - split; [ apply cong3_refl | exact (fun H => H) ].
  - subst C. cbn [fold_left created_from]. unfold append_out at 2 4.
    destruct (is_unspendable (o_script o)).
    + match goal with |- context [fold_left _ r (?m1, ?v1, ?j1)] => destruct (IH m1 v1 j1) as [Hc Hr] end.
      split; [ apply (cong3_same_fields _ _ v _ _ _ eq_refl eq_refl eq_refl) in Hc; exact Hc | ].
      intros Hv. apply Hr. exact Hv.
    + match goal with |- context [fold_left _ r (?m1, ?v1, ?j1)] =>
        destruct (IH m1 v1 j1) as [Hc Hr]; set (F := acc_v (fold_left (append_out height t) r (m1, v1, j1))) in *; clearbody F end.
      split.
      * unfold cong3 in *. cbn [v_txouts v_bogo v_amount] in Hc. rewrite !wrapu64_mod in Hc. destruct Hc as [H1 [H2 H3]].
        pose proof (wrap64_mod (v_amount v + o_value o)) as Hw.
        unfold len in *. simpl length. simpl sum_bogo. simpl sum_val. rewrite Nat2Z.inj_succ.
        repeat split; lia.
      * intros _. apply Hr. unfold v_rng. cbn [v_txouts v_bogo v_amount]. rewrite !wrapu64_mod.
        pose proof (wrap64_range (v_amount v + o_value o)). repeat split; lia.
Qed.

Lemma append_in_cong : forall ins m v,
  let S := map (fun i => (i_prevout i, i_coin i)) ins in
  cong3 (snd (fold_left append_in ins (m, v))) v (- len S) (- sum_bogo S) (- sum_val S) /\
  (v_rng v -> v_rng (snd (fold_left append_in ins (m, v)))).
Proof.
  induction ins as [| i r IH]; intros m v S.
  - split; [ apply cong3_refl | exact (fun H => H) ].
  - subst S. cbn [fold_left]. unfold append_in at 2 4.
    match goal with |- context [fold_left _ r (?m1, ?v1)] =>
      destruct (IH m1 v1) as [Hc Hr]; set (F := snd (fold_left append_in r (m1, v1))) in *; clearbody F end.
    split.
    + unfold cong3 in *. cbn [v_txouts v_bogo v_amount] in Hc. rewrite !wrapu64_mod in Hc. destruct Hc as [H1 [H2 H3]].
      pose proof (wrap64_mod (v_amount v - c_value (i_coin i))) as Hw.
      unfold len in *. simpl map. simpl length. simpl sum_bogo. simpl sum_val. rewrite Nat2Z.inj_succ.
      repeat split; lia.
    + intros _. apply Hr. unfold v_rng. cbn [v_txouts v_bogo v_amount]. rewrite !wrapu64_mod.
      pose proof (wrap64_range (v_amount v - c_value (i_coin i))). repeat split; lia.
Qed.

Lemma append_tx_cong bip30 s h t m v :
  let C := tx_created bip30 h t in let S := tx_spent bip30 t in
  cong3 (snd (append_tx bip30 s h (m, v) t)) v (len C - len S) (sum_bogo C - sum_bogo S) (sum_val C - sum_val S) /\
  (v_rng v -> v_rng (snd (append_tx bip30 s h (m, v) t))).
Proof.
  unfold append_tx, tx_created, tx_spent, tx_skipped. cbv zeta.
  destruct (t_coinbase t && bip30).
  - split; [ unfold cong3, len, sum_bogo, sum_val; simpl; rewrite !Z.add_0_r; repeat split | exact (fun H => H) ].
  - rewrite (surj3 (fold_left (append_out h t) (t_outs t) (m, v, 0))).
    destruct (append_out_cong h t (t_outs t) m v 0) as [Hc Hr].
    destruct (t_coinbase t).
    + split; [ | exact Hr ]. unfold len, sum_bogo, sum_val in *. simpl. rewrite !Z.sub_0_r. exact Hc.
    + match goal with |- context [fold_left append_in _ (?m1, ?v1)] => destruct (append_in_cong (t_ins t) m1 v1) as [Hc2 Hr2] end.
      split; [ | intros Hv; apply Hr2, Hr, Hv ].
      pose proof (cong3_trans _ _ _ _ _ _ _ _ _ Hc2 Hc) as H. unfold cong3 in *. destruct H as [H1 [H2 H3]].
      repeat split; [ rewrite H1 | rewrite H2 | rewrite H3 ]; f_equal; lia.
Qed.

Lemma append_txs_cong bip30 s h : forall txs m v,
  let C := txs_created bip30 h txs in let S := txs_spent bip30 txs in
  cong3 (snd (fold_left (append_tx bip30 s h) txs (m, v))) v (len C - len S) (sum_bogo C - sum_bogo S) (sum_val C - sum_val S) /\
  (v_rng v -> v_rng (snd (fold_left (append_tx bip30 s h) txs (m, v)))).
Proof.
  induction txs as [| t r IH]; intros m v C S.
  - split; [ apply cong3_refl | exact (fun H => H) ].
  - subst C S. cbn [fold_left txs_created txs_spent].
    rewrite (surjective_pairing (append_tx bip30 s h (m, v) t)).
    destruct (append_tx_cong bip30 s h t m v) as [Hc Hr].
    destruct (IH (fst (append_tx bip30 s h (m, v) t)) (snd (append_tx bip30 s h (m, v) t))) as [Hc2 Hr2].
    split; [ | intros Hv; apply Hr2, Hr, Hv ].
    pose proof (cong3_trans _ _ _ _ _ _ _ _ _ Hc2 Hc) as H. rewrite !len_app, !sum_bogo_app, !sum_val_app.
    unfold cong3 in *. destruct H as [H1 [H2 H3]].
    repeat split; [ rewrite H1 | rewrite H2 | rewrite H3 ]; f_equal; lia.
Qed.

Lemma append_core_cong i m0 vin cur b m v' : append_core i m0 vin cur b = Ok (m, v') ->
  let C := blk_created b in let S := blk_spent b in
  cong3 v' vin (len C - len S) (sum_bogo C - sum_bogo S) (sum_val C - sum_val S) /\ (v_rng vin -> v_rng v').
Proof.
  unfold append_core, blk_created, blk_spent. cbv zeta. destruct (0 <? b_height b).
  - destruct (negb (bytes_eqb cur (b_prev b))); [ discriminate | ].
    fold (block_bip30 b).
    pose proof (append_txs_cong (block_bip30 b) (block_subsidy i (b_height b)) (b_height b) (b_txs b) m0
                  (set_subsidy vin (wrap64 (v_subsidy vin + block_subsidy i (b_height b))))) as Hc.
    set (F := fold_left _ (b_txs b) _) in *. clearbody F. destruct F as [m1 v1]. simpl in Hc.
    destruct (INT64_MAX <? _); [ discriminate | ]. intros H. inversion H. subst.
    destruct Hc as [Hc Hr]. split; [ exact Hc | exact Hr ].
  - destruct (INT64_MAX <? _); [ discriminate | ]. intros H. inversion H. subst.
    split; [ | exact (fun H => H) ]. unfold cong3, len, sum_bogo, sum_val. simpl. rewrite !Z.add_0_r. repeat split.
Qed.

Lemma replay_cong i : forall c x y, replay i c x = Ok y ->
  let C := chain_created c in let S := chain_spent c in
  cong3 (cs_v y) (cs_v x) (len C - len S) (sum_bogo C - sum_bogo S) (sum_val C - sum_val S) /\ (v_rng (cs_v x) -> v_rng (cs_v y)).
Proof.
  induction c as [| b r IH]; intros x y H C S.
  - simpl in H. inversion H. subst. split; [ apply cong3_refl | exact (fun H => H) ].
  - subst C S. simpl in H. destruct (cs_append i x b) as [x' |] eqn:Ea; [ | discriminate ].
    rewrite cs_append_unfold in Ea.
    destruct (append_core i (cs_mh x) (cs_v x) (cs_cur x) b) as [[m v'] |] eqn:Ec; [ | discriminate ].
    destruct (append_core_cong _ _ _ _ _ _ _ Ec) as [Hc Hr].
    destruct (IH x' y H) as [Hc2 Hr2]. inversion Ea as [Ex']. rewrite <- Ex' in Hc2, Hr2. simpl in Hc2, Hr2.
    split; [ | intros Hv; apply Hr2, Hr, Hv ].
    pose proof (cong3_trans _ _ _ _ _ _ _ _ _ Hc2 Hc) as H3. cbn [chain_created chain_spent].
    rewrite !len_app, !sum_bogo_app, !sum_val_app.
    unfold cong3 in *. destruct H3 as [H1 [H2 H4]].
    repeat split; [ rewrite H1 | rewrite H2 | rewrite H4 ]; f_equal; lia.
Qed.

(* the from-scratch counters *)
Lemma utxo_count_spec u : utxo_count u = len u mod M.
Proof.
  unfold utxo_count, len.
  assert (G : forall l a, fold_left (fun n (_ : utxo_entry) => wrapu64 (n + 1)) l a mod M = (a + Z.of_nat (length l)) mod M /\
                          (0 <= a < M -> 0 <= fold_left (fun n (_ : utxo_entry) => wrapu64 (n + 1)) l a < M)).
  { induction l as [| e l IH]; intros a.
    - simpl. rewrite Z.add_0_r. split; [ reflexivity | exact (fun H => H) ].
    - cbn [fold_left length]. destruct (IH (wrapu64 (a + 1))) as [H1 H2]. rewrite wrapu64_mod in *.
      split; [ rewrite H1, Nat2Z.inj_succ; lia | intros _; apply H2; lia ]. }
  destruct (G u 0) as [H1 H2]. rewrite Z.add_0_l in H1. rewrite <- H1. symmetry. apply Z.mod_small. apply H2. lia.
Qed.
Lemma utxo_bogo_spec u : utxo_bogo u = sum_bogo u mod M.
Proof.
  unfold utxo_bogo.
  assert (G : forall l a, fold_left (fun n (e : utxo_entry) => wrapu64 (n + bogo_size (c_script (snd e)))) l a mod M = (a + sum_bogo l) mod M /\
                          (0 <= a < M -> 0 <= fold_left (fun n (e : utxo_entry) => wrapu64 (n + bogo_size (c_script (snd e)))) l a < M)).
  { induction l as [| e l IH]; intros a.
    - simpl. rewrite Z.add_0_r. split; [ reflexivity | exact (fun H => H) ].
    - cbn [fold_left]. destruct (IH (wrapu64 (a + bogo_size (c_script (snd e))))) as [H1 H2]. rewrite wrapu64_mod in *.
      split; [ rewrite H1; simpl sum_bogo; lia | intros _; apply H2; lia ]. }
  destruct (G u 0) as [H1 H2]. rewrite Z.add_0_l in H1. rewrite <- H1. symmetry. apply Z.mod_small. apply H2. lia.
Qed.
Lemma utxo_amount_spec u a : utxo_amount u = Some a -> a = sum_val u /\ -9223372036854775808 <= a < 9223372036854775808.
Proof.
  unfold utxo_amount.
  assert (G : forall l x r, INT64_MIN <= x <= INT64_MAX ->
            fold_left (fun a (e : utxo_entry) => match a with Some x => checked_add x (c_value (snd e)) | None => None end) l (Some x) = Some r ->
            r = x + sum_val l /\ INT64_MIN <= r <= INT64_MAX).
  { induction l as [| e l IH]; intros x r Hx H.
    - simpl in H. inversion H. subst. simpl. split; [ lia | exact Hx ].
    - cbn [fold_left] in H. unfold checked_add at 2 in H.
      destruct ((INT64_MIN <=? x + c_value (snd e)) && (x + c_value (snd e) <=? INT64_MAX)) eqn:E.
      + apply andb_prop in E. destruct E as [E1 E2]. apply Z.leb_le in E1, E2.
        destruct (IH _ r (conj E1 E2) H) as [Hr1 Hr2]. split; [ simpl sum_val; lia | exact Hr2 ].
      + exfalso. clear - H. induction l as [| e' l IHl]; [ discriminate | apply IHl, H ]. }
  intros H. destruct (G u 0 a) as [H1 H2]; [ unfold INT64_MIN, INT64_MAX; lia | exact H | ].
  unfold INT64_MIN, INT64_MAX in H2. split; lia.
Qed.

Lemma v_rng0 : v_rng dbval0.
Proof. unfold v_rng. simpl. lia. Qed.

(* ---------- index_eq_recompute for a chain replayed from genesis ---------- *)
Theorem replay_eq_scratch i c y u :
  (forall b, In b c -> ops_invertible (block_ops b)) ->
  cs_replay i c = Ok y -> utxo_of_chain c = Some u ->
  stats_agree (entry_of y) (compute_utxo_stats u) = true.
Proof.
  intros Hinv Hy Hu.
  pose proof (replay_muhash_eq_scratch i c y u Hinv Hy Hu) as Hh.
  destruct (replay_cong i c cs_init y Hy) as [Hc Hr]. specialize (Hr v_rng0).
  pose proof (utxo_of_chain_perm c u Hu) as HP.
  pose proof (len_perm _ _ HP) as L. pose proof (sum_bogo_perm _ _ HP) as Bg. pose proof (sum_val_perm _ _ HP) as Vl.
  rewrite len_app in L. rewrite sum_bogo_app in Bg. rewrite sum_val_app in Vl.
  unfold cong3 in Hc. change (cs_v cs_init) with dbval0 in Hc. simpl in Hc. destruct Hc as [H1 [H2 H3]].
  destruct Hr as [R1 [R2 R3]].
  unfold stats_agree, entry_of, compute_utxo_stats. cbn [us_hash us_txouts us_bogo us_amount].
  change (v_muhash (set_muhash (cs_v y) (mh_finalize (cs_mh y)))) with (mh_finalize (cs_mh y)).
  change (v_txouts (set_muhash (cs_v y) (mh_finalize (cs_mh y)))) with (v_txouts (cs_v y)).
  change (v_bogo (set_muhash (cs_v y) (mh_finalize (cs_mh y)))) with (v_bogo (cs_v y)).
  change (v_amount (set_muhash (cs_v y) (mh_finalize (cs_mh y)))) with (v_amount (cs_v y)).
  rewrite Hh, bytes_eqb_refl.
  assert (E1 : v_txouts (cs_v y) = utxo_count u).
  { rewrite utxo_count_spec. rewrite <- (Z.mod_small (v_txouts (cs_v y)) M) by exact R1. rewrite H1. f_equal. lia. }
  assert (E2 : v_bogo (cs_v y) = utxo_bogo u).
  { rewrite utxo_bogo_spec. rewrite <- (Z.mod_small (v_bogo (cs_v y)) M) by exact R2. rewrite H2. f_equal. lia. }
  rewrite E1, E2, !Z.eqb_refl. cbn [andb].
  destruct (utxo_amount u) as [a |] eqn:Ea; [ | reflexivity ].
  apply utxo_amount_spec in Ea. destruct Ea as [Ea Ra]. apply Z.eqb_eq.
  assert (Hm : v_amount (cs_v y) mod M = a mod M) by (rewrite H3; f_equal; lia).
  lia.
Qed.
