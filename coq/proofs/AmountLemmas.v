From BV Require Import lib.Ints lib.ChainParams gen.Params_gen model.Amount.
Local Open Scope Z_scope.

(* ---- the generated constants are what the statement of C31 assumes ---- *)
Lemma coin_is_1e8 : COIN = 100000000.
Proof. vm_compute. reflexivity. Qed.

Lemma initial_subsidy_no_wrap : wrap64 (50 * COIN) = 50 * 100000000.
Proof. rewrite coin_is_1e8. apply wrap64_id. unfold INT64_MIN, INT64_MAX. lia. Qed.

(* ---- subsidy = spec ---- *)
Lemma get_block_subsidy_spec interval h :
  0 < interval -> 0 <= h ->
  get_block_subsidy interval h = subsidy_spec interval h.
Proof.
  intros Hi Hh. unfold get_block_subsidy, subsidy_spec.
  rewrite cdiv_nonneg by lia. rewrite initial_subsidy_no_wrap.
  assert (Hk : 0 <= h / interval) by (apply Z.div_pos; lia).
  destruct (h / interval >=? 64) eqn:E1; destruct (h / interval <? 64) eqn:E2; try lia.
  rewrite Z.shiftr_div_pow2 by lia. reflexivity.
Qed.

Lemma subsidy_spec_nonneg interval h : 0 < interval -> 0 <= h -> 0 <= subsidy_spec interval h.
Proof.
  intros Hi Hh. unfold subsidy_spec.
  assert (Hk : 0 <= h / interval) by (apply Z.div_pos; lia).
  destruct (h / interval <? 64); [|lia].
  apply Z.div_pos; [lia|]. apply Z.pow_pos_nonneg; lia.
Qed.

Lemma subsidy_spec_le_initial interval h : 0 < interval -> 0 <= h -> subsidy_spec interval h <= 50 * 100000000.
Proof.
  intros Hi Hh. unfold subsidy_spec.
  assert (Hk : 0 <= h / interval) by (apply Z.div_pos; lia).
  destruct (h / interval <? 64); [|lia].
  assert (0 < 2 ^ (h / interval)) by (apply Z.pow_pos_nonneg; lia).
  apply Z.div_le_upper_bound; nia.
Qed.

Lemma subsidy_spec_monotone interval h1 h2 :
  0 < interval -> 0 <= h1 <= h2 -> subsidy_spec interval h2 <= subsidy_spec interval h1.
Proof.
  intros Hi Hh. unfold subsidy_spec.
  assert (Hk1 : 0 <= h1 / interval) by (apply Z.div_pos; lia).
  assert (Hk : h1 / interval <= h2 / interval) by (apply Z.div_le_mono; lia).
  destruct (h2 / interval <? 64) eqn:E2; destruct (h1 / interval <? 64) eqn:E1; try lia.
  - apply Z.div_le_compat_l; [lia|]. split; [apply Z.pow_pos_nonneg; lia|].
    apply Z.pow_le_mono_r; lia.
  - apply Z.div_pos; [lia|]. apply Z.pow_pos_nonneg; lia.
Qed.

Lemma subsidy_zero_from_64 interval h :
  0 < interval -> 64 * interval <= h -> get_block_subsidy interval h = 0.
Proof.
  intros Hi Hh. rewrite get_block_subsidy_spec by lia. unfold subsidy_spec.
  assert (64 <= h / interval) by (apply Z.div_le_lower_bound; lia).
  destruct (h / interval <? 64) eqn:E; lia.
Qed.

(* ---- total issuance ---- *)
Definition s_of (k : Z) : Z := if k <? 64 then (50 * 100000000) / 2 ^ k else 0.

Fixpoint pre (k : nat) : Z := match k with O => 0 | S j => pre j + s_of (Z.of_nat j) end.

Lemma s_of_nonneg k : 0 <= k -> 0 <= s_of k.
Proof. intros. unfold s_of. destruct (k <? 64); [|lia]. apply Z.div_pos; [lia|]. apply Z.pow_pos_nonneg; lia. Qed.

Lemma pre_mono a b : (a <= b)%nat -> pre a <= pre b.
Proof.
  induction 1 as [|m Hm IH]; [lia|].
  change (pre (S m)) with (pre m + s_of (Z.of_nat m)). pose proof (s_of_nonneg (Z.of_nat m)). lia.
Qed.

Lemma pre_sat k : (64 <= k)%nat -> pre k = pre 64.
Proof.
  intros H. induction H as [|m Hm IH]; [reflexivity|].
  change (pre (S m)) with (pre m + s_of (Z.of_nat m)). rewrite IH.
  generalize (pre 64); intros p. unfold s_of.
  destruct (Z.of_nat m <? 64) eqn:E; [exfalso; lia | lia].
Qed.

Lemma pre_64_eq : pre 64 = sum_halvings 64.
Proof. vm_compute. reflexivity. Qed.

Lemma pre_le_64 k : pre k <= pre 64.
Proof.
  destruct (le_lt_dec k 64) as [H|H]; [apply pre_mono; exact H|].
  rewrite pre_sat by lia. lia.
Qed.

Lemma succ_div_mod I n :
  0 < I -> 0 <= n ->
  ((n + 1) / I = n / I /\ (n + 1) mod I = n mod I + 1) \/
  ((n + 1) / I = n / I + 1 /\ (n + 1) mod I = 0 /\ n mod I = I - 1).
Proof.
  intros HI Hn.
  pose proof (Z.div_mod n I ltac:(lia)) as E.
  pose proof (Z.mod_pos_bound n I HI) as B.
  destruct (Z_lt_le_dec (n mod I + 1) I) as [Hl|Hl].
  - left. split.
    + symmetry. apply Z.div_unique with (r := n mod I + 1); lia.
    + symmetry. apply Z.mod_unique with (q := n / I); lia.
  - right. repeat split; try lia.
    + symmetry. apply Z.div_unique with (r := 0); lia.
    + symmetry. apply Z.mod_unique with (q := n / I + 1); lia.
Qed.

Definition G (I : Z) (n : Z) : Z := I * pre (Z.to_nat (n / I)) + (n mod I) * s_of (n / I).

Lemma sum_heights_closed I n :
  0 < I -> sum_heights (subsidy_spec I) n = G I (Z.of_nat n).
Proof.
  intros HI. induction n as [|n IH].
  - unfold G. change (Z.of_nat 0) with 0. rewrite Z.div_0_l, Z.mod_0_l by lia. simpl. lia.
  - cbn [sum_heights]. rewrite IH. clear IH.
    replace (Z.of_nat (S n)) with (Z.of_nat n + 1) by lia.
    set (m := Z.of_nat n). assert (Hm : 0 <= m) by lia. clearbody m.
    assert (Hq : 0 <= m / I) by (apply Z.div_pos; lia).
    assert (Hs : subsidy_spec I m = s_of (m / I)) by reflexivity.
    rewrite Hs. unfold G.
    destruct (succ_div_mod I m HI Hm) as [[E1 E2]|[E1 [E2 E3]]].
    + rewrite E1, E2. lia.
    + rewrite E1, E2, E3.
      replace (Z.to_nat (m / I + 1)) with (S (Z.to_nat (m / I))) by lia.
      cbn [pre]. rewrite Z2Nat.id by lia. lia.
Qed.

Lemma G_bound I n : 0 < I -> 0 <= n -> G I n <= I * pre 64.
Proof.
  intros HI Hn. unfold G.
  assert (Hq : 0 <= n / I) by (apply Z.div_pos; lia).
  pose proof (Z.mod_pos_bound n I HI) as B.
  pose proof (s_of_nonneg (n / I) Hq) as S0.
  assert (Hstep : pre (Z.to_nat (n / I)) + s_of (n / I) = pre (S (Z.to_nat (n / I)))).
  { cbn [pre]. rewrite Z2Nat.id by lia. reflexivity. }
  pose proof (pre_le_64 (S (Z.to_nat (n / I)))) as P.
  nia.
Qed.

Lemma total_issuance_le I n :
  0 < I -> sum_heights (get_block_subsidy I) n <= total_issuance_bound I.
Proof.
  intros HI.
  assert (E : sum_heights (get_block_subsidy I) n = sum_heights (subsidy_spec I) n).
  { induction n as [|n IH]; [reflexivity|]. cbn [sum_heights]. rewrite IH.
    rewrite get_block_subsidy_spec by lia. reflexivity. }
  rewrite E, sum_heights_closed by exact HI.
  unfold total_issuance_bound. rewrite <- pre_64_eq. apply G_bound; lia.
Qed.

(* every generated chain: positive interval and closed-form total below the cap *)
Definition chain_total_ok (c : chain_params) : bool :=
  (0 <? cp_halving_interval c) && (total_issuance_bound (cp_halving_interval c) <? TWENTY_ONE_MILLION_BTC).

Lemma all_chains_total_ok : forallb chain_total_ok all_chains = true.
Proof. vm_compute. reflexivity. Qed.

Lemma chain_total_below_21M c n :
  In c all_chains -> sum_heights (chain_subsidy c) n < TWENTY_ONE_MILLION_BTC.
Proof.
  intros Hin. pose proof all_chains_total_ok as H. rewrite forallb_forall in H.
  specialize (H c Hin). unfold chain_total_ok in H.
  apply andb_prop in H. destruct H as [H1 H2].
  apply Z.ltb_lt in H1. apply Z.ltb_lt in H2.
  change (chain_subsidy c) with (get_block_subsidy (cp_halving_interval c)).
  pose proof (total_issuance_le (cp_halving_interval c) n H1). lia.
Qed.

Lemma chain_subsidy_spec c h :
  In c all_chains -> 0 <= h -> chain_subsidy c h = subsidy_spec (cp_halving_interval c) h.
Proof.
  intros Hin Hh. pose proof all_chains_total_ok as H. rewrite forallb_forall in H.
  specialize (H c Hin). unfold chain_total_ok in H. apply andb_prop in H. destruct H as [H1 _].
  apply Z.ltb_lt in H1. unfold chain_subsidy. apply get_block_subsidy_spec; lia.
Qed.

Lemma chain_subsidy_monotone c h1 h2 :
  In c all_chains -> 0 <= h1 <= h2 -> chain_subsidy c h2 <= chain_subsidy c h1.
Proof.
  intros Hin Hh. rewrite !chain_subsidy_spec by (try assumption; lia).
  pose proof all_chains_total_ok as H. rewrite forallb_forall in H.
  specialize (H c Hin). unfold chain_total_ok in H. apply andb_prop in H. destruct H as [H1 _].
  apply Z.ltb_lt in H1. apply subsidy_spec_monotone; lia.
Qed.

Lemma chain_subsidy_zero_from_64 c h :
  In c all_chains -> 64 * cp_halving_interval c <= h -> chain_subsidy c h = 0.
Proof.
  intros Hin Hh. pose proof all_chains_total_ok as H. rewrite forallb_forall in H.
  specialize (H c Hin). unfold chain_total_ok in H. apply andb_prop in H. destruct H as [H1 _].
  apply Z.ltb_lt in H1. unfold chain_subsidy. apply subsidy_zero_from_64; lia.
Qed.

(* the executable predicate is sound: if it accepts the reported per-halving subsidies and those
   are the model's, the total is below the cap *)
Lemma holds_total_sound interval l :
  holds_total interval l = true -> interval * zsum l < TWENTY_ONE_MILLION_BTC.
Proof. unfold holds_total, total_of_reported. intros H. apply Z.ltb_lt in H. exact H. Qed.
