(* C21 part A: MuHash3072 as a commutative group quotient (model/MuHash.v).
   - order independence of insertion (no premise beyond well-formed states),
   - Finalize depends only on the quotient numerator/denominator (representation independence),
   - remove cancels insert, *= is union, /= is difference,
   - any two interleavings of insert/remove with the same net multiplicities finalize the same. *)
From Coq Require Import NArith Znumtheory Permutation.
From BV Require Import lib.Ints model.CryptoBase model.CryptoSHA256 model.CryptoChaCha model.MuHash
  proofs.CryptoBaseLemmas proofs.MuHashArith.
Local Open Scope Z_scope.

Definition mh_ok (s : muhash) : Prop := num_ok (mh_num s) /\ num_ok (mh_den s).

Lemma num_ok_1 : num_ok 1.
Proof. unfold num_ok. pose proof P3072_gt1. pose proof P3072_lt_B. lia. Qed.

Lemma el_ok d : num_ok (mh_to_num3072 d).
Proof. unfold mh_to_num3072, num_of_bytes. apply lo3072_ok. Qed.

Global Opaque mh_to_num3072 num_multiply num_divide.

Lemma mh_empty_ok : mh_ok mh_empty.
Proof. split; exact num_ok_1. Qed.
Lemma mh_singleton_ok d : mh_ok (mh_singleton d).
Proof. split; [ apply el_ok | exact num_ok_1 ]. Qed.
Lemma mh_insert_ok s d : mh_ok s -> mh_ok (mh_insert s d).
Proof. intros [Hn Hd]. split; simpl; [ apply num_multiply_ok; [ exact Hn | apply el_ok ] | exact Hd ]. Qed.
Lemma mh_remove_ok s d : mh_ok s -> mh_ok (mh_remove s d).
Proof. intros [Hn Hd]. split; simpl; [ exact Hn | apply num_multiply_ok; [ exact Hd | apply el_ok ] ]. Qed.
Lemma mh_mul_ok s t : mh_ok s -> mh_ok t -> mh_ok (mh_mul s t).
Proof. intros [Hn Hd] [Hn' Hd']. split; simpl; apply num_multiply_ok; assumption. Qed.
Lemma mh_div_ok s t : mh_ok s -> mh_ok t -> mh_ok (mh_div s t).
Proof. intros [Hn Hd] [Hn' Hd']. split; simpl; apply num_multiply_ok; assumption. Qed.
Lemma mh_apply_ok s o : mh_ok s -> mh_ok (mh_apply s o).
Proof. destruct o; simpl; [ apply mh_insert_ok | apply mh_remove_ok ]. Qed.
Lemma mh_run_ok ops : forall s, mh_ok s -> mh_ok (mh_run ops s).
Proof. induction ops as [| o t IH]; intros s Hs; simpl; [ exact Hs | apply IH, mh_apply_ok, Hs ]. Qed.
Lemma mh_finalize_state_ok s : mh_ok s -> mh_ok (mh_finalize_state s).
Proof.
  intros [Hn Hd]. split; simpl; [ | exact num_ok_1 ].
  pose proof (num_divide_range _ _ Hn Hd). pose proof P3072_lt_B. unfold mh_finalize_num, num_ok. lia.
Qed.

(* ---------- order independence: the states themselves are equal ---------- *)
Lemma mh_insert_comm s a b : mh_ok s -> mh_insert (mh_insert s a) b = mh_insert (mh_insert s b) a.
Proof.
  intros [Hn Hd]. unfold mh_insert; simpl.
  rewrite (num_multiply_spec _ _ Hn (el_ok a)), (num_multiply_spec _ _ Hn (el_ok b)).
  rewrite (num_multiply_spec _ _ (mod_P_ok _) (el_ok b)), (num_multiply_spec _ _ (mod_P_ok _) (el_ok a)).
  rewrite !Zmult_mod_idemp_l.
  replace (mh_num s * mh_to_num3072 a * mh_to_num3072 b) with (mh_num s * mh_to_num3072 b * mh_to_num3072 a) by ring.
  reflexivity.
Qed.

Lemma mh_insert_all_perm l l' : Permutation l l' ->
  forall s, mh_ok s -> mh_insert_all l s = mh_insert_all l' s.
Proof.
  unfold mh_insert_all.
  induction 1 as [| x l l' Hp IH | x y l | l l' l'' Hp1 IH1 Hp2 IH2]; intros s Hs; simpl.
  - reflexivity.
  - apply IH. apply mh_insert_ok, Hs.
  - rewrite mh_insert_comm by exact Hs. reflexivity.
  - rewrite IH1 by exact Hs. apply IH2, Hs.
Qed.

Theorem muhash_order_independent_state l l' s :
  mh_ok s -> Permutation l l' -> mh_finalize (mh_insert_all l s) = mh_finalize (mh_insert_all l' s).
Proof. intros Hs Hp. rewrite (mh_insert_all_perm l l' Hp s Hs). reflexivity. Qed.

(* ---------- Finalize ---------- *)
Lemma mh_finalize_num_spec s : mh_ok s ->
  mh_finalize_num s = (mh_num s * finv (mh_den s)) mod P3072.
Proof. intros [Hn Hd]. unfold mh_finalize_num. apply num_divide_spec; assumption. Qed.

Lemma finv_congr a b : a mod P3072 = b mod P3072 -> finv a = finv b.
Proof. intros E. unfold finv. rewrite E. reflexivity. Qed.

(* Finalize only sees numerator and denominator modulo P3072 *)
Lemma mh_finalize_num_congr s t : mh_ok s -> mh_ok t ->
  mh_num s mod P3072 = mh_num t mod P3072 -> mh_den s mod P3072 = mh_den t mod P3072 ->
  mh_finalize_num s = mh_finalize_num t.
Proof.
  intros Hs Ht En Ed. rewrite !mh_finalize_num_spec by assumption.
  rewrite (finv_congr _ _ Ed). rewrite <- Zmult_mod_idemp_l, En, Zmult_mod_idemp_l. reflexivity.
Qed.

(* representation independence: equal quotients finalize the same *)
Theorem mh_finalize_num_quotient s t : mh_ok s -> mh_ok t ->
  invertible (mh_den s) -> invertible (mh_den t) ->
  (mh_num s * mh_den t) mod P3072 = (mh_num t * mh_den s) mod P3072 ->
  mh_finalize_num s = mh_finalize_num t.
Proof.
  intros [Hns Hds] [Hnt Hdt] Is It E. unfold mh_finalize_num.
  pose proof (num_divide_range _ _ Hns Hds) as R1. pose proof (num_divide_range _ _ Hnt Hdt) as R2.
  pose proof (num_divide_char _ _ Hns Hds Is) as C1. pose proof (num_divide_char _ _ Hnt Hdt It) as C2.
  set (f1 := num_divide (mh_num s) (mh_den s)) in *. set (f2 := num_divide (mh_num t) (mh_den t)) in *.
  assert (Em : f1 mod P3072 = f2 mod P3072).
  { apply invertible_cancel with (a := mh_den s * mh_den t); [ apply invertible_mult; assumption | ].
    replace (f1 * (mh_den s * mh_den t)) with ((f1 * mh_den s) * mh_den t) by ring.
    replace (f2 * (mh_den s * mh_den t)) with ((f2 * mh_den t) * mh_den s) by ring.
    rewrite <- (Zmult_mod_idemp_l (f1 * mh_den s)), C1, Zmult_mod_idemp_l.
    rewrite <- (Zmult_mod_idemp_l (f2 * mh_den t)), C2, Zmult_mod_idemp_l. exact E. }
  rewrite !Z.mod_small in Em by assumption. exact Em.
Qed.

Lemma mh_finalize_of_num s t : mh_finalize_num s = mh_finalize_num t -> mh_finalize s = mh_finalize t.
Proof. unfold mh_finalize. intros ->. reflexivity. Qed.

(* ---------- operation sequences ---------- *)
Definition prodl (l : list (list N)) : Z := fold_right (fun d acc => mh_to_num3072 d * acc) 1 l.
Fixpoint ins_list (ops : list mh_op) : list (list N) :=
  match ops with [] => [] | MhInsert d :: t => d :: ins_list t | MhRemove _ :: t => ins_list t end.
Fixpoint rem_list (ops : list mh_op) : list (list N) :=
  match ops with [] => [] | MhRemove d :: t => d :: rem_list t | MhInsert _ :: t => rem_list t end.

Lemma prodl_app a b : prodl (a ++ b) = prodl a * prodl b.
Proof.
  induction a as [| x a IH].
  - change (prodl b = 1 * prodl b). lia.
  - change (mh_to_num3072 x * prodl (a ++ b) = mh_to_num3072 x * prodl a * prodl b). rewrite IH. ring.
Qed.

Lemma prodl_cons x l : prodl (x :: l) = mh_to_num3072 x * prodl l.
Proof. reflexivity. Qed.

Lemma prodl_perm a b : Permutation a b -> prodl a = prodl b.
Proof.
  induction 1 as [| x l l' Hp IH | x y l | l l' l'' Hp1 IH1 Hp2 IH2].
  - reflexivity.
  - rewrite !prodl_cons, IH. reflexivity.
  - rewrite !prodl_cons. ring.
  - rewrite IH1. exact IH2.
Qed.

Lemma prodl_invertible l : (forall d, In d l -> invertible (mh_to_num3072 d)) -> invertible (prodl l).
Proof.
  induction l as [| x l IH]; intros H; [ exact invertible_1 | ].
  rewrite prodl_cons. apply invertible_mult; [ apply H; left; reflexivity | apply IH; intros d Hd; apply H; right; exact Hd ].
Qed.

Lemma ins_list_app a b : ins_list (a ++ b) = ins_list a ++ ins_list b.
Proof. induction a as [| [d | d] a IH]; simpl; [ reflexivity | rewrite IH; reflexivity | exact IH ]. Qed.
Lemma rem_list_app a b : rem_list (a ++ b) = rem_list a ++ rem_list b.
Proof. induction a as [| [d | d] a IH]; simpl; [ reflexivity | exact IH | rewrite IH; reflexivity ]. Qed.
Lemma ins_list_inserts l : ins_list (map MhInsert l) = l.
Proof. induction l as [| x l IH]; simpl; [ reflexivity | rewrite IH; reflexivity ]. Qed.
Lemma rem_list_inserts l : rem_list (map MhInsert l) = [].
Proof. induction l as [| x l IH]; simpl; [ reflexivity | exact IH ]. Qed.
Lemma mh_run_inserts l s : mh_run (map MhInsert l) s = mh_insert_all l s.
Proof. revert s. induction l as [| x l IH]; intros s; simpl; [ reflexivity | apply IH ]. Qed.
Lemma mh_run_app a b s : mh_run (a ++ b) s = mh_run b (mh_run a s).
Proof. unfold mh_run. apply fold_left_app. Qed.

(* numerator and denominator of the running state, modulo P3072 *)
Lemma mh_run_value ops : forall s, mh_ok s ->
  mh_num (mh_run ops s) mod P3072 = (mh_num s * prodl (ins_list ops)) mod P3072 /\
  mh_den (mh_run ops s) mod P3072 = (mh_den s * prodl (rem_list ops)) mod P3072.
Proof.
  pose proof P3072_gt1 as Hp.
  induction ops as [| o t IH]; intros s Hs; simpl.
  - rewrite !Z.mul_1_r. split; reflexivity.
  - destruct (IH (mh_apply s o) (mh_apply_ok s o Hs)) as [En Ed]. rewrite En, Ed.
    destruct Hs as [Hn Hd]. destruct o as [d | d]; simpl.
    + rewrite num_multiply_spec by (exact Hn || apply el_ok).
      rewrite Zmult_mod_idemp_l. split; [ f_equal; ring | reflexivity ].
    + rewrite num_multiply_spec by (exact Hd || apply el_ok).
      rewrite Zmult_mod_idemp_l. split; [ reflexivity | f_equal; ring ].
Qed.

Lemma mh_run_den_invertible ops s : mh_ok s -> invertible (mh_den s) ->
  (forall d, In d (rem_list ops) -> invertible (mh_to_num3072 d)) -> invertible (mh_den (mh_run ops s)).
Proof.
  intros Hs Hi Hr. apply (proj2 (invertible_mod _)). destruct (mh_run_value ops s Hs) as [_ Ed]. rewrite Ed.
  apply (proj1 (invertible_mod _)). apply invertible_mult; [ exact Hi | apply prodl_invertible, Hr ].
Qed.

(* net multiplicity of an element in an operation sequence *)
Definition bytes_eq_dec : forall a b : list N, {a = b} + {a <> b} := list_eq_dec N.eq_dec.
Definition mh_net (ops : list mh_op) (d : list N) : Z :=
  Z.of_nat (count_occ bytes_eq_dec (ins_list ops) d) - Z.of_nat (count_occ bytes_eq_dec (rem_list ops) d).

(* the multiset quotient: interleaving and order are irrelevant, only net multiplicities count *)
Theorem mh_multiset_quotient_from ops1 ops2 s :
  mh_ok s -> invertible (mh_den s) ->
  (forall d, In d (rem_list ops1 ++ rem_list ops2) -> invertible (mh_to_num3072 d)) ->
  (forall d, mh_net ops1 d = mh_net ops2 d) ->
  mh_finalize (mh_run ops1 s) = mh_finalize (mh_run ops2 s).
Proof.
  intros Hs Hi Hinv Hnet. apply mh_finalize_of_num.
  assert (Hperm : Permutation (ins_list ops1 ++ rem_list ops2) (ins_list ops2 ++ rem_list ops1)).
  { apply (Permutation_count_occ bytes_eq_dec). intros d. rewrite !count_occ_app.
    specialize (Hnet d). unfold mh_net in Hnet. lia. }
  apply prodl_perm in Hperm. rewrite !prodl_app in Hperm.
  destruct (mh_run_value ops1 s Hs) as [En1 Ed1]. destruct (mh_run_value ops2 s Hs) as [En2 Ed2].
  apply mh_finalize_num_quotient.
  - apply mh_run_ok, Hs.
  - apply mh_run_ok, Hs.
  - apply mh_run_den_invertible; [ exact Hs | exact Hi | ]. intros d Hd. apply Hinv, in_or_app. left; exact Hd.
  - apply mh_run_den_invertible; [ exact Hs | exact Hi | ]. intros d Hd. apply Hinv, in_or_app. right; exact Hd.
  - rewrite <- Zmult_mod_idemp_l, <- Zmult_mod_idemp_r, En1, Ed2, Zmult_mod_idemp_l, Zmult_mod_idemp_r.
    rewrite <- (Zmult_mod_idemp_l (mh_num (mh_run ops2 s))), <- (Zmult_mod_idemp_r (mh_den (mh_run ops1 s))).
    rewrite En2, Ed1, Zmult_mod_idemp_l, Zmult_mod_idemp_r.
    f_equal.
    replace (mh_num s * prodl (ins_list ops1) * (mh_den s * prodl (rem_list ops2)))
      with (mh_num s * mh_den s * (prodl (ins_list ops1) * prodl (rem_list ops2))) by ring.
    rewrite Hperm. ring.
Qed.

Theorem mh_multiset_quotient ops1 ops2 :
  (forall d, In d (rem_list ops1 ++ rem_list ops2) -> invertible (mh_to_num3072 d)) ->
  (forall d, mh_net ops1 d = mh_net ops2 d) ->
  mh_finalize (mh_run ops1 mh_empty) = mh_finalize (mh_run ops2 mh_empty).
Proof. apply mh_multiset_quotient_from; [ exact mh_empty_ok | exact invertible_1 ]. Qed.

(* remove cancels insert (in either order), from any well-formed state *)
Theorem mh_remove_cancels_insert s x :
  mh_ok s -> invertible (mh_den s) -> invertible (mh_to_num3072 x) ->
  mh_finalize (mh_remove (mh_insert s x) x) = mh_finalize s /\
  mh_finalize (mh_insert (mh_remove s x) x) = mh_finalize s.
Proof.
  intros Hs Hi Hx.
  assert (Hnet : forall d, mh_net [MhInsert x; MhRemove x] d = mh_net [] d).
  { intros d. unfold mh_net. simpl. destruct (bytes_eq_dec x d); lia. }
  assert (Hnet' : forall d, mh_net [MhRemove x; MhInsert x] d = mh_net [] d).
  { intros d. unfold mh_net. simpl. destruct (bytes_eq_dec x d); lia. }
  assert (Hin : forall l d, In d (x :: l) -> l = [] -> invertible (mh_to_num3072 d)).
  { intros l d [<- | Hd] ->; [ exact Hx | destruct Hd ]. }
  split.
  - apply (mh_multiset_quotient_from [MhInsert x; MhRemove x] [] s Hs Hi); [ | exact Hnet ].
    intros d Hd. simpl in Hd. apply (Hin [] d Hd eq_refl).
  - apply (mh_multiset_quotient_from [MhRemove x; MhInsert x] [] s Hs Hi); [ | exact Hnet' ].
    intros d Hd. simpl in Hd. apply (Hin [] d Hd eq_refl).
Qed.

(* the finalized value of a sequence: product of inserted over product of removed *)
Theorem mh_finalize_num_run ops :
  mh_finalize_num (mh_run ops mh_empty) = (prodl (ins_list ops) * finv (prodl (rem_list ops))) mod P3072.
Proof.
  pose proof (mh_run_ok ops mh_empty mh_empty_ok) as Hok.
  rewrite mh_finalize_num_spec by exact Hok.
  destruct (mh_run_value ops mh_empty mh_empty_ok) as [En Ed].
  change (mh_num mh_empty) with 1 in En. change (mh_den mh_empty) with 1 in Ed. rewrite Z.mul_1_l in En, Ed.
  rewrite (finv_congr _ _ Ed). rewrite <- Zmult_mod_idemp_l, En, Zmult_mod_idemp_l. reflexivity.
Qed.

(* ---------- combination ---------- *)
Definition mh_op_inv (o : mh_op) : mh_op := match o with MhInsert d => MhRemove d | MhRemove d => MhInsert d end.
Lemma ins_list_inv ops : ins_list (map mh_op_inv ops) = rem_list ops.
Proof. induction ops as [| [d | d] t IH]; simpl; [ reflexivity | exact IH | rewrite IH; reflexivity ]. Qed.
Lemma rem_list_inv ops : rem_list (map mh_op_inv ops) = ins_list ops.
Proof. induction ops as [| [d | d] t IH]; simpl; [ reflexivity | rewrite IH; reflexivity | exact IH ]. Qed.

Lemma mh_run_empty_value ops :
  mh_num (mh_run ops mh_empty) mod P3072 = prodl (ins_list ops) mod P3072 /\
  mh_den (mh_run ops mh_empty) mod P3072 = prodl (rem_list ops) mod P3072.
Proof.
  destruct (mh_run_value ops mh_empty mh_empty_ok) as [En Ed].
  change (mh_num mh_empty) with 1 in En. change (mh_den mh_empty) with 1 in Ed. rewrite Z.mul_1_l in En, Ed.
  split; assumption.
Qed.

Lemma mulmod_congr a b a' b' : a mod P3072 = a' mod P3072 -> b mod P3072 = b' mod P3072 ->
  ((a * b) mod P3072) mod P3072 = (a' * b') mod P3072.
Proof.
  intros Ea Eb. pose proof P3072_gt1. rewrite Z.mod_mod by lia.
  rewrite Zmult_mod, Ea, Eb, <- Zmult_mod. reflexivity.
Qed.

(* a *= b  is the union: the state of the concatenated sequence, up to representation *)
Theorem mh_mul_union ops1 ops2 :
  mh_finalize (mh_mul (mh_run ops1 mh_empty) (mh_run ops2 mh_empty)) = mh_finalize (mh_run (ops1 ++ ops2) mh_empty).
Proof.
  pose proof (mh_run_ok ops1 _ mh_empty_ok) as H1. pose proof (mh_run_ok ops2 _ mh_empty_ok) as H2.
  destruct (mh_run_empty_value ops1) as [En1 Ed1]. destruct (mh_run_empty_value ops2) as [En2 Ed2].
  destruct (mh_run_empty_value (ops1 ++ ops2)) as [En Ed].
  apply mh_finalize_of_num. apply mh_finalize_num_congr.
  - apply mh_mul_ok; assumption.
  - apply mh_run_ok, mh_empty_ok.
  - rewrite En. unfold mh_mul, mh_num at 1. destruct H1 as [Hn1 _]. destruct H2 as [Hn2 _].
    rewrite num_multiply_spec by assumption. rewrite (mulmod_congr _ _ _ _ En1 En2).
    rewrite ins_list_app, prodl_app. reflexivity.
  - rewrite Ed. unfold mh_mul, mh_den at 1. destruct H1 as [_ Hd1]. destruct H2 as [_ Hd2].
    rewrite num_multiply_spec by assumption. rewrite (mulmod_congr _ _ _ _ Ed1 Ed2).
    rewrite rem_list_app, prodl_app. reflexivity.
Qed.

(* a /= b  is the difference *)
Theorem mh_div_difference ops1 ops2 :
  mh_finalize (mh_div (mh_run ops1 mh_empty) (mh_run ops2 mh_empty)) =
  mh_finalize (mh_run (ops1 ++ map mh_op_inv ops2) mh_empty).
Proof.
  pose proof (mh_run_ok ops1 _ mh_empty_ok) as H1. pose proof (mh_run_ok ops2 _ mh_empty_ok) as H2.
  destruct (mh_run_empty_value ops1) as [En1 Ed1]. destruct (mh_run_empty_value ops2) as [En2 Ed2].
  destruct (mh_run_empty_value (ops1 ++ map mh_op_inv ops2)) as [En Ed].
  apply mh_finalize_of_num. apply mh_finalize_num_congr.
  - apply mh_div_ok; assumption.
  - apply mh_run_ok, mh_empty_ok.
  - rewrite En. unfold mh_div, mh_num at 1. destruct H1 as [Hn1 _]. destruct H2 as [_ Hd2].
    rewrite num_multiply_spec by assumption. rewrite (mulmod_congr _ _ _ _ En1 Ed2).
    rewrite ins_list_app, prodl_app, ins_list_inv. reflexivity.
  - rewrite Ed. unfold mh_div, mh_den at 1. destruct H1 as [_ Hd1]. destruct H2 as [Hn2 _].
    rewrite num_multiply_spec by assumption. rewrite (mulmod_congr _ _ _ _ Ed1 En2).
    rewrite rem_list_app, prodl_app, rem_list_inv. reflexivity.
Qed.

(* Finalize normalises the object but keeps its value: finalizing again gives the same hash *)
Theorem mh_finalize_idempotent s : mh_ok s -> invertible (mh_den s) ->
  mh_finalize (mh_finalize_state s) = mh_finalize s.
Proof.
  intros Hs Hi. apply mh_finalize_of_num. apply mh_finalize_num_quotient.
  - apply mh_finalize_state_ok, Hs.
  - exact Hs.
  - simpl. exact invertible_1.
  - exact Hi.
  - simpl. destruct Hs as [Hn Hd]. rewrite Z.mul_1_r. apply num_divide_char; assumption.
Qed.

(* ---------- serialization of the running state ---------- *)
Lemma num_bytes_roundtrip x : num_ok x -> num_of_bytes (num_to_bytes x) = x.
Proof.
  intros Hx. unfold num_of_bytes, num_to_bytes, MH_BYTE_SIZE. rewrite le_value_le_bytes.
  change (8 * Z.of_nat 384) with 3072. rewrite <- B3072_pow. rewrite lo3072_mod.
  rewrite Z.mod_mod by (unfold num_ok in Hx; lia). apply Z.mod_small. exact Hx.
Qed.

Theorem mh_serialize_roundtrip s : mh_ok s -> mh_unserialize (mh_serialize s) = Some s.
Proof.
  intros [Hn Hd]. unfold mh_unserialize, mh_serialize.
  assert (L : forall x, length (num_to_bytes x) = MH_BYTE_SIZE) by (intros x; apply le_bytes_length).
  assert (F : firstn MH_BYTE_SIZE (num_to_bytes (mh_num s) ++ num_to_bytes (mh_den s)) = num_to_bytes (mh_num s)).
  { rewrite firstn_app, (L (mh_num s)), Nat.sub_diag, firstn_O, app_nil_r. apply firstn_all2. rewrite L. lia. }
  assert (K : skipn MH_BYTE_SIZE (num_to_bytes (mh_num s) ++ num_to_bytes (mh_den s)) = num_to_bytes (mh_den s)).
  { rewrite skipn_app, (L (mh_num s)), Nat.sub_diag. rewrite skipn_all2 by (rewrite L; lia). reflexivity. }
  rewrite F, K, app_length, !L.
  replace (MH_BYTE_SIZE + MH_BYTE_SIZE)%nat with (2 * MH_BYTE_SIZE)%nat by lia.
  rewrite Nat.eqb_refl. rewrite !num_bytes_roundtrip by assumption. destruct s; reflexivity.
Qed.
