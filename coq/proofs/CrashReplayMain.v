(* C16: the crash-replay protocol recovers the coin set of the new tip from every crash point. *)
From Coq Require Import List NArith Bool Arith Lia.
From BV Require Import model.CrashReplay proofs.CrashReplayBasics proofs.CrashReplayLedger
  proofs.CrashReplayBatch proofs.CrashReplayTree.
Import ListNotations.

(* ---------- database states ---------- *)
(* consistent: best block = tip, no head marker, the coins are exactly T *)
Definition db_consistent (m : db) (tip : blockid) (T : outpoint -> option coin) : Prop :=
  db_get m KBest = Some (VBlock tip) /\ db_get m KHead = None /\ forall o, db_coin m o = T o.
(* in the middle of a flush old -> new: no best block, head marker [new; old], every coin has its
   value at the old tip or its value at the new tip *)
Definition db_midflush (m : db) (new old : blockid) (Told Tnew : outpoint -> option coin) : Prop :=
  db_get m KBest = None /\ db_get m KHead = Some (VHeads [new; old]) /\
  forall o, db_coin m o = Told o \/ db_coin m o = Tnew o.

(* entries a cache may hand to BatchWrite when its view is `view` and the database is m: every entry
   carries the view's value; every outpoint where the view differs from the database is present *)
Definition valid_entries (view : outpoint -> option coin) (m : db) (es : list (dirty_entry * bool)) : Prop :=
  entries_target view (map fst es) /\
  (forall o, db_coin m o <> view o -> In o (map fst (map fst es))).

Lemma valid_entries_all : forall view m es o,
  valid_entries view m es ->
  (if existsb (op_eqb o) (map fst (map fst es)) then view o else db_coin m o) = view o.
Proof.
  intros view m es o [HT HC]. destruct (existsb (op_eqb o) (map fst (map fst es))) eqn:E; auto.
  apply existsb_op_notin in E.
  destruct (db_coin m o) as [c|] eqn:Em; destruct (view o) as [c'|] eqn:Ev; auto;
    try (exfalso; apply E; apply HC; rewrite Em, Ev; congruence).
  destruct (coin_eqb_spec c c') as [Ec|Ec]; [congruence|].
  exfalso. apply E. apply HC. rewrite Em, Ev. congruence.
Qed.

(* the entries the model's cache produces are valid *)
Lemma dirty_of_spec : forall ov seen e,
  In e (dirty_of ov seen) -> ~ In (fst e) seen /\ log_get ov (fst e) = Some (snd e).
Proof.
  induction ov as [|[o v] r IH]; intros seen e H; simpl in *; try tauto.
  destruct (existsb (op_eqb o) seen) eqn:Es.
  - destruct (IH seen e H) as [A B]. split; auto.
    apply existsb_op_in in Es. rewrite op_eqb_neq; auto. intro E. subst. tauto.
  - destruct H as [H|H].
    + subst e. simpl. rewrite op_eqb_refl. split; auto. apply existsb_op_notin. auto.
    + destruct (IH (o :: seen) e H) as [A B]. split.
      * intro C. apply A. simpl. auto.
      * rewrite op_eqb_neq; auto. intro E. apply A. simpl. auto.
Qed.
Lemma dirty_of_cover : forall ov seen o,
  log_get ov o <> None -> In o seen \/ In o (map fst (dirty_of ov seen)).
Proof.
  induction ov as [|[o' v] r IH]; intros seen o H; simpl in *; try tauto.
  destruct (op_eqb_spec o o') as [E|E].
  - subst o'. destruct (existsb (op_eqb o) seen) eqn:Es.
    + left. apply existsb_op_in. auto.
    + right. simpl. auto.
  - destruct (existsb (op_eqb o') seen) eqn:Es.
    + apply IH. auto.
    + destruct (IH (o' :: seen) o H) as [[C|C]|C]; simpl; auto; congruence.
Qed.
Lemma with_cuts_fst : forall es n i, map fst (with_cuts n i es) = es.
Proof.
  induction es as [|e r IH]; intros n i; [reflexivity|].
  change (with_cuts n i (e :: r)) with
    (if Nat.eqb (S i) n then (e, true) :: with_cuts n 0 r else (e, false) :: with_cuts n (S i) r).
  destruct (Nat.eqb (S i) n); simpl; rewrite IH; reflexivity.
Qed.
Lemma dirty_of_valid : forall ov m n,
  valid_entries (view_get ov m) m (with_cuts n 0 (dirty_of ov [])).
Proof.
  intros ov m n. unfold valid_entries. rewrite with_cuts_fst. split.
  - intros e He. apply dirty_of_spec in He. destruct He as [_ He]. unfold view_get. rewrite He. reflexivity.
  - intros o Ho. destruct (dirty_of_cover ov [] o) as [C|C]; auto; try (simpl in C; tauto).
    intro E. apply Ho. unfold view_get. rewrite E. reflexivity.
Qed.

(* ---------- one flush, every crash point ---------- *)
Lemma flush_crash_points : forall m new old Told Tnew es k,
  (forall o, db_coin m o = Told o \/ db_coin m o = Tnew o) ->
  valid_entries Tnew m es ->
  let bs := bw_loop es (bw_header new old) (bw_footer new) in
  k <= length bs ->
  (k = 0 -> crash_after k bs m = m) /\
  (0 < k < length bs -> db_midflush (crash_after k bs m) new old Told Tnew) /\
  (k = length bs -> db_consistent (crash_after k bs m) new Tnew).
Proof.
  intros m new old Told Tnew es k Hm HV bs Hk. split; [|split].
  - intro E. subst. reflexivity.
  - intros [H1 H2]. destruct HV as [HT HC].
    destruct (crash_mid_state Tnew m new old es k HT H1 H2) as [A [B C]]. fold bs in A, B, C.
    split; [|split]; auto.
    intro o. destruct (C o) as [E|E]; rewrite E; auto.
  - intro E. subst k. rewrite crash_all.
    destruct (after_all_batches Tnew m new old es (proj1 HV)) as [A [B C]]. fold bs in A, B, C.
    split; [|split]; auto.
    intro o. rewrite C. apply valid_entries_all. auto.
Qed.

(* ---------- the recovery process ---------- *)
(* recovers st m m': starting ReplayBlocks on database m, possibly crashing again during the flush that
   ends ReplayBlocks (any number of times, at any batch boundary, with any valid dirty-entry list and any
   batch split each time) and restarting, the process ends with database m'. *)
Inductive recovers (st : store) : db -> db -> Prop :=
| rec_noop : forall m, replay_blocks st m = ReplayNoop -> recovers st m m
| rec_done : forall m new ov es bs,
    replay_blocks st m = ReplayDone new ov ->
    valid_entries (view_get ov m) m es ->
    batch_write m es new = Some bs ->
    recovers st m (apply_batches bs m)
| rec_crash : forall m new ov es bs k m',
    replay_blocks st m = ReplayDone new ov ->
    valid_entries (view_get ov m) m es ->
    batch_write m es new = Some bs ->
    k < length bs ->
    recovers st (crash_after k bs m) m' ->
    recovers st m m'.

Section Tree.
  Variable st : store.
  Variable f : blockid.              (* the fork point *)
  Variable ef : entry.
  Variable hf : nat.
  Variable base : list block.        (* blocks at heights 1 .. hf (the genesis block is never connected) *)
  Variables lA lB : list node.       (* old branch f -> a and new branch f -> b, tip first *)

  Hypothesis Hf : st f = Some ef.
  Hypothesis Hh : e_height ef = hf.
  Hypothesis SA : stored_up st lA f hf.
  Hypothesis SB : stored_up st lB f hf.
  Hypothesis Dv : diverge lA lB.

  Definition tipA := tip_of lA f.
  Definition tipB := tip_of lB f.
  Definition utxo_f : overlay := apply_chain 1 base [].
  Definition utxo_a : outpoint -> option coin := log_coin (apply_chain (S hf) (map n_block (rev lA)) utxo_f).
  Definition utxo_b : outpoint -> option coin := log_coin (apply_chain (S hf) (map n_block (rev lB)) utxo_f).

  (* ledger premise: the OLD branch is a valid extension of utxo(f) -- inputs exist when spent, no output
     overwrites an unspent coin -- and its stored undo data is what connecting it recorded.  Nothing is
     assumed about the new branch's validity: roll-forward is unconditional. *)
  Hypothesis VA : chain_valid (S hf) (map snd (rev lA)) utxo_f.
  Hypothesis Anonnull : tipA <> null_id.

  Lemma utxo_f_heights : heights_pos utxo_f.
  Proof. unfold utxo_f. apply heights_pos_chain. discriminate. apply heights_pos_nil. Qed.

  Lemma map_fst_snd_rev : forall l : list node, map fst (map snd (rev l)) = map n_block (rev l).
  Proof. intro l. rewrite map_map. reflexivity. Qed.

  (* ReplayBlocks on a mid-flush database: succeeds, and its cache views exactly utxo(b) *)
  Lemma replay_midflush : forall m,
    db_midflush m tipB tipA utxo_a utxo_b ->
    exists ov, replay_blocks st m = ReplayDone tipB ov /\ forall o, view_get ov m o = utxo_b o.
  Proof.
    intros m [MB [MH MC]].
    destruct (tip_height st lA f hf ef SA Hf Hh) as [ea [EA HA]].
    destruct (tip_height st lB f hf ef SB Hf Hh) as [eb [EB HB]].
    destruct (rollback_list_undoes (map snd (rev lA)) (S hf) utxo_f m [] (Nat.neq_succ_0 hf) utxo_f_heights VA)
      as [L [RL UL]].
    rewrite app_nil_r in RL. rewrite map_fst_snd_rev in UL.
    rewrite <- rollback_up_list in RL.
    exists (apply_chain (S hf) (map n_block (rev lB)) L). split.
    - unfold replay_blocks, get_heads. rewrite MH. fold tipA tipB.
      unfold tipB at 1. rewrite EB.
      assert (N : is_null tipA = false).
      { unfold is_null. apply N.eqb_neq. exact Anonnull. }
      rewrite N. unfold tipA at 1. rewrite EA.
      unfold tipA, tipB. rewrite (last_common_ancestor_up st f hf ef lA lB Hf Hh SA SB Dv).
      rewrite Hf. rewrite EA. rewrite Hh.
      rewrite (rollback_walk st f hf ef lA (S (e_height ea)) m [] L Hf Hh SA) by (auto; lia).
      rewrite HB. replace (hf + length lB - hf) with (length lB) by lia.
      rewrite (rollforward_walk st f hf ef lB L Hf Hh SB). reflexivity.
    - intro o. rewrite (apply_chain_log _ _ L).
      pose proof (replay_view_correct (S hf) (map snd (rev lA)) (map n_block (rev lB)) utxo_f m [] L) as RV.
      rewrite map_fst_snd_rev in RV. rewrite app_nil_r in RV. apply RV; auto.
  Qed.

  Lemma replay_consistent : forall m tip T, db_consistent m tip T -> replay_blocks st m = ReplayNoop.
  Proof.
    intros m tip T [_ [H _]]. unfold replay_blocks, get_heads. rewrite H. reflexivity.
  Qed.

  Lemma batch_write_midflush : forall m es,
    db_midflush m tipB tipA utxo_a utxo_b ->
    batch_write m es tipB = Some (bw_loop es (bw_header tipB tipA) (bw_footer tipB)).
  Proof.
    intros m es [MB [MH _]]. unfold batch_write, bw_old_tip, get_best, get_heads.
    rewrite MB, MH. simpl. rewrite N.eqb_refl. reflexivity.
  Qed.

  (* every recovery run from a mid-flush database ends in the consistent database of the new tip *)
  Lemma recovers_midflush : forall m m',
    recovers st m m' -> db_midflush m tipB tipA utxo_a utxo_b -> db_consistent m' tipB utxo_b.
  Proof.
    intros m m' R. induction R as [m RN | m new ov es bs RD VE BW | m new ov es bs k m' RD VE BW Hk R IH]; intro MF.
    - destruct (replay_midflush m MF) as [ov [E _]]. congruence.
    - destruct (replay_midflush m MF) as [ov2 [E V]]. rewrite E in RD. inversion RD; subst new ov2.
      rewrite (batch_write_midflush m es MF) in BW. inversion BW; subst bs.
      assert (VE2 : valid_entries utxo_b m es).
      { destruct VE as [VT VC]. split.
        - intros e He. rewrite <- V. apply VT. auto.
        - intros o Ho. apply VC. rewrite V. auto. }
      destruct MF as [_ [_ MC]].
      destruct (flush_crash_points m tipB tipA utxo_a utxo_b es _ MC VE2 (le_n _)) as [_ [_ C]].
      rewrite crash_all in C. apply C. reflexivity.
    - destruct (replay_midflush m MF) as [ov2 [E V]]. rewrite E in RD. inversion RD; subst new ov2.
      rewrite (batch_write_midflush m es MF) in BW. inversion BW; subst bs.
      assert (VE2 : valid_entries utxo_b m es).
      { destruct VE as [VT VC]. split.
        - intros e He. rewrite <- V. apply VT. auto.
        - intros o Ho. apply VC. rewrite V. auto. }
      apply IH. destruct (Nat.eq_dec k 0) as [K0|K0].
      + subst k. exact MF.
      + destruct MF as [_ [_ MC]].
        destruct (flush_crash_points m tipB tipA utxo_a utxo_b es k MC VE2 (Nat.lt_le_incl _ _ Hk)) as [_ [M _]].
        apply M. lia.
  Qed.

  (* a recovery run exists from every mid-flush database (ReplayBlocks does not fail) *)
  Lemma recovers_midflush_exists : forall m,
    db_midflush m tipB tipA utxo_a utxo_b -> exists m', recovers st m m'.
  Proof.
    intros m MF. destruct (replay_midflush m MF) as [ov [E V]].
    exists (apply_batches (bw_loop (with_cuts 0 0 (dirty_of ov [])) (bw_header tipB tipA) (bw_footer tipB)) m).
    eapply rec_done; eauto.
    - apply dirty_of_valid.
    - apply batch_write_midflush. auto.
  Qed.

  Lemma recovers_consistent : forall m m' tip T,
    recovers st m m' -> db_consistent m tip T -> m' = m.
  Proof.
    intros m m' tip T R C. pose proof (replay_consistent m tip T C) as E.
    destruct R; auto; congruence.
  Qed.

  (* ---------- the main theorem ---------- *)
  (* m0: the database consistent with the old tip a.  The node flushes its cache (view utxo(b)) with an
     arbitrary valid entry list and arbitrary batch split, and crashes after k batches. *)
  Theorem replay_recovers : forall m0 es bs k,
    db_consistent m0 tipA utxo_a ->
    valid_entries utxo_b m0 es ->
    batch_write m0 es tipB = Some bs ->
    k <= length bs ->
    let m1 := crash_after k bs m0 in
    (* the marker is present exactly at the interior crash points *)
    (0 < k < length bs -> get_heads m1 = [tipB; tipA] /\ get_best m1 = null_id) /\
    (k = 0 -> m1 = m0) /\
    (k = length bs -> db_consistent m1 tipB utxo_b) /\
    (* recovery never fails ... *)
    (exists m', recovers st m1 m') /\
    (* ... and every recovery run, with any further crashes during replay's own flush, ends in the
       consistent database of the old tip (k = 0) or of the new tip (k > 0) *)
    (forall m', recovers st m1 m' ->
       if Nat.eqb k 0 then m' = m0 else db_consistent m' tipB utxo_b).
  Proof.
    intros m0 es bs k C0 VE BW Hk m1.
    assert (Eold : bw_old_tip m0 tipB = Some tipA).
    { destruct C0 as [CB _]. unfold bw_old_tip, get_best. rewrite CB.
      destruct (is_null tipA) eqn:N; auto.
      unfold is_null in N. apply N.eqb_eq in N. exfalso. apply Anonnull. exact N. }
    unfold batch_write in BW. rewrite Eold in BW. inversion BW as [Ebs]. clear BW. subst bs.
    assert (MC : forall o, db_coin m0 o = utxo_a o \/ db_coin m0 o = utxo_b o).
    { intro o. left. destruct C0 as [_ [_ CC]]. apply CC. }
    destruct (flush_crash_points m0 tipB tipA utxo_a utxo_b es k MC VE Hk) as [P0 [Pmid Pall]].
    fold m1 in P0, Pmid, Pall.
    split; [|split; [|split; [|split]]].
    - intro Hmid. destruct (Pmid Hmid) as [A [B _]]. unfold get_heads, get_best. rewrite A, B. auto.
    - exact P0.
    - exact Pall.
    - destruct (Nat.eq_dec k 0) as [K0|K0].
      + exists m1. apply rec_noop. rewrite (P0 K0). apply (replay_consistent m0 tipA utxo_a C0).
      + destruct (Nat.eq_dec k (length (bw_loop es (bw_header tipB tipA) (bw_footer tipB)))) as [KN|KN].
        * exists m1. apply rec_noop. apply (replay_consistent m1 tipB utxo_b). auto.
        * apply recovers_midflush_exists. apply Pmid. lia.
    - intros m' R. destruct (Nat.eqb_spec k 0) as [K0|K0].
      + rewrite (P0 K0) in R. apply (recovers_consistent m0 m' tipA utxo_a R C0).
      + destruct (Nat.eq_dec k (length (bw_loop es (bw_header tipB tipA) (bw_footer tipB)))) as [KN|KN].
        * rewrite (recovers_consistent m1 m' tipB utxo_b R (Pall KN)). auto.
        * apply (recovers_midflush m1 m' R). apply Pmid. lia.
  Qed.

  (* recovered_tip_was_connected: the recovered best block is the old or the new tip of the interrupted flush *)
  Theorem recovered_tip_was_connected : forall m0 es bs k m',
    db_consistent m0 tipA utxo_a -> valid_entries utxo_b m0 es ->
    batch_write m0 es tipB = Some bs -> k <= length bs ->
    recovers st (crash_after k bs m0) m' ->
    get_heads m' = [] /\ (get_best m' = tipA \/ get_best m' = tipB).
  Proof.
    intros m0 es bs k m' C0 VE BW Hk R.
    destruct (replay_recovers m0 es bs k C0 VE BW Hk) as [_ [_ [_ [_ H]]]].
    specialize (H m' R). destruct (Nat.eqb k 0).
    - subst m'. destruct C0 as [A [B _]]. unfold get_heads, get_best. rewrite A, B. auto.
    - destruct H as [A [B _]]. unfold get_heads, get_best. rewrite A, B. auto.
  Qed.

  (* rollforward_any_subset: rolling the new branch forward over ANY view in which every outpoint has its
     value at the fork or its value at the new tip (some of the branch's writes already applied, in any
     combination) yields exactly utxo(b) *)
  Theorem rollforward_any_subset : forall m V,
    (forall o, view_get V m o = log_coin utxo_f o \/ view_get V m o = utxo_b o) ->
    forall o, view_get (apply_chain (S hf) (map n_block (rev lB)) V) m o = utxo_b o.
  Proof.
    intros m V HV o. rewrite (apply_chain_log _ _ V).
    pose proof (replay_view_correct (S hf) [] (map n_block (rev lB)) utxo_f m V [] (undoes_nil utxo_f)) as RV.
    simpl in RV. apply RV. exact HV.
  Qed.

  (* rollback_any_subset: rolling the old branch back (DisconnectBlock with its UNCLEAN tolerance) over ANY
     view in which every outpoint has its value at the fork or at the old tip succeeds and yields utxo(f) *)
  Theorem rollback_any_subset : forall m V,
    (forall o, view_get V m o = log_coin utxo_f o \/ view_get V m o = utxo_a o) ->
    exists V', rollback_up hf lA m V = Some V' /\ forall o, view_get V' m o = log_coin utxo_f o.
  Proof.
    intros m V HV.
    destruct (rollback_list_undoes (map snd (rev lA)) (S hf) utxo_f m V (Nat.neq_succ_0 hf) utxo_f_heights VA)
      as [L [RL [UA UB]]].
    rewrite map_fst_snd_rev in UB. rewrite <- rollback_up_list in RL.
    exists (L ++ V). split; auto. intro o. rewrite view_get_app.
    destruct (log_get L o) eqn:EL.
    - apply UA. auto.
    - destruct (HV o) as [H|H]; auto. rewrite H. unfold utxo_a.
      rewrite (apply_chain_log _ _ utxo_f). rewrite log_coin_app. rewrite (UB o EL). reflexivity.
  Qed.
End Tree.

(* ---------- flush ordering ---------- *)
(* data_precedes_coins: in FlushStateToDisk every coin batch comes after the block/undo files were
   flushed and after the (synced) block index write *)
Theorem data_precedes_coins : forall prune n pre i post,
  flush_steps prune n = pre ++ StepCoinBatch i :: post ->
  In StepBlockFiles pre /\ In StepBlockIndex pre.
Proof.
  intros prune n pre i post H. unfold flush_steps in H. simpl in H.
  destruct pre as [|p0 pre]; simpl in H; [discriminate|].
  inversion H as [[E0 H1]]. subst p0.
  destruct pre as [|p1 pre]; simpl in H1; [discriminate|].
  inversion H1 as [[E1 H2]]. subst p1. simpl. auto.
Qed.
