(* The executable secp256k1 instance (model/CompressEC.v) satisfies the premise `ec_premise` of the
   C18 script theorems, given two number-theoretic facts about the field prime p = 2^256 - 2^32 - 977:
   p is prime, and Fermat's little theorem for p.  (Neither is provable by computation inside Coq
   without a primality-certificate library; both are classical facts.) *)
From Coq Require Import NArith Znumtheory Zpow_facts.
From BV Require Import lib.Ints gen.Params_gen model.SerBase model.Compress model.CompressEC
  proofs.SerBaseLemmas proofs.CompressLemmas proofs.CompressScriptLemmas.
Local Open Scope Z_scope.

Lemma p_value : secp_p = 115792089237316195423570985008687907853269984665640564039457584007908834671663.
Proof. reflexivity. Qed.
Lemma p_pos : 0 < secp_p. Proof. rewrite p_value. lia. Qed.
Lemma two256_split : 2 ^ 256 = secp_p + secp_c. Proof. reflexivity. Qed.

(* ---- reduction ---- *)
Lemma fold256_spec x : 0 <= x -> 0 <= fold256 x /\ fold256 x mod secp_p = x mod secp_p.
Proof.
  intros Hx. unfold fold256.
  rewrite Z.shiftr_div_pow2 by lia. rewrite Z.land_ones by lia.
  set (hi := x / 2 ^ 256). set (lo := x mod 2 ^ 256).
  assert (Hhi : 0 <= hi) by (unfold hi; apply Z.div_pos; lia).
  assert (Hlo : 0 <= lo < 2 ^ 256) by (unfold lo; apply Z.mod_pos_bound; lia).
  assert (Ec : 0 < secp_c) by (vm_compute; reflexivity).
  split; [nia|].
  assert (Ex : x = hi * 2 ^ 256 + lo) by (unfold hi, lo; pose proof (Z.div_mod x (2 ^ 256) ltac:(lia)); lia).
  assert (Em : x mod secp_p = (hi * secp_c + lo + hi * secp_p) mod secp_p).
  { f_equal. rewrite Ex, two256_split. ring. }
  rewrite Em. rewrite Z.mod_add by (pose proof p_pos; lia). reflexivity.
Qed.

Lemma fe_red_spec x : 0 <= x -> fe_red x = x mod secp_p.
Proof.
  intros Hx. unfold fe_red.
  destruct (fold256_spec x Hx) as [H1 E1]. destruct (fold256_spec (fold256 x) H1) as [H2 E2].
  set (t := fold256 (fold256 x)) in *. cbv zeta.
  pose proof p_pos as Pp.
  assert (Et : t mod secp_p = x mod secp_p) by congruence.
  destruct (t <? secp_p) eqn:C1.
  - rewrite <- Et. symmetry. apply Z.mod_small. lia.
  - assert (Eu : (t - secp_p) mod secp_p = x mod secp_p).
    { rewrite <- Et. replace (t - secp_p) with (t + (-1) * secp_p) by lia. apply Z.mod_add. lia. }
    destruct (t - secp_p <? secp_p) eqn:C2.
    + rewrite <- Eu. symmetry. apply Z.mod_small. lia.
    + exact Eu.
Qed.

Lemma fe_red_range x : 0 <= x -> 0 <= fe_red x < secp_p.
Proof. intros. rewrite fe_red_spec by assumption. apply Z.mod_pos_bound. apply p_pos. Qed.

Lemma fe_pow_spec a : 0 <= a -> forall e, fe_pow a e = a ^ Z.pos e mod secp_p.
Proof.
  intros Ha. pose proof p_pos as Pp. induction e as [e IH|e IH|].
  - cbn [fe_pow]. rewrite IH.
    set (z := a ^ Z.pos e mod secp_p).
    assert (B : 0 <= z < secp_p) by (apply Z.mod_pos_bound; exact Pp).
    assert (Hzz : 0 <= z * z) by (apply Z.mul_nonneg_nonneg; lia).
    rewrite (fe_red_spec (z * z) Hzz).
    assert (Hm : 0 <= (z * z) mod secp_p) by (apply Z.mod_pos_bound; exact Pp).
    rewrite fe_red_spec by (apply Z.mul_nonneg_nonneg; lia).
    assert (E : (z * z) mod secp_p = (a ^ Z.pos e * a ^ Z.pos e) mod secp_p) by (unfold z; symmetry; apply Z.mul_mod; lia).
    rewrite E. rewrite Z.mul_mod_idemp_l by lia.
    rewrite Pos2Z.inj_xI. rewrite Z.pow_add_r by lia. rewrite Z.pow_1_r.
    replace (2 * Z.pos e) with (Z.pos e + Z.pos e) by lia. rewrite Z.pow_add_r by lia. reflexivity.
  - cbn [fe_pow]. rewrite IH.
    set (z := a ^ Z.pos e mod secp_p).
    assert (B : 0 <= z < secp_p) by (apply Z.mod_pos_bound; exact Pp).
    rewrite fe_red_spec by (apply Z.mul_nonneg_nonneg; lia). unfold z. rewrite <- Z.mul_mod by lia.
    rewrite Pos2Z.inj_xO. replace (2 * Z.pos e) with (Z.pos e + Z.pos e) by lia. rewrite Z.pow_add_r by lia. reflexivity.
  - cbn [fe_pow]. rewrite fe_red_spec by lia. rewrite Z.pow_1_r. reflexivity.
Qed.

(* ---- big-endian 32-byte numbers ---- *)
Lemma le_value_snoc l b : le_value (l ++ [b]) = le_value l + 2 ^ (8 * Z.of_nat (length l)) * Z.of_N b.
Proof.
  induction l as [|x l IH].
  - cbn [app le_value length]. change (8 * Z.of_nat 0) with 0. change (2 ^ 0) with 1. lia.
  - cbn [app le_value length]. rewrite IH.
    replace (8 * Z.of_nat (S (length l))) with (8 + 8 * Z.of_nat (length l)) by lia.
    rewrite Z.pow_add_r by lia. change (2 ^ 8) with 256. ring.
Qed.

Lemma be_value_acc_spec l : forall acc, be_value_acc acc l = acc * 2 ^ (8 * Z.of_nat (length l)) + le_value (rev l).
Proof.
  induction l as [|b r IH]; intros acc.
  - cbn [be_value_acc length rev le_value]. change (8 * Z.of_nat 0) with 0. change (2 ^ 0) with 1. lia.
  - cbn [be_value_acc length rev]. rewrite IH, le_value_snoc, rev_length.
    replace (8 * Z.of_nat (S (length r))) with (8 + 8 * Z.of_nat (length r)) by lia.
    rewrite Z.pow_add_r by lia. change (2 ^ 8) with 256. ring.
Qed.

Lemma be_value_rev l : be_value l = le_value (rev l).
Proof. unfold be_value. rewrite be_value_acc_spec. lia. Qed.

Lemma bytes_ok_rev l : bytes_ok l -> bytes_ok (rev l).
Proof. unfold bytes_ok. apply Forall_rev. Qed.

Lemma be_bytes_value l : bytes_ok l -> be_bytes (length l) (be_value l) = l.
Proof.
  intros H. unfold be_bytes. rewrite be_value_rev. rewrite <- (rev_length l).
  rewrite le_bytes_value by (apply bytes_ok_rev; exact H). apply rev_involutive.
Qed.

Lemma be_value_range l : bytes_ok l -> 0 <= be_value l < 2 ^ (8 * Z.of_nat (length l)).
Proof. intros H. rewrite be_value_rev. rewrite <- (rev_length l). apply le_value_range. apply bytes_ok_rev. exact H. Qed.

Lemma be_value_last l b : be_value (l ++ [b]) = be_value l * 256 + Z.of_N b.
Proof. rewrite !be_value_rev. rewrite rev_app_distr. cbn [rev app le_value]. lia. Qed.

(* the tag the compressor writes: 2 for an even last byte of Y, 3 for an odd one *)
Lemma tag_of_last b : (b < 256)%N ->
  (N.lor 2 (N.land b 1) = 2%N \/ N.lor 2 (N.land b 1) = 3%N) /\ (N.lor 2 (N.land b 1) =? 3)%N = Z.odd (Z.of_N b).
Proof.
  intros Hb.
  assert (F : forallb (fun b => (((N.lor 2 (N.land b 1) =? 2) || (N.lor 2 (N.land b 1) =? 3)) &&
                                 Bool.eqb (N.lor 2 (N.land b 1) =? 3) (Z.odd (Z.of_N b)))%N)
                      (map N.of_nat (seq 0 256)) = true) by (vm_compute; reflexivity).
  rewrite forallb_forall in F.
  assert (Hin : In b (map N.of_nat (seq 0 256))).
  { apply in_map_iff. exists (N.to_nat b). split; [lia|]. apply in_seq. lia. }
  specialize (F b Hin). apply andb_prop in F. destruct F as [F1 F2]. apply eqb_prop in F2.
  split; [|exact F2]. apply orb_prop in F1. destruct F1 as [F1|F1]; apply N.eqb_eq in F1; auto.
Qed.

Section Secp.
  Hypothesis p_prime : prime secp_p.
  Hypothesis fermat : forall a, 0 <= a < secp_p -> a ^ secp_p mod secp_p = a.

  Lemma sqrt_exp_value : 4 * Z.pos secp_sqrt_exp = secp_p + 1.
  Proof. vm_compute. reflexivity. Qed.

  (* for y on the curve over x, the candidate root squares back to the right-hand side, and it
     is y or p - y *)
  Lemma sqrt_candidate y c3 : 0 <= y < secp_p -> c3 = (y * y) mod secp_p ->
    let r0 := fe_pow c3 secp_sqrt_exp in
    0 <= r0 < secp_p /\ (r0 * r0) mod secp_p = c3 /\ (r0 = y \/ (r0 = secp_p - y /\ 0 < y)).
  Proof.
    intros Hy Hc3. cbv zeta. pose proof p_pos as Pp.
    assert (Hc0 : 0 <= c3) by (subst c3; apply Z.mod_pos_bound; exact Pp).
    rewrite fe_pow_spec by exact Hc0.
    set (E := Z.pos secp_sqrt_exp). set (r0 := c3 ^ E mod secp_p).
    assert (Hr0 : 0 <= r0 < secp_p) by (apply Z.mod_pos_bound; exact Pp).
    assert (Sq : (r0 * r0) mod secp_p = c3).
    { unfold r0. rewrite <- Z.mul_mod by lia. rewrite <- Z.pow_add_r by (unfold E; lia).
      rewrite Hc3. rewrite <- Zpower_mod by lia.
      replace (y * y) with (y ^ 2) by ring. rewrite <- Z.pow_mul_r by (unfold E; lia).
      replace (2 * (E + E)) with (secp_p + 1) by (pose proof sqrt_exp_value; unfold E; lia).
      rewrite Z.pow_add_r by lia. rewrite Z.pow_1_r.
      rewrite Z.mul_mod by lia. rewrite (fermat y Hy). rewrite (Z.mod_small y) by lia.
      replace (y ^ 2) with (y * y) by ring. reflexivity. }
    split; [exact Hr0|]. split; [exact Sq|].
    (* p | (r0 - y)(r0 + y) *)
    assert (Dv : (secp_p | (r0 - y) * (r0 + y))).
    { assert (Em : (r0 * r0) mod secp_p = (y * y) mod secp_p) by congruence.
      exists ((r0 * r0) / secp_p - (y * y) / secp_p).
      pose proof (Z.div_mod (r0 * r0) secp_p ltac:(lia)). pose proof (Z.div_mod (y * y) secp_p ltac:(lia)). nia. }
    apply prime_mult in Dv; [|exact p_prime].
    destruct Dv as [[k Hk]|[k Hk]].
    - left. assert (k = 0) by nia. lia.
    - assert (k = 0 \/ k = 1) by nia. destruct H as [->| ->]; [left; lia|].
      destruct (Z.eq_dec y 0) as [->|Hy0]; [exfalso; lia|]. right. lia.
  Qed.

  (* THE PREMISE OF THE C18 SCRIPT THEOREMS HOLDS FOR THE EXECUTABLE INSTANCE *)
  Lemma secp_instance_premise : ec_premise secp_fully_valid secp_decompress.
  Proof.
    intros pk c Hb L H0 V Hc. pose proof p_pos as Pp.
    destruct pk as [|h r]; [discriminate|]. cbn [nth_error] in H0. inversion H0; subst h. clear H0.
    cbn [length] in L. assert (Lr : length r = 64%nat) by lia.
    inversion Hb as [|? ? _ Hr]; subst.
    set (X := firstn 32 r) in *. set (Y := skipn 32 r) in *.
    assert (LX : length X = 32%nat) by (unfold X; rewrite firstn_length; lia).
    assert (LY : length Y = 32%nat) by (unfold Y; rewrite skipn_length; lia).
    assert (HX : bytes_ok X) by (apply bytes_ok_firstn; exact Hr).
    assert (HY : bytes_ok Y) by (apply bytes_ok_skipn; exact Hr).
    assert (Er : r = X ++ Y) by (symmetry; apply firstn_skipn).
    (* what IsFullyValid established *)
    unfold secp_fully_valid in V. rewrite N.eqb_refl in V. cbn [andb] in V.
    assert (E64 : (length r =? 64)%nat = true) by (apply Nat.eqb_eq; exact Lr). rewrite E64 in V. cbn [andb] in V.
    fold X Y in V. cbv zeta in V.
    set (x := be_value X) in *. set (y := be_value Y) in *.
    apply andb_prop in V. destruct V as [V V3]. apply andb_prop in V. destruct V as [V1 V2].
    apply Z.ltb_lt in V1. apply Z.ltb_lt in V2. apply Z.eqb_eq in V3.
    pose proof (be_value_range X HX) as RX. pose proof (be_value_range Y HY) as RY. fold x in RX. fold y in RY.
    rewrite fe_red_spec in V3 by nia.
    (* the compressed form *)
    unfold ec_compress_pub in Hc.
    destruct (nth_error (4%N :: r) 64) as [ylast|] eqn:NY; [|discriminate].
    assert (Ec : c = N.lor 2 (N.land ylast 1) :: X) by (unfold X; cbn [skipn] in Hc; congruence). subst c. clear Hc.
    (* ylast is the last byte of Y *)
    assert (EY : exists Y', Y = Y' ++ [ylast]).
    { cbn [nth_error] in NY. exists (firstn 31 Y).
      assert (Hn : nth_error Y 31 = Some ylast).
      { unfold Y. rewrite <- NY. clear. revert r. 
        assert (G : forall (l : list N) a b, nth_error (skipn a l) b = nth_error l (a + b)).
        { induction l as [|z l IH]; intros a b; [destruct a, b; reflexivity|]. destruct a; [reflexivity|]. cbn [skipn Nat.add nth_error]. apply IH. }
        intros r. apply (G r 32%nat 31%nat). }
      rewrite <- (firstn_skipn 31 Y) at 1. f_equal.
      assert (Ls : length (skipn 31 Y) = 1%nat) by (rewrite skipn_length; lia).
      destruct (skipn 31 Y) as [|z [|z2 t]] eqn:Es; cbn [length] in Ls; try lia.
      f_equal. assert (Hn' : nth_error (skipn 31 Y) 0 = Some ylast).
      { rewrite <- Hn. clear. revert Y. 
        assert (G : forall (l : list N) a b, nth_error (skipn a l) b = nth_error l (a + b)).
        { induction l as [|z l IH]; intros a b; [destruct a, b; reflexivity|]. destruct a; [reflexivity|]. cbn [skipn Nat.add nth_error]. apply IH. }
        intros Y. apply (G Y 31%nat 0%nat). }
      rewrite Es in Hn'. cbn in Hn'. congruence. }
    destruct EY as [Y' EY].
    assert (Hyl : (ylast < 256)%N).
    { rewrite EY in HY. apply bytes_ok_app in HY. destruct HY as [_ HY]. inversion HY; assumption. }
    destruct (tag_of_last ylast Hyl) as [Tag TagOdd].
    assert (Yodd : Z.odd y = Z.odd (Z.of_N ylast)).
    { unfold y. rewrite EY, be_value_last. rewrite Z.add_comm, (Z.mul_comm (be_value Y') 256). rewrite Z.odd_add_mul_even; [reflexivity|]. exists 128. lia. }
    set (tag := N.lor 2 (N.land ylast 1)) in *.
    (* run the decompressor *)
    unfold secp_decompress. cbv beta iota.
    assert (Etag : ((tag =? 2) || (tag =? 3))%N = true) by (destruct Tag as [->| ->]; reflexivity).
    rewrite Etag. assert (E32 : (length X =? 32)%nat = true) by (apply Nat.eqb_eq; exact LX). rewrite E32. cbn [andb]. cbv zeta.
    fold x. assert (Ex : (x <? secp_p) = true) by lia. rewrite Ex.
    set (c3 := secp_curve_rhs x) in *.
    assert (Hc3 : c3 = (y * y) mod secp_p) by (symmetry; exact V3).
    destruct (sqrt_candidate y c3 ltac:(lia) Hc3) as [Hr0 [Sq Root]]. cbv zeta in Hr0, Sq, Root.
    set (r0 := fe_pow c3 secp_sqrt_exp) in *.
    rewrite fe_red_spec by nia. rewrite Sq, Z.eqb_refl.
    assert (Ey : (if Bool.eqb (Z.odd r0) (tag =? 3)%N then r0 else fe_red (secp_p - r0)) = y).
    { rewrite TagOdd, <- Yodd. destruct Root as [->|[Er0 Hy0]].
      - rewrite eqb_reflx. reflexivity.
      - assert (Podd : Z.odd secp_p = true) by (vm_compute; reflexivity).
        assert (Eo : Z.odd r0 = negb (Z.odd y)).
        { rewrite Er0. rewrite Z.odd_sub, Podd. destruct (Z.odd y); reflexivity. }
        rewrite Eo. destruct (Z.odd y); cbn [negb Bool.eqb]; rewrite fe_red_spec by lia;
          rewrite Er0; replace (secp_p - (secp_p - y)) with y by lia; apply Z.mod_small; lia. }
    rewrite Ey. f_equal. f_equal.
    rewrite <- LX at 1. unfold x. rewrite be_bytes_value by exact HX.
    rewrite <- LY. unfold y. rewrite be_bytes_value by exact HY. exact (eq_sym Er).
  Qed.
End Secp.

Lemma coin_roundtrip_secp :
  prime secp_p -> (forall a, 0 <= a < secp_p -> a ^ secp_p mod secp_p = a) ->
  forall c prev rest,
  0 <= c_height c < 2 ^ 31 -> 0 <= c_value c <= AMOUNT_ROUNDTRIP_MAX -> bytes_ok (c_script c) ->
  Z.of_nat (length (c_script c)) <= MAX_SCRIPT_SIZE ->
  exists enc, ser_coin secp_fully_valid c = Some enc /\ unser_coin secp_decompress prev (enc ++ rest) = Ok c rest.
Proof. intros Hp Hf. apply coin_roundtrip. apply secp_instance_premise; assumption. Qed.
