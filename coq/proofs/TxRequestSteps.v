(* Every public operation of the tracker preserves the invariant Inv (WF + SanityCheck clauses + sequence
   numbers increasing along the index), hence it holds in every reachable state. *)
From BV Require Import lib.Ints model.TxRequest proofs.TxRequestBasics proofs.TxRequestInv proofs.TxRequestOps.
From Coq Require Import Sorting.Sorted.
Local Open Scope Z_scope.

(* ---------- list helpers ---------- *)
Lemma uniq_snoc l a : uniq l -> ~ In (key a) (map key l) -> uniq (l ++ [a]).
Proof.
  induction l as [|x l IH]; intros U N.
  - simpl. apply uniq_cons. split; [intros []|constructor].
  - apply uniq_cons in U. destruct U as [Hn U]. simpl. apply uniq_cons. split.
    + rewrite map_app, in_app_iff. simpl. intros [H|[H|[]]]; [auto|]. apply N. left. auto.
    + apply IH; auto. intros H. apply N. right. auto.
Qed.

Lemma sorted_snoc l x : StronglySorted Z.lt l -> Forall (fun y => y < x) l -> StronglySorted Z.lt (l ++ [x]).
Proof.
  induction l as [|y l IH]; intros S F; simpl.
  - constructor; constructor.
  - inversion S; subst. inversion F; subst. constructor; [apply IH; auto|].
    apply Forall_app. split; auto.
Qed.

Lemma cnt_snoc P l a : cnt P (l ++ [a]) = cnt P l + b2z (P a).
Proof. rewrite cnt_app. simpl. unfold b2z. destruct (P a); lia. Qed.

Lemma cnt_filter_le P Q l : cnt P (filter Q l) <= cnt P l.
Proof.
  induction l as [|x l IH]; [simpl; lia|]. cbn [filter cnt]. destruct (Q x); cbn [cnt]; destruct (P x); lia.
Qed.
Lemma cnt_filter_drop P Q l it : In it l -> P it = true -> Q it = false -> cnt P (filter Q l) + 1 <= cnt P l.
Proof.
  induction l as [|x l IH]; intros Hin Pi Qi; [contradiction|]. cbn [filter cnt].
  destruct Hin as [->|Hin].
  - rewrite Qi, Pi. pose proof (cnt_filter_le P Q l). lia.
  - specialize (IH Hin Pi Qi). destruct (Q x); cbn [cnt]; destruct (P x); lia.
Qed.

Lemma find_filter_keep (P Q : ann -> bool) l : (forall a, In a l -> P a = true -> Q a = true) ->
  find P (filter Q l) = find P l.
Proof.
  induction l as [|x l IH]; intros H; [reflexivity|]. cbn [filter find].
  destruct (Q x) eqn:E; cbn [find].
  - destruct (P x); [reflexivity|]. apply IH. intros a Ha. apply H. right. auto.
  - destruct (P x) eqn:E2; [rewrite (H x) in E by (auto; left; auto); discriminate|].
    apply IH. intros a Ha. apply H. right. auto.
Qed.
Lemma find_drop_tx_other p h l h' : h' <> h -> find_ann p h' (drop_tx h l) = find_ann p h' l.
Proof.
  intros N. unfold find_ann, drop_tx. apply find_filter_keep. intros a _ K. apply is_key_true in K.
  destruct K as [_ K]. unfold has_txhash. apply negb_true_iff. apply Z.eqb_neq. lia.
Qed.

(* effect of the three procedures on a count that depends on the state only through a predicate W *)
Lemma cnt_promote_shape (W : ann -> bool) l p h it l' :
  uniq l -> find_ann p h l = Some it -> promote_shape l p h it l' ->
  (forall a st st', (st = CANDIDATE_READY \/ st = CANDIDATE_BEST) -> (st' = CANDIDATE_READY \/ st' = CANDIDATE_BEST) ->
      W (with_state a st) = W (with_state a st')) ->
  (forall a, W (with_state a (a_state a)) = W a) ->
  cnt W l' = cnt W l - b2z (W it) + b2z (W (with_state it CANDIDATE_BEST)).
Proof.
  intros U F S HW Hid. destruct S as [st Hst | b Fb Sb Nb].
  - unfold set_st. rewrite (cnt_set_ann W p h _ l it U F).
    rewrite (HW it st CANDIDATE_BEST) by auto. reflexivity.
  - assert (U1 : uniq (set_st (a_peer b) h CANDIDATE_READY l)) by (apply set_st_uniq; auto).
    assert (F1 : find_ann p h (set_st (a_peer b) h CANDIDATE_READY l) = Some it).
    { rewrite find_set_st_other; auto. intros E. inversion E. congruence. }
    unfold set_st at 1. rewrite (cnt_set_ann W p h _ _ it U1 F1).
    unfold set_st. rewrite (cnt_set_ann W (a_peer b) h _ l b U Fb).
    rewrite (HW b CANDIDATE_READY CANDIDATE_BEST) by auto. rewrite <- Sb, Hid. lia.
Qed.

Lemma cnt_car_shape (W : ann -> bool) l p h it ns l' :
  uniq l -> find_ann p h l = Some it -> car_shape l p h ns l' ->
  (forall a st st', (st = CANDIDATE_READY \/ st = CANDIDATE_BEST) -> (st' = CANDIDATE_READY \/ st' = CANDIDATE_BEST) ->
      W (with_state a st) = W (with_state a st')) ->
  (forall a, W (with_state a (a_state a)) = W a) ->
  cnt W l' = cnt W l - b2z (W it) + b2z (W (with_state it ns)).
Proof.
  intros U F S HW Hid. destruct S as [| r Fr Sr Nr].
  - unfold set_st. rewrite (cnt_set_ann W p h _ l it U F). reflexivity.
  - assert (U1 : uniq (set_st (a_peer r) h CANDIDATE_BEST l)) by (apply set_st_uniq; auto).
    assert (F1 : find_ann p h (set_st (a_peer r) h CANDIDATE_BEST l) = Some it).
    { rewrite find_set_st_other; auto. intros E. inversion E. congruence. }
    unfold set_st at 1. rewrite (cnt_set_ann W p h _ _ it U1 F1).
    unfold set_st. rewrite (cnt_set_ann W (a_peer r) h _ l r U Fr).
    rewrite (HW r CANDIDATE_BEST CANDIDATE_READY) by auto. rewrite <- Sr, Hid. lia.
Qed.

Lemma with_state_self a : with_state a (a_state a) = a.
Proof. destruct a; reflexivity. Qed.

Lemma wrapu59_id x : 0 <= x < SEQ_LIMIT -> wrapu 59 x = x.
Proof. unfold SEQ_LIMIT. intros H. apply wrapu_id. lia. Qed.

Lemma keeps_ident_state_time st tm : keeps_ident (fun a => with_state_time a st tm).
Proof. intros a. reflexivity. Qed.

Section Steps.
Variable prio : Z -> Z -> bool -> Z.
Notation prio_of := (prio_of prio).
Notation Inv := (Inv prio).

(* ---------- ReceivedInv ---------- *)
Lemma received_inv_absent t peer h :
  existsb (fun a => is_key peer h a && st_is CANDIDATE_BEST a) (t_index t) = false ->
  existsb (fun a => is_key peer h a && negb (st_is CANDIDATE_BEST a)) (t_index t) = false ->
  forall a, In a (t_index t) -> is_key peer h a = false.
Proof.
  intros E1 E2 a Ha. destruct (is_key peer h a) eqn:K; [|reflexivity]. exfalso.
  destruct (st_is CANDIDATE_BEST a) eqn:S.
  - assert (X : existsb (fun a => is_key peer h a && st_is CANDIDATE_BEST a) (t_index t) = true)
      by (apply existsb_exists; exists a; rewrite K, S; auto). congruence.
  - assert (X : existsb (fun a => is_key peer h a && negb (st_is CANDIDATE_BEST a)) (t_index t) = true)
      by (apply existsb_exists; exists a; rewrite K, S; auto). congruence.
Qed.

Lemma received_inv_inv t peer h w pf rt :
  Inv t -> t_seq t < SEQ_LIMIT -> Inv (received_inv t peer h w pf rt).
Proof.
  intros [W [T P] [QS QF]] Lim. unfold received_inv.
  destruct (existsb (fun a => is_key peer h a && st_is CANDIDATE_BEST a) (t_index t)) eqn:E1; [constructor; auto; split; auto|].
  destruct (existsb (fun a => is_key peer h a && negb (st_is CANDIDATE_BEST a)) (t_index t)) eqn:E2; [constructor; auto; split; auto|].
  pose proof (received_inv_absent t peer h E1 E2) as Abs.
  destruct W as [Hb Hu Hpi Hl Hs].
  set (l := t_index t) in *.
  rewrite (wrapu59_id (t_seq t)) by lia. rewrite (wrapu64_small (t_seq t + 1)) by lia.
  set (a := mkAnn h w rt peer (t_seq t) pf CANDIDATE_DELAYED).
  assert (CS : forall h' st, c (l ++ [a]) h' st = c l h' st + b2z (in_st h' st a)).
  { intros h' st. unfold c. apply cnt_snoc. }
  constructor.
  - constructor; cbn [t_bad t_index t_peerinfo t_seq]; auto.
    + apply uniq_snoc; auto. intros Hin. apply in_map_iff in Hin. destruct Hin as [y [Ky Hy]].
      assert (K : is_key peer h y = true) by (apply is_key_key; rewrite Ky; reflexivity).
      rewrite (Abs y Hy) in K. discriminate.
    + intros q. unfold pm_set, recompute_peerinfo. rewrite !cnt_snoc.
      assert (Hq : has_peer q a = (peer =? q)) by reflexivity.
      assert (HC : peer_st q COMPLETED a = false) by (unfold peer_st; rewrite andb_false_r; reflexivity).
      assert (HR : peer_st q REQUESTED a = false) by (unfold peer_st; rewrite andb_false_r; reflexivity).
      rewrite Hq, HC, HR. cbn [b2z]. rewrite !Z.add_0_r.
      pose proof (cnt_nonneg (has_peer q) l) as N0. pose proof (cnt_le_length (has_peer q) l) as N1.
      pose proof (peer_st_le q COMPLETED l) as L1. pose proof (peer_st_le q REQUESTED l) as L2.
      pose proof (cnt_nonneg (peer_st q COMPLETED) l) as N2. pose proof (cnt_nonneg (peer_st q REQUESTED) l) as N3.
      destruct (q =? peer) eqn:Eq.
      * apply Z.eqb_eq in Eq. subst q. rewrite Z.eqb_refl. cbn [b2z].
        assert (Ez : (cnt (has_peer peer) l + 1 =? 0) = false) by (apply Z.eqb_neq; lia). rewrite Ez.
        rewrite (Hpi peer). unfold recompute_peerinfo. fold l.
        destruct (cnt (has_peer peer) l =? 0) eqn:E0; cbn [pi_total pi_completed pi_requested].
        -- apply Z.eqb_eq in E0. rewrite wrapu64_small by (unfold SEQ_LIMIT; lia).
           replace (cnt (peer_st peer COMPLETED) l) with 0 by lia.
           replace (cnt (peer_st peer REQUESTED) l) with 0 by lia. rewrite E0. reflexivity.
        -- rewrite wrapu64_small by (unfold SEQ_LIMIT in *; lia). reflexivity.
      * rewrite (Z.eqb_sym peer q), Eq. cbn [b2z]. rewrite !Z.add_0_r. apply Hpi.
    + rewrite app_length. cbn [length]. lia.
    + lia.
  - cbn [t_index]. fold l. split.
    + intros h'. specialize (T h'). destruct T as [A B C].
      assert (X : forall st, st <> CANDIDATE_DELAYED -> c (l ++ [a]) h' st = c l h' st).
      { intros st Ns. rewrite CS. unfold in_st, st_is. cbn [a_state a].
        destruct st; try contradiction; cbn [state_eqb]; rewrite andb_false_r; simpl; lia. }
      pose proof (b2z_range (in_st h' CANDIDATE_DELAYED a)).
      constructor; rewrite ?(X CANDIDATE_READY), ?(X CANDIDATE_BEST), ?(X REQUESTED), ?(X COMPLETED) by discriminate;
        rewrite ?CS; try assumption.
      intros Hc. specialize (C Hc). lia.
    + intros x y Hx Hy Eh Sx Sy. apply in_app_iff in Hx, Hy.
      destruct Hx as [Hx|[<-|[]]]; [|simpl in Sx; discriminate].
      destruct Hy as [Hy|[<-|[]]]; [|simpl in Sy; discriminate].
      apply P; auto.
  - cbn [t_index t_seq]. fold l. unfold seq_ok. rewrite map_app. cbn [map a_seq a]. split.
    + apply sorted_snoc; auto. eapply Forall_impl; [|exact QF]. cbv beta. intros; lia.
    + apply Forall_app. split.
      * eapply Forall_impl; [|exact QF]. cbv beta. intros; lia.
      * constructor; [lia|constructor].
Qed.

(* ---------- ForgetTxHash ---------- *)
Lemma forget_inv t h : Inv t -> Inv (forget_txhash t h).
Proof.
  intros [W S Q]. unfold forget_txhash. destruct (erase_txhash_spec t h W) as [I [E W']].
  constructor; auto.
  - rewrite I. apply drop_tx_sched; auto.
  - rewrite I, E. eapply seq_ok_evolves; [|exact Q]. apply evolves_filter.
Qed.

(* ---------- ReceivedResponse ---------- *)
Lemma received_response_inv t p h : Inv t -> Inv (received_response prio t p h).
Proof.
  intros I. unfold received_response. destruct (find_ann p h (t_index t)) as [it|] eqn:F; [|exact I].
  eapply mc_inv; eauto.
Qed.

(* ---------- RequestedTx ---------- *)
Definition to_req (e : Z) : ann -> ann := fun a => with_state_time a REQUESTED e.

Lemma in_set_req p h e l it a : uniq l -> find_ann p h l = Some it ->
  (In a (set_ann p h (to_req e) l) <-> a = to_req e it \/ (In a l /\ is_key p h a = false)).
Proof. intros U F. exact (in_set_ann p h (to_req e) l it a U F). Qed.

Lemma to_req_sched l p h e it :
  uniq l -> find_ann p h l = Some it -> sched_ok prio l ->
  (a_state it = CANDIDATE_BEST \/
   ((a_state it = CANDIDATE_DELAYED \/ a_state it = CANDIDATE_READY) /\ c l h CANDIDATE_BEST = 0 /\ c l h REQUESTED = 0)) ->
  sched_ok prio (set_ann p h (to_req e) l).
Proof.
  intros U F [T P] Hs. split.
  - intros h'. destruct (Z.eq_dec h' h) as [->|N].
    2:{ apply tx_ok_other_set_ann; auto. apply keeps_key_with_state_time. }
    destruct (T h) as [A B C].
    pose proof (c_nonneg l h CANDIDATE_DELAYED). pose proof (c_nonneg l h CANDIDATE_READY).
    pose proof (c_nonneg l h CANDIDATE_BEST). pose proof (c_nonneg l h REQUESTED).
    destruct (find_ann_some _ _ _ _ F) as [Hin [Hp Hh]].
    assert (Cit : 0 < c l h (a_state it)) by (apply (c_pos_of l h _ it); auto).
    unfold to_req. constructor; rewrite !(c_set_time l p h REQUESTED e it) by auto;
      destruct Hs as [D|[[D|D] [ZB ZQ]]]; rewrite D in *; cbn [state_eqb b2z]; lia.
  - intros x y Hx Hy Eh Sx Sy. apply (in_set_req p h e l it) in Hx; auto. apply (in_set_req p h e l it) in Hy; auto.
    destruct Hx as [->|[Hx _]]; [simpl in Sx; discriminate|].
    destruct Hy as [->|[Hy _]]; [simpl in Sy; discriminate|]. apply P; auto.
Qed.

Lemma demote_req_sched l p h e it b :
  uniq l -> find_ann p h l = Some it -> sched_ok prio l ->
  (a_state it = CANDIDATE_DELAYED \/ a_state it = CANDIDATE_READY) ->
  In b l -> a_txhash b = h -> a_state b = CANDIDATE_BEST ->
  sched_ok prio (set_ann p h (to_req e) (set_st (a_peer b) h CANDIDATE_READY l)).
Proof.
  intros U F [T P] Hs Hb Hbh Sb.
  destruct (find_ann_some _ _ _ _ F) as [Hin [Hp Hh]].
  assert (Nb : a_peer b <> p).
  { intros E. assert (b = it) by (apply (uniq_same_key l); auto; unfold key; congruence). subst b. destruct Hs; congruence. }
  assert (Fb : find_ann (a_peer b) h l = Some b) by (rewrite <- Hbh; apply find_ann_in; auto).
  set (l1 := set_st (a_peer b) h CANDIDATE_READY l).
  assert (U1 : uniq l1) by (apply set_st_uniq; auto).
  assert (F1 : find_ann p h l1 = Some it).
  { unfold l1. rewrite find_set_st_other; auto. intros E. inversion E. congruence. }
  split.
  - intros h'. destruct (Z.eq_dec h' h) as [->|N].
    2:{ apply tx_ok_other_set_ann; auto; [apply keeps_key_with_state_time|]. apply tx_ok_other_set_st; auto. }
    destruct (T h) as [A B C].
    pose proof (c_nonneg l h CANDIDATE_DELAYED). pose proof (c_nonneg l h CANDIDATE_READY).
    pose proof (c_nonneg l h CANDIDATE_BEST). pose proof (c_nonneg l h REQUESTED).
    assert (Cit : 0 < c l h (a_state it)) by (apply (c_pos_of l h _ it); auto).
    assert (Cb : 0 < c l h CANDIDATE_BEST) by (apply (c_pos_of l h _ b); auto).
    unfold to_req. constructor; rewrite !(c_set_time l1 p h REQUESTED e it) by auto;
      unfold l1; rewrite !(c_set_st l (a_peer b) h _ b) by auto; rewrite Sb;
      destruct Hs as [D|D]; rewrite D in *; cbn [state_eqb b2z]; lia.
  - intros x y Hx Hy Eh Sx Sy. apply (in_set_req p h e l1 it) in Hx; auto. apply (in_set_req p h e l1 it) in Hy; auto.
    destruct Hx as [->|[Hx _]]; [simpl in Sx; discriminate|].
    destruct Hy as [->|[Hy _]]; [simpl in Sy; discriminate|].
    apply (in_set_st (a_peer b) h _ l b) in Hx; auto. apply (in_set_st (a_peer b) h _ l b) in Hy; auto.
    destruct Hx as [->|[Hx Kx]]; [simpl in Sx; discriminate|].
    destruct (Z.eq_dec (a_txhash x) h) as [Ex|Nx].
    + exfalso. assert (x = b).
      { apply (sel_unique l h); auto; unfold is_selected; apply st_is_eq in Sx, Sb; rewrite ?Sx, ?Sb; auto. }
      subst x. rewrite (proj2 (is_key_true (a_peer b) h b)) in Kx by auto. discriminate.
    + destruct Hy as [->|[Hy Ky]]; [simpl in Eh; congruence|]. apply P; auto.
Qed.

Lemma complete_req_sched l p h e it q :
  uniq l -> find_ann p h l = Some it -> sched_ok prio l ->
  (a_state it = CANDIDATE_DELAYED \/ a_state it = CANDIDATE_READY) ->
  In q l -> a_txhash q = h -> a_state q = REQUESTED ->
  sched_ok prio (set_ann p h (to_req e) (set_st (a_peer q) h COMPLETED l)).
Proof.
  intros U F [T P] Hs Hq Hqh Sq.
  destruct (find_ann_some _ _ _ _ F) as [Hin [Hp Hh]].
  assert (Nq : a_peer q <> p).
  { intros E. assert (q = it) by (apply (uniq_same_key l); auto; unfold key; congruence). subst q. destruct Hs; congruence. }
  assert (Fq : find_ann (a_peer q) h l = Some q) by (rewrite <- Hqh; apply find_ann_in; auto).
  set (l1 := set_st (a_peer q) h COMPLETED l).
  assert (U1 : uniq l1) by (apply set_st_uniq; auto).
  assert (F1 : find_ann p h l1 = Some it).
  { unfold l1. rewrite find_set_st_other; auto. intros E. inversion E. congruence. }
  split.
  - intros h'. destruct (Z.eq_dec h' h) as [->|N].
    2:{ apply tx_ok_other_set_ann; auto; [apply keeps_key_with_state_time|]. apply tx_ok_other_set_st; auto. }
    destruct (T h) as [A B C].
    pose proof (c_nonneg l h CANDIDATE_DELAYED). pose proof (c_nonneg l h CANDIDATE_READY).
    pose proof (c_nonneg l h CANDIDATE_BEST). pose proof (c_nonneg l h REQUESTED).
    assert (Cit : 0 < c l h (a_state it)) by (apply (c_pos_of l h _ it); auto).
    assert (Cq : 0 < c l h REQUESTED) by (apply (c_pos_of l h _ q); auto).
    unfold to_req. constructor; rewrite !(c_set_time l1 p h REQUESTED e it) by auto;
      unfold l1; rewrite !(c_set_st l (a_peer q) h _ q) by auto; rewrite Sq;
      destruct Hs as [D|D]; rewrite D in *; cbn [state_eqb b2z]; lia.
  - intros x y Hx Hy Eh Sx Sy. apply (in_set_req p h e l1 it) in Hx; auto. apply (in_set_req p h e l1 it) in Hy; auto.
    destruct Hx as [->|[Hx _]]; [simpl in Sx; discriminate|].
    destruct Hy as [->|[Hy _]]; [simpl in Sy; discriminate|].
    apply (in_set_st (a_peer q) h _ l q) in Hx; auto. apply (in_set_st (a_peer q) h _ l q) in Hy; auto.
    destruct Hx as [->|[Hx Kx]]; [simpl in Sx; discriminate|].
    destruct Hy as [->|[Hy Ky]]; [simpl in Sy; discriminate|]. apply P; auto.
Qed.

Lemma find_pred_none_c l h st : find (fun a => has_txhash h a && st_is st a) l = None -> c l h st = 0.
Proof.
  intros E. unfold c. apply cnt_zero. intros a Ha. apply (find_none _ _ E a Ha).
Qed.

Lemma requested_tx_inv t peer h e : Inv t -> Inv (requested_tx t peer h e).
Proof.
  intros [W S Q]. pose proof (wf_uniq _ W) as U. unfold requested_tx. fold (to_req e).
  assert (KK : keeps_key (to_req e)) by apply keeps_key_with_state_time.
  assert (FIN : forall t1 it, WF t1 -> t_seq t1 = t_seq t -> find_ann peer h (t_index t1) = Some it ->
                  sched_ok prio (set_ann peer h (to_req e) (t_index t1)) -> evolves (t_index t) (t_index t1) ->
                  Inv (modify t1 peer h (to_req e))).
  { intros t1 it W1 E1 F1 S1 Ev. destruct (modify_spec t1 peer h (to_req e) it W1 F1 KK) as [I [E2 W2]].
    constructor; auto.
    - rewrite I. exact S1.
    - rewrite I, E2, E1. eapply seq_ok_evolves; [|exact Q]. eapply evolves_trans; [exact Ev|].
      apply evolves_set_ann. apply keeps_ident_state_time. }
  destruct (find (fun a => is_key peer h a && st_is CANDIDATE_BEST a) (t_index t)) as [b0|] eqn:FB.
  - apply find_some in FB. destruct FB as [Hb0 Eb0]. apply andb_true_iff in Eb0. destruct Eb0 as [K0 S0].
    apply is_key_true in K0. destruct K0 as [Kp Kh]. apply st_is_eq in S0.
    assert (F : find_ann peer h (t_index t) = Some b0) by (rewrite <- Kp, <- Kh; apply find_ann_in; auto).
    apply (FIN t b0); auto; [|apply evolves_refl]. apply (to_req_sched _ _ _ _ b0); auto.
  - destruct (find (fun a => is_key peer h a && negb (st_is CANDIDATE_BEST a)) (t_index t)) as [it|] eqn:FN;
      [|constructor; auto].
    apply find_some in FN. destruct FN as [Hit Eit]. apply andb_true_iff in Eit. destruct Eit as [K0 S0].
    apply is_key_true in K0. destruct K0 as [Kp Kh].
    assert (F : find_ann peer h (t_index t) = Some it) by (rewrite <- Kp, <- Kh; apply find_ann_in; auto).
    destruct (st_is CANDIDATE_DELAYED it || st_is CANDIDATE_READY it) eqn:Cand; cbn [negb]; [|constructor; auto].
    assert (Hs : a_state it = CANDIDATE_DELAYED \/ a_state it = CANDIDATE_READY).
    { apply orb_true_iff in Cand. rewrite !st_is_eq in Cand. exact Cand. }
    destruct (find (fun a => has_txhash h a && st_is CANDIDATE_BEST a) (t_index t)) as [b|] eqn:FBest.
    + apply find_some in FBest. destruct FBest as [Hb Eb]. apply andb_true_iff in Eb. destruct Eb as [Ebh Sb].
      apply has_txhash_true in Ebh. apply st_is_eq in Sb.
      assert (Fb : find_ann (a_peer b) h (t_index t) = Some b) by (rewrite <- Ebh; apply find_ann_in; auto).
      destruct (modify_state_spec t (a_peer b) h CANDIDATE_READY b W Fb) as [I1 [E1 W1]].
      assert (Nb : a_peer b <> peer).
      { intros E. assert (b = it) by (apply (uniq_same_key (t_index t)); auto; unfold key; congruence). subst b. destruct Hs; congruence. }
      apply (FIN _ it); auto.
      * rewrite I1, find_set_st_other; auto. intros E. inversion E. congruence.
      * rewrite I1. apply (demote_req_sched _ _ _ _ it b); auto.
      * rewrite I1. apply evolves_set_st.
    + apply find_pred_none_c in FBest.
      destruct (find (fun a => has_txhash h a && st_is REQUESTED a) (t_index t)) as [q|] eqn:FReq.
      * apply find_some in FReq. destruct FReq as [Hq Eq]. apply andb_true_iff in Eq. destruct Eq as [Eqh Sq].
        apply has_txhash_true in Eqh. apply st_is_eq in Sq.
        assert (Fq : find_ann (a_peer q) h (t_index t) = Some q) by (rewrite <- Eqh; apply find_ann_in; auto).
        destruct (modify_state_spec t (a_peer q) h COMPLETED q W Fq) as [I1 [E1 W1]].
        assert (Nq : a_peer q <> peer).
        { intros E. assert (q = it) by (apply (uniq_same_key (t_index t)); auto; unfold key; congruence). subst q. destruct Hs; congruence. }
        apply (FIN _ it); auto.
        -- rewrite I1, find_set_st_other; auto. intros E. inversion E. congruence.
        -- rewrite I1. apply (complete_req_sched _ _ _ _ it q); auto.
        -- rewrite I1. apply evolves_set_st.
      * apply find_pred_none_c in FReq. apply (FIN t it); auto; [|apply evolves_refl].
        apply (to_req_sched _ _ _ _ it); auto.
Qed.

(* ---------- DisconnectedPeer ---------- *)
Lemma del_completed_sched l p h x :
  uniq l -> find_ann p h l = Some x -> a_state x = COMPLETED -> sched_ok prio l -> sched_ok prio (del_ann p h l).
Proof.
  intros U F Sx [T P]. split.
  - intros h'. destruct (T h') as [A B C].
    assert (X : forall st, st <> COMPLETED -> c (del_ann p h l) h' st = c l h' st).
    { intros st Ns. unfold c. rewrite (cnt_del_ann _ p h l x) by auto. unfold in_st, st_is. rewrite Sx.
      destruct st; try contradiction; cbn [state_eqb]; rewrite andb_false_r; simpl; lia. }
    assert (Y : c (del_ann p h l) h' COMPLETED <= c l h' COMPLETED).
    { unfold c. rewrite (cnt_del_ann _ p h l x) by auto. pose proof (b2z_range (in_st h' COMPLETED x)). lia. }
    constructor; rewrite ?(X CANDIDATE_DELAYED), ?(X CANDIDATE_READY), ?(X CANDIDATE_BEST), ?(X REQUESTED) by discriminate; auto.
    intros Hc. apply C. lia.
  - intros a b Ha Hb. apply in_del_ann in Ha, Hb. apply P; tauto.
Qed.

Lemma car_shape_find l p h ns l' it : uniq l -> find_ann p h l = Some it -> car_shape l p h ns l' ->
  find_ann p h l' = Some (with_state it ns).
Proof.
  intros U F []; [apply find_set_st_same; auto|]. apply find_set_st_same.
  rewrite find_set_st_other; auto. intros E. inversion E. congruence.
Qed.
Lemma car_shape_find_other l p h ns l' p' h' : h' <> h -> car_shape l p h ns l' -> find_ann p' h' l' = find_ann p' h' l.
Proof.
  intros N []; rewrite !find_set_st_other; auto; intros E; inversion E; congruence.
Qed.
Lemma promote_shape_find_other l p h it l' p' h' : h' <> h -> promote_shape l p h it l' -> find_ann p' h' l' = find_ann p' h' l.
Proof.
  intros N []; rewrite !find_set_st_other; auto; intros E; inversion E; congruence.
Qed.
Lemma mc_l_find_other l p h it p' h' : uniq l -> find_ann p h l = Some it -> h' <> h ->
  find_ann p' h' (mc_l prio l p h it) = find_ann p' h' l.
Proof.
  intros U F N. unfold mc_l. destruct (st_is COMPLETED it); [reflexivity|].
  destruct (is_only_non_completed l p h); [apply find_drop_tx_other; auto|].
  eapply car_shape_find_other; eauto. apply car_l_shape; auto.
Qed.

Lemma disconnect_one_inv t p h it :
  Inv t -> find_ann p h (t_index t) = Some it ->
  Inv (disconnect_one prio t p h) /\
  (forall h', h' <> h -> find_ann p h' (t_index (disconnect_one prio t p h)) = find_ann p h' (t_index t)).
Proof.
  intros I F. pose proof I as [W S Q]. pose proof (wf_uniq _ W) as U.
  pose proof (mc_inv prio t p h it I F) as I1. destruct (mc_spec prio t p h it W F) as [Ix [[E1 W1] Al]].
  unfold disconnect_one. destruct (make_completed prio t p h) as [t1 alive]. cbn [fst snd] in *.
  assert (FO : forall h', h' <> h -> find_ann p h' (t_index t1) = find_ann p h' (t_index t)).
  { intros h' N. rewrite Ix. apply mc_l_find_other; auto. }
  destruct alive; [|split; auto].
  assert (F1 : exists x, find_ann p h (t_index t1) = Some x /\ a_state x = COMPLETED).
  { rewrite Ix. unfold mc_l. destruct (st_is COMPLETED it) eqn:Ec.
    - exists it. split; auto. apply st_is_eq; auto.
    - cbn [negb andb] in Al. destruct (is_only_non_completed (t_index t) p h); [discriminate|].
      exists (with_state it COMPLETED). split; [|reflexivity].
      eapply car_shape_find; eauto. apply car_l_shape; auto. }
  destruct F1 as [x [F1 Sx]]. destruct (erase_spec t1 p h x W1 F1) as [I2 [E2 W2]].
  destruct I1 as [_ S1 Q1]. split.
  - constructor; auto.
    + rewrite I2. eapply del_completed_sched; eauto. apply (wf_uniq _ W1).
    + rewrite I2, E2. eapply seq_ok_evolves; [|exact Q1]. apply evolves_filter.
  - intros h' N. rewrite I2, find_del_ann_other; auto. intros E. inversion E. congruence.
Qed.

Lemma disconnected_fold p : forall (ks : list ann) (t : tracker),
  Inv t -> NoDup (map a_txhash ks) ->
  (forall a, In a ks -> find_ann p (a_txhash a) (t_index t) <> None) ->
  Inv (fold_left (fun t' a => disconnect_one prio t' p (a_txhash a)) ks t).
Proof.
  induction ks as [|k ks IH]; intros t I ND Hf; cbn [fold_left]; [exact I|].
  destruct (find_ann p (a_txhash k) (t_index t)) as [it|] eqn:F; [|exfalso; apply (Hf k); [left; auto|exact F]].
  destruct (disconnect_one_inv t p (a_txhash k) it I F) as [I1 FO].
  inversion ND as [|? ? Hnk ND']. subst.
  apply IH; auto. intros a Ha. rewrite FO.
  - apply Hf. right. auto.
  - intros E. apply Hnk. rewrite <- E. apply in_map. exact Ha.
Qed.

Lemma disconnected_peer_inv t p : Inv t -> Inv (disconnected_peer prio t p).
Proof.
  intros I. pose proof I as [W _ _]. pose proof (wf_uniq _ W) as U. unfold disconnected_peer.
  apply disconnected_fold; auto.
  - apply uniq_txs_of_peer; auto.
  - intros a Ha. apply filter_In in Ha. destruct Ha as [Ha E]. apply has_peer_true in E.
    rewrite <- E, find_ann_in; auto. discriminate.
Qed.

(* ---------- SetTimePoint / GetRequestable ---------- *)
Lemma first_by_time_some l it : first_by_time l = Some it ->
  In it l /\ is_waiting it = true /\ forall x, In x l -> is_waiting x = true -> a_time it <= a_time x.
Proof.
  unfold first_by_time. intros A. apply argmax_some in A. destruct A as [Hin Hmax].
  apply filter_In in Hin. destruct Hin as [Hin Wt]. repeat split; auto.
  intros x Hx Wx. assert (In x (filter is_waiting l)) by (apply filter_In; auto). specialize (Hmax x H). lia.
Qed.
Lemma last_by_time_some l it : last_by_time l = Some it ->
  In it l /\ is_selectable it = true /\ forall x, In x l -> is_selectable x = true -> a_time x <= a_time it.
Proof.
  unfold last_by_time. intros A. apply argmax_some in A. destruct A as [Hin Hmax].
  apply filter_In in Hin. destruct Hin as [Hin Wt]. repeat split; auto.
  intros x Hx Wx. apply Hmax. apply filter_In; auto.
Qed.

Lemma stp_loop1_unfold fuel now t ex :
  stp_loop1 prio fuel now t ex =
  match first_by_time (t_index t) with
  | None => (t, ex)
  | Some it =>
    if a_time it <=? now then
      match fuel with
      | O => (set_bad t, ex)
      | S f =>
        if st_is CANDIDATE_DELAYED it
        then stp_loop1 prio f now (promote_candidate_ready prio t (a_peer it) (a_txhash it)) ex
        else stp_loop1 prio f now (fst (make_completed prio t (a_peer it) (a_txhash it)))
                       (ex ++ [(a_peer it, gtxid_of it)])
      end
    else (t, ex)
  end.
Proof. destruct fuel; reflexivity. Qed.
Lemma stp_loop2_unfold fuel now t :
  stp_loop2 prio fuel now t =
  match last_by_time (t_index t) with
  | None => t
  | Some it =>
    if now <? a_time it then
      match fuel with
      | O => set_bad t
      | S f => stp_loop2 prio f now (change_and_reselect prio t (a_peer it) (a_txhash it) CANDIDATE_DELAYED)
      end
    else t
  end.
Proof. destruct fuel; reflexivity. Qed.

Lemma is_waiting_rb a st st' : (st = CANDIDATE_READY \/ st = CANDIDATE_BEST) -> (st' = CANDIDATE_READY \/ st' = CANDIDATE_BEST) ->
  is_waiting (with_state a st) = is_waiting (with_state a st').
Proof. intros [->| ->] [->| ->]; reflexivity. Qed.
Lemma is_selectable_rb a st st' : (st = CANDIDATE_READY \/ st = CANDIDATE_BEST) -> (st' = CANDIDATE_READY \/ st' = CANDIDATE_BEST) ->
  is_selectable (with_state a st) = is_selectable (with_state a st').
Proof. intros [->| ->] [->| ->]; reflexivity. Qed.

Lemma waiting_states a : is_waiting a = true -> a_state a = CANDIDATE_DELAYED \/ a_state a = REQUESTED.
Proof. unfold is_waiting, st_is. destruct (a_state a); simpl; intros H; auto; discriminate. Qed.
Lemma selectable_states a : is_selectable a = true -> a_state a = CANDIDATE_READY \/ a_state a = CANDIDATE_BEST.
Proof. unfold is_selectable, st_is. destruct (a_state a); simpl; intros H; auto; discriminate. Qed.

(* one iteration of the first loop: the invariant is kept and one waiting announcement disappears *)
Lemma loop1_promote_step t it :
  Inv t -> In it (t_index t) -> a_state it = CANDIDATE_DELAYED ->
  let t' := promote_candidate_ready prio t (a_peer it) (a_txhash it) in
  Inv t' /\ cnt is_waiting (t_index t') = cnt is_waiting (t_index t) - 1.
Proof.
  intros I Hin D. pose proof I as [W _ _]. pose proof (wf_uniq _ W) as U.
  assert (F : find_ann (a_peer it) (a_txhash it) (t_index t) = Some it) by (apply find_ann_in; auto).
  split; [eapply promote_inv; eauto|].
  destruct (promote_spec prio t _ _ it W F D) as [Ix _]. rewrite Ix.
  rewrite (cnt_promote_shape is_waiting _ _ _ it _ U F (promote_l_shape prio _ _ _ it U F)).
  - unfold is_waiting at 2 3, st_is. rewrite D. simpl. lia.
  - apply is_waiting_rb.
  - intros a. rewrite with_state_self. reflexivity.
Qed.

Lemma loop1_complete_step t it :
  Inv t -> In it (t_index t) -> a_state it = REQUESTED ->
  let t' := fst (make_completed prio t (a_peer it) (a_txhash it)) in
  Inv t' /\ cnt is_waiting (t_index t') <= cnt is_waiting (t_index t) - 1.
Proof.
  intros I Hin D. pose proof I as [W _ _]. pose proof (wf_uniq _ W) as U.
  assert (F : find_ann (a_peer it) (a_txhash it) (t_index t) = Some it) by (apply find_ann_in; auto).
  split; [eapply mc_inv; eauto|].
  destruct (mc_spec prio t _ _ it W F) as [Ix _]. rewrite Ix. unfold mc_l.
  assert (Wi : is_waiting it = true) by (unfold is_waiting, st_is; rewrite D; reflexivity).
  assert (Ec : st_is COMPLETED it = false) by (unfold st_is; rewrite D; reflexivity). rewrite Ec.
  destruct (is_only_non_completed (t_index t) (a_peer it) (a_txhash it)).
  - unfold drop_tx. pose proof (cnt_filter_drop is_waiting (fun a => negb (has_txhash (a_txhash it) a)) (t_index t) it Hin Wi) as X.
    unfold has_txhash at 1 in X. rewrite Z.eqb_refl in X. specialize (X eq_refl). lia.
  - rewrite (cnt_car_shape is_waiting _ _ _ it COMPLETED _ U F (car_l_shape prio _ _ _ it COMPLETED U F)).
    + rewrite Wi. simpl. lia.
    + apply is_waiting_rb.
    + intros a. rewrite with_state_self. reflexivity.
Qed.

Lemma stp_loop1_inv now : forall fuel t ex,
  Inv t -> cnt is_waiting (t_index t) <= Z.of_nat fuel -> Inv (fst (stp_loop1 prio fuel now t ex)).
Proof.
  induction fuel as [|f IH]; intros t ex I Hc; rewrite stp_loop1_unfold.
  - destruct (first_by_time (t_index t)) as [it|] eqn:FB; [|exact I].
    destruct (a_time it <=? now); [|exact I]. exfalso.
    apply first_by_time_some in FB. destruct FB as [Hin [Wi _]].
    assert (0 < cnt is_waiting (t_index t)) by (apply cnt_pos; exists it; auto). simpl in Hc. lia.
  - destruct (first_by_time (t_index t)) as [it|] eqn:FB; [|exact I].
    destruct (a_time it <=? now); [|exact I].
    apply first_by_time_some in FB. destruct FB as [Hin [Wi _]].
    destruct (st_is CANDIDATE_DELAYED it) eqn:D.
    + apply st_is_eq in D. destruct (loop1_promote_step t it I Hin D) as [I' C']. apply IH; auto. lia.
    + assert (D' : a_state it = REQUESTED).
      { destruct (waiting_states it Wi) as [X|X]; auto. apply st_is_neq in D. contradiction. }
      destruct (loop1_complete_step t it I Hin D') as [I' C']. apply IH; auto. lia.
Qed.

Lemma loop2_step t it :
  Inv t -> In it (t_index t) -> is_selectable it = true ->
  let t' := change_and_reselect prio t (a_peer it) (a_txhash it) CANDIDATE_DELAYED in
  Inv t' /\ cnt is_selectable (t_index t') = cnt is_selectable (t_index t) - 1.
Proof.
  intros I Hin Si. pose proof I as [W _ _]. pose proof (wf_uniq _ W) as U.
  assert (F : find_ann (a_peer it) (a_txhash it) (t_index t) = Some it) by (apply find_ann_in; auto).
  assert (NC : a_state it <> COMPLETED) by (destruct (selectable_states it Si) as [X|X]; rewrite X; discriminate).
  split; [eapply car_delayed_inv; eauto|].
  destruct (car_spec prio t _ _ it CANDIDATE_DELAYED W F) as [Ix _]. rewrite Ix.
  rewrite (cnt_car_shape is_selectable _ _ _ it CANDIDATE_DELAYED _ U F (car_l_shape prio _ _ _ it _ U F)).
  - rewrite Si. simpl. lia.
  - apply is_selectable_rb.
  - intros a. rewrite with_state_self. reflexivity.
Qed.

Lemma stp_loop2_inv now : forall fuel t,
  Inv t -> cnt is_selectable (t_index t) <= Z.of_nat fuel -> Inv (stp_loop2 prio fuel now t).
Proof.
  induction fuel as [|f IH]; intros t I Hc; rewrite stp_loop2_unfold.
  - destruct (last_by_time (t_index t)) as [it|] eqn:FB; [|exact I].
    destruct (now <? a_time it); [|exact I]. exfalso.
    apply last_by_time_some in FB. destruct FB as [Hin [Si _]].
    assert (0 < cnt is_selectable (t_index t)) by (apply cnt_pos; exists it; auto). simpl in Hc. lia.
  - destruct (last_by_time (t_index t)) as [it|] eqn:FB; [|exact I].
    destruct (now <? a_time it); [|exact I].
    apply last_by_time_some in FB. destruct FB as [Hin [Si _]].
    destruct (loop2_step t it I Hin Si) as [I' C']. apply IH; auto. lia.
Qed.

Lemma set_time_point_inv t now : Inv t -> Inv (fst (set_time_point prio t now)).
Proof.
  intros I. unfold set_time_point.
  pose proof (stp_loop1_inv now (length (t_index t)) t [] I (cnt_le_length _ _)) as I1.
  destruct (stp_loop1 prio (length (t_index t)) now t []) as [t1 ex]. cbn [fst] in *.
  apply stp_loop2_inv; auto. apply cnt_le_length.
Qed.

Lemma get_requestable_inv t p now : Inv t -> Inv (fst (fst (get_requestable prio t p now))).
Proof.
  intros I. unfold get_requestable. pose proof (set_time_point_inv t now I) as I1.
  destruct (set_time_point prio t now) as [t1 ex]. exact I1.
Qed.

(* ---------- every operation, every reachable state ---------- *)
Lemma step_inv t o : Inv t -> t_seq t < SEQ_LIMIT -> Inv (fst (step prio t o)).
Proof.
  intros I Lim. destruct o; cbn [step fst].
  - apply received_inv_inv; auto.
  - pose proof (get_requestable_inv t peer now I) as X.
    destruct (get_requestable prio t peer now) as [[t1 r] ex]. exact X.
  - apply requested_tx_inv; auto.
  - apply received_response_inv; auto.
  - apply forget_inv; auto.
  - apply disconnected_peer_inv; auto.
Qed.

Lemma empty_inv : Inv t_empty.
Proof.
  constructor.
  - constructor; cbn; auto; try (unfold SEQ_LIMIT; lia). constructor.
  - split.
    + intros h. constructor; cbn; lia.
    + intros a b [].
  - split; cbn; constructor.
Qed.

(* states reachable from the empty tracker by operations, as long as fewer than 2^59 sequence numbers
   have been handed out (m_sequence is a 59-bit field) *)
Inductive reachable : tracker -> Prop :=
| reach_empty : reachable t_empty
| reach_step t o : reachable t -> t_seq t < SEQ_LIMIT -> reachable (fst (step prio t o)).

Theorem reachable_inv t : reachable t -> Inv t.
Proof. induction 1; [apply empty_inv | apply step_inv; auto]. Qed.

End Steps.
