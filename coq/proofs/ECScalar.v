(* C50 — the secret-key API (secp256k1_ec_seckey_verify / negate / tweak_add / tweak_mul) is arithmetic
   modulo the group order n. *)
From Coq Require Import NArith ZArith Lia.
From BV Require Import lib.Ints gen.Params_gen model.EC proofs.ECLemmas.
Local Open Scope Z_scope.

Lemma be_val32_range : forall b, bytes_ok b -> length b = 32%nat -> 0 <= be_val b < 2 ^ 256.
Proof. intros b Hb Hl. pose proof (be_val_bound b Hb) as H. rewrite Hl in H. exact H. Qed.

(* secp256k1_scalar_set_b32: value mod n and the overflow flag *)
Theorem scalar_set_b32_spec : forall b, bytes_ok b -> length b = 32%nat ->
  scalar_set_b32 b = (be_val b mod secp_n, secp_n <=? be_val b).
Proof.
  intros b Hb Hl. pose proof (be_val32_range b Hb Hl) as Hv. destruct secp_n_bounds as [[Hn1 Hn2] _].
  assert (Hbig : 2 ^ 256 < 2 * secp_n) by (vm_compute; reflexivity).
  unfold scalar_set_b32. rewrite scalar_check_overflow_spec by assumption.
  destruct (Z.leb_spec secp_n (be_val b)).
  - f_equal. symmetry. transitivity ((be_val b - secp_n + 1 * secp_n) mod secp_n); [f_equal; ring|].
    rewrite Z.mod_add by lia. apply Z.mod_small. lia.
  - f_equal. symmetry. apply Z.mod_small. lia.
Qed.

Theorem ec_seckey_verify_spec : forall k, bytes_ok k -> length k = 32%nat ->
  ec_seckey_verify k = (0 <? be_val k) && (be_val k <? secp_n).
Proof.
  intros k Hb Hl. pose proof (be_val32_range k Hb Hl) as Hv. destruct secp_n_bounds as [[Hn1 Hn2] _].
  unfold ec_seckey_verify, scalar_set_b32_seckey. rewrite scalar_set_b32_spec by assumption. cbn [snd].
  destruct (Z.leb_spec secp_n (be_val k)).
  - destruct (Z.ltb_spec (be_val k) secp_n); [lia|]. rewrite Bool.andb_false_r. reflexivity.
  - rewrite Z.mod_small by lia. destruct (Z.ltb_spec (be_val k) secp_n); [|lia].
    destruct (Z.eqb_spec (be_val k) 0), (Z.ltb_spec 0 (be_val k)); try reflexivity; lia.
Qed.

Lemma sc_add_spec : forall a b, 0 <= a < secp_n -> 0 <= b < secp_n -> sc_add a b = (a + b) mod secp_n.
Proof.
  intros a b Ha Hb. unfold sc_add. destruct (Z.ltb_spec (a + b) secp_n).
  - symmetry. apply Z.mod_small. lia.
  - symmetry. transitivity ((a + b - secp_n + 1 * secp_n) mod secp_n); [f_equal; ring|].
    rewrite Z.mod_add by lia. apply Z.mod_small. lia.
Qed.

Lemma sc_neg_spec : forall a, 0 <= a < secp_n -> sc_neg a = (- a) mod secp_n.
Proof.
  intros a Ha. unfold sc_neg. destruct (Z.eqb_spec a 0) as [->|].
  - reflexivity.
  - symmetry. transitivity ((secp_n - a + (-1) * secp_n) mod secp_n); [f_equal; ring|].
    rewrite Z.mod_add by lia. apply Z.mod_small. lia.
Qed.

(* for a valid key k (0 < k < n):  negate gives n - k;  tweak_add gives (k + t) mod n and fails exactly when
   t >= n or the sum is 0;  tweak_mul gives k * t mod n and fails exactly when t >= n or t = 0 *)
Theorem ec_seckey_ops_spec : forall k t, bytes_ok k -> length k = 32%nat -> bytes_ok t -> length t = 32%nat ->
  0 < be_val k < secp_n ->
  let kv := be_val k in let tv := be_val t in
  ec_seckey_negate k = (true, scalar_bytes (secp_n - kv)) /\
  ec_seckey_tweak_add k t =
    (if (secp_n <=? tv) || ((kv + tv) mod secp_n =? 0) then (false, scalar_bytes 0) else (true, scalar_bytes ((kv + tv) mod secp_n))) /\
  ec_seckey_tweak_mul k t =
    (if (secp_n <=? tv) || (tv =? 0) then (false, scalar_bytes 0) else (true, scalar_bytes ((kv * tv) mod secp_n))).
Proof.
  intros k t Hbk Hlk Hbt Hlt Hk kv tv. subst kv tv.
  pose proof (be_val32_range t Hbt Hlt) as Ht. destruct secp_n_bounds as [[Hn1 Hn2] _].
  unfold ec_seckey_negate, ec_seckey_tweak_add, ec_seckey_tweak_mul, scalar_set_b32_seckey.
  rewrite !scalar_set_b32_spec by assumption.
  destruct (Z.leb_spec secp_n (be_val k)); [lia|].
  rewrite (Z.mod_small (be_val k)) by lia.
  destruct (Z.eqb_spec (be_val k) 0); [lia|]. cbn [negb andb].
  split; [|split].
  - unfold sc_neg. destruct (Z.eqb_spec (be_val k) 0); [lia|]. reflexivity.
  - destruct (Z.leb_spec secp_n (be_val t)) as [Hov|Hok]; cbn [negb andb orb]; [reflexivity|].
    rewrite (Z.mod_small (be_val t)) by lia. rewrite sc_add_spec by lia.
    destruct (Z.eqb_spec ((be_val k + be_val t) mod secp_n) 0); reflexivity.
  - destruct (Z.leb_spec secp_n (be_val t)) as [Hov|Hok]; cbn [negb andb orb]; [reflexivity|].
    rewrite (Z.mod_small (be_val t)) by lia.
    destruct (Z.eqb_spec (be_val t) 0); reflexivity.
Qed.
