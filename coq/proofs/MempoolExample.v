(* Satisfiability of the premises of the C22 theorems: the universe given by a list of transactions with distinct txids, the
   initial state (a well-formed chain and an empty pool), and a concrete history on a 102-block chain (acceptance of a
   coinbase spend and a child, a replacement, a connect, a one-block disconnect that un-matures the coinbase spend). *)
From BV Require Import lib.Ints gen.Params_gen model.Locks model.Mempool proofs.LocksLemmas.
From BV Require Import proofs.MempoolBase proofs.MempoolPool proofs.MempoolGraph proofs.MempoolChain proofs.MempoolInv proofs.MempoolBlock proofs.MempoolReorg.
Local Open Scope Z_scope.

Definition in_list (L : list tx) : tx -> Prop := fun t => In t L.

Lemma in_list_inj L : NoDup (map t_id L) -> forall t1 t2, in_list L t1 -> in_list L t2 -> t_id t1 = t_id t2 -> t1 = t2.
Proof.
  unfold in_list. induction L as [|a l IH]; simpl; intros N t1 t2 H1 H2 E; [tauto|].
  inversion N; subst. destruct H1 as [->|H1], H2 as [->|H2]; auto.
  - exfalso. apply H3. rewrite E. apply in_map. exact H2.
  - exfalso. apply H3. rewrite <- E. apply in_map. exact H1.
Qed.
Lemma in_list_wf L : forallb (fun t => (0 <=? t_locktime t) && (t_locktime t <=? 4294967295)) L = true ->
  forall t, in_list L t -> 0 <= t_locktime t <= 4294967295.
Proof. intros H t Ht. rewrite forallb_forall in H. specialize (H t Ht). apply andb_true_iff in H. lia. Qed.

(* the initial state: a well-formed chain whose transactions are in play, and an empty pool *)
Lemma Inv_init (U : tx -> Prop) c now expiry : chain_okb c = true -> (forall b t, In b c -> In t (b_txs b) -> U t) ->
  Inv U {| s_chain := c; s_pool := empty_pool; s_now := now; s_expiry := expiry |}.
Proof.
  intros Hc HU. constructor; simpl.
  - constructor; simpl; try tauto; try exact empty_pool_ok; try exact HU; try exact Hc.
  - split; [|split]; simpl; tauto.
Qed.

(* ---- a concrete history ---- *)
Definition mk (id : Z) (vin : list (outpoint * Z)) (nout : Z) : tx :=
  {| t_id := id; t_vin := vin; t_nout := nout; t_version := 2; t_locktime := 0; t_script_ok := true; t_fee := 1000; t_size := 100 |}.
Definition cb_block (h : nat) : block := {| b_id := 1000 + Z.of_nat h; b_time := 1000 + Z.of_nat h; b_txs := [mk (Z.of_nat h) [] (if Nat.eqb h 0 then 0 else 1)] |}.
Fixpoint cb_chain (n : nat) : chain := match n with O => [cb_block 0] | S k => cb_block (S k) :: cb_chain k end.
Definition ex_chain : chain := cb_chain 101.            (* heights 0..101: coinbases 1 and 2 are mature, 3 is not *)

Definition SEQF : Z := 4294967295.
Definition ta : tx := mk 5001 [((2, 0), SEQF)] 2.        (* spends coinbase 2: mature only while the tip is >= 101 *)
Definition tb : tx := mk 5002 [((5001, 0), SEQF)] 1.     (* child of ta *)
Definition tc : tx := mk 5003 [((1, 0), SEQF)] 1.        (* spends coinbase 1 *)
Definition tc' : tx := mk 5004 [((1, 0), SEQF)] 1.       (* conflicts with tc *)
Definition td : tx := mk 5005 [((5003, 0), SEQF); ((5001, 1), SEQF)] 1.   (* child of tc and ta *)
Definition blk : block := {| b_id := 2000; b_time := 5000; b_txs := [mk 6000 [] 1; tc'] |}.   (* confirms the conflict *)

Definition ex_txs : list tx := flat_map b_txs ex_chain ++ b_txs blk ++ [ta; tb; tc; td].
Definition ex_U := in_list ex_txs.

Definition ex_init : state := {| s_chain := ex_chain; s_pool := empty_pool; s_now := 2000; s_expiry := 1209600 |}.
Definition ex_ops : list op :=
  [ OpAccept ta None []; OpAccept tb None []; OpAccept tc None []; OpAccept td None [];
    OpReorg 0 [blk] true [] [];                 (* tc' confirmed: tc and td leave, ta and tb stay *)
    OpReorg 1 [] true [] [];                    (* blk disconnected: tc' comes back *)
    OpReorg 1 [] true [] [] ].                  (* tip 101 disconnected: coinbase 2 is immature, ta and tb leave *)

Lemma ex_U_inj : forall t1 t2, ex_U t1 -> ex_U t2 -> t_id t1 = t_id t2 -> t1 = t2.
Proof. apply in_list_inj. apply nodupb_z_NoDup. vm_compute. reflexivity. Qed.
Lemma ex_U_wf : forall t, ex_U t -> 0 <= t_locktime t <= 4294967295.
Proof. apply in_list_wf. vm_compute. reflexivity. Qed.
Lemma ex_init_Inv : Inv ex_U ex_init.
Proof.
  apply Inv_init.
  - vm_compute. reflexivity.
  - intros b t Hb Ht. unfold ex_U, in_list, ex_txs. apply in_app_iff. left. apply in_flat_map. eauto.
Qed.
Lemma ex_ops_U : Forall (op_U ex_U) ex_ops.
Proof.
  assert (forall t, In t (b_txs blk ++ [ta; tb; tc; td]) -> ex_U t) as H.
  { intros t Ht. unfold ex_U, in_list, ex_txs. apply in_app_iff. right. exact Ht. }
  assert (forall t, In t [ta; tb; tc; td] -> ex_U t) as H2 by (intros t Ht; apply H; apply in_or_app; right; exact Ht).
  unfold ex_ops. repeat apply Forall_cons; try apply Forall_nil.
  - apply H2. left. reflexivity.
  - apply H2. right. left. reflexivity.
  - apply H2. right. right. left. reflexivity.
  - apply H2. right. right. right. left. reflexivity.
  - intros b t [<-|[]] Ht. apply H. apply in_or_app. left. exact Ht.
  - intros b t [].
  - intros b t [].
Qed.

(* what the history does (computed): the pools after 4, 5, 6 and 7 operations *)
Definition ids_after (n : nat) : option (list Z) := option_map (fun st => pool_ids (s_pool st)) (run ex_init (firstn n ex_ops)).
Lemma ex_run : ids_after 4 = Some [5001; 5002; 5003; 5005] /\ ids_after 5 = Some [5001; 5002] /\
               ids_after 6 = Some [5001; 5002; 5004] /\ ids_after 7 = Some [5004].
Proof. vm_compute. repeat split; reflexivity. Qed.
