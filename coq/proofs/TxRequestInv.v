(* The scheduling invariants of TxRequestTracker (SanityCheck) and their preservation by the internal
   procedures PromoteCandidateReady / ChangeAndReselect / MakeCompleted, at the level of the index list. *)
From BV Require Import lib.Ints model.TxRequest proofs.TxRequestBasics.
Local Open Scope Z_scope.

(* number of announcements of txhash h in state st (ComputeTxHashInfo) *)
Definition c (l : list ann) (h : Z) (st : tstate) : Z := cnt (in_st h st) l.

(* SanityCheck, per txhash:
     assert(m_candidate_delayed + m_candidate_ready + m_candidate_best + m_requested > 0)   [txhash present]
     assert(m_candidate_best + m_requested <= 1)
     if (m_candidate_ready > 0) assert(m_candidate_best + m_requested == 1) *)
Record tx_ok (l : list ann) (h : Z) : Prop := mkTxOk {
  ok_sel : c l h CANDIDATE_BEST + c l h REQUESTED <= 1;
  ok_ready : 0 < c l h CANDIDATE_READY -> 1 <= c l h CANDIDATE_BEST + c l h REQUESTED;
  ok_compl : 0 < c l h COMPLETED ->
             0 < c l h CANDIDATE_DELAYED + c l h CANDIDATE_READY + c l h CANDIDATE_BEST + c l h REQUESTED }.

Definition set_st (p h : Z) (st : tstate) (l : list ann) : list ann := set_ann p h (fun a => with_state a st) l.

(* ---------- counting under updates ---------- *)
Lemma cnt_map P (g : ann -> ann) l : cnt P (map g l) = cnt (fun a => P (g a)) l.
Proof. induction l as [|x l IH]; [reflexivity|]. simpl. rewrite IH. reflexivity. Qed.

Lemma in_st_true h st a : in_st h st a = true <-> a_txhash a = h /\ a_state a = st.
Proof. unfold in_st. rewrite andb_true_iff, has_txhash_true, st_is_eq. tauto. Qed.

Lemma c_set_ann_other p h f l h' st : keeps_key f -> h' <> h -> c (set_ann p h f l) h' st = c l h' st.
Proof.
  intros K N. unfold c, set_ann. rewrite cnt_map. apply cnt_ext. intros a _.
  destruct (is_key p h a) eqn:E; [|reflexivity]. apply is_key_true in E. destruct E as [_ E].
  unfold in_st, has_txhash. destruct (K a) as [_ ->]. rewrite E.
  assert (X : (h =? h') = false) by (apply Z.eqb_neq; auto). rewrite X. reflexivity.
Qed.

Lemma c_set_st l p h st it st' : uniq l -> find_ann p h l = Some it ->
  c (set_st p h st l) h st' = c l h st' - b2z (state_eqb (a_state it) st') + b2z (state_eqb st st').
Proof.
  intros U F. unfold c, set_st. rewrite (cnt_set_ann _ p h _ l it) by auto.
  destruct (find_ann_some _ _ _ _ F) as [_ [_ Hh]].
  unfold in_st, has_txhash, st_is. simpl. rewrite Hh, Z.eqb_refl. reflexivity.
Qed.

Lemma c_set_time l p h st tm it st' : uniq l -> find_ann p h l = Some it ->
  c (set_ann p h (fun a => with_state_time a st tm) l) h st'
  = c l h st' - b2z (state_eqb (a_state it) st') + b2z (state_eqb st st').
Proof.
  intros U F. unfold c. rewrite (cnt_set_ann _ p h _ l it) by auto.
  destruct (find_ann_some _ _ _ _ F) as [_ [_ Hh]].
  unfold in_st, has_txhash, st_is. simpl. rewrite Hh, Z.eqb_refl. reflexivity.
Qed.

Lemma c_nonneg l h st : 0 <= c l h st.
Proof. apply cnt_nonneg. Qed.

Lemma c_pos_of l h st a : In a l -> a_txhash a = h -> a_state a = st -> 0 < c l h st.
Proof. intros Hin Hh Hs. apply cnt_pos. exists a. split; auto. apply in_st_true. auto. Qed.

Lemma c_pos_ex l h st : 0 < c l h st -> exists a, In a l /\ a_txhash a = h /\ a_state a = st.
Proof. intros H. apply cnt_pos in H. destruct H as [a [Ha Hs]]. apply in_st_true in Hs. exists a. tauto. Qed.

Lemma other_of_true p h a : other_of p h a = true <-> a_txhash a = h /\ a_peer a <> p.
Proof. unfold other_of. rewrite andb_true_iff, negb_true_iff, Z.eqb_eq, Z.eqb_neq. tauto. Qed.

(* an announcement of txhash h is `it` or belongs to another peer *)
Lemma same_or_other l p h it a : uniq l -> find_ann p h l = Some it -> In a l -> a_txhash a = h ->
  a = it \/ other_of p h a = true.
Proof.
  intros U F Ha Hh. destruct (find_ann_some _ _ _ _ F) as [Hin [Hp Hh']].
  destruct (Z.eq_dec (a_peer a) p) as [E|N].
  - left. apply (uniq_same_key l); auto. unfold key. congruence.
  - right. apply other_of_true. auto.
Qed.

Lemma c_zero_of_others l p h it st : uniq l -> find_ann p h l = Some it -> a_state it <> st ->
  (forall a, In a l -> other_of p h a = true -> a_state a <> st) -> c l h st = 0.
Proof.
  intros U F Ns Ho. apply cnt_zero. intros a Ha. destruct (in_st h st a) eqn:E; [|reflexivity].
  apply in_st_true in E. destruct E as [Eh Es].
  destruct (same_or_other _ _ _ _ _ U F Ha Eh) as [->|O]; [contradiction|]. exfalso. exact (Ho a Ha O Es).
Qed.

(* at most one announcement satisfies a predicate counted <= 1 *)
Lemma cnt_le1_unique P l a b : cnt P l <= 1 -> In a l -> In b l -> P a = true -> P b = true -> a = b.
Proof.
  induction l as [|x l IH]; intros C Ha Hb Pa Pb; [contradiction|]. simpl in C.
  pose proof (cnt_nonneg P l) as N.
  destruct Ha as [->|Ha], Hb as [->|Hb]; auto.
  - rewrite Pa in C. assert (0 < cnt P l) by (apply cnt_pos; exists b; auto). lia.
  - rewrite Pb in C. assert (0 < cnt P l) by (apply cnt_pos; exists a; auto). lia.
  - destruct (P x); apply IH; auto; lia.
Qed.

Definition sel_h (h : Z) (a : ann) : bool := has_txhash h a && is_selected a.
Lemma cnt_sel l h : cnt (sel_h h) l = c l h CANDIDATE_BEST + c l h REQUESTED.
Proof.
  unfold c. induction l as [|x l IH]; [reflexivity|]. cbn [cnt]. rewrite IH.
  unfold sel_h, in_st, is_selected, st_is. destruct (has_txhash h x), (a_state x); cbn [andb orb state_eqb]; lia.
Qed.

Lemma sel_unique l h a b : tx_ok l h -> In a l -> In b l -> a_txhash a = h -> a_txhash b = h ->
  is_selected a = true -> is_selected b = true -> a = b.
Proof.
  intros T Ha Hb Eh Eh' Sa Sb. apply (cnt_le1_unique (sel_h h) l); auto.
  - rewrite cnt_sel. apply (ok_sel _ _ T).
  - unfold sel_h. rewrite Sa. apply has_txhash_true in Eh. rewrite Eh. reflexivity.
  - unfold sel_h. rewrite Sb. apply has_txhash_true in Eh'. rewrite Eh'. reflexivity.
Qed.

Lemma in_set_st p h st l it a : uniq l -> find_ann p h l = Some it ->
  (In a (set_st p h st l) <-> a = with_state it st \/ (In a l /\ is_key p h a = false)).
Proof. intros U F. exact (in_set_ann p h (fun a0 => with_state a0 st) l it a U F). Qed.

Lemma is_key_false_other l p h it a : uniq l -> find_ann p h l = Some it -> In a l -> is_key p h a = false -> a <> it.
Proof.
  intros U F Ha K E. subst a. destruct (find_ann_some _ _ _ _ F) as [_ [Hp Hh]].
  assert (is_key p h it = true) by (apply is_key_true; auto). congruence.
Qed.

Lemma set_st_uniq p h st l : uniq l -> uniq (set_st p h st l).
Proof. apply set_ann_uniq. apply keeps_key_with_state. Qed.

Lemma find_set_st_same p h st l it : find_ann p h l = Some it -> find_ann p h (set_st p h st l) = Some (with_state it st).
Proof. intros F. unfold set_st. apply (find_set_ann_same p h (fun a => with_state a st)); auto. apply keeps_key_with_state. Qed.
Lemma find_set_st_other p h st l p' h' : (p', h') <> (p, h) -> find_ann p' h' (set_st p h st l) = find_ann p' h' l.
Proof. intros N. unfold set_st. apply find_set_ann_other; auto. apply keeps_key_with_state. Qed.

(* queries about the other announcements of a txhash do not see an update of (p, h) *)
Lemma existsb_other_set_ann p h f Q l : keeps_key f ->
  existsb (fun a => other_of p h a && Q a) (set_ann p h f l) = existsb (fun a => other_of p h a && Q a) l.
Proof.
  intros K. unfold set_ann. induction l as [|x l IH]; [reflexivity|]. cbn [map existsb]. rewrite IH. f_equal.
  destruct (is_key p h x) eqn:E; [|reflexivity]. apply is_key_true in E. destruct E as [Ep Eh].
  unfold other_of. destruct (K x) as [-> ->]. rewrite Ep, Z.eqb_refl. rewrite !andb_false_r. reflexivity.
Qed.
Lemma find_other_set_ann p h f Q l : keeps_key f ->
  find (fun a => other_of p h a && Q a) (set_ann p h f l) = find (fun a => other_of p h a && Q a) l.
Proof.
  intros K. unfold set_ann. induction l as [|x l IH]; [reflexivity|]. cbn [map find].
  destruct (is_key p h x) eqn:E.
  - apply is_key_true in E. destruct E as [Ep Eh].
    assert (X : forall y, a_peer y = p -> other_of p h y = false).
    { intros y Hy. unfold other_of. rewrite Hy, Z.eqb_refl. apply andb_false_r. }
    rewrite (X (f x)) by (destruct (K x) as [-> _]; auto). rewrite (X x) by auto. cbn [andb]. exact IH.
  - rewrite IH. reflexivity.
Qed.

(* ---------- tx_ok / prio_ok transport ---------- *)
Lemma tx_ok_of_counts l l' h :
  (forall st, c l' h st = c l h st) -> tx_ok l h -> tx_ok l' h.
Proof. intros E [A B C]. constructor; rewrite !E; auto. Qed.

Lemma in_set_ann_other_tx p h f l a : keeps_key f -> In a (set_ann p h f l) -> a_txhash a <> h -> In a l.
Proof.
  intros K Hin N. unfold set_ann in Hin. apply in_map_iff in Hin. destruct Hin as [x [Hx Hin]].
  destruct (is_key p h x) eqn:E.
  - exfalso. apply N. subst a. apply is_key_true in E. destruct (K x) as [_ ->]. tauto.
  - subst a. exact Hin.
Qed.

Definition no_other (l : list ann) (p h : Z) (st : tstate) : Prop :=
  forall a, In a l -> other_of p h a = true -> a_state a <> st.

Lemma other_is_key_false p h a : other_of p h a = true -> is_key p h a = false.
Proof. intros O. apply other_of_true in O. destruct O as [_ N]. unfold is_key. apply Z.eqb_neq in N. rewrite N. reflexivity. Qed.

Lemma tx_ok_other_set_ann p h f l h' : keeps_key f -> h' <> h -> tx_ok l h' -> tx_ok (set_ann p h f l) h'.
Proof. intros K N. apply tx_ok_of_counts. intros st. apply c_set_ann_other; auto. Qed.
Lemma tx_ok_other_set_st p h st l h' : h' <> h -> tx_ok l h' -> tx_ok (set_st p h st l) h'.
Proof. apply tx_ok_other_set_ann. apply keeps_key_with_state. Qed.

Lemma key_ws p h it st : a_peer it = p -> a_txhash it = h -> is_key p h (with_state it st) = true.
Proof. intros. apply is_key_true. simpl. auto. Qed.
Ltac tx_other := repeat (apply tx_ok_other_set_st; [assumption|]); auto.
Ltac count_it U F D := rewrite !(c_set_st _ _ _ _ _ _ U F); rewrite ?D; cbn [state_eqb b2z with_state a_state].

(* number of non-COMPLETED announcements of a txhash *)
Definition live_h (h : Z) (a : ann) : bool := has_txhash h a && negb (st_is COMPLETED a).
Lemma cnt_live l h :
  cnt (live_h h) l = c l h CANDIDATE_DELAYED + c l h CANDIDATE_READY + c l h CANDIDATE_BEST + c l h REQUESTED.
Proof.
  unfold c. induction l as [|x l IH]; [reflexivity|]. cbn [cnt]. rewrite IH.
  unfold live_h, in_st, st_is. destruct (has_txhash h x), (a_state x); cbn [andb negb state_eqb]; lia.
Qed.
Lemma cnt_two P l a b : In a l -> In b l -> a <> b -> P a = true -> P b = true -> 2 <= cnt P l.
Proof.
  induction l as [|x l IH]; intros Ha Hb N Pa Pb; [contradiction|]. cbn [cnt].
  pose proof (cnt_nonneg P l).
  destruct Ha as [->|Ha], Hb as [->|Hb].
  - contradiction.
  - rewrite Pa. assert (0 < cnt P l) by (apply cnt_pos; exists b; auto). lia.
  - rewrite Pb. assert (0 < cnt P l) by (apply cnt_pos; exists a; auto). lia.
  - specialize (IH Ha Hb N Pa Pb). destruct (P x); lia.
Qed.

(* ---------- MakeCompleted ---------- *)
Definition drop_tx (h : Z) (l : list ann) : list ann := filter (fun a => negb (has_txhash h a)) l.

Lemma c_drop_tx_same h l st : c (drop_tx h l) h st = 0.
Proof.
  unfold c, drop_tx. rewrite cnt_filter. apply cnt_zero. intros a _. unfold in_st.
  destruct (has_txhash h a); reflexivity.
Qed.
Lemma c_drop_tx_other h l h' st : h' <> h -> c (drop_tx h l) h' st = c l h' st.
Proof.
  intros N. unfold c, drop_tx. rewrite cnt_filter. apply cnt_ext. intros a _. unfold in_st, has_txhash.
  destruct (a_txhash a =? h') eqn:E; [|rewrite andb_false_r; reflexivity].
  apply Z.eqb_eq in E. assert (X : (a_txhash a =? h) = false) by (apply Z.eqb_neq; lia). rewrite X. reflexivity.
Qed.
Lemma only_non_completed_false l p h : is_only_non_completed l p h = false ->
  exists b, In b l /\ other_of p h b = true /\ a_state b <> COMPLETED.
Proof.
  unfold is_only_non_completed. rewrite negb_false_iff. intros E. apply existsb_exists in E.
  destruct E as [b [Hb E]]. apply andb_true_iff in E. destruct E as [O S]. apply negb_true_iff in S.
  apply st_is_neq in S. exists b. auto.
Qed.
Lemma only_non_completed_true l p h : is_only_non_completed l p h = true ->
  forall b, In b l -> other_of p h b = true -> a_state b = COMPLETED.
Proof.
  unfold is_only_non_completed. rewrite negb_true_iff. intros E b Hb O.
  destruct (st_is COMPLETED b) eqn:S; [apply st_is_eq in S; auto|]. exfalso.
  assert (X : existsb (fun a => other_of p h a && negb (st_is COMPLETED a)) l = true).
  { apply existsb_exists. exists b. split; auto. rewrite O, S. reflexivity. }
  congruence.
Qed.

(* ---------- shapes: what the three procedures do to the index ---------- *)
Lemma set_st_twice p h st st' l : set_st p h st' (set_st p h st l) = set_st p h st' l.
Proof.
  unfold set_st, set_ann. rewrite map_map. apply map_ext. intros a.
  destruct (is_key p h a) eqn:E.
  - assert (E' : is_key p h (with_state a st) = true) by exact E. rewrite E'. reflexivity.
  - rewrite E. reflexivity.
Qed.
Lemma set_st_comm p h st p' h' st' l : (p, h) <> (p', h') ->
  set_st p h st (set_st p' h' st' l) = set_st p' h' st' (set_st p h st l).
Proof.
  intros N. unfold set_st, set_ann. rewrite !map_map. apply map_ext. intros a.
  destruct (is_key p h a) eqn:E, (is_key p' h' a) eqn:E'.
  - exfalso. apply N. apply is_key_true in E, E'. destruct E, E'. congruence.
  - unfold is_key in *. cbn [with_state a_peer a_txhash]. rewrite ?E, ?E'. reflexivity.
  - unfold is_key in *. cbn [with_state a_peer a_txhash]. rewrite ?E, ?E'. reflexivity.
  - unfold is_key in *. cbn [with_state a_peer a_txhash]. rewrite ?E, ?E'. reflexivity.
Qed.

Inductive promote_shape (l : list ann) (p h : Z) (it : ann) : list ann -> Prop :=
| PS_one st : st = CANDIDATE_READY \/ st = CANDIDATE_BEST -> promote_shape l p h it (set_st p h st l)
| PS_swap b : find_ann (a_peer b) h l = Some b -> a_state b = CANDIDATE_BEST -> a_peer b <> p ->
    promote_shape l p h it (set_st p h CANDIDATE_BEST (set_st (a_peer b) h CANDIDATE_READY l)).

Inductive car_shape (l : list ann) (p h : Z) (ns : tstate) : list ann -> Prop :=
| CS_one : car_shape l p h ns (set_st p h ns l)
| CS_resel r : find_ann (a_peer r) h l = Some r -> a_state r = CANDIDATE_READY -> a_peer r <> p ->
    car_shape l p h ns (set_st p h ns (set_st (a_peer r) h CANDIDATE_BEST l)).


Section Inv.
Variable prio : Z -> Z -> bool -> Z.
Notation prio_of := (prio_of prio).


(* if (m_candidate_ready && m_candidate_best) assert(m_priority_candidate_best >= m_priority_best_candidate_ready) *)
Definition prio_ok (l : list ann) : Prop :=
  forall a b, In a l -> In b l -> a_txhash a = a_txhash b ->
              a_state a = CANDIDATE_BEST -> a_state b = CANDIDATE_READY -> prio_of b <= prio_of a.

Definition sched_ok (l : list ann) : Prop := (forall h, tx_ok l h) /\ prio_ok l.

(* ---------- PromoteCandidateReady ---------- *)
Definition promote_l (l : list ann) (p h : Z) (it : ann) : list ann :=
  let l1 := set_st p h CANDIDATE_READY l in
  match next_after_ready prio l1 p h (prio_of it) with
  | NxNone | NxCompleted => set_st p h CANDIDATE_BEST l1
  | NxBest b =>
      if prio_of b <? prio_of it then set_st p h CANDIDATE_BEST (set_st (a_peer b) h CANDIDATE_READY l1) else l1
  | NxReady | NxRequested => l1
  end.

Lemma next_after_ready_eq l p h f pr : keeps_key f ->
  next_after_ready prio (set_ann p h f l) p h pr = next_after_ready prio l p h pr.
Proof.
  intros K. unfold next_after_ready.
  assert (E : forall l0, existsb (fun a => other_of p h a && st_is CANDIDATE_READY a && (pr <? prio_of a)) l0
                     = existsb (fun a => other_of p h a && (st_is CANDIDATE_READY a && (pr <? prio_of a))) l0).
  { intros l0. induction l0 as [|x l0 IH0]; [reflexivity|]. cbn [existsb]. rewrite IH0, andb_assoc. reflexivity. }
  rewrite !E.
  rewrite (existsb_other_set_ann p h f (fun a => st_is CANDIDATE_READY a && (pr <? prio_of a))) by auto.
  rewrite (find_other_set_ann p h f (st_is CANDIDATE_BEST)) by auto.
  rewrite (existsb_other_set_ann p h f (st_is REQUESTED)) by auto.
  rewrite (existsb_other_set_ann p h f (st_is COMPLETED)) by auto.
  reflexivity.
Qed.

Definition others_ready_le (l : list ann) (p h pr : Z) : Prop :=
  forall r, In r l -> other_of p h r = true -> a_state r = CANDIDATE_READY -> prio_of r <= pr.
Lemma next_after_ready_cases l p h pr :
  match next_after_ready prio l p h pr with
  | NxReady => exists r, In r l /\ other_of p h r = true /\ a_state r = CANDIDATE_READY /\ pr < prio_of r
  | NxBest b => others_ready_le l p h pr /\ In b l /\ other_of p h b = true /\ a_state b = CANDIDATE_BEST
  | NxRequested => others_ready_le l p h pr /\ no_other l p h CANDIDATE_BEST /\
                   exists q, In q l /\ other_of p h q = true /\ a_state q = REQUESTED
  | NxCompleted | NxNone => others_ready_le l p h pr /\ no_other l p h CANDIDATE_BEST /\ no_other l p h REQUESTED
  end.
Proof.
  unfold next_after_ready.
  destruct (existsb _ l) eqn:E1.
  { apply existsb_exists in E1. destruct E1 as [r [Hr E]]. rewrite !andb_true_iff in E.
    destruct E as [[E1 E2] E3]. exists r. rewrite st_is_eq in E2. apply Z.ltb_lt in E3. auto. }
  assert (RL : others_ready_le l p h pr).
  { intros r Hr Ho Hs. destruct (Z_lt_le_dec pr (prio_of r)) as [L|L]; [|exact L]. exfalso.
    assert (X : existsb (fun a => other_of p h a && st_is CANDIDATE_READY a && (pr <? prio_of a)) l = true).
    { apply existsb_exists. exists r. split; auto. rewrite Ho. apply st_is_eq in Hs. rewrite Hs.
      apply Z.ltb_lt in L. rewrite L. reflexivity. }
    congruence. }
  destruct (find _ l) as [b|] eqn:E2.
  { apply find_some in E2. destruct E2 as [Hb E]. rewrite andb_true_iff, st_is_eq in E. tauto. }
  assert (NB : no_other l p h CANDIDATE_BEST).
  { intros a Ha Ho Hs. eapply find_none in E2; eauto. cbv beta in E2. rewrite Ho in E2. apply st_is_eq in Hs. rewrite Hs in E2. discriminate. }
  destruct (existsb (fun a => other_of p h a && st_is REQUESTED a) l) eqn:E3.
  { apply existsb_exists in E3. destruct E3 as [q [Hq E]]. rewrite andb_true_iff, st_is_eq in E.
    split; auto. split; auto. exists q. tauto. }
  assert (NQ : no_other l p h REQUESTED).
  { intros a Ha Ho Hs.
    assert (X : existsb (fun a => other_of p h a && st_is REQUESTED a) l = true).
    { apply existsb_exists. exists a. split; auto. rewrite Ho. apply st_is_eq in Hs. rewrite Hs. reflexivity. }
    congruence. }
  destruct (existsb (fun a => other_of p h a && st_is COMPLETED a) l); auto.
Qed.

Lemma promote_sched l p h it :
  uniq l -> find_ann p h l = Some it -> a_state it = CANDIDATE_DELAYED -> sched_ok l ->
  sched_ok (promote_l l p h it) /\ uniq (promote_l l p h it).
Proof.
  intros U F D [T P].
  destruct (find_ann_some _ _ _ _ F) as [Hin [Hp Hh]].
  set (l1 := set_st p h CANDIDATE_READY l).
  assert (U1 : uniq l1) by (apply set_st_uniq; auto).
  assert (F1 : find_ann p h l1 = Some (with_state it CANDIDATE_READY)) by (apply find_set_st_same; auto).
  assert (IN1 : forall a, In a l1 <-> a = with_state it CANDIDATE_READY \/ (In a l /\ is_key p h a = false)).
  { intros a. apply in_set_st; auto. }
  pose proof (T h) as [Tsel Tready Tcompl].
  pose proof (c_nonneg l h CANDIDATE_DELAYED). pose proof (c_nonneg l h CANDIDATE_READY).
  pose proof (c_nonneg l h CANDIDATE_BEST). pose proof (c_nonneg l h REQUESTED). pose proof (c_nonneg l h COMPLETED).
  assert (CD : 0 < c l h CANDIDATE_DELAYED) by (apply (c_pos_of l h _ it); auto).
  (* the old announcements of the txhash are untouched in l1 *)
  assert (OLD : forall a, In a l1 -> a <> with_state it CANDIDATE_READY -> In a l /\ is_key p h a = false).
  { intros a Ha Na. apply IN1 in Ha. destruct Ha as [->|Ha]; [contradiction|exact Ha]. }
  (* tx_ok and prio_ok of l1 under the two conditions that make l1 itself consistent *)
  assert (L1 : 1 <= c l h CANDIDATE_BEST + c l h REQUESTED ->
               (forall a, In a l -> a_txhash a = h -> a_state a = CANDIDATE_BEST -> prio_of it <= prio_of a) ->
               sched_ok l1).
  { intros Hsel Hbest. split.
    - intros h'. destruct (Z.eq_dec h' h) as [->|N]; [|tx_other].
      constructor; unfold l1; count_it U F D; lia.
    - intros a b Ha Hb Eh Sa Sb. apply IN1 in Ha. apply IN1 in Hb.
      destruct Ha as [->|[Ha Ka]]; [simpl in Sa; discriminate|].
      destruct Hb as [->|[Hb Kb]].
      + simpl in Eh. change (prio_of (with_state it CANDIDATE_READY)) with (prio_of it). apply Hbest; auto. congruence.
      + apply P; auto. }
  assert (NE : next_after_ready prio l1 p h (prio_of it) = next_after_ready prio l p h (prio_of it)).
  { unfold l1, set_st. apply next_after_ready_eq. apply keeps_key_with_state. }
  unfold promote_l. fold l1. rewrite NE.
  pose proof (next_after_ready_cases l p h (prio_of it)) as C.
  destruct (next_after_ready prio l p h (prio_of it)) as [| |b| |].
  - (* NxNone: `it` becomes CANDIDATE_BEST *)
    destruct C as [RL [NB NQ]].
    assert (ZB : c l h CANDIDATE_BEST = 0) by (apply (c_zero_of_others l p h it); auto; congruence).
    assert (ZQ : c l h REQUESTED = 0) by (apply (c_zero_of_others l p h it); auto; congruence).
    split; [|apply set_st_uniq; auto]. split.
    + intros h'. destruct (Z.eq_dec h' h) as [->|N]; [|tx_other].
      constructor; rewrite !(c_set_st _ _ _ _ _ _ U1 F1); unfold l1; count_it U F D; lia.
    + intros a b Ha Hb Eh Sa Sb.
      apply (in_set_st p h _ l1 _ a U1 F1) in Ha. apply (in_set_st p h _ l1 _ b U1 F1) in Hb.
      destruct Hb as [->|[Hb Kb]]; [simpl in Sb; discriminate|].
      destruct (OLD b Hb) as [Hb' _]. { intros ->. rewrite key_ws in Kb by auto. discriminate. }
      destruct Ha as [->|[Ha Ka]].
      * simpl in Eh. change (prio_of (with_state (with_state it CANDIDATE_READY) CANDIDATE_BEST)) with (prio_of it).
        apply RL; auto. apply other_of_true. split; [congruence|].
        intros Ep. assert (is_key p h b = true) by (apply is_key_true; split; congruence). congruence.
      * destruct (OLD a Ha) as [Ha' _]. { intros ->. simpl in Sa. discriminate. }
        apply P; auto.
  - (* NxReady: a better CANDIDATE_READY exists, nothing else changes *)
    destruct C as [r [Hr [Or [Sr Lr]]]]. apply other_of_true in Or. destruct Or as [Hrh Hrp].
    assert (CR : 0 < c l h CANDIDATE_READY) by (apply (c_pos_of l h _ r); auto).
    split; [|exact U1]. apply L1; [lia|].
    intros a Ha Eh Sa. assert (prio_of r <= prio_of a) by (apply P; auto; congruence). lia.
  - (* NxBest b *)
    destruct C as [RL [Hb [Ob Sb]]]. pose proof Ob as Ob'. apply other_of_true in Ob'. destruct Ob' as [Hbh Hbp].
    assert (CB : 0 < c l h CANDIDATE_BEST) by (apply (c_pos_of l h _ b); auto).
    assert (BU : forall a, In a l -> a_txhash a = h -> a_state a = CANDIDATE_BEST -> a = b).
    { intros a Ha Eh Sa. apply (sel_unique l h); auto; unfold is_selected; apply st_is_eq in Sa, Sb; rewrite ?Sa, ?Sb; auto. }
    destruct (prio_of b <? prio_of it) eqn:Cmp.
    + (* swap *)
      apply Z.ltb_lt in Cmp.
      assert (Kb : is_key p h b = false) by (apply other_is_key_false; auto).
      assert (Hb1 : In b l1) by (apply IN1; right; auto).
      assert (Fb1 : find_ann (a_peer b) h l1 = Some b) by (rewrite <- Hbh; apply find_ann_in; auto).
      set (l2 := set_st (a_peer b) h CANDIDATE_READY l1).
      assert (U2 : uniq l2) by (apply set_st_uniq; auto).
      assert (F2 : find_ann p h l2 = Some (with_state it CANDIDATE_READY)).
      { unfold l2. rewrite find_set_st_other; auto. intros E. inversion E. congruence. }
      split; [|apply set_st_uniq; auto]. split.
      * intros h'. destruct (Z.eq_dec h' h) as [->|N]; [|tx_other].
        constructor; rewrite !(c_set_st _ _ _ _ _ _ U2 F2); unfold l2; rewrite !(c_set_st _ _ _ _ _ _ U1 Fb1);
          unfold l1; count_it U F D; rewrite Sb; cbn [state_eqb b2z]; lia.
      * intros x y Hx Hy Eh Sx Sy.
        apply (in_set_st p h _ l2 _ x U2 F2) in Hx. apply (in_set_st p h _ l2 _ y U2 F2) in Hy.
        destruct Hy as [->|[Hy Ky]]; [simpl in Sy; discriminate|].
        apply (in_set_st (a_peer b) h _ l1 _ y U1 Fb1) in Hy.
        destruct Hx as [->|[Hx Kx]].
        -- change (prio_of (with_state (with_state it CANDIDATE_READY) CANDIDATE_BEST)) with (prio_of it).
           simpl in Eh.
           destruct Hy as [->|[Hy Ky']]; [change (prio_of (with_state b CANDIDATE_READY)) with (prio_of b); lia|].
           destruct (OLD y Hy) as [Hy' _]. { intros ->. rewrite key_ws in Ky by auto. discriminate. }
           apply RL; auto. apply other_of_true. split; [congruence|].
           intros Ep. assert (is_key p h y = true) by (apply is_key_true; split; congruence). congruence.
        -- apply (in_set_st (a_peer b) h _ l1 _ x U1 Fb1) in Hx.
           destruct Hx as [->|[Hx Kx']]; [simpl in Sx; discriminate|].
           destruct (OLD x Hx) as [Hx' _]. { intros ->. simpl in Sx. discriminate. }
           destruct (Z.eq_dec (a_txhash x) h) as [Exh|Nxh].
           ++ exfalso. assert (x = b) by (apply BU; auto). subst x.
              assert (is_key (a_peer b) h b = true) by (apply is_key_true; auto). congruence.
           ++ destruct Hy as [->|[Hy Ky']]; [simpl in Eh; congruence|].
              destruct (OLD y Hy) as [Hy' _]. { intros ->. simpl in Eh. congruence. }
              apply P; auto.
    + (* the existing CANDIDATE_BEST stays *)
      apply Z.ltb_ge in Cmp. split; [|exact U1]. apply L1; [lia|].
      intros a Ha Eh Sa. rewrite (BU a Ha Eh Sa). exact Cmp.
  - (* NxRequested *)
    destruct C as [RL [NB [q [Hq [Oq Sq]]]]]. apply other_of_true in Oq. destruct Oq as [Hqh Hqp].
    assert (CQ : 0 < c l h REQUESTED) by (apply (c_pos_of l h _ q); auto).
    split; [|exact U1]. apply L1; [lia|].
    intros a Ha Eh Sa. exfalso.
    destruct (same_or_other _ _ _ _ _ U F Ha Eh) as [->|O]; [congruence|]. exact (NB a Ha O Sa).
  - (* NxCompleted: `it` becomes CANDIDATE_BEST *)
    destruct C as [RL [NB NQ]].
    assert (ZB : c l h CANDIDATE_BEST = 0) by (apply (c_zero_of_others l p h it); auto; congruence).
    assert (ZQ : c l h REQUESTED = 0) by (apply (c_zero_of_others l p h it); auto; congruence).
    split; [|apply set_st_uniq; auto]. split.
    + intros h'. destruct (Z.eq_dec h' h) as [->|N]; [|tx_other].
      constructor; rewrite !(c_set_st _ _ _ _ _ _ U1 F1); unfold l1; count_it U F D; lia.
    + intros a b Ha Hb Eh Sa Sb.
      apply (in_set_st p h _ l1 _ a U1 F1) in Ha. apply (in_set_st p h _ l1 _ b U1 F1) in Hb.
      destruct Hb as [->|[Hb Kb]]; [simpl in Sb; discriminate|].
      destruct (OLD b Hb) as [Hb' _]. { intros ->. rewrite key_ws in Kb by auto. discriminate. }
      destruct Ha as [->|[Ha Ka]].
      * simpl in Eh. change (prio_of (with_state (with_state it CANDIDATE_READY) CANDIDATE_BEST)) with (prio_of it).
        apply RL; auto. apply other_of_true. split; [congruence|].
        intros Ep. assert (is_key p h b = true) by (apply is_key_true; split; congruence). congruence.
      * destruct (OLD a Ha) as [Ha' _]. { intros ->. simpl in Sa. discriminate. }
        apply P; auto.
Qed.

(* ---------- ChangeAndReselect ---------- *)
Definition car_l (l : list ann) (p h : Z) (it : ann) (ns : tstate) : list ann :=
  let l1 := if is_selected it then
              match prev_ready_of_selected prio l it with
              | Some r => set_st (a_peer r) h CANDIDATE_BEST l
              | None => l
              end
            else l in
  set_st p h ns l1.

Lemma prev_ready_cases l it :
  match prev_ready_of_selected prio l it with
  | Some r => In r l /\ a_txhash r = a_txhash it /\ a_state r = CANDIDATE_READY /\
              forall x, In x l -> a_txhash x = a_txhash it -> a_state x = CANDIDATE_READY -> prio_of x <= prio_of r
  | None => (a_state it = REQUESTED /\ exists b, In b l /\ a_txhash b = a_txhash it /\ a_state b = CANDIDATE_BEST)
            \/ c l (a_txhash it) CANDIDATE_READY = 0
  end.
Proof.
  unfold prev_ready_of_selected.
  destruct (st_is REQUESTED it && existsb _ l) eqn:E.
  { left. apply andb_true_iff in E. destruct E as [E1 E2]. apply st_is_eq in E1. split; auto.
    apply existsb_exists in E2. destruct E2 as [b [Hb E2]]. apply andb_true_iff in E2. destruct E2 as [O S].
    apply other_of_true in O. apply st_is_eq in S. exists b. tauto. }
  clear E. destruct (argmax _ _) as [r|] eqn:A.
  - apply argmax_some in A. destruct A as [Hr Hmax]. apply filter_In in Hr. destruct Hr as [Hr Er].
    apply andb_true_iff in Er. destruct Er as [E1 E2]. apply has_txhash_true in E1. apply st_is_eq in E2.
    repeat split; auto. intros x Hx Ex Sx. apply Hmax. apply filter_In. split; auto.
    apply has_txhash_true in Ex. apply st_is_eq in Sx. rewrite Ex, Sx. reflexivity.
  - right. apply argmax_none in A. unfold c. rewrite <- cnt_length_filter.
    assert (E : filter (in_st (a_txhash it) CANDIDATE_READY) l
                = filter (fun a => has_txhash (a_txhash it) a && st_is CANDIDATE_READY a) l) by reflexivity.
    rewrite E, A. reflexivity.
Qed.

Lemma car_sched l p h it ns :
  uniq l -> find_ann p h l = Some it -> sched_ok l -> a_state it <> COMPLETED ->
  (ns = CANDIDATE_DELAYED \/
   (ns = COMPLETED /\ exists b, In b l /\ other_of p h b = true /\ a_state b <> COMPLETED)) ->
  sched_ok (car_l l p h it ns) /\ uniq (car_l l p h it ns).
Proof.
  intros U F [T P] NC NS.
  destruct (find_ann_some _ _ _ _ F) as [Hin [Hp Hh]].
  pose proof (T h) as [Tsel Tready Tcompl].
  pose proof (c_nonneg l h CANDIDATE_DELAYED). pose proof (c_nonneg l h CANDIDATE_READY).
  pose proof (c_nonneg l h CANDIDATE_BEST). pose proof (c_nonneg l h REQUESTED). pose proof (c_nonneg l h COMPLETED).
  assert (Cit : 0 < c l h (a_state it)) by (apply (c_pos_of l h _ it); auto).
  (* for ns = COMPLETED at least two announcements of the txhash are not COMPLETED *)
  assert (LIVE : ns = COMPLETED ->
                 2 <= c l h CANDIDATE_DELAYED + c l h CANDIDATE_READY + c l h CANDIDATE_BEST + c l h REQUESTED).
  { intros E. destruct NS as [NS|[_ [b [Hb [Ob Sb]]]]]; [congruence|]. rewrite <- cnt_live.
    apply other_of_true in Ob. destruct Ob as [Obh Obp].
    apply (cnt_two _ l it b); auto; [congruence| |]; unfold live_h.
    - apply has_txhash_true in Hh. rewrite Hh. apply st_is_neq in NC. rewrite NC. reflexivity.
    - apply has_txhash_true in Obh. rewrite Obh. apply st_is_neq in Sb. rewrite Sb. reflexivity. }
  assert (NSR : ns <> CANDIDATE_READY /\ ns <> CANDIDATE_BEST /\ ns <> REQUESTED).
  { destruct NS as [->|[-> _]]; repeat split; discriminate. }
  destruct NSR as [NS1 [NS2 NS3]].
  (* the simple case: only `it` changes, and either it was not selected or no CANDIDATE_READY exists *)
  assert (SIMPLE : (is_selected it = false \/ c l h CANDIDATE_READY = 0) ->
                   sched_ok (set_st p h ns l) /\ uniq (set_st p h ns l)).
  { intros Hc. split; [|apply set_st_uniq; auto]. split.
    - intros h'. destruct (Z.eq_dec h' h) as [->|N]; [|tx_other].
      assert (Hc' : (a_state it = CANDIDATE_DELAYED \/ a_state it = CANDIDATE_READY) \/ c l h CANDIDATE_READY = 0).
      { destruct Hc as [Hc|Hc]; [left|right; auto]. unfold is_selected, st_is in Hc.
        destruct (a_state it); simpl in Hc; auto; try discriminate. congruence. }
      constructor; rewrite !(c_set_st _ _ _ _ _ _ U F);
        destruct NS as [->|[-> _]]; destruct (a_state it) eqn:D; cbn [state_eqb b2z]; try specialize (LIVE eq_refl);
        try lia; try congruence; destruct Hc' as [[?|?]|?]; try discriminate; lia.
    - intros a b Ha Hb Eh Sa Sb.
      apply (in_set_st p h _ l _ a U F) in Ha. apply (in_set_st p h _ l _ b U F) in Hb.
      destruct Ha as [->|[Ha Ka]]; [simpl in Sa; congruence|].
      destruct Hb as [->|[Hb Kb]]; [simpl in Sb; congruence|].
      apply P; auto. }
  unfold car_l. destruct (is_selected it) eqn:Sel; [|apply SIMPLE; auto].
  pose proof (prev_ready_cases l it) as C. rewrite Hh in C.
  destruct (prev_ready_of_selected prio l it) as [r|].
  - destruct C as [Hr [Hrh [Sr Hmax]]].
    assert (Nr : r <> it). { intros ->. unfold is_selected, st_is in Sel. rewrite Sr in Sel. discriminate. }
    assert (Npr : a_peer r <> p).
    { intros E. apply Nr. apply (uniq_same_key l); auto. unfold key. congruence. }
    assert (Fr : find_ann (a_peer r) h l = Some r) by (rewrite <- Hrh; apply find_ann_in; auto).
    set (l1 := set_st (a_peer r) h CANDIDATE_BEST l).
    assert (U1 : uniq l1) by (apply set_st_uniq; auto).
    assert (F1 : find_ann p h l1 = Some it).
    { unfold l1. rewrite find_set_st_other; auto. intros E. inversion E. congruence. }
    assert (CR : 0 < c l h CANDIDATE_READY) by (apply (c_pos_of l h _ r); auto).
    assert (SelS : a_state it = CANDIDATE_BEST \/ a_state it = REQUESTED).
    { unfold is_selected, st_is in Sel. destruct (a_state it); simpl in Sel; auto; discriminate. }
    split; [|apply set_st_uniq; auto]. split.
    + intros h'. destruct (Z.eq_dec h' h) as [->|N]; [|tx_other].
      constructor; rewrite !(c_set_st _ _ _ _ _ _ U1 F1); unfold l1; rewrite !(c_set_st _ _ _ _ _ _ U Fr);
        rewrite Sr; destruct NS as [->|[-> _]]; destruct SelS as [D|D]; rewrite D in *; cbn [state_eqb b2z];
        try specialize (LIVE eq_refl); lia.
    + intros x y Hx Hy Eh Sx Sy.
      apply (in_set_st p h _ l1 _ x U1 F1) in Hx. apply (in_set_st p h _ l1 _ y U1 F1) in Hy.
      destruct Hx as [->|[Hx Kx]]; [simpl in Sx; congruence|].
      destruct Hy as [->|[Hy Ky]]; [simpl in Sy; congruence|].
      apply (in_set_st (a_peer r) h _ l _ x U Fr) in Hx. apply (in_set_st (a_peer r) h _ l _ y U Fr) in Hy.
      destruct Hy as [->|[Hy Ky']]; [simpl in Sy; discriminate|].
      destruct Hx as [->|[Hx Kx']].
      * change (prio_of (with_state r CANDIDATE_BEST)) with (prio_of r). simpl in Eh. apply Hmax; auto. congruence.
      * destruct (Z.eq_dec (a_txhash x) h) as [Exh|Nxh]; [|apply P; auto].
        exfalso. assert (x = it); [|subst x; rewrite (proj2 (is_key_true p h it)) in Kx by auto; discriminate].
        apply (sel_unique l h); auto. unfold is_selected. apply st_is_eq in Sx. rewrite Sx. reflexivity.
  - destruct C as [[Sq [b [Hb [Hbh Sb]]]]|Z]; [|apply SIMPLE; auto].
    exfalso. assert (0 < c l h CANDIDATE_BEST) by (apply (c_pos_of l h _ b); auto). rewrite Sq in Cit. lia.
Qed.

Definition mc_l (l : list ann) (p h : Z) (it : ann) : list ann :=
  if st_is COMPLETED it then l
  else if is_only_non_completed l p h then drop_tx h l
  else car_l l p h it COMPLETED.

Lemma drop_tx_sched h l : sched_ok l -> sched_ok (drop_tx h l).
Proof.
  intros [T P]. split.
  - intros h'. destruct (Z.eq_dec h' h) as [->|N].
    + constructor; rewrite !c_drop_tx_same; lia.
    + apply (tx_ok_of_counts l); auto. intros st. apply c_drop_tx_other; auto.
  - intros a b Ha Hb. unfold drop_tx in Ha, Hb. apply filter_In in Ha, Hb. apply P; tauto.
Qed.

Lemma mc_sched l p h it :
  uniq l -> find_ann p h l = Some it -> sched_ok l -> sched_ok (mc_l l p h it) /\ uniq (mc_l l p h it).
Proof.
  intros U F S. unfold mc_l. destruct (st_is COMPLETED it) eqn:E; [auto|].
  destruct (is_only_non_completed l p h) eqn:O.
  - split; [apply drop_tx_sched; auto | apply filter_uniq; auto].
  - apply car_sched; auto; [apply st_is_neq; auto|]. right. split; auto. apply only_non_completed_false; auto.
Qed.

Lemma promote_l_shape l p h it : uniq l -> find_ann p h l = Some it -> promote_shape l p h it (promote_l l p h it).
Proof.
  intros U F. unfold promote_l.
  assert (NE : next_after_ready prio (set_st p h CANDIDATE_READY l) p h (prio_of it) = next_after_ready prio l p h (prio_of it)).
  { unfold set_st. apply next_after_ready_eq. apply keeps_key_with_state. }
  rewrite NE. pose proof (next_after_ready_cases l p h (prio_of it)) as C.
  destruct (next_after_ready prio l p h (prio_of it)) as [| |b| |].
  - rewrite set_st_twice. apply PS_one. auto.
  - apply PS_one. auto.
  - destruct C as [_ [Hb [Ob Sb]]]. apply other_of_true in Ob. destruct Ob as [Hbh Hbp].
    destruct (prio_of b <? prio_of it); [|apply PS_one; auto].
    rewrite (set_st_comm (a_peer b) h CANDIDATE_READY p h CANDIDATE_READY) by (intros E; inversion E; congruence).
    rewrite set_st_twice. apply PS_swap; auto. rewrite <- Hbh. apply find_ann_in; auto.
  - apply PS_one. auto.
  - rewrite set_st_twice. apply PS_one. auto.
Qed.

Lemma car_l_shape l p h it ns : uniq l -> find_ann p h l = Some it -> car_shape l p h ns (car_l l p h it ns).
Proof.
  intros U F. unfold car_l. destruct (find_ann_some _ _ _ _ F) as [Hin [Hp Hh]].
  destruct (is_selected it) eqn:Sel; [|apply CS_one].
  pose proof (prev_ready_cases l it) as C. rewrite Hh in C.
  destruct (prev_ready_of_selected prio l it) as [r|]; [|apply CS_one].
  destruct C as [Hr [Hrh [Sr _]]]. apply CS_resel; auto.
  - rewrite <- Hrh. apply find_ann_in; auto.
  - intros E. assert (r = it) by (apply (uniq_same_key l); auto; unfold key; congruence). subst r.
    unfold is_selected, st_is in Sel. rewrite Sr in Sel. discriminate.
Qed.


End Inv.
