(* Bit streams (BitStreamWriter / BitStreamReader), Golomb-Rice coding and GCS filters:
   what is written is read back; every element of a set matches its filter. *)
From BV Require Import lib.Ints model.Gcs.
From Coq Require Import Arith PeanoNat Sorting.Sorted Sorting.Permutation.
Local Open Scope Z_scope.

(* ------------------------------------------------------------------ bits *)
Definition mbits (f : nat -> bool) (a k : nat) : list bool := map f (seq a k).
(* the first o bits of a byte, most significant first *)
Definition pbits (b : Z) (o : nat) : list bool := mbits (fun i => Z.testbit b (7 - Z.of_nat i)) 0 o.
(* bits o..7 of a byte *)
Definition rbits (b : Z) (o : nat) : list bool := mbits (fun i => Z.testbit b (7 - Z.of_nat i)) o (8 - o).
(* the low n bits of x, most significant first *)
Definition bits_msb (n : nat) (x : Z) : list bool := mbits (fun i => Z.testbit x (Z.of_nat n - 1 - Z.of_nat i)) 0 n.
Definition bytes_bits (l : list Z) : list bool := flat_map (fun b => pbits b 8) l.

Lemma mbits_app f a k1 k2 : mbits f a (k1 + k2) = mbits f a k1 ++ mbits f (a + k1) k2.
Proof. unfold mbits. rewrite seq_app, map_app. reflexivity. Qed.

Lemma mbits_ext f g a k : (forall i, (a <= i < a + k)%nat -> f i = g i) -> mbits f a k = mbits g a k.
Proof. intros E. unfold mbits. apply map_ext_in. intros i Hi. apply in_seq in Hi. apply E. exact Hi. Qed.

Lemma mbits_shift f a k : mbits f a k = mbits (fun i => f (a + i)%nat) 0 k.
Proof.
  unfold mbits. revert a. induction k as [|k IH]; intros a; [reflexivity|].
  cbn [seq map]. rewrite Nat.add_0_r. f_equal. rewrite IH. rewrite <- seq_shift, map_map.
  apply map_ext. intros i. f_equal. lia.
Qed.

Lemma mbits_length f a k : length (mbits f a k) = k.
Proof. unfold mbits. rewrite map_length, seq_length. reflexivity. Qed.

Lemma bytes_bits_app a b : bytes_bits (a ++ b) = bytes_bits a ++ bytes_bits b.
Proof. unfold bytes_bits. apply flat_map_app. Qed.

(* the low n bits, split after the k most significant ones *)
Lemma bits_msb_split_add k m x :
  bits_msb (k + m) x = mbits (fun i => Z.testbit x (Z.of_nat (k + m) - 1 - Z.of_nat i)) 0 k ++ bits_msb m x.
Proof.
  unfold bits_msb at 1. rewrite mbits_app. f_equal. cbn [plus]. rewrite mbits_shift. unfold bits_msb.
  apply mbits_ext. intros i Hi. f_equal. lia.
Qed.

Lemma bits_msb_split n k x : (k <= n)%nat ->
  bits_msb n x = mbits (fun i => Z.testbit x (Z.of_nat n - 1 - Z.of_nat i)) 0 k ++ bits_msb (n - k) x.
Proof.
  intros Hk. replace n with (k + (n - k))%nat by lia. rewrite bits_msb_split_add.
  replace (k + (n - k) - k)%nat with (n - k)%nat by lia. reflexivity.
Qed.

Lemma bits_msb_mod n x : bits_msb n (x mod 2 ^ Z.of_nat n) = bits_msb n x.
Proof. unfold bits_msb. apply mbits_ext. intros i Hi. apply Z.mod_pow2_bits_low. lia. Qed.

(* ------------------------------------------------------------------ BitStreamWriter *)
Definition wbits (w : bitwriter) : list bool :=
  bytes_bits (bw_out w) ++ pbits (bw_buffer w) (Z.to_nat (bw_offset w)).
Definition WInv (w : bitwriter) : Prop :=
  0 <= bw_offset w < 8 /\ forall j, 0 <= j < 8 - bw_offset w -> Z.testbit (bw_buffer w) j = false.

Lemma WInv_init : WInv bw_init.
Proof. split; [cbn; lia | intros j _; apply Z.bits_0]. Qed.

Lemma testbit_wrapu8' x k : 0 <= k < 8 -> Z.testbit (wrapu8 x) k = Z.testbit x k.
Proof. intros Hk. unfold wrapu8, wrapu. apply Z.mod_pow2_bits_low. lia. Qed.

(* bit j of the byte after one round of the Write loop *)
Lemma write_round_bit buffer data n o j : 0 <= o < 8 -> 0 < n <= 64 -> 0 <= j < 8 ->
  Z.testbit (wrapu8 (Z.lor buffer (Z.shiftr (wrapu64 (Z.shiftl data (64 - n))) (64 - 8 + o)))) j =
  orb (Z.testbit buffer j) (if j <? 8 - o then Z.testbit data (j + o + n - 8) else false).
Proof.
  intros Ho Hn Hj. rewrite testbit_wrapu8' by lia. rewrite Z.lor_spec. f_equal.
  rewrite Z.shiftr_spec by lia. unfold wrapu64, wrapu.
  destruct (j <? 8 - o) eqn:E.
  - apply Z.ltb_lt in E. rewrite Z.mod_pow2_bits_low by lia. rewrite Z.shiftl_spec by lia. f_equal. lia.
  - apply Z.ltb_ge in E. apply Z.mod_pow2_bits_high. lia.
Qed.

Lemma write_round w data n : WInv w -> 0 < n <= 64 ->
  let o := bw_offset w in
  let bits := Z.min (8 - o) n in
  let buffer := wrapu8 (Z.lor (bw_buffer w) (Z.shiftr (wrapu64 (Z.shiftl data (64 - n))) (64 - 8 + o))) in
  let w1 := {| bw_out := bw_out w; bw_buffer := buffer; bw_offset := o + bits |} in
  let w2 := if bw_offset w1 =? 8 then bw_flush w1 else w1 in
  WInv w2 /\
  wbits w2 = wbits w ++ mbits (fun i => Z.testbit data (n - 1 - Z.of_nat i)) 0 (Z.to_nat bits).
Proof.
  intros [Ho Hz] Hn o bits buffer w1 w2.
  assert (Hbits : 0 < bits <= 8 - o) by (unfold bits; lia).
  assert (Hbn : bits <= n) by (unfold bits; lia).
  assert (Hbit : forall j, 0 <= j < 8 -> Z.testbit buffer j =
            orb (Z.testbit (bw_buffer w) j) (if j <? 8 - o then Z.testbit data (j + o + n - 8) else false)).
  { intros j Hj. apply write_round_bit; lia. }
  (* the partial byte after the round *)
  assert (Hp : pbits buffer (Z.to_nat (o + bits)) =
               pbits (bw_buffer w) (Z.to_nat o) ++ mbits (fun i => Z.testbit data (n - 1 - Z.of_nat i)) 0 (Z.to_nat bits)).
  { unfold pbits. replace (Z.to_nat (o + bits)) with (Z.to_nat o + Z.to_nat bits)%nat by lia.
    rewrite mbits_app. f_equal.
    - apply mbits_ext. intros i Hi. rewrite Hbit by lia.
      assert (E : 7 - Z.of_nat i <? 8 - o = false) by (apply Z.ltb_ge; lia). rewrite E. apply orb_false_r.
    - cbn [plus]. rewrite mbits_shift. apply mbits_ext. intros i Hi. rewrite Hbit by lia.
      assert (E : 7 - Z.of_nat (Z.to_nat o + i) <? 8 - o = true) by (apply Z.ltb_lt; lia). rewrite E.
      rewrite Hz by lia. cbn [orb]. f_equal. lia. }
  unfold w2. destruct (bw_offset w1 =? 8) eqn:E8.
  - apply Z.eqb_eq in E8. unfold w1 in E8. cbn [bw_offset] in E8. unfold bw_flush, w1. cbn [bw_offset].
    assert (E0 : o + bits =? 0 = false) by (apply Z.eqb_neq; lia). rewrite E0. split.
    + split; [cbn; lia | intros j _; apply Z.bits_0].
    + unfold wbits. cbn [bw_out bw_buffer bw_offset]. rewrite bytes_bits_app. cbn [bytes_bits flat_map].
      rewrite app_nil_r. change (pbits 0 (Z.to_nat 0)) with (@nil bool). rewrite app_nil_r.
      rewrite <- app_assoc. f_equal. etransitivity; [|exact Hp]. rewrite E8. reflexivity.
  - apply Z.eqb_neq in E8. unfold w1 in E8. cbn [bw_offset] in E8. unfold w1. split.
    + split; [cbn [bw_offset]; lia|]. cbn [bw_offset bw_buffer]. intros j Hj. rewrite Hbit by lia.
      rewrite Hz by lia. cbn [orb]. destruct (j <? 8 - o); [|reflexivity]. apply Z.testbit_neg_r. unfold bits in *. lia.
    + unfold wbits. cbn [bw_out bw_buffer bw_offset]. rewrite Hp, app_assoc. reflexivity.
Qed.

Lemma write_loop_spec data : forall fuel n w, WInv w -> 0 <= n <= 64 -> (Z.to_nat n <= fuel)%nat ->
  exists w', bw_write_loop fuel w data n = Some w' /\ WInv w' /\ wbits w' = wbits w ++ bits_msb (Z.to_nat n) data.
Proof.
  induction fuel as [|fuel IH]; intros n w HI Hn Hf.
  - assert (n = 0) by lia. subst n. exists w. cbn. split; [reflexivity|]. split; [exact HI|]. rewrite app_nil_r. reflexivity.
  - cbn [bw_write_loop]. destruct (n <=? 0) eqn:E0.
    + apply Z.leb_le in E0. assert (n = 0) by lia. subst n. exists w. split; [reflexivity|]. split; [exact HI|].
      cbn. rewrite app_nil_r. reflexivity.
    + apply Z.leb_gt in E0. destruct (write_round w data n HI ltac:(lia)) as [HI2 Hb2]. cbn zeta in HI2, Hb2.
      set (bits := Z.min (8 - bw_offset w) n) in *.
      assert (Hbits : 0 < bits <= n) by (destruct HI as [? _]; unfold bits; lia).
      match goal with |- exists w', bw_write_loop fuel ?W data ?N = _ /\ _ => destruct (IH N W HI2 ltac:(lia) ltac:(lia)) as (w' & E & HI' & Hb') end.
      exists w'. split; [exact E|]. split; [exact HI'|]. rewrite Hb', Hb2, <- app_assoc. f_equal.
      rewrite (bits_msb_split (Z.to_nat n) (Z.to_nat bits) data) by lia. f_equal.
      * apply mbits_ext. intros i Hi. f_equal. lia.
      * f_equal. lia.
Qed.

Lemma bw_write_spec w data n : WInv w -> 0 <= n <= 64 ->
  exists w', bw_write w data n = Some w' /\ WInv w' /\ wbits w' = wbits w ++ bits_msb (Z.to_nat n) data.
Proof.
  intros HI Hn. unfold bw_write.
  assert (E : (n <? 0) || (n >? 64) = false).
  { apply orb_false_iff. split; [apply Z.ltb_ge; lia | destruct (Z.gtb_spec n 64); [lia | reflexivity]]. }
  rewrite E. apply write_loop_spec; auto.
Qed.

(* ------------------------------------------------------------------ BitStreamReader *)
Definition rdbits (r : bitreader) : list bool :=
  rbits (br_buffer r) (Z.to_nat (br_offset r)) ++ bytes_bits (br_in r).
Definition RInv (r : bitreader) : Prop := 0 <= br_offset r <= 8.

Lemma rdbits_init bytes : rdbits (br_init bytes) = bytes_bits bytes.
Proof. reflexivity. Qed.
Lemma RInv_init bytes : RInv (br_init bytes).
Proof. unfold RInv. cbn. lia. Qed.

Lemma skipn_add {A : Type} : forall (a b : nat) (L : list A), skipn b (skipn a L) = skipn (a + b) L.
Proof.
  induction a as [|a IH]; intros b L; [reflexivity|].
  destruct L as [|x L]; [cbn; apply skipn_nil|]. cbn. apply IH.
Qed.

Lemma nth_skipn {A : Type} (d : A) : forall k i (l : list A), nth i (skipn k l) d = nth (i + k) l d.
Proof.
  induction k as [|k IH]; intros i l; [rewrite Nat.add_0_r; reflexivity|].
  destruct l as [|x l]; [destruct i; reflexivity|]. cbn [skipn]. rewrite IH. rewrite Nat.add_succ_r. reflexivity.
Qed.

Lemma nth_mbits f a k i : (i < k)%nat -> nth i (mbits f a k) false = f (a + i)%nat.
Proof.
  intros Hi. unfold mbits. rewrite (nth_indep _ false (f 0%nat)) by (rewrite map_length, seq_length; exact Hi).
  rewrite map_nth. rewrite seq_nth by exact Hi. reflexivity.
Qed.

Lemma rbits_split b o k : (o + k <= 8)%nat -> rbits b o = mbits (fun i => Z.testbit b (7 - Z.of_nat i)) o k ++ rbits b (o + k).
Proof.
  intros H. unfold rbits. replace (8 - o)%nat with (k + (8 - (o + k)))%nat by lia. rewrite mbits_app. reflexivity.
Qed.

(* bit j of the accumulator after one round of the Read loop *)
Lemma read_round_bit data buffer o k j : 0 <= o -> 0 < k <= 8 - o -> 0 <= j ->
  (forall i, 64 - k <= i -> Z.testbit data i = false) ->
  Z.testbit (Z.lor (wrapu64 (Z.shiftl data k)) (Z.shiftr (wrapu8 (Z.shiftl buffer o)) (8 - k))) j =
  if j <? k then Z.testbit buffer (j + 8 - k - o) else Z.testbit data (j - k).
Proof.
  intros Ho Hk Hj Hhigh. rewrite Z.lor_spec, Z.shiftr_spec by lia.
  unfold wrapu64, wrapu8, wrapu.
  destruct (j <? k) eqn:E.
  - apply Z.ltb_lt in E. rewrite Z.mod_pow2_bits_low by lia. rewrite Z.shiftl_spec by lia.
    rewrite Z.testbit_neg_r by lia. cbn [orb].
    rewrite Z.mod_pow2_bits_low by lia. rewrite Z.shiftl_spec by lia. f_equal. lia.
  - apply Z.ltb_ge in E. rewrite (Z.mod_pow2_bits_high (Z.shiftl buffer o) 8) by lia. rewrite orb_false_r.
    destruct (Z.lt_ge_cases j 64) as [Hlt|Hge].
    + rewrite Z.mod_pow2_bits_low by lia. apply Z.shiftl_spec. lia.
    + rewrite Z.mod_pow2_bits_high by lia. symmetry. apply Hhigh. lia.
Qed.

Lemma read_loop_spec : forall fuel n r data, RInv r -> 0 <= n <= 64 -> (Z.to_nat n <= fuel)%nat ->
  (Z.to_nat n <= length (rdbits r))%nat ->
  (forall i, 64 - n <= i -> Z.testbit data i = false) ->
  exists v r', br_read_loop fuel r data n = Some (v, r') /\ RInv r' /\
    rdbits r' = skipn (Z.to_nat n) (rdbits r) /\
    forall j, 0 <= j -> Z.testbit v j = if j <? n then nth (Z.to_nat (n - 1 - j)) (rdbits r) false else Z.testbit data (j - n).
Proof.
  induction fuel as [|fuel IH]; intros n r data HI Hn Hf Hlen Hhigh.
  - assert (n = 0) by lia. subst n. exists data, r. cbn. split; [reflexivity|]. split; [exact HI|]. split; [reflexivity|].
    intros j Hj. assert (E : j <? 0 = false) by (apply Z.ltb_ge; lia). rewrite E, Z.sub_0_r. reflexivity.
  - cbn [br_read_loop]. destruct (n <=? 0) eqn:E0.
    + apply Z.leb_le in E0. assert (n = 0) by lia. subst n. exists data, r. split; [reflexivity|]. split; [exact HI|]. split; [reflexivity|].
      intros j Hj. assert (E : j <? 0 = false) by (apply Z.ltb_ge; lia). rewrite E, Z.sub_0_r. reflexivity.
    + apply Z.leb_gt in E0.
      (* refill *)
      assert (Hre : exists r1, (if br_offset r =? 8
                    then match br_in r with [] => None | b :: rest => Some {| br_in := rest; br_buffer := b; br_offset := 0 |} end
                    else Some r) = Some r1 /\ 0 <= br_offset r1 < 8 /\ rdbits r1 = rdbits r).
      { destruct (br_offset r =? 8) eqn:E8.
        - apply Z.eqb_eq in E8. destruct (br_in r) as [|b rest] eqn:Ein.
          + exfalso. unfold rdbits in Hlen. rewrite E8, Ein in Hlen.
            change (rbits (br_buffer r) (Z.to_nat 8)) with (@nil bool) in Hlen. cbn [app bytes_bits flat_map length] in Hlen. lia.
          + eexists. split; [reflexivity|]. split; [cbn; lia|]. unfold rdbits. cbn [br_in br_buffer br_offset].
            rewrite E8, Ein. change (rbits (br_buffer r) (Z.to_nat 8)) with (@nil bool). cbn [app bytes_bits flat_map]. reflexivity.
        - apply Z.eqb_neq in E8. exists r. split; [reflexivity|]. split; [unfold RInv in HI; lia | reflexivity]. }
      destruct Hre as (r1 & Ere & Ho1 & Eb1). rewrite Ere. cbn zeta.
      set (o := br_offset r1) in *. set (k := Z.min (8 - o) n).
      assert (Hk : 0 < k <= 8 - o) by (unfold k; lia). assert (Hkn : k <= n) by (unfold k; lia).
      set (data1 := Z.lor (wrapu64 (Z.shiftl data k)) (Z.shiftr (wrapu8 (Z.shiftl (br_buffer r1) o)) (8 - k))).
      set (r2 := {| br_in := br_in r1; br_buffer := br_buffer r1; br_offset := o + k |}).
      assert (Hbit1 : forall j, 0 <= j -> Z.testbit data1 j = if j <? k then Z.testbit (br_buffer r1) (j + 8 - k - o) else Z.testbit data (j - k)).
      { intros j Hj. apply read_round_bit; try lia. intros i Hi. apply Hhigh. lia. }
      assert (Esplit : rdbits r1 = mbits (fun i => Z.testbit (br_buffer r1) (7 - Z.of_nat i)) (Z.to_nat o) (Z.to_nat k) ++ rdbits r2).
      { unfold rdbits, r2. cbn [br_in br_buffer br_offset]. fold o.
        rewrite (rbits_split (br_buffer r1) (Z.to_nat o) (Z.to_nat k)) by lia. rewrite <- app_assoc.
        replace (Z.to_nat (o + k)) with (Z.to_nat o + Z.to_nat k)%nat by lia. reflexivity. }
      assert (Hskip : rdbits r2 = skipn (Z.to_nat k) (rdbits r1)).
      { rewrite Esplit. rewrite skipn_app, mbits_length, Nat.sub_diag. cbn [skipn].
        rewrite skipn_all2 by (rewrite mbits_length; lia). reflexivity. }
      destruct (IH (n - k) r2 data1) as (v & r' & Ev & HI' & Eb' & Hv).
      * unfold RInv, r2. cbn. lia.
      * lia.
      * lia.
      * rewrite Hskip, skipn_length, Eb1. lia.
      * intros i Hi. rewrite Hbit1 by lia. assert (E : i <? k = false) by (apply Z.ltb_ge; lia). rewrite E. apply Hhigh. lia.
      * exists v, r'. split; [exact Ev|]. split; [exact HI'|]. split.
        -- rewrite Eb', Hskip, Eb1, skipn_add. f_equal. lia.
        -- intros j Hj. rewrite Hv by exact Hj. rewrite <- Eb1.
           destruct (j <? n - k) eqn:E1.
           ++ apply Z.ltb_lt in E1. assert (E2 : j <? n = true) by (apply Z.ltb_lt; lia). rewrite E2.
              rewrite Hskip, nth_skipn. f_equal. lia.
           ++ apply Z.ltb_ge in E1. rewrite Hbit1 by lia.
              destruct (j <? n) eqn:E2.
              ** apply Z.ltb_lt in E2. assert (E3 : j - (n - k) <? k = true) by (apply Z.ltb_lt; lia). rewrite E3.
                 rewrite Esplit. rewrite app_nth1 by (rewrite mbits_length; lia). rewrite nth_mbits by lia.
                 f_equal. lia.
              ** apply Z.ltb_ge in E2. assert (E3 : j - (n - k) <? k = false) by (apply Z.ltb_ge; lia). rewrite E3.
                 f_equal. lia.
Qed.

Lemma br_read_spec r n : RInv r -> 0 <= n <= 64 -> (Z.to_nat n <= length (rdbits r))%nat ->
  exists v r', br_read r n = Some (v, r') /\ RInv r' /\ rdbits r' = skipn (Z.to_nat n) (rdbits r) /\
    forall j, 0 <= j -> Z.testbit v j = if j <? n then nth (Z.to_nat (n - 1 - j)) (rdbits r) false else false.
Proof.
  intros HI Hn Hlen. unfold br_read.
  assert (E : (n <? 0) || (n >? 64) = false).
  { apply orb_false_iff. split; [apply Z.ltb_ge; lia | destruct (Z.gtb_spec n 64); [lia | reflexivity]]. }
  rewrite E. destruct (read_loop_spec (Z.to_nat n) n r 0 HI Hn (le_n _) Hlen) as (v & r' & Ev & HI' & Eb & Hv).
  - intros i _. apply Z.bits_0.
  - exists v, r'. split; [exact Ev|]. split; [exact HI'|]. split; [exact Eb|].
    intros j Hj. rewrite Hv by exact Hj. destruct (j <? n); [reflexivity | apply Z.bits_0].
Qed.

(* reading n bits where the stream starts with the low n bits of x gives x mod 2^n *)
Lemma br_read_written r n x rest : RInv r -> 0 <= n <= 64 -> rdbits r = bits_msb (Z.to_nat n) x ++ rest ->
  exists r', br_read r n = Some (x mod 2 ^ n, r') /\ RInv r' /\ rdbits r' = rest.
Proof.
  intros HI Hn Eb.
  assert (Hlen : (Z.to_nat n <= length (rdbits r))%nat).
  { rewrite Eb, app_length. unfold bits_msb. rewrite mbits_length. lia. }
  destruct (br_read_spec r n HI Hn Hlen) as (v & r' & Ev & HI' & Eb' & Hv).
  assert (v = x mod 2 ^ n).
  { apply Z.bits_inj'. intros j Hj. rewrite Hv by exact Hj.
    destruct (j <? n) eqn:E.
    - apply Z.ltb_lt in E. rewrite Z.mod_pow2_bits_low by lia. rewrite Eb.
      rewrite app_nth1 by (unfold bits_msb; rewrite mbits_length; lia).
      unfold bits_msb. rewrite nth_mbits by lia. f_equal. lia.
    - apply Z.ltb_ge in E. rewrite Z.mod_pow2_bits_high by lia. reflexivity. }
  subst v. exists r'. split; [exact Ev|]. split; [exact HI'|].
  rewrite Eb', Eb. rewrite skipn_app. unfold bits_msb at 1 2. rewrite mbits_length, Nat.sub_diag. cbn [skipn].
  rewrite skipn_all2 by (rewrite mbits_length; lia). reflexivity.
Qed.

(* ------------------------------------------------------------------ Golomb-Rice *)
Definition gbits (P x : Z) : list bool :=
  repeat true (Z.to_nat (Z.shiftr x P)) ++ [false] ++ bits_msb (Z.to_nat P) x.

Lemma bits_msb_ones n : (n <= 64)%nat -> bits_msb n UINT64_MAX = repeat true n.
Proof.
  intros Hn. unfold bits_msb, mbits.
  assert (G : forall (l : list nat), (forall i, In i l -> (i < n)%nat) ->
              map (fun i => Z.testbit UINT64_MAX (Z.of_nat n - 1 - Z.of_nat i)) l = repeat true (length l)).
  { induction l as [|a l IH]; intros Hl; [reflexivity|]. cbn [map length repeat]. f_equal.
    - change UINT64_MAX with (Z.ones 64). apply Z.ones_spec_low. specialize (Hl a (or_introl eq_refl)). lia.
    - apply IH. intros i Hi. apply Hl. right; exact Hi. }
  rewrite G by (intros i Hi; apply in_seq in Hi; lia). rewrite seq_length. reflexivity.
Qed.

Lemma golomb_unary_spec : forall fuel q w, WInv w -> 0 <= q <= 64 * Z.of_nat fuel ->
  exists w', golomb_unary fuel w q = Some w' /\ WInv w' /\ wbits w' = wbits w ++ repeat true (Z.to_nat q).
Proof.
  induction fuel as [|fuel IH]; intros q w HI Hq.
  - assert (q = 0) by lia. subst q. exists w. cbn. rewrite app_nil_r. auto.
  - cbn [golomb_unary]. destruct (q <=? 0) eqn:E0.
    + apply Z.leb_le in E0. assert (q = 0) by lia. subst q. exists w. cbn. rewrite app_nil_r. auto.
    + apply Z.leb_gt in E0. set (nbits := if q <=? 64 then q else 64).
      assert (Hnb : 0 < nbits <= 64 /\ nbits <= q) by (unfold nbits; destruct (Z.leb_spec q 64); lia).
      destruct (bw_write_spec w UINT64_MAX nbits HI ltac:(lia)) as (w1 & E1 & HI1 & Hb1). rewrite E1.
      destruct (IH (q - nbits) w1 HI1) as (w' & E' & HI' & Hb').
      { unfold nbits in *. destruct (Z.leb_spec q 64); lia. }
      exists w'. split; [exact E'|]. split; [exact HI'|].
      rewrite Hb', Hb1, <- app_assoc. f_equal. rewrite bits_msb_ones by lia. rewrite <- repeat_app. f_equal. lia.
Qed.

Lemma golomb_encode_spec w P x : WInv w -> 0 <= P < 64 -> 0 <= x ->
  exists w', golomb_rice_encode w P x = Some w' /\ WInv w' /\ wbits w' = wbits w ++ gbits P x.
Proof.
  intros HI HP Hx. unfold golomb_rice_encode.
  assert (E : (P <? 0) || (P >=? 64) = false).
  { apply orb_false_iff. split; [apply Z.ltb_ge; lia | destruct (Z.geb_spec P 64); [lia | reflexivity]]. }
  rewrite E. set (q := Z.shiftr x P).
  assert (Hq : 0 <= q) by (apply Z.shiftr_nonneg; exact Hx).
  destruct (golomb_unary_spec (Z.to_nat (q / 64 + 1)) q w HI) as (w1 & E1 & HI1 & Hb1).
  { split; [exact Hq|]. rewrite Z2Nat.id by (assert (0 <= q / 64) by (apply Z.div_pos; lia); lia).
    pose proof (Z.div_mod q 64 ltac:(lia)). pose proof (Z.mod_pos_bound q 64 ltac:(lia)). lia. }
  rewrite E1.
  destruct (bw_write_spec w1 0 1 HI1 ltac:(lia)) as (w2 & E2 & HI2 & Hb2). rewrite E2.
  destruct (bw_write_spec w2 x P HI2 ltac:(lia)) as (w3 & E3 & HI3 & Hb3). rewrite E3.
  exists w3. split; [reflexivity|]. split; [exact HI3|].
  rewrite Hb3, Hb2, Hb1. unfold gbits. fold q. rewrite <- !app_assoc. reflexivity.
Qed.

Lemma unary_read_spec : forall a fuel r q0 rest, RInv r -> (a < fuel)%nat -> 0 <= q0 -> q0 + Z.of_nat a < 2 ^ 64 ->
  rdbits r = repeat true a ++ false :: rest ->
  exists r', golomb_unary_read fuel r q0 = Some (q0 + Z.of_nat a, r') /\ RInv r' /\ rdbits r' = rest.
Proof.
  induction a as [|a IH]; intros fuel r q0 rest HI Hf Hq0 Hq Eb; (destruct fuel as [|fuel]; [lia|]); cbn [golomb_unary_read].
  - cbn [repeat app] in Eb.
    destruct (br_read_written r 1 0 rest HI ltac:(lia)) as (r' & E & HI' & Eb'); [exact Eb|].
    rewrite E. change (0 mod 2 ^ 1) with 0. cbn. exists r'. rewrite Z.add_0_r. auto.
  - cbn [repeat app] in Eb.
    destruct (br_read_written r 1 1 (repeat true a ++ false :: rest) HI ltac:(lia)) as (r1 & E & HI1 & Eb1); [exact Eb|].
    rewrite E. change (1 mod 2 ^ 1) with 1. cbn [Z.eqb Pos.eqb].
    assert (Ew : wrapu64 (q0 + 1) = q0 + 1) by (unfold wrapu64; apply wrapu_id; lia). rewrite Ew.
    destruct (IH fuel r1 (q0 + 1) rest HI1 ltac:(lia) ltac:(lia) ltac:(lia) Eb1) as (r' & E' & HI' & Eb').
    exists r'. rewrite E'. split; [f_equal; f_equal; lia | auto].
Qed.

Lemma golomb_decode_spec fuel r P x rest : RInv r -> 0 <= P < 64 -> 0 <= x < 2 ^ 64 ->
  (Z.to_nat (Z.shiftr x P) < fuel)%nat ->
  rdbits r = gbits P x ++ rest ->
  exists r', golomb_rice_decode_fuel fuel r P = Some (x, r') /\ RInv r' /\ rdbits r' = rest.
Proof.
  intros HI HP Hx Hf Eb. unfold golomb_rice_decode_fuel.
  assert (E : (P <? 0) || (P >=? 64) = false).
  { apply orb_false_iff. split; [apply Z.ltb_ge; lia | destruct (Z.geb_spec P 64); [lia | reflexivity]]. }
  rewrite E. set (q := Z.shiftr x P) in *.
  assert (Hq : 0 <= q) by (apply Z.shiftr_nonneg; lia).
  assert (Hqx : q <= x).
  { unfold q. rewrite Z.shiftr_div_pow2 by lia. apply Z.div_le_upper_bound; [apply Z.pow_pos_nonneg; lia|].
    assert (0 < 2 ^ P) by (apply Z.pow_pos_nonneg; lia). nia. }
  unfold gbits in Eb. fold q in Eb. rewrite <- !app_assoc in Eb. cbn [app] in Eb.
  destruct (unary_read_spec (Z.to_nat q) fuel r 0 _ HI Hf ltac:(lia) ltac:(lia) Eb) as (r1 & E1 & HI1 & Eb1).
  rewrite E1. rewrite Z.add_0_l, Z2Nat.id by lia.
  destruct (br_read_written r1 P x rest HI1 ltac:(lia) Eb1) as (r2 & E2 & HI2 & Eb2). rewrite E2.
  exists r2. split; [|auto]. f_equal. f_equal.
  assert (Hpow : 0 < 2 ^ P) by (apply Z.pow_pos_nonneg; lia).
  assert (Esum : Z.shiftl q P + x mod 2 ^ P = x).
  { unfold q. rewrite Z.shiftl_mul_pow2, Z.shiftr_div_pow2 by lia. pose proof (Z.div_mod x (2 ^ P) ltac:(lia)). lia. }
  assert (Hsl : 0 <= Z.shiftl q P <= x).
  { split; [apply Z.shiftl_nonneg; lia|]. pose proof (Z.mod_pos_bound x (2 ^ P) Hpow). lia. }
  unfold wrapu64. rewrite (wrapu_id 64 (Z.shiftl q P)) by lia. rewrite Esum. apply wrapu_id. lia.
Qed.

(* ------------------------------------------------------------------ sequences of deltas *)
Section GcsProofs.
Variable K : Type.
Variable sip : K -> Z.
Variable P : Z.
Variable M : Z.
Hypothesis P_range : 0 <= P < 64.

(* last <= v1 <= v2 <= ... < 2^64 *)
Fixpoint chain (last : Z) (vs : list Z) : Prop :=
  match vs with [] => True | v :: r => last <= v < 2 ^ 64 /\ chain v r end.
Fixpoint dbits (last : Z) (vs : list Z) : list bool :=
  match vs with [] => [] | v :: r => gbits P (v - last) ++ dbits v r end.

Lemma chain_ge : forall vs last x, chain last vs -> In x vs -> last <= x.
Proof.
  induction vs as [|v vs IH]; intros last x Hc Hin; [destruct Hin|].
  destruct Hc as [Hv Hc]. destruct Hin as [<-|Hin]; [lia|]. specialize (IH v x Hc Hin). lia.
Qed.

Lemma encode_deltas_spec : forall vs w last, WInv w -> 0 <= last -> chain last vs ->
  exists w', encode_deltas P w last vs = Some w' /\ WInv w' /\ wbits w' = wbits w ++ dbits last vs.
Proof.
  induction vs as [|v vs IH]; intros w last HI Hl Hc.
  - exists w. cbn. rewrite app_nil_r. auto.
  - destruct Hc as [Hv Hc]. cbn [encode_deltas dbits].
    assert (Ew : wrapu64 (v - last) = v - last) by (unfold wrapu64; apply wrapu_id; lia). rewrite Ew.
    destruct (golomb_encode_spec w P (v - last) HI P_range ltac:(lia)) as (w1 & E1 & HI1 & Hb1). rewrite E1.
    destruct (IH w1 v HI1 ltac:(lia) Hc) as (w' & E' & HI' & Hb'). exists w'. split; [exact E'|]. split; [exact HI'|].
    rewrite Hb', Hb1, <- app_assoc. reflexivity.
Qed.

Lemma flush_bits w : WInv w -> exists pad, bytes_bits (bw_out (bw_flush w)) = wbits w ++ pad.
Proof.
  intros [Ho Hz]. unfold bw_flush, wbits. destruct (bw_offset w =? 0) eqn:E.
  - apply Z.eqb_eq in E. exists []. rewrite E. change (pbits (bw_buffer w) (Z.to_nat 0)) with (@nil bool). rewrite !app_nil_r. reflexivity.
  - apply Z.eqb_neq in E. cbn [bw_out]. rewrite bytes_bits_app. cbn [bytes_bits flat_map]. rewrite app_nil_r.
    exists (mbits (fun i => Z.testbit (bw_buffer w) (7 - Z.of_nat i)) (Z.to_nat (bw_offset w)) (8 - Z.to_nat (bw_offset w))).
    rewrite <- app_assoc. f_equal. unfold pbits. replace 8%nat with (Z.to_nat (bw_offset w) + (8 - Z.to_nat (bw_offset w)))%nat at 1 by lia.
    apply mbits_app.
Qed.

Lemma bytes_bits_length l : length (bytes_bits l) = (8 * length l)%nat.
Proof.
  induction l as [|b l IH]; [reflexivity|]. unfold bytes_bits in *. cbn [flat_map]. rewrite app_length, IH.
  unfold pbits. rewrite mbits_length. cbn [length]. lia.
Qed.

Lemma gbits_length x : 0 <= x -> (Z.to_nat (Z.shiftr x P) < length (gbits P x))%nat.
Proof. intros Hx. unfold gbits. rewrite app_length, repeat_length. cbn [app length]. lia. Qed.

(* the match loop finds a value that is in the (sorted) coded sequence *)
Lemma match_loop_finds : forall vs last r fuel hq rest, RInv r -> 0 <= last -> chain last vs -> In hq vs ->
  rdbits r = dbits last vs ++ rest -> (length (rdbits r) < fuel)%nat ->
  match_loop P fuel (length vs) r last [hq] = Some true.
Proof.
  induction vs as [|v vs IH]; intros last r fuel hq rest HI Hl Hc Hin Eb Hf; [destruct Hin|].
  destruct Hc as [Hv Hc]. cbn [length match_loop]. cbn [dbits] in Eb. rewrite <- app_assoc in Eb.
  assert (Hq : (Z.to_nat (Z.shiftr (v - last) P) < fuel)%nat).
  { pose proof (gbits_length (v - last) ltac:(lia)) as Hg. rewrite Eb, app_length in Hf. lia. }
  destruct (golomb_decode_spec fuel r P (v - last) _ HI P_range ltac:(lia) Hq Eb) as (r1 & E1 & HI1 & Eb1).
  rewrite E1. assert (Ew : wrapu64 (last + (v - last)) = v) by (unfold wrapu64; rewrite wrapu_id by lia; lia). rewrite Ew.
  cbn [match_advance]. destruct (hq =? v) eqn:Eq; [reflexivity|].
  apply Z.eqb_neq in Eq. destruct Hin as [->|Hin]; [congruence|].
  pose proof (chain_ge vs v hq Hc Hin) as Hge.
  assert (Egt : hq >? v = true) by (apply Z.gtb_lt; lia). rewrite Egt.
  apply (IH v r1 fuel hq rest HI1 ltac:(lia) Hc Hin Eb1).
  rewrite Eb1. rewrite Eb, app_length in Hf. lia.
Qed.

Lemma fast_range64_range x n : 0 <= fast_range64 x n < 2 ^ 64.
Proof.
  unfold fast_range64, wrapu64, wrapu. rewrite Z.shiftr_div_pow2 by lia.
  pose proof (Z.mod_pos_bound x (2 ^ 64) ltac:(lia)). pose proof (Z.mod_pos_bound n (2 ^ 64) ltac:(lia)).
  split; [apply Z.div_pos; [nia|lia]|]. apply Z.div_lt_upper_bound; [lia|]. nia.
Qed.

Lemma sorted_chain : forall vs last, StronglySorted (fun a b => is_true (Z.leb a b)) vs ->
  (forall v, In v vs -> last <= v < 2 ^ 64) -> chain last vs.
Proof.
  induction vs as [|a vs IH]; intros last Hs Hb; [exact I|].
  inversion Hs as [|? ? Hs' Hall]; subst. cbn [chain]. split; [apply Hb; left; reflexivity|].
  apply IH; [exact Hs'|]. intros v Hv. split.
  - rewrite Forall_forall in Hall. specialize (Hall v Hv). apply Z.leb_le in Hall. exact Hall.
  - apply Hb. right; exact Hv.
Qed.

(* every element of the set matches its own filter *)
Theorem gcs_match_inserted (elements : list K) (e : K) :
  Z.of_nat (length elements) <= UINT32_MAX -> In e elements ->
  exists g, gcs_build K sip P M elements = Some g /\ gcs_match K sip P g e = Some true.
Proof.
  intros HN Hin. unfold gcs_build.
  assert (EN : Z.of_nat (length elements) >? UINT32_MAX = false).
  { destruct (Z.gtb_spec (Z.of_nat (length elements)) UINT32_MAX); [lia | reflexivity]. }
  rewrite EN. set (F := wrapu64 (Z.of_nat (length elements) * wrapu32 M)).
  destruct elements as [|e0 els] eqn:Eel; [destruct Hin|]. rewrite <- Eel in *.
  set (vs := build_hashed_set K sip F elements).
  assert (Hperm : Permutation (map (hash_to_range K sip F) elements) vs) by apply ZSort.Permuted_sort.
  assert (Hsorted : StronglySorted (fun a b => is_true (Z.leb a b)) vs).
  { apply ZSort.StronglySorted_sort. intros a b c Hab Hbc. unfold is_true in *. apply Z.leb_le in Hab, Hbc. apply Z.leb_le. lia. }
  assert (Hrange : forall v, In v vs -> 0 <= v < 2 ^ 64).
  { intros v Hv. apply (Permutation_in _ (Permutation_sym Hperm)) in Hv. apply in_map_iff in Hv.
    destruct Hv as (k & <- & _). apply fast_range64_range. }
  assert (Hchain : chain 0 vs) by (apply sorted_chain; assumption).
  destruct (encode_deltas_spec vs bw_init 0 WInv_init ltac:(lia) Hchain) as (w & Ew & HIw & Hbw).
  rewrite Ew. eexists. split; [reflexivity|].
  unfold gcs_match, gcs_match_internal. cbn [gcs_n gcs_f gcs_stream].
  destruct (flush_bits w HIw) as [pad Epad].
  rewrite Nat2Z.id. replace (length elements) with (length vs) by (symmetry; rewrite <- (map_length (hash_to_range K sip F)); apply Permutation_length; exact Hperm).
  apply (match_loop_finds vs 0 _ _ _ pad).
  - apply RInv_init.
  - lia.
  - exact Hchain.
  - apply (Permutation_in _ Hperm). apply in_map. exact Hin.
  - rewrite rdbits_init, Epad, Hbw. reflexivity.
  - rewrite rdbits_init, bytes_bits_length. unfold stream_fuel. lia.
Qed.

(* MatchAny: a common value of the coded sequence and the sorted queries is found *)
Lemma match_advance_spec : forall qs lo c v, chain lo qs -> In c qs -> v <= c ->
  match_advance qs v = inl true \/
  (exists qs' lo', match_advance qs v = inr qs' /\ chain lo' qs' /\ In c qs' /\ v < c).
Proof.
  induction qs as [|q qs IH]; intros lo c v Hc Hin Hv; [destruct Hin|].
  destruct Hc as [Hq Hc]. cbn [match_advance].
  destruct (q =? v) eqn:E1; [left; reflexivity|]. apply Z.eqb_neq in E1.
  destruct (q >? v) eqn:E2.
  - apply Z.gtb_lt in E2. right. exists (q :: qs), lo. split; [reflexivity|]. split; [split; assumption|]. split; [exact Hin|].
    destruct Hin as [<-|Hin]; [lia|]. pose proof (chain_ge qs q c Hc Hin). lia.
  - assert (q < v) by (destruct (Z.gtb_spec q v); [discriminate | lia]).
    destruct Hin as [<-|Hin]; [lia|]. apply (IH q c v Hc Hin Hv).
Qed.

Lemma match_loop_finds_any : forall vs last r fuel qs lo c rest, RInv r -> 0 <= last -> chain last vs ->
  In c vs -> In c qs -> chain lo qs ->
  rdbits r = dbits last vs ++ rest -> (length (rdbits r) < fuel)%nat ->
  match_loop P fuel (length vs) r last qs = Some true.
Proof.
  induction vs as [|v vs IH]; intros last r fuel qs lo c rest HI Hl Hc Hin Hq Hcq Eb Hf; [destruct Hin|].
  destruct Hc as [Hv Hc]. cbn [length match_loop]. cbn [dbits] in Eb. rewrite <- app_assoc in Eb.
  assert (Hqf : (Z.to_nat (Z.shiftr (v - last) P) < fuel)%nat).
  { pose proof (gbits_length (v - last) ltac:(lia)) as Hg. rewrite Eb, app_length in Hf. lia. }
  destruct (golomb_decode_spec fuel r P (v - last) _ HI P_range ltac:(lia) Hqf Eb) as (r1 & E1 & HI1 & Eb1).
  rewrite E1. assert (Ew : wrapu64 (last + (v - last)) = v) by (unfold wrapu64; rewrite wrapu_id by lia; lia). rewrite Ew.
  assert (Hvc : v <= c) by (destruct Hin as [<-|Hin]; [lia | apply (chain_ge vs v c Hc Hin)]).
  destruct (match_advance_spec qs lo c v Hcq Hq Hvc) as [E|(qs' & lo' & E & Hcq' & Hq' & Hlt)]; rewrite E; [reflexivity|].
  destruct Hin as [->|Hin]; [lia|].
  apply (IH v r1 fuel qs' lo' c rest HI1 ltac:(lia) Hc Hin Hq' Hcq' Eb1).
  rewrite Eb1. rewrite Eb, app_length in Hf. lia.
Qed.

Theorem gcs_match_any_inserted (elements queries : list K) (e : K) :
  Z.of_nat (length elements) <= UINT32_MAX -> In e elements -> In e queries ->
  exists g, gcs_build K sip P M elements = Some g /\ gcs_match_any K sip P g queries = Some true.
Proof.
  intros HN Hin Hq. unfold gcs_build.
  assert (EN : Z.of_nat (length elements) >? UINT32_MAX = false).
  { destruct (Z.gtb_spec (Z.of_nat (length elements)) UINT32_MAX); [lia | reflexivity]. }
  rewrite EN. set (F := wrapu64 (Z.of_nat (length elements) * wrapu32 M)).
  destruct elements as [|e0 els] eqn:Eel; [destruct Hin|]. rewrite <- Eel in *.
  set (vs := build_hashed_set K sip F elements).
  assert (Htrans : Relations_1.Transitive (fun a b => is_true (Z.leb a b))).
  { intros a b c Hab Hbc. unfold is_true in *. apply Z.leb_le in Hab, Hbc. apply Z.leb_le. lia. }
  assert (Hperm : Permutation (map (hash_to_range K sip F) elements) vs) by apply ZSort.Permuted_sort.
  assert (Hrange : forall l v, In v (build_hashed_set K sip F l) -> 0 <= v < 2 ^ 64).
  { intros l v Hv. unfold build_hashed_set in Hv. apply (Permutation_in _ (Permutation_sym (ZSort.Permuted_sort _))) in Hv.
    apply in_map_iff in Hv. destruct Hv as (k & <- & _). apply fast_range64_range. }
  assert (Hchain : chain 0 vs) by (apply sorted_chain; [apply ZSort.StronglySorted_sort; exact Htrans | apply Hrange]).
  destruct (encode_deltas_spec vs bw_init 0 WInv_init ltac:(lia) Hchain) as (w & Ew & HIw & Hbw).
  rewrite Ew. eexists. split; [reflexivity|].
  unfold gcs_match_any, gcs_match_internal. cbn [gcs_n gcs_f gcs_stream].
  destruct (flush_bits w HIw) as [pad Epad].
  rewrite Nat2Z.id. replace (length elements) with (length vs) by (symmetry; rewrite <- (map_length (hash_to_range K sip F)); apply Permutation_length; exact Hperm).
  apply (match_loop_finds_any vs 0 _ _ _ 0 (hash_to_range K sip F e) pad).
  - apply RInv_init.
  - lia.
  - exact Hchain.
  - apply (Permutation_in _ Hperm). apply in_map. exact Hin.
  - unfold build_hashed_set. apply (Permutation_in _ (ZSort.Permuted_sort _)). apply in_map. exact Hq.
  - apply sorted_chain; [apply ZSort.StronglySorted_sort; exact Htrans | apply Hrange].
  - rewrite rdbits_init, Epad, Hbw. reflexivity.
  - rewrite rdbits_init, bytes_bits_length. unfold stream_fuel. lia.
Qed.

End GcsProofs.

(* closed round trip: what GolombRiceEncode writes, GolombRiceDecode reads back (any position in any stream) *)
Theorem golomb_roundtrip : forall (P x : Z) (w : bitwriter), WInv w -> 0 <= P < 64 -> 0 <= x < 2 ^ 64 ->
  exists w', golomb_rice_encode w P x = Some w' /\ WInv w' /\ wbits w' = wbits w ++ gbits P x /\
    forall r rest fuel, RInv r -> rdbits r = gbits P x ++ rest -> (Z.to_nat (Z.shiftr x P) < fuel)%nat ->
      exists r', golomb_rice_decode_fuel fuel r P = Some (x, r') /\ RInv r' /\ rdbits r' = rest.
Proof.
  intros P x w HI HP Hx. destruct (golomb_encode_spec w P x HI HP ltac:(lia)) as (w' & E & HI' & Hb).
  exists w'. split; [exact E|]. split; [exact HI'|]. split; [exact Hb|].
  intros r rest fuel HR Eb Hf. apply golomb_decode_spec; auto.
Qed.
