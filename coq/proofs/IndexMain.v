(* C21: the statements of coq/props/Properties_C21.v, proved here (the props file only restates them). *)
From Coq Require Import NArith Znumtheory Permutation.
From BV Require Import lib.Ints model.CryptoBase model.MuHash proofs.MuHashArith proofs.MuHashLemmas proofs.MuHashVal
  model.Index model.IndexCoinStats model.IndexTx model.IndexFilter model.IndexSim
  proofs.IndexCoinStatsOps proofs.IndexCoinStatsHist proofs.IndexCoinStatsUtxo.
Local Open Scope Z_scope.

Lemma firstn_In {A} (a : A) n l : In a (firstn n l) -> In a l.
Proof. intros H. rewrite <- (firstn_skipn n l). apply in_or_app. left; exact H. Qed.

Lemma main_C21_muhash_multiply_is_modular_product : forall x a,
  num_ok x -> num_ok a -> num_multiply x a = (x * a) mod P3072.
Proof. exact num_multiply_spec. Qed.

Lemma main_C21_muhash_divide_is_modular_quotient : forall x a,
  num_ok x -> num_ok a -> invertible a ->
  0 <= num_divide x a < P3072 /\ (num_divide x a * a) mod P3072 = x mod P3072.
Proof. intros x a Hx Ha Hi. split; [ apply num_divide_range; assumption | apply num_divide_char; assumption ]. Qed.

Lemma main_C21_muhash_invertible_if_prime : forall a, prime P3072 -> a mod P3072 <> 0 -> invertible a.
Proof. exact prime_invertible. Qed.

Lemma main_C21_muhash_order_independent : forall l l' s,
  mh_ok s -> Permutation l l' ->
  mh_insert_all l s = mh_insert_all l' s /\ mh_finalize (mh_insert_all l s) = mh_finalize (mh_insert_all l' s).
Proof. intros l l' s Hs Hp. split; [ apply mh_insert_all_perm; assumption | apply muhash_order_independent_state; assumption ]. Qed.

Lemma main_C21_muhash_multiset_quotient : forall ops1 ops2,
  (forall d, In d (rem_list ops1 ++ rem_list ops2) -> invertible (mh_to_num3072 d)) ->
  (forall d, mh_net ops1 d = mh_net ops2 d) ->
  mh_finalize (mh_run ops1 mh_empty) = mh_finalize (mh_run ops2 mh_empty).
Proof. exact mh_multiset_quotient. Qed.

Lemma main_C21_muhash_finalize_value : forall ops,
  mh_finalize_num (mh_run ops mh_empty) = (prodl (ins_list ops) * finv (prodl (rem_list ops))) mod P3072.
Proof. exact mh_finalize_num_run. Qed.

Lemma main_C21_muhash_remove_cancels_insert : forall s x,
  mh_ok s -> invertible (mh_den s) -> invertible (mh_to_num3072 x) ->
  mh_finalize (mh_remove (mh_insert s x) x) = mh_finalize s /\
  mh_finalize (mh_insert (mh_remove s x) x) = mh_finalize s.
Proof. exact mh_remove_cancels_insert. Qed.

Lemma main_C21_muhash_representation_independent : forall s t,
  mh_ok s -> mh_ok t -> invertible (mh_den s) -> invertible (mh_den t) ->
  (mh_num s * mh_den t) mod P3072 = (mh_num t * mh_den s) mod P3072 ->
  mh_finalize s = mh_finalize t.
Proof. intros. apply mh_finalize_of_num. apply mh_finalize_num_quotient; assumption. Qed.

Lemma main_C21_muhash_combine : forall ops1 ops2,
  mh_finalize (mh_mul (mh_run ops1 mh_empty) (mh_run ops2 mh_empty)) = mh_finalize (mh_run (ops1 ++ ops2) mh_empty) /\
  mh_finalize (mh_div (mh_run ops1 mh_empty) (mh_run ops2 mh_empty)) = mh_finalize (mh_run (ops1 ++ map mh_op_inv ops2) mh_empty).
Proof. intros. split; [ apply mh_mul_union | apply mh_div_difference ]. Qed.

Lemma main_C21_muhash_finalize_idempotent_and_serialization : forall s,
  mh_ok s -> invertible (mh_den s) ->
  mh_finalize (mh_finalize_state s) = mh_finalize s /\ mh_unserialize (mh_serialize s) = Some s.
Proof. intros s Hs Hi. split; [ apply mh_finalize_idempotent; assumption | apply mh_serialize_roundtrip; assumption ]. Qed.

Lemma main_C21_coinstats_append_remove_inverse : forall i x c b x1,
  cs_inv i x c -> chain_wf (c ++ [b]) -> c <> [] -> cs_append i x b = Ok x1 ->
  (exists y', cs_replay i (c ++ [b]) = Ok y') ->
  exists x2, cs_remove x1 b = Ok x2 /\ core x2 = core x /\ cs_dbh x2 = cs_dbh x1.
Proof. exact cs_append_remove_inverse. Qed.

Lemma main_C21_coinstats_state_is_replay_of_active_chain : forall i steps,
  hist_ok i [] steps ->
  exists x c, run_hist i cs_init [] steps = Ok (x, c) /\ cs_inv i x c /\ chain_wf c.
Proof.
  intros i steps H. apply (cs_history i steps cs_init []); [ apply cs_init_inv | | exact H ].
  split; [ intros k b Hk; destruct k; discriminate | split; [ intros k a b Hk; destruct k; discriminate | intros b [] ] ].
Qed.

Lemma main_C21_index_eq_recompute : forall i steps x c k b u,
  hist_ok i [] steps -> run_hist i cs_init [] steps = Ok (x, c) ->
  nth_error c k = Some b -> utxo_of_chain (firstn (S k) c) = Some u ->
  exists e, cs_lookup x (b_hash b) (b_height b) = Some e /\ stats_agree e (compute_utxo_stats u) = true.
Proof.
  intros i steps x c k b u Hok Hrun Hk Hu.
  destruct (main_C21_coinstats_state_is_replay_of_active_chain i steps Hok) as [x' [c' [Hrun' [Hinv Hwf]]]].
  rewrite Hrun in Hrun'. inversion Hrun'. subst x' c'.
  destruct (cs_lookup_chain i x c k b Hinv Hwf Hk) as [y [Ey El]].
  exists (entry_of y). split; [ exact El | ].
  apply (replay_eq_scratch i (firstn (S k) c) y u); [ | exact Ey | exact Hu ].
  intros a Ha. destruct Hwf as [_ [_ Hi]]. apply Hi. apply (firstn_In _ _ _ Ha).
Qed.

Lemma main_C21_replay_eq_scratch : forall i c y u,
  (forall b, In b c -> ops_invertible (block_ops b)) ->
  cs_replay i c = Ok y -> utxo_of_chain c = Some u ->
  stats_agree (entry_of y) (compute_utxo_stats u) = true.
Proof. exact replay_eq_scratch. Qed.
