(* C38  Compact block reconstruction yields the announced block or fails.
   Only statements here; each is closed by `exact` of a lemma from proofs/CmpctLemmas.v.
   T = transactions; is_mutated = IsBlockMutated on the block FillBlock assembled. *)
From BV Require Import lib.Ints gen.Params_gen model.Merkle model.Cmpct proofs.MerkleLemmas proofs.MerkleBlockLemmas proofs.CmpctLemmas.
From Coq Require Import Sorting.Sorted.
Local Open Scope Z_scope.

(* FillBlock reports READ_STATUS_INVALID exactly when the object holds no announcement (header null:
   never initialised or already used) or the blocktxn response does not contain exactly one
   transaction per slot that InitData left unavailable. *)
Theorem C38_fill_block_invalid_iff : forall (T : Type) (header_null : bool) (avail : list (option T)) (missing : list T)
  (is_mutated : list T -> option bool),
  fst (fill_block T header_null avail missing is_mutated) = READ_STATUS_INVALID <->
  header_null = true \/ length missing <> holes T avail.
Proof. exact fill_block_invalid_iff. Qed.
Print Assumptions C38_fill_block_invalid_iff.

(* A READ_STATUS_OK result is the available transactions in their slots with the response filled
   into the holes in order, and that block passed IsBlockMutated (so anything else is FAILED/INVALID). *)
Theorem C38_fill_block_ok : forall (T : Type) (header_null : bool) (avail : list (option T)) (missing : list T)
  (is_mutated : list T -> option bool) (vtx : list T),
  fill_block T header_null avail missing is_mutated = (READ_STATUS_OK, Some vtx) ->
  header_null = false /\ length missing = holes T avail /\ vtx = merged T avail missing /\ is_mutated vtx = Some false.
Proof. exact fill_block_ok. Qed.
Print Assumptions C38_fill_block_ok.

(* Hence an OK reconstruction is the announced block - whatever InitData put into txn_available
   (short-id collisions, wrong mempool / extra-pool matches) and whatever the peer answered:
   if the announced block (header root R, coinbase first, commitment c) is itself not mutated, every
   block FillBlock accepts under that header and commitment has its txids and its wtxids.
   `view l` is the block object with the announced header and transactions l; H injective, txids are
   not inner-node values (the C04 premises). *)
Theorem C38_fill_ok_is_announced : forall (T D : Type) (deq : D -> D -> bool) (H : D -> D -> D) (zero : D),
  (forall a b, deq a b = true <-> a = b) ->
  (forall a b c d, H a b = H c d -> a = c /\ b = d) ->
  forall (view : list T -> block_view D) (tview : T -> tx_view D),
  (forall l, bv_txs D (view l) = map tview l) ->
  (forall l l', bv_header_root D (view l) = bv_header_root D (view l')) ->
  (forall l, bv_checked_merkle_root D (view l) = false /\ bv_checked_witness_commitment D (view l) = false) ->
  forall (avail : list (option T)) (missing vtx announced : list T) (c : D),
  fill_block T false avail missing (fun l => is_block_mutated D deq H zero (view l) true) = (READ_STATUS_OK, Some vtx) ->
  is_block_mutated D deq H zero (view announced) true = Some false ->
  announced <> [] -> vtx <> [] ->
  bv_first_is_coinbase D (view announced) = true -> bv_first_is_coinbase D (view vtx) = true ->
  bv_commitment D (view announced) = Some c -> bv_commitment D (view vtx) = Some c ->
  (forall x, In x (map (tv_txid D) (map tview announced)) -> ~ exists a b, x = H a b) ->
  (forall x, In x (map (tv_txid D) (map tview vtx)) -> ~ exists a b, x = H a b) ->
  map (tv_txid D) (map tview vtx) = map (tv_txid D) (map tview announced) /\
  map (tv_wtxid D) (tl (map tview vtx)) = map (tv_wtxid D) (tl (map tview announced)).
Proof. exact fill_ok_is_announced. Qed.
Print Assumptions C38_fill_ok_is_announced.

(* InitData's prefilled loop: when it does not report INVALID, every prefilled transaction was
   written to a slot inside txn_available (size shorttxids.size() + prefilledtxn.size()), the k-th
   one at a slot <= shorttxids.size() + k, and the slots strictly increase. *)
Theorem C38_prefilled_slots : forall (T : Type) (pre : list (Z * option T)) (nshort : Z) (placed : list (Z * T)),
  0 <= nshort -> place_prefilled T nshort 0 (-1) pre = Some placed ->
  length placed = length pre /\
  (forall k p tx, nth_error placed k = Some (p, tx) ->
     -1 < p <= 65535 /\ p <= nshort + 0 + Z.of_nat k /\ exists idx, nth_error pre k = Some (idx, Some tx)) /\
  StronglySorted Z.lt (map fst placed).
Proof. intros T pre nshort placed Hn E. apply (place_prefilled_spec T pre nshort 0 (-1) placed); auto; lia. Qed.
Print Assumptions C38_prefilled_slots.

Theorem C38_prefilled_in_bounds : forall (T : Type) (pre : list (Z * option T)) (nshort : Z) (placed : list (Z * T)),
  0 <= nshort -> place_prefilled T nshort 0 (-1) pre = Some placed ->
  forall p tx, In (p, tx) placed -> 0 <= p < nshort + Z.of_nat (length pre).
Proof. exact prefilled_in_bounds. Qed.
Print Assumptions C38_prefilled_in_bounds.

(* non-vacuity: transactions are numbers, the only unmutated block is [1;2;3] *)
Example C38_nonvacuous :
  let ok := fun l : list nat => Some (negb (if list_eq_dec Nat.eq_dec l [1; 2; 3]%nat then true else false)) in
  fill_block nat false [Some 1%nat; None; Some 3%nat] [2%nat] ok = (READ_STATUS_OK, Some [1; 2; 3]%nat) /\
  fill_block nat false [Some 1%nat; None; Some 3%nat] [9%nat] ok = (READ_STATUS_FAILED, None) /\
  fill_block nat false [Some 1%nat; None; Some 3%nat] [] ok = (READ_STATUS_INVALID, None) /\
  fill_block nat false [Some 1%nat; None; Some 3%nat] [2%nat; 2%nat] ok = (READ_STATUS_INVALID, None) /\
  place_prefilled nat 2 0 (-1) [(0, Some 7%nat); (1, Some 8%nat)] = Some [(0, 7%nat); (2, 8%nat)] /\
  place_prefilled nat 2 0 (-1) [(3, Some 7%nat)] = None.
Proof. vm_compute. repeat split; reflexivity. Qed.
