(* C20  A UTXO snapshot is used only if it matches its commitment.
   Model: model/Snapshot.v (SnapshotMetadata::Unserialize, ChainstateManager::ActivateSnapshot /
   PopulateAndValidateSnapshot / MaybeValidateSnapshot, the HASH_SERIALIZED UTXO hash) over an abstract hash function
   `hashf` and secp256k1 decompression `ec`; the block-index facts the decision consults are the record `env`. *)
From Coq Require Import NArith Permutation.
From BV Require Import lib.Ints gen.Params_gen model.SerBase model.SerTx model.Compress model.CompressEC model.CryptoSHA256 model.Snapshot
                       proofs.SnapshotLemmas proofs.SnapshotOrder proofs.SnapshotTrunc.
Local Open Scope Z_scope.

(* Activation succeeds ONLY IF: no snapshot chainstate exists yet; the mempool is empty; the base block hash is in the
   assumeutxo table, is a known header, not failed, an ancestor of the best header, and has more work than the active tip;
   the table has an entry for its height; the coin stream consists of exactly the announced number of coin records and
   nothing else (no trailing byte); every coin is at or below the base height, in money range, with a vout index below
   UINT32_MAX; and the hash of the resulting coin set (first record of an outpoint wins) equals the committed hash. *)
Theorem C20_activation_succeeds_only_if :
  forall (ec : list N -> option (list N)) (hashf : list N -> list N) (e : env) (m : smeta) (stream base : list N) (utxo : list ucoin),
  0 <= sm_count m ->
  activate ec hashf e m stream = AOk base utxo ->
  base = sm_base m
  /\ e_has_snapshot e = false
  /\ e_mempool_size e <= 0
  /\ (exists au, In au (e_table e) /\ au_blockhash au = base)
  /\ exists b, e_lookup e base = Some b /\ b_failed b = false /\ b_on_best b = true /\ b_more_work b = true
     /\ exists au coins, In au (e_table e) /\ au_height au = b_height b
        /\ load_all ec (b_height b) (sm_count m) stream = CDone coins []
        /\ Z.of_nat (length coins) = sm_count m
        /\ Forall (coin_ok (b_height b)) coins
        /\ utxo = coin_set coins
        /\ utxo_hash hashf utxo = au_hash au.
Proof.
  intros ec hashf e m stream base utxo HC H. apply activate_ok in H.
  destruct H as [E0 [HS [MP [A0 [b [LK [BF [BB [BW [au [coins [I1 [E1 [LA [EU HH]]]]]]]]]]]]]]].
  split; [exact E0|]. split; [exact HS|]. split; [exact MP|]. split; [exact A0|].
  exists b. split; [exact LK|]. split; [exact BF|]. split; [exact BB|]. split; [exact BW|].
  exists au, coins. destruct (load_all_done ec (b_height b) (sm_count m) stream coins [] HC LA) as [L F].
  repeat split; assumption.
Qed.
Print Assumptions C20_activation_succeeds_only_if.

(* Hence, when the hash function does not collide on the two serialized sets, the loaded coin set IS the committed one:
   a snapshot whose coins differ in any value, height, coinbase flag, script, outpoint, or that lacks or adds a coin, is rejected.
   (`ec` returns 65-byte keys, as secp256k1 decompression does: C20_instance_decompression_length.) *)
Theorem C20_accepted_set_is_the_committed_set :
  forall (ec : list N -> option (list N)) (hashf : list N -> list N) (e : env) (m : smeta) (stream base : list N) (utxo committed : list ucoin),
  (forall c pk, ec c = Some pk -> length pk = 65%nat) ->
  bytes_ok stream ->
  activate ec hashf e m stream = AOk base utxo ->
  Forall ucoin_wf committed ->
  (forall b au, e_lookup e base = Some b -> au_for_height (e_table e) (b_height b) = Some au -> utxo_hash hashf committed = au_hash au) ->
  (hashf (set_ser utxo) = hashf (set_ser committed) -> set_ser utxo = set_ser committed) ->      (* PREMISE: no collision *)
  utxo = committed.
Proof.
  intros ec hashf e m stream base utxo committed EL BS H W2 HC INJ.
  assert (W1 : Forall ucoin_wf utxo).
  { pose proof (activate_ok ec hashf e m stream base utxo H) as F.
    destruct F as [_ [_ [_ [_ [b [_ [_ [_ [_ [au [coins [_ [_ [LA [EU _]]]]]]]]]]]]]]]. subst utxo.
    eapply load_all_wf; eassumption. }
  apply set_ser_injective; try assumption. apply INJ.
  unfold activate in H.
  destruct (e_has_snapshot e); [discriminate|].
  destruct (au_for_blockhash (e_table e) (sm_base m)); [|discriminate].
  destruct (e_lookup e (sm_base m)) as [b|] eqn:LK; [|discriminate].
  destruct (b_failed b); [discriminate|]. destruct (negb (b_on_best b)); [discriminate|]. destruct (e_mempool_size e >? 0); [discriminate|].
  destruct (populate ec hashf e m stream) as [pe|s] eqn:PP; [discriminate|].
  destruct (negb (b_more_work b)); [discriminate|]. inversion H; subst base utxo.
  unfold populate in PP. rewrite LK in PP.
  destruct (au_for_height (e_table e) (b_height b)) as [au|] eqn:A1; [|discriminate].
  destruct (negb (b_more_work b)); [discriminate|].
  destruct (load_all ec (b_height b) (sm_count m) stream) as [coins rest|pe]; [|discriminate].
  destruct rest; [|discriminate].
  destruct (negb (bytes_eq (utxo_hash hashf (coin_set coins)) (au_hash au))) eqn:HH; [discriminate|].
  inversion PP; subst s. apply negb_false_iff in HH. apply bytes_eq_eq in HH.
  specialize (HC b au LK A1). unfold utxo_hash in *. congruence.
Qed.
Print Assumptions C20_accepted_set_is_the_committed_set.

(* The decompression used by the extracted instance returns 65-byte keys. *)
Theorem C20_instance_decompression_length : forall c pk, secp_decompress c = Some pk -> length pk = 65%nat.
Proof. exact secp_decompress_len. Qed.
Print Assumptions C20_instance_decompression_length.

(* The canonical serialization that is hashed determines the coin list (no two different well-formed sets serialize alike). *)
Theorem C20_set_serialization_injective :
  forall l1 l2, Forall ucoin_wf l1 -> Forall ucoin_wf l2 -> set_ser l1 = set_ser l2 -> l1 = l2.
Proof. exact set_ser_injective. Qed.
Print Assumptions C20_set_serialization_injective.

(* The loaded coin set is kept in the order in which it is hashed, holds exactly the records read (pairwise different
   outpoints), and does not depend on the order of the records in the file: a reordered snapshot is the same snapshot. *)
Theorem C20_coin_set_is_sorted_complete_and_order_independent :
  forall l, NoDup (map okey l) ->
  ssorted (coin_set l) /\ (forall z, In z (coin_set l) <-> In z l) /\ forall l', Permutation l l' -> coin_set l = coin_set l'.
Proof.
  intros l ND. destruct (coin_set_spec l ND) as [S M]. split; [exact S|]. split; [exact M|]. intros l'. apply coin_set_permutation. exact ND.
Qed.
Print Assumptions C20_coin_set_is_sorted_complete_and_order_independent.

(* A record that repeats an outpoint already loaded is ignored (try_emplace keeps the first coin): a file that repeats coin
   records, with the count adjusted, loads the same set. *)
Theorem C20_repeated_outpoint_record_is_ignored :
  forall c l, ssorted l -> (exists y, In y l /\ okey y = okey c) -> set_add c l = l.
Proof. exact set_add_dup. Qed.
Print Assumptions C20_repeated_outpoint_record_is_ignored.

(* A coin stream that loads completely does not activate when it is cut anywhere (truncated snapshot) ... *)
Theorem C20_truncated_snapshot_is_rejected :
  forall (ec : list N -> option (list N)) (hashf : list N -> list N) (e : env) (m : smeta) (s ext : list N),
  ext <> [] ->
  (forall b, e_lookup e (sm_base m) = Some b -> exists coins, load_all ec (b_height b) (sm_count m) (s ++ ext) = CDone coins []) ->
  forall base utxo, activate ec hashf e m s <> AOk base utxo.
Proof. intros ec hashf e m s ext. apply valid_then_cut_rejected. Qed.
Print Assumptions C20_truncated_snapshot_is_rejected.

(* ... nor when anything is appended to it. *)
Theorem C20_snapshot_with_appended_bytes_is_rejected :
  forall (ec : list N -> option (list N)) (hashf : list N -> list N) (e : env) (m : smeta) (s ext : list N),
  ext <> [] ->
  (forall b, e_lookup e (sm_base m) = Some b -> exists coins, load_all ec (b_height b) (sm_count m) s = CDone coins []) ->
  forall base utxo, activate ec hashf e m (s ++ ext) <> AOk base utxo.
Proof. intros ec hashf e m s ext. apply valid_then_extended_rejected. Qed.
Print Assumptions C20_snapshot_with_appended_bytes_is_rejected.

(* Every rejection leaves the node's chainstates untouched; success only adds the snapshot chainstate. *)
Theorem C20_rejection_leaves_the_node_unchanged :
  forall (ec : list N -> option (list N)) (hashf : list N -> list N) (st : node_state) (e : env) (m : smeta) (stream : list N),
  let r := activate_state ec hashf st e m stream in
  match snd r with
  | AErr _ => fst r = st
  | AOk base utxo => ns_ibd_tip (fst r) = ns_ibd_tip st /\ ns_ibd_utxo (fst r) = ns_ibd_utxo st /\ ns_snapshot (fst r) = Some (base, utxo)
  end.
Proof. intros. apply activate_state_spec. Qed.
Print Assumptions C20_rejection_leaves_the_node_unchanged.

(* The metadata is accepted only with the snapshot magic, version 2 and THIS node's network magic. *)
Theorem C20_metadata_accepted_only_for_this_format_and_network :
  forall netmagic s m rest, read_meta netmagic s = MOk m rest ->
  exists version_bytes count_bytes,
    s = SNAPSHOT_MAGIC_BYTES ++ version_bytes ++ netmagic ++ sm_base m ++ count_bytes ++ rest
    /\ length version_bytes = 2%nat /\ le_value version_bytes = SNAPSHOT_VERSION
    /\ length (sm_base m) = 32%nat /\ length count_bytes = 8%nat /\ le_value count_bytes = sm_count m.
Proof. exact read_meta_ok. Qed.
Print Assumptions C20_metadata_accepted_only_for_this_format_and_network.

(* The loading loop's fuel (stream length + 1) is sufficient: more fuel never changes the result. *)
Theorem C20_loading_loop_fuel_is_sufficient :
  forall ec fuel1 fuel2 bh count left processed grp s acc,
  (length s < fuel1)%nat -> (length s < fuel2)%nat ->
  load_coins ec fuel1 bh count left processed grp s acc = load_coins ec fuel2 bh count left processed grp s acc.
Proof. intros ec fuel1. apply load_coins_fuel. Qed.
Print Assumptions C20_loading_loop_fuel_is_sufficient.

(* Background validation reports success iff it was due and the fully validated set hashes to the committed value. *)
Theorem C20_background_validation_succeeds_iff_hash_matches :
  forall (hashf : list N -> list N) (table : list au_entry) (b : bg_env),
  maybe_validate hashf table b = CSuccess <->
  bg_ready b = true /\ exists au, au_for_height table (bg_height b) = Some au /\ utxo_hash hashf (bg_utxo b) = au_hash au.
Proof. intros. apply maybe_validate_success. Qed.
Print Assumptions C20_background_validation_succeeds_iff_hash_matches.

(* Non-vacuity: a two-coin snapshot (P2PK coinbase outputs) with a table entry committing to its SHA256d hash is
   activated by the extracted instance; changing one value by one satoshi is rejected with the hash error; a trailing
   byte is rejected. *)
Definition ex_script (k : N) : list N := [33%N; 2%N] ++ repeat k 32 ++ [172%N].
Definition ex_c1 : ucoin := mk_ucoin (repeat 1%N 32) 0 (mk_coin 5 true 5000000000 (ex_script 7%N)).
Definition ex_c2 : ucoin := mk_ucoin (repeat 2%N 32) 1 (mk_coin 9 false 1234 (ex_script 9%N)).
Definition ex_stream (v2 : Z) : list N :=
  repeat 2%N 32 ++ [1%N] ++ [1%N] ++ [18%N] ++ match write_varint 64 (compress_amount v2) with Some b => b | None => [] end ++ [2%N] ++ repeat 9%N 32
  ++ repeat 1%N 32 ++ [1%N] ++ [0%N] ++ [11%N] ++ [50%N] ++ [2%N] ++ repeat 7%N 32.
Definition ex_base : list N := repeat 170%N 32.
Definition ex_env : env :=
  mk_env false 0 [mk_au 10 ex_base (run_utxo_hash [ex_c1; ex_c2])]
         (fun h => if bytes_eq h ex_base then Some (mk_binfo 10 false true true) else None).
Example C20_nonvacuous :
  run_activate ex_env (mk_smeta ex_base 2) (ex_stream 1234) = AOk ex_base [ex_c1; ex_c2]
  /\ run_activate ex_env (mk_smeta ex_base 2) (ex_stream 1235) = AErr (APopulate PHash)
  /\ run_activate ex_env (mk_smeta ex_base 2) (ex_stream 1234 ++ [0%N]) = AErr (APopulate PLeftOver)
  /\ run_activate ex_env (mk_smeta ex_base 3) (ex_stream 1234) = AErr (APopulate (PTrunc 2)).
Proof. vm_compute. repeat split; reflexivity. Qed.
