(* C52  HTTP requests are parsed the same however the bytes arrive.
   Only statements here; each is closed by lemmas from proofs/Http*.v.

   [feed c data] is what the server does when [data] arrives on a connection in state [c]: append to
   m_recv_buffer, then HTTPServer::MaybeDispatchRequestsFromClient / HTTPRemoteClient::ReadRequest
   until no complete request is left (model/Http.v).  A state [c] records the receive buffer, the
   request being read (parser state, fields, headers with their size accounting, body, chunk
   progress), the requests dispatched so far and the error reply, if any, with the request it is
   built from.  [client_inv] holds for a new connection and is preserved by [feed]. *)
From BV Require Import lib.Ints gen.Params_gen model.Http proofs.HttpLoop proofs.HttpHeaders proofs.HttpBody
  proofs.HttpRequest proofs.HttpFeed proofs.HttpCaps.
Local Open Scope Z_scope.

(* the states the theorems talk about are the reachable ones *)
Theorem C52_reachable_states : client_inv new_client /\ forall c data, client_inv c -> client_inv (feed c data).
Proof. split; [exact client_inv_new | exact feed_inv]. Qed.
Print Assumptions C52_reachable_states.

(* Two socket reads, or one read of the concatenation: the same connection state, for ALL byte
   strings and every reachable state (so for every position of the cut: inside the request line, a
   header, between CR and LF, a chunk size, chunk data, a trailer, between pipelined requests). *)
Theorem C52_two_reads_equal_one : forall c a b, client_inv c -> feed (feed c a) b = feed c (a ++ b).
Proof. exact feed_app. Qed.
Print Assumptions C52_two_reads_equal_one.

(* Any fragmentation of a byte stream sent on a new connection gives the state of the one-shot delivery *)
Theorem C52_every_fragmentation : forall fragments, feed_all new_client fragments = feed new_client (concat fragments).
Proof. exact feed_all_new. Qed.
Print Assumptions C52_every_fragmentation.

(* hence the same sequence of dispatched requests (method, target, version, headers, body), the
   same error reply and the same pending state for any two fragmentations of the same bytes *)
Theorem C52_fragmentation_independent : forall fragments1 fragments2,
  concat fragments1 = concat fragments2 ->
  observable (feed_all new_client fragments1) = observable (feed_all new_client fragments2).
Proof. intros f1 f2 H. now rewrite (fragmentation_independent f1 f2 H). Qed.
Print Assumptions C52_fragmentation_independent.

(* The size accounting of HTTPHeaders::Read across partial reads (m_consumed, start): a call that
   does not throw adds to m_consumed exactly the number of bytes it takes from the buffer, and when
   it returns false what it leaves unread is at most a line-limit of bytes without terminator. *)
Theorem C52_header_accounting_exact : forall write h r,
  match headers_read write h r with
  | Ret false h' r' => h_consumed h' = h_consumed h + (zl r - zl r') /\ (length r' <= MAX_LINE)%nat
  | Ret true h' r' => h_consumed h' = h_consumed h + (zl r - zl r')
  | Throw _ _ => True
  end.
Proof. exact headers_read_account. Qed.
Print Assumptions C52_header_accounting_exact.

(* Caps, for every stream and every fragmentation: each dispatched request accounted at most
   MAX_HEADERS_SIZE header bytes (request headers and chunk trailers together) and carries at most
   MAX_BODY_SIZE body bytes; the connection never keeps more than the line limit of unread bytes. *)
Theorem C52_caps_enforced : forall fragments,
  let c := feed_all new_client fragments in
  Forall (fun q => h_consumed (rq_headers q) <= HTTP_MAX_HEADERS_SIZE /\
                   Z.of_nat (length (rq_body q)) <= HTTP_MAX_BODY_SIZE) (cl_dispatched c) /\
  (length (cl_buffer c) <= MAX_LINE)%nat.
Proof. exact caps_enforced. Qed.
Print Assumptions C52_caps_enforced.

(* A first line longer than the limit (MAX_HEADERS_SIZE bytes before any LF) is answered with 400
   and nothing is dispatched, whatever the fragmentation and whatever follows. *)
Theorem C52_long_line_rejected : forall fragments a b,
  concat fragments = a ++ b -> ~ In LF a -> (MAX_LINE < length a)%nat ->
  cl_error (feed_all new_client fragments) = Some BadRequest /\ cl_dispatched (feed_all new_client fragments) = [].
Proof. exact long_request_line_rejected_any_fragmentation. Qed.
Print Assumptions C52_long_line_rejected.

(* non-vacuity: two pipelined requests (one chunked with an extension and a trailer), fed byte by
   byte and at once: both are dispatched, the states are equal *)
Definition nv_stream : bytes :=
  [80;79;83;84;32;47;97;32;72;84;84;80;47;49;46;49;13;10;
   84;114;97;110;115;102;101;114;45;69;110;99;111;100;105;110;103;58;32;99;104;117;110;107;101;100;13;10;13;10;
   53;59;120;13;10;104;101;108;108;111;13;10;48;13;10;88;58;32;49;13;10;13;10;
   71;69;84;32;47;98;32;72;84;84;80;47;49;46;48;10;10]%N.
Example C52_nonvacuous :
  feed_all new_client (map (fun b => [b]) nv_stream) = feed new_client nv_stream /\
  map rq_body (cl_dispatched (feed new_client nv_stream)) = [[104;101;108;108;111]%N; []] /\
  map rq_target (cl_dispatched (feed new_client nv_stream)) = [[47;97]%N; [47;98]%N] /\
  cl_error (feed new_client nv_stream) = None /\ cl_buffer (feed new_client nv_stream) = [].
Proof. vm_compute. repeat split; reflexivity. Qed.
