(* C15  Layered coin caches behave like a single map and never lose or resurrect coins.
   Only statements here; each is closed by `exact` of a lemma from proofs/Coins*.v.

   Vocabulary (model/Coins.v, proofs/CoinsBase.v):
     ls : list layer      the stack of caches, head = top;  db : the database view underneath
     step ls db o         one operation of the transcribed C++ (Ok (ls', db', observation) | Throw)
     vs : list fmap       the specification state: ONE FLAT MAP per view (each cache top-down, then db)
     spec_step vs o       the flat-map specification; SMisuse on the call patterns the real code
                          treats as caller errors (AddCoin(possible_overwrite=false) over an unspent
                          coin of the view; AddCoin/SpendCoin/Reset on a cache that is not the top)
     sim ls db vs         every view of the stack answers exactly its flat map
     wf ls db             the invariant: FRESH => base view has no unspent coin; not DIRTY => entry
                          equals base view; spent => DIRTY and not FRESH; FRESH => DIRTY; counters exact

   Full statement proved (nothing is left partial): for ALL scripts over ALL outpoints, any number of
   caches of either kind (CCoinsViewCache / CoinsViewOverlay in serial mode), any database content. *)
From BV Require Import lib.Ints gen.Params_gen model.Coins proofs.CoinsBase proofs.CoinsLayer proofs.CoinsBatch
  proofs.CoinsLemmas.
Local Open Scope Z_scope.

(* One operation (forward simulation): from a consistent state that agrees with the flat maps, every
   call the specification allows succeeds (no logic_error), returns the specification's answer,
   leaves a consistent state, and every view again answers exactly its (updated) flat map. *)
Theorem C15_refinement_step : forall ls db vs o vs' so,
  wf ls db -> sim ls db vs -> spec_step vs o = SOk vs' so ->
  exists ls' db' ob, step ls db o = Ok (ls', db', ob) /\ wf ls' db' /\ sim ls' db' vs' /\
                     obs_match so ob = true.
Proof. exact refinement_step. Qed.
Print Assumptions C15_refinement_step.

(* All operation sequences, by induction, from any number of empty caches over any database:
   if the script stays inside the specification's domain then the real operations never throw, every
   observation matches the flat maps' and the final state is consistent and agrees with the maps. *)
Theorem C15_refinement_all_scripts : forall kinds db ops vf t,
  nodup db -> spec_run (init_spec (length kinds) db) ops = Some (vf, t) ->
  exists lsf dbf tr, run (init_layers kinds) db ops = (tr, Ok (lsf, dbf)) /\
    Forall2 (fun s o => obs_match s o = true) t tr /\ wf lsf dbf /\ sim lsf dbf vf.
Proof. exact refinement_from_init. Qed.
Print Assumptions C15_refinement_all_scripts.

(* Reads: GetCoin / HaveCoin / AccessCoin / PeekCoin through cache d return exactly what the flat
   map of view d holds, and change no view. *)
Theorem C15_reads_return_flat_map : forall ls db vs d k v,
  wf ls db -> sim ls db vs -> spec_view d vs = Some v ->
  (exists ls', step ls db (OpGet d k) = Ok (ls', db, ObCoin (m_get k v)) /\ wf ls' db /\ sim ls' db vs) /\
  (exists ls', step ls db (OpHave d k) = Ok (ls', db, ObBool (is_some (m_get k v))) /\ wf ls' db /\ sim ls' db vs) /\
  (exists ls', step ls db (OpAccess d k) = Ok (ls', db, ObCoin (m_get k v)) /\ wf ls' db /\ sim ls' db vs) /\
  step ls db (OpPeek d k) = Ok (ls, db, ObCoin (m_get k v)).
Proof. exact reads_return_flat_map. Qed.
Print Assumptions C15_reads_return_flat_map.

(* Flush (erase = true) and Sync (erase = false) of cache d: the parent's view (index d+1, the
   database when d is the lowest cache) becomes the child's view, and every other view - the child's
   own included - is unchanged: no spent coin comes back, no unspent coin is dropped. *)
Theorem C15_flush_sync_parent_becomes_child : forall ls db vs d vs' (erase : bool),
  wf ls db -> sim ls db vs -> spec_flush d vs = Some vs' ->
  exists ls' db', step ls db (if erase then OpFlush d else OpSync d) = Ok (ls', db', ObUnit) /\
    wf ls' db' /\ sim ls' db' vs' /\
    nth_error vs' (S d) = nth_error vs d /\ (forall i, i <> S d -> nth_error vs' i = nth_error vs i).
Proof. exact flush_sync_parent_becomes_child. Qed.
Print Assumptions C15_flush_sync_parent_becomes_child.

(* logic_error ("Attempted to overwrite an unspent coin", "FRESH flag misapplied") and bad cache
   indices are unreachable on calls the specification allows. *)
Theorem C15_no_logic_error : forall ls db vs o vs' so e,
  wf ls db -> sim ls db vs -> spec_step vs o = SOk vs' so -> step ls db o <> Throw e.
Proof. exact no_throw. Qed.
Print Assumptions C15_no_logic_error.

(* What the invariant says about any entry e of any cache L of a consistent stack, `below` being
   the caches under L: FRESH => the base view has no unspent coin; not DIRTY => the entry equals the
   base view; spent => DIRTY and not FRESH; FRESH => DIRTY. *)
Theorem C15_flag_meaning : forall above ls db L below,
  wf ls db -> ls = above ++ L :: below ->
  forall k e, m_get k (l_map L) = Some e ->
    (e_fresh e = true -> view_peek below db k = None) /\
    (e_dirty e = false -> e_coin e = view_peek below db k) /\
    (e_coin e = None -> e_dirty e = true /\ e_fresh e = false) /\
    (e_fresh e = true -> e_dirty e = true).
Proof. exact wf_entry_meaning. Qed.
Print Assumptions C15_flag_meaning.

(* ... and the executable form of it that the violation search evaluates on the implementation's
   dumped entries accepts every entry of a consistent stack *)
Theorem C15_entry_check_sound : forall above ls db L below,
  wf ls db -> ls = above ++ L :: below ->
  forall k e, m_get k (l_map L) = Some e -> entry_check (view_peek below db k) e = true.
Proof. exact wf_entry_check. Qed.
Print Assumptions C15_entry_check_sound.

(* Accounting (SanityCheck as a theorem): after any in-domain script every cache has
   m_dirty_count = number of DIRTY entries = length of the flagged list, cachedCoinsUsage = sum of the
   entries' DynamicMemoryUsage, no duplicate keys, and only the flag combinations SanityCheck allows. *)
Theorem C15_accounting_exact : forall kinds db ops vf t,
  nodup db -> spec_run (init_spec (length kinds) db) ops = Some (vf, t) ->
  exists lsf dbf tr, run (init_layers kinds) db ops = (tr, Ok (lsf, dbf)) /\ Forall layer_exact lsf.
Proof. exact accounting_reachable. Qed.
Print Assumptions C15_accounting_exact.

(* The executable predicate used by the violation search (holds_step: flat-map observation and all
   views) accepts what the model itself does, on every allowed call: a correct implementation that
   agrees with the model is never reported. *)
Theorem C15_predicate_accepts_model : forall U ls db vs o vs' so,
  wf ls db -> sim ls db vs -> spec_step vs o = SOk vs' so ->
  exists ls' db' ob, step ls db o = Ok (ls', db', ob) /\
    holds_step U vs o ob (stack_views U ls' db') = VOk vs'.
Proof. exact holds_step_model. Qed.
Print Assumptions C15_predicate_accepts_model.

(* The memory formulas of the model (inline script capacity, MallocUsage rounding) reproduce the
   sample values printed from the compiled tree. *)
Theorem C15_usage_formula_matches_tree :
  malloc_usage (exact_cap COINS_SCRIPT_DIRECT_CAPACITY) = COINS_USAGE_AT_DIRECT /\
  malloc_usage (exact_cap (COINS_SCRIPT_DIRECT_CAPACITY + 1)) = COINS_USAGE_AT_DIRECT_PLUS_1 /\
  malloc_usage (exact_cap 49) = COINS_USAGE_AT_49 /\
  malloc_usage (exact_cap 50) = COINS_USAGE_AT_50 /\
  malloc_usage (exact_cap 100) = COINS_USAGE_AT_100 /\
  malloc_usage 1 = COINS_MALLOC_USAGE_1 /\ malloc_usage 17 = COINS_MALLOC_USAGE_17 /\
  malloc_usage 1000 = COINS_MALLOC_USAGE_1000.
Proof. exact usage_formula_matches_tree. Qed.
Print Assumptions C15_usage_formula_matches_tree.

(* non-vacuity: a script with re-add after spend, flush into a parent, sync, spend of a fresh coin
   and a pushed cache is inside the domain, and the model runs it without a throw *)
Definition nv_c0 := mkCoin 50 1 false 10 false.
Definition nv_c1 := mkCoin 60 2 true 40 false.
Definition nv_c2 := mkCoin 70 3 false 100 false.
Local Close Scope Z_scope.
Definition nv_script : list op :=
  [ OpGet 0 0; OpSpend 0 0; OpAdd 0 0 nv_c1 false; OpSpend 0 0; OpFlush 0; OpGet 1 0;
    OpAdd 0 1 nv_c2 false; OpSync 0; OpPush false; OpAdd 0 1 nv_c1 true; OpSpend 0 1; OpAdd 0 2 nv_c0 false;
    OpSpend 0 2; OpFlush 0; OpPop; OpSync 1; OpHave 0 1 ].
Example C15_nonvacuous :
  nodup [(0, nv_c0)] /\
  (exists vf t, spec_run (init_spec 2 [(0, nv_c0)]) nv_script = Some (vf, t) /\ length t = 17) /\
  (exists tr lsf dbf, run (init_layers [false; false]) [(0, nv_c0)] nv_script = (tr, Ok (lsf, dbf)) /\
                      dbf = [(1, nv_c2)] /\ nth_error tr 16 = Some (ObBool false)).
Proof.
  split; [repeat constructor; simpl; tauto|]. split.
  - vm_compute. eexists _, _. split; reflexivity.
  - vm_compute. eexists _, _, _. split; [reflexivity|]. split; reflexivity.
Qed.

(* the premise is needed: AddCoin(possible_overwrite = false) over an unspent coin that is not in the
   cache is accepted silently by the code, marks the entry FRESH, and a later spend resurrects the
   database's coin (the flat map says the coin is gone; SMisuse in the specification) *)
Example C15_misuse_resurrects :
  spec_step (init_spec 1 [(0, nv_c0)]) (OpAdd 0 0 nv_c1 false) = SMisuse /\
  fst (run (init_layers [false]) [(0, nv_c0)] [OpAdd 0 0 nv_c1 false; OpSpend 0 0; OpGet 0 0]) =
  [ObUnit; ObSpend true (Some nv_c1); ObCoin (Some nv_c0)].
Proof. vm_compute. split; reflexivity. Qed.
