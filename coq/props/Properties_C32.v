(* C32 — Peer transports deliver exactly the messages sent, or detect tampering.
   Statements only; proofs are in proofs/Transport{Node,V1,V2,Ids,Toy}.v, the model in model/Transport.v. *)
From Coq Require Import NArith String.
From BV Require Import lib.Ints gen.Params_gen model.Transport proofs.TransportNode proofs.TransportV1 proofs.TransportV2
  proofs.TransportIds proofs.TransportToy.
Local Open Scope nat_scope.

(* ---- v1 ---------------------------------------------------------------------------------------- *)

(* every receive state, every stream, every fragmentation: same outputs, same state, same disconnect decision *)
Theorem C32_v1_fragmentation :
  forall (magic : list N) (H4 : list N -> list N),
  length magic = MESSAGE_START_SIZE -> (forall p, length (H4 p) = CHECKSUM_SIZE) ->
  forall (chunks : list (list N)) (s : v1st) (acc : list out),
  v1_wf s -> small (concat chunks) ->
  node_recv_chunks (v1_iter magic H4) (Alive s acc) chunks = node_recv (v1_iter magic H4) (Alive s acc) (concat chunks).
Proof. exact v1_fragmentation. Qed.
Print Assumptions C32_v1_fragmentation.

(* any message sequence, serialised by the sender, in any fragmentation, is received as exactly that sequence *)
Theorem C32_v1_roundtrip :
  forall (magic : list N) (H4 : list N -> list N),
  length magic = MESSAGE_START_SIZE -> (forall p, length (H4 p) = CHECKSUM_SIZE) ->
  forall (msgs : list (list N * list N)) (chunks : list (list N)),
  Forall (fun m => type_ok 126 (fst m) /\ payload_ok (snd m)) msgs ->
  concat chunks = v1_stream magic H4 msgs -> small (v1_stream magic H4 msgs) ->
  node_recv_chunks (v1_iter magic H4) (Alive v1_init []) chunks =
  Alive v1_init (map (fun m => Delivered (fst m) (snd m)) msgs).
Proof. exact v1_roundtrip. Qed.
Print Assumptions C32_v1_roundtrip.

(* the sender: for every schedule of partial sends (GetBytesToSend / MarkBytesSent) with enough steps, the bytes
   handed to the socket are exactly the encoding, and then the next message can be set *)
Theorem C32_v1_sender_emits_encoding :
  forall (magic : list N) (H4 : list N -> list N),
  length magic = MESSAGE_START_SIZE -> (forall p, length (H4 p) = CHECKSUM_SIZE) ->
  forall (type payload : list N) (sched : list nat) (s0 : v1send),
  v1_set_message_to_send magic H4 v1send_init type payload = Some s0 ->
  length (v1_encode magic H4 type payload) <= length sched ->
  snd (v1_pump sched s0 []) = v1_encode magic H4 type payload /\
  (forall t p, v1_set_message_to_send magic H4 (fst (v1_pump sched s0 [])) t p <> None).
Proof. exact v1_sender_emits_encoding. Qed.
Print Assumptions C32_v1_sender_emits_encoding.

(* a frame whose checksum field differs from the checksum of its payload is never delivered *)
Theorem C32_v1_checksum_mismatch_rejected :
  forall (magic : list N) (H4 : list N -> list N),
  length magic = MESSAGE_START_SIZE -> (forall p, length (H4 p) = CHECKSUM_SIZE) ->
  forall (hdr payload rest : list N) (acc : list out),
  length hdr = 24 -> hdr_magic hdr = magic -> hdr_size hdr = Z.of_nat (length payload) ->
  (hdr_size hdr <= V1_MAX_PAYLOAD)%Z -> small (hdr ++ payload ++ rest) ->
  H4 payload <> hdr_cks hdr ->
  run v1st (v1_iter magic H4) v1_init (hdr ++ payload ++ rest) acc =
  run v1st (v1_iter magic H4) v1_init rest (acc ++ [Rejected]).
Proof. exact v1_checksum_mismatch_rejected. Qed.
Print Assumptions C32_v1_checksum_mismatch_rejected.

(* a sender's frame whose payload was altered in transit (premise: the 4-byte checksums differ) is dropped *)
Theorem C32_v1_tampered_payload_rejected :
  forall (magic : list N) (H4 : list N -> list N),
  length magic = MESSAGE_START_SIZE -> (forall p, length (H4 p) = CHECKSUM_SIZE) ->
  forall (type payload payload' rest : list N) (acc : list out),
  type_ok 126 type -> payload_ok payload -> length payload' = length payload ->
  H4 payload' <> H4 payload ->
  small (v1_header magic H4 type payload ++ payload' ++ rest) ->
  run v1st (v1_iter magic H4) v1_init (v1_header magic H4 type payload ++ payload' ++ rest) acc =
  run v1st (v1_iter magic H4) v1_init rest (acc ++ [Rejected]).
Proof. exact v1_tampered_payload_rejected. Qed.
Print Assumptions C32_v1_tampered_payload_rejected.

(* ANY byte stream (tampered, truncated, garbage), ANY fragmentation: the outputs are a parse of the stream into
   frames (24 header bytes announcing the length of the payload that follows), one output per frame in order, and a
   frame is Delivered only with the payload that stood in the stream and only if its checksum field is the checksum
   of that payload: a message whose payload does not match its checksum is never delivered *)
Theorem C32_v1_never_delivers_checksum_mismatch :
  forall (magic : list N) (H4 : list N -> list N),
  length magic = MESSAGE_START_SIZE -> (forall p, length (H4 p) = CHECKSUM_SIZE) ->
  forall (chunks : list (list N)), small (concat chunks) ->
  let c := node_recv_chunks (v1_iter magic H4) (Alive v1_init []) chunks in
  exists (frames : list (list N * list N)) (rest : list N),
    Forall frame_ok frames /\ conn_outs c = map (frame_out H4) frames /\
    concat chunks = flat_frames frames ++ rest /\
    forall f t p, In f frames -> frame_out H4 f = Delivered t p -> p = snd f /\ H4 p = hdr_cks (fst f).
Proof.
  intros magic H4 Hm Hh chunks Hs c.
  assert (Hc : c = run _ (v1_iter magic H4) v1_init (concat chunks) []).
  { unfold c. rewrite (v1_fragmentation magic H4 Hm Hh); auto. apply (v1_init_wf magic H4 Hm Hh). }
  pose proof (v1_parse_sound magic H4 Hm Hh (concat chunks) Hs) as Hp. rewrite <- Hc in Hp.
  destruct c as [s outs|outs|]; cbn [parsed] in Hp.
  - destruct Hp as [fs [Hf [Ho Hw]]]. exists fs, (v1_pend s). repeat split; auto; eapply frame_out_delivered; eauto.
  - destruct Hp as [fs [junk [Hf [Ho Hw]]]]. exists fs, junk. repeat split; auto; eapply frame_out_delivered; eauto.
  - contradiction.
Qed.
Print Assumptions C32_v1_never_delivers_checksum_mismatch.

(* wrong message start, or a size above min(MAX_SIZE, MAX_PROTOCOL_MESSAGE_LENGTH) (generated constants):
   disconnect at the 24th header byte; V1_MAX_PAYLOAD itself is accepted (v1_size_bound_exact) *)
Theorem C32_v1_bad_header_disconnects :
  forall (magic : list N) (H4 : list N -> list N),
  length magic = MESSAGE_START_SIZE -> (forall p, length (H4 p) = CHECKSUM_SIZE) ->
  forall (hdr rest : list N) (acc : list out),
  length hdr = 24 -> small (hdr ++ rest) ->
  hdr_magic hdr <> magic \/ (Z.min TR_MAX_SIZE TR_MAX_PROTOCOL_MESSAGE_LENGTH < hdr_size hdr)%Z ->
  run v1st (v1_iter magic H4) v1_init (hdr ++ rest) acc = Dead acc.
Proof. exact v1_bad_header_disconnects. Qed.
Print Assumptions C32_v1_bad_header_disconnects.

(* ---- v2 ---------------------------------------------------------------------------------------- *)

Theorem C32_v2_fragmentation :
  forall (magic : list N) (H4 : list N -> list N) (ids : list (list N)) (initiating : bool)
         (S : Type) (kex : list N -> S) (rterm : S -> list N) (ldec : S -> nat -> list N -> Z)
         (pdec : S -> nat -> list N -> list N -> option (N * list N)),
  length magic = MESSAGE_START_SIZE -> (forall p, length (H4 p) = CHECKSUM_SIZE) ->
  (forall s n b, (0 <= ldec s n b < 16777216)%Z) ->
  forall (chunks : list (list N)) (s : v2st S) (acc : list out),
  v2_wf S s -> small (concat chunks) ->
  v2_norm initiating S (node_recv_chunks (v2_iter magic H4 ids initiating S kex rterm ldec pdec) (Alive s acc) chunks) =
  v2_norm initiating S (node_recv (v2_iter magic H4 ids initiating S kex rterm ldec pdec) (Alive s acc) (concat chunks))
  /\
  conn_outs (node_recv_chunks (v2_iter magic H4 ids initiating S kex rterm ldec pdec) (Alive s acc) chunks) =
  conn_outs (node_recv (v2_iter magic H4 ids initiating S kex rterm ldec pdec) (Alive s acc) (concat chunks)).
Proof. intros. split; [apply v2_fragmentation|apply v2_fragmentation_outs]; auto. Qed.
Print Assumptions C32_v2_fragmentation.

(* key, garbage of 0..MAX_GARBAGE_LEN bytes, terminator, any packet sequence with decoys anywhere, any
   fragmentation: exactly the messages after the version packet are delivered, in order; decoys deliver nothing *)
Theorem C32_v2_roundtrip :
  forall (magic : list N) (H4 : list N -> list N) (ids : list (list N)) (initiating : bool)
         (S0 : Type) (kex : list N -> S0) (rterm : S0 -> list N) (ldec : S0 -> nat -> list N -> Z)
         (pdec : S0 -> nat -> list N -> list N -> option (N * list N)),
  length magic = MESSAGE_START_SIZE -> (forall p, length (H4 p) = CHECKSUM_SIZE) ->
  (forall s n b, (0 <= ldec s n b < 16777216)%Z) ->
  forall (pk sterm : list N) (lenc : nat -> Z -> list N) (penc : nat -> list N -> N -> list N -> list N),
  length pk = 64 ->
  (initiating = false -> firstn 12 (skipn 4 pk) <> VERSION_TAIL) ->
  rterm (kex pk) = sterm -> length sterm = 16 ->
  (forall n len, (0 <= len < 16777216)%Z -> length (lenc n len) = 3 /\ ldec (kex pk) n (lenc n len) = len) ->
  (forall n aad h c, length (penc n aad h c) = length c + 17 /\ pdec (kex pk) n aad (penc n aad h c) = Some (h, c)) ->
  forall (garbage : list N) (pkts : list (bool * list N)) (chunks : list (list N)),
  length garbage <= MAX_GARBAGE_LEN ->
  (forall k, 16 <= k < length garbage + 16 -> lastn 16 (firstn k (garbage ++ sterm)) <> sterm) ->
  Forall (fun p => (Z.of_nat (length (snd p)) <= MAX_CONTENTS_LEN)%Z) pkts ->
  concat chunks = v2_stream sterm lenc penc pk garbage pkts ->
  small (v2_stream sterm lenc penc pk garbage pkts) ->
  conn_outs (node_recv_chunks (v2_iter magic H4 ids initiating S0 kex rterm ldec pdec)
               (Alive (v2_init initiating S0) []) chunks) = v2_expected ids false pkts /\
  conn_dead (v2_norm initiating S0 (node_recv_chunks (v2_iter magic H4 ids initiating S0 kex rterm ldec pdec)
               (Alive (v2_init initiating S0) []) chunks)) = false.
Proof. exact v2_roundtrip. Qed.
Print Assumptions C32_v2_roundtrip.

(* any stream whatsoever (altered, truncated, extended), any fragmentation: what is delivered is what an honest
   delivery of the first k encrypted packets delivers, for some k; with C32_v2_expected_prefix that is an initial
   segment of what was sent.  Premises auth / no_mitm: see proofs/TransportV2.v, Section Tamper. *)
Theorem C32_v2_tamper_never_misdelivers :
  forall (magic : list N) (H4 : list N -> list N) (ids : list (list N)) (initiating : bool)
         (S : Type) (kex : list N -> S) (rterm : S -> list N) (ldec : S -> nat -> list N -> Z)
         (pdec : S -> nat -> list N -> list N -> option (N * list N)),
  length magic = MESSAGE_START_SIZE -> (forall p, length (H4 p) = CHECKSUM_SIZE) ->
  (forall s n b, (0 <= ldec s n b < 16777216)%Z) ->
  forall (pk : list N) (pkts0 : list (bool * list N)),
  (forall n aad c h m, pdec (kex pk) n aad c = Some (h, m) ->
     exists ig, nth_error pkts0 n = Some (ig, m) /\ h = hdr_byte ig) ->
  (forall pk', pk' <> pk -> forall n aad c, pdec (kex pk') n aad c = None) ->
  forall (w : list N) (chunks : list (list N)),
  concat chunks = w -> small w ->
  ~ (initiating = false /\ exists tl, w = v1_prefix magic ++ tl) ->
  exists k, k <= length pkts0 /\
    conn_outs (node_recv_chunks (v2_iter magic H4 ids initiating S kex rterm ldec pdec)
                 (Alive (v2_init initiating S) []) chunks) = v2_expected ids false (firstn k pkts0).
Proof. exact v2_tamper_delivers_prefix. Qed.
Print Assumptions C32_v2_tamper_never_misdelivers.

Theorem C32_v2_expected_prefix :
  forall (ids : list (list N)) (l : list (bool * list N)) (k : nat) (a : bool),
  exists tl, v2_expected ids a l = v2_expected ids a (firstn k l) ++ tl.
Proof. exact v2_expected_firstn_prefix. Qed.
Print Assumptions C32_v2_expected_prefix.

(* the terminator search holds at most MAX_GARBAGE_LEN + GARBAGE_TERMINATOR_LEN bytes (generated constants) *)
Theorem C32_v2_garbage_bound :
  forall (magic : list N) (H4 : list N -> list N) (ids : list (list N)) (initiating : bool)
         (S : Type) (kex : list N -> S) (rterm : S -> list N) (ldec : S -> nat -> list N -> Z)
         (pdec : S -> nat -> list N -> list N -> option (N * list N)),
  length magic = MESSAGE_START_SIZE -> (forall p, length (H4 p) = CHECKSUM_SIZE) ->
  (forall s n b, (0 <= ldec s n b < 16777216)%Z) ->
  forall (s0 : S) (w : list N) (acc : list out),
  MAX_GARBAGE_LEN + GARBAGE_TERMINATOR_LEN <= length w -> small w ->
  match run (v2st S) (v2_iter magic H4 ids initiating S kex rterm ldec pdec) (SGarb s0 []) w acc with
  | Alive (SGarb _ _) _ => False
  | _ => True
  end.
Proof. exact v2_garbage_bound. Qed.
Print Assumptions C32_v2_garbage_bound.

(* ---- message type encoding ---------------------------------------------------------------------- *)

(* the table compiled into net.cpp (generated through GetMessageType) is the BIP324 table; every entry decodes
   back to itself after encoding, a named entry's id is its index; ids beyond the table are rejected *)
Theorem C32_shortid_table :
  TR_V2_SHORTID_DECODE = map Some BIP324_SHORT_IDS ++ repeat None (255 - length BIP324_SHORT_IDS) /\
  Z.of_nat (Datatypes.S (length BIP324_SHORT_IDS)) = TR_SHORTIDS_IMPLEMENTED /\
  (forall k t, nth_error BIP324_SHORT_IDS k = Some t ->
     exists j, v2_short_id BIP324_SHORT_IDS t = Some j /\
               nth_error BIP324_SHORT_IDS (N.to_nat j - 1) = Some t /\
               (t <> [] -> j = N.of_nat (Datatypes.S k))) /\
  (forall b rest, (N.of_nat (length BIP324_SHORT_IDS) < b)%N -> v2_get_message_type BIP324_SHORT_IDS (b :: rest) = None).
Proof.
  split; [exact shortid_table_generated_is_bip324|]. split; [exact shortid_count|].
  split; [exact shortid_decode_encode|]. exact (shortid_unknown_rejected BIP324_SHORT_IDS).
Qed.
Print Assumptions C32_shortid_table.

(* what SetMessageToSend puts into a packet decodes to the same type and payload, for every table *)
Theorem C32_v2_contents_roundtrip :
  forall (ids : list (list N)) (t p : list N), type_ok 127 t ->
  v2_get_received_message ids (v2_contents ids t p) = Delivered t p.
Proof. exact v2_contents_roundtrip. Qed.
Print Assumptions C32_v2_contents_roundtrip.

(* ---- non-vacuity: a concrete cipher satisfying the round-trip premises, run through the theorem --------- *)
Example C32_nonvacuous_v2 :
  let ids := BIP324_SHORT_IDS in
  let pk := repeat 1%N 64 in
  let pkts := [(true, [9%N]); (false, []); (true, []); (false, v2_contents ids (bytes_of_ascii "ping"%string) [1%N; 2%N; 3%N]);
               (false, [200%N; 1%N])] in
  let w := v2_stream toy_term toy_lenc toy_penc pk [5%N; 6%N] pkts in
  conn_outs (node_recv_chunks (v2_iter TR_MAGIC_main toy_H4 ids true unit toy_kex toy_rterm toy_ldec toy_pdec)
               (Alive (v2_init true unit) []) [firstn 70 w; firstn 31 (skipn 70 w); skipn 31 (skipn 70 w)])
  = [Delivered (bytes_of_ascii "ping"%string) [1%N; 2%N; 3%N]; Rejected].
Proof.
  cbv zeta.
  set (pkts := [(true, [9%N]); (false, []); (true, []);
                (false, v2_contents BIP324_SHORT_IDS (bytes_of_ascii "ping"%string) [1%N; 2%N; 3%N]); (false, [200%N; 1%N])]).
  set (w := v2_stream toy_term toy_lenc toy_penc (repeat 1%N 64) [5%N; 6%N] pkts).
  destruct (C32_v2_roundtrip TR_MAGIC_main toy_H4 BIP324_SHORT_IDS true unit toy_kex toy_rterm toy_ldec toy_pdec
              eq_refl toy_H4_len toy_ldec_range (repeat 1%N 64) toy_term toy_lenc toy_penc
              eq_refl ltac:(discriminate) eq_refl eq_refl toy_lenc_ok toy_penc_ok
              [5%N; 6%N] pkts [firstn 70 w; firstn 31 (skipn 70 w); skipn 31 (skipn 70 w)]) as [Houts _].
  - vm_compute. lia.
  - intros k Hk. cbn [length] in Hk. assert (k = 16 \/ k = 17) as [E|E] by lia; subst k; vm_compute; discriminate.
  - repeat constructor; vm_compute; discriminate.
  - cbn [concat]. rewrite app_nil_r. rewrite !firstn_skipn. reflexivity.
  - unfold small. vm_compute. discriminate.
  - rewrite Houts. vm_compute. reflexivity.
Qed.

Example C32_nonvacuous_v1 :
  let msgs := [(bytes_of_ascii "verack"%string, []); (bytes_of_ascii "ping"%string, [1%N; 2%N; 3%N; 4%N; 5%N; 6%N; 7%N; 8%N])] in
  let w := v1_stream TR_MAGIC_main toy_H4 msgs in
  node_recv_chunks (v1_iter TR_MAGIC_main toy_H4) (Alive v1_init []) [firstn 23 w; firstn 2 (skipn 23 w); skipn 2 (skipn 23 w)]
  = Alive v1_init (map (fun m => Delivered (fst m) (snd m)) msgs).
Proof.
  cbv zeta. apply (C32_v1_roundtrip TR_MAGIC_main toy_H4 eq_refl toy_H4_len).
  - repeat constructor; vm_compute; try reflexivity; try discriminate.
  - cbn [concat]. rewrite app_nil_r. rewrite !firstn_skipn. reflexivity.
  - unfold small. vm_compute. discriminate.
Qed.
