(* C42: wallet encryption protects keys.
   Statements only; proofs in proofs/WalletCryptLemmas.v, model in model/WalletCrypt.v.

   The wallet logic is a state machine over an abstract cipher `c` (key derivation, encryption, decryption, public key
   of a secret, IV of a public key); the premise about the cipher is the round trip `dec k iv (enc k iv p) = Some p`,
   which the Crypto family's AES-256-CBC model satisfies (C42_real_cipher_round_trip).  Every mutating database call
   of EncryptWallet / ChangeWalletPassphrase succeeds or fails as an arbitrary oracle `o` says; `true` selects this
   tree's code (results of the writes checked, code_chk). *)
From Coq Require Import ZArith NArith List Bool Lia.
From BV Require Import lib.Ints model.CryptoBase model.CryptoAES model.WalletCrypt proofs.WalletCryptLemmas.
Import ListNotations.

(* EncryptWallet, for EVERY outcome of every database call: either it reports success and then the committed database
   holds the master key record and no plaintext key record, the file has been rewritten, the wallet is locked, every
   key is held encrypted under the master key with the IV taken from its public key, and unlocking with the passphrase
   gives every original descriptor exactly its original secret back; or (false, or the process died on an assert) the
   committed database is exactly what it was: fully unencrypted with its original keys. *)
Theorem C42_encrypt_wallet_all_or_nothing :
  forall (c : cipher), (forall k iv p, c_dec c k iv (c_enc c k iv p) = Some p) ->
  forall st pass mk salt news o st' r,
    plain_wallet c st -> Forall (fun x => length (snd x) = 32) news ->
    encrypt_wallet true c st pass mk salt news o = (st', r) ->
    match r with
    | RTrue =>
      no_plain (committed (w_db st')) /\ pending (w_db st') = None /\ w_dirty st' = false /\ is_locked st' = true /\
      committed (w_db st') (KMaster (S (w_maxid st))) = Some (VMaster salt (snd (encrypt_master c pass salt mk))) /\
      Forall (enc_under c mk) (w_spk st') /\
      exists st'', unlock_pass c st' pass = (st'', true) /\
        forall s sec, In s (w_spk st) -> s_plain s = Some sec ->
          exists s', In s' (w_spk st'') /\ s_id s' = s_id s /\ get_key c st'' s' = Some sec
    | _ => committed (w_db st') = committed (w_db st) /\ pending (w_db st') = None
    end.
Proof. intros c RT st pass mk salt news o st' r PW HL H. eapply encrypt_wallet_spec; eauto. left; reflexivity. Qed.
Print Assumptions C42_encrypt_wallet_all_or_nothing.

(* once no plaintext key exists in memory or in a record (e.g. after a successful EncryptWallet), no sequence of
   operations (encrypt attempts, lock, unlock, passphrase changes, restarts), whatever fails, brings one back *)
Theorem C42_no_plaintext_key_ever_reappears :
  forall c chk ops st xs st',
    st_no_plain st -> run chk c st ops = (xs, st') -> st_no_plain st'.
Proof. intros. eapply run_no_plain; eassumption. Qed.
Print Assumptions C42_no_plaintext_key_ever_reappears.

(* signing fails while the wallet is locked: no manager can produce a private key *)
Theorem C42_locked_wallet_cannot_sign :
  forall c st, is_locked st = true -> (forall s, In s (w_spk st) -> s_plain s = None) -> can_sign c st = 0.
Proof. exact locked_cannot_sign. Qed.
Print Assumptions C42_locked_wallet_cannot_sign.

(* Unlock(passphrase) enters the unlocked state only with a master key that the passphrase-derived key decrypts from a
   stored master key record AND that decrypts every crypted key to a 32-byte secret whose public key is the stored
   public key (a wrong passphrase therefore unlocks only on a coincidence of that check: stated exactly, not as "never");
   a failed Unlock changes nothing *)
Theorem C42_unlock_only_with_matching_keys :
  forall c st pass st', unlock_pass c st pass = (st', true) ->
    exists id rec mk, In (id, rec) (w_mk st) /\ decrypt_master c pass rec = Some mk /\ w_vm st' = Some mk /\
      forall s, In s (w_spk st) -> s_plain s = None /\
        forall ct, s_crypt s = Some ct -> exists sec, c_dec c mk (c_iv c (s_pub s)) ct = Some sec /\ length sec = 32 /\ c_pub c sec = s_pub s.
Proof. exact unlock_pass_sound. Qed.
Print Assumptions C42_unlock_only_with_matching_keys.

Theorem C42_failed_unlock_changes_nothing :
  forall c st pass st', unlock_pass c st pass = (st', false) -> st' = st.
Proof. exact unlock_pass_fail. Qed.
Print Assumptions C42_failed_unlock_changes_nothing.

(* passphrase change, for either outcome of its database write: success = the record in memory AND on disk is the same
   master key under the new passphrase (so the new passphrase restores the same keys, also after a restart); failure =
   memory and disk keep the old record; key records are never touched *)
Theorem C42_passphrase_change_keeps_the_master_key :
  forall (c : cipher), (forall k iv p, c_dec c k iv (c_enc c k iv p) = Some p) ->
  forall st id rec mk old new o st' r,
    w_mk st = [(id, rec)] -> decrypt_master c old rec = Some mk -> Forall (enc_under c mk) (w_spk st) ->
    pending (w_db st) = None ->
    change_passphrase true c st old new o = (st', r) ->
    w_spk st' = w_spk st /\ pending (w_db st') = None /\
    (forall k, (forall i, k <> KMaster i) -> committed (w_db st') k = committed (w_db st) k) /\
    if r
    then let rec' := encrypt_master c new (fst rec) mk in
         w_mk st' = [(id, rec')] /\ committed (w_db st') (KMaster id) = Some (VMaster (fst rec') (snd rec')) /\
         decrypt_master c new rec' = Some mk
    else w_mk st' = w_mk st /\ committed (w_db st') = committed (w_db st).
Proof. intros c RT st id rec mk old new o st' r A B C D E. eapply change_passphrase_spec; eauto. Qed.
Print Assumptions C42_passphrase_change_keeps_the_master_key.

(* the premise holds of the real cipher: EncryptSecret / DecryptSecret over AES-256-CBC with PKCS#7 padding (Crypto
   family model, tied to crypto/aes.cpp by C49 and to wallet/crypter.cpp by this property's byte-level tie) *)
Theorem C42_real_cipher_round_trip :
  forall mk secret iv32 ct,
    length mk = 32 -> bytes_ok mk -> length iv32 = 32 -> bytes_ok iv32 -> bytes_ok secret -> secret <> [] ->
    encrypt_secret mk secret iv32 = Some ct -> decrypt_secret mk ct iv32 = Some secret.
Proof. exact secret_round_trip. Qed.
Print Assumptions C42_real_cipher_round_trip.

(* ---- the code before the fixes (chk = false), on the ideal cipher: why each check is needed ---- *)
Definition sec (i : N) : bytes := i :: repeat 7%N 31.
Definition w0 : wst := init ideal_cipher [(0, sec 1); (1, sec 2)].
Definition enc_op (bits : list bool) : op := OEnc [97%N] (sec 9) [1;2;3;4;5;6;7;8]%N [(2, sec 3)] bits.
Definition rel : op := OReload [0; 1; 2] [0; 1; 2].

(* A (/repo 21144c2): the master key write fails, is ignored, the transaction commits: crypted keys without a master key *)
Theorem C42_unchecked_master_key_write_would_lose_the_keys :
  let st := snd (run false ideal_cipher w0 [enc_op [true; false]; rel]) in
  w_dead st = false /\ has_enc st = false /\ can_sign ideal_cipher st = 0 /\
  committed (w_db st) (KMaster 1) = None /\ committed (w_db st) (KPlain 0) = None /\ committed (w_db st) (KCrypt 0) <> None.
Proof. vm_compute. repeat split; discriminate. Qed.
Print Assumptions C42_unchecked_master_key_write_would_lose_the_keys.

(* B (/repo 767b57b): a crypted key write fails and is ignored: EncryptWallet succeeds with a plaintext key record left,
   and after a restart that descriptor signs while the wallet is locked *)
Theorem C42_unchecked_crypted_key_write_would_leave_plaintext :
  let '(xs, st) := run false ideal_cipher w0 [enc_op [true; true; false]; rel] in
  xs = [OutB true; OutLoad] /\ is_locked st = true /\ committed (w_db st) (KPlain 0) <> None /\ can_sign ideal_cipher st = 1.
Proof. vm_compute. repeat split; discriminate. Qed.
Print Assumptions C42_unchecked_crypted_key_write_would_leave_plaintext.

(* C (/repo 8268070): the erase of the plaintext record fails and is ignored: both records exist, the wallet no longer loads *)
Theorem C42_unchecked_key_erase_would_make_the_wallet_unloadable :
  let '(xs, st) := run false ideal_cipher w0 [enc_op [true; true; true; false]; rel] in
  xs = [OutB true; OutLoad] /\ w_dead st = true.
Proof. vm_compute. split; reflexivity. Qed.
Print Assumptions C42_unchecked_key_erase_would_make_the_wallet_unloadable.

(* D (/repo e225567): the master key write of a passphrase change fails and is ignored: success is reported, the new
   passphrase works until the restart and not after it *)
Theorem C42_unchecked_passphrase_write_would_revert_on_restart :
  let '(xs, _) := run false ideal_cipher w0 [enc_op []; OChPass [97%N] [98%N] [false]; OUnlock [98%N]; rel; OUnlock [98%N]; OUnlock [97%N]] in
  xs = [OutB true; OutB true; OutB true; OutLoad; OutB false; OutB true].
Proof. vm_compute. reflexivity. Qed.
Print Assumptions C42_unchecked_passphrase_write_would_revert_on_restart.

(* E (/repo eec7c54): TxnBegin fails, the new master key stays in mapMasterKeys: "encrypted and locked" with plaintext
   keys, signs although locked, cannot be unlocked or encrypted again until the restart *)
Theorem C42_failed_begin_would_leave_the_master_key :
  let '(xs, st) := run false ideal_cipher w0 [enc_op [false]; OUnlock [97%N]; enc_op []] in
  xs = [OutB false; OutB false; OutB false] /\ is_locked st = true /\ can_sign ideal_cipher st = 2.
Proof. vm_compute. repeat split; reflexivity. Qed.
Print Assumptions C42_failed_begin_would_leave_the_master_key.

(* with this tree's code the same five fault schedules are clean failures *)
Theorem C42_checked_witnesses :
  fst (run true ideal_cipher w0 [enc_op [true; false]; rel]) = [OutB false; OutLoad] /\
  fst (run true ideal_cipher w0 [enc_op [true; true; false]]) = [OutDied] /\
  fst (run true ideal_cipher w0 [enc_op [true; true; true; false]]) = [OutDied] /\
  fst (run true ideal_cipher w0 [enc_op []; OChPass [97%N] [98%N] [false]; OUnlock [98%N]; rel; OUnlock [98%N]; OUnlock [97%N]])
    = [OutB true; OutB false; OutB false; OutLoad; OutB false; OutB true] /\
  (let '(xs, st) := run true ideal_cipher w0 [enc_op [false]; enc_op []] in xs = [OutB false; OutB true] /\ is_locked st = true /\ can_sign ideal_cipher st = 0).
Proof. vm_compute. repeat split; reflexivity. Qed.
Print Assumptions C42_checked_witnesses.

(* non-vacuity: the ideal cipher satisfies the premise, the initial wallet satisfies plain_wallet, and a fault-free
   encryption of it succeeds *)
Example C42_nonvacuous :
  (forall k iv p, c_dec ideal_cipher k iv (c_enc ideal_cipher k iv p) = Some p) /\
  plain_wallet ideal_cipher w0 /\
  snd (encrypt_wallet true ideal_cipher w0 [97%N] (sec 9) [1;2;3;4;5;6;7;8]%N [(2, sec 3)] []) = RTrue.
Proof.
  split; [exact ideal_round_trip|]. split; [|vm_compute; reflexivity].
  unfold plain_wallet. split; [reflexivity|]. split.
  - unfold w0, init. cbn [map w_spk]. repeat (apply Forall_cons; [split; [reflexivity|]; eexists; split; [reflexivity|]; split; reflexivity|]). apply Forall_nil.
  - split.
    + unfold w0, init. cbn. repeat constructor; cbn; intuition (try discriminate).
    + split; [reflexivity|]. intros id H. unfold w0, init in *. cbn in *. destruct id as [|[|id]]; auto; exfalso; apply H; reflexivity.
Qed.
