(* C34  Transaction download scheduling follows its specification.
   Only statements here; each is closed by `exact` of a lemma from proofs/TxRequestMain.v.

   Reading guide.  `run prio t_empty ops` executes an arbitrary sequence `ops` of the public operations
   (ReceivedInv / GetRequestable / RequestedTx / ReceivedResponse / ForgetTxHash / DisconnectedPeer, with any
   arguments, clock values in any order) on the model of TxRequestTracker::Impl (model/TxRequest.v) from the
   empty tracker, for an ARBITRARY priority function `prio`.  The only restriction is that fewer than 2^59
   operations are run: m_sequence is a 59-bit field, and the statements are about trackers that have not
   exhausted it.  `t_bad` is the model's flag for "an assert failed or an end() iterator was dereferenced". *)
From BV Require Import lib.Ints model.TxRequest proofs.TxRequestBasics proofs.TxRequestInv proofs.TxRequestOps
  proofs.TxRequestSteps proofs.TxRequestPost proofs.TxRequestRefine proofs.TxRequestMain.
From Coq Require Import Sorting.Sorted Sorting.Permutation.
Local Open Scope Z_scope.

(* SanityCheck() holds in every reachable state: no assert fails; m_peerinfo equals its recomputation
   (RecomputePeerInfo; in particular no entry with m_total == 0); (peer, txhash) is a key; per txhash at most one
   CANDIDATE_BEST-or-REQUESTED, exactly one if there is a CANDIDATE_READY, and never only COMPLETED ones; the
   CANDIDATE_BEST has at least the priority of every CANDIDATE_READY; sequence numbers increase along the index. *)
Theorem C34_sanity_check_in_every_reachable_state : forall prio ops, Z.of_nat (length ops) <= 2 ^ 59 ->
  let t := fst (run prio t_empty ops) in
  t_bad t = false /\
  (forall p, t_peerinfo t p = recompute_peerinfo (t_index t) p) /\
  NoDup (map (fun a => (a_peer a, a_txhash a)) (t_index t)) /\
  (forall h, let n := fun st => cnt (in_st h st) (t_index t) in
     n CANDIDATE_BEST + n REQUESTED <= 1 /\
     (0 < n CANDIDATE_READY -> n CANDIDATE_BEST + n REQUESTED = 1) /\
     (0 < n COMPLETED -> 0 < n CANDIDATE_DELAYED + n CANDIDATE_READY + n CANDIDATE_BEST + n REQUESTED)) /\
  (forall a b, In a (t_index t) -> In b (t_index t) -> a_txhash a = a_txhash b ->
     a_state a = CANDIDATE_BEST -> a_state b = CANDIDATE_READY -> prio_of prio b <= prio_of prio a) /\
  StronglySorted Z.lt (map a_seq (t_index t)).
Proof. exact clause_sanity. Qed.
Print Assumptions C34_sanity_check_in_every_reachable_state.

(* "never has two outstanding requests for the same transaction": two selected (REQUESTED or CANDIDATE_BEST)
   announcements of one txhash are the same announcement *)
Theorem C34_never_two_outstanding_requests : forall prio ops, Z.of_nat (length ops) <= 2 ^ 59 ->
  let t := fst (run prio t_empty ops) in
  forall a b, In a (t_index t) -> In b (t_index t) -> a_txhash a = a_txhash b ->
  is_selected a = true -> is_selected b = true -> a = b.
Proof. exact clause_one_selected. Qed.
Print Assumptions C34_never_two_outstanding_requests.

(* "forgets a transaction once only failed announcements remain": a tracked txhash always has an announcement
   that is not COMPLETED *)
Theorem C34_forgets_txhash_with_only_completed : forall prio ops, Z.of_nat (length ops) <= 2 ^ 59 ->
  let t := fst (run prio t_empty ops) in
  forall a, In a (t_index t) -> exists b, In b (t_index t) /\ a_txhash b = a_txhash a /\ a_state b <> COMPLETED.
Proof. exact clause_forgets. Qed.
Print Assumptions C34_forgets_txhash_with_only_completed.

(* GetRequestable(p, now) in any reachable state: the answer is exactly the peer's CANDIDATE_BEST announcements in
   announcement (sequence) order; afterwards PostGetRequestableSanityCheck(now) holds; every returned announcement
   is a candidate (never requested before) whose earliest time has come, for a txhash without outstanding request,
   and no candidate of the txhash whose time has come has a higher priority; and a txhash with a candidate whose
   time has come, or a request in flight, keeps a selected announcement (no stall). *)
Theorem C34_get_requestable : forall prio ops p now, Z.of_nat (length ops) <= 2 ^ 59 ->
  let t := fst (run prio t_empty ops) in
  let t' := fst (fst (get_requestable prio t p now)) in
  let r := snd (fst (get_requestable prio t p now)) in
  let best := filter (fun a => has_peer p a && st_is CANDIDATE_BEST a) (t_index t') in
  r = map gtxid_of best /\ StronglySorted Z.lt (map a_seq best) /\
  (forall a, In a (t_index t') -> is_waiting a = true -> now < a_time a) /\
  (forall a, In a (t_index t') -> is_selectable a = true -> a_time a <= now) /\
  (forall a, In a best ->
     a_peer a = p /\ is_candidate a = true /\ a_time a <= now /\
     (forall b, In b (t_index t') -> a_txhash b = a_txhash a -> a_state b <> REQUESTED) /\
     (forall b, In b (t_index t') -> a_txhash b = a_txhash a -> is_candidate b = true -> a_time b <= now ->
                prio_of prio b <= prio_of prio a)) /\
  (forall a, In a (t_index t') -> (is_candidate a = true /\ a_time a <= now) \/ a_state a = REQUESTED ->
     exists b, In b (t_index t') /\ a_txhash b = a_txhash a /\ is_selected b = true).
Proof. exact clause_get_requestable. Qed.
Print Assumptions C34_get_requestable.

(* "prefers preferred peers whenever one is available": if the priority function ranks preferred above
   non-preferred, a non-preferred announcement is only selected when no preferred candidate's time has come *)
Theorem C34_preferred_first : forall prio ops p now,
  (forall h p1 p2, prio h p2 false < prio h p1 true) -> Z.of_nat (length ops) <= 2 ^ 59 ->
  let t := fst (run prio t_empty ops) in
  let t' := fst (fst (get_requestable prio t p now)) in
  forall a, In a (t_index t') -> a_peer a = p -> a_state a = CANDIDATE_BEST -> a_pref a = false ->
  forall b, In b (t_index t') -> a_txhash b = a_txhash a -> is_candidate b = true -> a_time b <= now ->
  a_pref b = false.
Proof. exact clause_preferred_first. Qed.
Print Assumptions C34_preferred_first.

(* ... and the modelled PriorityComputer (SipHash-2-4 >> 1 | preferred << 63) does rank that way *)
Theorem C34_modelled_priority_ranks_preferred_first : forall h p1 p2,
  compute_priority h p2 false < compute_priority h p1 true.
Proof. exact compute_priority_prefers_preferred. Qed.
Print Assumptions C34_modelled_priority_ranks_preferred_first.

(* "never requests a transaction twice from the same peer for one announcement": along every continuation ops2 of a
   run ops1, an announcement (same txhash, peer and sequence number) that was REQUESTED is still that same request
   (same expiry) or COMPLETED, and one that was COMPLETED stays COMPLETED - it is never a candidate again, so by
   C34_get_requestable it is never returned again, and RequestedTx (which only converts candidates) never
   re-requests it. *)
Theorem C34_never_requested_twice : forall prio ops1 ops2,
  Z.of_nat (length ops1) + Z.of_nat (length ops2) <= 2 ^ 59 ->
  let t := fst (run prio t_empty ops1) in
  let t2 := fst (run prio t ops2) in
  forall a x, In a (t_index t) -> In x (t_index t2) ->
    a_txhash x = a_txhash a -> a_peer x = a_peer a -> a_seq x = a_seq a ->
    (a_state a = REQUESTED -> (a_state x = REQUESTED \/ a_state x = COMPLETED) /\ a_time x = a_time a) /\
    (a_state a = COMPLETED -> a_state x = COMPLETED).
Proof. exact clause_never_requested_twice. Qed.
Print Assumptions C34_never_requested_twice.

(* "Its answers match an announcement-level reference model": under the premise that two peers never get the same
   priority for one txhash (a 63-bit SipHash collision otherwise), the CANDIDATE_BEST announcements after
   GetRequestable are exactly those the reference specification selects ... *)
Theorem C34_best_is_what_the_specification_selects : forall prio ops p now,
  (forall h p1 p2 f1 f2, prio h p1 f1 = prio h p2 f2 -> p1 = p2) -> Z.of_nat (length ops) <= 2 ^ 59 ->
  let t := fst (run prio t_empty ops) in
  let t' := fst (fst (get_requestable prio t p now)) in
  forall a, In a (t_index t') -> (a_state a = CANDIDATE_BEST <-> s_selected prio (t_index t') now a = true).
Proof. exact clause_best_is_selected. Qed.
Print Assumptions C34_best_is_what_the_specification_selects.

(* ... and the whole run refines the reference specification s_run (model/TxRequest.v: candidates are not split
   into DELAYED/READY/BEST, the selection is recomputed from scratch at every GetRequestable): forgetting the
   candidate sub-state (norm_ann) maps the reached tracker state to the reached specification state, every
   GetRequestable returns the same list, the expired lists are permutations of each other (out_rel), and
   Count / CountInFlight / CountCandidates / Size / GetCandidatePeers agree. *)
Theorem C34_refines_reference_model : forall prio ops,
  (forall h p1 p2 f1 f2, prio h p1 f1 = prio h p2 f2 -> p1 = p2) -> Z.of_nat (length ops) <= 2 ^ 59 ->
  let t := fst (run prio t_empty ops) in
  let s := fst (s_run prio s_empty ops) in
  mkS (t_seq t) (map norm_ann (t_index t)) = s /\
  Forall2 out_rel (snd (run prio t_empty ops)) (snd (s_run prio s_empty ops)) /\
  (forall p h, count_total t p = s_count s p /\ count_in_flight t p = s_count_in_flight s p /\
               count_candidates t p = s_count_candidates s p /\ tracker_size t = s_size s /\
               candidate_peers t h = s_candidate_peers s h).
Proof. exact clause_refines. Qed.
Print Assumptions C34_refines_reference_model.

(* non-vacuity: a concrete run with the modelled priority function.  A preferred and a non-preferred peer announce
   txhash 7 for time 10; the preferred peer 1 gets it at time 10; it is requested with expiry 20; nothing is
   requestable by peer 2 at 15; at 20 the request has expired (reported) and peer 2 gets the transaction. *)
Example C34_nonvacuous :
  let ops := [OpInv 1 7 false true 10; OpInv 2 7 true false 10; OpGet 1 10; OpReq 1 7 20; OpGet 2 15; OpGet 2 20] in
  snd (run compute_priority t_empty ops) =
    [None; None; Some ([(7, false)], []); None; Some ([], []); Some ([(7, true)], [(1, (7, false))])] /\
  map a_state (t_index (fst (run compute_priority t_empty ops))) = [COMPLETED; CANDIDATE_BEST] /\
  Z.of_nat (length ops) <= 2 ^ 59.
Proof. vm_compute. repeat split; intros; discriminate. Qed.
