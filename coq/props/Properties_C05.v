(* C05  Timelocks and coinbase maturity are enforced exactly.
   Only statements here; each is closed by `exact` of a lemma from proofs/LocksLemmas.v.
   A chain is the list of its blocks' times by height; the block being validated is its last element
   (height = block_height chain = length - 1). *)
From Coq Require Import Sorting.Sorted Sorting.Permutation.
From BV Require Import lib.Ints gen.Params_gen model.Locks proofs.LocksLemmas.
Local Open Scope Z_scope.

(* Absolute locktime.  For every uint32 nLockTime and int height: IsFinalTx accepts iff the locktime is 0,
   or it is a height (< 500,000,000) strictly below the block height, or it is a time strictly below
   the cutoff time, or every input has the final sequence number 0xffffffff. *)
Theorem C05_is_final_iff : forall t height time,
  0 <= lt_locktime t <= 4294967295 -> -2147483648 <= height <= 2147483647 ->
  (is_final_tx t height time = true <->
   lt_locktime t = 0
   \/ (lt_locktime t < 500000000 /\ lt_locktime t < height)
   \/ (500000000 <= lt_locktime t /\ lt_locktime t < time)
   \/ Forall (fun s => s = 4294967295) (lt_seqs t)).
Proof. exact is_final_iff. Qed.
Print Assumptions C05_is_final_iff.

(* In a block: the height is the predecessor's height + 1 and the cutoff time is the predecessor's
   median time past once CSV (BIP113) is active, the block's own time before. *)
Theorem C05_block_locktime_cutoff : forall prev_chain csv_active block_time txs,
  (1 <= length prev_chain)%nat -> Z.of_nat (length prev_chain) <= 2147483647 ->
  (forall t, In t txs -> 0 <= lt_locktime t <= 4294967295) ->
  exists cutoff,
    (csv_active = true -> mtp_at prev_chain (Z.of_nat (length prev_chain) - 1) = Some cutoff) /\
    (csv_active = false -> cutoff = block_time) /\
    contextual_txs_final prev_chain csv_active block_time txs =
      Some (forallb (fun t => spec_final_b t (Z.of_nat (length prev_chain)) cutoff) txs).
Proof. exact contextual_final_iff. Qed.
Print Assumptions C05_block_locktime_cutoff.

(* spec_final_b is the boolean form of the condition of C05_is_final_iff *)
Theorem C05_spec_final_b_iff : forall t height time,
  spec_final_b t height time = true <->
   lt_locktime t = 0
   \/ (lt_locktime t < 500000000 /\ lt_locktime t < height)
   \/ (500000000 <= lt_locktime t /\ lt_locktime t < time)
   \/ Forall (fun s => s = 4294967295) (lt_seqs t).
Proof. exact spec_final_b_iff. Qed.
Print Assumptions C05_spec_final_b_iff.

(* Median time past.  It is defined exactly for the heights of the chain, and is element number n/2
   (from 0) of the ascending arrangement of the times of the last n = min(11, h+1) blocks ending at
   height h.  (Block times need not be monotone.) *)
Theorem C05_mtp_is_median : forall chain h m,
  mtp_at chain h = Some m <->
  0 <= h < Z.of_nat (length chain) /\
  exists s, Permutation s (last_times chain (Z.to_nat h)) /\ Sorted Z.le s /\
            nth_error s (Nat.div (length (last_times chain (Z.to_nat h))) 2) = Some m.
Proof. exact mtp_at_iff. Qed.
Print Assumptions C05_mtp_is_median.

(* last_times chain h is the times at heights h+1-n .. h with n = min(11, h+1) *)
Theorem C05_mtp_window : forall chain h, (h < length chain)%nat ->
  length (last_times chain h) = Nat.min 11 (h + 1) /\
  forall i, (i < Nat.min 11 (h + 1))%nat ->
            nth_error (last_times chain h) i = nth_error chain (h + 1 - Nat.min 11 (h + 1) + i).
Proof. exact last_times_spec. Qed.
Print Assumptions C05_mtp_window.

(* the median is well defined: any two sorted arrangements give the same element *)
Theorem C05_median_unique : forall w m1 m2, median_of w m1 -> median_of w m2 -> m1 = m2.
Proof. exact median_of_unique. Qed.
Print Assumptions C05_median_unique.

(* Relative locktime (BIP68).  For every version-uint32 transaction, uint32 sequence numbers, coin heights
   0..H+1, and chain of 2..2^31-65536 blocks with uint32 times: SequenceLocks returns (no assertion
   fails) and accepts iff every input whose lock is in force (version >= 2, LOCKTIME_VERIFY_SEQUENCE
   flag, disable bit 31 clear) satisfies
     height-type (bit 22 clear):  coinHeight + v <= blockHeight
     time-type   (bit 22 set):    MTP(block max(coinHeight-1,0)) + 512*v <= MTP(blockHeight-1)
   with v = the low 16 bits: the two "-1"s of the code cancel exactly. *)
Theorem C05_sequence_locks_iff : forall t flags prevHeights chain,
  wf_locks_input t prevHeights chain ->
  exists b, sequence_locks t flags prevHeights chain = Some b /\
   (b = true <->
    forall s ch, In (s, ch) (combine (lt_seqs t) prevHeights) ->
      2 <= lt_version t -> Z.testbit flags 0 = true -> Z.testbit s 31 = false ->
      if Z.testbit s 22
      then exists a b', mtp_at chain (Z.max (ch - 1) 0) = Some a /\
                        mtp_at chain (block_height chain - 1) = Some b' /\
                        a + 512 * (s mod 65536) <= b'
      else ch + s mod 65536 <= block_height chain).
Proof. exact sequence_locks_iff. Qed.
Print Assumptions C05_sequence_locks_iff.

(* not enforced at all for version < 2, without the flag, or when every input has the disable bit *)
Theorem C05_sequence_locks_disabled : forall t flags prevHeights chain,
  wf_locks_input t prevHeights chain ->
  lt_version t < 2 \/ Z.testbit flags 0 = false \/ Forall (fun s => Z.testbit s 31 = true) (lt_seqs t) ->
  sequence_locks t flags prevHeights chain = Some true.
Proof. exact sequence_locks_disabled. Qed.
Print Assumptions C05_sequence_locks_disabled.

(* the boolean used by the violation search is that statement *)
Theorem C05_sequence_locks_is_spec_b : forall t flags prevHeights chain,
  wf_locks_input t prevHeights chain ->
  sequence_locks t flags prevHeights chain = Some (spec_sequence_locks_b t flags prevHeights chain).
Proof. exact sequence_locks_eq_spec. Qed.
Print Assumptions C05_sequence_locks_is_spec_b.

(* Coinbase maturity.  For heights representable in CheckTxInputs (int spend height, 31-bit coin height):
   no input is rejected iff every coinbase coin spent has depth spendHeight - coinHeight >= 100. *)
Theorem C05_maturity_iff : forall nSpendHeight coins,
  0 <= nSpendHeight <= 2147483647 -> (forall c, In c coins -> 0 <= c_height c <= 2147483647) ->
  (check_inputs_maturity nSpendHeight coins = true <->
   forall c, In c coins -> c_coinbase c = true -> 100 <= nSpendHeight - c_height c).
Proof. exact maturity_iff. Qed.
Print Assumptions C05_maturity_iff.

(* A transaction in a block, end to end (ContextualCheckBlock's finality test, then ConnectBlock's
   CheckTxInputs and SequenceLocks, CSV active iff the block height >= its activation height): the
   verdict is the one prescribed by the three rules above, in that order. *)
Theorem C05_block_tx_verdict : forall prev_chain csv_height block_time t coins,
  wf_locks_input t (map c_height coins) (prev_chain ++ [block_time]) ->
  0 <= lt_locktime t <= 4294967295 ->
  connect_tx_verdict prev_chain csv_height block_time t coins =
  (let N := Z.of_nat (length prev_chain) in
   match (if csv_height <=? N then spec_mtp prev_chain (N - 1) else Some block_time) with
   | None => None
   | Some cutoff =>
     Some (if negb (spec_final_b t N cutoff) then v_nonfinal
           else if negb (spec_mature_b N coins) then v_premature
           else if negb (spec_sequence_locks_b t (if csv_height <=? N then 1 else 0) (map c_height coins) (prev_chain ++ [block_time])) then v_nonfinal
           else v_ok)
   end).
Proof. exact connect_tx_verdict_is_spec. Qed.
Print Assumptions C05_block_tx_verdict.

(* the booleans in that statement are the stated rules *)
Theorem C05_spec_mtp_is_mtp : forall chain h, spec_mtp chain h = mtp_at chain h.
Proof. exact spec_mtp_eq. Qed.
Print Assumptions C05_spec_mtp_is_mtp.

Theorem C05_spec_mature_b_iff : forall nSpendHeight coins,
  spec_mature_b nSpendHeight coins = true <->
  forall c, In c coins -> c_coinbase c = true -> 100 <= nSpendHeight - c_height c.
Proof. exact spec_mature_b_iff. Qed.
Print Assumptions C05_spec_mature_b_iff.

(* Boundary cases, computed: exactly at the lock and one before. *)
Definition ex_chain : list Z := [1000; 1600; 1200; 3000; 2000; 2500; 2400; 9000; 2600; 2700; 2800; 2900; 5000].
Definition tx_h (v : Z) := {| lt_version := 2; lt_locktime := 0; lt_seqs := [v] |}.
Example C05_nonvacuous :
  (* absolute: locktime 12 needs height 13; time locktime needs time > locktime; final sequences escape *)
  is_final_tx {| lt_version := 1; lt_locktime := 12; lt_seqs := [0] |} 12 0 = false /\
  is_final_tx {| lt_version := 1; lt_locktime := 12; lt_seqs := [0] |} 13 0 = true /\
  is_final_tx {| lt_version := 1; lt_locktime := 499999999; lt_seqs := [0] |} 500000000 0 = true /\
  is_final_tx {| lt_version := 1; lt_locktime := 500000000; lt_seqs := [0] |} 2000000000 500000000 = false /\
  is_final_tx {| lt_version := 1; lt_locktime := 500000000; lt_seqs := [0] |} 0 500000001 = true /\
  is_final_tx {| lt_version := 1; lt_locktime := 500000000; lt_seqs := [4294967295; 4294967295] |} 0 0 = true /\
  (* MTP with non-monotone times: heights 0, 1, 12 *)
  mtp_at ex_chain 0 = Some 1000 /\ mtp_at ex_chain 1 = Some 1600 /\ mtp_at ex_chain 12 = Some 2700 /\
  mtp_at ex_chain 11 = Some 2600 /\ mtp_at ex_chain 13 = None /\
  (* relative height lock: coin at height 7, block at height 12: v = 5 passes, v = 6 fails *)
  sequence_locks (tx_h 5) 1 [7] ex_chain = Some true /\ sequence_locks (tx_h 6) 1 [7] ex_chain = Some false /\
  (* relative time lock: coin at height 3 (MTP of block 2 = 1200), MTP(11) = 2600: 1200 + 512*2 <= 2600 < 1200 + 512*3 *)
  sequence_locks (tx_h (4194304 + 2)) 1 [3] ex_chain = Some true /\
  sequence_locks (tx_h (4194304 + 3)) 1 [3] ex_chain = Some false /\
  (* disabled: version 1, flag off, disable bit *)
  sequence_locks {| lt_version := 1; lt_locktime := 0; lt_seqs := [6] |} 1 [7] ex_chain = Some true /\
  sequence_locks (tx_h 6) 0 [7] ex_chain = Some true /\
  sequence_locks (tx_h (2147483648 + 6)) 1 [7] ex_chain = Some true /\
  wf_locks_input (tx_h 6) [7] ex_chain /\
  (* maturity: depth 99 rejected, 100 accepted *)
  check_inputs_maturity 199 [{| c_height := 100; c_coinbase := true |}] = false /\
  check_inputs_maturity 200 [{| c_height := 100; c_coinbase := true |}] = true /\
  check_inputs_maturity 101 [{| c_height := 100; c_coinbase := false |}] = true.
Proof.
  repeat match goal with |- _ /\ _ => split end.
  all: try match goal with |- @eq _ _ _ => vm_compute; reflexivity end.
  unfold wf_locks_input, wf_chain.
  repeat match goal with |- _ /\ _ => split end.
  all: try match goal with |- @eq _ _ _ => vm_compute; reflexivity end.
  all: try match goal with |- Z.le _ _ => vm_compute; intros; discriminate end.
  all: repeat constructor; vm_compute; intros; discriminate.
Qed.
