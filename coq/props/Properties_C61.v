(* C61  Core containers and allocators behave like their standard counterparts.
   "For any sequence of operations, the small-buffer vector used for scripts, the bit deque, the ring-buffer
    deque and the pool memory resource behave exactly like the corresponding standard containers and
    allocators: same elements in the same order, allocations never overlap, memory accounting stays exact."
   Only statements here; each is closed by `exact` of a lemma from proofs/Cont*Lemmas.v.
   The models are of the REPRESENTATIONS (model/ContPrevector.v, ContVecDeque.v, ...); `*_abs` maps a
   representation to the plain list that the std container would hold. *)
From Coq Require Import List Arith Bool ZArith.
From BV Require Import model.ContBuf model.ContBitdeque model.ContVecDeque model.ContPrevector model.ContInst
  proofs.ContBitdequeLemmas proofs.ContVecDequeLemmas proofs.ContPrevectorLemmas.
Import ListNotations.

(* ---------------------------------------------------------------------------------------------------
   prevector<N,T>, for every element type T, every T{} and uninitialised-memory content, every N. *)

(* ALL operation scripts (any length) on a pair of prevectors: whenever the std::vector script is defined
   (no std precondition violated), the prevector script is defined (every memcpy/memmove/fill in bounds),
   the representation invariant holds at the end and the contents are the std::vector contents. *)
Theorem C61_prevector_refines_vector :
  forall (T : Type) (T0 junk : T) (N : nat) (ops : list (pvop T)) (st : pv T * pv T) (l : list T * list T),
    ContPrevectorLemmas.pair_inv T N st ->
    vec_run T T0 (ContPrevectorLemmas.pair_abs T N st) ops = Some l ->
    exists st', pv_run T T0 junk N st ops = Some st' /\
                ContPrevectorLemmas.pair_inv T N st' /\ ContPrevectorLemmas.pair_abs T N st' = l.
Proof. intros T T0 junk N ops. exact (pv_refines_vector T T0 junk N ops). Qed.
Print Assumptions C61_prevector_refines_vector.

(* ... and after EVERY operation of the script (what the drivers print and compare) *)
Theorem C61_prevector_trace :
  forall (T : Type) (T0 junk : T) (N : nat) (ops : list (pvop T)) (st : pv T * pv T) (l : list T * list T),
    ContPrevectorLemmas.pair_inv T N st ->
    vec_run T T0 (ContPrevectorLemmas.pair_abs T N st) ops = Some l ->
    map (option_map (ContPrevectorLemmas.pair_abs T N)) (pv_trace T T0 junk N st ops)
      = vec_trace T T0 (ContPrevectorLemmas.pair_abs T N st) ops /\
    Forall (fun o => exists st', o = Some st' /\ ContPrevectorLemmas.pair_inv T N st') (pv_trace T T0 junk N st ops).
Proof. intros T T0 junk N ops. exact (pv_trace_refines T T0 junk N ops). Qed.
Print Assumptions C61_prevector_trace.

(* the scripts start from default-constructed prevectors, which satisfy the invariant and are empty *)
Theorem C61_prevector_initial :
  forall (T : Type) (T0 : T) (N : nat),
    pv_inv T N (pv_empty T T0 N) /\ pv_abs T N (pv_empty T T0 N) = [].
Proof. intros. split; [apply pv_empty_inv | apply pv_empty_abs]. Qed.
Print Assumptions C61_prevector_initial.

(* what the invariant says: size <= capacity, and the elements are inline iff capacity() <= N *)
Theorem C61_prevector_invariant_meaning :
  forall (T : Type) (N : nat) (s : pv T), pv_inv T N s ->
    size T N s <= capacity T N s /\ N <= capacity T N s /\
    length (store T N s) = capacity T N s /\ length (pv_abs T N s) = size T N s /\
    (is_direct T N s = true <-> capacity T N s <= N).
Proof.
  intros T N s H. repeat split.
  - apply size_le_capacity; exact H.
  - apply N_le_capacity; exact H.
  - apply store_length; exact H.
  - apply ContPrevectorLemmas.abs_length; exact H.
  - apply (direct_iff_capacity T N s H).
  - apply (direct_iff_capacity T N s H).
Qed.
Print Assumptions C61_prevector_invariant_meaning.

(* the inline -> heap switch happens exactly when the (N+1)-th element is pushed *)
Theorem C61_prevector_inline_heap_switch :
  forall (T : Type) (junk : T) (N : nat) (s : pv T) (v : T) (s' : pv T),
    pv_inv T N s -> push_back T junk N s v = Some s' ->
    (size T N s < N -> is_direct T N s = true -> is_direct T N s' = true /\ capacity T N s' = N) /\
    (size T N s = N -> is_direct T N s = true ->
       is_direct T N s' = false /\ capacity T N s' = N + 1 + Nat.div2 (N + 1)).
Proof. intros T junk N. exact (inline_heap_switch T junk N). Qed.
Print Assumptions C61_prevector_inline_heap_switch.

(* ---------------------------------------------------------------------------------------------------
   VecDeque<T> *)
Theorem C61_vecdeque_refines_deque :
  forall (T : Type) (T0 junk : T) (ops : list (vdop T)) (st : vd T * vd T) (l : list T * list T),
    ContVecDequeLemmas.pair_inv T st ->
    deq_run T T0 (ContVecDequeLemmas.pair_abs T st) ops = Some l ->
    exists st', vd_run T T0 junk st ops = Some st' /\
                ContVecDequeLemmas.pair_inv T st' /\ ContVecDequeLemmas.pair_abs T st' = l.
Proof. intros T T0 junk ops. exact (vd_refines_deque T T0 junk ops). Qed.
Print Assumptions C61_vecdeque_refines_deque.

Theorem C61_vecdeque_trace :
  forall (T : Type) (T0 junk : T) (ops : list (vdop T)) (st : vd T * vd T) (l : list T * list T),
    ContVecDequeLemmas.pair_inv T st ->
    deq_run T T0 (ContVecDequeLemmas.pair_abs T st) ops = Some l ->
    map (option_map (ContVecDequeLemmas.pair_abs T)) (vd_trace T T0 junk st ops)
      = deq_trace T T0 (ContVecDequeLemmas.pair_abs T st) ops /\
    Forall (fun o => exists st', o = Some st' /\ ContVecDequeLemmas.pair_inv T st') (vd_trace T T0 junk st ops).
Proof. intros T T0 junk ops. exact (vd_trace_refines T T0 junk ops). Qed.
Print Assumptions C61_vecdeque_trace.

Theorem C61_vecdeque_initial :
  forall (T : Type), vd_inv T (vd_empty T) /\ vd_abs T (vd_empty T) = [].
Proof. intros. split; [apply vd_empty_inv | apply vd_empty_abs]. Qed.
Print Assumptions C61_vecdeque_initial.

(* ring-buffer index arithmetic: logical element i is stored at (m_offset + i) mod m_capacity, which is
   what BufferIndex computes without overflow, and operator[] returns the i-th element of the list *)
Theorem C61_vecdeque_wraparound :
  forall (T : Type) (s : vd T) (i : nat), vd_inv T s -> i < v_size T s ->
    buffer_index T s i = (v_off T s + i) mod v_cap T s /\
    nth_error (v_buf T s) ((v_off T s + i) mod v_cap T s) = nth_error (vd_abs T s) i /\
    ContVecDeque.get T s i = nth_error (vd_abs T s) i.
Proof.
  intros T s i H Hi. destruct (vecdeque_wraparound T s i H Hi) as [A B].
  split; [exact A|]. split; [exact B|]. apply ContVecDequeLemmas.get_ok; assumption.
Qed.
Print Assumptions C61_vecdeque_wraparound.

(* ---------------------------------------------------------------------------------------------------
   bitdeque<B>, for every block size B > 0 *)
Theorem C61_bitdeque_refines_deque :
  forall (B : nat), 0 < B ->
  forall (ops : list bdop) (st : bd * bd) (l : list bool * list bool),
    ContBitdequeLemmas.pair_inv B st ->
    bdq_run (ContBitdequeLemmas.pair_abs B st) ops = Some l ->
    exists st', bd_run B st ops = Some st' /\
                ContBitdequeLemmas.pair_inv B st' /\ ContBitdequeLemmas.pair_abs B st' = l.
Proof. intros B HB ops. exact (bd_refines_deque B HB ops). Qed.
Print Assumptions C61_bitdeque_refines_deque.

Theorem C61_bitdeque_trace :
  forall (B : nat), 0 < B ->
  forall (ops : list bdop) (st : bd * bd) (l : list bool * list bool),
    ContBitdequeLemmas.pair_inv B st ->
    bdq_run (ContBitdequeLemmas.pair_abs B st) ops = Some l ->
    map (option_map (ContBitdequeLemmas.pair_abs B)) (bd_trace B st ops)
      = bdq_trace (ContBitdequeLemmas.pair_abs B st) ops /\
    Forall (fun o => exists st', o = Some st' /\ ContBitdequeLemmas.pair_inv B st') (bd_trace B st ops).
Proof. intros B HB ops. exact (bd_trace_refines B HB ops). Qed.
Print Assumptions C61_bitdeque_trace.

Theorem C61_bitdeque_initial :
  forall (B : nat), 0 < B -> bd_inv B bd_empty /\ bd_abs B bd_empty = [].
Proof. intros B HB. split; [apply bd_empty_inv | apply bd_empty_abs]; exact HB. Qed.
Print Assumptions C61_bitdeque_initial.

(* what the invariant says: both pads are smaller than a block, the stored bits are exactly
   (pad_begin zero bits) ++ contents ++ (pad_end zero bits) filling d_nb whole blocks, size() is the
   length of the contents and operator[] reads the i-th element *)
Theorem C61_bitdeque_invariant_meaning :
  forall (B : nat), 0 < B -> forall (s : bd), bd_inv B s ->
    d_pb s < B /\ d_pe s < B /\ length (d_bits s) = d_nb s * B /\
    d_pb s + length (bd_abs B s) + d_pe s = d_nb s * B /\ ContBitdeque.size B s = length (bd_abs B s) /\
    d_bits s = repeat false (d_pb s) ++ bd_abs B s ++ repeat false (d_pe s) /\
    (forall i, i < ContBitdeque.size B s -> ContBitdeque.get B s i = nth_error (bd_abs B s) i).
Proof.
  intros B HB s I. destruct (bd_inv_meaning B HB s I) as (a&b&c&d&e&f).
  repeat (split; [assumption|]). intros i Hi. apply (bd_get_ok B HB); assumption.
Qed.
Print Assumptions C61_bitdeque_invariant_meaning.

(* Iterator::operator+= moves the designated flat bit by exactly dist and keeps 0 <= bitpos < B;
   begin() + i is block (pad_begin + i) / B, bit (pad_begin + i) mod B *)
Theorem C61_bitdeque_iterator_arithmetic :
  forall (B : nat), 0 < B ->
    (forall (it bp dist : Z), (0 <= bp < Z.of_nat B)%Z ->
       (it_flat B (iter_add B (it, bp) dist) = it_flat B (it, bp) + dist)%Z /\
       (0 <= snd (iter_add B (it, bp) dist) < Z.of_nat B)%Z) /\
    (forall (s : bd) (i : nat), d_pb s < B ->
       fst (iter_add B (it_begin s) (Z.of_nat i)) = Z.of_nat ((d_pb s + i) / B) /\
       snd (iter_add B (it_begin s) (Z.of_nat i)) = Z.of_nat ((d_pb s + i) mod B)).
Proof.
  intros B HB. split.
  - intros it bp dist H. exact (iter_add_spec B HB it bp dist H).
  - intros s i H. destruct (begin_plus B HB s i H) as (_&a&b). split; assumption.
Qed.
Print Assumptions C61_bitdeque_iterator_arithmetic.

(* ---------------------------------------------------------------------------------------------------
   non-vacuity: concrete scripts that cross the inline/heap boundary and wrap around the ring *)
Example C61_nonvacuous_prevector :
  let ops := [PushBack Z 1%Z; PushBack Z 2%Z; PushBack Z 3%Z; Insert Z 1 9%Z; Erase Z 0; ShrinkToFit Z; Swap Z] in
  vec_run Z 0%Z ([], []) ops = Some ([], [9%Z; 2%Z; 3%Z]) /\
  option_map (ContPrevectorLemmas.pair_abs Z 2) (pv_run Z 0%Z (-1)%Z 2 (pv_empty Z 0%Z 2, pv_empty Z 0%Z 2) ops)
    = Some ([], [9%Z; 2%Z; 3%Z]).
Proof. vm_compute. split; reflexivity. Qed.

Example C61_nonvacuous_vecdeque :
  let ops := [ContVecDeque.PushBack Z 1%Z; ContVecDeque.PushBack Z 2%Z; ContVecDeque.PopFront Z;
              ContVecDeque.PushBack Z 3%Z; ContVecDeque.PushFront Z 7%Z] in
  deq_run Z 0%Z ([], []) ops = Some ([7%Z; 2%Z; 3%Z], []) /\
  option_map (fun st => (v_off Z (fst st), ContVecDequeLemmas.pair_abs Z st))
             (vd_run Z 0%Z (-1)%Z (vd_empty Z, vd_empty Z) ops) = Some (5, ([7%Z; 2%Z; 3%Z], [])).
Proof. vm_compute. split; reflexivity. Qed.

Example C61_nonvacuous_bitdeque :
  let ops := [ContBitdeque.PushBack true; ContBitdeque.PushFront true; ContBitdeque.Resize 6;
              ContBitdeque.Insert 1 true; ContBitdeque.EraseRange 0 2; ContBitdeque.PopFront] in
  bdq_run ([], []) ops = Some ([false; false; false; false], []) /\
  option_map (fun st => (d_nb (fst st), d_pb (fst st), d_pe (fst st), ContBitdequeLemmas.pair_abs 4 st))
             (bd_run 4 (bd_empty, bd_empty) ops) = Some (2, 1, 3, ([false; false; false; false], [])).
Proof. vm_compute. split; reflexivity. Qed.
