(* C61  Core containers and allocators behave like their standard counterparts.
   "For any sequence of operations, the small-buffer vector used for scripts, the bit deque, the ring-buffer
    deque and the pool memory resource behave exactly like the corresponding standard containers and
    allocators: same elements in the same order, allocations never overlap, memory accounting stays exact."
   Only statements here; each is closed by `exact` of a lemma from proofs/Cont*Lemmas.v.
   The models are of the REPRESENTATIONS (model/ContPrevector.v, ContVecDeque.v, ...); `*_abs` maps a
   representation to the plain list that the std container would hold. *)
From Coq Require Import List Arith Bool ZArith Lia.
From BV Require Import model.ContBuf model.ContPool model.ContBitdeque model.ContVecDeque model.ContPrevector model.ContInst
  proofs.ContPoolLemmas proofs.ContBitdequeLemmas proofs.ContVecDequeLemmas proofs.ContPrevectorLemmas.
Import ListNotations.

(* ---------------------------------------------------------------------------------------------------
   prevector<N,T>, for every element type T, every T{} and uninitialised-memory content, every N. *)

(* ALL operation scripts (any length) on a pair of prevectors: whenever the std::vector script is defined
   (no std precondition violated), the prevector script is defined (every memcpy/memmove/fill in bounds),
   the representation invariant holds at the end and the contents are the std::vector contents. *)
Theorem C61_prevector_refines_vector :
  forall (T : Type) (T0 junk : T) (N : nat) (ops : list (pvop T)) (st : pv T * pv T) (l : list T * list T),
    ContPrevectorLemmas.pair_inv T N st ->
    vec_run T T0 (ContPrevectorLemmas.pair_abs T N st) ops = Some l ->
    exists st', pv_run T T0 junk N st ops = Some st' /\
                ContPrevectorLemmas.pair_inv T N st' /\ ContPrevectorLemmas.pair_abs T N st' = l.
Proof. intros T T0 junk N ops. exact (pv_refines_vector T T0 junk N ops). Qed.
Print Assumptions C61_prevector_refines_vector.

(* ... and after EVERY operation of the script (what the drivers print and compare) *)
Theorem C61_prevector_trace :
  forall (T : Type) (T0 junk : T) (N : nat) (ops : list (pvop T)) (st : pv T * pv T) (l : list T * list T),
    ContPrevectorLemmas.pair_inv T N st ->
    vec_run T T0 (ContPrevectorLemmas.pair_abs T N st) ops = Some l ->
    map (option_map (ContPrevectorLemmas.pair_abs T N)) (pv_trace T T0 junk N st ops)
      = vec_trace T T0 (ContPrevectorLemmas.pair_abs T N st) ops /\
    Forall (fun o => exists st', o = Some st' /\ ContPrevectorLemmas.pair_inv T N st') (pv_trace T T0 junk N st ops).
Proof. intros T T0 junk N ops. exact (pv_trace_refines T T0 junk N ops). Qed.
Print Assumptions C61_prevector_trace.

(* the scripts start from default-constructed prevectors, which satisfy the invariant and are empty *)
Theorem C61_prevector_initial :
  forall (T : Type) (T0 : T) (N : nat),
    pv_inv T N (pv_empty T T0 N) /\ pv_abs T N (pv_empty T T0 N) = [].
Proof. intros. split; [apply pv_empty_inv | apply pv_empty_abs]. Qed.
Print Assumptions C61_prevector_initial.

(* what the invariant says: size <= capacity, and the elements are inline iff capacity() <= N *)
Theorem C61_prevector_invariant_meaning :
  forall (T : Type) (N : nat) (s : pv T), pv_inv T N s ->
    size T N s <= capacity T N s /\ N <= capacity T N s /\
    length (store T N s) = capacity T N s /\ length (pv_abs T N s) = size T N s /\
    (is_direct T N s = true <-> capacity T N s <= N).
Proof.
  intros T N s H. repeat split.
  - apply size_le_capacity; exact H.
  - apply N_le_capacity; exact H.
  - apply store_length; exact H.
  - apply ContPrevectorLemmas.abs_length; exact H.
  - apply (direct_iff_capacity T N s H).
  - apply (direct_iff_capacity T N s H).
Qed.
Print Assumptions C61_prevector_invariant_meaning.

(* the inline -> heap switch happens exactly when the (N+1)-th element is pushed *)
Theorem C61_prevector_inline_heap_switch :
  forall (T : Type) (junk : T) (N : nat) (s : pv T) (v : T) (s' : pv T),
    pv_inv T N s -> push_back T junk N s v = Some s' ->
    (size T N s < N -> is_direct T N s = true -> is_direct T N s' = true /\ capacity T N s' = N) /\
    (size T N s = N -> is_direct T N s = true ->
       is_direct T N s' = false /\ capacity T N s' = N + 1 + Nat.div2 (N + 1)).
Proof. intros T junk N. exact (inline_heap_switch T junk N). Qed.
Print Assumptions C61_prevector_inline_heap_switch.

(* ---------------------------------------------------------------------------------------------------
   VecDeque<T> *)
Theorem C61_vecdeque_refines_deque :
  forall (T : Type) (T0 junk : T) (ops : list (vdop T)) (st : vd T * vd T) (l : list T * list T),
    ContVecDequeLemmas.pair_inv T st ->
    deq_run T T0 (ContVecDequeLemmas.pair_abs T st) ops = Some l ->
    exists st', vd_run T T0 junk st ops = Some st' /\
                ContVecDequeLemmas.pair_inv T st' /\ ContVecDequeLemmas.pair_abs T st' = l.
Proof. intros T T0 junk ops. exact (vd_refines_deque T T0 junk ops). Qed.
Print Assumptions C61_vecdeque_refines_deque.

Theorem C61_vecdeque_trace :
  forall (T : Type) (T0 junk : T) (ops : list (vdop T)) (st : vd T * vd T) (l : list T * list T),
    ContVecDequeLemmas.pair_inv T st ->
    deq_run T T0 (ContVecDequeLemmas.pair_abs T st) ops = Some l ->
    map (option_map (ContVecDequeLemmas.pair_abs T)) (vd_trace T T0 junk st ops)
      = deq_trace T T0 (ContVecDequeLemmas.pair_abs T st) ops /\
    Forall (fun o => exists st', o = Some st' /\ ContVecDequeLemmas.pair_inv T st') (vd_trace T T0 junk st ops).
Proof. intros T T0 junk ops. exact (vd_trace_refines T T0 junk ops). Qed.
Print Assumptions C61_vecdeque_trace.

Theorem C61_vecdeque_initial :
  forall (T : Type), vd_inv T (vd_empty T) /\ vd_abs T (vd_empty T) = [].
Proof. intros. split; [apply vd_empty_inv | apply vd_empty_abs]. Qed.
Print Assumptions C61_vecdeque_initial.

(* ring-buffer index arithmetic: logical element i is stored at (m_offset + i) mod m_capacity, which is
   what BufferIndex computes without overflow, and operator[] returns the i-th element of the list *)
Theorem C61_vecdeque_wraparound :
  forall (T : Type) (s : vd T) (i : nat), vd_inv T s -> i < v_size T s ->
    buffer_index T s i = (v_off T s + i) mod v_cap T s /\
    nth_error (v_buf T s) ((v_off T s + i) mod v_cap T s) = nth_error (vd_abs T s) i /\
    ContVecDeque.get T s i = nth_error (vd_abs T s) i.
Proof.
  intros T s i H Hi. destruct (vecdeque_wraparound T s i H Hi) as [A B].
  split; [exact A|]. split; [exact B|]. apply ContVecDequeLemmas.get_ok; assumption.
Qed.
Print Assumptions C61_vecdeque_wraparound.

(* ---------------------------------------------------------------------------------------------------
   bitdeque<B>, for every block size B > 0 *)
Theorem C61_bitdeque_refines_deque :
  forall (B : nat), 0 < B ->
  forall (ops : list bdop) (st : bd * bd) (l : list bool * list bool),
    ContBitdequeLemmas.pair_inv B st ->
    bdq_run (ContBitdequeLemmas.pair_abs B st) ops = Some l ->
    exists st', bd_run B st ops = Some st' /\
                ContBitdequeLemmas.pair_inv B st' /\ ContBitdequeLemmas.pair_abs B st' = l.
Proof. intros B HB ops. exact (bd_refines_deque B HB ops). Qed.
Print Assumptions C61_bitdeque_refines_deque.

Theorem C61_bitdeque_trace :
  forall (B : nat), 0 < B ->
  forall (ops : list bdop) (st : bd * bd) (l : list bool * list bool),
    ContBitdequeLemmas.pair_inv B st ->
    bdq_run (ContBitdequeLemmas.pair_abs B st) ops = Some l ->
    map (option_map (ContBitdequeLemmas.pair_abs B)) (bd_trace B st ops)
      = bdq_trace (ContBitdequeLemmas.pair_abs B st) ops /\
    Forall (fun o => exists st', o = Some st' /\ ContBitdequeLemmas.pair_inv B st') (bd_trace B st ops).
Proof. intros B HB ops. exact (bd_trace_refines B HB ops). Qed.
Print Assumptions C61_bitdeque_trace.

Theorem C61_bitdeque_initial :
  forall (B : nat), 0 < B -> bd_inv B bd_empty /\ bd_abs B bd_empty = [].
Proof. intros B HB. split; [apply bd_empty_inv | apply bd_empty_abs]; exact HB. Qed.
Print Assumptions C61_bitdeque_initial.

(* what the invariant says: both pads are smaller than a block, the stored bits are exactly
   (pad_begin zero bits) ++ contents ++ (pad_end zero bits) filling d_nb whole blocks, size() is the
   length of the contents and operator[] reads the i-th element *)
Theorem C61_bitdeque_invariant_meaning :
  forall (B : nat), 0 < B -> forall (s : bd), bd_inv B s ->
    d_pb s < B /\ d_pe s < B /\ length (d_bits s) = d_nb s * B /\
    d_pb s + length (bd_abs B s) + d_pe s = d_nb s * B /\ ContBitdeque.size B s = length (bd_abs B s) /\
    d_bits s = repeat false (d_pb s) ++ bd_abs B s ++ repeat false (d_pe s) /\
    (forall i, i < ContBitdeque.size B s -> ContBitdeque.get B s i = nth_error (bd_abs B s) i).
Proof.
  intros B HB s I. destruct (bd_inv_meaning B HB s I) as (a&b&c&d&e&f).
  repeat (split; [assumption|]). intros i Hi. apply (bd_get_ok B HB); assumption.
Qed.
Print Assumptions C61_bitdeque_invariant_meaning.

(* Iterator::operator+= moves the designated flat bit by exactly dist and keeps 0 <= bitpos < B;
   begin() + i is block (pad_begin + i) / B, bit (pad_begin + i) mod B *)
Theorem C61_bitdeque_iterator_arithmetic :
  forall (B : nat), 0 < B ->
    (forall (it bp dist : Z), (0 <= bp < Z.of_nat B)%Z ->
       (it_flat B (iter_add B (it, bp) dist) = it_flat B (it, bp) + dist)%Z /\
       (0 <= snd (iter_add B (it, bp) dist) < Z.of_nat B)%Z) /\
    (forall (s : bd) (i : nat), d_pb s < B ->
       fst (iter_add B (it_begin s) (Z.of_nat i)) = Z.of_nat ((d_pb s + i) / B) /\
       snd (iter_add B (it_begin s) (Z.of_nat i)) = Z.of_nat ((d_pb s + i) mod B)).
Proof.
  intros B HB. split.
  - intros it bp dist H. exact (iter_add_spec B HB it bp dist H).
  - intros s i H. destruct (begin_plus B HB s i H) as (_&a&b). split; assumption.
Qed.
Print Assumptions C61_bitdeque_iterator_arithmetic.

(* ---------------------------------------------------------------------------------------------------
   PoolResource<MAXB, ALIGN_BYTES> over abstract integer addresses.  EA = ELEM_ALIGN_BYTES = max(8, ALIGN_BYTES).
   Premises (they stay in the statements):
     MAXB mod EA = 0      static_assert in pool.h
     EA <= MAXB           NOT asserted in pool.h (with MAX_BLOCK_SIZE_BYTES = 0, Allocate(0, a) indexes m_free_lists[1])
     chunk_base k         what ::operator new returns for the k-th chunk: aligned, chunks do not overlap *)
Definition pool_env (MAXB ALIGN_BYTES : Z) (chunk_base : nat -> Z) (CS : Z) : Prop :=
  (MAXB mod ContPool.EA ALIGN_BYTES = 0)%Z /\ (ContPool.EA ALIGN_BYTES <= MAXB)%Z /\
  (forall k, (chunk_base k mod ContPool.EA ALIGN_BYTES = 0)%Z) /\
  (forall i j, i <> j -> (chunk_base i + CS <= chunk_base j \/ chunk_base j + CS <= chunk_base i)%Z).

(* ALL scripts of Allocate / Deallocate calls (each Deallocate returns a live allocation with the bytes and
   alignment it was requested with): every call is defined (all free-list indices in bounds) and the
   representation invariant holds afterwards *)
Theorem C61_pool_scripts :
  forall MAXB ALIGN_BYTES chunk_base CS, pool_env MAXB ALIGN_BYTES chunk_base CS ->
  forall (ops : list pop) (st : pool * list live_entry),
    pool_inv MAXB ALIGN_BYTES chunk_base CS st -> script_ok (length (snd st)) ops ->
    exists st', pool_run MAXB ALIGN_BYTES chunk_base st ops = Some st' /\ pool_inv MAXB ALIGN_BYTES chunk_base CS st'.
Proof.
  intros MAXB A cb CS (H1&H2&H3&H4) ops. exact (pool_run_ok MAXB A cb CS H1 H2 H3 H4 ops).
Qed.
Print Assumptions C61_pool_scripts.

Theorem C61_pool_trace :
  forall MAXB ALIGN_BYTES chunk_base CS, pool_env MAXB ALIGN_BYTES chunk_base CS ->
  forall (ops : list pop) (st : pool * list live_entry),
    pool_inv MAXB ALIGN_BYTES chunk_base CS st -> script_ok (length (snd st)) ops ->
    Forall (fun o => exists st', o = Some st' /\ pool_inv MAXB ALIGN_BYTES chunk_base CS st')
           (pool_trace MAXB ALIGN_BYTES chunk_base st ops).
Proof.
  intros MAXB A cb CS (H1&H2&H3&H4) ops. exact (pool_trace_ok MAXB A cb CS H1 H2 H3 H4 ops).
Qed.
Print Assumptions C61_pool_trace.

(* the constructor establishes the invariant; CS is the chunk size rounded up to a multiple of EA *)
Theorem C61_pool_constructor :
  forall MAXB ALIGN_BYTES chunk_base CS, pool_env MAXB ALIGN_BYTES chunk_base CS ->
  forall chunk_size_bytes s,
    CS = (ContPool.num_elem_align_bytes ALIGN_BYTES chunk_size_bytes * ContPool.EA ALIGN_BYTES)%Z ->
    pool_new MAXB ALIGN_BYTES chunk_base chunk_size_bytes = Some s ->
    pool_inv MAXB ALIGN_BYTES chunk_base CS (s, []).
Proof.
  intros MAXB A cb CS (H1&H2&H3&H4) cb0 s HCS Hn. eapply pool_new_ok; eassumption.
Qed.
Print Assumptions C61_pool_constructor.

(* what the invariant says: live allocations never overlap and are distinct, every one is aligned, non-empty,
   inside one chunk, outside the unused tail and disjoint from every free-listed block; and the accounting is
   exact: live blocks + free-listed blocks + unused tail = NumAllocatedChunks * chunk size *)
Theorem C61_pool_no_overlap_alignment_accounting :
  forall MAXB ALIGN_BYTES chunk_base CS (s : pool) (live : list live_entry),
    pool_inv MAXB ALIGN_BYTES chunk_base CS (s, live) ->
    NoDup (live_blocks MAXB ALIGN_BYTES live) /\
    (forall x y, In x (live_blocks MAXB ALIGN_BYTES live) -> In y (live_blocks MAXB ALIGN_BYTES live) -> x <> y -> idisj x y) /\
    (forall b, In b (live_blocks MAXB ALIGN_BYTES live) ->
       (0 < snd b)%Z /\ (fst b mod ContPool.EA ALIGN_BYTES = 0)%Z /\
       (exists c, c < length (p_chunks s) /\ (chunk_base c <= fst b)%Z /\ (fst b + snd b <= chunk_base c + CS)%Z) /\
       (fst b + snd b <= p_it s \/ p_end s <= fst b)%Z /\
       (forall f, In f (free_blocks ALIGN_BYTES s) -> idisj b f)) /\
    (zsum (map snd (live_blocks MAXB ALIGN_BYTES live)) + zsum (map snd (free_blocks ALIGN_BYTES s)) + (p_end s - p_it s)
       = Z.of_nat (length (p_chunks s)) * CS)%Z.
Proof. intros MAXB A cb CS. exact (pool_inv_meaning MAXB A cb CS). Qed.
Print Assumptions C61_pool_no_overlap_alignment_accounting.

(* the block reserved for a pooled request is large enough, and freed blocks are reused only for the same
   size class: a block leaves a free list only through the list of exactly the requested class, in which it is
   recorded with exactly the rounded size; Deallocate files it under the class of the size it is returned with *)
Theorem C61_pool_reuse_same_class :
  forall MAXB ALIGN_BYTES chunk_base, (MAXB mod ContPool.EA ALIGN_BYTES = 0)%Z -> (ContPool.EA ALIGN_BYTES <= MAXB)%Z ->
  forall (s : pool) (bytes alignment : Z), (0 <= bytes)%Z -> is_free_list_usable MAXB ALIGN_BYTES bytes alignment = true ->
    (bytes <= ContPool.num_elem_align_bytes ALIGN_BYTES bytes * ContPool.EA ALIGN_BYTES)%Z /\
    (forall a next, nth_error (p_free s) (Z.to_nat (ContPool.num_elem_align_bytes ALIGN_BYTES bytes)) = Some (a :: next) ->
       allocate MAXB ALIGN_BYTES chunk_base s bytes alignment =
         Some (Pooled a, mkpool (p_cs s) (p_chunks s)
                                (fl_set (p_free s) (Z.to_nat (ContPool.num_elem_align_bytes ALIGN_BYTES bytes)) next) (p_it s) (p_end s)) /\
       In (a, (ContPool.num_elem_align_bytes ALIGN_BYTES bytes * ContPool.EA ALIGN_BYTES)%Z) (free_blocks ALIGN_BYTES s)) /\
    (forall a s', deallocate MAXB ALIGN_BYTES s (Pooled a) bytes alignment = Some s' ->
       Permutation.Permutation (free_blocks ALIGN_BYTES s')
         ((a, (ContPool.num_elem_align_bytes ALIGN_BYTES bytes * ContPool.EA ALIGN_BYTES)%Z) :: free_blocks ALIGN_BYTES s)).
Proof.
  intros MAXB A cb H1 H2 s bytes al Hb Hu.
  destruct (request_fits MAXB A H1 H2 bytes al Hb Hu) as (F1&_&_).
  split; [exact F1|]. split.
  - intros a next Hn. eapply alloc_reuse_same_class; eassumption.
  - intros a s' Hd. eapply dealloc_same_class; eassumption.
Qed.
Print Assumptions C61_pool_reuse_same_class.

(* ---------------------------------------------------------------------------------------------------
   non-vacuity: concrete scripts that cross the inline/heap boundary and wrap around the ring *)
Example C61_nonvacuous_prevector :
  let ops := [PushBack Z 1%Z; PushBack Z 2%Z; PushBack Z 3%Z; Insert Z 1 9%Z; Erase Z 0; ShrinkToFit Z; Swap Z] in
  vec_run Z 0%Z ([], []) ops = Some ([], [9%Z; 2%Z; 3%Z]) /\
  option_map (ContPrevectorLemmas.pair_abs Z 2) (pv_run Z 0%Z (-1)%Z 2 (pv_empty Z 0%Z 2, pv_empty Z 0%Z 2) ops)
    = Some ([], [9%Z; 2%Z; 3%Z]).
Proof. vm_compute. split; reflexivity. Qed.

Example C61_nonvacuous_vecdeque :
  let ops := [ContVecDeque.PushBack Z 1%Z; ContVecDeque.PushBack Z 2%Z; ContVecDeque.PopFront Z;
              ContVecDeque.PushBack Z 3%Z; ContVecDeque.PushFront Z 7%Z] in
  deq_run Z 0%Z ([], []) ops = Some ([7%Z; 2%Z; 3%Z], []) /\
  option_map (fun st => (v_off Z (fst st), ContVecDequeLemmas.pair_abs Z st))
             (vd_run Z 0%Z (-1)%Z (vd_empty Z, vd_empty Z) ops) = Some (5, ([7%Z; 2%Z; 3%Z], [])).
Proof. vm_compute. split; reflexivity. Qed.

Example C61_nonvacuous_bitdeque :
  let ops := [ContBitdeque.PushBack true; ContBitdeque.PushFront true; ContBitdeque.Resize 6;
              ContBitdeque.Insert 1 true; ContBitdeque.EraseRange 0 2; ContBitdeque.PopFront] in
  bdq_run ([], []) ops = Some ([false; false; false; false], []) /\
  option_map (fun st => (d_nb (fst st), d_pb (fst st), d_pe (fst st), ContBitdequeLemmas.pair_abs 4 st))
             (bd_run 4 (bd_empty, bd_empty) ops) = Some (2, 1, 3, ([false; false; false; false], [])).
Proof. vm_compute. split; reflexivity. Qed.

(* PoolResource<16, 8>(32) with chunks at k * 32: the environment premises hold, a script that exhausts a chunk
   (leftover 8 bytes go to free list 1) and reuses a freed block runs, and the accounting equation is 2 * 32 *)
Example C61_nonvacuous_pool :
  pool_env 16 8 (pool_base 32) 32 /\
  (let ops := [PAlloc 9 8; PAlloc 8 8; PAlloc 16 8; PFree 0; PAlloc 12 4; PAlloc 64 8] in
   script_ok 0 ops /\
   match pool_new 16 8 (pool_base 32) 32 with
   | Some s0 => option_map (fun st => (p_chunks (fst st), p_free (fst st), p_it (fst st), map fst (map fst (snd st))))
                           (pool_run 16 8 (pool_base 32) (s0, []) ops)
                = Some ([0; 32]%Z, [[]; [24%Z]; []], 48%Z, [Pooled 16; Pooled 32; Pooled 0; External])
   | None => False
   end).
Proof.
  split.
  - unfold pool_env, pool_base. split; [reflexivity|]. split; [vm_compute; discriminate|]. split.
    + intros k. change (ContPool.EA 8) with 8%Z. rewrite Z.mul_comm. replace (32 * Z.of_nat k)%Z with (Z.of_nat k * 4 * 8)%Z by ring. apply Z.mod_mul. discriminate.
    + intros i j Hij. assert (Z.of_nat i < Z.of_nat j \/ Z.of_nat j < Z.of_nat i)%Z as [H|H] by (apply not_eq in Hij; destruct Hij; [left|right]; apply Nat2Z.inj_lt; assumption).
      * left. nia.
      * right. nia.
  - vm_compute. repeat split; discriminate || reflexivity || auto.
Qed.
