(* C23 - block templates built from the mempool are always valid.
   Statements about model/Miner.v (the transcription of BlockAssembler::CreateNewBlock / addChunks / TestChunkBlockLimits /
   TestChunkTransactions / AddToBlock and CheckMiningOptions; tied to the real assembler by tie/drivers/mempool_drv.cpp).
   The chunk sequence is what the mempool's block builder hands out (TxGraph, C25); premises about it are explicit:
   chunk_wf (a chunk's size covers its transactions' weights, the numbers are non-negative and fit their machine types),
   offered_ok (a chunk is only offered when the in-pool parents of its transactions are selected or earlier in the chunk),
   and the pool's fees do not exceed the money supply (C01).

   The clause "passes full consensus validation" is proved in part (C23_template_connects_partial): a block of pool entries
   of a state satisfying C22's invariant, closed under in-pool parents and listing them first, passes the structural checks of
   ConnectBlock that concern the mempool (fresh txids, every input unspent in the chain or created earlier in the block,
   nothing spent twice, nTime above the median time past).  The full statement
     forall st (Inv st) tp (a template of entries of st), ConnectBlock (tip of st) (block of tp) succeeds
   additionally needs amounts (C01), script validity (C12) and BIP68 sequence locks (C05) of every entry, which the mempool
   model does not carry; on the implementation it is checked by TestBlockValidity of every template (holds: template-invalid). *)
From BV Require Import lib.Ints gen.Params_gen model.Locks model.Amount model.Miner proofs.MinerLemmas.
From BV Require Import model.Mempool proofs.MempoolReorg proofs.MinerConnect.
Local Open Scope Z_scope.

Section C23.
Variables (o : opts) (interval height cutoff : Z) (ks : list chunk) (tp : template).
Hypothesis Hasm : assemble o interval height cutoff ks = Some tp.       (* the options were accepted and this is the template *)
Hypothesis Hcb : 0 <= o_cb_sigops o.                                      (* a size_t *)
Hypothesis Hwf : Forall (fun k => chunk_wf k = true) ks.
Hypothesis Hfees : chunks_fees ks <= MAX_MONEY.

(* weight and sigop cost INCLUDING the reserved amounts: the counters are reserved + selected, never above the configured
   maximum (itself at most MAX_BLOCK_WEIGHT) / MAX_BLOCK_SIGOPS_COST, and strictly below once a transaction is selected *)
Theorem C23_template_limits :
  tp_weight tp = o_reserved o + sel_weight (tp_txs tp) /\ tp_weight tp <= o_max_weight o /\ o_max_weight o <= MAX_BLOCK_WEIGHT /\
  tp_sigops tp = o_cb_sigops o + sel_sigops (tp_txs tp) /\ tp_sigops tp <= MAX_BLOCK_SIGOPS_COST /\
  (tp_txs tp <> [] -> tp_weight tp < o_max_weight o /\ tp_sigops tp < MAX_BLOCK_SIGOPS_COST).
Proof. exact (template_limits o interval height cutoff ks tp Hasm Hcb Hwf Hfees). Qed.

(* only final transactions, judged at (height of the next block, median time past of the tip) *)
Theorem C23_template_final : forall t, In t (tp_txs tp) -> is_final_tx (c_ltx t) height cutoff = true.
Proof. exact (template_final o interval height cutoff ks tp Hasm Hcb Hwf Hfees). Qed.

(* the coinbase pays exactly the subsidy plus the fees of the selected transactions *)
Theorem C23_template_coinbase : 0 < interval -> 0 <= height ->
  tp_coinbase_value tp = get_block_subsidy interval height + sel_fees (tp_txs tp) /\ tp_fees tp = sel_fees (tp_txs tp).
Proof. exact (template_coinbase o interval height cutoff ks tp Hasm Hcb Hwf Hfees). Qed.

(* every transaction is listed after all of its in-pool parents, and all of them are listed: the selection is closed under
   in-pool ancestors and topologically ordered, also when chunks were skipped *)
Theorem C23_template_topological : forall pool, offered_ok pool o height cutoff (init_state o) ks = true ->
  forall pre t post, tp_txs tp = pre ++ t :: post ->
  forall p, In p (c_parents t) -> In p pool -> In p (map c_id pre).
Proof.
  intros pool Hoff pre t post E p Hp Hpool.
  pose proof (template_topological o interval height cutoff ks tp Hasm Hcb Hwf Hfees pool Hoff) as T.
  destruct (topo_ok_spec pool _ _ T pre t post E p Hp Hpool) as [[]|X]. exact X.
Qed.

(* every selected transaction comes from an offered chunk *)
Theorem C23_template_from_chunks : forall t, In t (tp_txs tp) -> exists k, In k ks /\ In t (k_txs k).
Proof. exact (template_from_chunks o interval height cutoff ks tp Hasm Hcb Hwf Hfees). Qed.

(* the predicate `holds` evaluates on the implementation's templates: the model's template passes it *)
Theorem C23_template_passes_check : forall pool, 0 < interval -> 0 <= height ->
  offered_ok pool o height cutoff (init_state o) ks = true -> nodup_ids (map c_id (tp_txs tp)) = true ->
  check_template pool o interval height cutoff (tp_txs tp) (tp_weight tp) (tp_coinbase_value tp) = None.
Proof. exact (template_passes_check o interval height cutoff ks tp Hasm Hcb Hwf Hfees). Qed.
End C23.
Print Assumptions C23_template_limits.
Print Assumptions C23_template_final.
Print Assumptions C23_template_coinbase.
Print Assumptions C23_template_topological.
Print Assumptions C23_template_from_chunks.
Print Assumptions C23_template_passes_check.

(* C22 meets C23 (the provable part of "passes consensus validation") *)
Theorem C23_template_connects_partial : forall (U : tx -> Prop) st (es : list entry) (cb : tx) (bid btime : Z),
  Inv U st ->
  (forall e, In e es -> In e (p_entries (s_pool st))) -> NoDup (map e_id es) ->
  (forall pre e post e' o, es = pre ++ e :: post -> In o (t_ins (e_tx e)) -> In e' (p_entries (s_pool st)) ->
      tx_creates (e_tx e') o = true -> In e' pre) ->
  is_cb cb = true -> ~ In (t_id cb) (chain_txids (s_chain st)) -> ~ In (t_id cb) (map e_id es) ->
  mtp_tip (s_chain st) < btime -> height (s_chain st) + 1 < INT32_MAX ->
  block_ok (s_chain st) {| b_id := bid; b_time := btime; b_txs := cb :: map e_tx es |} = true.
Proof. exact pool_block_ok. Qed.
Print Assumptions C23_template_connects_partial.

(* ... and the predicate is sound for the clauses *)
Theorem C23_check_template_sound : forall pool o interval height cutoff txs bw cbv,
  check_template pool o interval height cutoff txs bw cbv = None ->
  topo_ok pool [] txs = true /\
  o_reserved o + sel_weight txs <= o_max_weight o /\ bw <= o_max_weight o /\ o_max_weight o <= MAX_BLOCK_WEIGHT /\
  o_cb_sigops o + sel_sigops txs <= MAX_BLOCK_SIGOPS_COST /\
  (forall t, In t txs -> is_final_tx (c_ltx t) height cutoff = true) /\
  cbv = get_block_subsidy interval height + sel_fees txs.
Proof. exact check_template_sound. Qed.
Print Assumptions C23_check_template_sound.

(* the premises are satisfiable: three chunks, the middle one does not fit the weight limit and is skipped *)
Definition ex_tx (id w s f : Z) (parents : list Z) : ctx :=
  {| c_id := id; c_weight := w; c_sigops := s; c_fee := f; c_ltx := {| lt_version := 2; lt_locktime := 0; lt_seqs := [4294967295] |}; c_parents := parents |}.
Definition ex_ks : list chunk :=
  [ {| k_fee := 5000; k_size := 1000; k_txs := [ex_tx 1 600 4 3000 []; ex_tx 2 400 0 2000 [1]] |};
    {| k_fee := 4000; k_size := 3000; k_txs := [ex_tx 3 3000 0 4000 []] |};
    {| k_fee := 100; k_size := 500; k_txs := [ex_tx 4 500 8 100 [2]] |} ].
Definition ex_o : opts := {| o_max_weight := 4000; o_reserved := 2000; o_min_fee_kvb := 1; o_cb_sigops := 400 |}.
Definition ex_res : option template := Eval vm_compute in assemble ex_o 150 102 1000 ex_ks.
Example C23_nonvacuous :
  assemble ex_o 150 102 1000 ex_ks = ex_res /\
  match ex_res with
  | Some tp => map c_id (tp_txs tp) = [1; 2; 4] /\ tp_weight tp = 3500 /\ tp_sigops tp = 412 /\ tp_coinbase_value tp = 5000000000 + 5100
  | None => False
  end /\
  forallb chunk_wf ex_ks = true /\ (chunks_fees ex_ks <=? MAX_MONEY) = true /\
  offered_ok [1; 2; 3; 4] ex_o 102 1000 (init_state ex_o) ex_ks = true.
Proof. vm_compute. repeat split; reflexivity. Qed.
