(* C54  Block index navigation and chainwork are correct.
   Only statements here; each is closed by `exact` of a lemma from proofs/ChainNavLemmas.v.
   Model (model/ChainNav.v): a block tree is the list of its nodes in insertion order, pointers are
   positions; build_tree adds blocks the way the node does (pprev, nHeight, BuildSkip = GetAncestor
   on the parent, nChainWork = parent's + GetBlockProof).  ancestor_spec t b h is the naive parent
   walk: the block at height h on the path from b to the root (None if there is none). *)
From BV Require Import lib.Ints model.Pow proofs.PowLemmas model.ChainNav proofs.ChainNavLemmas.
Local Open Scope Z_scope.

(* the skip pointer's height is strictly below the block's height and never negative *)
Theorem C54_skip_height_below : forall h, 1 <= h -> 0 <= get_skip_height h < h.
Proof. exact skip_height_bounds. Qed.
Print Assumptions C54_skip_height_below.

(* every tree produced by adding blocks (any shape, any branching) is well formed: parents come
   first, heights increase by one, and the stored pskip of every block is exactly its ancestor at
   height GetSkipHeight(nHeight) *)
Theorem C54_build_skip_correct : forall blocks i nd, get_node (build_tree blocks) i = Some nd ->
  0 <= nd_height nd /\
  match nd_parent nd with
  | None => nd_height nd = 0 /\ nd_skip nd = None
  | Some p => (p < i)%nat /\ exists pn, get_node (build_tree blocks) p = Some pn /\ nd_height nd = nd_height pn + 1 /\
              nd_skip nd = ancestor_spec (build_tree blocks) p (get_skip_height (nd_height nd))
  end.
Proof. exact (fun blocks => build_tree_wf blocks). Qed.
Print Assumptions C54_build_skip_correct.

(* GetAncestor: for every such tree, block b and height h: inside 0..nHeight the loop terminates
   (fuel nHeight+1 is enough) and returns the block at height h on the path from b to genesis;
   outside it returns nullptr *)
Theorem C54_get_ancestor_correct : forall blocks b nd h, get_node (build_tree blocks) b = Some nd ->
  (0 <= h <= nd_height nd ->
   exists a na, get_ancestor (build_tree blocks) b h = PBlock a /\ ancestor_spec (build_tree blocks) b h = Some a /\
                get_node (build_tree blocks) a = Some na /\ nd_height na = h) /\
  (~ (0 <= h <= nd_height nd) -> get_ancestor (build_tree blocks) b h = PNull /\ ancestor_spec (build_tree blocks) b h = None).
Proof. exact (fun blocks => get_ancestor_correct (build_tree blocks) (build_tree_wf blocks)). Qed.
Print Assumptions C54_get_ancestor_correct.

(* the ancestor at a height is unique: any parent walk from b that ends at height h ends there *)
Theorem C54_ancestor_unique : forall blocks b nd k a na, get_node (build_tree blocks) b = Some nd ->
  walk_up (build_tree blocks) b k = Some a -> get_node (build_tree blocks) a = Some na ->
  ancestor_spec (build_tree blocks) b (nd_height na) = Some a.
Proof.
  exact (fun blocks b nd k a na Hb Hw Hna =>
           ancestor_unique (build_tree blocks) (build_tree_wf blocks) b nd k a na Hb Hw Hna).
Qed.
Print Assumptions C54_ancestor_unique.

(* LastCommonAncestor: on every tree with a single genesis block, for all blocks a and b, the
   result is a block r at some height kr that is the ancestor of both at that height, and the two
   have no common ancestor at any greater height *)
Theorem C54_last_common_ancestor_correct : forall blocks a na b nb, valid_blocks blocks ->
  get_node (build_tree blocks) a = Some na -> get_node (build_tree blocks) b = Some nb ->
  exists r kr, last_common_ancestor (build_tree blocks) a b = PBlock r /\
    (ancestor_spec (build_tree blocks) a kr = Some r /\ ancestor_spec (build_tree blocks) b kr = Some r) /\
    (forall h r', kr < h -> ~ (ancestor_spec (build_tree blocks) a h = Some r' /\ ancestor_spec (build_tree blocks) b h = Some r')).
Proof.
  exact (fun blocks a na b nb Hv =>
           last_common_ancestor_correct (build_tree blocks) a na b nb (build_tree_wf blocks) (build_tree_rooted blocks Hv)).
Qed.
Print Assumptions C54_last_common_ancestor_correct.

(* CChain::FindFork on the chain whose tip is `tip` (vChain as SetTip fills it): the last common
   ancestor of tip and b *)
Theorem C54_find_fork_correct : forall blocks tip nt b nb, valid_blocks blocks ->
  get_node (build_tree blocks) tip = Some nt -> get_node (build_tree blocks) b = Some nb ->
  exists r kr, find_fork (build_tree blocks) (set_tip (build_tree blocks) tip) b = PBlock r /\
    (ancestor_spec (build_tree blocks) tip kr = Some r /\ ancestor_spec (build_tree blocks) b kr = Some r) /\
    (forall h r', kr < h -> ~ (ancestor_spec (build_tree blocks) tip h = Some r' /\ ancestor_spec (build_tree blocks) b h = Some r')).
Proof.
  exact (fun blocks tip nt b nb Hv =>
           find_fork_correct (build_tree blocks) tip nt b nb (build_tree_wf blocks) (build_tree_rooted blocks Hv)).
Qed.
Print Assumptions C54_find_fork_correct.

(* SetTip: vChain[h] is the tip's ancestor at height h, for every h; Height() is the tip's height *)
Theorem C54_set_tip_is_ancestry : forall blocks tip nt h, get_node (build_tree blocks) tip = Some nt ->
  chain_at (set_tip (build_tree blocks) tip) h = ancestor_spec (build_tree blocks) tip h /\
  chain_height (set_tip (build_tree blocks) tip) = nd_height nt.
Proof. exact (fun blocks tip nt h => set_tip_at (build_tree blocks) tip nt h (build_tree_wf blocks)). Qed.
Print Assumptions C54_set_tip_is_ancestry.

(* Locators: for every block below height 2^30-1 the entries are ancestors of the block, at exactly
   the heights locator_heights lists (no overflow of `step`, loop terminates) ... *)
Theorem C54_locator_entries_are_ancestors : forall blocks b nb, get_node (build_tree blocks) b = Some nb ->
  nd_height nb <= 2 ^ 30 - 2 ->
  exists l, locator_entries (build_tree blocks) b = Some l /\
            map (fun x => height_of_block (build_tree blocks) x) l = map Some (locator_heights (nd_height nb)) /\
            Forall (fun x => exists h, height_of_block (build_tree blocks) x = Some h /\
                                       ancestor_spec (build_tree blocks) b h = Some x) l.
Proof. exact (fun blocks b nb => locator_entries_spec (build_tree blocks) b nb (build_tree_wf blocks)). Qed.
Print Assumptions C54_locator_entries_are_ancestors.

(* ... and those heights start at the block's height, strictly decrease, end at genesis, and entry
   i+1 is 2^max(0, i-10) below entry i (1 for the first eleven steps, then 2, 4, 8, ...), clamped at 0 *)
Theorem C54_locator_shape : forall h, 0 <= h ->
  nth_error (locator_heights h) 0 = Some h /\ last (locator_heights h) 1 = 0 /\
  forall i a b, nth_error (locator_heights h) i = Some a -> nth_error (locator_heights h) (S i) = Some b ->
                b = Z.max (a - 2 ^ Z.max 0 (Z.of_nat i - 10)) 0 /\ 0 <= b < a.
Proof. exact locator_shape. Qed.
Print Assumptions C54_locator_shape.

(* GetBitsProof: for every nBits, 0 when the target is negative, zero or overflows, otherwise
   floor(2^256 / (target + 1)) computed over the unbounded integers; the division never divides by
   zero and the `+ 1` never wraps *)
Theorem C54_bits_proof_is_floor : forall bits, 0 <= bits < 2 ^ 32 ->
  get_bits_proof bits =
    Some (if compact_sign bits || (compact_magnitude bits =? 0) || (2 ^ 256 <=? compact_magnitude bits) then 0
          else 2 ^ 256 / (compact_magnitude bits + 1)).
Proof. exact get_bits_proof_spec. Qed.
Print Assumptions C54_bits_proof_is_floor.

(* nChainWork: for every tree, every block's accumulated work is the sum of the block proofs over
   its ancestry whenever that sum is below 2^256 (the 256-bit additions do not wrap) *)
Theorem C54_chain_work_is_sum : forall blocks b nd, Forall (fun pb => 0 <= snd pb < 2 ^ 32) blocks ->
  get_node (build_tree blocks) b = Some nd ->
  work_sum (build_tree blocks) (S (Z.to_nat (nd_height nd))) b < 2 ^ 256 ->
  nd_work nd = work_sum (build_tree blocks) (S (Z.to_nat (nd_height nd))) b.
Proof. exact chain_work_sum. Qed.
Print Assumptions C54_chain_work_is_sum.

(* non-vacuity: a 40-block tree with a fork; concrete answers *)
Definition ex_blocks : list (option nat * Z) :=
  (None, 0x207fffff) :: map (fun i => (Some i, 0x207fffff)) (seq 0 30)
  ++ [(Some 10%nat, 0x1d00ffff); (Some 31%nat, 0x1d00ffff); (Some 32%nat, 0x1d00ffff)].
Example C54_nonvacuous :
  valid_blocks ex_blocks /\
  get_ancestor (build_tree ex_blocks) 30 7 = PBlock 7 /\
  get_ancestor (build_tree ex_blocks) 33 11 = PBlock 31 /\
  get_ancestor (build_tree ex_blocks) 33 14 = PNull /\
  last_common_ancestor (build_tree ex_blocks) 30 33 = PBlock 10 /\
  find_fork (build_tree ex_blocks) (set_tip (build_tree ex_blocks) 30) 33 = PBlock 10 /\
  locator_entries (build_tree ex_blocks) 30 = Some [30;29;28;27;26;25;24;23;22;21;20;19;17;13;5;0]%nat /\
  get_bits_proof 0x207fffff = Some 2 /\ get_bits_proof 0x1d00ffff = Some 4295032833 /\
  option_map nd_work (get_node (build_tree ex_blocks) 33) = Some (2 * 11 + 3 * 4295032833).
Proof. vm_compute. repeat split; auto. repeat constructor; discriminate. Qed.
