(* C24  Cluster linearizations are topological and never get worse.
   Level: translation validation.  The real Linearize / PostLinearize are not modelled; every output
   they produce on the generated clusters is checked by executable validators (model/Lin.v) whose
   soundness is proved here, against declarative definitions:
     topo_valid n deps lin   every transaction 0..n-1 exactly once, each parent before its child
     diagram_ge c_new c_old  for ALL rational x >= 0: diagram c_old x <= diagram c_new x   (Fee.diagram)
     connected deps M        any two members linked through dependencies between members
   ChunkLinearization itself IS modelled (Lin.chunking, compared output-for-output with the real one)
   and its result is characterised for every in-range input. *)
From Coq Require Import QArith.
From Coq Require Import Permutation.
From BV Require Import lib.Ints model.Fee model.Lin model.LinPost proofs.LinPostLemmas proofs.FeeLemmas proofs.FeeChunkLemmas proofs.LinLemmas proofs.LinDiagramLemmas.
Local Open Scope Z_scope.

(* ---- ChunkLinearization ------------------------------------------------------------------------ *)
(* For every list l of transaction feerates (positive sizes, sum |fee| < 2^62, sum size <= INT32_MAX):
   the chunks are the sums of consecutive groups gs whose concatenation is l (nothing lost, order kept),
   every prefix of a group has a feerate <= the group's (so the chunk diagram lies on or above every
   prefix point of l: it is the concave majorant), and chunk feerates never increase. *)
Theorem C24_chunking_structure : forall l, in_range l ->
  exists gs : list (list (Z * Z)),
    concat gs = l /\ chunking l = map fsum gs /\
    Forall (fun g => g <> [] /\
                     forall k, let p := fsum (firstn k g) in fst p * snd (fsum g) <= fst (fsum g) * snd p) gs /\
    (forall l1 a b l2, chunking l = l1 ++ a :: b :: l2 -> fst b * snd a <= fst a * snd b).
Proof. exact chunking_structure. Qed.
Print Assumptions C24_chunking_structure.

(* the chunking of an in-range list meets CompareChunks' precondition (so C30's theorem applies to it) *)
Theorem C24_chunking_in_range : forall l, in_range l -> chunks_in_range (chunking l).
Proof. exact chunking_in_range. Qed.
Print Assumptions C24_chunking_in_range.

(* ---- validators -------------------------------------------------------------------------------- *)
(* the topological check is exact (sound and complete) *)
Theorem C24_is_topological_iff : forall n deps lin,
  is_topological n deps lin = true <->
  (NoDup lin /\ (forall i, In i lin <-> (i < n)%nat) /\
   (forall p c, In (p, c) deps -> exists l1 l2 l3, lin = l1 ++ p :: l2 ++ c :: l3)).
Proof. exact is_topological_iff. Qed.
Print Assumptions C24_is_topological_iff.

(* the check applied to every Linearize / PostLinearize output: if it passes, the output is a
   linearization, and whenever the input was one, the output's diagram is nowhere below the input's *)
Theorem C24_valid_and_not_worse_sound : forall n fr deps old new,
  valid_and_not_worse n fr deps old new = true ->
  length fr = n /\ topo_valid n deps new /\
  (topo_valid n deps old ->
   exists lo ln, lin_feerates fr old = Some lo /\ lin_feerates fr new = Some ln /\
                 in_range lo /\ in_range ln /\
                 forall x : Q, (0 <= x)%Q -> (diagram (chunking lo) x <= diagram (chunking ln) x)%Q).
Proof. exact valid_and_not_worse_sound. Qed.
Print Assumptions C24_valid_and_not_worse_sound.

(* exhaustive optimality check for small clusters: if it passes, lin's diagram is at least as good as
   that of EVERY linearization of the cluster (the enumeration is proved complete) *)
Theorem C24_dominates_all_topo_sound : forall n fr deps lin,
  dominates_all_topo n fr deps lin = true ->
  forall t, topo_valid n deps t ->
  exists lt ll, lin_feerates fr t = Some lt /\ lin_feerates fr lin = Some ll /\
                in_range lt /\ in_range ll /\
                forall x : Q, (0 <= x)%Q -> (diagram (chunking lt) x <= diagram (chunking ll) x)%Q.
Proof. exact dominates_all_topo_sound. Qed.
Print Assumptions C24_dominates_all_topo_sound.

Theorem C24_all_topo_orders_complete : forall n deps t, topo_valid n deps t -> In t (all_topo_orders n deps).
Proof. exact all_topo_orders_complete. Qed.
Print Assumptions C24_all_topo_orders_complete.

(* connectivity of every chunk *)
Theorem C24_chunks_connected_sound : forall fr deps lin, chunks_connected fr deps lin = true ->
  forall c, In c (chunking_info (fun i => nth i fr (0, 0)) lin) -> connected deps (fst c).
Proof. exact chunks_connected_sound. Qed.
Print Assumptions C24_chunks_connected_sound.

(* ChunkLinearization's feerates are those of ChunkLinearizationInfo *)
Theorem C24_chunking_info_feerates : forall (fr : list (Z * Z)) lin,
  map snd (chunking_info (fun i => nth i fr (0, 0)) lin) = chunking (map (fun i => nth i fr (0, 0)) lin).
Proof. exact chunking_info_feerates. Qed.
Print Assumptions C24_chunking_info_feerates.

(* ---- PostLinearize (model LinPost.post_linearize, compared output-for-output with the real one) ------ *)
(* for every cluster, fee assignment and input order: the result is a rearrangement of the input, and a
   linearization whenever the input is one (a group is only moved in front of a group none of whose
   members it depends on) *)
Theorem C24_post_linearize_perm_topo : forall n deps fr lin,
  Permutation (post_linearize n deps fr lin) lin /\
  (topo_valid n deps lin -> topo_valid n deps (post_linearize n deps fr lin)).
Proof. exact post_linearize_perm_topo. Qed.
Print Assumptions C24_post_linearize_perm_topo.

(* non-vacuity: a 4-transaction diamond (0 -> 1, 0 -> 2, 1 -> 3, 2 -> 3) *)
Example C24_nonvacuous :
  let fr := [(1, 2); (8, 2); (2, 2); (9, 1)] in
  let deps := [(0, 1); (0, 2); (1, 3); (2, 3)]%nat in
  is_topological 4 deps [0; 1; 2; 3]%nat = true /\ is_topological 4 deps [0; 1; 3; 2]%nat = false /\
  chunking [(1, 2); (2, 2); (8, 2); (9, 1)] = [(20, 7)] /\
  chunking [(1, 2); (8, 2); (2, 2); (9, 1)] = [(20, 7)] /\
  valid_and_not_worse 4 fr deps [0; 2; 1; 3]%nat [0; 1; 2; 3]%nat = true /\
  dominates_all_topo 4 fr deps [0; 1; 2; 3]%nat = true /\
  length (all_topo_orders 4 deps) = 2%nat /\
  chunks_connected fr deps [0; 1; 2; 3]%nat = true /\
  post_linearize 4 deps fr [0; 2; 1; 3]%nat = [0; 2; 1; 3]%nat /\
  post_linearize 3 [(0, 2)]%nat [(1, 1); (5, 1); (3, 1)] [0; 2; 1]%nat = [1; 0; 2]%nat /\
  is_connected deps [1; 2]%nat = false.
Proof. vm_compute. repeat split. Qed.

(* ---- the chunk diagram is the best diagram obtainable by grouping this linearization ------------ *)
(* for EVERY way gs of cutting the linearization's feerates l into consecutive non-empty groups, the
   diagram of ChunkLinearization's chunks is nowhere below the diagram of the groups' sums, at every
   rational abscissa x >= 0 *)
Theorem C24_chunking_dominates_every_grouping : forall l gs,
  in_range l -> concat gs = l -> Forall (fun g => g <> []) gs ->
  forall x : Q, (0 <= x)%Q -> (diagram (map fsum gs) x <= diagram (chunking l) x)%Q.
Proof. exact chunking_dominates_groupings. Qed.
Print Assumptions C24_chunking_dominates_every_grouping.
