(* C50  secp256k1 operations agree with the curve's mathematics (functional clauses).
   Only statements here; each is closed by `exact` of a lemma from proofs/EC*.v.
   p, n, G and the low-S threshold are the values printed from the compiled library (gen/Params_gen.v). *)
From Coq Require Import NArith ZArith Znumtheory.
From BV Require Import lib.Ints gen.Params_gen model.EC model.ECSign proofs.ECLemmas proofs.ECScalar proofs.ECParse proofs.ECGroup proofs.ECSignThm.
Local Open Scope Z_scope.

(* ---- scalars: the limb-wise tests of scalar_4x64_impl.h are the integer comparisons ---- *)
Theorem C50_is_high_iff_above_half_order : forall s, 0 <= s < 2 ^ 256 ->
  scalar_is_high s = (SECP256K1_N / 2 <? s).
Proof. exact scalar_is_high_spec. Qed.
Print Assumptions C50_is_high_iff_above_half_order.

Theorem C50_overflow_iff_at_least_order : forall s, 0 <= s < 2 ^ 256 ->
  scalar_check_overflow s = (SECP256K1_N <=? s).
Proof. exact scalar_check_overflow_spec. Qed.
Print Assumptions C50_overflow_iff_at_least_order.

(* the low-S threshold observed on the compiled library (bisection on signature_normalize) is n/2 *)
Theorem C50_compiled_low_s_threshold_is_half_order : SECP256K1_LOW_S_MAX = SECP256K1_N / 2.
Proof. exact low_s_max_is_half_n. Qed.
Print Assumptions C50_compiled_low_s_threshold_is_half_order.

Theorem C50_seckey_verify_is_range_check : forall k, bytes_ok k -> length k = 32%nat ->
  ec_seckey_verify k = (0 <? be_val k) && (be_val k <? SECP256K1_N).
Proof. exact ec_seckey_verify_spec. Qed.
Print Assumptions C50_seckey_verify_is_range_check.

Theorem C50_seckey_negate_tweak_add_tweak_mul_mod_n : forall k t,
  bytes_ok k -> length k = 32%nat -> bytes_ok t -> length t = 32%nat -> 0 < be_val k < SECP256K1_N ->
  let kv := be_val k in let tv := be_val t in
  ec_seckey_negate k = (true, scalar_bytes (SECP256K1_N - kv)) /\
  ec_seckey_tweak_add k t =
    (if (SECP256K1_N <=? tv) || ((kv + tv) mod SECP256K1_N =? 0) then (false, scalar_bytes 0)
     else (true, scalar_bytes ((kv + tv) mod SECP256K1_N))) /\
  ec_seckey_tweak_mul k t =
    (if (SECP256K1_N <=? tv) || (tv =? 0) then (false, scalar_bytes 0) else (true, scalar_bytes ((kv * tv) mod SECP256K1_N))).
Proof. exact ec_seckey_ops_spec. Qed.
Print Assumptions C50_seckey_negate_tweak_add_tweak_mul_mod_n.

(* ---- low-S normalisation ---- *)
Theorem C50_normalize_reports_high_and_takes_min : forall r s, 0 < s < SECP256K1_N ->
  sig_normalize (r, s) = (SECP256K1_N / 2 <? s, (r, Z.min s (SECP256K1_N - s))).
Proof. exact sig_normalize_spec. Qed.
Print Assumptions C50_normalize_reports_high_and_takes_min.

Theorem C50_normalize_is_a_projection_onto_low_s : forall r s, 0 < s < SECP256K1_N ->
  let '(_, (r', s')) := sig_normalize (r, s) in
  r' = r /\ 0 < s' <= SECP256K1_N / 2 /\ (s' = s \/ s' = SECP256K1_N - s) /\ sig_normalize (r', s') = (false, (r', s')).
Proof. exact sig_normalize_low. Qed.
Print Assumptions C50_normalize_is_a_projection_onto_low_s.

Theorem C50_CheckLowS_accepts_exactly_low_s : forall r s, 0 < s < SECP256K1_N ->
  negb (fst (sig_normalize (r, s))) = (s <=? SECP256K1_LOW_S_MAX).
Proof. exact check_low_s_spec. Qed.
Print Assumptions C50_CheckLowS_accepts_exactly_low_s.

(* ---- field ---- *)
Theorem C50_field_reduction_is_mod_p : forall x, 0 <= x -> fred x = x mod SECP256K1_P.
Proof. exact fred_spec. Qed.
Print Assumptions C50_field_reduction_is_mod_p.

Theorem C50_field_element_range_check : forall b, bytes_ok b -> length b = 32%nat ->
  fe_set_b32_limit b = if be_val b <? SECP256K1_P then Some (be_val b) else None.
Proof. exact fe_set_b32_limit_spec. Qed.
Print Assumptions C50_field_element_range_check.

(* ---- public keys ---- *)
Theorem C50_parse_serialize_uncompressed : forall x y, 0 <= x < SECP256K1_P -> 0 <= y < SECP256K1_P -> on_curve x y = true ->
  ec_pubkey_parse (ec_pubkey_serialize false (x, y)) = Some (x, y).
Proof. exact parse_serialize_uncompressed. Qed.
Print Assumptions C50_parse_serialize_uncompressed.

(* premises: p prime; the library's square root succeeds on squares (Euler's criterion for p = 3 mod 4) *)
Theorem C50_parse_serialize_compressed :
  prime SECP256K1_P -> (forall y, 0 <= y < SECP256K1_P -> snd (fsqrt (fsqr y)) = true) ->
  forall x y, 0 <= x < SECP256K1_P -> 0 <= y < SECP256K1_P -> on_curve x y = true ->
  ec_pubkey_serialize true (x, y) = (if Z.odd y then 3%N else 2%N) :: be_bytes_z 32 x /\
  ec_pubkey_parse (ec_pubkey_serialize true (x, y)) = Some (x, y).
Proof. exact parse_serialize_compressed. Qed.
Print Assumptions C50_parse_serialize_compressed.

Theorem C50_parse_accepts_only_curve_points_with_matching_tag : forall tag rest x y, bytes_ok rest ->
  ec_pubkey_parse (tag :: rest) = Some (x, y) ->
  0 <= x < SECP256K1_P /\ 0 <= y < SECP256K1_P /\ on_curve x y = true /\ tag_ok tag y /\
  ((length rest = 32%nat /\ x = be_val rest) \/ (length rest = 64%nat /\ x = be_val (firstn 32 rest) /\ y = be_val (skipn 32 rest))).
Proof. exact ec_pubkey_parse_sound. Qed.
Print Assumptions C50_parse_accepts_only_curve_points_with_matching_tag.

Theorem C50_parse_rejects_x_at_least_p : forall tag xb, bytes_ok xb -> length xb = 32%nat -> SECP256K1_P <= be_val xb ->
  ec_pubkey_parse (tag :: xb) = None.
Proof. exact parse_rejects_large_x. Qed.
Print Assumptions C50_parse_rejects_x_at_least_p.

Theorem C50_decompression_rejects_non_residue : forall x odd,
  (forall y, 0 <= y < SECP256K1_P -> fsqr y <> curve_rhs x) -> ge_set_xo x odd = None.
Proof. exact ge_set_xo_rejects_non_residue. Qed.
Print Assumptions C50_decompression_rejects_non_residue.

(* ---- x-only keys, tweak parity ---- *)
Theorem C50_xonly_from_pubkey_even_y : forall x y, 0 <= y < SECP256K1_P ->
  let '((x', y'), parity) := xonly_from_pubkey (x, y) in
  x' = x /\ parity = Z.odd y /\ Z.odd y' = false /\ 0 <= y' < SECP256K1_P /\ (y' = y \/ y' + y = SECP256K1_P) /\
  on_curve x y' = on_curve x y.
Proof. exact xonly_from_pubkey_spec. Qed.
Print Assumptions C50_xonly_from_pubkey_even_y.

Theorem C50_xonly_parse_lifts_to_even_y :
  prime SECP256K1_P -> (forall y, 0 <= y < SECP256K1_P -> snd (fsqrt (fsqr y)) = true) ->
  forall x y, 0 <= x < SECP256K1_P -> 0 <= y < SECP256K1_P -> on_curve x y = true ->
  xonly_parse (xonly_serialize (x, y)) = Some (fst (xonly_from_pubkey (x, y))).
Proof. exact xonly_parse_serialize. Qed.
Print Assumptions C50_xonly_parse_lifts_to_even_y.

Theorem C50_tweak_add_check_reports_x_and_parity : forall P t x y, ec_pubkey_tweak_add P t = Some (x, y) ->
  forall x32 parity,
  xonly_tweak_add_check x32 parity P t = true <-> (x32 = be_bytes_z 32 x /\ parity = Z.odd y).
Proof. exact xonly_tweak_add_check_spec. Qed.
Print Assumptions C50_tweak_add_check_reports_x_and_parity.

(* ---- ECDSA over any commutative group in which every point has order dividing n (the curve group:
        premise), with any inverse function mod n ---- *)
Section Ecdsa.
  Variable pt : Type.
  Variable add : pt -> pt -> pt.
  Variable zero : pt.
  Variable neg : pt -> pt.
  Variable G : pt.
  Variable xof : pt -> option Z.
  Variable inv : Z -> Z.
  Let mulG k := zmul pt add zero neg k G.
  Let mul k Q := zmul pt add zero neg k Q.
  Definition group_premises : Prop :=
    (forall a b c, add a (add b c) = add (add a b) c) /\ (forall a b, add a b = add b a) /\
    (forall a, add zero a = a) /\ (forall a, add a (neg a) = zero) /\
    (forall P, zmul pt add zero neg SECP256K1_N P = zero) /\ (forall P, xof (neg P) = xof P) /\
    (forall s, 0 < s < SECP256K1_N -> 0 < inv s < SECP256K1_N /\ (s * inv s) mod SECP256K1_N = 1).

  Theorem C50_ecdsa_verify_ignores_sign_of_s : group_premises -> forall r s Q m, 0 < s < SECP256K1_N ->
    ecdsa_sig_verify_gen pt add mulG mul xof inv r (SECP256K1_N - s) Q m = ecdsa_sig_verify_gen pt add mulG mul xof inv r s Q m.
  Proof. intros (H1 & H2 & H3 & H4 & H5 & H6 & H7). exact (ecdsa_neg_s pt add zero neg H1 H2 H3 H4 G H5 xof H6 inv H7). Qed.

  Theorem C50_strict_verify_iff_valid_and_low_s : forall r s Q m, 0 <= s < 2 ^ 256 ->
    ecdsa_verify_gen pt add mulG mul xof inv (r, s) m Q = (s <=? SECP256K1_N / 2) && ecdsa_sig_verify_gen pt add mulG mul xof inv r s Q m.
  Proof. exact (strict_iff_valid_low_s pt add zero neg G xof inv). Qed.

  Theorem C50_node_verify_iff_normalised_form_valid : group_premises -> forall r s Q m, 0 < s < SECP256K1_N ->
    node_ecdsa_verify_gen pt add mulG mul xof inv (r, s) m Q = ecdsa_sig_verify_gen pt add mulG mul xof inv r s Q m /\
    node_ecdsa_verify_gen pt add mulG mul xof inv (r, s) m Q = ecdsa_verify_gen pt add mulG mul xof inv (r, Z.min s (SECP256K1_N - s)) m Q.
  Proof. intros (H1 & H2 & H3 & H4 & H5 & H6 & H7). exact (node_verify_spec pt add zero neg H1 H2 H3 H4 G H5 xof H6 inv H7). Qed.

  (* sign-then-verify: whatever secp256k1_ecdsa_sig_sign returns for key d, message m and nonce k is a low-S
     signature with 0 < r < n that the strict verification accepts under the public key d*G *)
  Theorem C50_ecdsa_sign_then_verify : group_premises -> (forall P x, xof P = Some x -> 0 <= x < SECP256K1_P) ->
    forall d m k r s, 0 < d < SECP256K1_N -> 0 <= m < SECP256K1_N -> 0 < k < SECP256K1_N ->
    ecdsa_sig_sign_gen pt mulG xof inv d m k = Some (r, s) ->
    ecdsa_verify_gen pt add mulG mul xof inv (r, s) m (mulG d) = true /\ 0 < r < SECP256K1_N /\ 0 < s <= SECP256K1_N / 2.
  Proof. intros (H1 & H2 & H3 & H4 & H5 & H6 & H7) H8. exact (ecdsa_sign_verify pt add zero neg H1 H2 H3 H4 G H5 xof H6 H8 inv H7). Qed.
End Ecdsa.
Print Assumptions C50_ecdsa_sign_then_verify.
Print Assumptions C50_ecdsa_verify_ignores_sign_of_s.
Print Assumptions C50_strict_verify_iff_valid_and_low_s.
Print Assumptions C50_node_verify_iff_normalised_form_valid.

(* non-vacuity: the boundary values behave as stated on the model, G is on the curve and round-trips through
   both serialisations, and the group premises are satisfiable (trivial group, any inverse with the stated property
   is supplied by a premise of the same shape) *)
Example C50_nonvacuous :
  scalar_is_high (SECP256K1_N / 2) = false /\ scalar_is_high (SECP256K1_N / 2 + 1) = true /\
  scalar_check_overflow (SECP256K1_N - 1) = false /\ scalar_check_overflow SECP256K1_N = true /\
  on_curve SECP256K1_GX SECP256K1_GY = true /\
  ec_pubkey_parse (ec_pubkey_serialize true (SECP256K1_GX, SECP256K1_GY)) = Some (SECP256K1_GX, SECP256K1_GY) /\
  ec_pubkey_parse (ec_pubkey_serialize false (SECP256K1_GX, SECP256K1_GY)) = Some (SECP256K1_GX, SECP256K1_GY) /\
  fe_set_b32_limit (be_bytes_z 32 SECP256K1_P) = None /\ fe_set_b32_limit (be_bytes_z 32 (SECP256K1_P - 1)) = Some (SECP256K1_P - 1).
Proof. vm_compute. repeat split; reflexivity. Qed.
