(* C49  Cryptographic primitives compute the standard functions.
   Only statements here; each is closed by `exact` of a lemma from proofs/Crypto*Lemmas.v.
   Specifications (sha256_spec, sha1_spec, sha512_spec, ripemd160_spec, hmac_spec, hkdf_spec, ...) are
   written from the standards and pinned to them by the standards' test vectors (Examples evaluated
   by vm_compute in proofs/Crypto*Lemmas.v). *)
From Coq Require Import NArith.
From BV Require Import lib.Ints model.CryptoBase model.CryptoMD model.CryptoSHA256 model.CryptoSHA1
  model.CryptoSHA512 model.CryptoRIPEMD160 model.CryptoHMAC model.CryptoHMACInst
  model.CryptoChaCha model.CryptoPoly1305 model.CryptoAEAD model.CryptoSipHash model.CryptoSHA3
  model.CryptoSHA256D64 model.CryptoHashWrap model.CryptoPoly1305Limbs model.CryptoAES
  proofs.CryptoBaseLemmas proofs.CryptoMDLemmas proofs.CryptoSHA256Lemmas proofs.CryptoHashesLemmas
  proofs.CryptoHMACLemmas proofs.CryptoHMACInstLemmas
  proofs.CryptoChaChaLemmas proofs.CryptoPoly1305Lemmas proofs.CryptoAEADLemmas
  proofs.CryptoSipHashLemmas proofs.CryptoSHA3Lemmas
  proofs.CryptoSHA256D64Lemmas proofs.CryptoHashWrapLemmas proofs.CryptoFSLemmas proofs.CryptoPoly1305LimbsLemmas
  proofs.CryptoAESLemmas proofs.CryptoFSChaChaLemmas.
Local Open Scope Z_scope.

(* ---------- streaming hashers: any fragmentation = one shot ---------- *)

(* The buffer logic shared by CSHA256, CSHA1, CRIPEMD160, CSHA512, for ANY block size B > 0 and ANY
   compression function: Write...Write;Finalize of the object model (bytes counter mod 2^64, B-byte
   buffer with arbitrary initial contents, the three phases of Write, Finalize's pad length
   1 + ((padconst - bytes % B) % B) and size descriptor) equals the padded iteration of the standard
   on the concatenation, for every list of fragments (empty ones included). *)
Theorem C49_md_stream_any_chunking :
  forall (State : Type) (B : nat) (compress : State -> list N -> State) (iv : State) (out : State -> list N)
         (L : nat) (lenfield : Z -> list N) (padconst : Z) (sizedesc : Z -> list N),
  (0 < B)%nat -> Z.of_nat B + Z.of_nat L <= 2 ^ 32 ->
  padconst = 2 * Z.of_nat B - Z.of_nat L - 1 ->
  (forall v, length (lenfield v) = L) ->
  (forall v, 0 <= v < 2 ^ 64 -> sizedesc v = lenfield v) ->
  forall ubuf chunks, length ubuf = B -> 8 * Z.of_nat (length (concat chunks)) < 2 ^ 64 ->
  h_stream State B compress iv out padconst sizedesc ubuf chunks =
  md_spec State B compress iv out L lenfield (concat chunks).
Proof. exact md_stream_eq_spec. Qed.
Print Assumptions C49_md_stream_any_chunking.

(* the padding the specification uses is the standard's: total length a multiple of the block, the
   number of zero bytes the least possible, the last L bytes encode the bit length *)
Theorem C49_md_padding : forall (B L : nat) (lenfield : Z -> list N),
  (0 < B)%nat -> (forall v, length (lenfield v) = L) ->
  forall msg,
    (length (md_padded B L lenfield msg) mod B = 0)%nat /\
    md_padded B L lenfield msg = msg ++ [128%N] ++ zeros (md_zeros B L (length msg)) ++ lenfield (8 * Z.of_nat (length msg)) /\
    (forall k, ((length msg + 1 + k + L) mod B = 0)%nat -> (md_zeros B L (length msg) <= k)%nat).
Proof. exact md_padding_standard. Qed.
Print Assumptions C49_md_padding.

Theorem C49_sha256_stream_any_chunking : forall ubuf chunks,
  length ubuf = 64%nat -> 8 * Z.of_nat (length (concat chunks)) < 2 ^ 64 ->
  csha256_finalize (fold_left csha256_write chunks (csha256_init ubuf)) = sha256_spec (concat chunks).
Proof. exact csha256_stream_eq_spec. Qed.
Print Assumptions C49_sha256_stream_any_chunking.

Theorem C49_sha1_stream_any_chunking : forall ubuf chunks,
  length ubuf = 64%nat -> 8 * Z.of_nat (length (concat chunks)) < 2 ^ 64 ->
  csha1_finalize (fold_left csha1_write chunks (csha1_init ubuf)) = sha1_spec (concat chunks).
Proof. exact csha1_stream_eq_spec. Qed.
Print Assumptions C49_sha1_stream_any_chunking.

Theorem C49_ripemd160_stream_any_chunking : forall ubuf chunks,
  length ubuf = 64%nat -> 8 * Z.of_nat (length (concat chunks)) < 2 ^ 64 ->
  cripemd160_finalize (fold_left cripemd160_write chunks (cripemd160_init ubuf)) = ripemd160_spec (concat chunks).
Proof. exact cripemd160_stream_eq_spec. Qed.
Print Assumptions C49_ripemd160_stream_any_chunking.

Theorem C49_sha512_stream_any_chunking : forall ubuf chunks,
  length ubuf = 128%nat -> 8 * Z.of_nat (length (concat chunks)) < 2 ^ 64 ->
  csha512_finalize (fold_left csha512_write chunks (csha512_init ubuf)) = sha512_spec (concat chunks).
Proof. exact csha512_stream_eq_spec. Qed.
Print Assumptions C49_sha512_stream_any_chunking.

(* ---------- HMAC (RFC 2104) and HKDF (RFC 5869) ---------- *)
(* CHMAC_SHA256 / CHMAC_SHA512: every key length (the <= block-size branch and the hashed-key branch),
   every message, every fragmentation of the message *)
Theorem C49_hmac_sha256_is_rfc2104 : forall ubuf key chunks,
  length ubuf = 64%nat ->
  8 * Z.of_nat (length key) < 2 ^ 64 -> 8 * Z.of_nat (64 + length (concat chunks)) < 2 ^ 64 ->
  chmac_sha256_stream ubuf key chunks = hmac_spec sha256_spec 64 key (concat chunks).
Proof. exact chmac_sha256_stream_eq_spec. Qed.
Print Assumptions C49_hmac_sha256_is_rfc2104.

Theorem C49_hmac_sha512_is_rfc2104 : forall ubuf key chunks,
  length ubuf = 128%nat ->
  8 * Z.of_nat (length key) < 2 ^ 64 -> 8 * Z.of_nat (128 + length (concat chunks)) < 2 ^ 64 ->
  chmac_sha512_stream ubuf key chunks = hmac_spec sha512_spec 128 key (concat chunks).
Proof. exact chmac_sha512_stream_eq_spec. Qed.
Print Assumptions C49_hmac_sha512_is_rfc2104.

(* CHKDF_HMAC_SHA256_L32(ikm, salt).Expand32(info) = HKDF-Expand(HKDF-Extract(salt, ikm), info, 32) *)
Theorem C49_hkdf_sha256_l32_is_rfc5869 : forall ubuf ikm salt info,
  length ubuf = 64%nat ->
  8 * Z.of_nat (length salt) < 2 ^ 64 -> 8 * Z.of_nat (64 + length ikm) < 2 ^ 64 ->
  8 * Z.of_nat (64 + length info + 1) < 2 ^ 64 ->
  chkdf_sha256_l32 ubuf ikm salt info = hkdf_spec sha256_spec 64 32 salt ikm info 32.
Proof. exact chkdf_sha256_l32_eq_spec. Qed.
Print Assumptions C49_hkdf_sha256_l32_is_rfc5869.

(* ---------- ChaCha20 (RFC 8439 2.1-2.4) ---------- *)
(* The buffered object ChaCha20: starting with an empty leftover buffer (after construction, SetKey or
   Seek), the outputs of ANY sequence of Crypt(data) / Keystream(n) calls, concatenated, equal the inputs
   (zeros for Keystream) XORed with the block stream of ChaCha20Aligned from the same state; K is any
   number of blocks that covers the total length.  No premise on the block counter: the C++ overflow rule
   (`++j12; if (!j12) ++j13;`) is part of the model's block stream. *)
Theorem C49_chacha20_any_call_sequence : forall c ops K,
  input_ok (cc_input c) -> length (cc_buffer c) = 64%nat -> cc_bufleft c = 0%nat ->
  (ops_total ops <= 64 * K)%nat ->
  concat (fst (cc_run_ops c ops)) =
  xor_bytes (concat (map op_data ops)) (fst (aligned_keystream K (cc_input c))).
Proof. exact chacha20_ops_stream. Qed.
Print Assumptions C49_chacha20_any_call_sequence.

Theorem C49_chacha20_crypt_chunking_independent : forall c chunks,
  input_ok (cc_input c) -> length (cc_buffer c) = 64%nat -> cc_bufleft c = 0%nat ->
  concat (fst (chacha20_crypt_seq c chunks)) = fst (chacha20_crypt c (concat chunks)).
Proof. exact chacha20_crypt_chunking. Qed.
Print Assumptions C49_chacha20_crypt_chunking_independent.

Theorem C49_chacha20_crypt_involution : forall c msg,
  input_ok (cc_input c) -> length (cc_buffer c) = 64%nat -> cc_bufleft c = 0%nat ->
  fst (chacha20_crypt c (fst (chacha20_crypt c msg))) = msg.
Proof. exact chacha20_crypt_involution. Qed.
Print Assumptions C49_chacha20_crypt_involution.

(* ChaCha20(key); Seek({nf, ns}, ctr); Crypt(c1); ...; Crypt(cn) is RFC 8439's chacha20_encrypt with the
   nonce LE32(nf) || LE64(ns), as long as the 32-bit block counter does not wrap *)
Theorem C49_chacha20_is_rfc8439 : forall ubuf key nf ns ctr chunks,
  length ubuf = 64%nat -> length (le32_words key) = 8%nat ->
  0 <= nf < 2 ^ 32 -> 0 <= ns < 2 ^ 64 -> 0 <= ctr ->
  ctr + Z.of_nat (blocks_needed (length (concat chunks))) <= 2 ^ 32 ->
  concat (fst (chacha20_crypt_seq (chacha20_seek (chacha20_new ubuf key) nf ns ctr) chunks)) =
  chacha20_encrypt key ctr (rfc_nonce nf ns) (concat chunks).
Proof. exact chacha20_object_is_rfc8439. Qed.
Print Assumptions C49_chacha20_is_rfc8439.

(* ---------- Poly1305 (RFC 8439 2.5) ---------- *)
(* incremental Update with any fragmentation (partial-block buffer, final block with the 0x01 marker) = one shot;
   no length bound; any initial contents of the context's buffer *)
Theorem C49_poly1305_incremental_is_rfc8439 : forall ubuf key chunks,
  length ubuf = 16%nat ->
  poly1305_stream ubuf key chunks = poly1305_spec key (concat chunks).
Proof. exact poly1305_stream_eq_spec. Qed.
Print Assumptions C49_poly1305_incremental_is_rfc8439.

(* ---------- AEAD_CHACHA20_POLY1305 (RFC 8439 2.8) ---------- *)
(* `key_loaded c key`: the ChaCha20 member holds `key` (whatever was done with the object before) *)
Theorem C49_aead_encrypt_is_rfc8439 : forall pbuf c key plain1 plain2 aad nf ns,
  key_loaded c key -> length pbuf = 16%nat ->
  0 <= nf < 2 ^ 32 -> 0 <= ns < 2 ^ 64 ->
  1 + Z.of_nat (blocks_needed (length (plain1 ++ plain2))) <= 2 ^ 32 ->
  Z.of_nat (length aad) < 2 ^ 64 ->
  fst (aead_encrypt pbuf c plain1 plain2 aad nf ns) = aead_encrypt_spec key (rfc_nonce nf ns) aad (plain1 ++ plain2) /\
  key_loaded (snd (aead_encrypt pbuf c plain1 plain2 aad nf ns)) key.
Proof. exact aead_encrypt_is_rfc8439. Qed.
Print Assumptions C49_aead_encrypt_is_rfc8439.

(* Decrypt accepts exactly when the 16 trailing bytes equal the Poly1305 tag of (aad, ciphertext) under the
   one-time key (all 16 bytes are compared), and then returns the decryption split at len1 *)
Theorem C49_aead_decrypt_accepts_iff_tag : forall pbuf c key cipher aad nf ns len1,
  key_loaded c key -> length pbuf = 16%nat ->
  0 <= nf < 2 ^ 32 -> 0 <= ns < 2 ^ 64 ->
  (16 <= length cipher)%nat -> (len1 <= length cipher - 16)%nat ->
  1 + Z.of_nat (blocks_needed (length cipher - 16)) <= 2 ^ 32 ->
  Z.of_nat (length aad) < 2 ^ 64 ->
  let ct := firstn (length cipher - 16) cipher in
  let tag := skipn (length cipher - 16) cipher in
  let pt := chacha20_encrypt key 1 (rfc_nonce nf ns) ct in
  (tag = aead_tag_spec key (rfc_nonce nf ns) aad ct ->
     fst (aead_decrypt pbuf c cipher aad nf ns len1) = Some (firstn len1 pt, skipn len1 pt)) /\
  (tag <> aead_tag_spec key (rfc_nonce nf ns) aad ct ->
     fst (aead_decrypt pbuf c cipher aad nf ns len1) = None) /\
  key_loaded (snd (aead_decrypt pbuf c cipher aad nf ns len1)) key.
Proof. exact aead_decrypt_characterised. Qed.
Print Assumptions C49_aead_decrypt_accepts_iff_tag.

Theorem C49_aead_roundtrip : forall pbuf pbuf' c c' key plain1 plain2 aad nf ns,
  key_loaded c key -> key_loaded c' key -> length pbuf = 16%nat -> length pbuf' = 16%nat ->
  0 <= nf < 2 ^ 32 -> 0 <= ns < 2 ^ 64 ->
  1 + Z.of_nat (blocks_needed (length (plain1 ++ plain2))) <= 2 ^ 32 ->
  Z.of_nat (length aad) < 2 ^ 64 ->
  fst (aead_decrypt pbuf' c' (fst (aead_encrypt pbuf c plain1 plain2 aad nf ns)) aad nf ns (length plain1))
  = Some (plain1, plain2).
Proof. exact aead_roundtrip. Qed.
Print Assumptions C49_aead_roundtrip.

(* "rejects any modified ciphertext, tag or associated data", precisely: whatever (aad, ciphertext, tag) is
   presented, acceptance implies that the presented tag is the Poly1305 tag of the presented (aad, ciphertext)
   under the one-time key of (key, nonce) — a modification is accepted only with a valid tag for the modified
   transcript (a Poly1305 forgery) ... *)
Theorem C49_aead_accept_implies_valid_tag : forall pbuf c key cipher aad nf ns len1 res,
  key_loaded c key -> length pbuf = 16%nat ->
  0 <= nf < 2 ^ 32 -> 0 <= ns < 2 ^ 64 ->
  (16 <= length cipher)%nat -> (len1 <= length cipher - 16)%nat ->
  1 + Z.of_nat (blocks_needed (length cipher - 16)) <= 2 ^ 32 ->
  Z.of_nat (length aad) < 2 ^ 64 ->
  fst (aead_decrypt pbuf c cipher aad nf ns len1) = Some res ->
  skipn (length cipher - 16) cipher =
  aead_tag_spec key (rfc_nonce nf ns) aad (firstn (length cipher - 16) cipher).
Proof. exact aead_accept_implies_tag. Qed.
Print Assumptions C49_aead_accept_implies_valid_tag.

(* ... and a modification of the tag alone (any of its 16 bytes) is always rejected *)
Theorem C49_aead_modified_tag_rejected : forall pbuf pbuf' c c' key plain1 plain2 aad nf ns tag' len1,
  key_loaded c key -> key_loaded c' key -> length pbuf = 16%nat -> length pbuf' = 16%nat ->
  0 <= nf < 2 ^ 32 -> 0 <= ns < 2 ^ 64 ->
  1 + Z.of_nat (blocks_needed (length (plain1 ++ plain2))) <= 2 ^ 32 ->
  Z.of_nat (length aad) < 2 ^ 64 ->
  let out := fst (aead_encrypt pbuf c plain1 plain2 aad nf ns) in
  let ct := firstn (length out - 16) out in
  length tag' = 16%nat -> tag' <> skipn (length out - 16) out -> (len1 <= length ct)%nat ->
  fst (aead_decrypt pbuf' c' (ct ++ tag') aad nf ns len1) = None.
Proof. exact aead_modified_tag_rejected. Qed.
Print Assumptions C49_aead_modified_tag_rejected.

(* ---------- SipHash-2-4 (Aumasson, Bernstein) ---------- *)
(* CSipHasher(k0,k1).Write(span)...Finalize(): every fragmentation, EVERY total length (the uint8_t byte
   counter wraps exactly like the "length mod 256" byte of the specification) *)
Theorem C49_siphash_stream_any_chunking : forall k0 k1 chunks,
  bytes_ok (concat chunks) ->
  csiphasher_finalize (fold_left csiphasher_write_bytes chunks (csiphasher_init k0 k1)) =
  siphash24_spec k0 k1 (concat chunks).
Proof. exact csiphasher_stream_eq_spec. Qed.
Print Assumptions C49_siphash_stream_any_chunking.

(* the uint256 fast paths are SipHash-2-4 of the 32 bytes (followed by the 4 LE bytes of `extra`) *)
Theorem C49_siphash_uint256_fast_path : forall k0 k1 val,
  length val = 32%nat -> presalted_siphash_u256 k0 k1 val = siphash24_spec k0 k1 val.
Proof. exact presalted_siphash_u256_eq_spec. Qed.
Print Assumptions C49_siphash_uint256_fast_path.

Theorem C49_siphash_uint256_extra_fast_path : forall k0 k1 val extra,
  length val = 32%nat -> 0 <= extra < 2 ^ 32 ->
  presalted_siphash_u256_extra k0 k1 val extra = siphash24_spec k0 k1 (val ++ le_bytes 4 extra).
Proof. exact presalted_siphash_u256_extra_eq_spec. Qed.
Print Assumptions C49_siphash_uint256_extra_fast_path.

(* ---------- SHA3-256 (FIPS 202) ---------- *)
(* SHA3_256().Write(c1)...Write(cn).Finalize(): every fragmentation, every length, any initial m_buffer *)
Theorem C49_sha3_256_stream_any_chunking : forall ubuf chunks,
  length ubuf = 8%nat -> bytes_ok (concat chunks) ->
  sha3_finalize (fold_left sha3_write chunks (sha3_init ubuf)) = sha3_256_spec (concat chunks).
Proof. exact sha3_stream_eq_spec. Qed.
Print Assumptions C49_sha3_256_stream_any_chunking.

(* the unrolled C++ KeccakF (transcribed statement by statement) is Keccak-f[1600] of FIPS 202 on every state *)
Theorem C49_keccakf_cpp_is_fips202 : forall st, length st = 25%nat -> keccakf_cpp st = keccak_f st.
Proof. exact keccakf_cpp_eq. Qed.
Print Assumptions C49_keccakf_cpp_is_fips202.

(* ---------- SHA256D64 (64-byte double-hash batch path) ---------- *)
(* TransformD64Wrapper (three compressions with the constant paddings) = SHA256(SHA256(block)) *)
Theorem C49_sha256_d64_wrapper_is_double_sha256 : forall block,
  length block = 64%nat -> transform_d64_wrapper block = sha256d block.
Proof. exact transform_d64_wrapper_is_sha256d. Qed.
Print Assumptions C49_sha256_d64_wrapper_is_double_sha256.

(* the 8/4/2/1-way dispatch loop of SHA256D64, whichever backends are present, for every block count *)
Theorem C49_sha256d64_dispatch : forall have8 have4 have2 blocks input,
  (64 * blocks <= length input)%nat ->
  sha256d64_dispatch have8 have4 have2 blocks input = sha256d64_spec blocks input.
Proof. exact sha256d64_dispatch_is_spec. Qed.
Print Assumptions C49_sha256d64_dispatch.

(* ---------- composite hashers of hash.h ---------- *)
Theorem C49_hash256_stream : forall ubuf ubuf2 chunks,
  length ubuf = 64%nat -> length ubuf2 = 64%nat -> 8 * Z.of_nat (length (concat chunks)) < 2 ^ 64 ->
  chash256_stream ubuf ubuf2 chunks = sha256_spec (sha256_spec (concat chunks)).
Proof. exact chash256_stream_eq_spec. Qed.
Print Assumptions C49_hash256_stream.

Theorem C49_hash160_stream : forall ubuf ubuf2 chunks,
  length ubuf = 64%nat -> length ubuf2 = 64%nat -> 8 * Z.of_nat (length (concat chunks)) < 2 ^ 64 ->
  chash160_stream ubuf ubuf2 chunks = ripemd160_spec (sha256_spec (concat chunks)).
Proof. exact chash160_stream_eq_spec. Qed.
Print Assumptions C49_hash160_stream.

(* BIP340 tagged hash: TaggedHash(tag) << chunks, GetSHA256() = SHA256(SHA256(tag) || SHA256(tag) || msg) *)
Theorem C49_tagged_hash_stream : forall ubuf tag chunks,
  length ubuf = 64%nat -> 8 * Z.of_nat (length tag) < 2 ^ 64 ->
  8 * Z.of_nat (64 + length (concat chunks)) < 2 ^ 64 ->
  tagged_hash_stream ubuf tag chunks = sha256_spec (sha256_spec tag ++ sha256_spec tag ++ concat chunks).
Proof. exact tagged_hash_stream_eq_spec. Qed.
Print Assumptions C49_tagged_hash_stream.

(* ---------- FSChaCha20Poly1305 (BIP324 packet cipher): the rekey schedule ---------- *)
(* packet number i is the RFC 8439 AEAD under key K_(i / interval) with nonce LE32(i mod interval) || LE64(i / interval),
   K_(j+1) = first 32 bytes of AEAD_(K_j)(nonce FFFFFFFF || LE64(j), aad "", 32 zero bytes)   [bip324_seq_spec] *)
Theorem C49_fsaead_rekey_schedule_is_bip324 : forall ubuf pbuf key interval packets,
  length ubuf = 64%nat -> length pbuf = 16%nat -> length key = 32%nat ->
  (0 < interval)%nat -> Z.of_nat interval < 2 ^ 32 -> Z.of_nat (length packets) < 2 ^ 64 ->
  Forall packet_ok packets ->
  fst (fsaead_encrypt_seq pbuf (fsaead_new ubuf key (Z.of_nat interval)) packets) = bip324_seq_spec key interval 0 packets.
Proof. exact fsaead_is_bip324. Qed.
Print Assumptions C49_fsaead_rekey_schedule_is_bip324.

(* FSChaCha20 (BIP324 length cipher): within epoch j the chunks take consecutive bytes of the ChaCha20 stream of
   (K_j, nonce 0 || LE64(j), counter 0); after `interval` chunks the next 32 stream bytes become K_(j+1)   [fsc_spec] *)
Theorem C49_fschacha20_is_bip324 : forall ubuf key interval chunks,
  length ubuf = 64%nat -> length key = 32%nat -> (0 < interval)%nat -> Z.of_nat interval < 2 ^ 32 ->
  Z.of_nat (length chunks) < 2 ^ 64 -> fsc_sizes_ok interval 0 0 chunks ->
  fst (fschacha20_crypt_seq (fschacha20_new ubuf key (Z.of_nat interval)) chunks) = fsc_spec interval key 0 0 0 chunks.
Proof. exact fschacha20_is_bip324. Qed.
Print Assumptions C49_fschacha20_is_bip324.

(* ---------- Poly1305 at the level of the 26-bit limb code of poly1305_donna ---------- *)
(* init / update / finish transcribed statement by statement with explicit uint32_t / uint64_t reductions:
   for every 32-byte key and every fragmentation of every byte string the result is RFC 8439's poly1305_mac
   (no operation wraps; partial reduction, final carry, conditional subtraction of p and the pad addition are right) *)
Theorem C49_poly1305_limb_code_is_rfc8439 : forall ubuf key chunks,
  length ubuf = 16%nat -> bytes_ok key -> length key = 32%nat -> Forall bytes_ok chunks ->
  donna_stream ubuf key chunks = poly1305_spec key (concat chunks).
Proof. exact donna_stream_eq_spec. Qed.
Print Assumptions C49_poly1305_limb_code_is_rfc8439.

(* ---------- AES-256 (FIPS 197) and AES-256-CBC (SP 800-38A, PKCS#7 padding) ---------- *)
Theorem C49_aes256_decrypt_inverts_encrypt : forall key block,
  length key = 32%nat -> bytes_ok key -> length block = 16%nat -> bytes_ok block ->
  aes256_decrypt_block_spec key (aes256_encrypt_block_spec key block) = block.
Proof. exact aes256_inv_cipher. Qed.
Print Assumptions C49_aes256_decrypt_inverts_encrypt.

Theorem C49_aes256cbc_roundtrip : forall key iv,
  length key = 32%nat -> bytes_ok key -> length iv = 16%nat -> bytes_ok iv ->
  forall data, bytes_ok data -> cbc_decrypt key iv (cbc_encrypt key iv data true) true = data.
Proof. exact cbc_roundtrip. Qed.
Print Assumptions C49_aes256cbc_roundtrip.

(* AES256CBCEncrypt with padding = SP 800-38A CBC of data || PKCS#7 padding (size 0: the C++ writes nothing) *)
Theorem C49_aes256cbc_encrypt_is_sp80038a : forall key iv,
  length key = 32%nat -> bytes_ok key -> length iv = 16%nat -> bytes_ok iv ->
  forall data, bytes_ok data -> data <> [] ->
  cbc_encrypt key iv data true = cbc_encrypt_spec key iv (pkcs7_pad data) /\
  cbc_encrypt_ret key iv data true = ((length data / 16 + 1) * 16)%nat.
Proof. exact cbc_encrypt_is_sp80038a. Qed.
Print Assumptions C49_aes256cbc_encrypt_is_sp80038a.

(* AES256CBCDecrypt with padding: decrypt everything, accept exactly a PKCS#7 tail (k bytes of value k, 1 <= k <= 16) *)
Theorem C49_aes256cbc_decrypt_padding_check : forall key iv,
  length key = 32%nat -> bytes_ok key -> length iv = 16%nat -> bytes_ok iv ->
  forall data, bytes_ok data ->
  cbc_decrypt key iv data true =
  match pkcs7_unpad (cbc_decrypt key iv data false) with Some d => d | None => [] end.
Proof. exact cbc_decrypt_padding_check. Qed.
Print Assumptions C49_aes256cbc_decrypt_padding_check.

Example C49_nonvacuous_sha256 :
  be_value (csha256_stream [[97%N]; []; [98; 99]%N]) = 0xba7816bf8f01cfea414140de5dae2223b00361a396177a9cb410ff61f20015ad.
Proof. vm_compute. reflexivity. Qed.

(* the premises of the AEAD theorems are satisfiable, and the functions do something: RFC 8439 2.8.2 key / nonce / aad,
   a split plaintext, round trip through the object models; a flipped last tag bit is rejected *)
Example C49_nonvacuous_aead :
  let key := map N.of_nat (seq 128 32) in
  let aad := [0x50; 0x51; 0x52; 0x53; 0xc0; 0xc1; 0xc2; 0xc3; 0xc4; 0xc5; 0xc6; 0xc7]%N in
  let c := chacha20_new (zeros 64) key in
  let out := fst (aead_encrypt (zeros 16) c (firstn 70 sunscreen) (skipn 70 sunscreen) aad 7 0x4746454443424140) in
  key_loaded c key /\
  skipn 114 out = [0x1a; 0xe1; 0x0b; 0x59; 0x4f; 0x09; 0xe2; 0x6a; 0x7e; 0x90; 0x2e; 0xcb; 0xd0; 0x60; 0x06; 0x91]%N /\
  fst (aead_decrypt (zeros 16) c out aad 7 0x4746454443424140 70) = Some (firstn 70 sunscreen, skipn 70 sunscreen) /\
  fst (aead_decrypt (zeros 16) c (firstn 129 out ++ [0x90]%N) aad 7 0x4746454443424140 70) = None.
Proof. vm_compute. repeat split; reflexivity. Qed.

