(* C49  Cryptographic primitives compute the standard functions.
   Only statements here; each is closed by `exact` of a lemma from proofs/Crypto*Lemmas.v.
   Specifications (sha256_spec, sha1_spec, sha512_spec, ripemd160_spec, hmac_spec, hkdf_spec, ...) are
   written from the standards and pinned to them by the standards' test vectors (Examples evaluated
   by vm_compute in proofs/Crypto*Lemmas.v). *)
From Coq Require Import NArith.
From BV Require Import lib.Ints model.CryptoBase model.CryptoMD model.CryptoSHA256 model.CryptoSHA1
  model.CryptoSHA512 model.CryptoRIPEMD160 model.CryptoHMAC model.CryptoHMACInst
  proofs.CryptoBaseLemmas proofs.CryptoMDLemmas proofs.CryptoSHA256Lemmas proofs.CryptoHashesLemmas
  proofs.CryptoHMACLemmas proofs.CryptoHMACInstLemmas.
Local Open Scope Z_scope.

(* ---------- streaming hashers: any fragmentation = one shot ---------- *)

(* The buffer logic shared by CSHA256, CSHA1, CRIPEMD160, CSHA512, for ANY block size B > 0 and ANY
   compression function: Write...Write;Finalize of the object model (bytes counter mod 2^64, B-byte
   buffer with arbitrary initial contents, the three phases of Write, Finalize's pad length
   1 + ((padconst - bytes % B) % B) and size descriptor) equals the padded iteration of the standard
   on the concatenation, for every list of fragments (empty ones included). *)
Theorem C49_md_stream_any_chunking :
  forall (State : Type) (B : nat) (compress : State -> list N -> State) (iv : State) (out : State -> list N)
         (L : nat) (lenfield : Z -> list N) (padconst : Z) (sizedesc : Z -> list N),
  (0 < B)%nat -> Z.of_nat B + Z.of_nat L <= 2 ^ 32 ->
  padconst = 2 * Z.of_nat B - Z.of_nat L - 1 ->
  (forall v, length (lenfield v) = L) ->
  (forall v, 0 <= v < 2 ^ 64 -> sizedesc v = lenfield v) ->
  forall ubuf chunks, length ubuf = B -> 8 * Z.of_nat (length (concat chunks)) < 2 ^ 64 ->
  h_stream State B compress iv out padconst sizedesc ubuf chunks =
  md_spec State B compress iv out L lenfield (concat chunks).
Proof. exact md_stream_eq_spec. Qed.
Print Assumptions C49_md_stream_any_chunking.

(* the padding the specification uses is the standard's: total length a multiple of the block, the
   number of zero bytes the least possible, the last L bytes encode the bit length *)
Theorem C49_md_padding : forall (B L : nat) (lenfield : Z -> list N),
  (0 < B)%nat -> (forall v, length (lenfield v) = L) ->
  forall msg,
    (length (md_padded B L lenfield msg) mod B = 0)%nat /\
    md_padded B L lenfield msg = msg ++ [128%N] ++ zeros (md_zeros B L (length msg)) ++ lenfield (8 * Z.of_nat (length msg)) /\
    (forall k, ((length msg + 1 + k + L) mod B = 0)%nat -> (md_zeros B L (length msg) <= k)%nat).
Proof. exact md_padding_standard. Qed.
Print Assumptions C49_md_padding.

Theorem C49_sha256_stream_any_chunking : forall ubuf chunks,
  length ubuf = 64%nat -> 8 * Z.of_nat (length (concat chunks)) < 2 ^ 64 ->
  csha256_finalize (fold_left csha256_write chunks (csha256_init ubuf)) = sha256_spec (concat chunks).
Proof. exact csha256_stream_eq_spec. Qed.
Print Assumptions C49_sha256_stream_any_chunking.

Theorem C49_sha1_stream_any_chunking : forall ubuf chunks,
  length ubuf = 64%nat -> 8 * Z.of_nat (length (concat chunks)) < 2 ^ 64 ->
  csha1_finalize (fold_left csha1_write chunks (csha1_init ubuf)) = sha1_spec (concat chunks).
Proof. exact csha1_stream_eq_spec. Qed.
Print Assumptions C49_sha1_stream_any_chunking.

Theorem C49_ripemd160_stream_any_chunking : forall ubuf chunks,
  length ubuf = 64%nat -> 8 * Z.of_nat (length (concat chunks)) < 2 ^ 64 ->
  cripemd160_finalize (fold_left cripemd160_write chunks (cripemd160_init ubuf)) = ripemd160_spec (concat chunks).
Proof. exact cripemd160_stream_eq_spec. Qed.
Print Assumptions C49_ripemd160_stream_any_chunking.

Theorem C49_sha512_stream_any_chunking : forall ubuf chunks,
  length ubuf = 128%nat -> 8 * Z.of_nat (length (concat chunks)) < 2 ^ 64 ->
  csha512_finalize (fold_left csha512_write chunks (csha512_init ubuf)) = sha512_spec (concat chunks).
Proof. exact csha512_stream_eq_spec. Qed.
Print Assumptions C49_sha512_stream_any_chunking.

(* ---------- HMAC (RFC 2104) and HKDF (RFC 5869) ---------- *)
(* CHMAC_SHA256 / CHMAC_SHA512: every key length (the <= block-size branch and the hashed-key branch),
   every message, every fragmentation of the message *)
Theorem C49_hmac_sha256_is_rfc2104 : forall ubuf key chunks,
  length ubuf = 64%nat ->
  8 * Z.of_nat (length key) < 2 ^ 64 -> 8 * Z.of_nat (64 + length (concat chunks)) < 2 ^ 64 ->
  chmac_sha256_stream ubuf key chunks = hmac_spec sha256_spec 64 key (concat chunks).
Proof. exact chmac_sha256_stream_eq_spec. Qed.
Print Assumptions C49_hmac_sha256_is_rfc2104.

Theorem C49_hmac_sha512_is_rfc2104 : forall ubuf key chunks,
  length ubuf = 128%nat ->
  8 * Z.of_nat (length key) < 2 ^ 64 -> 8 * Z.of_nat (128 + length (concat chunks)) < 2 ^ 64 ->
  chmac_sha512_stream ubuf key chunks = hmac_spec sha512_spec 128 key (concat chunks).
Proof. exact chmac_sha512_stream_eq_spec. Qed.
Print Assumptions C49_hmac_sha512_is_rfc2104.

(* CHKDF_HMAC_SHA256_L32(ikm, salt).Expand32(info) = HKDF-Expand(HKDF-Extract(salt, ikm), info, 32) *)
Theorem C49_hkdf_sha256_l32_is_rfc5869 : forall ubuf ikm salt info,
  length ubuf = 64%nat ->
  8 * Z.of_nat (length salt) < 2 ^ 64 -> 8 * Z.of_nat (64 + length ikm) < 2 ^ 64 ->
  8 * Z.of_nat (64 + length info + 1) < 2 ^ 64 ->
  chkdf_sha256_l32 ubuf ikm salt info = hkdf_spec sha256_spec 64 32 salt ikm info 32.
Proof. exact chkdf_sha256_l32_eq_spec. Qed.
Print Assumptions C49_hkdf_sha256_l32_is_rfc5869.

Example C49_nonvacuous_sha256 :
  be_value (csha256_stream [[97%N]; []; [98; 99]%N]) = 0xba7816bf8f01cfea414140de5dae2223b00361a396177a9cb410ff61f20015ad.
Proof. vm_compute. reflexivity. Qed.
