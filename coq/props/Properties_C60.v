(* C60  Addresses, subnets and bans are matched exactly.
   "A subnet matches exactly the addresses of its network that share its prefix (or equal it, for single-host and
    non-IP subnets), and IP, Tor, I2P and CJDNS addresses and subnets print as strings that parse back to the same
    value. IPv4 and IPv6 addresses round-trip through both P2P address serializations, and all address types
    round-trip through the version 2 serialization. A banned address or subnet is reported as banned exactly while
    an unexpired ban covering it exists, and a discouraged address is reported as discouraged until discouragement
    is cleared (within the discouragement filter's capacity)."
   Proved here (about model/NetAddr.v and model/BanMan.v): the subnet, serialisation and ban clauses.
   NOT proved (covered only by the differential/round-trip cases of props/C60.py, see LEVEL_NOTE there):
     - the string clause: ToStringAddr / CSubNet::ToString followed by LookupHost / LookupSubNet is the identity
       (RFC 5952 IPv6 text, .onion base32 + SHA3 checksum, .b32.i2p) -- the text formats are not modelled;
     - the discouragement clause (CRollingBloomFilter is probabilistic).
   Only statements here; each is closed by `exact` of a lemma from proofs/NetAddrLemmas.v / BanManLemmas.v. *)
From Coq Require Import List Arith Bool ZArith.
From BV Require Import model.NetAddr model.BanMan model.NetAddrInst proofs.NetAddrLemmas proofs.BanManLemmas.
Import ListNotations.
Local Open Scope Z_scope.

(* ---- subnets ---- *)
(* CSubNet(base, n).Match(a), for every IPv4/IPv6 base, every prefix length in range and every address:
   true exactly when a is valid, of the same network class, and agrees with base on each of the first n bits
   (bit i = bit 7 - i mod 8 of byte i / 8: every byte is compared under its mask, including the last partial one) *)
Theorem C60_subnet_match_iff_prefix :
  forall (base : netaddr) (n : Z) (a : netaddr), addr_wf base = true -> addr_wf a = true -> 0 <= n ->
    ((a_net base = NET_IPV4 /\ n <= 32) \/ (a_net base = NET_IPV6 /\ n <= 128)) ->
    (subnet_match (subnet_cidr base n) a = true <->
     is_valid a = true /\ a_net a = a_net base /\
     forall i, (i < Z.to_nat n)%nat -> addr_bit (a_bytes a) i = addr_bit (a_bytes base) i).
Proof. exact subnet_cidr_match_iff. Qed.
Print Assumptions C60_subnet_match_iff_prefix.

(* a prefix length outside the family's range (or a non-IP base) gives an invalid subnet that matches nothing *)
Theorem C60_subnet_invalid_matches_nothing :
  forall (base : netaddr) (n : Z),
    (a_net base = NET_IPV4 -> 32 < n) -> (a_net base = NET_IPV6 -> 128 < n) ->
    s_valid (subnet_cidr base n) = false /\ forall a, subnet_match (subnet_cidr base n) a = false.
Proof. exact subnet_cidr_invalid. Qed.
Print Assumptions C60_subnet_invalid_matches_nothing.

(* single-host subnets, and subnets of Tor / I2P / CJDNS addresses: exactly the (valid) address itself *)
Theorem C60_single_host_subnet_is_equality :
  forall (s a : netaddr), addr_wf s = true -> addr_wf a = true -> a_net s <> NET_INTERNAL ->
    (subnet_match (subnet_single s) a = true <-> is_valid a = true /\ a = s).
Proof. exact subnet_single_match_iff. Qed.
Print Assumptions C60_single_host_subnet_is_equality.

(* the (address, netmask) constructor accepts exactly the masks that are a run of one bits followed by zero bits:
   whenever it yields a valid subnet, that subnet is the CIDR subnet of some prefix length *)
Theorem C60_netmask_subnets_are_prefix_subnets :
  forall (addr mask : netaddr), addr_wf addr = true -> addr_wf mask = true ->
    s_valid (subnet_of_mask addr mask) = true ->
    exists n, 0 <= n <= 8 * Z.of_nat (addr_size (a_net addr)) /\ subnet_of_mask addr mask = subnet_cidr addr n.
Proof. exact subnet_of_mask_is_cidr. Qed.
Print Assumptions C60_netmask_subnets_are_prefix_subnets.

(* ---- serialisation ---- *)
Theorem C60_addrv1_roundtrip :
  forall (a : netaddr) (rest : list Z), addr_wf a = true ->
    (a_net a = NET_IPV4 \/ a_net a = NET_INTERNAL \/ (a_net a = NET_IPV6 /\ no_special_prefix (a_bytes a))) ->
    unser_v1 (ser_v1 a ++ rest) = UOk a rest.
Proof. exact v1_roundtrip. Qed.
Print Assumptions C60_addrv1_roundtrip.

Theorem C60_addrv1_cannot_carry_privacy_networks :
  forall (a : netaddr) (rest : list Z), (a_net a = NET_ONION \/ a_net a = NET_I2P \/ a_net a = NET_CJDNS) ->
    unser_v1 (ser_v1 a ++ rest) = UOk addr_default rest /\ is_valid addr_default = false.
Proof. exact v1_privacy_nets_become_invalid. Qed.
Print Assumptions C60_addrv1_cannot_carry_privacy_networks.

(* BIP155: every network id with its address length rule *)
Theorem C60_addrv2_roundtrip :
  forall (a : netaddr) (rest : list Z), addr_wf a = true ->
    (a_net a = NET_IPV6 -> no_special_prefix (a_bytes a)) ->
    unser_v2 (ser_v2 a ++ rest) = UOk a rest.
Proof. exact v2_roundtrip. Qed.
Print Assumptions C60_addrv2_roundtrip.

Theorem C60_bip155_length_rule :
  forall (id size : Z) (s : list Z), In id [1; 2; 4; 5; 6] -> 0 <= size < 253 ->
    size <> (if id =? 1 then 4 else if id =? 2 then 16 else if id =? 4 then 32 else if id =? 5 then 32 else 16) ->
    unser_v2 (id :: size :: s) = UFail.
Proof. exact v2_length_rule. Qed.
Print Assumptions C60_bip155_length_rule.

Theorem C60_bip155_unknown_network_skipped :
  forall (id size : Z) (data rest : list Z), ~ In id [1; 2; 4; 5; 6] -> 0 <= size < 253 ->
    Z.of_nat (length data) = size ->
    unser_v2 (id :: size :: data ++ rest) = UOk addr_default rest /\ is_valid addr_default = false.
Proof. exact v2_unknown_id_skipped. Qed.
Print Assumptions C60_bip155_unknown_network_skipped.

Theorem C60_bip155_address_too_long :
  forall (id : Z) (s1 : list Z) (n : Z) (s2 : list Z),
    read_compact_size s1 = Some (n, s2) -> 512 < n -> unser_v2 (id :: s1) = UFail.
Proof. exact v2_too_long. Qed.
Print Assumptions C60_bip155_address_too_long.

Theorem C60_bip155_ipv6_embeddings_rejected :
  forall (bytes rest : list Z), length bytes = 16%nat ->
    has_prefix bytes INTERNAL_IN_IPV6_PREFIX = false ->
    (has_prefix bytes IPV4_IN_IPV6_PREFIX = true \/ has_prefix bytes TORV2_IN_IPV6_PREFIX = true) ->
    unser_v2 (2 :: 16 :: bytes ++ rest) = UOk addr_default rest.
Proof. exact v2_ipv6_embeddings_rejected. Qed.
Print Assumptions C60_bip155_ipv6_embeddings_rejected.

(* ---- bans ---- *)
(* IsBanned(addr): exactly while an entry covering the address has  now < nBanUntil  (strict: at now = nBanUntil
   the ban is over) *)
Theorem C60_banned_iff_unexpired_covering_entry :
  forall (now : Z) (m : banmap) (a : netaddr),
    is_banned_addr now m a = true <->
    exists s e, In (s, e) m /\ now < b_until e /\ subnet_match s a = true.
Proof. exact banned_iff. Qed.
Print Assumptions C60_banned_iff_unexpired_covering_entry.

(* SweepBanned erases exactly the entries with  nBanUntil < now  (and invalid subnets); the comparison is
   `now > nBanUntil`, so an entry with nBanUntil = now stays listed although it bans nobody any more *)
Theorem C60_sweep_removes_exactly_expired :
  forall (now : Z) (m : banmap) (s : subnet) (e : ban_entry),
    In (s, e) (sweep_banned now m) <-> In (s, e) m /\ s_valid s = true /\ now <= b_until e.
Proof. exact sweep_spec. Qed.
Print Assumptions C60_sweep_removes_exactly_expired.

Theorem C60_sweep_never_changes_an_answer :
  forall (now now' : Z) (m : banmap) (a : netaddr), now <= now' ->
    is_banned_addr now' (sweep_banned now m) a = is_banned_addr now' m a.
Proof. exact sweep_keeps_answers. Qed.
Print Assumptions C60_sweep_never_changes_an_answer.

Theorem C60_expiry_boundary :
  forall (s : subnet) (e : ban_entry) (a : netaddr), s_valid s = true ->
    In (s, e) (sweep_banned (b_until e) [(s, e)]) /\ is_banned_addr (b_until e) [(s, e)] a = false /\
    (subnet_match s a = true -> is_banned_addr (b_until e - 1) [(s, e)] a = true) /\
    sweep_banned (b_until e + 1) [(s, e)] = [].
Proof. exact expiry_boundary. Qed.
Print Assumptions C60_expiry_boundary.

Theorem C60_ban_takes_effect_until_expiry :
  forall (now d : Z) (m : banmap) (s : subnet) (offset : Z) (ep : bool) (a : netaddr) (now' : Z),
    ban_find m s = None -> s_valid s = true ->
    0 < ban_until now d offset ep -> now <= now' -> now' < ban_until now d offset ep -> subnet_match s a = true ->
    is_banned_addr now' (ban now d m s offset ep) a = true /\
    is_banned_subnet now' (ban now d m s offset ep) s = true.
Proof. exact ban_effect. Qed.
Print Assumptions C60_ban_takes_effect_until_expiry.

Theorem C60_ban_expiry_time :
  forall (now d offset : Z) (ep : bool),
    ban_until now d offset ep = (if offset <=? 0 then now + d else if ep then offset else now + offset).
Proof. exact ban_until_spec. Qed.
Print Assumptions C60_ban_expiry_time.

Theorem C60_ban_never_shortens :
  forall (now d : Z) (m : banmap) (s : subnet) (offset : Z) (ep : bool) (e : ban_entry),
    ban_find m s = Some e -> ban_until now d offset ep <= b_until e -> ban now d m s offset ep = m.
Proof. exact ban_keeps_longer. Qed.
Print Assumptions C60_ban_never_shortens.

Theorem C60_unban_lifts_the_ban :
  forall (now now' : Z) (m : banmap) (s : subnet), keys_unique m = true ->
    is_banned_subnet now' (snd (unban now m s)) s = false.
Proof. exact unban_effect. Qed.
Print Assumptions C60_unban_lifts_the_ban.

(* ALL scripts of Ban / Unban / ClearBanned / GetBanned with a clock that only moves forward (scripts that ban
   valid subnets and compute positive expiries): after the script -- hence, the statement being for all scripts,
   after every prefix of it -- the BanMan (which sweeps expired entries on every mutation and listing) answers
   IsBanned(address) and IsBanned(subnet) exactly like the reference ban list that never sweeps, i.e. an address is
   banned exactly while an unexpired ban covering it exists *)
Theorem C60_banman_refines_reference_ban_list :
  forall (d t0 : Z) (ops : list bop), script_wf d t0 ops ->
    let M := snd (bm_run d (t0, []) ops) in
    let R := snd (ref_run d (t0, []) ops) in
    let now := fst (bm_run d (t0, []) ops) in
    now = fst (ref_run d (t0, []) ops) /\
    (forall a, is_banned_addr now M a = is_banned_addr now R a) /\
    (forall a, is_banned_addr now R a = true <-> exists s e, In (s, e) R /\ now < b_until e /\ subnet_match s a = true) /\
    (forall s, s_valid s = true -> is_banned_subnet now M s = is_banned_subnet now R s).
Proof.
  intros d t0 ops W. destruct (bm_refines_reference d ops t0 [] [] (coupled_init t0) W) as [C E].
  cbv zeta. split; [exact E|]. split.
  - intros a. exact (proj1 (coupled_same_answers _ _ _ a (subnet_single addr_default) C eq_refl)).
  - split.
    + intros a. apply banned_iff.
    + intros s Hs. exact (proj2 (coupled_same_answers _ _ _ addr_default s C Hs)).
Qed.
Print Assumptions C60_banman_refines_reference_ban_list.

(* ---- non-vacuity ---- *)
Example C60_nonvacuous :
  let base := mkaddr NET_IPV4 [192; 168; 129; 7] in
  let inside := mkaddr NET_IPV4 [192; 168; 255; 1] in      (* agrees on the first 17 bits *)
  let outside := mkaddr NET_IPV4 [192; 168; 127; 1] in     (* differs at bit 16 (the last bit of the prefix) *)
  addr_wf base = true /\ subnet_match (subnet_cidr base 17) inside = true /\ subnet_match (subnet_cidr base 17) outside = false /\
  s_mask (subnet_cidr base 17) = [255; 255; 128; 0; 0; 0; 0; 0; 0; 0; 0; 0; 0; 0; 0; 0] /\
  unser_v2 (ser_v2 (mkaddr NET_CJDNS (252 :: repeat 7 15)) ++ [9]) = UOk (mkaddr NET_CJDNS (252 :: repeat 7 15)) [9] /\
  script_wf 86400 1000 [BBan (subnet_cidr base 17) 50 false; BTime 1049; BList; BTime 1051; BUnban (subnet_cidr base 17)] /\
  (let m := ban 1000 86400 [] (subnet_cidr base 17) 50 false in
   is_banned_addr 1049 m inside = true /\ is_banned_addr 1050 m inside = false /\ is_banned_addr 1049 m outside = false /\
   length (get_banned 1050 m) = 1%nat /\ get_banned 1051 m = []).
Proof. vm_compute. repeat split; reflexivity. Qed.
