(* C33  Headers from an unproven peer are stored only after their work is proven.
   Only statements here; each is closed by lemmas from proofs/HeadersSync*.v.

   [process_next_headers permitted proof_of p s hs full] is HeadersSyncState::ProcessNextHeaders
   (model/HeadersSync.v); [p] holds the parameters fixed at construction (commitment period and
   offset, redownload buffer size, max commitments, minimum work, sync start); a peer history is a
   list of headers messages [calls]; [trace] pairs every call's result with the state it started
   from, [run] lists the results.  PermittedDifficultyTransition and GetBlockProof are arbitrary
   functions: the theorems do not depend on them.  The commitment bit of a header is a field of the
   header (any bits: the adversary model). *)
From BV Require Import lib.Ints lib.ChainParams gen.Params_gen model.Pow model.HeadersSync
  proofs.HeadersSyncLemmas proofs.HeadersSyncMain proofs.HeadersSyncCommit.
Local Open Scope Z_scope.

(* the invariant of the states between calls holds initially and is preserved by every call *)
Theorem C33_invariant : forall permitted proof_of p, 0 <= p_max_commitments p -> 0 <= p_buffer p ->
  inv2 p (hs_init p) /\
  forall s hs full, inv2 p s -> inv2 p (fst (process_next_headers permitted proof_of p s hs full)).
Proof. exact hs_invariant. Qed.
Print Assumptions C33_invariant.

(* No header is handed out for storage unless the call started in REDOWNLOAD, and that state is
   only entered when the work of the chain served in the first pass reached the minimum. *)
Theorem C33_nothing_stored_before_work_proven : forall permitted proof_of p, 0 <= p_max_commitments p -> 0 <= p_buffer p ->
  forall calls,
    Forall (fun sr => r_headers (snd sr) <> [] -> s_state (fst sr) = REDOWNLOAD /\ p_min_work p <= s_work (fst sr))
           (trace permitted proof_of p (hs_init p) calls).
Proof. exact hs_nothing_before_work. Qed.
Print Assumptions C33_nothing_stored_before_work_proven.

(* Per-peer memory between calls: at most max_commitments commitment bits and at most
   redownload_buffer_size buffered headers (so during a call at most that plus the received batch). *)
Theorem C33_memory_bounded : forall permitted proof_of p, 0 <= p_max_commitments p -> 0 <= p_buffer p ->
  forall calls,
    Forall (fun sr => Z.of_nat (length (s_commitments (fst sr))) <= p_max_commitments p /\
                      Z.of_nat (length (s_buf (fst sr))) <= p_buffer p)
           (trace permitted proof_of p (hs_init p) calls) /\
    (let s' := run_state permitted proof_of p (hs_init p) calls in
     Z.of_nat (length (s_commitments s')) <= p_max_commitments p /\ Z.of_nat (length (s_buf s')) <= p_buffer p).
Proof. exact hs_memory. Qed.
Print Assumptions C33_memory_bounded.

(* Everything handed out over the whole history is one continuous chain from the sync start:
   each header's prevhash is the hash of the header released before it. *)
Theorem C33_released_form_one_chain_from_start : forall permitted proof_of p, 0 <= p_max_commitments p -> 0 <= p_buffer p ->
  forall calls, chain_from (p_start_hash p) (concat (map r_headers (run permitted proof_of p (hs_init p) calls))).
Proof. exact hs_one_chain. Qed.
Print Assumptions C33_released_form_one_chain_from_start.

(* One second-pass call from a reachable state: what is released is, unchanged, a prefix of the
   (buffered ++ received) headers; and unless the re-downloaded chain itself has reached the minimum
   work (m_process_all_remaining_headers), releasing leaves exactly redownload_buffer_size accepted
   headers behind the last released one. *)
Theorem C33_released_are_received_and_buried : forall permitted proof_of p, 0 <= p_max_commitments p -> 0 <= p_buffer p ->
  forall s hs full s' r,
    inv2 p s -> s_state s = REDOWNLOAD -> process_next_headers permitted proof_of p s hs full = (s', r) ->
    (exists k, r_headers r = firstn k (s_buf s ++ hs)) /\
    (r_headers r <> [] -> forall s1, store_all_redownloaded permitted proof_of p s hs = (true, s1) ->
       s_all s1 = true \/
       Z.of_nat (length (s_buf s)) + Z.of_nat (length hs) - Z.of_nat (length (r_headers r)) = p_buffer p).
Proof. exact hs_released_buried. Qed.
Print Assumptions C33_released_are_received_and_buried.

(* Every header accepted into the buffer in the second pass connects to the previous one, has a
   permitted difficulty transition from the previous buffered header (from the sync start when the
   buffer is empty), and at a commitment height (while not yet releasing everything) carries the
   bit stored next in the commitment queue, which is consumed.
   NOT PROVED (hence _partial): "is checked for proof of work before it is stored": CheckHeadersPoW
   is called by net_processing on every received batch, outside this model. *)
Theorem C33_second_pass_checks_partial : forall permitted proof_of p s h s',
  store_redownloaded permitted proof_of p s h = (true, s') -> s_state s = REDOWNLOAD ->
  h_prev h = s_rlast_hash s /\
  permitted (wrap64 (s_rlast_height s + 1)) (previous_bits p s) (h_bits h) = true /\
  (s_all s' = false -> is_commitment_height p (wrap64 (s_rlast_height s + 1)) = true ->
     s_commitments s = h_cbit h :: s_commitments s').
Proof. exact hs_second_pass_checks. Qed.
Print Assumptions C33_second_pass_checks_partial.

(* The whole second pass against the whole first pass.  [accepted PRESYNC / REDOWNLOAD] are the
   headers of the successful calls of each pass, [cv p h l] the commitment bits of a run of headers
   [l] following height [h] (the bits at the heights with height % period = offset).  While the sync
   is in REDOWNLOAD: the bits of ALL re-downloaded headers accepted so far (released or still
   buffered) are, height by height, the bits committed in the first pass, and the queue holds exactly
   the first-pass bits not yet matched.  (Heights are assumed to stay below INT32_MAX.) *)
Theorem C33_second_pass_matches_first_pass_commitments : forall permitted proof_of p,
  0 <= p_max_commitments p -> 0 <= p_buffer p ->
  forall calls, 0 <= p_start_height p -> p_start_height p + total calls <= INT32_MAX ->
  let s := run_state permitted proof_of p (hs_init p) calls in
  s_state s = REDOWNLOAD ->
  cv p (p_start_height p) (accepted permitted proof_of p PRESYNC (hs_init p) calls) =
  cv p (p_start_height p) (accepted permitted proof_of p REDOWNLOAD (hs_init p) calls) ++ s_commitments s.
Proof. exact hs_commitments_match. Qed.
Print Assumptions C33_second_pass_matches_first_pass_commitments.

(* Soundness of the executable commitment predicate evaluated on the implementation's answers by
   the violation search ([holds_commitments], model/HeadersSync.v: whenever the sync is reported to go
   on in REDOWNLOAD, the commitment bits of all re-downloaded headers accepted so far are a prefix
   of the bits committed in the first pass: same bit at each commitment height, and no
   re-downloaded commitment height without a first-pass commitment): it holds on what the model
   itself reports (success, state after the call) for every history, so a failing predicate is a
   violation of the previous theorem. *)
Theorem C33_holds_commitments_sound : forall permitted proof_of p,
  0 <= p_max_commitments p -> 0 <= p_buffer p ->
  forall calls, holds_commitments p calls (model_outs permitted proof_of p (hs_init p) calls) = true.
Proof. exact hs_holds_commitments_sound. Qed.
Print Assumptions C33_holds_commitments_sound.

(* non-vacuity: period 1, buffer 2, minimum work = 5 headers at the pow limit; an honest peer
   serves 6 headers twice: nothing in the first pass, then headers 1,2 and finally 3..6 *)
Definition nv_B : Z := 0x1d00ffff.
Definition nv_p : hs_params := mkHsParams 1 0 2 100 (5 * 4295032833) 0 nv_B 10 0.
Definition nv_h (i : Z) : hdr := mkHdr i (i - 1) nv_B (Z.odd i).
Definition nv_calls : list (list hdr * bool) :=
  [ ([nv_h 1; nv_h 2; nv_h 3], true); ([nv_h 4; nv_h 5; nv_h 6], true);
    ([nv_h 1; nv_h 2; nv_h 3; nv_h 4], true); ([nv_h 5; nv_h 6], true) ].
Example C33_nonvacuous :
  map (fun r => map h_id (r_headers r)) (hs_run_main nv_p nv_calls) = [[]; []; [1; 2]; [3; 4; 5; 6]] /\
  map r_success (hs_run_main nv_p nv_calls) = [true; true; true; true] /\
  0 <= p_max_commitments nv_p /\ 0 <= p_buffer nv_p.
Proof. vm_compute. repeat split; try reflexivity; discriminate. Qed.
