(* C65  Waiting for a new block template returns only what it promises.

   Full statement (properties.jsonl): "Waiting for the next block template returns a fresh template on the current tip
   once the tip differs from the previous template's parent, returns a same-tip template only if its total fees are at
   least the previous template's fees plus the requested threshold (or, on test networks, when the tip is over 20
   minutes old), and otherwise returns nothing when the timeout passes or the wait is interrupted. A returned template
   is never built on a tip older than the one that triggered it."

   model/WaitNext.v: the waiting thread of node::WaitAndCreateNewBlock as a small-step machine against an environment
   that between any two of its steps may activate new tips, deliver the pending blockTip notifications in order, change
   the fees a new template would collect, advance the clock, and raise either interrupt.  `run` executes ANY list of
   such actions (a disabled action makes it None); the theorems hold for every such list. *)
From BV Require Import lib.Ints gen.Params_gen model.WaitNext proofs.WaitNextLemmas.
Local Open Scope Z_scope.

(* A returned template was built on the tip that was active when it was built (w_build), which is not older than the
   notified tip that triggered the return, and is justified by exactly one of: a notified tip whose hash differs from
   the old template's parent; the 20-minute rule of minimum-difficulty chains; fees >= old fees + threshold. *)
Theorem C65_returned_template_is_fresh_and_justified : forall P clock active pending notified fees iw inode l s t,
  ordered notified pending -> last_of notified pending = active ->
  run P (start P clock active pending notified fees iw inode) l = Some s ->
  w_phase s = PhDone (Some t) ->
  justified P s t /\ tm_seq t <= tp_seq (e_active s).
Proof. exact returned_template_is_justified. Qed.
Print Assumptions C65_returned_template_is_fresh_and_justified.

(* Same tip, no observed tip change, no minimum-difficulty rule: the fees rose by at least the threshold (the int64
   addition of the C++ cannot overflow for a money-range old fee). *)
Theorem C65_same_tip_template_needs_the_fee_increase : forall P clock active pending notified fees iw inode l s t,
  ordered notified pending -> last_of notified pending = active ->
  run P (start P clock active pending notified fees iw inode) l = Some s ->
  w_phase s = PhDone (Some t) -> w_trigger s = None -> p_allow_min_difficulty P = false ->
  0 <= tm_fees (p_old P) <= MAX_MONEY -> INT64_MIN <= p_threshold P ->
  p_threshold P < MAX_MONEY /\ tm_fees (p_old P) + p_threshold P <= tm_fees t.
Proof. exact same_tip_needs_fees. Qed.
Print Assumptions C65_same_tip_template_needs_the_fee_increase.

(* ... but the clause "a same-tip template only with the fee increase" is FALSE of the code in a race: the notified tip
   differs (a block was connected), the waiter wakes up, the block is disconnected again before the waiter gets cs_main,
   and the template built on the old tip is returned "regardless of its fees".  Replayed on the node by the
   `notifyrace` cases of props/C65.py. *)
Theorem C65_same_tip_without_fee_increase_refuted :
  exists P clock active pending notified fees l s t,
    ordered notified pending /\ last_of notified pending = active /\
    run P (start P clock active pending notified fees false false) l = Some s /\
    w_phase s = PhDone (Some t) /\ tm_prev t = tm_prev (p_old P) /\ tm_fees t < tm_fees (p_old P) + p_threshold P /\
    p_allow_min_difficulty P = false.
Proof. exact same_tip_without_fees_refuted. Qed.
Print Assumptions C65_same_tip_without_fee_increase_refuted.

(* Nothing is returned only because of an interrupt (either kind) or with the clock at/after the deadline. *)
Theorem C65_nothing_only_after_interrupt_or_deadline : forall P clock active pending notified fees iw inode l s,
  ordered notified pending -> last_of notified pending = active ->
  run P (start P clock active pending notified fees iw inode) l = Some s ->
  w_phase s = PhDone None ->
  (w_cause s = 1 \/ w_cause s = 2 \/ w_cause s = 3) /\ (w_cause s = 3 -> exists d, p_deadline P = Some d /\ d <= w_now s).
Proof. exact nothing_only_after_interrupt_or_deadline. Qed.
Print Assumptions C65_nothing_only_after_interrupt_or_deadline.

(* What the three causes are, at the step that returns nothing; the interrupt flag is consumed. *)
Theorem C65_causes_of_returning_nothing : forall P s s',
  step P s WStep = Some s' -> w_phase s' = PhDone None ->
  (w_phase s = PhWait /\ e_int_wait s = true /\ e_int_wait s' = false /\ w_cause s' = 1) \/
  (exists tc, w_phase s = PhAfterWait tc /\ e_int_node s = true /\ w_cause s' = 2) \/
  (exists tc d, w_phase s = PhLocked tc /\ p_deadline P = Some d /\ d <= e_clock s /\ w_cause s' = 3).
Proof. exact return_step_causes. Qed.
Print Assumptions C65_causes_of_returning_nothing.

(* Once a differing tip has been observed the next pass returns a fresh template on the active tip, whatever its fees. *)
Theorem C65_tip_change_returns_a_fresh_template : forall P s,
  w_phase s = PhLocked true ->
  exists s', step P s WStep = Some s' /\
             w_phase s' = PhDone (Some {| tm_prev := tp_hash (e_active s); tm_seq := tp_seq (e_active s); tm_fees := e_fees s |}).
Proof. exact tip_change_returns_fresh_template. Qed.
Print Assumptions C65_tip_change_returns_a_fresh_template.

(* The waiting thread is blocked only inside wait_until, and only while its predicate is false and neither the tick nor
   the deadline has been reached. *)
Theorem C65_waiter_blocks_only_in_wait_until : forall P s,
  step P s WStep = None ->
  (exists r, w_phase s = PhDone r) \/ (w_phase s = PhWait /\ wait_pred P s = false /\ e_clock s < wait_limit P (w_now s)).
Proof. exact waiter_blocked_only_in_wait. Qed.
Print Assumptions C65_waiter_blocks_only_in_wait_until.

Theorem C65_fee_comparison_cannot_overflow : forall old_fees threshold,
  0 <= old_fees <= MAX_MONEY -> INT64_MIN <= threshold < MAX_MONEY -> wrap64 (old_fees + threshold) = old_fees + threshold.
Proof. exact fee_sum_no_overflow. Qed.
Print Assumptions C65_fee_comparison_cannot_overflow.

(* Non-vacuity: a run in which fees rise by exactly the threshold, a tick passes and the template is returned. *)
Definition exP : params := {| p_old := {| tm_prev := 10; tm_seq := 0; tm_fees := 0 |}; p_deadline := Some 5000; p_threshold := 1000; p_allow_min_difficulty := false |}.
Definition exT : tip := {| tp_seq := 0; tp_hash := 10; tp_time := 0 |}.
Example C65_nonvacuous :
  exists s t, run exP (start exP 0 exT [] exT 0 false false) [EFees 1000; ETime 1000; WStep; WStep; WStep] = Some s /\
              w_phase s = PhDone (Some t) /\ tm_fees t = 1000 /\ w_trigger s = None.
Proof. eexists. eexists. split; [vm_compute; reflexivity|]. repeat split; reflexivity. Qed.
