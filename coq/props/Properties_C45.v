(* C45  Descriptors, addresses and key derivation round-trip and match the standards
   (clauses: bech32/bech32m, base58check, addresses per network, BIP32 derivation and the 74-byte
   extended-key serialisation; the descriptor language itself is not modelled here).
   Only statements; each is closed by `exact` of a lemma from proofs/. *)
From Coq Require Import NArith ZArith.
From BV Require Import lib.Ints gen.Params_gen model.Bech32 model.Base58 model.KeyIo model.KeyIoInst model.EC model.Bip32 model.Bip32Inst
  proofs.Bech32Lemmas proofs.Bech32Detect proofs.Bech32Convert proofs.Base58Lemmas proofs.KeyIoLemmas proofs.KeyIoChains
  proofs.ECGroup proofs.Bip32Lemmas.
Local Open Scope N_scope.

(* ---- bech32 / bech32m ---- *)
(* the uint32_t state of PolyMod never needs more than 30 bits: nothing wraps *)
Theorem C45_polymod_state_fits_30_bits : forall l c, c < 2 ^ 30 -> Forall (fun v => v < 2 ^ 30) l -> polymod_from c l < 2 ^ 30.
Proof. exact polymod_from_lt. Qed.
Print Assumptions C45_polymod_state_fits_30_bits.

(* VerifyChecksum(hrp, data ++ CreateChecksum(enc, hrp, data)) = enc, for both constants, all inputs *)
Theorem C45_bech32_verify_accepts_created_checksum_as_its_own_variant : forall e hrp values,
  chars_ok hrp -> syms_ok values -> verify_checksum hrp (values ++ create_checksum e hrp values) = VEnc e.
Proof. exact verify_create_checksum. Qed.
Print Assumptions C45_bech32_verify_accepts_created_checksum_as_its_own_variant.

(* ... never as the other variant, and the six checksum symbols are unique *)
Theorem C45_bech32_checksum_is_unique : forall e hrp values six, syms_ok six -> length six = 6%nat ->
  verify_checksum hrp (values ++ six) = VEnc e -> six = create_checksum e hrp values.
Proof. exact verify_checksum_unique. Qed.
Print Assumptions C45_bech32_checksum_is_unique.

(* Decode (Encode (enc, hrp, data)) = (enc, hrp, data): every HRP of printable non-upper-case characters,
   every 5-bit data string, total length within the limit *)
Theorem C45_bech32_decode_encode : forall limit e hrp data s, hrp_ok hrp -> syms_ok data ->
  (length hrp + 1 + length data + 6 <= limit)%nat ->
  encode e hrp data = EncOk s -> decode limit s = DecOk e hrp data.
Proof. exact decode_encode. Qed.
Print Assumptions C45_bech32_decode_encode.

Theorem C45_bech32_encode_defined_on_valid_domain : forall e hrp data, Forall fine hrp -> syms_ok data ->
  encode e hrp data = EncOk (hrp ++ SEPARATOR :: map char_of (data ++ create_checksum e hrp data)).
Proof. exact encode_ok. Qed.
Print Assumptions C45_bech32_encode_defined_on_valid_domain.

(* Decode accepts only canonical strings: within the limit, not mixed-case, non-empty HRP, and whatever it
   returns re-encodes to the lower-cased input (so two different strings never decode alike, up to case) *)
Theorem C45_bech32_decode_only_accepts_canonical_encodings : forall limit s e hrp data,
  decode limit s = DecOk e hrp data ->
  (length s <= limit)%nat /\ check_characters s = true /\ hrp <> [] /\ syms_ok data /\
  encode e hrp data = EncOk (map lower_case s).
Proof. exact decode_sound. Qed.
Print Assumptions C45_bech32_decode_only_accepts_canonical_encodings.

Theorem C45_bech32_decode_never_indexes_out_of_table : forall limit s, decode limit s <> DecRevOOB.
Proof. exact decode_never_oob. Qed.
Print Assumptions C45_bech32_decode_never_indexes_out_of_table.

(* 1 to 4 substituted symbols among at most 89 data+checksum symbols never pass the checksum the string was
   encoded with (bech32 and bech32m) *)
Theorem C45_bech32_detects_up_to_4_substitutions : forall e hrp w w', length w' = length w -> (length w <= 89)%nat ->
  syms_ok w -> syms_ok w' -> (1 <= hamming w w' <= 4)%nat ->
  verify_checksum hrp w = VEnc e -> verify_checksum hrp w' <> VEnc e.
Proof. exact bech32_detects_4. Qed.
Print Assumptions C45_bech32_detects_up_to_4_substitutions.

(* ... but only symbols: changing the case of the only letter of a string is a 1-character substitution that still
   decodes ("219460f373" / "219460F373", replayed on the real bech32::Decode) *)
Theorem C45_bech32_case_only_substitution_refuted :
  exists (s s' : list N) e hrp data, length s = length s' /\
    length (filter (fun p => negb (N.eqb (fst p) (snd p))) (combine s s')) = 1%nat /\
    decode 90 s = DecOk e hrp data /\ decode 90 s' = DecOk e hrp data.
Proof. exact bech32_case_substitution_refuted. Qed.
Print Assumptions C45_bech32_case_only_substitution_refuted.

(* ---- ConvertBits ---- *)
(* ConvertBits<8,5,true> never fails and yields ceil(8n/5) five-bit symbols *)
Theorem C45_convertbits_8_to_5_total : forall l, Bech32Convert.bytes_ok l ->
  exists o, convert_bits 8 5 true l = Some o /\ syms5_ok o /\ length o = ((8 * length l + 4) / 5)%nat.
Proof. exact convert_8_5_total. Qed.
Print Assumptions C45_convertbits_8_to_5_total.

(* 8 -> 5 (padded) -> 8 (unpadded) is the identity on every byte string *)
Theorem C45_convertbits_roundtrip : forall l o, Bech32Convert.bytes_ok l ->
  convert_bits 8 5 true l = Some o -> convert_bits 5 8 false o = Some l.
Proof. exact convert_5_8_of_8_5. Qed.
Print Assumptions C45_convertbits_roundtrip.

(* 5 -> 8 accepts only canonical padding (fewer than 5 spare bits, all zero): what it accepts re-encodes to itself *)
Theorem C45_convertbits_5_to_8_canonical : forall v b, syms5_ok v -> convert_bits 5 8 false v = Some b ->
  Bech32Convert.bytes_ok b /\ N.of_nat (length b) = 5 * N.of_nat (length v) / 8 /\ convert_bits 8 5 true b = Some v.
Proof. exact convert_5_8_canonical. Qed.
Print Assumptions C45_convertbits_5_to_8_canonical.

(* ---- base58 / base58check ---- *)
(* the b58 / b256 work buffers (len*138/100+1, len*733/1000+1) always suffice: assert(carry == 0) never fires *)
Theorem C45_base58_encode_never_asserts : forall input, Base58Lemmas.bytes_ok input -> exists s, encode_base58 input = B58Str s.
Proof. exact encode_base58_never_asserts. Qed.
Print Assumptions C45_base58_encode_never_asserts.

(* DecodeBase58 (EncodeBase58 x) = x for every byte string (leading zero bytes <-> leading '1's) whenever the
   length limit allows x *)
Theorem C45_base58_decode_encode : forall input mx s, Base58Lemmas.bytes_ok input -> N.of_nat (length input) <= mx ->
  encode_base58 input = B58Str s -> decode_base58 s mx = B58Bytes input.
Proof. exact decode_encode_base58. Qed.
Print Assumptions C45_base58_decode_encode.

(* base58check with the 4-byte checksum of any 32-byte hash function *)
Theorem C45_base58check_decode_encode : forall (hash256 : list N -> list N),
  (forall x, length (hash256 x) = 32%nat) -> (forall x, Base58Lemmas.bytes_ok (hash256 x)) ->
  forall payload mx s, Base58Lemmas.bytes_ok payload -> N.of_nat (length payload) <= mx -> mx <= 2147483643 ->
  encode_base58check hash256 payload = B58Str s -> decode_base58check hash256 s mx = B58Bytes payload.
Proof. exact decode_encode_base58check. Qed.
Print Assumptions C45_base58check_decode_encode.

(* ---- addresses ---- *)
(* segwit: the string built for (variant, version, program) decodes to the classification of (version, program) iff
   the variant matches the version: version 0 <=> bech32, version 1+ <=> bech32m, in both directions *)
Theorem C45_segwit_decode_encode_and_variant_rule : forall (hash256 : list N -> list N) limit kp, hrp_ok (kp_hrp kp) ->
  forall enc ver prog s, Bech32Convert.bytes_ok prog -> ver < 32 ->
  (length (kp_hrp kp) + 1 + (1 + (8 * length prog + 4) / 5) + 6 <= limit)%nat ->
  segwit_encode kp enc ver prog = AddrStr s ->
  decode_destination hash256 limit kp s =
    if (ver =? 0) && negb (encoding_eqb enc BECH32) then (DNone, E_v0_needs_bech32)
    else if negb (ver =? 0) && negb (encoding_eqb enc BECH32M) then (DNone, E_v1_needs_bech32m)
    else classify_witness ver prog.
Proof. exact segwit_decode_encode. Qed.
Print Assumptions C45_segwit_decode_encode_and_variant_rule.

(* every destination type on every chain of the compiled tree: DecodeDestination (EncodeDestination d) = d *)
Theorem C45_address_roundtrip_every_chain : forall (hash256 : list N -> list N),
  (forall x, length (hash256 x) = 32%nat) -> (forall x, Base58Lemmas.bytes_ok (hash256 x)) ->
  forall kp d s, In kp keyio_chains -> dest_wf d = true ->
  encode_destination hash256 kp d = AddrStr s -> decode_destination hash256 bech32_limit kp s = (d, E_ok).
Proof. exact address_roundtrip_all_chains. Qed.
Print Assumptions C45_address_roundtrip_every_chain.

(* never decoded for another network (witness addresses): on a chain whose HRP differs, the string of a witness
   destination is never decoded as a witness destination (it is rejected with the HRP error, or taken for base58) *)
Theorem C45_segwit_address_not_decoded_under_another_hrp : forall (hash256 : list N -> list N) limit kpA kpB enc ver prog s,
  hrp_ok (kp_hrp kpA) -> Bech32Convert.bytes_ok prog -> ver < 32 ->
  (length (kp_hrp kpA) + 1 + (1 + (8 * length prog + 4) / 5) + 6 <= limit)%nat ->
  segwit_encode kpA enc ver prog = AddrStr s -> kp_hrp kpB <> kp_hrp kpA ->
  is_witness_dest (fst (decode_destination hash256 limit kpB s)) = false.
Proof. exact segwit_foreign_hrp_rejected. Qed.
Print Assumptions C45_segwit_address_not_decoded_under_another_hrp.

(* the letter of "addresses round-trip" is false for destinations only direct construction can produce:
   WitnessUnknown(1, 4e73) decodes as PayToAnchor (and WitnessUnknown(1, 32 bytes) as WitnessV1Taproot) *)
Theorem C45_address_roundtrip_noncanonical_refuted :
  exists kp d s, In kp keyio_chains /\ addr_encode kp d = AddrStr s /\ fst (addr_decode kp s) <> d /\ snd (addr_decode kp s) = E_ok.
Proof. exact address_roundtrip_noncanonical_refuted. Qed.
Print Assumptions C45_address_roundtrip_noncanonical_refuted.

(* ---- BIP32 ---- *)
Local Open Scope Z_scope.
Section Bip32.
  Variable pt : Type.
  Variable add : pt -> pt -> pt.
  Variable zero : pt.
  Variable neg : pt -> pt.
  Variable G : pt.
  Variable n : Z.
  Variable is_inf : pt -> bool.
  Variable ser33 : pt -> list N.
  Variable hmac512 : list N -> list N -> list N.
  Variable hash160 : list N -> list N.
  Let mulG k := zmul pt add zero neg k G.
  (* premise: the points form a commutative group in which G has order exactly n *)
  Definition bip32_group_premises : Prop :=
    (forall a b c, add a (add b c) = add (add a b) c) /\ (forall a b, add a b = add b a) /\
    (forall a, add zero a = a) /\ (forall a, add a (neg a) = zero) /\
    1 < n /\ zmul pt add zero neg n G = zero /\ (forall k, 0 < k < n -> zmul pt add zero neg k G <> zero) /\
    (forall P, is_inf P = true <-> P = zero).

  (* public derivation = public key of private derivation, for every non-hardened index *)
  Theorem C45_bip32_public_derivation_eq_public_of_private : bip32_group_premises ->
    forall k cc i, 0 < k < n -> i < HARDENED ->
    cpubkey_derive pt add is_inf mulG n ser33 hmac512 (mulG k) cc i =
    option_map (fun kc => (mulG (fst kc), snd kc)) (ckey_derive pt mulG n ser33 hmac512 k cc i).
  Proof.
    intros (H1 & H2 & H3 & H4 & H5 & H6 & H7 & H8).
    intros k cc i Hk Hi. eapply bip32_public_eq_private; eauto.
  Qed.

  Theorem C45_bip32_neuter_commutes_with_derive : bip32_group_premises ->
    forall x i, 0 < x_key x < n -> i < HARDENED ->
    extpub_derive pt add is_inf mulG n ser33 hmac512 hash160 (neuter pt mulG x) i =
    option_map (neuter pt mulG) (extkey_derive pt mulG n ser33 hmac512 hash160 x i).
  Proof.
    intros (H1 & H2 & H3 & H4 & H5 & H6 & H7 & H8).
    intros x i Hk Hi. eapply bip32_neuter_commutes; eauto.
  Qed.

End Bip32.
Print Assumptions C45_bip32_public_derivation_eq_public_of_private.
Print Assumptions C45_bip32_neuter_commutes_with_derive.

(* hardened children (index >= 2^31) hash 0x00 || ser256(k) || ser32(i), non-hardened ones serP(k*G) || ser32(i);
   ser32 is injective (next theorem), so the hardened bit is always part of the MAC input *)
Theorem C45_bip32_hardened_derivation_input : forall (pt : Type) (mulG : Z -> pt) n ser33 hmac512 k cc i, HARDENED <= i ->
  ckey_derive pt mulG n ser33 hmac512 k cc i =
  let out := hmac512 cc (0%N :: be_bytes_z 32 k ++ be_bytes_z 4 i) in
  match priv_tweak_add n k (be_val (firstn 32 out)) with Some k' => Some (k', skipn 32 out) | None => None end.
Proof. exact ckey_derive_hardened_input. Qed.
Print Assumptions C45_bip32_hardened_derivation_input.

Theorem C45_bip32_normal_derivation_input : forall (pt : Type) (mulG : Z -> pt) n ser33 hmac512 k cc i h x, i < HARDENED ->
  ser33 (mulG k) = h :: x ->
  ckey_derive pt mulG n ser33 hmac512 k cc i =
  let out := hmac512 cc (h :: x ++ be_bytes_z 4 i) in
  match priv_tweak_add n k (be_val (firstn 32 out)) with Some k' => Some (k', skipn 32 out) | None => None end.
Proof. exact ckey_derive_normal_input. Qed.
Print Assumptions C45_bip32_normal_derivation_input.

Theorem C45_bip32_child_number_encoding_injective : forall i j, 0 <= i < 2 ^ 32 -> 0 <= j < 2 ^ 32 ->
  be_bytes_z 4 i = be_bytes_z 4 j -> i = j.
Proof. exact child_index_injective. Qed.
Print Assumptions C45_bip32_child_number_encoding_injective.

(* the 74-byte CExtKey / CExtPubKey serialisation round-trips, including depth, fingerprint and the
   big-endian child number *)
Theorem C45_extkey_decode_encode : forall n (x : ext Z), ext_wf x -> 0 < x_key x < n -> n <= 2 ^ 256 ->
  extkey_decode n (extkey_encode x) = Some x.
Proof. exact extkey_decode_encode. Qed.
Print Assumptions C45_extkey_decode_encode.

Theorem C45_extpubkey_decode_encode : forall (pt : Type) (ser33 : pt -> list N) (parse33 : list N -> option pt) (x : ext pt),
  ext_wf x -> length (ser33 (x_key x)) = 33%nat -> parse33 (ser33 (x_key x)) = Some (x_key x) ->
  extpub_decode pt parse33 (extpub_encode pt ser33 x) = Some x.
Proof. exact extpub_decode_encode. Qed.
Print Assumptions C45_extpubkey_decode_encode.

Theorem C45_extkey_decode_validity_rules : forall n code x, extkey_decode n code = Some x ->
  length code = 74%nat /\ 0 < x_key x < n /\ nth_error code 41 = Some 0%N /\
  (x_depth x = 0 -> x_child x = 0 /\ fpr_nonzero (x_fpr x) = false).
Proof. exact extkey_decode_sound. Qed.
Print Assumptions C45_extkey_decode_validity_rules.

(* non-vacuity: a concrete address-like string round-trips in the model; the group premises of the BIP32
   theorems are satisfiable (Z/2 with generator 1) *)
Example C45_nonvacuous :
  (exists s, encode BECH32 [98; 99]%N [0; 14; 20; 15]%N = EncOk s /\ decode 90 s = DecOk BECH32 [98; 99]%N [0; 14; 20; 15]%N) /\
  bip32_group_premises bool xorb false (fun b => b) true 2 negb.
Proof.
  split.
  - eexists. split; vm_compute; reflexivity.
  - unfold bip32_group_premises. repeat split; try (intros; try destruct a; try destruct b; try destruct c; reflexivity); try lia.
    + intros k Hk. assert (k = 1) by lia. subst k. discriminate.
    + intros H. destruct P; [discriminate|reflexivity].
    + intros ->. reflexivity.
Qed.
