(* C56  Fee bumping replaces the original safely.
   Translation validation: the theorems are about the executable checker `valid_bump` (model/FeeBump.v, built on C41's
   valid_funding) that the correspondence runs on every replacement the real feebumper::CreateRateBumpTransaction
   produces, and about Gallina transcriptions of PreconditionChecks, the recipient/change split and CheckFeeRate.
   Only statements here; each is closed by `exact` of a lemma from proofs/FeeBumpLemmas.v. *)
From BV Require Import lib.Ints model.WalletSpend model.FeeBump proofs.WalletSpendLemmas proofs.FeeBumpLemmas.
From Coq Require Import NArith.
Local Open Scope Z_scope.

(* Whatever the checker accepts: the original was bumpable (no descendants in wallet or mempool, unconfirmed, not already
   bumped, all inputs the wallet's when required, its inputs unspent, options consistent); every input of the original is
   an input of the replacement; the reported old fee is the original's and the replacement pays at least old fee +
   incremental relay fee x its own size; and for the recipients / change destination the code derives from the outputs
   the replacement satisfies C41's statement (created_tx_statement: recipients paid exactly and in order, change to the
   original change script, added inputs spendable with >= 1 confirmation, fee >= new feerate x size, <= max fee, ...). *)
Theorem C56_bump_valid_sound : forall w e incr o b f n,
  valid_bump w e incr o b f n = true ->
  option_error o b = None /\ f_inputs_unspent f = true /\
  (f_wallet_spend f = false /\ f_mempool_desc f = false /\ f_depth f = 0 /\ f_replaced f = false /\
   (b_require_mine b = true -> f_all_mine f = true)) /\
  (forall i, In i (o_ins o) -> exists j, In j (n_ins n) /\ ti_id j = ti_id i /\ ti_value j = ti_value i) /\
  n_old_fee n = o_fee o /\ o_fee o + get_fee incr (n_vsize n) <= n_fee n /\
  exists dest rcps cp,
    bump_split o b = Some (dest, rcps) /\
    let rq := bump_request o (new_rate e incr o b dest rcps) dest rcps in
    created_tx_statement w e rq (as_result n cp).
Proof. exact bump_valid_sound. Qed.
Print Assumptions C56_bump_valid_sound.

(* the replacement pays at least the feerate that was requested (or estimated) on its final size *)
Theorem C56_pays_new_feerate : forall w e incr o b f n,
  valid_bump w e incr o b f n = true ->
  exists dest rcps, bump_split o b = Some (dest, rcps) /\
    (0 <= new_rate e incr o b dest rcps -> get_fee (new_rate e incr o b dest rcps) (n_vsize n) <= n_fee n).
Proof.
  intros w e incr o b f n V. destruct (bump_valid_sound _ _ _ _ _ _ _ V) as [_ [_ [_ [_ [_ [_ [dest [rcps [cp [Hs S]]]]]]]]]].
  exists dest, rcps. split; [exact Hs|]. intros H0. unfold created_tx_statement in S.
  destruct S as [_ [_ [_ [_ [_ [_ [_ [_ [_ [_ [_ [Hr _]]]]]]]]]]]]. simpl in Hr. apply (Hr _ eq_refl H0).
Qed.
Print Assumptions C56_pays_new_feerate.

(* inputs the replacement adds are confirmed, unlocked, unspent, mature, trusted wallet coins *)
Theorem C56_added_inputs_confirmed : forall w e incr o b f n,
  valid_bump w e incr o b f n = true ->
  forall j, In j (n_ins n) -> ~ In (ti_id j) (map ti_id (o_ins o)) ->
  exists c, In c w /\ wc_id c = ti_id j /\ wc_value c = ti_value j /\ 1 <= wc_depth c /\
            wc_locked c = false /\ wc_spent c = false /\ wc_immature c = false /\ wc_trusted c = true.
Proof. intros w e incr o b f n V. exact (bump_added_inputs_confirmed w e incr o b f n (bump_valid_sound _ _ _ _ _ _ _ V)). Qed.
Print Assumptions C56_added_inputs_confirmed.

(* every non-change output of the original is paid unchanged (no new outputs, no original_change_index) *)
Theorem C56_keeps_non_change_outputs : forall w e incr o b f n,
  valid_bump w e incr o b f n = true -> b_new_outs b = [] -> b_oci b = None ->
  filter (fun x => negb (oo_change x)) (o_outs o) <> [] ->
  exists cp, forall k x, nth_error (filter (fun x => negb (oo_change x)) (o_outs o)) k = Some x ->
    exists out, nth_error (payouts (as_result n cp)) k = Some out /\
                to_spk out = to_spk (oo_out x) /\ to_value out = to_value (oo_out x).
Proof. intros w e incr o b f n V. exact (bump_keeps_non_change_outputs w e incr o b f n (bump_valid_sound _ _ _ _ _ _ _ V)). Qed.
Print Assumptions C56_keeps_non_change_outputs.

(* transcription of PreconditionChecks: it lets a transaction through exactly when it is bumpable *)
Theorem C56_precondition_iff : forall f rm,
  precondition f rm = None <->
  (f_wallet_spend f = false /\ f_mempool_desc f = false /\ f_depth f = 0 /\ f_replaced f = false /\
   (rm = true -> f_all_mine f = true)).
Proof. exact precondition_none_iff. Qed.
Print Assumptions C56_precondition_iff.

(* transcription of the recipient / change split: without original_change_index the recipients are exactly the outputs
   that are not change, in order, amounts unchanged, never subtracting; the change script is the LAST change output's *)
Theorem C56_split_outs_spec : forall k outs d,
  snd (split_outs k None outs d) =
    map (fun x => mkRcp (to_spk (oo_out x)) (to_value (oo_out x)) false) (filter (fun x => negb (oo_change x)) outs) /\
  fst (split_outs k None outs d) =
    match rev (filter oo_change outs) with x :: _ => Some (to_spk (oo_out x)) | [] => d end.
Proof. exact split_outs_none. Qed.
Print Assumptions C56_split_outs_spec.

Theorem C56_split_outs_with_change_index : forall k i outs d, (k <= i)%nat ->
  snd (split_outs k (Some i) outs d) =
    map (fun x => mkRcp (to_spk (oo_out x)) (to_value (oo_out x)) false) (remove_nth (i - k) outs) /\
  fst (split_outs k (Some i) outs d) =
    match nth_error outs (i - k) with Some x => Some (to_spk (oo_out x)) | None => d end.
Proof. exact split_outs_some. Qed.
Print Assumptions C56_split_outs_with_change_index.

(* transcription of CheckFeeRate: passing it guarantees BIP125 rule 4 (up to one satoshi of rounding) for every
   replacement that is no smaller than the size it was evaluated on and pays the new feerate on its own size ... *)
Theorem C56_check_fee_rate_suffices : forall e incr nf S old bump S' fee',
  check_fee_rate e incr nf S old bump = FrOk -> 0 <= incr <= nf -> S <= S' ->
  get_fee nf S' + bump <= fee' -> old + get_fee incr S' - 1 <= fee'.
Proof. exact check_fee_rate_suffices. Qed.
Print Assumptions C56_check_fee_rate_suffices.

(* ... but NOT for a replacement that comes out smaller (the change output was dropped): the clause "pays at least the
   original fee plus the incremental relay fee for its size" is not implied by CheckFeeRate + CreateTransaction.  The
   witness is a replacement the real wallet produced and the real mempool rejected (see the report / corpus). *)
Theorem C56_check_fee_rate_not_sufficient_refuted :
  exists e incr nf S old S' fee',
    check_fee_rate e incr nf S old 0 = FrOk /\ 0 <= incr <= nf /\ S' < S /\
    get_fee nf S' <= fee' /\ fee' < old + get_fee incr S'.
Proof. exact check_fee_rate_not_sufficient_refuted. Qed.
Print Assumptions C56_check_fee_rate_not_sufficient_refuted.

(* transcription of EstimateFeeRate (no explicit feerate; CheckFeeRate is then not run): if the replacement is at least as large
   as the original, paying the estimated feerate on its size covers old fee + incremental relay fee for its size ... *)
Theorem C56_estimate_rate_suffices : forall e incr old osz rq0 S',
  0 <= old -> 0 < osz <= S' -> 0 <= incr ->
  old + get_fee incr S' <= get_fee (estimate_rate e incr old osz rq0) S'.
Proof. exact estimate_rate_suffices. Qed.
Print Assumptions C56_estimate_rate_suffices.

(* ... but with the `outputs` option the replacement can be smaller, and then the new fee can be BELOW the old fee: the clause
   "pays at least the original fee plus the incremental relay fee" fails in the real code.  Witness = a replacement the real
   wallet produced and the mempool rejected (corpus/C56/fee_bump.findings.case, second case). *)
Theorem C56_estimate_rate_not_sufficient_refuted :
  exists e incr old osz rq0 S',
    0 <= old /\ 0 < S' < osz /\ 0 <= incr /\
    get_fee (estimate_rate e incr old osz rq0) S' < old.
Proof. exact estimate_rate_not_sufficient_refuted. Qed.
Print Assumptions C56_estimate_rate_not_sufficient_refuted.

(* non-vacuity: the replacement the real wallet produced for a 219-vbyte payment (one 300000-sat legacy coin, recipient
   150000, change 149781, bumped with an explicit 3000 sat/kvB) is accepted; dropping the original input, or paying
   less than old fee + increment, is rejected; an already-bumped original is rejected. *)
Definition ex_r : script := [0; 20; 20; 127; 47; 138; 84; 105; 31; 188; 13; 179; 6; 250; 72; 13; 40; 74; 144; 157; 210; 92]%N.
Definition ex_c : script := [0; 20; 180; 195; 160; 139; 174; 212; 224; 178; 92; 82; 239; 40; 7; 22; 105; 60; 122; 118; 122; 220]%N.
Definition exb_env : env := mkEnv 100 3000 0 1000 0 10000 10000000 true ex_c 68.
Definition exb_coins : list wcoin :=
  [mkWCoin 0 100000 1 false false false true false false; mkWCoin 2 300000 1 false false true true false false].
Definition exb_o : otx := mkOtx [mkIn 2 300000 148] [mkOOut (mkOut 149781 ex_c true) true; mkOOut (mkOut 150000 ex_r false) false] 219.
Definition exb_b : bump_opts := mkBOpts (Some 3000) [] None true.
Definition exb_f (replaced : bool) : facts := mkFacts false false 0 replaced true true.
Definition exb_n (coin fee chg : Z) : bumped :=
  mkBumped [mkIn coin 300000 148] [mkOut 150000 ex_r false; mkOut chg ex_c true] fee 219 219 219 0.
Example C56_nonvacuous :
  valid_bump exb_coins exb_env 100 exb_o exb_b (exb_f false) (exb_n 2 657 149343) = true /\
  valid_bump exb_coins exb_env 100 exb_o exb_b (exb_f true) (exb_n 2 657 149343) = false /\
  valid_bump exb_coins exb_env 100 exb_o exb_b (exb_f false)
    (mkBumped [mkIn 0 100000 68] [mkOut 150000 ex_r false] 0 219 219 219 0) = false /\
  valid_bump exb_coins exb_env 100 (mkOtx [mkIn 2 300000 148] [mkOOut (mkOut 149343 ex_c true) true; mkOOut (mkOut 150000 ex_r false) false] 219)
    exb_b (exb_f false) (exb_n 2 657 149343) = false.
Proof. vm_compute. repeat split. Qed.
