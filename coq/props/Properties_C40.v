(* C40  Coin selection returns a valid, sufficient subset of the offered coins.
   Only statements here; each is closed by `exact` of a lemma from proofs/CoinSelLemmas.v.

   The C++ algorithms are tied by translation validation: every SelectionResult the real SelectCoinsBnB /
   CoinGrinder / SelectCoinsSRD / KnapsackSolver return on the generated pools is judged by the extracted
   `valid_selection`, `optimal_check` and `none_check`, whose meaning is proved below; SelectCoinsBnB and
   CoinGrinder are in addition transcribed (`select_coins_bnb`, `coin_grinder`), proved to return only valid
   selections, and compared output for output (selection, waste, completed flag, tries) with the C++.

   Full statement of the property's second sentence for the C++ code ("when BnB or CoinGrinder report a
   complete search no other admissible subset has a strictly better objective") is NOT proved for the
   algorithms: it is checked per case against the proved brute-force reference
   (theorems C40_complete_search_is_optimal_bnb and _cg), see LEVEL_NOTE in props/C40.py. *)
From Coq Require Import Permutation.
From BV Require Import lib.Ints gen.Params_gen model.CoinSel proofs.CoinSelLemmas.
Local Open Scope Z_scope.

(* A result accepted by the checker: it is a sub-list of the pool (only coins of the pool, each at most
   once), made of groups the algorithm was offered, with the reported value / effective value / weight;
   the selection amount covers the algorithm's target (BnB: inside [target, target + cost_of_change];
   CoinGrinder: target + change target; SRD: target + CHANGE_LOWER + change_fee; knapsack: target, and exactly
   the target or target + change target unless that is out of reach); the weight is within the limit and the
   reported waste is RecalculateWaste's formula. *)
Theorem C40_checker_sound : forall a P pool r, valid_selection a P pool r = true ->
  exists s,
    pick_at 0 pool (r_sel r) = Some s /\
    Sub s pool /\
    NoDup (r_sel r) /\
    Forall (fun g => is_offered a (p_sffo P) g = true) s /\
    r_value r = sum_by g_value s /\ r_eff r = sum_by g_eff s /\ r_weight r = sel_weight s /\
    (let x := sel_amount P s in
     match a with
     | ABnB => p_target P <= x <= p_target P + p_coc P
     | ACG => p_target P + p_change_target P <= x
     | ASRD => p_target P + CS_CHANGE_LOWER + p_change_fee P <= x
     | AKnap => p_target P <= x /\
                (x = p_target P \/ p_target P + p_change_target P <= x \/
                 (knap_has_larger P pool = false /\ knap_total_lower P pool < p_target P + p_change_target P))
     end) /\
    sel_weight s <= p_maxw P /\
    r_waste r = waste_of P s.
Proof. exact valid_selection_sound. Qed.
Print Assumptions C40_checker_sound.

(* a sub-list is a sub-multiset of the pool: the pool is the selection plus a remainder *)
Theorem C40_sublist_is_submultiset : forall (s pool : list group), Sub s pool ->
  exists rest, Permutation pool (s ++ rest).
Proof. exact (@Sub_perm group). Qed.
Print Assumptions C40_sublist_is_submultiset.

(* the brute-force reference decides existence of a sub-list with a given property ... *)
Theorem C40_brute_force_exists_iff : forall (ok : list group -> bool) pool,
  exists_sub ok pool = true <-> exists s, Sub s pool /\ ok s = true.
Proof. exact (@exists_sub_spec group). Qed.
Print Assumptions C40_brute_force_exists_iff.

(* ... and computes the minimum of an objective over the sub-lists with that property *)
Theorem C40_brute_force_minimum : forall (obj : list group -> Z) (ok : list group -> bool) pool,
  match min_over obj ok pool with
  | Some m => (exists s, Sub s pool /\ ok s = true /\ obj s = m) /\
              (forall s, Sub s pool -> ok s = true -> m <= obj s)
  | None => forall s, Sub s pool -> ok s = false
  end.
Proof.
  intros obj ok pool. destruct (min_over obj ok pool) eqn:E.
  - exact (min_over_some obj ok pool z E).
  - exact (min_over_none obj ok pool E).
Qed.
Print Assumptions C40_brute_force_minimum.

(* complete search, BnB: no sub-list of positive groups that lies in the window, respects the weight limit
   and is non-redundant (no group can be dropped while still reaching the target) has a lower waste *)
Theorem C40_complete_search_is_optimal_bnb : forall P pool r, optimal_check ABnB P pool r = true ->
  exists s, pick_at 0 pool (r_sel r) = Some s /\
    forall t, Sub t pool -> Forall (fun g => 0 < amt (p_sffo P) g) t ->
      (p_target P <= sel_amount P t <= p_target P + p_coc P /\ sel_weight t <= p_maxw P) ->
      (forall g, In g t -> sel_amount P t - amt (p_sffo P) g < p_target P) ->
      bnb_waste P s <= bnb_waste P t.
Proof. exact optimal_check_bnb_sound. Qed.
Print Assumptions C40_complete_search_is_optimal_bnb.

(* complete search, CoinGrinder: no sub-list of positive groups that reaches target + change target within
   the weight limit has a lower weight *)
Theorem C40_complete_search_is_optimal_cg : forall P pool r, optimal_check ACG P pool r = true ->
  exists s, pick_at 0 pool (r_sel r) = Some s /\
    forall t, Sub t pool -> Forall (fun g => 0 < amt (p_sffo P) g) t ->
      (p_target P + p_change_target P <= sel_amount P t /\ sel_weight t <= p_maxw P) ->
      sel_weight s <= sel_weight t.
Proof. exact optimal_check_cg_sound. Qed.
Print Assumptions C40_complete_search_is_optimal_cg.

(* no result: then no admissible sub-list exists *)
Theorem C40_no_result_only_when_none_exists_bnb : forall P pool, none_check ABnB P pool = true ->
  forall t, Sub t pool -> Forall (fun g => 0 < amt (p_sffo P) g) t ->
    ~ (p_target P <= sel_amount P t <= p_target P + p_coc P /\ sel_weight t <= p_maxw P).
Proof. exact none_check_bnb_sound. Qed.
Print Assumptions C40_no_result_only_when_none_exists_bnb.

Theorem C40_no_result_only_when_none_exists_cg : forall P pool, none_check ACG P pool = true ->
  forall t, Sub t pool -> Forall (fun g => 0 < amt (p_sffo P) g) t ->
    ~ (p_target P + p_change_target P <= sel_amount P t /\ sel_weight t <= p_maxw P).
Proof. exact none_check_cg_sound. Qed.
Print Assumptions C40_no_result_only_when_none_exists_cg.

Theorem C40_no_result_only_when_pool_insufficient_srd : forall P pool, none_check ASRD P pool = true ->
  ~ (p_target P + CS_CHANGE_LOWER + p_change_fee P <= sel_amount P (offered_groups ASRD (p_sffo P) pool) /\
     sel_weight (offered_groups ASRD (p_sffo P) pool) <= p_maxw P).
Proof. exact none_check_srd_sound. Qed.
Print Assumptions C40_no_result_only_when_pool_insufficient_srd.

(* The transcription of SelectCoinsBnB (sort by `descending`, lookahead, depth-first search with CUT / SHIFT,
   clone skipping, TOTAL_TRIES): whatever it returns is a duplicate-free list of positions of the given pool
   holding positive groups whose amount is inside [target, target + cost_of_change], whose weight is within
   the limit, and best_waste is the waste of that selection. For every pool, target, cost of change, weight. *)
Theorem C40_bnb_model_returns_valid_selection : forall sffo pool target coc maxw sel s w c t orig,
  select_coins_bnb sffo pool target coc maxw = (BnbSome sel s w c t, orig) ->
  NoDup orig /\
  Forall2 (fun i g => nth_error pool i = Some g) orig s /\
  Forall (fun g => 0 < amt sffo g) s /\
  target <= sum_by (amt sffo) s <= target + coc /\
  sum_by g_weight s <= maxw /\
  w = sum_by gwaste s + (sum_by (amt sffo) s - target).
Proof. exact select_coins_bnb_valid. Qed.
Print Assumptions C40_bnb_model_returns_valid_selection.

(* the explicit fuel of the transcription (TOTAL_TRIES iterations) is never exhausted *)
Theorem C40_bnb_model_fuel_sufficient : forall sffo pool la target coc maxw high,
  bnb_loop pool sffo la target coc maxw high (Z.to_nat TOTAL_TRIES) (mkB [] 0 0 0 [] MAX_MONEY 0%nat 0 false) <> ItFuel.
Proof. exact bnb_core_fuel_sufficient. Qed.
Print Assumptions C40_bnb_model_fuel_sufficient.

(* The transcription of CoinGrinder (sort by `descending_effval_weight`, lookahead, min_tail_weight, CUT / SHIFT, clone
   skipping, TOTAL_TRIES): whatever it returns is a duplicate-free list of positions of the given pool holding positive
   groups whose amount reaches target + change target and whose weight (reported as best_selection_weight) is within the
   limit.  For every pool, target, change target and weight limit. *)
Theorem C40_cg_model_returns_valid_selection : forall sffo pool target change_target maxw sel s w c t orig,
  coin_grinder sffo pool target change_target maxw = (BnbSome sel s w c t, orig) ->
  NoDup orig /\
  Forall2 (fun i g => nth_error pool i = Some g) orig s /\
  Forall (fun g => 0 < amt sffo g) s /\
  target + change_target <= sum_by (amt sffo) s /\
  sum_by g_weight s <= maxw /\
  w = sum_by g_weight s.
Proof. exact coin_grinder_valid. Qed.
Print Assumptions C40_cg_model_returns_valid_selection.

Theorem C40_cg_model_fuel_sufficient : forall sffo pool la mtw total_target maxw,
  cg_loop pool sffo la mtw total_target maxw (Z.to_nat TOTAL_TRIES) (mkB [] 0 0 0 [] maxw 0%nat 0 false) MAX_MONEY <> CgFuel.
Proof. exact cg_core_fuel_sufficient. Qed.
Print Assumptions C40_cg_model_fuel_sufficient.

(* non-vacuity: a pool of four coins at 10 sat/vB (long-term 5 sat/vB); BnB picks positions 2 and 0 (sorted-pool
   positions 0 and 2) for a target
   of 10000 and the checker accepts that result with waste 1000; the brute force finds a solution *)
Example C40_nonvacuous :
  let pool := map (fun v => group_of 10000 5000 [mkCoin v 100 0]) [5000; 6000; 7000; 4000] in
  let P := mkParams false 10000 500 50500 300 400 400000 0 in
  select_coins_bnb false pool 10000 500 400000 =
    (BnbSome [0%nat; 2%nat] [mkGroup 7000 6000 1000 500 400; mkGroup 5000 4000 1000 500 400] 1000 true 9,
     [2%nat; 0%nat]) /\
  valid_selection ABnB P pool (mkResult [0%nat; 2%nat] 12000 10000 800 1000 true) = true /\
  optimal_check ABnB P pool (mkResult [0%nat; 2%nat] 12000 10000 800 1000 true) = true /\
  none_check ABnB P pool = false.
Proof. vm_compute. repeat split; reflexivity. Qed.
