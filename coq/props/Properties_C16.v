(* C16  The node recovers a consistent chainstate after a crash at any point -- the logical protocol
   (head-blocks marker, partial batches, ReplayBlocks).

   FULL PROPERTY (not all of it is proved here; the theorems below are the protocol part):
     If the node process is killed, or the machine loses power so that a suffix of not-yet-synced writes
     is discarded, at any point while connecting blocks, flushing state, reorganizing or pruning, the next
     start succeeds without a reindex.  The recovered UTXO set is exactly the UTXO set of the recovered
     tip, which is a block that was fully connected before the crash.  Once the node resumes connecting
     its stored blocks, its tip has at least the chainwork of the tip at the last full state flush
     completed before the crash.
   PROVED (on the model, under "each WriteBatch is atomic and batches become durable in order"):
     for every block tree, old tip a, new tip b, fork f, every valid dirty-entry list, every split into
     partial batches and every crash point, and every further crash during the flush that ends
     ReplayBlocks itself: recovery succeeds and ends in the database {best = a, coins = utxo(a)} (crash
     before the first batch) or {best = b, coins = utxo(b)} (any later crash point); the head marker is
     present exactly at the interior crash points; the recovered tip is a or b; FlushStateToDisk orders
     block files and block index before the coin batches.
   NOT PROVED HERE (carried by the correspondence with the real code, or outside the model):
     - work_not_lost : forall ..., chainwork (tip after ActivateBestChain on the recovered node) >=
         chainwork (tip of the last completed flush)   [observed by the driver in reorg-by-work scenarios]
     - the power-loss semantics over SEVERAL flushes (a prefix of the concatenated batch sequences is
       durable) reduces to the single-flush statement for the flush the prefix ends in
       (C16_prefix_over_several_flushes); the composed statement over a whole run of flushes is not stated
     - the pre-0.15 undo format path of ApplyTxInUndo (undo.nHeight == 0), LevelDB's own log recovery, the
       file system's ordering guarantees, torn writes, pruning of block files needed by the replay. *)
From Coq Require Import List NArith Bool Arith.
From BV Require Import model.CrashReplay proofs.CrashReplayBasics proofs.CrashReplayLedger
  proofs.CrashReplayBatch proofs.CrashReplayTree proofs.CrashReplayMain.
Import ListNotations.

(* Main theorem.  st: block store (index + block data + undo data); f: fork block at height hf; base: the
   blocks up to f; lA / lB: old / new branch (tip first), stored in st, starting with different blocks;
   the old branch is a valid extension of utxo(f) with matching undo data (inputs exist when spent, no
   output created on top of an unspent coin); m0 consistent with the old tip; es: ANY entry list carrying
   utxo(b)'s values and covering every outpoint where utxo(b) differs from the database, with ANY
   partial-batch cuts; k: ANY number of durable batches. *)
Theorem C16_replay_recovers_partial :
  forall (st : store) (f : blockid) (ef : entry) (hf : nat) (base : list block) (lA lB : list node),
  st f = Some ef -> e_height ef = hf ->
  stored_up st lA f hf -> stored_up st lB f hf -> diverge lA lB ->
  chain_valid (S hf) (map snd (rev lA)) (utxo_f base) ->
  tipA f lA <> null_id ->
  forall (m0 : db) (es : list (dirty_entry * bool)) (bs : list batch) (k : nat),
  db_consistent m0 (tipA f lA) (utxo_a hf base lA) ->
  valid_entries (utxo_b hf base lB) m0 es ->
  batch_write m0 es (tipB f lB) = Some bs ->
  k <= length bs ->
  let m1 := crash_after k bs m0 in
  (0 < k < length bs -> get_heads m1 = [tipB f lB; tipA f lA] /\ get_best m1 = null_id) /\
  (k = 0 -> m1 = m0) /\
  (k = length bs -> db_consistent m1 (tipB f lB) (utxo_b hf base lB)) /\
  (exists m', recovers st m1 m') /\
  (forall m', recovers st m1 m' ->
     if Nat.eqb k 0 then m' = m0 else db_consistent m' (tipB f lB) (utxo_b hf base lB)).
Proof. exact replay_recovers. Qed.
Print Assumptions C16_replay_recovers_partial.

(* The recovered best block is the old or the new tip of the interrupted flush, and no marker is left. *)
Theorem C16_recovered_tip_was_connected :
  forall (st : store) (f : blockid) (ef : entry) (hf : nat) (base : list block) (lA lB : list node),
  st f = Some ef -> e_height ef = hf ->
  stored_up st lA f hf -> stored_up st lB f hf -> diverge lA lB ->
  chain_valid (S hf) (map snd (rev lA)) (utxo_f base) ->
  tipA f lA <> null_id ->
  forall (m0 : db) (es : list (dirty_entry * bool)) (bs : list batch) (k : nat) (m' : db),
  db_consistent m0 (tipA f lA) (utxo_a hf base lA) ->
  valid_entries (utxo_b hf base lB) m0 es ->
  batch_write m0 es (tipB f lB) = Some bs ->
  k <= length bs ->
  recovers st (crash_after k bs m0) m' ->
  get_heads m' = [] /\ (get_best m' = tipA f lA \/ get_best m' = tipB f lB).
Proof. exact recovered_tip_was_connected. Qed.
Print Assumptions C16_recovered_tip_was_connected.

(* Rolling the new branch forward (RollforwardBlock: spend inputs ignoring missing ones, add outputs allowing
   overwrites) over ANY view in which each outpoint has its value at the fork or its value at the new tip
   gives exactly utxo(b).  No validity premise on the new branch. *)
Theorem C16_rollforward_any_subset :
  forall (hf : nat) (base : list block) (lB : list node) (m : db) (V : overlay),
  (forall o, view_get V m o = log_coin (utxo_f base) o \/ view_get V m o = utxo_b hf base lB o) ->
  forall o, view_get (apply_chain (S hf) (map n_block (rev lB)) V) m o = utxo_b hf base lB o.
Proof. exact rollforward_any_subset. Qed.
Print Assumptions C16_rollforward_any_subset.

(* Rolling the old branch back (DisconnectBlock tolerating UNCLEAN) over ANY view in which each outpoint has
   its value at the fork or at the old tip succeeds and gives exactly utxo(f). *)
Theorem C16_rollback_any_subset :
  forall (hf : nat) (base : list block) (lA : list node),
  chain_valid (S hf) (map snd (rev lA)) (utxo_f base) ->
  forall (m : db) (V : overlay),
  (forall o, view_get V m o = log_coin (utxo_f base) o \/ view_get V m o = utxo_a hf base lA o) ->
  exists V', rollback_up hf lA m V = Some V' /\ forall o, view_get V' m o = log_coin (utxo_f base) o.
Proof. exact rollback_any_subset. Qed.
Print Assumptions C16_rollback_any_subset.

(* Writes and erases are idempotent and blind: the entry afterwards does not depend on what was there. *)
Theorem C16_write_idempotent : forall m k v k',
  db_get (db_put k v (db_put k v m)) k' = db_get (db_put k v m) k'.
Proof. exact write_idempotent. Qed.
Print Assumptions C16_write_idempotent.
Theorem C16_erase_idempotent : forall m k k',
  db_get (db_del k (db_del k m)) k' = db_get (db_del k m) k'.
Proof. exact erase_idempotent. Qed.
Print Assumptions C16_erase_idempotent.
Theorem C16_write_and_erase_are_blind : forall m m' k v,
  db_get (db_put k v m) k = db_get (db_put k v m') k /\ db_get (db_del k m) k = db_get (db_del k m') k.
Proof. intros. split. apply write_blind. apply erase_blind. Qed.
Print Assumptions C16_write_and_erase_are_blind.

(* The entry list the executable model's cache hands to BatchWrite is a valid one, for every cut period. *)
Theorem C16_model_flush_entries_are_valid : forall ov m n,
  valid_entries (view_get ov m) m (with_cuts n 0 (dirty_of ov [])).
Proof. exact dirty_of_valid. Qed.
Print Assumptions C16_model_flush_entries_are_valid.

(* FlushStateToDisk: every coin batch comes after the block/undo files and the block index were written. *)
Theorem C16_data_precedes_coins : forall prune n pre i post,
  flush_steps prune n = pre ++ StepCoinBatch i :: post ->
  In StepBlockFiles pre /\ In StepBlockIndex pre.
Proof. exact data_precedes_coins. Qed.
Print Assumptions C16_data_precedes_coins.

(* Several flushes in a row (batches are not synced individually, so a power loss may drop a suffix that spans
   flushes): a durable prefix of the concatenated batch sequences is a prefix of the first flush, or the complete
   first flush followed by a prefix of the remaining ones -- every such state is a crash point of ONE flush
   starting from a completed one, to which C16_replay_recovers_partial applies. *)
Theorem C16_prefix_over_several_flushes : forall bs1 bs2 m k,
  crash_after k (bs1 ++ bs2) m =
  if Nat.leb k (length bs1) then crash_after k bs1 m
  else crash_after (k - length bs1) bs2 (apply_batches bs1 m).
Proof. exact crash_after_app. Qed.
Print Assumptions C16_prefix_over_several_flushes.

(* ---------------------------------------------------------------------------------------------- *)
(* A concrete instance: base = two blocks; the old branch A1, A2 and the new branch B1, B2, B3 fork at
   block 12 (height 2).  T100 is mined in A1 (height 3) and re-mined in B2 (height 4): its output
   (100,0) is spent at the old tip and unspent -- with another height -- at the new tip; (100,1) is
   unspent at the old tip and spent at the new one. *)
Local Open Scope N_scope.
Definition cbtx (id v : N) : tx := mkTx id true [] [mkOut v true; mkOut 0 false].
Definition ex_base : list block := [[cbtx 1 50]; [cbtx 2 50]].
Definition T100 := mkTx 100 false [(1, 0%nat)] [mkOut 20 true; mkOut 29 true].
Definition T101 := mkTx 101 false [(100, 0%nat)] [mkOut 19 true].
Definition T102 := mkTx 102 false [(2, 0%nat)] [mkOut 49 true; mkOut 0 false].
Definition T103 := mkTx 103 false [(100, 1%nat)] [mkOut 28 true].
Definition A1 : block := [cbtx 31 50; T100].
Definition A2 : block := [cbtx 32 50; T101].
Definition B1 : block := [cbtx 41 50; T102].
Definition B2 : block := [cbtx 42 50; T100; T103].
Definition B3 : block := [cbtx 43 50].
Definition uA1 : blockundo := [[mkCoin 1 true 50]].
Definition uA2 : blockundo := [[mkCoin 3 false 20]].
Definition ex_lA : list node := [(22, (A2, uA2)); (21, (A1, uA1))].
Definition ex_lB : list node := [(33, (B3, [])); (32, (B2, [[]; []])); (31, (B1, [[]]))].
Definition ex_ef := mkEntry (Some 11) 2 None None.
Definition ex_store : store := store_of
  [ (12, ex_ef);
    (21, mkEntry (Some 12) 3 (Some A1) (Some uA1)); (22, mkEntry (Some 21) 4 (Some A2) (Some uA2));
    (31, mkEntry (Some 12) 3 (Some B1) (Some [[]])); (32, mkEntry (Some 31) 4 (Some B2) (Some [[]; []]));
    (33, mkEntry (Some 32) 5 (Some B3) (Some [])) ].
Definition opt (t : N) (n : nat) : outpoint := (t, n).
Definition ex_dom : list outpoint :=
  [opt 1 0; opt 2 0; opt 31 0; opt 32 0; opt 41 0; opt 42 0; opt 43 0; opt 100 0; opt 100 1; opt 101 0; opt 102 0; opt 103 0].
Definition ex_la := listing_of (utxo_a 2 ex_base ex_lA) ex_dom.
Definition ex_lb := listing_of (utxo_b 2 ex_base ex_lB) ex_dom.
Definition ex_m0 := db_of_listing 22 ex_la.
Definition ex_ov := match reorg_log ex_store ex_m0 33 22 with ReplayDone _ ov => ov | _ => [] end.
Definition ex_bs := match flush_batches ex_m0 ex_ov 2 33 with Some bs => bs | None => [] end.

(* the hypotheses of the main theorem hold for it (so the theorem is not vacuous) ... *)
Example C16_nonvacuous_hypotheses :
  ex_store 12 = Some ex_ef /\ e_height ex_ef = 2%nat /\
  stored_up ex_store ex_lA 12 2 /\ stored_up ex_store ex_lB 12 2 /\ diverge ex_lA ex_lB /\
  chain_valid 3 (map snd (rev ex_lA)) (utxo_f ex_base) /\ tipA 12 ex_lA <> null_id /\
  flush_batches ex_m0 ex_ov 2 33 = Some ex_bs /\ length ex_bs = 7%nat.
Proof.
  split; [reflexivity|]. split; [reflexivity|].
  split; [simpl; auto|]. split; [simpl; auto|].
  split; [intros x y Hx Hy; inversion Hx; inversion Hy; discriminate|].
  split; [simpl; repeat split; reflexivity|].
  split; [discriminate|].
  split; vm_compute; reflexivity.
Qed.

(* ... and, evaluated: 7 batches; the crash after 3 of them leaves the marker [33; 22], no best block and a
   coin set that is neither utxo(a) nor utxo(b); every crash point 1..7 recovers best block 33 with exactly
   utxo(b) (here with cut period 3 for the replay's own flush), crash point 0 stays at 22 with utxo(a). *)
Example C16_nonvacuous_midpoint_crash :
  let m1 := crash_after 3 ex_bs ex_m0 in
  get_heads m1 = [33; 22] /\ get_best m1 = null_id /\
  listing_eqb (listing_of (db_coin m1) ex_dom) ex_la = false /\
  listing_eqb (listing_of (db_coin m1) ex_dom) ex_lb = false /\
  holds_midflush ex_la ex_lb (listing_of (db_coin m1) ex_dom) = true /\
  map (fun k => match recover_once ex_store (crash_after k ex_bs ex_m0) 3 with
                | Some m' => Some (get_best m', get_heads m', listing_eqb (listing_of (db_coin m') ex_dom) ex_lb)
                | None => None
                end) (seq 1 7) = repeat (Some (33, [], true)) 7 /\
  (match recover_once ex_store (crash_after 0 ex_bs ex_m0) 3 with
   | Some m' => Some (get_best m', listing_eqb (listing_of (db_coin m') ex_dom) ex_la)
   | None => None end) = Some (22, true) /\
  listing_eqb ex_la ex_lb = false.
Proof. vm_compute. repeat split; reflexivity. Qed.

(* The ledger premise is needed: if the old branch creates an output on top of an unspent coin (a duplicate
   txid, the BIP30 situation), rolling it back erases the older coin and recovery does NOT give utxo(b).
   Block D1 (height 3) repeats coinbase txid 2. *)
Definition D1 : block := [cbtx 2 50].
Definition dup_store : store := store_of
  [ (12, ex_ef); (21, mkEntry (Some 12) 3 (Some D1) (Some [])); (31, mkEntry (Some 12) 3 (Some B3) (Some [])) ].
Definition dup_lA : list node := [(21, (D1, []))].
Definition dup_lB : list node := [(31, (B3, []))].
Example C16_unique_outpoints_premise_is_needed :
  let la := listing_of (utxo_a 2 ex_base dup_lA) ex_dom in
  let lb := listing_of (utxo_b 2 ex_base dup_lB) ex_dom in
  let m0 := db_of_listing 21 la in
  block_ok 3 D1 (utxo_f ex_base) = false /\
  exists ov bs, reorg_log dup_store m0 31 21 = ReplayDone 31 ov /\
    flush_batches m0 ov 1 31 = Some bs /\
    match recover_once dup_store (crash_after 1 bs m0) 1 with
    | Some m' => listing_eqb (listing_of (db_coin m') ex_dom) lb
    | None => true
    end = false.
Proof.
  vm_compute. split; [reflexivity|].
  eexists. eexists. split; [reflexivity|]. split; reflexivity.
Qed.
