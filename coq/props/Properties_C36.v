(* C36  Peers are punished only for what the rules say, never for transactions.
   Model: coq/model/Punish.v (MaybePunishNodeForBlock, MaybeDiscourageAndDisconnect, the tx path), enum values from the compiled tree. *)
From BV Require Import lib.Ints gen.Params_gen model.Punish proofs.PunishLemmas.
Local Open Scope Z_scope.

(* Peers with the noban permission and manual connections are never disconnected or discouraged, whatever set the misbehaviour flag. *)
Theorem C36_noban_and_manual_peers_are_never_punished : forall flag noban manual local,
  noban = true \/ manual = true -> discourage_and_disconnect flag noban manual local = mkOutcome false false.
Proof. exact noban_manual_never. Qed.
Print Assumptions C36_noban_and_manual_peers_are_never_punished.

(* Any other peer whose full (non-compact) block is found invalid is disconnected, and discouraged unless its address is local. *)
Theorem C36_sender_of_an_invalid_full_block_is_disconnected_and_discouraged_unless_local : forall r inbound local,
  invalid_full_block_result r -> block_outcome r false inbound false false local = mkOutcome true (negb local).
Proof. exact invalid_full_block_punished. Qed.
Print Assumptions C36_sender_of_an_invalid_full_block_is_disconnected_and_discouraged_unless_local.

(* ... and so is the sender of headers with invalid proof of work (CheckHeadersPoW sets the flag directly). *)
Theorem C36_flagged_ordinary_peer_is_disconnected_and_discouraged_unless_local : forall local,
  discourage_and_disconnect true false false local = mkOutcome true (negb local).
Proof. exact flagged_peer_outcome. Qed.
Print Assumptions C36_flagged_ordinary_peer_is_disconnected_and_discouraged_unless_local.

(* The complete table of MaybePunishNodeForBlock. *)
Theorem C36_block_verdicts_that_set_the_misbehaviour_flag : forall r via_compact inbound,
  punish_block r via_compact inbound = true <->
  ((r = BVR_CONSENSUS \/ r = BVR_MUTATED) /\ via_compact = false) \/ (r = BVR_CACHED_INVALID /\ via_compact = false /\ inbound = false) \/
  r = BVR_INVALID_HEADER \/ r = BVR_INVALID_PREV \/ r = BVR_MISSING_PREV.
Proof. exact punish_block_table. Qed.
Print Assumptions C36_block_verdicts_that_set_the_misbehaviour_flag.

(* No TxValidationResult leads to punishment.  In the model this holds by definition of [punish_tx] (the tx handler contains no
   Misbehaving call): the clause is carried by the correspondence, see props/C36.py. *)
Theorem C36_no_transaction_verdict_punishes_partial : forall r noban manual local, tx_outcome r noban manual local = mkOutcome false false.
Proof. exact tx_never_punishes. Qed.
Print Assumptions C36_no_transaction_verdict_punishes_partial.

Example C36_nonvacuous :
  block_outcome BVR_CONSENSUS false true false false false = mkOutcome true true /\
  block_outcome BVR_CONSENSUS true true false false false = mkOutcome false false /\
  block_outcome BVR_CACHED_INVALID false true false false false = mkOutcome false false /\
  block_outcome BVR_CACHED_INVALID false false false false true = mkOutcome true false.
Proof. vm_compute. auto. Qed.
