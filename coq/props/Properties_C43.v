(* C43: wallet state survives restarts and crashes consistently.
   Statements only; proofs in proofs/WalletDbLemmas.v, model in model/WalletDb.v.

   `run true (init kp) ops` is ANY sequence of the modelled wallet operations (new receiving/change addresses, address
   book label/purpose/used/receive-request updates and removal, coin locks persistent or not, transactions added and
   removed, keypool top-ups, wallet flag, descriptor import, clean restarts and crashes) on a fresh descriptor wallet;
   `true` selects this tree's CWallet::LockCoin (code_lock_upgrade).  The database is a map from record keys to
   values; a transaction's writes become visible at its commit (premise: SQLite atomicity and durability). *)
From Coq Require Import ZArith List Bool Lia.
From BV Require Import lib.Ints model.WalletDb proofs.WalletDbLemmas.
Import ListNotations.
Open Scope Z_scope.

(* clean restart: the reloaded wallet answers every getter like the running one.  Two differences that are by design
   are part of the statement: range_end may only have grown (LoadExisting tops the keypools up) and coins locked in
   memory only are unlocked (persistent ones stay locked). *)
Theorem C43_clean_restart_reloads_everything :
  forall kp ops,
  let st := snd (run true (init kp) ops) in
  let m := w_mem st in let m' := w_mem (reopen st) in
  (forall t, fst (m_desc m' t) = fst (m_desc m t) /\ snd (m_desc m t) <= snd (m_desc m' t)) /\
  (forall k, m_imp m' k = m_imp m k) /\
  (forall a, m_label m' a = m_label m a) /\
  (forall a, m_purpose m' a = m_purpose m a) /\
  (forall a, m_used m' a = m_used m a) /\
  (forall a id, m_rr m' a id = m_rr m a id) /\
  (forall k, m_tx m' k = m_tx m k) /\
  m_opn m' = m_opn m /\
  m_flag m' = m_flag m /\
  (forall n, m_locks m' n = if pview (m_locks m) n then Some true else None).
Proof. exact clean_restart. Qed.
Print Assumptions C43_clean_restart_reloads_everything.

(* the invariant behind it, at every point of every history: no transaction is left open, every getter of the running
   wallet equals what LoadWallet computes from the committed records, and the lockedutxo records are exactly the
   persistently locked coins *)
Theorem C43_running_wallet_in_step_with_database :
  forall kp ops, let st := snd (run true (init kp) ops) in
  pending (w_db st) = None /\ lv (w_mem st) (committed (w_db st)) /\ lv_locks (w_mem st) (committed (w_db st)).
Proof.
  intros kp ops. destruct (run true (init kp) ops) as [rs st] eqn:R. cbn [snd].
  destruct (init_synced kp) as [S0 SL0]. destruct (run_synced _ _ _ _ S0 SL0 R) as [[A B] C]. auto.
Qed.
Print Assumptions C43_running_wallet_in_step_with_database.

(* crash: each update the wallet performs as one database transaction (address book entry removal, transaction
   removal, keypool top-up) is fully present or fully absent, at whatever database call the process dies *)
Theorem C43_transactional_update_all_or_nothing :
  forall upgrade kp ops o j, is_txn_op o = true ->
  let st := snd (run upgrade (init kp) ops) in
  crash_in upgrade st o j = committed (w_db st) \/ crash_in upgrade st o j = committed (w_db (fst (step upgrade st o))).
Proof. exact crash_anywhere_atomic. Qed.
Print Assumptions C43_transactional_update_all_or_nothing.

(* crash: at whatever database call of whatever operation the process dies, after any history, the records on disk
   load (every descriptor record has its cache record; load_ok_at is the loader's failure condition) *)
Theorem C43_wallet_loads_after_crash_anywhere :
  forall upgrade kp ops o j k, load_ok_at (crash_in upgrade (snd (run upgrade (init kp) ops)) o j) k = true.
Proof. intros. apply crash_anywhere_loads. Qed.
Print Assumptions C43_wallet_loads_after_crash_anywhere.

(* the database layer: before the commit call nothing of a transaction is on disk, after it everything *)
Theorem C43_commit_is_the_switch :
  forall c ws j, forallb plain ws = true ->
  crash (apply_calls (mkDb c None) (firstn j (CBegin :: ws ++ [CCommit]))) = c \/
  crash (apply_calls (mkDb c None) (firstn j (CBegin :: ws ++ [CCommit]))) = crash (apply_calls (mkDb c None) (CBegin :: ws ++ [CCommit])).
Proof. exact txn_atomic. Qed.
Print Assumptions C43_commit_is_the_switch.

(* descriptor import is NOT one database transaction in this tree (AddWalletDescriptor uses three batches): a crash
   can leave its key and cache records without the descriptor record; the loader does not see them (previous theorem) *)
Theorem C43_import_is_not_one_transaction :
  crash_in true (init 2) (OImport 1) 2 (KImpKey 1) = Some VUnit /\
  crash_in true (init 2) (OImport 1) 2 (KImpDesc 1) = None.
Proof. vm_compute. split; reflexivity. Qed.
Print Assumptions C43_import_is_not_one_transaction.

(* the LockCoin before /repo a3617e9 (bare emplace): lock in memory, lock persistently, unlock: the record stays, so the
   coin is locked again after a restart; with this tree's LockCoin the record is erased *)
Theorem C43_unupgraded_lock_would_resurrect :
  let st := snd (run false (init 2) [OLock 1 false; OLock 1 true; OUnlock 1]) in
  m_locks (w_mem st) 1 = None /\ committed (w_db st) (KLock 1) = Some VUnit.
Proof. exact lock_upgrade_witness. Qed.
Print Assumptions C43_unupgraded_lock_would_resurrect.

Theorem C43_upgraded_lock_witness :
  let st := snd (run true (init 2) [OLock 1 false; OLock 1 true; OUnlock 1]) in
  m_locks (w_mem st) 1 = None /\ committed (w_db st) (KLock 1) = None.
Proof. exact lock_upgrade_fixed_witness. Qed.
Print Assumptions C43_upgraded_lock_witness.

(* non-vacuity: a concrete history that exercises every record kind; after it the wallet has a label, a used flag,
   a receive request, a persistent lock, a transaction and an import, and the reloaded wallet has them too *)
Example C43_nonvacuous :
  let ops := [ONew 2; OLabel (AFor 1) 5 (Some PSend); OSpent (AFor 2) true; ORr (AFor 1) 7 8; OLock 4 true; OLock 5 false;
              OTx 1; OTx 2; ORmTx [1]; OImport 3; OFlag; OCrash; ODel (AFor 9)] in
  let st := snd (run true (init 2) ops) in
  let m' := w_mem (reopen st) in
  m_label m' (AFor 1) = Some 5 /\ m_used m' (AFor 2) = true /\ m_rr m' (AFor 1) 7 = Some 8 /\
  m_locks m' 4 = Some true /\ m_locks m' 5 = None /\ m_tx m' 2 = Some 1 /\ m_tx m' 1 = None /\
  m_imp m' 3 = Some true /\ m_flag m' = true /\ m_label m' (AMine 2 0) = Some 0.
Proof. vm_compute. repeat split; reflexivity. Qed.
