(* C30  Feerate arithmetic is exact.
   Only statements here; each is closed by `exact` of a lemma from proofs/FeeLemmas.v.
   Ranges: int64_t fees, int32_t sizes (is_i64 / is_i32), i.e. every representable operand. *)
From Coq Require Import QArith.
From BV Require Import lib.Ints model.Fee proofs.FeeLemmas proofs.FeeChunkLemmas.
Local Open Scope Z_scope.

(* ---- the portable 64x32 multiply is exact --------------------------------------------------- *)
(* MulFallback(a,b) = (hi, lo) with hi*2^32 + lo = a*b exactly, lo a uint32, hi an int64 (no overflow
   in any intermediate: the model's wraps are identities), for ALL int64 a and int32 b. *)
Theorem C30_mul_fallback_exact : forall a b, is_i64 a -> is_i32 b ->
  fst (mul_fallback a b) * 2 ^ 32 + snd (mul_fallback a b) = a * b /\
  0 <= snd (mul_fallback a b) < 2 ^ 32 /\ is_i64 (fst (mul_fallback a b)).
Proof. exact mul_fallback_exact. Qed.
Print Assumptions C30_mul_fallback_exact.

(* the "unspecified but totally ordered type": pairs from MulFallback compare (std::pair <=>) exactly
   as the products do; so does the __int128 from Mul *)
Theorem C30_mul_fallback_order : forall a b c d, is_i64 a -> is_i32 b -> is_i64 c -> is_i32 d ->
  pair_compare (mul_fallback a b) (mul_fallback c d) = (a * b ?= c * d).
Proof. exact mul_fallback_compare. Qed.
Print Assumptions C30_mul_fallback_order.

Theorem C30_mul_native_exact : forall a b, is_i64 a -> is_i32 b -> mul_native a b = a * b.
Proof. exact mul_native_exact. Qed.
Print Assumptions C30_mul_native_exact.

(* ---- the portable 96/32 divide rounds exactly ----------------------------------------------- *)
(* for every 96-bit numerator (hi int64, lo uint32), 0 < d <= INT32_MAX, and either rounding mode:
   if the exactly rounded quotient fits int64 (the function's stated precondition) DivFallback returns it.
   round_div true n d = floor(n/d), round_div false n d = ceil(n/d). *)
Theorem C30_div_fallback_exact : forall hi lo d round_down,
  is_i64 hi -> 0 <= lo < 2 ^ 32 -> 0 < d <= INT32_MAX ->
  is_i64 (round_div round_down (hi * 2 ^ 32 + lo) d) ->
  div_fallback (hi, lo) d round_down = round_div round_down (hi * 2 ^ 32 + lo) d.
Proof. exact div_fallback_spec. Qed.
Print Assumptions C30_div_fallback_exact.

Theorem C30_div_native_exact : forall n d round_down, 0 < d <= INT32_MAX ->
  is_i64 (round_div round_down n d) -> div_native n d round_down = round_div round_down n d.
Proof. exact div_native_spec. Qed.
Print Assumptions C30_div_native_exact.

(* round_div is what it says: floor and ceil characterised by the defining inequalities *)
Theorem C30_round_div_is_floor_ceil : forall n d, 0 < d ->
  (round_div true n d * d <= n < (round_div true n d + 1) * d) /\
  ((round_div false n d - 1) * d < n <= round_div false n d * d).
Proof. exact round_div_floor_ceil. Qed.
Print Assumptions C30_round_div_is_floor_ceil.

(* the portable path equals the native 128-bit path (both equal the exact value) *)
Theorem C30_fallback_equals_native : forall a b d round_down,
  is_i64 a -> is_i32 b -> 0 < d <= INT32_MAX -> is_i64 (round_div round_down (a * b) d) ->
  div_fallback (mul_fallback a b) d round_down = round_div round_down (a * b) d /\
  div_native (mul_native a b) d round_down = round_div round_down (a * b) d.
Proof. exact div_mul_fallback_eq_native. Qed.
Print Assumptions C30_fallback_equals_native.

(* ---- EvaluateFee<RoundDown>: both code paths, negative fees included -------------------------- *)
Theorem C30_evaluate_fee_exact : forall round_down fee size at_size,
  is_i64 fee -> 0 < size <= INT32_MAX -> 0 <= at_size <= INT32_MAX ->
  is_i64 (round_div round_down (fee * at_size) size) ->
  evaluate_fee round_down fee size at_size = round_div round_down (fee * at_size) size /\
  evaluate_fee_fallback round_down fee size at_size = round_div round_down (fee * at_size) size.
Proof. exact evaluate_fee_both_spec. Qed.
Print Assumptions C30_evaluate_fee_exact.

(* "This is guaranteed to be the case when 0 <= at_size <= this->size" *)
Theorem C30_evaluate_fee_fits : forall round_down fee size at_size,
  is_i64 fee -> 0 < size -> 0 <= at_size <= size -> is_i64 (round_div round_down (fee * at_size) size).
Proof. exact evaluate_fee_fits. Qed.
Print Assumptions C30_evaluate_fee_fits.

(* ---- comparisons ----------------------------------------------------------------------------- *)
(* ByRatio <=> is the comparison of the exact rationals fee/size (positive sizes); with Mul = MulFallback
   it is the same function; for arbitrary (also zero/negative) sizes it is the cross-product comparison *)
Theorem C30_byratio_is_rational_order : forall a b, ff_ok a -> ff_ok b -> 0 < snd a -> 0 < snd b ->
  byratio_cmp a b = Qcompare (fst a # Z.to_pos (snd a)) (fst b # Z.to_pos (snd b)).
Proof. exact byratio_cmp_Q. Qed.
Print Assumptions C30_byratio_is_rational_order.

Theorem C30_byratio_cross_product : forall a b, ff_ok a -> ff_ok b ->
  byratio_cmp a b = (fst a * snd b ?= fst b * snd a) /\
  byratio_cmp_fallback a b = (fst a * snd b ?= fst b * snd a).
Proof. exact byratio_cross_product. Qed.
Print Assumptions C30_byratio_cross_product.

Theorem C30_byratio_operators : forall a b, ff_ok a -> ff_ok b ->
  byratio_eq a b = (fst a * snd b =? fst b * snd a) /\
  byratio_lt a b = (fst a * snd b <? fst b * snd a) /\
  byratio_gt a b = (fst a * snd b >? fst b * snd a) /\
  byratio_le a b = (fst a * snd b <=? fst b * snd a) /\
  byratio_ge a b = (fst a * snd b >=? fst b * snd a).
Proof. exact byratio_ops_spec. Qed.
Print Assumptions C30_byratio_operators.

(* ByRatioNegSize: feerate first, ties broken by LARGER size first *)
Theorem C30_negsize_tiebreak : forall a b, ff_ok a -> ff_ok b -> 0 < snd a -> 0 < snd b ->
  negsize_cmp a b =
    match Qcompare (fst a # Z.to_pos (snd a)) (fst b # Z.to_pos (snd b)) with
    | Eq => snd b ?= snd a
    | c => c
    end.
Proof. exact negsize_cmp_Q. Qed.
Print Assumptions C30_negsize_tiebreak.

(* ... and it is a total order on valid FeeFracs (size > 0, or the empty (0,0)) consistent with
   operator== (same fee and size), with the empty FeeFrac last *)
Theorem C30_negsize_total_order : forall a b c, ff_ok a -> ff_ok b -> ff_ok c ->
  ff_valid a -> ff_valid b -> ff_valid c ->
  (negsize_cmp a b = Eq <-> a = b) /\
  negsize_cmp b a = CompOpp (negsize_cmp a b) /\
  (negsize_cmp a b = Lt -> negsize_cmp b c = Lt -> negsize_cmp a c = Lt) /\
  (0 < snd a -> negsize_cmp a (0, 0) = Lt).
Proof. exact negsize_total_order. Qed.
Print Assumptions C30_negsize_total_order.

(* ---- CFeeRate::GetFee ------------------------------------------------------------------------- *)
(* a non-negative fee rate applied to a size is rounded up to the next satoshi *)
Theorem C30_getfee_rounds_up : forall fee size vbytes,
  0 <= fee <= INT64_MAX -> 0 < size <= INT32_MAX -> 0 <= vbytes <= INT32_MAX ->
  is_i64 (ceil_div (fee * vbytes) size) ->
  let r := get_fee (cfeerate_make fee size) vbytes in
  (r - 1) * size < fee * vbytes <= r * size.
Proof. exact get_fee_nonneg_ceil. Qed.
Print Assumptions C30_getfee_rounds_up.

(* all rates: ceil, except that a negative rate never rounds to 0 for a non-zero size (-1 instead);
   empty rate (size <= 0 at construction) gives 0 *)
Theorem C30_getfee_spec : forall fee size vbytes,
  is_i64 fee -> is_i32 size -> 0 <= vbytes <= INT32_MAX ->
  (0 < size -> is_i64 (ceil_div (fee * vbytes) size)) ->
  get_fee (cfeerate_make fee size) vbytes =
    (if size <=? 0 then 0
     else let c := ceil_div (fee * vbytes) size in
          if (c =? 0) && negb (vbytes =? 0) && (fee <? 0) then -1 else c).
Proof. exact get_fee_spec. Qed.
Print Assumptions C30_getfee_spec.

(* ---- CompareChunks = comparison of the two feerate diagrams ------------------------------------ *)
(* diagram c x : the piecewise-linear function through (0,0) and the cumulative (size, fee) points of c,
   flat to the right of the last point, at rational abscissa x.  diagram_order c0 c1 r says r is the
   pointwise comparison over ALL x >= 0 (greater = nowhere below and somewhere above, ...).
   Precondition: positive chunk sizes, prefix sums in range (chunks_in_range). *)
Theorem C30_compare_chunks_is_diagram_order : forall c0 c1,
  chunks_in_range c0 -> chunks_in_range c1 ->
  exists r, compare_chunks c0 c1 = Some r /\ diagram_order c0 c1 r.
Proof. exact compare_chunks_spec. Qed.
Print Assumptions C30_compare_chunks_is_diagram_order.

(* the four outcomes are mutually exclusive, so the result is determined by the diagrams *)
Theorem C30_diagram_order_unique : forall c0 c1 r r', diagram_order c0 c1 r -> diagram_order c0 c1 r' -> r = r'.
Proof. exact diagram_order_unique. Qed.
Print Assumptions C30_diagram_order_unique.

(* non-vacuity: concrete instances with products beyond 64 bits, negative fees, a tie broken by size,
   and crossing / dominating diagrams *)
Example C30_nonvacuous :
  mul_fallback (-9223372036854775808) (-2147483648) = (4611686018427387904, 0) /\
  mul_fallback 9223372036854775807 2147483647 = (4611686016279904255, 2147483649) /\
  div_fallback (mul_fallback (-7) 3) 2 true = -11 /\ div_fallback (mul_fallback (-7) 3) 2 false = -10 /\
  evaluate_fee true (-8589934593) 2147483647 2147483646 = -8589934589 /\
  evaluate_fee false 8589934591 3 2147483647 = 6148914687657377793 /\
  negsize_cmp (2, 2) (1, 1) = Lt /\ byratio_cmp (2, 2) (1, 1) = Eq /\
  get_fee (cfeerate_make (-1) 1000) 1 = -1 /\ get_fee (cfeerate_make 1 1000) 1 = 1 /\
  compare_chunks [(5, 1); (0, 5)] [(1, 2); (9, 2)] = Some PUnordered /\
  compare_chunks [(4, 2)] [(1, 1); (3, 1)] = Some PGreater.
Proof. vm_compute. repeat split. Qed.

Example C30_nonvacuous_chunks_in_range :
  chunks_in_range [(5, 1); (0, 5)] /\ chunks_in_range [(1, 2); (9, 2)] /\
  chunks_in_range [(-4611686018427387904, 2147483647)] /\ chunks_in_range [(4611686018427387903, 1); (-1, 2147483646)].
Proof. unfold chunks_in_range, within, pt_ok, INT32_MAX. lia. Qed.
