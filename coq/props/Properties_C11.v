(* C11  Script verification flags behave as soft forks.
   Only statements here; each is closed by `exact` of a lemma from proofs/ScriptFlagsLemmas.v / ScriptVerifyLemmas.v.
   has fl i = bit i of the flag set fl; flags_le f g = f is a subset of g; flags_valid = the combinations VerifyScript
   asserts (CLEANSTACK => P2SH and WITNESS, WITNESS => P2SH).  The checker ck (signatures, locktime, sequence) is an
   arbitrary function that does not see the flags; the hash functions and the taproot commitment oracle are arbitrary. *)
From BV Require Import lib.Ints gen.Params_gen model.Script model.ScriptVerify
  proofs.ScriptFlagsLemmas proofs.ScriptVerifyLemmas.
Local Open Scope Z_scope.

(* EvalScript, all 21 flags at once: if f is a subset of g and the evaluation succeeds under g, it succeeds under f
   and ends in the identical state (stack, altstack, counters): a flag only ever adds failure conditions. *)
Theorem C11_evalscript_flags_only_restrict : forall sha256 ripemd160 sha1 ck f g sv script stack w st,
  (forall i, has f i = true -> has g i = true) ->
  eval_script_state sha256 ripemd160 sha1 g ck sv script stack w = Ok st ->
  eval_script_state sha256 ripemd160 sha1 f ck sv script stack w = Ok st.
Proof. intros sha256 ripemd160 sha1 ck f g sv script stack w st Hle. apply eval_script_state_mono. exact Hle. Qed.
Print Assumptions C11_evalscript_flags_only_restrict.

(* per flag: adding the single flag i to any set F cannot turn a failing evaluation into a succeeding one
   (stated for every bit position, so in particular MINIMALDATA, NULLDUMMY, MINIMALIF, NULLFAIL, DISCOURAGE_UPGRADABLE_NOPS,
   CHECKLOCKTIMEVERIFY, CHECKSEQUENCEVERIFY, DERSIG, LOW_S, STRICTENC, WITNESS_PUBKEYTYPE, CONST_SCRIPTCODE,
   DISCOURAGE_UPGRADABLE_PUBKEYTYPE) *)
Theorem C11_evalscript_single_flag : forall sha256 ripemd160 sha1 ck F i sv script stack w st, 0 <= i ->
  eval_script_state sha256 ripemd160 sha1 (Z.lor F (Z.shiftl 1 i)) ck sv script stack w = Ok st ->
  eval_script_state sha256 ripemd160 sha1 F ck sv script stack w = Ok st.
Proof.
  intros sha256 ripemd160 sha1 ck F i sv script stack w st Hi. apply eval_script_state_mono.
  intros j Hj. unfold has in *. rewrite Z.lor_spec, Hj. reflexivity.
Qed.
Print Assumptions C11_evalscript_single_flag.

(* VerifyScript (scriptSig, scriptPubKey, P2SH, witness v0, CLEANSTACK, SIGPUSHONLY, WITNESS_UNEXPECTED ...): for two
   valid flag combinations f subset of g, a spend that verifies under g verifies under f.  This includes taproot
   (annex, key path, script path, leaf versions, the tapscript OP_SUCCESSx pre-scan, DISCOURAGE_OP_SUCCESS /
   DISCOURAGE_UPGRADABLE_TAPROOT_VERSION / DISCOURAGE_UPGRADABLE_PUBKEYTYPE) with the commitment check as the arbitrary
   oracle tap_commit, which does not see the flags.  (Some (Ok tt) = VerifyScript returns true.) *)
Theorem C11_verifyscript_soft_fork : forall sha256 ripemd160 sha1 ck tap_commit f g scriptSig scriptPubKey witness,
  (forall i, has f i = true -> has g i = true) -> flags_valid f = true -> flags_valid g = true ->
  verify_script sha256 ripemd160 sha1 g ck tap_commit scriptSig scriptPubKey witness = Some (Ok tt) ->
  verify_script sha256 ripemd160 sha1 f ck tap_commit scriptSig scriptPubKey witness = Some (Ok tt).
Proof. intros. eapply verify_script_mono; eauto. Qed.
Print Assumptions C11_verifyscript_soft_fork.

(* Flag sets of the compiled tree: STANDARD contains MANDATORY, STANDARD = MANDATORY | STANDARD_NOT_MANDATORY, and
   every value GetBlockScriptFlags returns on any built-in chain (all deployment-height boundaries x all
   script_flag_exceptions, generated from the compiled tree) is a valid combination contained in STANDARD;
   the flags of a block at the tip of mainnet are exactly the MANDATORY flags. *)
Theorem C11_policy_flags_contain_consensus_flags :
  Z.land SCR_MANDATORY_SCRIPT_VERIFY_FLAGS SCR_STANDARD_SCRIPT_VERIFY_FLAGS = SCR_MANDATORY_SCRIPT_VERIFY_FLAGS /\
  Z.lor SCR_MANDATORY_SCRIPT_VERIFY_FLAGS SCR_STANDARD_NOT_MANDATORY_VERIFY_FLAGS = SCR_STANDARD_SCRIPT_VERIFY_FLAGS /\
  (forall bf, In bf SCR_BLOCK_FLAGS_ALL ->
     Z.land bf SCR_STANDARD_SCRIPT_VERIFY_FLAGS = bf /\ (forall i, has bf i = true -> has SCR_STANDARD_SCRIPT_VERIFY_FLAGS i = true) /\
     flags_valid bf = true) /\
  (forall bf, In bf (SCR_BLOCK_FLAGS_main ++ SCR_BLOCK_FLAGS_test ++ SCR_BLOCK_FLAGS_testnet4 ++ SCR_BLOCK_FLAGS_signet ++ SCR_BLOCK_FLAGS_regtest) ->
     In bf SCR_BLOCK_FLAGS_ALL) /\
  flags_valid SCR_STANDARD_SCRIPT_VERIFY_FLAGS = true /\
  SCR_TIP_BLOCK_FLAGS_main = SCR_MANDATORY_SCRIPT_VERIFY_FLAGS.
Proof.
  split; [pose proof standard_contains_mandatory as H; unfold subset_flags in H; apply Z.eqb_eq in H; exact H|].
  split; [exact (proj2 standard_not_mandatory_is_difference)|].
  split.
  { intros bf Hin. destruct (block_flags_le_standard bf Hin) as [Hle Hv].
    pose proof block_flags_subset_standard as H1. rewrite forallb_forall in H1. specialize (H1 _ Hin).
    unfold subset_flags in H1. apply Z.eqb_eq in H1. repeat split; auto. }
  split.
  { intros bf Hin. pose proof (proj1 per_chain_block_flags_listed) as H. rewrite forallb_forall in H. specialize (H _ Hin).
    apply existsb_exists in H. destruct H as (x & Hx & Heq). apply Z.eqb_eq in Heq. subst. exact Hx. }
  split; [exact (proj2 block_flags_valid)|exact (proj2 (proj2 per_chain_block_flags_listed))].
Qed.
Print Assumptions C11_policy_flags_contain_consensus_flags.

(* hence: a spend accepted under the standard (policy) flags also verifies under the consensus flags of any block *)
Theorem C11_policy_accepted_implies_consensus_valid : forall sha256 ripemd160 sha1 ck tap_commit bf scriptSig scriptPubKey witness,
  In bf SCR_BLOCK_FLAGS_ALL ->
  verify_script sha256 ripemd160 sha1 SCR_STANDARD_SCRIPT_VERIFY_FLAGS ck tap_commit scriptSig scriptPubKey witness = Some (Ok tt) ->
  verify_script sha256 ripemd160 sha1 bf ck tap_commit scriptSig scriptPubKey witness = Some (Ok tt).
Proof. exact policy_implies_consensus. Qed.
Print Assumptions C11_policy_accepted_implies_consensus_valid.

(* non-vacuity: a P2SH spend of redeem script "1" with an extra stack item verifies under P2SH but not under
   P2SH+WITNESS+CLEANSTACK (a strict restriction), and {P2SH} is a subset of that set *)
Example C11_nonvacuous :
  let id := fun x : bytes => x in
  let redeem := [81] in
  let spk := [169; 20] ++ repeat 7 20 ++ [135] in       (* HASH160 <20 bytes> EQUAL with a fake hash function below *)
  let h := fun _ : bytes => repeat 7 20 in
  let v fl := verify_script h h h fl (stub_checker 0) (fun _ _ _ => false) [81; 1; 81] spk [] in
  v (Z.shiftl 1 SCR_FLAG_P2SH) = Some (Ok tt) /\
  v (Z.lor (Z.shiftl 1 SCR_FLAG_P2SH) (Z.lor (Z.shiftl 1 SCR_FLAG_WITNESS) (Z.shiftl 1 SCR_FLAG_CLEANSTACK))) = Some (Err SE_CLEANSTACK) /\
  flags_valid (Z.lor (Z.shiftl 1 SCR_FLAG_P2SH) (Z.lor (Z.shiftl 1 SCR_FLAG_WITNESS) (Z.shiftl 1 SCR_FLAG_CLEANSTACK))) = true /\
  In SCR_MANDATORY_SCRIPT_VERIFY_FLAGS SCR_BLOCK_FLAGS_ALL.
Proof. vm_compute. repeat split; auto 30. Qed.
