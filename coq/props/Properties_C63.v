(* C63  Validation notifications describe exactly what happened, in order.

   Full statement (properties.jsonl): "Subscribers to validation events receive block connections and disconnections
   that, applied in order, reproduce the node's actual sequence of tip changes; transactions are reported as added
   to the mempool before they are reported removed. Each reported block and transaction is the one that was actually
   connected, disconnected, added or removed."

   The node side (model/Notify.v) runs an arbitrary script of ActivateBestChain passes (any number of steps, each
   disconnecting any number of blocks and connecting any list of blocks), InvalidateBlock runs and mempool
   operations, emitting the notifications where the C++ emits them.  `ninv` is the node-side state invariant
   (the chain is a path of the block tree without repetition, no pool transaction is confirmed); `sub_of T s` is a
   subscriber that knows the state s; `sub_run tol` feeds it notifications, each CHECKED against what it has
   rebuilt so far (None = rejected). *)
From BV Require Import lib.Ints model.Notify model.NotifySim proofs.NotifyPool proofs.NotifySteps proofs.NotifyConnect proofs.NotifyMain
                       proofs.NotifyExtra proofs.NotifyStruct proofs.NotifyQueue.
Local Open Scope Z_scope.

(* For EVERY script: every notification is accepted by the subscriber -- each BlockDisconnected is for its current tip
   (same block, same predecessor, same transactions as when it was connected), each BlockConnected extends its tip,
   each UpdatedBlockTip names its tip and a fork block on its chain at or above the lowest point reached since the
   previous one, every removal is of a transaction it holds, every addition of one it neither holds nor has seen
   confirmed, every MempoolTransactionsRemovedForBlock is followed by that block's BlockConnected and lists only
   transactions of that block -- and it ends with EXACTLY the node's chain and mempool.  (Any op boundary is the end
   of a shorter script, so this holds at every op boundary.)  tol = true: a TransactionRemovedFromMempool(EXPIRY |
   SIZELIMIT) for a transaction it does not hold is ignored; see the _refuted theorem for why that is needed. *)
Theorem C63_replay_reproduces_chain_and_mempool : forall T ops s s' evs,
  ninv T s -> exec_ops T s ops = Some (s', evs) ->
  exists ss', sub_run true (sub_of T s) evs = Some ss' /\
              ss_chain ss' = annotate T (ns_chain s') /\ ss_pool ss' = ns_pool s' /\ ss_pend ss' = [].
Proof. exact replay_tolerant. Qed.
Print Assumptions C63_replay_reproduces_chain_and_mempool.

(* The same with the strict subscriber (every removal must be of a transaction it holds), for every script in which no
   single-transaction acceptance evicts or expires the very transaction being accepted (nse_op). *)
Theorem C63_replay_strict_without_self_eviction : forall T ops s s' evs,
  ninv T s -> Forall nse_op ops -> exec_ops T s ops = Some (s', evs) ->
  exists ss', sub_run false (sub_of T s) evs = Some ss' /\
              ss_chain ss' = annotate T (ns_chain s') /\ ss_pool ss' = ns_pool s' /\ ss_pend ss' = [].
Proof. exact replay_strict. Qed.
Print Assumptions C63_replay_strict_without_self_eviction.

(* "Reported added before reported removed", for those scripts: a TransactionRemovedFromMempool for t is preceded by a
   TransactionAddedToMempool for t (or t was in the pool the subscriber started from). *)
Theorem C63_added_before_removed : forall T ops s s' evs a t r b,
  ninv T s -> Forall nse_op ops -> exec_ops T s ops = Some (s', evs) ->
  evs = a ++ EvRem t r :: b ->
  In t (ns_pool s) \/ In (EvAdd t) a.
Proof. exact added_before_removed. Qed.
Print Assumptions C63_added_before_removed.

(* ... and that clause is FALSE of the code in general: AcceptSingleTransactionInternal sends
   TransactionAddedToMempool only after LimitMempoolSize and returns "mempool full" before it when the new
   transaction itself was expired (as a descendant of an expired parent) or evicted; the removal IS notified.
   Witness replayed on the node by corpus/fixed cases of props/C63.py (A:p ... R:t:expiry R:p:expiry). *)
Theorem C63_added_before_removed_refuted :
  exists T s ops s' evs t r,
    ninv T s /\ exec_ops T s ops = Some (s', evs) /\
    In (EvRem t r) evs /\ ~ In (EvAdd t) evs /\ ~ In t (ns_pool s) /\
    sub_run false (sub_of T s) evs = None /\ ns_pool s' = [].
Proof. exact added_before_removed_refuted. Qed.
Print Assumptions C63_added_before_removed_refuted.

(* Disconnects of a step precede its connects, and they are the real ones: the block notifications of an
   ActivateBestChainStep are BlockDisconnected for the k blocks it took off the chain, tip first, then BlockConnected
   for the blocks it put on, in connection order; the node's chain afterwards is those blocks on top of the rest. *)
Theorem C63_step_disconnects_then_connects : forall T s st s' ev,
  exec_step T s st = Some (s', ev) ->
  block_events ev = map BD (firstn (length (st_disc st)) (ns_chain s)) ++ map BC (map c_blk (st_conn st))
  /\ ns_chain s' = rev (map c_blk (st_conn st)) ++ skipn (length (st_disc st)) (ns_chain s).
Proof. exact step_block_events. Qed.
Print Assumptions C63_step_disconnects_then_connects.

(* UpdatedBlockTip: at most one per pass of ActivateBestChain, after every other notification of the pass; it names
   the node's tip at that moment and the fork block with the chain the pass started from; sent iff they differ
   (a pass that backs out of a failed reorg and returns to its starting tip sends none). *)
Theorem C63_updated_block_tip_closes_a_pass : forall T s steps s' ev,
  exec_iter T s steps = Some (s', ev) -> steps <> [] ->
  exists body nw f,
    exec_steps T s steps = Some (s', body) /\
    Forall (fun e => forall n g, e <> EvTip n g) body /\
    hd_error (ns_chain s') = Some nw /\ find_fork (ns_chain s') (ns_chain s) = Some f /\
    ev = body ++ (if f =? nw then [] else [EvTip nw f]).
Proof. exact pass_updated_block_tip. Qed.
Print Assumptions C63_updated_block_tip_closes_a_pass.

(* Each reported block is the block: predecessor and transactions in BlockConnected / BlockDisconnected are those of
   the block index entry, and the transactions listed by MempoolTransactionsRemovedForBlock are transactions of that block. *)
Theorem C63_notifications_report_the_blocks_contents : forall T ops s s' evs,
  exec_ops T s ops = Some (s', evs) -> Forall (ev_faithful T) evs.
Proof. exact events_faithful. Qed.
Print Assumptions C63_notifications_report_the_blocks_contents.

(* The queue (SerialTaskRunner): for EVERY interleaving of inserting threads and scheduler service threads, what has been
   delivered, the callback in flight and what is pending are, in this order, exactly what was inserted. *)
Theorem C63_queue_delivers_in_insertion_order : forall l,
  let q := qrun q_init l in q_delivered q ++ q_inflight q ++ q_pending q = inserted l.
Proof. exact fifo_order_preserved. Qed.
Print Assumptions C63_queue_delivers_in_insertion_order.

(* SyncWithValidationInterfaceQueue: once the waiting thread's marker callback has run, everything inserted before it
   has run before it, in order. *)
Theorem C63_sync_marker_flushes_everything_before_it : forall l m a b,
  let q := qrun q_init l in
  inserted l = a ++ m :: b -> ~ In m a -> In m (q_delivered q) -> exists c, q_delivered q = a ++ m :: c.
Proof. exact sync_marker. Qed.
Print Assumptions C63_sync_marker_flushes_everything_before_it.

(* No lost wake-up: whenever a callback is pending and none is running, a MaybeScheduleProcessQueue is still owed, a
   schedule() call is about to happen, or a ProcessQueue is scheduled. *)
Theorem C63_queue_never_loses_a_wakeup : forall l, QW (qrun q_init l).
Proof. exact no_lost_wakeup. Qed.
Print Assumptions C63_queue_never_loses_a_wakeup.

(* Non-vacuity: a script with confirmations, a replacement, a two-deep reorg with a conflict and a re-acceptance that is
   backed out again, and an invalidation satisfies every hypothesis above (25 notifications). *)
Example C63_nonvacuous :
  ninv ex_tree ex_state /\
  exists s' evs, exec_ops ex_tree ex_state ex_ops = Some (s', evs) /\ ns_chain s' = [2; 1; 0] /\ length evs = 25%nat /\ Forall nse_op ex_ops.
Proof. split; [exact ex_inv | exact ex_runs]. Qed.
