(* C13  Validation caches never change a verdict.

   Proved about the models of CuckooCache::cache, CachingTransactionSignatureChecker and
   CheckInputScripts (model/ValCache.v) that the correspondence ties to /repo:
     - no false positives of the cuckoo cache, for every operation sequence / location function /
       epoch state, except the all-zero element of a fresh table (refuted clause, replayed on the
       real cache by the correspondence); the model never indexes outside the table;
     - for every history of CheckInputScripts calls on fresh caches, every verdict equals the
       verdict without caches, under P1 (keys injective, non-zero), P2 (witness hash determines the
       transaction), P3 (the spent outputs are the committed ones);
     - P3 and "flags are part of the key" are necessary (concrete refutations). *)
From Coq Require Import NArith.
From BV Require Import lib.Ints model.ValCache proofs.ValCacheLemmas proofs.ValCacheInst.
Local Open Scope Z_scope.

Theorem C13_cuckoo_no_false_positive :
  forall (locs_of : Z -> list nat) n ops outs c',
  cuckoo_run locs_of (cuckoo_setup n) ops = Some (outs, c') -> answers_sound [] ops outs.
Proof. exact cuckoo_sound. Qed.
Print Assumptions C13_cuckoo_no_false_positive.

Theorem C13_cuckoo_model_stays_in_table :
  forall n ops, 2 <= n < 2 ^ 32 -> cuckoo_run (compute_hashes n) (cuckoo_setup n) ops <> None.
Proof. exact cuckoo_run_total. Qed.
Print Assumptions C13_cuckoo_model_stays_in_table.

Theorem C13_cuckoo_zero_false_positive_refuted :
  fst (cuckoo_contains (compute_hashes 8) (cuckoo_setup 8) 0 false) = true /\
  cuckoo_run (compute_hashes 8) (cuckoo_setup 8) [CContains 0 false; CContains 1 false] = Some ([true; false], cuckoo_setup 8).
Proof. exact fresh_table_contains_zero. Qed.
Print Assumptions C13_cuckoo_zero_false_positive_refuted.

Theorem C13_cuckoo_contains_after_insert :
  forall (locs_of : Z -> list nat), (forall e, length (locs_of e) = 8%nat) ->
  forall c e c', cu_wf c -> (0 < cu_depth (epoch_check c))%nat ->
  (find_equal (cu_table (epoch_check c)) (locs_of e) e <> None \/
   find_collectable (cu_collect (epoch_check c)) (locs_of e) <> None) ->
  cuckoo_insert locs_of c e = Some c' -> fst (cuckoo_contains locs_of c' e false) = true.
Proof. exact insert_then_contains. Qed.
Print Assumptions C13_cuckoo_contains_after_insert.

Theorem C13_cuckoo_erase_is_lazy :
  forall (locs_of : Z -> list nat) c e er,
  fst (cuckoo_contains locs_of (snd (cuckoo_contains locs_of c e true)) e er) = fst (cuckoo_contains locs_of c e true).
Proof. exact erase_is_lazy. Qed.
Print Assumptions C13_cuckoo_erase_is_lazy.

(* the signature cache alone: running any script with the caching checker gives the verdict of the plain checker *)
Theorem C13_sigcache_transparent :
  forall (locs_of : Z -> list nat), (forall e, length (locs_of e) = 8%nat) ->
  forall (oracle : sigquery -> bool) (sigkey : sigquery -> Z),
  (forall q q', sigkey q = sigkey q' -> q = q') -> (forall q, sigkey q <> 0) ->
  forall store rs sc, sig_ok locs_of oracle sigkey sc ->
  exists sc', run_inputs locs_of oracle sigkey store sc rs = Some (forallb (exec_plain oracle) rs, sc') /\ sig_ok locs_of oracle sigkey sc'.
Proof. intros locs_of Hl oracle sigkey Hi Hz store rs sc. apply run_inputs_ok; assumption. Qed.
Print Assumptions C13_sigcache_transparent.

(* both caches, every history *)
Theorem C13_validation_caches_transparent :
  forall (locs_of : Z -> list nat), (forall e, length (locs_of e) = 8%nat) ->
  forall (oracle : sigquery -> bool) (sigkey : sigquery -> Z),
  (forall q q', sigkey q = sigkey q' -> q = q') -> (forall q, sigkey q <> 0) ->
  forall (T F C : Type) (is_coinbase : T -> bool) (wtxid : T -> Z) (exec_key : Z -> F -> Z) (script_runs : T -> F -> C -> list run),
  (forall w fl w' fl', exec_key w fl = exec_key w' fl' -> w = w' /\ fl = fl') -> (forall w fl, exec_key w fl <> 0) ->
  (forall t t', wtxid t = wtxid t' -> t = t') ->
  forall (committed : T -> C) h st,
  vstate_ok locs_of oracle sigkey T F C is_coinbase wtxid exec_key script_runs committed st ->
  Forall (fun c => vc_coins T F C c = committed (vc_tx T F C c)) h ->
  exists st', run_history locs_of oracle sigkey T F C is_coinbase wtxid exec_key script_runs st h =
              Some (map (fun c => real_ok oracle T F C is_coinbase script_runs (vc_tx T F C c) (vc_flags T F C c) (vc_coins T F C c)) h, st') /\
              vstate_ok locs_of oracle sigkey T F C is_coinbase wtxid exec_key script_runs committed st'.
Proof.
  intros locs_of Hl oracle sigkey Hi Hz T F C is_coinbase wtxid exec_key script_runs Hk Hkz Hw committed h st.
  apply run_history_transparent; assumption.
Qed.
Print Assumptions C13_validation_caches_transparent.

(* fresh caches satisfy the invariant the theorem starts from *)
Theorem C13_fresh_caches_ok :
  forall n (oracle : sigquery -> bool) (sigkey : sigquery -> Z)
         (T F C : Type) (is_coinbase : T -> bool) (wtxid : T -> Z) (exec_key : Z -> F -> Z) (script_runs : T -> F -> C -> list run) (committed : T -> C),
  2 <= n < 2 ^ 32 ->
  vstate_ok (compute_hashes n) oracle sigkey T F C is_coinbase wtxid exec_key script_runs committed (mk_vstate (cuckoo_setup n) (cuckoo_setup n)).
Proof. exact fresh_caches_ok. Qed.
Print Assumptions C13_fresh_caches_ok.

Theorem C13_view_consistency_needed_refuted :
  exists outs st',
    run_history w_locs w_oracle w_sigkey Z bool bool (fun _ => false) (fun t => t) wa_key wa_runs w_fresh wa_history = Some (outs, st') /\
    outs <> map (fun c => real_ok w_oracle Z bool bool (fun _ => false) wa_runs (vc_tx _ _ _ c) (vc_flags _ _ _ c) (vc_coins _ _ _ c)) wa_history.
Proof. exact view_consistency_needed_refuted. Qed.
Print Assumptions C13_view_consistency_needed_refuted.

Theorem C13_flags_in_key_needed_refuted :
  exists outs st',
    Forall (fun c => vc_coins Z bool bool c = true) wb_history /\
    run_history w_locs w_oracle w_sigkey Z bool bool (fun _ => false) (fun t => t) wb_key wb_runs w_fresh wb_history = Some (outs, st') /\
    outs <> map (fun c => real_ok w_oracle Z bool bool (fun _ => false) wb_runs (vc_tx _ _ _ c) (vc_flags _ _ _ c) (vc_coins _ _ _ c)) wb_history.
Proof. exact flags_in_key_needed_refuted. Qed.
Print Assumptions C13_flags_in_key_needed_refuted.

(* non-vacuity: the premises hold for a concrete instance (the witness (a) key function is injective and non-zero on
   non-negative witness hashes; here on all of Z for the injectivity part), and a non-trivial history runs *)
Example C13_nonvacuous :
  (forall w fl w' fl', wa_key w fl = wa_key w' fl' -> w = w' /\ fl = fl') /\
  (forall e, length (compute_hashes 2 e) = 8%nat) /\
  vstate_ok (compute_hashes 2) w_oracle w_sigkey Z bool bool (fun _ => false) (fun t => t) wa_key wa_runs (fun _ => true) w_fresh /\
  exists st', run_history w_locs w_oracle w_sigkey Z bool bool (fun _ => false) (fun t => t) wa_key wa_runs w_fresh
                [mk_vcall Z bool bool 5 true true true true false; mk_vcall Z bool bool 5 true true true false false] = Some ([true; true], st').
Proof.
  split; [exact wa_key_inj|]. split; [intros; reflexivity|].
  split; [apply C13_fresh_caches_ok; lia|]. eexists. vm_compute. reflexivity.
Qed.
