(* C22 - the mempool stays consistent and every entry is valid for the next block.
   Statements about model/Mempool.v (the transcription of CTxMemPool's mechanisms, MemPoolAccept's structural checks and
   MaybeUpdateMempoolForReorg; tied to the real node by tie/drivers/mempool_drv.cpp).  U is the set of transactions in
   play; the two Section-style premises are: txids identify transactions within U (the hash premise), nLockTime is a uint32. *)
From BV Require Import lib.Ints gen.Params_gen model.Locks model.Mempool.
From BV Require Import proofs.MempoolBase proofs.MempoolPool proofs.MempoolGraph proofs.MempoolChain proofs.MempoolInv proofs.MempoolBlock
  proofs.MempoolReorg proofs.MempoolDump proofs.MempoolExample.
From BV Require model.Miner.   (* not used here: the family's one extraction (extract/Extract_Mempool.v) also contains the C23 model *)
Local Open Scope Z_scope.

(* Every history of operations - submissions (with replacement, and with the eviction LimitMempoolSize performs),
   test-accepts, reorg steps of any depth (disconnects, connects, resurrection of the disconnected transactions,
   removeForReorg, LimitMempoolSize), clock moves, expiry, trimming, prioritisation - from a state satisfying the invariant
   runs without tripping an assert of the modelled code (assert(!coin.IsSpent()) in the reorg filter, assert(TestLockPointValidity)
   after removeForReorg) and ends in a state satisfying the invariant.  What policy decides
   (the `pol` stages, the `rejected` and `evict` sets) is universally quantified: the operations carry arbitrary answers. *)
Theorem C22_invariant_all_histories :
  forall (U : tx -> Prop),
    (forall t1 t2, U t1 -> U t2 -> t_id t1 = t_id t2 -> t1 = t2) ->
    (forall t, U t -> 0 <= t_locktime t <= 4294967295) ->
  forall ops st, Inv U st -> Forall (op_U U) ops -> exists st', run st ops = Some st' /\ Inv U st'.
Proof. intros U Hinj Hwf ops st. exact (run_Inv U Hinj Hwf ops st). Qed.
Print Assumptions C22_invariant_all_histories.

(* What the invariant says, clause by clause:
   (1) distinct txids; (2) no two entries spend the same outpoint; (3) the spends index (mapNextTx) maps exactly the inputs
   of the entries, each to its spender; (4) every input of every entry is an unspent output of the active chain or an output
   of an entry (no dangling child); (5) no entry is a transaction of the chain; (6) totalTxSize / m_total_fee are the sums
   over the entries (in their machine types); (7) every entry is final for the next block (height + 1, median time past of
   the tip); (8) every coinbase output an entry spends is mature for the next block; (9) every entry's cached LockPoints refer to
   a block of the active chain (what removeForReorg asserts) and are satisfied in the next block (CheckSequenceLocksAtTip). *)
Theorem C22_invariant_clauses :
  forall (U : tx -> Prop) st, Inv U st ->
    let p := s_pool st in let c := s_chain st in
    NoDup (pool_ids p) /\
    (forall e1 e2 o, In e1 (p_entries p) -> In e2 (p_entries p) -> In o (t_ins (e_tx e1)) -> In o (t_ins (e_tx e2)) -> e1 = e2) /\
    (forall o id, next_find (p_next p) o = Some id <-> exists e, In e (p_entries p) /\ e_id e = id /\ In o (t_ins (e_tx e))) /\
    (forall e o, In e (p_entries p) -> In o (t_ins (e_tx e)) ->
       utxo c o <> None \/ exists e', In e' (p_entries p) /\ tx_creates (e_tx e') o = true) /\
    (forall e, In e (p_entries p) -> ~ In (e_id e) (chain_txids c)) /\
    (p_size p = wrapu64 (zsum (map (fun e => t_size (e_tx e)) (p_entries p))) /\
     p_fee p = wrap64 (zsum (map (fun e => t_fee (e_tx e)) (p_entries p)))) /\
    (forall e, In e (p_entries p) -> is_final_tx (to_ltx (e_tx e)) (height c + 1) (mtp_tip c) = true) /\
    (forall e o h, In e (p_entries p) -> In o (t_ins (e_tx e)) -> utxo c o = Some (h, true) -> COINBASE_MATURITY <= height c + 1 - h) /\
    (forall e, In e (p_entries p) -> lock_points_valid c (e_lp e) = true /\ lp_height (e_lp e) < height c + 1 /\ lp_time (e_lp e) < mtp_tip c).
Proof.
  intros U st [Hj [Hf [Hm Hl]]]. pose proof (j_pool _ _ _ _ Hj) as K. simpl.
  split; [exact (ok_ids _ K)|]. split; [intros; eapply no_double_spend; eassumption|].
  split; [intros o id; apply next_find_spends; exact K|].
  split.
  - intros e o He Ho. destruct (j_avail _ _ _ _ Hj e o He Ho) as [A|[A|(t & [] & _)]]; [left; exact A|right; exact A].
  - split; [exact (j_disj _ _ _ _ Hj)|]. split; [split; [exact (ok_size _ K)|exact (ok_fee _ K)]|]. split; [exact Hf|]. split; [exact Hm|].
    intros e He. destruct (Hl e He) as [L1 L2]. split; [exact L1|].
    apply (check_seq_locks_iff _ _ (chain_ok_nonempty _ (j_chain _ _ _ _ Hj))). exact L2.
Qed.
Print Assumptions C22_invariant_clauses.

(* Removal is closed under descendants, and a replacement never leaves the new transaction without a parent: if no ancestor
   of the new transaction is one of the entries it conflicts with (the test behind bad-txns-spends-conflicting-tx), then none
   of its in-pool parents is among the entries the replacement removes (the conflicts and all their descendants). *)
Theorem C22_removal_closed_and_replacement_safe :
  forall p, pool_ok p ->
    (forall seeds x y, In x (descendants p seeds) -> In y (children p x) -> In y (descendants p seeds)) /\
    (forall t q, intersects (ancestors_of_tx p t) (direct_conflicts p t) = false ->
                 In q (parents_tx p t) -> ~ In q (descendants p (direct_conflicts p t))).
Proof.
  intros p K. split.
  - intros seeds x y Hx Hy. exact (desc_closed p seeds K x y Hx Hy).
  - intros t q Hi Hq Hd. destruct (spends_conflict_detected p t _ q K Hq Hd) as (c & Hc & Ha).
    exact (proj1 (intersects_false _ _) Hi c Ha Hc).
Qed.
Print Assumptions C22_removal_closed_and_replacement_safe.

(* The predicate `holds` evaluates on the implementation's dumps: it is sound for the clauses as Props, and the dump of
   every model state satisfying the invariant passes it (totals in the range of their machine types).  The last clause of the
   predicate - every entry BIP68-final for the next block by a FRESH CalculateLockPointsAtTip / CheckSequenceLocksAtTip - is
   checked on every implementation dump but is a premise here (fresh_bip68_ok): the invariant proves the cached LockPoints
   valid and satisfied (clause 9 above), not that they agree with a fresh computation. *)
Theorem C22_dump_predicate :
  (forall d, check_dump d = None -> dump_spec d) /\
  (forall (U : tx -> Prop) st, Inv U st -> totals_in_range (s_pool st) -> fresh_bip68_ok st -> check_dump (dump_of st) = None).
Proof. split; [exact check_dump_sound|exact inv_dump_passes]. Qed.
Print Assumptions C22_dump_predicate.

(* The premises are satisfiable: the initial state of any well-formed chain satisfies the invariant, and a concrete
   history (a coinbase spend with a child, a conflict confirmed in a block, two disconnects of which the second un-matures
   the coinbase spend) runs as stated. *)
Example C22_nonvacuous :
  (forall (U : tx -> Prop) c now expiry, chain_okb c = true -> (forall b t, In b c -> In t (b_txs b) -> U t) ->
     Inv U {| s_chain := c; s_pool := empty_pool; s_now := now; s_expiry := expiry |}) /\
  (forall t1 t2, ex_U t1 -> ex_U t2 -> t_id t1 = t_id t2 -> t1 = t2) /\ Inv ex_U ex_init /\ Forall (op_U ex_U) ex_ops /\
  ids_after 4 = Some [5001; 5002; 5003; 5005] /\ ids_after 5 = Some [5001; 5002] /\
  ids_after 6 = Some [5001; 5002; 5004] /\ ids_after 7 = Some [5004].
Proof.
  split; [exact Inv_init|]. split; [exact ex_U_inj|]. split; [exact ex_init_Inv|]. split; [exact ex_ops_U|exact ex_run].
Qed.
