(* C14  Parallel validation gives the same results as serial validation, without races.

   Full statement (properties.jsonl): "A block's validity verdict, reject reason category and resulting UTXO set do not
   depend on the number of script-check worker threads, the number of prevout-fetch threads, or thread interleaving.
   Parallel prevout fetching returns the same coins as a direct lookup and leaves the base view unchanged. No data race
   occurs."

   Proved here (model/CheckQueue.v): the CCheckQueue protocol as a small-step machine whose atomic steps are the
   critical sections of m_mutex; a schedule is ANY list of enabled actions (exec returns None if an action is not
   enabled), for any number of worker threads n and any batch size bs.  q_returned s lists what each Complete() so far
   returned, with the checks added in that session and the checks that actually ran.
   model/ConcFetch.v: the prevout fetcher (CoinsViewOverlay::StartFetching / ProcessInput / FetchCoinFromBase) in the
   same style.
   NOT proved: that the C++ realises these atomic steps (memory model, data races) and the UTXO set after connection --
   see LEVEL_NOTE of props/C14.py. *)
From Coq Require Import Permutation.
From BV Require Import lib.Ints model.CheckQueue proofs.CheckQueueInv proofs.CheckQueueStep proofs.CheckQueueMain proofs.CheckQueueLive
                       model.ConcFetch proofs.ConcFetchLemmas.
Local Open Scope nat_scope.

(* For EVERY schedule, thread count and batch size: Complete() reports success iff every check added in the session
   passes ... *)
Theorem C14_success_iff_every_check_passes : forall bs V n l s res added evaluated,
  exec bs V (init n) l = Some s -> In (res, added, evaluated) (q_returned s) ->
  (res = None <-> forall c, In c added -> V c = None).
Proof. exact complete_success_iff_all_pass. Qed.
Print Assumptions C14_success_iff_every_check_passes.

(* ... i.e. exactly when serial evaluation in order succeeds ... *)
Theorem C14_verdict_equals_serial_verdict : forall bs V n l s res added evaluated,
  exec bs V (init n) l = Some s -> In (res, added, evaluated) (q_returned s) ->
  (res = None <-> serial V added = None).
Proof. exact complete_agrees_with_serial. Qed.
Print Assumptions C14_verdict_equals_serial_verdict.

(* ... a reported failure is the result of one of the session's failing checks (WHICH one depends on the schedule: the
   serial run reports the first in order, the queue the first to be published) ... *)
Theorem C14_reported_failure_is_a_failing_check : forall bs V n l s res added evaluated,
  exec bs V (init n) l = Some s -> In (res, added, evaluated) (q_returned s) ->
  forall r, res = Some r -> exists c, In c added /\ V c = Some r.
Proof. exact complete_failure_is_some_failing_check. Qed.
Print Assumptions C14_reported_failure_is_a_failing_check.

Theorem C14_serial_failure_is_reported_as_failure : forall bs V n l s res added evaluated,
  exec bs V (init n) l = Some s -> In (res, added, evaluated) (q_returned s) ->
  forall r, serial V added = Some r -> exists r' c, res = Some r' /\ In c added /\ V c = Some r'.
Proof. exact serial_failure_is_reported. Qed.
Print Assumptions C14_serial_failure_is_reported_as_failure.

(* ... Complete() reports success only after every added check has actually been evaluated ... *)
Theorem C14_success_only_after_every_check_ran : forall bs V n l s res added evaluated,
  exec bs V (init n) l = Some s -> In (res, added, evaluated) (q_returned s) ->
  res = None -> forall c, In c added -> In c evaluated.
Proof. exact success_means_everything_ran. Qed.
Print Assumptions C14_success_only_after_every_check_ran.

(* ... a batch is left unevaluated only when a failure is already recorded in m_result ... *)
Theorem C14_checks_skipped_only_after_a_recorded_failure : forall bs V n l s t th cs,
  exec bs V (init n) l = Some s -> get_thread s t = Some th ->
  (t_pc th = PBatch cs false \/ t_pc th = PRet cs false) -> q_result s <> None.
Proof. intros bs V n l s t th cs H. apply (skipped_only_after_failure V). eapply reachable_inv; eauto. Qed.
Print Assumptions C14_checks_skipped_only_after_a_recorded_failure.

(* ... what a thread publishes was produced by its current batch (local_result survives loop iterations in the C++; a
   failure of an earlier block is never published for a later one) ... *)
Theorem C14_published_failure_comes_from_the_current_batch : forall bs V n l s t th cs r,
  exec bs V (init n) l = Some s -> get_thread s t = Some th -> t_pc th = PRet cs true -> t_local th = Some r ->
  exists c, In c cs /\ V c = Some r.
Proof. intros bs V n l s t th cs r H. apply (published_failure_is_fresh V). eapply reachable_inv; eauto. Qed.
Print Assumptions C14_published_failure_comes_from_the_current_batch.

(* ... and when Complete() has returned the queue is as new (nothing queued, nothing held by a thread, nTodo = 0,
   m_result empty), so the next block starts clean. *)
Theorem C14_queue_is_clean_after_complete : forall bs V n l s,
  exec bs V (init n) l = Some s -> q_added s = [] ->
  q_queue s = [] /\ inflight s = [] /\ q_todo s = 0 /\ q_result s = None.
Proof. intros bs V n l s H. apply (returned_queue_is_clean V). eapply reachable_inv; eauto. Qed.
Print Assumptions C14_queue_is_clean_after_complete.

(* Complete() cannot deadlock: while the master is inside it, some thread can always take a step (condition variables
   with real semantics: a sleeping thread needs a notification, a notification without sleeper is lost) ... *)
Theorem C14_complete_never_deadlocks : forall bs V n l s,
  exec bs V (init n) l = Some s -> in_complete s -> exists a s', step bs V s a = Some s'.
Proof. intros bs V n l s H. apply complete_never_deadlocks. eapply reachable_inv; eauto. Qed.
Print Assumptions C14_complete_never_deadlocks.

(* ... and it returns: every step taken while the master is inside decreases the measure mu, so no schedule keeps it
   inside for more than mu steps. *)
Theorem C14_complete_returns_within_mu_steps : forall bs V n l0 s l,
  exec bs V (init n) l0 = Some s -> in_complete s -> all_in_complete bs V s l -> length l <= mu s.
Proof. intros bs V n l0 s l H. apply complete_returns_within_measure. eapply reachable_inv; eauto. Qed.
Print Assumptions C14_complete_returns_within_mu_steps.

(* ---- parallel prevout fetching ---- *)

(* For EVERY schedule of the worker threads and of the validation thread's requests, with any number of workers and any
   request order (in m_inputs order, out of order, for outpoints that are not in m_inputs at all): every value
   FetchCoinFromBase returns is the base view's answer for that outpoint.  The base is only ever asked through the
   const PeekCoin: in the model it is a function, so it is unchanged by construction. *)
Theorem C14_prefetched_coin_is_the_base_coin : forall base inputs n l s o r,
  frun base (finit inputs n) l = Some s -> In (o, r) (f_results s) -> r = base o.
Proof. exact fetch_returns_base_coin. Qed.
Print Assumptions C14_prefetched_coin_is_the_base_coin.

(* Assert(!input.ready.test_and_set()) never fires and no slot is read before its coin was written ... *)
Theorem C14_fetcher_assertions_never_fire : forall base inputs n l s,
  frun base (finit inputs n) l = Some s -> f_bug s = false.
Proof. exact fetch_never_asserts. Qed.
Print Assumptions C14_fetcher_assertions_never_fire.

(* ... because no input is claimed by two workers ... *)
Theorem C14_fetcher_claims_are_exclusive : forall base inputs n l s w1 w2 p1 p2 i,
  frun base (finit inputs n) l = Some s -> nth_error (f_workers s) w1 = Some p1 -> nth_error (f_workers s) w2 = Some p2 ->
  holds_ix p1 i -> holds_ix p2 i -> w1 = w2.
Proof. exact fetch_claims_are_exclusive. Qed.
Print Assumptions C14_fetcher_claims_are_exclusive.

(* ... and the validation thread never waits for ever on a slot: while it waits some step is enabled. *)
Theorem C14_fetcher_wait_makes_progress : forall base inputs n l s i,
  0 < n -> frun base (finit inputs n) l = Some s -> f_main s = MWaiting i -> length (f_workers s) = n ->
  exists a s', fstep base s a = Some s'.
Proof. exact fetch_wait_makes_progress. Qed.
Print Assumptions C14_fetcher_wait_makes_progress.

(* Non-vacuity: two workers, batch size 2, a session of five checks one of which fails; a concrete interleaving of the
   master and both workers (here every check happened to run before the failure was published). *)
Definition exV (c : check) : option R := if Z.eqb c 3 then Some 77%Z else None.
Definition ex_schedule : list act :=
  [AEnter (Some 0); AAdd [1; 2; 3; 4; 5]%Z; ANotifyAll; AWake (Some 0); AEnter None; AEnter (Some 1); ARun (Some 0); ARun None;
   ARun (Some 1); AEnter (Some 1); AEnter (Some 0); AEnter None; ARun (Some 1); AEnter (Some 1); AWake None].
Example C14_nonvacuous :
  exists s, exec 2 exV (init 2) ex_schedule = Some s /\ q_returned s = [(Some 77%Z, [1; 2; 3; 4; 5]%Z, [4; 5; 3; 2; 1]%Z)].
Proof. eexists. split; vm_compute; reflexivity. Qed.
