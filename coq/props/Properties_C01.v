(* C01  No coins are created beyond the block subsidy schedule.
   Only statements here; each is closed by `exact` of a lemma from proofs/Ledger*.v.
   Model (model/Ledger.v): check_tx_inputs = Consensus::CheckTxInputs, connect_block = Chainstate::ConnectBlock
   (CheckBlock's transaction checks via the model of C03, fee accumulation, blockReward = nFees + GetBlockSubsidy
   with the subsidy model of C31, bad-cb-amount), every int64 sum written with wrap64.
   value_in u t = sum of the values the inputs of t have in the view u;  sum_out t = sum of its outputs;
   fees_of u b h = sum over the non-coinbase transactions of b, applied in order from u, of value_in - sum_out;
   total u = sum of the values of the view;  subsidy_sum I n = sum of the subsidies of the heights 1..n. *)
From BV Require Import lib.Ints lib.ChainParams gen.Params_gen model.Amount model.Ledger
  proofs.LedgerMap proofs.LedgerConnect proofs.LedgerValue proofs.LedgerHistory proofs.LedgerProps proofs.LedgerExample.
Local Open Scope Z_scope.

(* Each accepted block's coinbase pays at most the subsidy plus the fees of its other transactions, and the
   total of the view grows by at most the subsidy (by less when fees are left unclaimed; unspendable outputs
   and overwritten coins only lower it further). *)
Theorem C01_coinbase_within_subsidy_plus_fees : forall cf u b h u' undo,
  wf_utxo u -> 0 < cf_interval cf -> 0 < h ->
  connect_block cf u b h = Ok (u', undo) ->
  exists cbt rest, b = cbt :: rest /\
    sum_out cbt <= get_block_subsidy (cf_interval cf) h + fees_of u b h /\
    0 <= fees_of u b h <= MAX_MONEY /\
    total u' <= total u + get_block_subsidy (cf_interval cf) h
                - (get_block_subsidy (cf_interval cf) h + fees_of u b h - sum_out cbt).
Proof. exact connect_block_value. Qed.
Print Assumptions C01_coinbase_within_subsidy_plus_fees.

Theorem C01_total_grows_by_at_most_subsidy : forall cf u b h u' undo,
  wf_utxo u -> 0 < cf_interval cf -> 0 < h ->
  connect_block cf u b h = Ok (u', undo) -> total u' <= total u + get_block_subsidy (cf_interval cf) h.
Proof. exact connect_total. Qed.
Print Assumptions C01_total_grows_by_at_most_subsidy.

(* Every non-coinbase transaction of an accepted block spends at least as much as it creates, measured in the
   view left by the transactions before it; all partial sums of its input values are in [0, MAX_MONEY]; its
   fee is exactly inputs - outputs. *)
Theorem C01_accepted_tx_spends_at_least_what_it_creates : forall cf u b h u' undo pre t post,
  connect_block cf u b h = Ok (u', undo) -> b = pre ++ t :: post -> is_cb t = false ->
  exists u_pre, apply_txs u pre h = Some u_pre /\
    partial_sums_ok 0 (coin_values u_pre (t_in t)) /\
    0 <= sum_out t <= value_in u_pre t /\ value_in u_pre t <= MAX_MONEY /\
    check_tx_inputs u_pre t h = Ok (value_in u_pre t - sum_out t).
Proof. exact accepted_tx_value. Qed.
Print Assumptions C01_accepted_tx_spends_at_least_what_it_creates.

(* The supply invariant: for EVERY history of connects, disconnects and reorganisations from the empty set,
   the total value of the UTXO set at the tip is at most the sum of the subsidies of the active chain. *)
Theorem C01_supply_invariant : forall cf ops,
  cf_bip30 cf = true -> 0 < cf_interval cf ->
  let s := run cf genesis_state ops in
  total (cs_utxo s) <= subsidy_sum (cf_interval cf) (length (cs_chain s)).
Proof. exact supply_invariant. Qed.
Print Assumptions C01_supply_invariant.

(* No 64-bit sum can wrap (the CVE-2010-5139 shape): the sums the code forms are of two amounts that passed
   a MoneyRange test, and what CheckTxInputs returns is the exact difference in unbounded integers. *)
Theorem C01_sums_cannot_wrap : forall a b,
  0 <= a <= MAX_MONEY -> 0 <= b <= MAX_MONEY ->
  wrap64 (a + b) = a + b /\ wrap64 (a - b) = a - b /\ INT64_MIN <= a + b <= INT64_MAX.
Proof. exact sums_cannot_wrap. Qed.
Print Assumptions C01_sums_cannot_wrap.

Theorem C01_fee_is_exact_difference : forall u t h fee,
  is_cb t = false -> check_tx_inputs u t h = Ok fee ->
  fee = value_in u t - sum_out t /\ 0 <= fee <= MAX_MONEY /\ partial_sums_ok 0 (coin_values u (t_in t)).
Proof. exact check_tx_inputs_exact. Qed.
Print Assumptions C01_fee_is_exact_difference.

(* the predicate evaluated on the implementation's dumps *)
Theorem C01_holds_sound : forall interval chain reported,
  holds_C01 interval chain reported = true ->
  (exists a, scan_chain interval [] chain 1 = Some a) /\ total (canon reported) <= subsidy_sum interval (length chain).
Proof. exact holds_C01_sound. Qed.
Print Assumptions C01_holds_sound.

(* non-vacuity: the 102-block chain whose last two blocks spend matured coinbases is accepted, the coinbase of
   block 101 claims exactly subsidy + fee, block 102 leaves its fee unclaimed; paying one satoshi more, or a
   transaction creating more than it spends, is refused. *)
Example C01_nonvacuous :
  0 < cf_interval ex_cf /\ cf_bip30 ex_cf = true /\
  cs_height ex_before_reorg = 102 /\
  total (cs_utxo ex_at_100) = 500000000000 /\
  total (cs_utxo ex_before_reorg) = 509999989500 /\
  subsidy_sum (cf_interval ex_cf) 102 = 510000000000 /\
  fees_of (cs_utxo ex_at_100) ex_A101 101 = 1000 /\
  snd (connect_tip ex_cf ex_at_100 ex_A101) = None /\
  snd (connect_tip ex_cf ex_at_100 ex_overpay) = Some bad_cb_amount /\
  snd (connect_tip ex_cf ex_at_100 ex_inflate) = Some bad_txns_in_belowout.
Proof. vm_compute. repeat split; reflexivity. Qed.
