(* C09  The UTXO set depends only on the active chain, not on the reorg history.
   Only statements here; each is closed by `exact` of a lemma from proofs/Ledger*.v.
   The model (model/Ledger.v): connect_block = Chainstate::ConnectBlock + UpdateCoins (writes the undo
   data), disconnect_block = Chainstate::DisconnectBlock + ApplyTxInUndo, connect_tip / disconnect_tip =
   ConnectTip / DisconnectTip, `run` = any sequence of connects, disconnects and reorganisations.
   cf_bip30 cf = true is "BIP30 is enforced for the blocks in play" (always, outside the two historical
   mainnet blocks and the BIP34 shortcut window). *)
From BV Require Import lib.Ints lib.ChainParams gen.Params_gen model.Amount model.Ledger
  proofs.LedgerMap proofs.LedgerConnect proofs.LedgerHistory proofs.LedgerProps proofs.LedgerExample.
Local Open Scope Z_scope.

(* Disconnecting a block exactly restores the UTXO set that existed before it was connected: equality of
   the maps (canonical representation), hence of every coin's value, height and coinbase flag.  Stated for
   every view that can occur above genesis (sorted, values in range, heights > 0) and every block that does
   not overwrite an unspent output (what BIP30 checks). *)
Theorem C09_disconnect_restores_exactly : forall cf u b h u' undo,
  wf_utxo u -> 0 < h -> bip30_violated u b = false ->
  connect_block cf u b h = Ok (u', undo) ->
  disconnect_block cf u' b undo h = dr_ok u.
Proof. exact disconnect_connect. Qed.
Print Assumptions C09_disconnect_restores_exactly.

(* ... in particular whenever BIP30 is enforced *)
Theorem C09_disconnect_restores_exactly_bip30 : forall cf u b h u' undo,
  cf_bip30 cf = true -> wf_utxo u -> 0 < h ->
  connect_block cf u b h = Ok (u', undo) ->
  disconnect_block cf u' b undo h = dr_ok u.
Proof. exact disconnect_connect_on. Qed.
Print Assumptions C09_disconnect_restores_exactly_bip30.

(* the same one level up: DisconnectTip after ConnectTip gives back the whole chain state (view, chain, undo) *)
Theorem C09_disconnect_tip_after_connect_tip : forall cf s b s',
  cf_bip30 cf = true -> wf_utxo (cs_utxo s) ->
  connect_tip cf s b = (s', None) -> disconnect_tip cf s' = (s, true).
Proof. exact disconnect_tip_connect_tip. Qed.
Print Assumptions C09_disconnect_tip_after_connect_tip.

(* For any history of block connections, disconnections and reorganisations (accepted or refused, in any
   order) from genesis, the state at the tip is the one obtained by connecting the tip's chain from genesis
   in order: same view, same undo data. *)
Theorem C09_history_independent : forall cf ops,
  cf_bip30 cf = true ->
  let s := run cf genesis_state ops in replay cf (chain_blocks s) = Some s.
Proof. exact history_independent. Qed.
Print Assumptions C09_history_independent.

(* hence two histories that end on the same active chain end in the same state *)
Theorem C09_same_chain_same_utxo : forall cf ops1 ops2,
  cf_bip30 cf = true ->
  chain_blocks (run cf genesis_state ops1) = chain_blocks (run cf genesis_state ops2) ->
  run cf genesis_state ops1 = run cf genesis_state ops2.
Proof. exact same_chain_same_view. Qed.
Print Assumptions C09_same_chain_same_utxo.

(* the predicate evaluated on the implementation's dumps is sound: if it accepts a reported (chain, set),
   the set is the replay of the chain *)
Theorem C09_holds_sound : forall cf chain reported,
  holds_C09 cf chain reported = true -> exists s, replay cf chain = Some s /\ cs_utxo s = canon reported.
Proof. exact holds_C09_sound. Qed.
Print Assumptions C09_holds_sound.

(* non-vacuity: 100 coinbase blocks, two blocks spending matured coinbases (create-and-spend across
   blocks, an OP_RETURN output, fees), then a reorganisation of depth 2 onto a 3-block branch that spends
   the same coinbase differently.  The spent coinbase of block 2 is back with its height and flag, branch
   A's outputs are gone, and the state is the replay of the new chain. *)
Example C09_nonvacuous :
  cf_bip30 ex_cf = true /\
  cs_height ex_before_reorg = 102 /\ lookup (cs_utxo ex_before_reorg) (2, 0) = None /\
  lookup (cs_utxo ex_before_reorg) (1001, 1) = Some {| c_value := 1999998500; c_height := 101; c_cb := false |} /\
  cs_height ex_final = 103 /\
  lookup (cs_utxo ex_final) (2, 0) = Some {| c_value := 5000000000; c_height := 2; c_cb := true |} /\
  lookup (cs_utxo ex_final) (1001, 1) = None /\ lookup (cs_utxo ex_final) (1, 0) = None /\
  lookup (cs_utxo ex_final) (1004, 0) = Some {| c_value := 1; c_height := 103; c_cb := false |} /\
  replay ex_cf (chain_blocks ex_final) = Some ex_final /\
  chain_blocks ex_final = ex_base ++ [ex_B101; ex_B102; ex_B103].
Proof. vm_compute. repeat split; reflexivity. Qed.
