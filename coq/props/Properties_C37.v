(* C37  The address manager stays internally consistent and bounded.  (theorems being added) *)
From BV Require Import lib.Ints gen.Params_gen model.AddrMan model.AddrManInst.
Local Open Scope Z_scope.
Theorem C37_placeholder_init_state_empty : s_info init_state = [].
Proof. reflexivity. Qed.
Print Assumptions C37_placeholder_init_state_empty.
