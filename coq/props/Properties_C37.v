(* C37  The address manager stays internally consistent and bounded.

   Model: coq/model/AddrMan.v, an executable transcription of AddrManImpl (src/addrman.cpp) whose state is the C++ data members and whose
   operations take the clock, the insecure_rand draws and the unordered_map iteration order as explicit arguments.  The keyed hashes
   (GetTriedBucket / GetNewBucket / GetBucketPosition) and the CNetAddr predicates are universally quantified functions; the only premise
   about them ([hash_ranges]) is that their values lie inside the table dimensions (they end in "% ADDRMAN_*_BUCKET_COUNT").
   The constants are those of the compiled tree ([real_cfg], gen/Params_gen.v).

   [reachable s]: s is obtained from the empty address manager by any finite sequence of Add (one or many addresses), Good, Attempt,
   Connected, SetServices, ResolveCollisions, SelectTriedCollision, GetAddr with arguments satisfying [op_ok] (positive clock values,
   address timestamps below 2^32, draws in the range asked of randrange, nIdCount below 2^62). *)
From BV Require Import lib.Ints gen.Params_gen model.AddrMan model.AddrManInst proofs.AddrManMaps proofs.AddrManInv proofs.AddrManOps
  proofs.AddrManSteps proofs.AddrManMain proofs.AddrManReal.
Local Open Scope Z_scope.

(* In every reachable state the transcription of AddrManImpl::CheckAddrman() (all of its 21 error conditions) returns 0. *)
Theorem C37_consistency_check_passes_in_every_reachable_state :
  forall tried_bucket new_bucket bucket_pos routable valid network netclass addr_of,
  hash_ranges tried_bucket new_bucket bucket_pos ->
  forall s, reachable tried_bucket new_bucket bucket_pos routable valid network netclass addr_of s -> s_idcount s <= IDLIM ->
  check_addrman real_cfg tried_bucket bucket_pos network s = 0.
Proof. exact real_check. Qed.
Print Assumptions C37_consistency_check_passes_in_every_reachable_state.

(* No assert / Assume of the C++ fires and no operator[] creates a garbage entry: every operation on a reachable state completes
   (the model turns each such event into a [Fail] outcome). *)
Theorem C37_no_assertion_fires_on_any_operation_sequence :
  forall tried_bucket new_bucket bucket_pos routable valid network netclass addr_of,
  hash_ranges tried_bucket new_bucket bucket_pos ->
  forall s o, reachable tried_bucket new_bucket bucket_pos routable valid network netclass addr_of s -> s_idcount s < IDLIM -> op_ok s o ->
  exists s', step tried_bucket new_bucket bucket_pos routable valid network netclass addr_of s o = Ok s'.
Proof. exact real_no_assert. Qed.
Print Assumptions C37_no_assertion_fires_on_any_operation_sequence.

(* Sizes and slots: nNew and nTried are bounded by the number of occupied slots, which is bounded by the table dimensions; vRandom has
   nNew + nTried elements; at most ADDRMAN_SET_TRIED_COLLISION_SIZE collisions are pending; a tried address sits in exactly one tried slot
   (its hash slot) and in no new slot; a new address sits in between 1 and ADDRMAN_NEW_BUCKETS_PER_ADDRESS new slots and in no tried slot. *)
Theorem C37_table_sizes_and_slots_per_address_are_bounded :
  forall tried_bucket new_bucket bucket_pos routable valid network netclass addr_of,
  hash_ranges tried_bucket new_bucket bucket_pos ->
  forall s, reachable tried_bucket new_bucket bucket_pos routable valid network netclass addr_of s ->
    s_nnew s <= zlen (s_new s) /\ zlen (s_new s) <= ADDRMAN_NEW_BUCKET_COUNT_P * ADDRMAN_BUCKET_SIZE_P /\
    s_ntried s <= zlen (s_tried s) /\ zlen (s_tried s) <= ADDRMAN_TRIED_BUCKET_COUNT_P * ADDRMAN_BUCKET_SIZE_P /\
    zlen (s_random s) = s_nnew s + s_ntried s /\ zlen (s_coll s) <= ADDRMAN_SET_TRIED_COLLISION_SIZE_P /\
    (forall id a, zfind id (s_info s) = Some a ->
       if a_tried a then refs id (s_new s) = 0 /\ (forall sl, sfind sl (s_tried s) = Some id <-> sl = tslot tried_bucket bucket_pos (a_key a))
       else 1 <= refs id (s_new s) <= ADDRMAN_NEW_BUCKETS_PER_ADDRESS_P /\ (forall sl, sfind sl (s_tried s) <> Some id)).
Proof. exact real_bounds. Qed.
Print Assumptions C37_table_sizes_and_slots_per_address_are_bounded.

(* The full invariant (maps, vRandom positions, table slots, reference counts, counters per network, pending collisions)
   is preserved by every operation: the induction step behind the three theorems above. *)
Theorem C37_every_operation_preserves_the_invariant :
  forall tried_bucket new_bucket bucket_pos routable valid network netclass addr_of,
  hash_ranges tried_bucket new_bucket bucket_pos ->
  forall s o, full_inv tried_bucket bucket_pos routable network s -> s_idcount s < IDLIM -> op_ok s o ->
  exists s', step tried_bucket new_bucket bucket_pos routable valid network netclass addr_of s o = Ok s' /\
             full_inv tried_bucket bucket_pos routable network s' /\ s_idcount s <= s_idcount s'.
Proof. exact real_step_ok. Qed.
Print Assumptions C37_every_operation_preserves_the_invariant.

(* Good(addr) that returns true moves addr from new to tried (statistics updated, source/nTime/services kept); every other address keeps
   its entry and statistics, except: the previous occupant of the tried slot goes back to new with one reference, and the address that
   held - with its last reference - the new slot this occupant returns to is dropped.  Nothing appears that was not there. *)
Theorem C37_good_moves_the_entry_to_tried_and_loses_nothing_else :
  forall tried_bucket new_bucket bucket_pos routable valid network netclass addr_of,
  hash_ranges tried_bucket new_bucket bucket_pos ->
  forall s k time s',
    reachable tried_bucket new_bucket bucket_pos routable valid network netclass addr_of s -> s_idcount s < IDLIM -> 0 < time ->
    good real_cfg tried_bucket new_bucket bucket_pos network s k true time = Ok (s', true) ->
    (exists id a a', find_addr s k = Some (id, a) /\ a_tried a = false /\ find_addr s' k = Some (id, a') /\ a_tried a' = true /\
                     a_last_success a' = time /\ a_attempts a' = 0 /\ a_src a' = a_src a /\ a_time a' = a_time a /\ a_services a' = a_services a /\
                     sfind (tslot tried_bucket bucket_pos k) (s_tried s') = Some id) /\
    (forall k0 id0 a0, k0 <> k -> find_addr s k0 = Some (id0, a0) ->
       (exists a0', find_addr s' k0 = Some (id0, a0') /\ same_stats a0 a0' /\
                    (sfind (tslot tried_bucket bucket_pos k) (s_tried s) <> Some id0 -> a_tried a0' = a_tried a0 /\ a_ref a0' <= a_ref a0) /\
                    (sfind (tslot tried_bucket bucket_pos k) (s_tried s) = Some id0 -> a_tried a0 = true /\ a_tried a0' = false /\ a_ref a0' = 1))
       \/ (find_addr s' k0 = None /\ a_tried a0 = false /\
           exists idev old, sfind (tslot tried_bucket bucket_pos k) (s_tried s) = Some idev /\ zfind idev (s_info s) = Some old /\ a_tried old = true /\
                            sfind (nslot new_bucket bucket_pos (a_key old) (a_src old)) (s_new s) = Some id0)) /\
    (forall k0, find_addr s k0 = None -> find_addr s' k0 = None).
Proof. intros tb nb bp r v n nc ao HR s k time s'. exact (real_good_effect tb nb bp r v n nc ao HR s k time s'). Qed.
Print Assumptions C37_good_moves_the_entry_to_tried_and_loses_nothing_else.

(* Select: whenever Select_ does not return early (its counters say an eligible entry exists), the table it is going to search at random
   (side = Some true: tried, Some false: new, None: either, by coin) really holds an entry of a requested network - so its search loop
   ends with probability 1 and what it returns is such an entry (the correspondence judges the implementation's answers by this). *)
Theorem C37_select_searches_only_when_an_eligible_entry_exists :
  forall tried_bucket new_bucket bucket_pos routable valid network netclass addr_of,
  hash_ranges tried_bucket new_bucket bucket_pos ->
  forall s new_only nets side, reachable tried_bucket new_bucket bucket_pos routable valid network netclass addr_of s ->
    select_plan s new_only nets = Some side ->
    exists id a, zfind id (s_info s) = Some a /\
      (nets = [] \/ In (network (a_key a)) nets) /\ (new_only = true -> a_tried a = false) /\
      match side with Some true => a_tried a = true | Some false => a_tried a = false | None => True end /\
      (if a_tried a then sfind (tslot tried_bucket bucket_pos (a_key a)) (s_tried s) = Some id else exists sl, sfind sl (s_new s) = Some id).
Proof. exact real_select_sound. Qed.
Print Assumptions C37_select_searches_only_when_an_eligible_entry_exists.

(* Non-vacuity: with toy hash functions under which all addresses collide in one tried slot, a run that adds two addresses, makes
   both Good (the second one becomes a pending collision) and resolves the collision after the test window is reachable, and ends
   with one tried and one new address. *)
Definition toy_tb (k : Z) : Z := 0.
Definition toy_nb (k s : Z) : Z := (k + s) mod 1024.
Definition toy_bp (f : bool) (b k : Z) : Z := if f then k mod 64 else 0.
Definition toy_true (k : Z) : bool := true.
Definition toy_net (k : Z) : Z := 1.
Lemma toy_ranges : hash_ranges toy_tb toy_nb toy_bp.
Proof. unfold hash_ranges, toy_tb, toy_nb, toy_bp, ADDRMAN_NEW_BUCKET_COUNT_P, ADDRMAN_TRIED_BUCKET_COUNT_P, ADDRMAN_BUCKET_SIZE_P.
  split; [|split]; intros; try destruct f; lia. Qed.
Definition toy_step (s : st) (o : op) : st :=
  match step toy_tb toy_nb toy_bp toy_true toy_true toy_net toy_net toy_net s o with Ok s' => s' | Fail _ => s end.
Definition toy_ops : list op :=
  [OAdd 5 1700000000 1 0 0 1700000100 0; OGood 5 1700000200; OAdd 6 1700000000 1 0 0 1700000300 0; OGood 6 1700000400;
   OResolve 1700020000].
Definition toy_final : st := Eval vm_compute in fold_left toy_step toy_ops init_state.
Example C37_nonvacuous :
  reachable toy_tb toy_nb toy_bp toy_true toy_true toy_net toy_net toy_net toy_final /\
  s_ntried toy_final = 1 /\ s_nnew toy_final = 1 /\ s_idcount toy_final = 2 /\
  (exists a, find_addr toy_final 6 = Some (1, a) /\ a_tried a = true) /\ (exists a, find_addr toy_final 5 = Some (0, a) /\ a_tried a = false).
Proof.
  split; [|vm_compute; repeat split; eauto].
  set (s1 := toy_step init_state (OAdd 5 1700000000 1 0 0 1700000100 0)).
  set (s2 := toy_step s1 (OGood 5 1700000200)).
  set (s3 := toy_step s2 (OAdd 6 1700000000 1 0 0 1700000300 0)).
  set (s4 := toy_step s3 (OGood 6 1700000400)).
  change toy_final with (toy_step s4 (OResolve 1700020000)) .
  assert (R1 : reachable toy_tb toy_nb toy_bp toy_true toy_true toy_net toy_net toy_net s1).
  { apply reach_step with (s := init_state) (o := OAdd 5 1700000000 1 0 0 1700000100 0);
      [apply reach_init | reflexivity | simpl; unfold add_args_ok; split; [reflexivity | lia] | vm_compute; reflexivity]. }
  assert (R2 : reachable toy_tb toy_nb toy_bp toy_true toy_true toy_net toy_net toy_net s2).
  { apply reach_step with (s := s1) (o := OGood 5 1700000200); [exact R1 | reflexivity | simpl; lia | vm_compute; reflexivity]. }
  assert (R3 : reachable toy_tb toy_nb toy_bp toy_true toy_true toy_net toy_net toy_net s3).
  { apply reach_step with (s := s2) (o := OAdd 6 1700000000 1 0 0 1700000300 0);
      [exact R2 | reflexivity | simpl; unfold add_args_ok; split; [reflexivity | lia] | vm_compute; reflexivity]. }
  assert (R4 : reachable toy_tb toy_nb toy_bp toy_true toy_true toy_net toy_net toy_net s4).
  { apply reach_step with (s := s3) (o := OGood 6 1700000400); [exact R3 | reflexivity | simpl; lia | vm_compute; reflexivity]. }
  apply reach_step with (s := s4) (o := OResolve 1700020000); [exact R4 | reflexivity | simpl; lia | vm_compute; reflexivity].
Qed.

(* Reload, the Serialize half: for every iteration order of mapInfo, Serialize hits none of its assertions and the file holds exactly
   nNew new and nTried tried entries: every address with its source, nTime (it fits the uint32 used on disk), services, last success
   and attempt count, and nothing else.
   The Unserialize half is NOT yet a theorem (it is carried by the correspondence, which reloads the real AddrMan in about every
   third script and compares every address, its statistics and its table placement before and after).  Full statement:
     forall s order, reachable s -> NoDup order -> (forall id, In id order <-> In id (keys (s_info s))) ->
       exists f s', serialize real_cfg s order = Ok f /\ unserialize real_cfg tb nb bp valid network f true = Ok s' /\
                    s_nnew s' = s_nnew s /\ s_ntried s' = s_ntried s /\
                    (forall k, option_map (fun x => entry_of (snd x)) (find_addr s' k) = option_map (fun x => entry_of (snd x)) (find_addr s k)) /\
                    (the new and tried tables of s' hold the same addresses in the same slots as those of s). *)
Theorem C37_serialize_writes_every_address_with_its_statistics_partial :
  forall tried_bucket new_bucket bucket_pos routable valid network netclass addr_of,
  hash_ranges tried_bucket new_bucket bucket_pos ->
  forall s order, reachable tried_bucket new_bucket bucket_pos routable valid network netclass addr_of s ->
    NoDup order -> (forall id, In id order <-> In id (keys (s_info s))) ->
    exists f, serialize real_cfg s order = Ok f /\ f_nnew f = s_nnew s /\ f_ntried f = s_ntried s /\
      zlen (f_new f) = s_nnew s /\ zlen (f_tried f) = s_ntried s /\
      (forall id a, zfind id (s_info s) = Some a ->
         In (mkSentry (a_key a) (a_src a) (a_time a) (a_services a) (a_last_success a) (a_attempts a)) (if a_tried a then f_tried f else f_new f)) /\
      (forall e, In e (f_new f) \/ In e (f_tried f) -> exists id a, zfind id (s_info s) = Some a /\ e = entry_of a).
Proof. exact real_serialize_ok. Qed.
Print Assumptions C37_serialize_writes_every_address_with_its_statistics_partial.
