(* C10  Signature checks accept exactly valid signatures over the right message.

   What is proved (for ALL transactions, indices, scripts, amounts, hash types), about the models of
   SignatureHash / SignatureHashSchnorr / the encoding rules / the two checkers that the
   correspondence ties to /repo:
     - each of the three signature-hash preimages commits to EXACTLY its "view" of the signing
       context (model/SigHashSpec.v): equal preimages <-> equal views; hence (under collision-freeness
       of SHA-256, premises H_inj / H_len / H_nz / H_one) a context whose view differs is checked
       against a different digest, and every field outside the view is free;
     - the legacy preimage is the TX_NO_WITNESS serialisation of the reference SignatureHashOld's
       modified transaction followed by the hash type; SIGHASH_SINGLE without matching output gives
       the constant 1 (and, when H never returns it, only then);
     - the strict-DER recogniser never reads out of bounds and accepts exactly the DER grammar;
       the STRICTENC and taproot hash-type sets; CheckSignatureEncoding as a conjunction of rules;
     - CheckECDSASignature / CheckSchnorrSignature return true iff the curve oracle accepts the
       signature for the digest of this context and the signature's hash-type byte; a 65-byte
       Schnorr signature with explicit type 0x00 is rejected.
   Not claimed (false in general, see DESIGN.md): that a signature valid for digest d is invalid for
   every other digest - the curve is an oracle here.  The statement's last sentence is proved in the
   form "the check is evaluated on a different digest".
   One clause of the letter is refuted for the faithful model and the real code alike
   (C10_legacy_truncated_push_refuted): the bytes of a truncated trailing push of a legacy
   scriptCode are not committed.  Harmless: such a script can never finish evaluation. *)
From Coq Require Import NArith.
From BV Require Import lib.Ints gen.Params_gen model.SerBase model.SerTx model.SigHash model.SigHashSpec model.SigEnc
                       proofs.SigHashBase proofs.SigHashSegwit proofs.SigHashTaproot proofs.SigHashLegacy
                       proofs.SigEncLemmas proofs.SigHashToyHash.
Local Open Scope Z_scope.

(* ---- legacy ---- *)
Theorem C10_legacy_preimage_is_reference_serialisation :
  forall t nIn ht sc, script_parses sc = true ->
  legacy_preimage t nIn ht sc =
  match legacy_view t nIn ht sc with
  | LvAssert => ShAssert | LvOne => ShOne
  | LvTx txtmp ht' => ShPre (ser_tx false txtmp ++ write_le 4 ht')
  end.
Proof. exact legacy_preimage_of_view. Qed.
Print Assumptions C10_legacy_preimage_is_reference_serialisation.

Theorem C10_legacy_commitment :
  forall t1 n1 ht1 sc1 t2 n2 ht2 sc2,
  tx_wf t1 -> tx_wf t2 -> ht32_ok ht1 -> ht32_ok ht2 ->
  script_parses sc1 = true -> script_parses sc2 = true -> len_ok sc1 -> len_ok sc2 ->
  (legacy_preimage t1 n1 ht1 sc1 = legacy_preimage t2 n2 ht2 sc2
   <-> legacy_view t1 n1 ht1 sc1 = legacy_view t2 n2 ht2 sc2).
Proof. exact legacy_commitment. Qed.
Print Assumptions C10_legacy_commitment.

Theorem C10_legacy_changed_view_changes_digest :
  forall (H : list N -> list N), (forall x y, H x = H y -> x = y) -> (forall x, H x <> one32) ->
  forall t1 n1 ht1 sc1 t2 n2 ht2 sc2 d1 d2,
  tx_wf t1 -> tx_wf t2 -> ht32_ok ht1 -> ht32_ok ht2 ->
  script_parses sc1 = true -> script_parses sc2 = true -> len_ok sc1 -> len_ok sc2 ->
  legacy_view t1 n1 ht1 sc1 <> legacy_view t2 n2 ht2 sc2 ->
  legacy_sighash H t1 n1 ht1 sc1 = Some d1 -> legacy_sighash H t2 n2 ht2 sc2 = Some d2 -> d1 <> d2.
Proof. exact legacy_view_change_changes_digest. Qed.
Print Assumptions C10_legacy_changed_view_changes_digest.

Theorem C10_legacy_script_without_codeseparator_is_committed_verbatim :
  forall sc, script_parses sc = true -> count_codeseparators sc = 0 -> strip_codeseparators sc = sc.
Proof. exact strip_no_codeseparator. Qed.
Print Assumptions C10_legacy_script_without_codeseparator_is_committed_verbatim.

Theorem C10_legacy_single_without_output_is_one :
  forall (H : list N -> list N) t nIn ht sc,
  (nIn < length (tx_vin t))%nat -> Z.land ht 31 = SIGHASH_SINGLE -> (length (tx_vout t) <= nIn)%nat ->
  legacy_sighash H t nIn ht sc = Some one32 /\ le_value one32 = 1 /\ length one32 = 32%nat.
Proof. intros. split; [apply legacy_single_out_of_range; assumption | exact one32_value]. Qed.
Print Assumptions C10_legacy_single_without_output_is_one.

Theorem C10_legacy_one_only_for_single_without_output :
  forall (H : list N -> list N) t nIn ht sc, (forall x, H x <> one32) ->
  legacy_sighash H t nIn ht sc = Some one32 ->
  ht_single ht = true /\ (length (tx_vout t) <= nIn < length (tx_vin t))%nat.
Proof. exact legacy_one_only_single. Qed.
Print Assumptions C10_legacy_one_only_for_single_without_output.

Theorem C10_legacy_truncated_push_refuted :
  exists t nIn ht sc1 sc2,
    tx_wf t /\ sc1 <> sc2 /\ count_codeseparators sc1 = 0 /\ count_codeseparators sc2 = 0 /\
    legacy_preimage t nIn ht sc1 = legacy_preimage t nIn ht sc2 /\
    exists p, legacy_preimage t nIn ht sc1 = ShPre p.
Proof. exact legacy_truncated_push_refuted. Qed.
Print Assumptions C10_legacy_truncated_push_refuted.

(* ---- BIP143 ---- *)
Theorem C10_bip143_commitment :
  forall (H : list N -> list N),
  (forall x, length (H x) = 32%nat) -> (forall x y, H x = H y -> x = y) -> (forall x, H x <> zero32) ->
  forall t1 n1 ht1 sc1 a1 t2 n2 ht2 sc2 a2,
  tx_wf t1 -> tx_wf t2 -> ht32_ok ht1 -> ht32_ok ht2 -> len_ok sc1 -> len_ok sc2 -> amount_ok a1 -> amount_ok a2 ->
  (bip143_preimage H t1 n1 ht1 sc1 a1 = bip143_preimage H t2 n2 ht2 sc2 a2
   <-> bip143_view t1 n1 ht1 sc1 a1 = bip143_view t2 n2 ht2 sc2 a2).
Proof. exact bip143_commitment. Qed.
Print Assumptions C10_bip143_commitment.

Theorem C10_bip143_sighash_all_pins_everything :
  forall (H : list N -> list N),
  (forall x, length (H x) = 32%nat) -> (forall x y, H x = H y -> x = y) -> (forall x, H x <> zero32) ->
  forall t1 n1 ht1 sc1 a1 t2 n2 ht2 sc2 a2 me1 me2,
  tx_wf t1 -> tx_wf t2 -> ht32_ok ht1 -> ht32_ok ht2 -> len_ok sc1 -> len_ok sc2 -> amount_ok a1 -> amount_ok a2 ->
  nth_error (tx_vin t1) n1 = Some me1 -> nth_error (tx_vin t2) n2 = Some me2 ->
  ht_acp ht1 = false -> ht_single ht1 = false -> ht_none ht1 = false ->
  bip143_preimage H t1 n1 ht1 sc1 a1 = bip143_preimage H t2 n2 ht2 sc2 a2 ->
  ht1 = ht2 /\ tx_version t1 = tx_version t2 /\ tx_locktime t1 = tx_locktime t2 /\
  map outpoint_of (tx_vin t1) = map outpoint_of (tx_vin t2) /\ map in_sequence (tx_vin t1) = map in_sequence (tx_vin t2) /\
  outpoint_of me1 = outpoint_of me2 /\ in_sequence me1 = in_sequence me2 /\ sc1 = sc2 /\ a1 = a2 /\
  tx_vout t1 = tx_vout t2.
Proof. exact bip143_all_commits. Qed.
Print Assumptions C10_bip143_sighash_all_pins_everything.

Theorem C10_bip143_anyonecanpay_frees_other_inputs :
  forall (H : list N -> list N),
  (forall x, length (H x) = 32%nat) -> (forall x y, H x = H y -> x = y) -> (forall x, H x <> zero32) ->
  forall t1 n1 t2 n2 ht sc a me,
  tx_wf t1 -> tx_wf t2 -> ht32_ok ht -> len_ok sc -> amount_ok a ->
  ht_acp ht = true -> nth_error (tx_vin t1) n1 = Some me -> nth_error (tx_vin t2) n2 = Some me ->
  tx_version t1 = tx_version t2 -> tx_locktime t1 = tx_locktime t2 -> bip143_out_view t1 n1 ht = bip143_out_view t2 n2 ht ->
  bip143_preimage H t1 n1 ht sc a = bip143_preimage H t2 n2 ht sc a.
Proof. exact bip143_anyonecanpay_frees_other_inputs. Qed.
Print Assumptions C10_bip143_anyonecanpay_frees_other_inputs.

Theorem C10_bip143_changed_view_changes_digest :
  forall (H : list N -> list N),
  (forall x, length (H x) = 32%nat) -> (forall x y, H x = H y -> x = y) -> (forall x, H x <> zero32) ->
  forall t1 n1 ht1 sc1 a1 t2 n2 ht2 sc2 a2 d1 d2,
  tx_wf t1 -> tx_wf t2 -> ht32_ok ht1 -> ht32_ok ht2 -> len_ok sc1 -> len_ok sc2 -> amount_ok a1 -> amount_ok a2 ->
  bip143_view t1 n1 ht1 sc1 a1 <> bip143_view t2 n2 ht2 sc2 a2 ->
  bip143_sighash H t1 n1 ht1 sc1 a1 = Some d1 -> bip143_sighash H t2 n2 ht2 sc2 a2 = Some d2 -> d1 <> d2.
Proof. exact bip143_view_change_changes_digest. Qed.
Print Assumptions C10_bip143_changed_view_changes_digest.

(* ---- BIP341 / BIP342 ---- *)
Theorem C10_taproot_commitment :
  forall (H : list N -> list N), (forall x, length (H x) = 32%nat) -> (forall x y, H x = H y -> x = y) ->
  forall t1 n1 ht1 c1 t2 n2 ht2 c2,
  tx_wf t1 -> tx_wf t2 -> 0 <= ht1 < 256 -> 0 <= ht2 < 256 -> tap_ctx_wf c1 -> tap_ctx_wf c2 ->
  (taproot_preimage H t1 n1 ht1 c1 = taproot_preimage H t2 n2 ht2 c2
   <-> taproot_view t1 n1 ht1 c1 = taproot_view t2 n2 ht2 c2).
Proof. exact taproot_commitment. Qed.
Print Assumptions C10_taproot_commitment.

Theorem C10_taproot_changed_view_changes_digest :
  forall (H : list N -> list N), (forall x, length (H x) = 32%nat) -> (forall x y, H x = H y -> x = y) ->
  forall t1 n1 ht1 c1 t2 n2 ht2 c2 d1 d2,
  tx_wf t1 -> tx_wf t2 -> 0 <= ht1 < 256 -> 0 <= ht2 < 256 -> tap_ctx_wf c1 -> tap_ctx_wf c2 ->
  taproot_view t1 n1 ht1 c1 <> taproot_view t2 n2 ht2 c2 ->
  taproot_sighash H t1 n1 ht1 c1 = ShPre d1 -> taproot_sighash H t2 n2 ht2 c2 = ShPre d2 -> d1 <> d2.
Proof. exact taproot_view_change_changes_digest. Qed.
Print Assumptions C10_taproot_changed_view_changes_digest.

Theorem C10_tapleaf_hash_commits_to_version_and_script :
  forall (H : list N -> list N), (forall x y, H x = H y -> x = y) ->
  forall lv1 s1 lv2 s2, 0 <= lv1 < 256 -> 0 <= lv2 < 256 -> len_ok s1 -> len_ok s2 ->
  tapleaf_hash H lv1 s1 = tapleaf_hash H lv2 s2 -> lv1 = lv2 /\ s1 = s2.
Proof. exact tapleaf_hash_commitment. Qed.
Print Assumptions C10_tapleaf_hash_commits_to_version_and_script.

(* ---- encodings and hash-type sets ---- *)
Theorem C10_der_recogniser_reads_in_bounds : forall sig, is_valid_signature_encoding sig <> None.
Proof. exact sigenc_no_oob. Qed.
Print Assumptions C10_der_recogniser_reads_in_bounds.

Theorem C10_der_recogniser_iff_grammar :
  forall sig, bytes_ok sig -> (is_valid_signature_encoding sig = Some true <-> der_sig_grammar sig).
Proof. exact der_recogniser_iff_grammar. Qed.
Print Assumptions C10_der_recogniser_iff_grammar.

Theorem C10_check_signature_encoding_rules :
  forall (low_s : list N -> bool) flags sig, bytes_ok sig ->
  (check_signature_encoding low_s flags sig = None <->
   sig = [] \/
   ((flag_set flags SH_FLAG_DERSIG || (flag_set flags SH_FLAG_LOW_S || flag_set flags SH_FLAG_STRICTENC) = true -> der_sig_grammar sig) /\
    (flag_set flags SH_FLAG_LOW_S = true -> low_s (drop_last sig) = true) /\
    (flag_set flags SH_FLAG_STRICTENC = true -> is_defined_hashtype_signature sig = true))).
Proof. exact check_signature_encoding_ok. Qed.
Print Assumptions C10_check_signature_encoding_rules.

Theorem C10_strictenc_hashtype_set :
  forall body ht, (ht < 256)%N ->
  (is_defined_hashtype_signature (body ++ [ht]) = true <-> In (Z.of_N ht) [1; 2; 3; 129; 130; 131]).
Proof. exact defined_hashtype_set. Qed.
Print Assumptions C10_strictenc_hashtype_set.

Theorem C10_taproot_hashtype_set :
  forall ht, 0 <= ht < 256 -> (tap_hash_type_valid ht = true <-> In ht [0; 1; 2; 3; 129; 130; 131]).
Proof. exact taproot_hashtype_set. Qed.
Print Assumptions C10_taproot_hashtype_set.

(* ---- the checkers ---- *)
Theorem C10_check_ecdsa_iff_verify :
  forall (H : list N -> list N) (ecdsa_verify : list N -> list N -> list N -> bool) witness_v0 t nIn amount sig pk sc,
  check_ecdsa_signature H ecdsa_verify witness_v0 t nIn amount sig pk sc = ChkTrue <->
  pubkey_is_valid pk = true /\
  exists der ht, sig = der ++ [ht] /\ (witness_v0 = true -> 0 <= amount) /\
    exists d, (if witness_v0 then bip143_sighash H t nIn (Z.of_N ht) sc amount else legacy_sighash H t nIn (Z.of_N ht) sc) = Some d /\
              ecdsa_verify pk d der = true.
Proof. exact check_ecdsa_iff. Qed.
Print Assumptions C10_check_ecdsa_iff_verify.

Theorem C10_check_schnorr_iff_verify :
  forall (H : list N -> list N) (schnorr_verify : list N -> list N -> list N -> bool) t nIn c sig pk,
  check_schnorr_signature H schnorr_verify t nIn c sig pk = ChkTrue <->
  length pk = 32%nat /\
  ((length sig = 64%nat /\ exists d, taproot_sighash H t nIn SIGHASH_DEFAULT c = ShPre d /\ schnorr_verify pk d sig = true) \/
   (exists s64 ht, sig = s64 ++ [ht] /\ length s64 = 64%nat /\ Z.of_N ht <> SIGHASH_DEFAULT /\
      exists d, taproot_sighash H t nIn (Z.of_N ht) c = ShPre d /\ schnorr_verify pk d s64 = true)).
Proof. exact check_schnorr_iff. Qed.
Print Assumptions C10_check_schnorr_iff_verify.

Theorem C10_schnorr_explicit_default_type_rejected :
  forall (H : list N -> list N) (schnorr_verify : list N -> list N -> list N -> bool) t nIn c s64 pk,
  length s64 = 64%nat -> length pk = 32%nat ->
  check_schnorr_signature H schnorr_verify t nIn c (s64 ++ [0%N]) pk = ChkErr E_SCHNORR_SIG_HASHTYPE.
Proof. exact schnorr_explicit_default_rejected. Qed.
Print Assumptions C10_schnorr_explicit_default_type_rejected.

Theorem C10_schnorr_explicit_hashtype_set :
  forall (H : list N -> list N) (schnorr_verify : list N -> list N -> list N -> bool) t nIn c s64 ht pk,
  length s64 = 64%nat -> (ht < 256)%N ->
  check_schnorr_signature H schnorr_verify t nIn c (s64 ++ [ht]) pk = ChkTrue -> In (Z.of_N ht) [1; 2; 3; 129; 130; 131].
Proof. exact schnorr_explicit_hashtype_set. Qed.
Print Assumptions C10_schnorr_explicit_hashtype_set.

(* ---- non-vacuity: the hash premises are jointly satisfiable, and on a concrete well-formed
        transaction all three algorithms produce a preimage ---- *)
Example C10_nonvacuous :
  exists H : list N -> list N,
    (forall x, length (H x) = 32%nat) /\ (forall x y, H x = H y -> x = y) /\
    (forall x, H x <> zero32) /\ (forall x, H x <> one32) /\
    tx_wf refute_tx /\
    (exists p, legacy_preimage refute_tx 0 1 [118%N; 171%N; 172%N] = ShPre p) /\
    (exists p, bip143_preimage H refute_tx 0 131 [81%N] 1000 = ShPre p) /\
    (exists p, taproot_preimage H refute_tx 0 3 (mk_tap_ctx [mk_txout 1000 [81%N]] (Some [80%N]) (Some (repeat 7%N 32, 4294967295))) = ShPre p) /\
    der_sig_grammar [48%N; 6%N; 2%N; 1%N; 1%N; 2%N; 1%N; 1%N; 1%N].
Proof.
  exists toy_hash.
  split; [exact toy_hash_len|]. split; [exact toy_hash_inj|]. split; [exact toy_hash_nz|]. split; [exact toy_hash_not_one|].
  split; [exact refute_tx_wf|].
  split; [eexists; vm_compute; reflexivity|].
  split; [eexists; unfold bip143_preimage; cbn [refute_tx tx_vin nth_error]; reflexivity|].
  split; [eexists; unfold taproot_preimage; cbn; reflexivity|].
  exists [1%N], [1%N], 1%N. repeat split; cbn; try lia; try discriminate.
Qed.
