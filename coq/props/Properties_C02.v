(* C02  An output can be spent at most once and only if it exists.
   Only statements here; each is closed by `exact` of a lemma from proofs/Ledger*.v.
   Model (model/Ledger.v): CheckBlock -> CheckTransaction (duplicate inputs; the model of C03), HaveInputs /
   CheckTxInputs, UpdateCoins -> SpendCoin / AddCoins -> AddCoin (drops unspendable outputs), the BIP30 loop of
   ConnectBlock, ConnectTip's view that is flushed only on success.
   tx_spends t = the outpoints t consumes (none for a coinbase); block_spends b = all of them in block order;
   tx_outpoints t = (t_id t, 0..#outputs-1); apply_txs u pre h = the view after the transactions `pre`.
   Transaction ids are abstract numbers.  The block-level statements assume only that the id determines the
   transaction among the transactions of the block (ids_determine_txs b: collision freeness of the txid hash; a
   block may list the same transaction twice, and is then refused).  The chain-level statement assumes the ids of
   the active chain distinct (collision freeness, and BIP34 for coinbases). *)
From BV Require Import lib.Ints lib.ChainParams gen.Params_gen model.Amount model.Ledger
  proofs.LedgerMap proofs.LedgerConnect proofs.LedgerHistory proofs.LedgerSpend proofs.LedgerChain proofs.LedgerProps proofs.LedgerExample.
From BV Require model.TxCheck.
Local Open Scope Z_scope.

(* only if it exists: every input of an accepted block is in the view as left by the transactions before it *)
Theorem C02_spend_only_existing : forall cf u b h u' undo pre t post,
  connect_block cf u b h = Ok (u', undo) -> b = pre ++ t :: post -> is_cb t = false ->
  exists u_pre, apply_txs u pre h = Some u_pre /\ forall o, In o (tx_spends t) -> in_dom u_pre o.
Proof. exact spend_exists. Qed.
Print Assumptions C02_spend_only_existing.

(* at most once within one transaction (the CVE-2018-17144 shape) *)
Theorem C02_no_double_spend_within_tx : forall cf u b h u' undo t,
  connect_block cf u b h = Ok (u', undo) -> In t b -> NoDup (tx_spends t).
Proof. exact no_double_spend_tx. Qed.
Print Assumptions C02_no_double_spend_within_tx.

(* an accepted block never lists the same transaction twice: the second copy's inputs are gone *)
Theorem C02_accepted_block_has_distinct_txids : forall cf u b h u' undo,
  cf_bip30 cf = true -> sorted u ->
  (forall t t', In t b -> In t' b -> t_id t = t_id t' -> t = t') ->
  connect_block cf u b h = Ok (u', undo) -> NoDup (map t_id b).
Proof. exact accepted_block_distinct_ids_on. Qed.
Print Assumptions C02_accepted_block_has_distinct_txids.

(* at most once within one block *)
Theorem C02_no_double_spend_within_block : forall cf u b h u' undo,
  cf_bip30 cf = true -> sorted u ->
  (forall t t', In t b -> In t' b -> t_id t = t_id t' -> t = t') ->
  connect_block cf u b h = Ok (u', undo) -> NoDup (block_spends b).
Proof. exact no_double_spend_block_inj. Qed.
Print Assumptions C02_no_double_spend_within_block.

(* no spend of an output created by the same or a later transaction of the block *)
Theorem C02_no_forward_spend : forall cf u b h u' undo pre t post,
  cf_bip30 cf = true -> sorted u ->
  (forall t t', In t b -> In t' b -> t_id t = t_id t' -> t = t') ->
  connect_block cf u b h = Ok (u', undo) -> b = pre ++ t :: post ->
  forall o t', In o (tx_spends t) -> In t' (t :: post) -> ~ In o (tx_outpoints t').
Proof. exact no_forward_spend_inj. Qed.
Print Assumptions C02_no_forward_spend.

(* BIP30: with enforcement on, no output index of any transaction of an accepted block names an unspent coin *)
Theorem C02_bip30_no_overwrite : forall cf u b h u' undo t k,
  cf_bip30 cf = true -> connect_block cf u b h = Ok (u', undo) -> In t b -> In k (tx_outpoints t) -> lookup u k = None.
Proof. exact bip30_no_overwrite. Qed.
Print Assumptions C02_bip30_no_overwrite.

(* the new view is (old + created) - spent *)
Theorem C02_view_is_created_minus_spent : forall cf u b h u' undo,
  cf_bip30 cf = true -> sorted u ->
  (forall t t', In t b -> In t' b -> t_id t = t_id t' -> t = t') ->
  connect_block cf u b h = Ok (u', undo) ->
  forall k, lookup u' k = if existsb (oeqb k) (block_spends b) then None
                          else match lookup (block_creates b h) k with Some c => Some c | None => lookup u k end.
Proof. exact view_is_created_minus_spent_inj. Qed.
Print Assumptions C02_view_is_created_minus_spent.

(* unspendable outputs never enter the set: anything new in the view is a spendable output of the block, with
   the block's height and the transaction's coinbase flag *)
Theorem C02_unspendable_never_enters : forall cf u b h u' undo k c,
  sorted u -> connect_block cf u b h = Ok (u', undo) -> lookup u' k = Some c -> lookup u k <> Some c ->
  exists t o, In t b /\ fst k = t_id t /\ In k (tx_outpoints t) /\ In o (t_out t) /\ o_spendable o = true /\
              c = mk_coin o h (is_cb t).
Proof. exact unspendable_never_enters. Qed.
Print Assumptions C02_unspendable_never_enters.

(* a rejected block leaves the UTXO set and the tip unchanged *)
Theorem C02_rejected_block_changes_nothing : forall cf s b s' e, connect_tip cf s b = (s', Some e) -> s' = s.
Proof. exact reject_unchanged. Qed.
Print Assumptions C02_rejected_block_changes_nothing.

(* across blocks, for every history: along the active chain every outpoint is consumed at most once, only
   outpoints that some transaction of the chain created are consumed, and the UTXO set at the tip is exactly
   created minus spent (hspends / hcreates of the flattened chain, heights 1..n). *)
Theorem C02_once_across_chain_for_every_history : forall cf ops,
  cf_bip30 cf = true ->
  let s := run cf genesis_state ops in
  NoDup (map t_id (concat (chain_blocks s))) ->
  let l := chain_htxs (chain_blocks s) 1 in
  NoDup (hspends l) /\
  (forall k, In k (hspends l) -> lookup (hcreates l) k <> None) /\
  (forall k, lookup (cs_utxo s) k = if existsb (oeqb k) (hspends l) then None else lookup (hcreates l) k).
Proof. exact once_across_history. Qed.
Print Assumptions C02_once_across_chain_for_every_history.

(* the same from collision freeness and BIP34 only: if the id determines the transaction among the transactions
   of the active chain and its coinbases are pairwise different, the chain never contains a transaction twice
   (the second copy's inputs are gone), hence the conclusion above. *)
Theorem C02_accepted_chain_has_distinct_txids : forall cf bs s,
  replay cf bs = Some s ->
  (forall t t', In t (concat bs) -> In t' (concat bs) -> t_id t = t_id t' -> t = t') ->
  NoDup (map t_id (filter is_cb (concat bs))) ->
  NoDup (map t_id (concat bs)).
Proof. exact accepted_chain_distinct_ids. Qed.
Print Assumptions C02_accepted_chain_has_distinct_txids.

Theorem C02_once_across_chain_from_collision_freeness : forall cf ops,
  cf_bip30 cf = true ->
  let s := run cf genesis_state ops in
  (forall t t', In t (concat (chain_blocks s)) -> In t' (concat (chain_blocks s)) -> t_id t = t_id t' -> t = t') ->
  NoDup (map t_id (filter is_cb (concat (chain_blocks s)))) ->
  let l := chain_htxs (chain_blocks s) 1 in
  NoDup (hspends l) /\
  (forall k, In k (hspends l) -> lookup (hcreates l) k <> None) /\
  (forall k, lookup (cs_utxo s) k = if existsb (oeqb k) (hspends l) then None else lookup (hcreates l) k).
Proof. exact once_across_history_inj. Qed.
Print Assumptions C02_once_across_chain_from_collision_freeness.

(* the predicate evaluated on the implementation's dumps *)
Theorem C02_holds_sound : forall interval chain reported,
  holds_C02 interval chain reported = true -> scan_chain interval [] chain 1 = Some (canon reported).
Proof. exact holds_C02_sound. Qed.
Print Assumptions C02_holds_sound.

(* non-vacuity: on top of 100 blocks, a block spending a matured coinbase is accepted; the duplicated input,
   two transactions spending the same outpoint, the forward spend, the spend of an OP_RETURN output and the
   premature coinbase spend are each refused with the node's reason and change nothing. *)
Example C02_nonvacuous :
  cf_bip30 ex_cf = true /\
  snd (connect_tip ex_cf ex_at_100 ex_A101) = None /\
  NoDup (map t_id (concat (chain_blocks ex_final))) /\
  connect_tip ex_cf ex_at_100 ex_dup_input = (ex_at_100, Some (r_tx TxCheck.bad_txns_inputs_duplicate)) /\
  connect_tip ex_cf ex_at_100 ex_two_spenders = (ex_at_100, Some bad_txns_inputs_missingorspent) /\
  connect_tip ex_cf ex_at_100 ex_forward = (ex_at_100, Some bad_txns_inputs_missingorspent) /\
  connect_tip ex_cf ex_at_100 ex_spend_burn = (ex_at_100, Some bad_txns_inputs_missingorspent) /\
  connect_tip ex_cf ex_at_100 ex_premature = (ex_at_100, Some bad_txns_premature_spend_of_coinbase) /\
  lookup (cs_utxo ex_before_reorg) (1001, 2) = None.
Proof.
  split; [reflexivity|]. split; [vm_compute; reflexivity|].
  split; [apply nodup_zb_sound; vm_compute; reflexivity|].
  vm_compute. repeat split; reflexivity.
Qed.
