(* C53  Soft-fork deployment states follow BIP9.
   Only statements here; each is closed by `exact` of a lemma from proofs/VersionBitsLemmas.v.
   Model (model/VersionBits.v): vbuild adds blocks (parent, time, version) in any order and shape;
   get_state_for is AbstractThresholdConditionChecker::GetStateFor with its cache as an association
   list; state_after t P prev is the specification: a function of the ancestry of prev only, defined
   by folding the per-period step over the period-boundary blocks below prev. *)
From BV Require Import lib.Ints gen.Params_gen model.VersionBits proofs.VersionBitsLemmas.
Local Open Scope Z_scope.

(* The state does not depend on which blocks were queried before: for every block tree, every
   deployment with a positive period, every sequence of queries (nullptr included) run against one
   cache that starts empty, each answer is the specification's state for that block *)
Theorem C53_query_order_irrelevant : forall blocks P qs l c',
  0 < vp_period P -> run_queries (vbuild blocks) P qs [] = Some (l, c') ->
  map Some l = map (state_after (vbuild blocks) P) qs.
Proof.
  exact (fun blocks P qs l c' Hp H =>
           proj1 (run_queries_sound (vbuild blocks) P (vbuild_wf blocks) Hp qs [] l c' (cache_sound_nil _ _) H)).
Qed.
Print Assumptions C53_query_order_irrelevant.

(* the same, one query at a time, for any cache whose entries agree with the specification (which
   is what every earlier query leaves behind) *)
Theorem C53_cache_transparent : forall blocks P prev c s c', 0 < vp_period P ->
  (forall k st, cache_get c k = Some st -> state_of_key (vbuild blocks) P k = Some st) ->
  get_state_for (vbuild blocks) P prev c = Some (s, c') ->
  state_after (vbuild blocks) P prev = Some s /\
  (forall k st, cache_get c' k = Some st -> state_of_key (vbuild blocks) P k = Some st).
Proof. exact (fun blocks P prev c s c' Hp => get_state_for_sound (vbuild blocks) P prev c s c' (vbuild_wf blocks) Hp). Qed.
Print Assumptions C53_cache_transparent.

(* GetStateFor is total: for every tree, every existing block (or nullptr), every deployment with a
   positive period and ANY cache content, it terminates within the fuel nHeight+2, the
   assert(cache.contains(pindexPrev)) holds and the counting loop never dereferences nullptr *)
Theorem C53_get_state_for_total : forall blocks P prev c, 0 < vp_period P ->
  (match prev with Some b => exists nd, vnode_at (vbuild blocks) b = Some nd | None => True end) ->
  exists s c', get_state_for (vbuild blocks) P prev c = Some (s, c').
Proof. exact (fun blocks P prev c Hp => get_state_for_total (vbuild blocks) P prev c (vbuild_wf blocks) Hp). Qed.
Print Assumptions C53_get_state_for_total.

(* The state is the same for all blocks of a period: if b1 is an ancestor of b2 and the blocks after
   them lie in the same period, their states are equal *)
Theorem C53_same_within_period : forall blocks P b1 n1 b2 n2, 0 < vp_period P ->
  vnode_at (vbuild blocks) b1 = Some n1 -> vnode_at (vbuild blocks) b2 = Some n2 ->
  v_ancestor (vbuild blocks) b2 (vn_height n1) = Some b1 ->
  (vn_height n1 + 1) / vp_period P = (vn_height n2 + 1) / vp_period P ->
  state_after (vbuild blocks) P (Some b1) = state_after (vbuild blocks) P (Some b2).
Proof. exact (fun blocks P b1 n1 b2 n2 Hp => same_within_period (vbuild blocks) P b1 n1 b2 n2 (vbuild_wf blocks) Hp). Qed.
Print Assumptions C53_same_within_period.

(* ALWAYS_ACTIVE / NEVER_ACTIVE deployments; the parent of genesis is DEFINED *)
Theorem C53_special_start_times : forall blocks P prev,
  (vp_start P = BIP9_ALWAYS_ACTIVE -> state_after (vbuild blocks) P prev = Some ACTIVE) /\
  (vp_start P = BIP9_NEVER_ACTIVE -> state_after (vbuild blocks) P prev = Some FAILED) /\
  (vp_start P <> BIP9_ALWAYS_ACTIVE -> vp_start P <> BIP9_NEVER_ACTIVE -> state_after (vbuild blocks) P None = Some DEFINED).
Proof. exact special_cases. Qed.
Print Assumptions C53_special_start_times.

(* The state at a period boundary b (b is the last block of a period) as a function of the state at
   the previous boundary, the median time past of b, the signalling count of b's period and the
   thresholds -- exactly as the code computes it, for arbitrary timestamps: *)
Theorem C53_state_step : forall blocks P b, 0 < vp_period P ->
  state_of_key (vbuild blocks) P (Some b) =
    match v_mtp (vbuild blocks) b with
    | Some m => if m <? vp_start P then Some DEFINED
                else match state_of_key (vbuild blocks) P (prev_boundary (vbuild blocks) P b) with
                     | Some s => transition (vbuild blocks) P s b
                     | None => None
                     end
    | None => None
    end.
Proof. exact (fun blocks P b Hp => state_step (vbuild blocks) P b (vbuild_wf blocks) Hp). Qed.
Print Assumptions C53_state_step.

(* DEFINED exactly until a boundary's median time past reaches the start time *)
Theorem C53_defined_until_start : forall blocks P b s m, 0 < vp_period P ->
  state_of_key (vbuild blocks) P (Some b) = Some s -> v_mtp (vbuild blocks) b = Some m ->
  (s = DEFINED <-> m < vp_start P).
Proof. exact (fun blocks P b s m Hp => defined_iff (vbuild blocks) P b s m (vbuild_wf blocks) Hp). Qed.
Print Assumptions C53_defined_until_start.

(* The BIP9 transitions.  Premise: the median time past does not decrease from the previous boundary
   to this one (true for every chain of accepted headers, since a header's time must exceed the
   median of its 11 predecessors).  Then: DEFINED -> STARTED when the median time reaches the start;
   STARTED -> LOCKED_IN when the period has at least `threshold` signalling blocks (this takes
   precedence), otherwise -> FAILED when the median time reaches the timeout; LOCKED_IN -> ACTIVE
   once the next block's height reaches min_activation_height; ACTIVE and FAILED stay. *)
Theorem C53_bip9_transitions : forall blocks P b s0 m, 0 < vp_period P ->
  mtp_not_decreasing (vbuild blocks) P b ->
  state_of_key (vbuild blocks) P (prev_boundary (vbuild blocks) P b) = Some s0 -> v_mtp (vbuild blocks) b = Some m ->
  match s0 with
  | DEFINED => state_of_key (vbuild blocks) P (Some b) = Some (if m >=? vp_start P then STARTED else DEFINED)
  | STARTED => forall count, count_signals (vbuild blocks) P (Z.to_nat (vp_period P)) (Some b) = Some count ->
               state_of_key (vbuild blocks) P (Some b) =
                 Some (if count >=? vp_threshold P then LOCKED_IN
                       else if m >=? vp_timeout P then FAILED else STARTED)
  | LOCKED_IN => forall nd, vnode_at (vbuild blocks) b = Some nd ->
                 state_of_key (vbuild blocks) P (Some b) =
                   Some (if vn_height nd + 1 >=? vp_min_height P then ACTIVE else LOCKED_IN)
  | ACTIVE => state_of_key (vbuild blocks) P (Some b) = Some ACTIVE
  | FAILED => state_of_key (vbuild blocks) P (Some b) = Some FAILED
  end.
Proof. exact (fun blocks P b s0 m Hp => bip9_clauses (vbuild blocks) P b s0 m (vbuild_wf blocks) Hp). Qed.
Print Assumptions C53_bip9_transitions.

(* ACTIVE and FAILED are never left, over any number of later periods (same premise at each) *)
Theorem C53_terminal_states_absorbing : forall blocks P bs p k s, 0 < vp_period P ->
  (s = ACTIVE \/ s = FAILED) ->
  path_up (vbuild blocks) P (Some p) bs k ->
  (forall b, In b bs -> mtp_not_decreasing (vbuild blocks) P b /\ exists m, v_mtp (vbuild blocks) b = Some m) ->
  state_of_key (vbuild blocks) P (Some p) = Some s -> state_of_key (vbuild blocks) P k = Some s.
Proof. exact (fun blocks P bs p k s Hp => terminal_absorbing (vbuild blocks) P (vbuild_wf blocks) Hp bs p k s). Qed.
Print Assumptions C53_terminal_states_absorbing.

(* GetStateSinceHeightFor (any consistent cache): 0 for the special start times and for DEFINED;
   otherwise the height of the first block of the earliest period in the unbroken run of periods,
   ending at the queried one, that have the queried state *)
Theorem C53_since_height : forall blocks P prev c r c', 0 < vp_period P ->
  (forall k st, cache_get c k = Some st -> state_of_key (vbuild blocks) P k = Some st) ->
  get_state_since_height_for (vbuild blocks) P prev c = Some (r, c') ->
  (forall k st, cache_get c' k = Some st -> state_of_key (vbuild blocks) P k = Some st) /\
  ((vp_start P = BIP9_ALWAYS_ACTIVE \/ vp_start P = BIP9_NEVER_ACTIVE) /\ r = 0 \/
   vp_start P <> BIP9_ALWAYS_ACTIVE /\ vp_start P <> BIP9_NEVER_ACTIVE /\
   exists initial, state_after (vbuild blocks) P prev = Some initial /\
     (initial = DEFINED /\ r = 0 \/
      initial <> DEFINED /\ exists p, align (vbuild blocks) P prev = Some p /\ since_result (vbuild blocks) P p initial r)).
Proof. exact (fun blocks P prev c r c' Hp => since_height_sound (vbuild blocks) P prev c r c' (vbuild_wf blocks) Hp). Qed.
Print Assumptions C53_since_height.

(* GetStateStatisticsFor: elapsed = 1 + nHeight mod period, count = signalling blocks among those,
   possible = (period - threshold, as uint32) >= elapsed - count *)
Theorem C53_statistics : forall blocks P b nd,
  0 < vp_period P < 2 ^ 31 -> 0 <= vp_threshold P < 2 ^ 31 -> vn_height nd < 2 ^ 31 ->
  vnode_at (vbuild blocks) b = Some nd ->
  forall r, get_state_statistics_for (vbuild blocks) P (Some b) = Some r ->
  exists count, count_signals (vbuild blocks) P (Z.to_nat (1 + vn_height nd mod vp_period P)) (Some b) = Some count /\
    r = (vp_period P, vp_threshold P, 1 + vn_height nd mod vp_period P, count,
         wrapu32 (vp_period P - vp_threshold P) >=? 1 + vn_height nd mod vp_period P - count) /\
    0 <= count <= 1 + vn_height nd mod vp_period P.
Proof. exact (fun blocks P b nd => statistics_spec (vbuild blocks) P b nd (vbuild_wf blocks)). Qed.
Print Assumptions C53_statistics.

(* the constants the model uses are the compiled tree's *)
Theorem C53_constants : BIP9_ALWAYS_ACTIVE = -1 /\ BIP9_NEVER_ACTIVE = -2 /\
  VERSIONBITS_TOP_BITS = 0x20000000 /\ VERSIONBITS_TOP_MASK = 0xE0000000 /\ MEDIAN_TIME_SPAN = 11.
Proof. exact vb_constants. Qed.
Print Assumptions C53_constants.

(* non-vacuity: period 2, threshold 2, start 100, timeout 1000; a chain that goes DEFINED, STARTED,
   LOCKED_IN, ACTIVE; and the same chain queried in a different order gives the same answers *)
Definition exP : vb_params := {| vp_start := 100; vp_timeout := 1000; vp_min_height := 0; vp_period := 2; vp_threshold := 2; vp_bit := 1 |}.
Definition ex_chain : list (option nat * Z * Z) :=
  [(None, 10, 0); (Some 0%nat, 20, 0); (Some 1%nat, 150, 0); (Some 2%nat, 160, 0);
   (Some 3%nat, 170, 0x20000002); (Some 4%nat, 180, 0x20000002); (Some 5%nat, 190, 0); (Some 6%nat, 200, 0);
   (Some 7%nat, 210, 0); (Some 8%nat, 220, 0)].
Example C53_nonvacuous :
  map (state_after (vbuild ex_chain) exP) [None; Some 0; Some 1; Some 3; Some 5; Some 7; Some 9]%nat
    = [Some DEFINED; Some DEFINED; Some DEFINED; Some STARTED; Some LOCKED_IN; Some ACTIVE; Some ACTIVE] /\
  option_map fst (run_queries (vbuild ex_chain) exP [Some 9; Some 3; None; Some 5; Some 1]%nat [])
    = Some [ACTIVE; STARTED; DEFINED; LOCKED_IN; DEFINED] /\
  option_map fst (get_state_since_height_for (vbuild ex_chain) exP (Some 9%nat) []) = Some 8.
Proof. vm_compute. repeat split. Qed.

(* what the premise of C53_bip9_transitions excludes: with timestamps that make the median time
   past fall back below the start time (impossible for accepted headers), the code's early exit
   reports DEFINED after ACTIVE *)
Definition ex_chain_back : list (option nat * Z * Z) :=
  ex_chain ++ [(Some 9%nat, 0, 0); (Some 10%nat, 0, 0); (Some 11%nat, 0, 0); (Some 12%nat, 0, 0); (Some 13%nat, 0, 0);
               (Some 14%nat, 0, 0); (Some 15%nat, 0, 0); (Some 16%nat, 0, 0); (Some 17%nat, 0, 0); (Some 18%nat, 0, 0);
               (Some 19%nat, 0, 0)].
Example C53_premise_needed :
  state_after (vbuild ex_chain_back) exP (Some 9%nat) = Some ACTIVE /\
  state_after (vbuild ex_chain_back) exP (Some 19%nat) = Some DEFINED /\
  option_map fst (run_queries (vbuild ex_chain_back) exP [Some 9; Some 19]%nat []) = Some [ACTIVE; DEFINED].
Proof. vm_compute. repeat split. Qed.
