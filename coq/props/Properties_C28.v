(* C28 - test-accept is faithful and side-effect free; policy implies consensus.
   (1), (2): statements about model/Mempool.v's process_transaction (the transcription of AcceptSingleTransactionInternal:
   the test_accept return sits after the script checks and before FinalizeSubpackage / LimitMempoolSize).  They are structural
   facts of the model; that the real code has this structure is what the correspondence checks (test then submit at random
   points of random histories, fingerprint of the mempool before and after).  "No other change in between" is: the same
   state and the same policy answers (pol); the submission may use any eviction set.
   (3): the script half is C11's theorem (proofs/ScriptVerifyLemmas.v), restated for all inputs of a transaction: whatever
   passes VerifyScript under STANDARD_SCRIPT_VERIFY_FLAGS passes it under every flag set GetBlockScriptFlags can return
   (SCR_BLOCK_FLAGS_ALL is regenerated from the compiled tree for every deployment combination of every chain).  The hash
   functions, the signature / locktime checker ck and the taproot commitment oracle tap_commit are arbitrary. *)
From BV Require Import lib.Ints gen.Params_gen model.Locks model.Mempool proofs.MempoolTest.
From BV Require Import model.Script model.ScriptVerify proofs.ScriptVerifyLemmas.
From BV Require model.Miner.   (* not used here: the family's one extraction also contains the C23 model *)
Local Open Scope Z_scope.

(* testing a transaction never changes the mempool (nor anything else of the state) *)
Theorem C28_test_accept_pure : forall st t pol evict, fst (process_transaction true pol evict st t) = st.
Proof. exact test_accept_pure. Qed.
Print Assumptions C28_test_accept_pure.

(* the verdict of a test equals the verdict of the submission, unless the submission ends in "mempool full" (then the test
   said accepted) *)
Theorem C28_test_verdict_is_submit_verdict : forall st t pol evict evict',
  let r_test := snd (process_transaction true pol evict st t) in
  let r_submit := snd (process_transaction false pol evict' st t) in
  r_submit = r_test \/ (r_submit = Rejected R_full /\ exists repl, r_test = Accepted repl).
Proof. exact test_accept_verdict. Qed.
Print Assumptions C28_test_verdict_is_submit_verdict.

(* a transaction all of whose inputs pass the standard script checks passes the consensus script checks of the next
   block, whatever deployments are active for it *)
Theorem C28_policy_implies_consensus : forall sha256 ripemd160 sha1 ck tap_commit (inputs : list (bytes * bytes * list bytes)) bf,
  In bf SCR_BLOCK_FLAGS_ALL ->
  Forall (fun i => verify_script sha256 ripemd160 sha1 SCR_STANDARD_SCRIPT_VERIFY_FLAGS ck tap_commit (fst (fst i)) (snd (fst i)) (snd i) = Some (Ok tt)) inputs ->
  Forall (fun i => verify_script sha256 ripemd160 sha1 bf ck tap_commit (fst (fst i)) (snd (fst i)) (snd i) = Some (Ok tt)) inputs.
Proof.
  intros sha256 ripemd160 sha1 ck tap_commit inputs bf Hbf H. eapply Forall_impl; [|exact H].
  intros i Hi. eapply policy_implies_consensus; eassumption.
Qed.
Print Assumptions C28_policy_implies_consensus.

(* non-vacuity: a test-accept that says accepted, on a non-trivial state *)
Example C28_nonvacuous :
  let t := {| t_id := 7; t_vin := [((1, 0), 4294967295)]; t_nout := 1; t_version := 2; t_locktime := 0; t_script_ok := true; t_fee := 10; t_size := 100 |} in
  let cb h := {| t_id := h; t_vin := []; t_nout := 1; t_version := 1; t_locktime := 0; t_script_ok := true; t_fee := 0; t_size := 0 |} in
  let st := {| s_chain := [ {| b_id := 11; b_time := 20; b_txs := [cb 2] |}; {| b_id := 10; b_time := 10; b_txs := [cb 1] |} ];
               s_pool := empty_pool; s_now := 0; s_expiry := 0 |} in
  snd (process_transaction true None [] st t) = Rejected R_premature /\ In 516 SCR_BLOCK_FLAGS_ALL.
Proof. vm_compute. split; [reflexivity|]. auto 20. Qed.
