(* C07  Headers need real proof of work and the exact required difficulty.
   Only statements here; each is closed by `exact` of a lemma from proofs/PowLemmas.v.
   Models (model/Pow.v): set_compact / get_compact (arith_uint256::SetCompact / GetCompact),
   check_pow (CheckProofOfWorkImpl), calc_next_work (CalculateNextWorkRequired),
   get_next_work_required (GetNextWorkRequired), permitted_transition
   (PermittedDifficultyTransition), accept_header (CheckBlockHeader's PoW test followed by the
   difficulty and time rules of ContextualCheckBlockHeader).  all_chains, MAX_FUTURE_BLOCK_TIME,
   MEDIAN_TIME_SPAN, MAX_TIMEWARP are regenerated from the compiled tree on every run. *)
From BV Require Import lib.Ints lib.ChainParams gen.Params_gen model.Pow proofs.PowLemmas.
From Coq Require Import Sorting.Sorted Sorting.Permutation.
Local Open Scope Z_scope.

(* ---- compact encoding and decoding follow the reference definition ---- *)

(* Decoding: for every 32-bit nBits, with size = nBits / 2^24, mantissa = nBits mod 2^23, sign = bit 23
   and N = mantissa * 256^(size-3) over the unbounded integers (mantissa / 256^(3-size) for size <= 3):
   the 256-bit value is N mod 2^256, the overflow flag says exactly N >= 2^256, the negative flag
   says exactly sign set and N <> 0. *)
Theorem C07_set_compact_reference : forall c, 0 <= c < 2 ^ 32 ->
  cd_value (set_compact c) = compact_magnitude c mod 2 ^ 256 /\
  cd_overflow (set_compact c) = (2 ^ 256 <=? compact_magnitude c) /\
  cd_negative (set_compact c) = compact_sign c && negb (compact_magnitude c =? 0) /\
  holds_set_compact c (cd_value (set_compact c)) (cd_negative (set_compact c)) (cd_overflow (set_compact c)) = true.
Proof. exact C07_set_compact. Qed.
Print Assumptions C07_set_compact_reference.

(* Encoding: for every 256-bit x, GetCompact(x) = mantissa + n * 2^24 where n = mpi_size x and the
   mantissa is x * 256^(3-n) (n <= 3) or x / 256^(n-3); neither assert in GetCompact can fail. *)
Theorem C07_get_compact_reference : forall x, 0 <= x < 2 ^ 256 ->
  get_compact x false =
    (if mpi_size x <=? 3 then x * 256 ^ (3 - mpi_size x) else x / 256 ^ (mpi_size x - 3)) + mpi_size x * 2 ^ 24
  /\ get_compact_asserts x = true.
Proof. exact get_compact_is_spec. Qed.
Print Assumptions C07_get_compact_reference.

(* ... where mpi_size x is the smallest n >= 0 with 2*x < 256^n (the byte length of x with a
   leading zero byte when the top bit would otherwise look like a sign) *)
Theorem C07_mpi_size_is_least : forall x, 0 <= x < 2 ^ 256 ->
  0 <= mpi_size x <= 33 /\ 2 * x < 256 ^ mpi_size x /\ (mpi_size x = 0 \/ 256 ^ (mpi_size x - 1) <= 2 * x).
Proof. exact mpi_size_spec. Qed.
Print Assumptions C07_mpi_size_is_least.

(* get then set: the result is canonical (fits 32 bits, no sign, no overflow), decodes to x with
   the low mpi_size x - 3 bytes cleared (never above x, relative error below 2^-15), and
   re-encoding the decoded value gives the same compact number *)
Theorem C07_compact_roundtrip : forall x, 0 <= x < 2 ^ 256 ->
  let c := get_compact x false in
  0 <= c < 2 ^ 32 /\ cd_negative (set_compact c) = false /\ cd_overflow (set_compact c) = false /\
  cd_value (set_compact c) = x / 256 ^ Z.max 0 (mpi_size x - 3) * 256 ^ Z.max 0 (mpi_size x - 3) /\
  compact_trunc x <= x /\ 32768 * (x - compact_trunc x) <= x /\
  get_compact (cd_value (set_compact c)) false = c.
Proof. exact C07_roundtrip. Qed.
Print Assumptions C07_compact_roundtrip.

Theorem C07_compact_monotone : forall x y, 0 <= x <= y -> y < 2 ^ 256 ->
  cd_value (set_compact (get_compact x false)) <= cd_value (set_compact (get_compact y false)).
Proof. exact C07_monotone. Qed.
Print Assumptions C07_compact_monotone.

(* ---- CheckProofOfWork: accepted iff the target (over the unbounded integers) is positive, not
        negative, not above the chain's powLimit (hence not overflowing) and hash <= target ---- *)
Theorem C07_check_pow_iff : forall c hash bits, In c all_chains -> 0 <= bits < 2 ^ 32 ->
  (check_pow (cp_pow_limit c) hash bits = true <->
   compact_sign bits = false /\ 0 < compact_magnitude bits <= cp_pow_limit c /\ hash <= compact_magnitude bits).
Proof. exact C07_check_pow. Qed.
Print Assumptions C07_check_pow_iff.

(* ---- retargeting ---- *)

(* on every built-in chain that retargets, for every old target up to powLimit and every timespan
   up to 4*nPowTargetTimespan: the multiplier survives the uint32 overload of operator*=, the
   256-bit product does not wrap, and the divisor is not zero *)
Theorem C07_retarget_no_overflow : forall c old ts, In c all_chains -> cp_no_retargeting c = false ->
  0 <= old <= cp_pow_limit c -> 0 <= ts <= cp_target_timespan c * 4 ->
  wrapu32 ts = ts /\ wrap256 (old * ts) = old * ts /\ 0 < wrapu64 (cp_target_timespan c).
Proof. exact C07_no_overflow. Qed.
Print Assumptions C07_retarget_no_overflow.

(* CalculateNextWorkRequired on every built-in chain that retargets, every valid previous nBits
   (the first block's on BIP94 chains) and every pair of block times: the result is the canonical
   encoding of min(old * clamp(t_last - t_first, T/4, 4T) / T, powLimit); its target is at most
   powLimit, at most 4*old, and at least old/4 up to compact precision. *)
Theorem C07_retarget_clamped : forall c last_bits first_bits t_first t_last old,
  In c all_chains -> cp_no_retargeting c = false ->
  let used := if cp_enforce_bip94 c then first_bits else last_bits in
  0 <= used < 2 ^ 32 -> derive_target used (cp_pow_limit c) = Some old ->
  INT64_MIN <= t_last - t_first <= INT64_MAX ->
  exists r, calc_next_work c last_bits first_bits t_first t_last = Some r /\
    r = compact_encode_spec
          (Z.min (old * Z.max (cp_target_timespan c / 4) (Z.min (cp_target_timespan c * 4) (t_last - t_first))
                  / cp_target_timespan c) (cp_pow_limit c)) /\
    compact_sign r = false /\
    compact_magnitude r = compact_trunc (retarget_spec c old (t_last - t_first)) /\
    compact_magnitude r <= cp_pow_limit c /\ compact_magnitude r <= 4 * old /\
    compact_trunc (old / 4) <= compact_magnitude r /\
    holds_retarget c old (t_last - t_first) r = true.
Proof. exact C07_retarget. Qed.
Print Assumptions C07_retarget_clamped.

(* ---- every required difficulty is a permitted transition ---- *)

(* for every built-in chain, every chain of previous headers (tip first) whose nBits are valid for
   the chain and whose times are 32-bit, and every new block time: the nBits that
   GetNextWorkRequired demands for the next block is accepted by PermittedDifficultyTransition
   against the previous block's nBits at the next height *)
Theorem C07_required_is_permitted : forall c last rest block_time r,
  In c all_chains ->
  Forall (fun b => 0 <= b_time b < 2 ^ 32 /\ 0 <= b_bits b < 2 ^ 32 /\
                   exists t, derive_target (b_bits b) (cp_pow_limit c) = Some t) (last :: rest) ->
  get_next_work_required c (last :: rest) block_time = Some r ->
  permitted_transition c (height_of (last :: rest) + 1) (b_bits last) r = Some true.
Proof. exact C07_required_permitted. Qed.
Print Assumptions C07_required_is_permitted.

(* the same for CalculateNextWorkRequired called directly with any first-block time *)
Theorem C07_calculated_is_permitted : forall c h last_bits first_bits t_first t_last old r,
  In c all_chains ->
  0 <= last_bits < 2 ^ 32 -> derive_target last_bits (cp_pow_limit c) = Some old ->
  INT64_MIN <= t_last - t_first <= INT64_MAX ->
  calc_next_work c last_bits first_bits t_first t_last = Some r ->
  cmod h (interval c) = 0 ->
  permitted_transition c h last_bits r = Some true.
Proof. exact C07_calc_permitted. Qed.
Print Assumptions C07_calculated_is_permitted.

(* GetNextWorkRequired is total on such chains: its asserts cannot fire, no division by zero *)
Theorem C07_next_work_total : forall c last rest block_time,
  In c all_chains ->
  Forall (fun b => 0 <= b_time b < 2 ^ 32 /\ 0 <= b_bits b < 2 ^ 32 /\
                   exists t, derive_target (b_bits b) (cp_pow_limit c) = Some t) (last :: rest) ->
  exists r, get_next_work_required c (last :: rest) block_time = Some r.
Proof. exact C07_total. Qed.
Print Assumptions C07_next_work_total.

(* ---- a header is accepted only if ... ---- *)
Theorem C07_header_accepted_only_if : forall c prev_chain h_hash h_time h_bits now,
  In c all_chains -> 0 <= h_bits < 2 ^ 32 ->
  accept_header c prev_chain h_hash h_time h_bits now = HdrOk ->
  (compact_sign h_bits = false /\ 0 < compact_magnitude h_bits <= cp_pow_limit c /\ h_hash <= compact_magnitude h_bits) /\
  get_next_work_required c prev_chain h_time = Some h_bits /\
  (exists mtp, median_time_past prev_chain = Some mtp /\ mtp < h_time) /\
  h_time <= now + MAX_FUTURE_BLOCK_TIME /\
  (cp_enforce_bip94 c = true -> cmod (height_of prev_chain + 1) (interval c) = 0 ->
   exists prev rest, prev_chain = prev :: rest /\ b_time prev - MAX_TIMEWARP <= h_time).
Proof. exact C07_header. Qed.
Print Assumptions C07_header_accepted_only_if.

(* the median is the middle element of the sorted times of the previous (up to) 11 blocks *)
Theorem C07_median_time_past_is_median : forall chain m, median_time_past chain = Some m ->
  exists sorted, Permutation (map b_time (firstn (Z.to_nat MEDIAN_TIME_SPAN) chain)) sorted /\
                 LocallySorted Z.le sorted /\ nth_error sorted (Nat.div (length sorted) 2) = Some m.
Proof. exact median_time_past_spec. Qed.
Print Assumptions C07_median_time_past_is_median.

Theorem C07_time_constants :
  MAX_FUTURE_BLOCK_TIME = 2 * 60 * 60 /\ MEDIAN_TIME_SPAN = 11 /\ MAX_TIMEWARP = 600.
Proof. exact pow_constants. Qed.
Print Assumptions C07_time_constants.

(* non-vacuity: mainnet is in the list; the genesis target is valid; a retarget after exactly two
   weeks keeps it, after one hour divides the target by 4, after three years multiplies it by 4, capped
   at powLimit; the quartered target is a permitted transition, one ulp below it is not, and any
   change off a retarget height is not *)
Example C07_nonvacuous :
  In chain_main all_chains /\
  derive_target 0x1d00ffff (cp_pow_limit chain_main) = Some (0xffff * 256 ^ 26) /\
  calc_next_work chain_main 0x1d00ffff 0 0 1209600 = Some 0x1d00ffff /\
  calc_next_work chain_main 0x1c00ffff 0 0 3600 = Some 0x1b3fffc0 /\
  calc_next_work chain_main 0x1c00ffff 0 0 100000000 = Some 0x1c03fffc /\
  calc_next_work chain_main 0x1d00ffff 0 0 100000000 = Some 0x1d00ffff /\
  permitted_transition chain_main 2016 0x1c00ffff 0x1b3fffc0 = Some true /\
  permitted_transition chain_main 2016 0x1c00ffff 0x1b3fffbf = Some false /\
  permitted_transition chain_main 2017 0x1c00ffff 0x1c00fffe = Some false /\
  check_pow (cp_pow_limit chain_main) (0xffff * 256 ^ 26) 0x1d00ffff = true /\
  check_pow (cp_pow_limit chain_main) (0xffff * 256 ^ 26 + 1) 0x1d00ffff = false /\
  get_compact (cp_pow_limit chain_main) false = 0x1d00ffff.
Proof. vm_compute. repeat split; auto. Qed.
