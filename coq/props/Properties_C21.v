(* C21  Indexes and UTXO statistics agree with recomputation from the active chain.
        The MuHash of a set is independent of insertion order. *)
From Coq Require Import NArith Znumtheory Permutation.
From BV Require Import lib.Ints model.CryptoBase model.MuHash proofs.MuHashArith proofs.MuHashLemmas
  model.Index model.IndexCoinStats model.IndexTx model.IndexFilter model.IndexSim.
Local Open Scope Z_scope.

(* ---------------- MuHash3072 (src/crypto/muhash.cpp) ---------------- *)

(* Num3072::Multiply is multiplication modulo 2^3072 - 1103717 with a canonical result, for every pair of
   3072-bit values (including unreduced ones, as produced by ToNum3072 and by Unserialize). *)
Theorem C21_muhash_multiply_is_modular_product : forall x a,
  num_ok x -> num_ok a -> num_multiply x a = (x * a) mod P3072.
Proof. exact num_multiply_spec. Qed.
Print Assumptions C21_muhash_multiply_is_modular_product.

(* GetInverse / Divide: the result is canonical and is the modular quotient whenever the divisor is
   invertible (the C++ never checks for a zero element; the premise stays in the statement). *)
Theorem C21_muhash_divide_is_modular_quotient : forall x a,
  num_ok x -> num_ok a -> invertible a ->
  0 <= num_divide x a < P3072 /\ (num_divide x a * a) mod P3072 = x mod P3072.
Proof. intros x a Hx Ha Hi. split; [ apply num_divide_range; assumption | apply num_divide_char; assumption ]. Qed.
Print Assumptions C21_muhash_divide_is_modular_quotient.

(* every non-zero residue is invertible if the modulus is prime *)
Theorem C21_muhash_invertible_if_prime : forall a, prime P3072 -> a mod P3072 <> 0 -> invertible a.
Proof. exact prime_invertible. Qed.
Print Assumptions C21_muhash_invertible_if_prime.

(* The MuHash of a set is independent of insertion order: from any well-formed running state, inserting
   the elements of a list or of any permutation of it leaves the object in the very same state, hence
   gives the same finalized hash.  No premise on the elements. *)
Theorem C21_muhash_order_independent : forall l l' s,
  mh_ok s -> Permutation l l' ->
  mh_insert_all l s = mh_insert_all l' s /\ mh_finalize (mh_insert_all l s) = mh_finalize (mh_insert_all l' s).
Proof. intros l l' s Hs Hp. split; [ apply mh_insert_all_perm; assumption | apply muhash_order_independent_state; assumption ]. Qed.
Print Assumptions C21_muhash_order_independent.

(* Insert / Remove in any interleaved order: only the net multiplicity of each element matters
   (the multiset quotient), provided the removed elements are invertible. *)
Theorem C21_muhash_multiset_quotient : forall ops1 ops2,
  (forall d, In d (rem_list ops1 ++ rem_list ops2) -> invertible (mh_to_num3072 d)) ->
  (forall d, mh_net ops1 d = mh_net ops2 d) ->
  mh_finalize (mh_run ops1 mh_empty) = mh_finalize (mh_run ops2 mh_empty).
Proof. exact mh_multiset_quotient. Qed.
Print Assumptions C21_muhash_multiset_quotient.

(* the finalized number of a sequence is (product of inserted) / (product of removed) *)
Theorem C21_muhash_finalize_value : forall ops,
  mh_finalize_num (mh_run ops mh_empty) = (prodl (ins_list ops) * finv (prodl (rem_list ops))) mod P3072.
Proof. exact mh_finalize_num_run. Qed.
Print Assumptions C21_muhash_finalize_value.

(* Remove cancels Insert (in either order) from any state with an invertible denominator. *)
Theorem C21_muhash_remove_cancels_insert : forall s x,
  mh_ok s -> invertible (mh_den s) -> invertible (mh_to_num3072 x) ->
  mh_finalize (mh_remove (mh_insert s x) x) = mh_finalize s /\
  mh_finalize (mh_insert (mh_remove s x) x) = mh_finalize s.
Proof. exact mh_remove_cancels_insert. Qed.
Print Assumptions C21_muhash_remove_cancels_insert.

(* Representation independence: two (numerator, denominator) pairs with the same quotient finalize the same. *)
Theorem C21_muhash_representation_independent : forall s t,
  mh_ok s -> mh_ok t -> invertible (mh_den s) -> invertible (mh_den t) ->
  (mh_num s * mh_den t) mod P3072 = (mh_num t * mh_den s) mod P3072 ->
  mh_finalize s = mh_finalize t.
Proof. intros. apply mh_finalize_of_num. apply mh_finalize_num_quotient; assumption. Qed.
Print Assumptions C21_muhash_representation_independent.

(* operator*= is the union and operator/= the difference of the represented multisets. *)
Theorem C21_muhash_combine : forall ops1 ops2,
  mh_finalize (mh_mul (mh_run ops1 mh_empty) (mh_run ops2 mh_empty)) = mh_finalize (mh_run (ops1 ++ ops2) mh_empty) /\
  mh_finalize (mh_div (mh_run ops1 mh_empty) (mh_run ops2 mh_empty)) = mh_finalize (mh_run (ops1 ++ map mh_op_inv ops2) mh_empty).
Proof. intros. split; [ apply mh_mul_union | apply mh_div_difference ]. Qed.
Print Assumptions C21_muhash_combine.

(* Finalize normalises the object without changing what it represents; the serialized running state reads back. *)
Theorem C21_muhash_finalize_idempotent_and_serialization : forall s,
  mh_ok s -> invertible (mh_den s) ->
  mh_finalize (mh_finalize_state s) = mh_finalize s /\ mh_unserialize (mh_serialize s) = Some s.
Proof. intros s Hs Hi. split; [ apply mh_finalize_idempotent; assumption | apply mh_serialize_roundtrip; assumption ]. Qed.
Print Assumptions C21_muhash_finalize_idempotent_and_serialization.

(* the hypotheses are satisfiable by a concrete non-trivial instance: two real elements, both orders *)
Example C21_nonvacuous_muhash :
  mh_ok mh_empty /\ Permutation [[1%N]; [2%N; 3%N]] [[2%N; 3%N]; [1%N]] /\ invertible 1.
Proof. split; [ exact mh_empty_ok | split; [ apply perm_swap | exact invertible_1 ] ]. Qed.
