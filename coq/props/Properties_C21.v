(* C21  Indexes and UTXO statistics agree with recomputation from the active chain.
        The MuHash of a set is independent of insertion order. *)
From Coq Require Import NArith Znumtheory Permutation.
From BV Require Import lib.Ints model.CryptoBase model.MuHash proofs.MuHashArith proofs.MuHashLemmas proofs.MuHashVal
  model.Index model.IndexCoinStats model.IndexTx model.IndexFilter model.IndexSim
  proofs.IndexCoinStatsOps proofs.IndexCoinStatsHist proofs.IndexCoinStatsUtxo proofs.IndexMain proofs.IndexRefuted proofs.IndexFilterLemmas.
Local Open Scope Z_scope.

(* ---------------- MuHash3072 (src/crypto/muhash.cpp) ---------------- *)

(* Num3072::Multiply is multiplication modulo 2^3072 - 1103717 with a canonical result, for every pair of
   3072-bit values (including unreduced ones, as produced by ToNum3072 and by Unserialize). *)
Theorem C21_muhash_multiply_is_modular_product : forall x a,
  num_ok x -> num_ok a -> num_multiply x a = (x * a) mod P3072.
Proof. exact main_C21_muhash_multiply_is_modular_product. Qed.
Print Assumptions C21_muhash_multiply_is_modular_product.

(* GetInverse / Divide: the result is canonical and is the modular quotient whenever the divisor is
   invertible (the C++ never checks for a zero element; the premise stays in the statement). *)
Theorem C21_muhash_divide_is_modular_quotient : forall x a,
  num_ok x -> num_ok a -> invertible a ->
  0 <= num_divide x a < P3072 /\ (num_divide x a * a) mod P3072 = x mod P3072.
Proof. exact main_C21_muhash_divide_is_modular_quotient. Qed.
Print Assumptions C21_muhash_divide_is_modular_quotient.

(* every non-zero residue is invertible if the modulus is prime *)
Theorem C21_muhash_invertible_if_prime : forall a, prime P3072 -> a mod P3072 <> 0 -> invertible a.
Proof. exact main_C21_muhash_invertible_if_prime. Qed.
Print Assumptions C21_muhash_invertible_if_prime.

(* The MuHash of a set is independent of insertion order: from any well-formed running state, inserting
   the elements of a list or of any permutation of it leaves the object in the very same state, hence
   gives the same finalized hash.  No premise on the elements. *)
Theorem C21_muhash_order_independent : forall l l' s,
  mh_ok s -> Permutation l l' ->
  mh_insert_all l s = mh_insert_all l' s /\ mh_finalize (mh_insert_all l s) = mh_finalize (mh_insert_all l' s).
Proof. exact main_C21_muhash_order_independent. Qed.
Print Assumptions C21_muhash_order_independent.

(* Insert / Remove in any interleaved order: only the net multiplicity of each element matters
   (the multiset quotient), provided the removed elements are invertible. *)
Theorem C21_muhash_multiset_quotient : forall ops1 ops2,
  (forall d, In d (rem_list ops1 ++ rem_list ops2) -> invertible (mh_to_num3072 d)) ->
  (forall d, mh_net ops1 d = mh_net ops2 d) ->
  mh_finalize (mh_run ops1 mh_empty) = mh_finalize (mh_run ops2 mh_empty).
Proof. exact main_C21_muhash_multiset_quotient. Qed.
Print Assumptions C21_muhash_multiset_quotient.

(* the finalized number of a sequence is (product of inserted) / (product of removed) *)
Theorem C21_muhash_finalize_value : forall ops,
  mh_finalize_num (mh_run ops mh_empty) = (prodl (ins_list ops) * finv (prodl (rem_list ops))) mod P3072.
Proof. exact main_C21_muhash_finalize_value. Qed.
Print Assumptions C21_muhash_finalize_value.

(* Remove cancels Insert (in either order) from any state with an invertible denominator. *)
Theorem C21_muhash_remove_cancels_insert : forall s x,
  mh_ok s -> invertible (mh_den s) -> invertible (mh_to_num3072 x) ->
  mh_finalize (mh_remove (mh_insert s x) x) = mh_finalize s /\
  mh_finalize (mh_insert (mh_remove s x) x) = mh_finalize s.
Proof. exact main_C21_muhash_remove_cancels_insert. Qed.
Print Assumptions C21_muhash_remove_cancels_insert.

(* Representation independence: two (numerator, denominator) pairs with the same quotient finalize the same. *)
Theorem C21_muhash_representation_independent : forall s t,
  mh_ok s -> mh_ok t -> invertible (mh_den s) -> invertible (mh_den t) ->
  (mh_num s * mh_den t) mod P3072 = (mh_num t * mh_den s) mod P3072 ->
  mh_finalize s = mh_finalize t.
Proof. exact main_C21_muhash_representation_independent. Qed.
Print Assumptions C21_muhash_representation_independent.

(* operator*= is the union and operator/= the difference of the represented multisets. *)
Theorem C21_muhash_combine : forall ops1 ops2,
  mh_finalize (mh_mul (mh_run ops1 mh_empty) (mh_run ops2 mh_empty)) = mh_finalize (mh_run (ops1 ++ ops2) mh_empty) /\
  mh_finalize (mh_div (mh_run ops1 mh_empty) (mh_run ops2 mh_empty)) = mh_finalize (mh_run (ops1 ++ map mh_op_inv ops2) mh_empty).
Proof. exact main_C21_muhash_combine. Qed.
Print Assumptions C21_muhash_combine.

(* Finalize normalises the object without changing what it represents; the serialized running state reads back. *)
Theorem C21_muhash_finalize_idempotent_and_serialization : forall s,
  mh_ok s -> invertible (mh_den s) ->
  mh_finalize (mh_finalize_state s) = mh_finalize s /\ mh_unserialize (mh_serialize s) = Some s.
Proof. exact main_C21_muhash_finalize_idempotent_and_serialization. Qed.
Print Assumptions C21_muhash_finalize_idempotent_and_serialization.

(* ---------------- CoinStatsIndex (src/index/coinstatsindex.cpp, src/kernel/coinstats.cpp) ---------------- *)

(* A history is any sequence of CustomAppend (a block connected on top of the index's chain) and
   CustomRemove (the top block disconnected by BaseIndex::Rewind; a reorg is some Pops followed by Pushes).
   It is admissible (hist_ok) when each connected block extends the chain (height = length, prev = hash of
   the top), its coin elements are invertible in the MuHash group, the from-genesis recomputation of the
   chain is itself defined (its `assert(unclaimed_rewards <= INT64_MAX)` holds) and genesis is never disconnected.

   CustomRemove after CustomAppend of the same block restores every member exactly (counters, current
   block hash, and the MuHash object in its finalized representation) and keeps the height index. *)
Theorem C21_coinstats_append_remove_inverse : forall i x c b x1,
  cs_inv i x c -> chain_wf (c ++ [b]) -> c <> [] -> cs_append i x b = Ok x1 ->
  (exists y', cs_replay i (c ++ [b]) = Ok y') ->
  exists x2, cs_remove x1 b = Ok x2 /\ core x2 = core x /\ cs_dbh x2 = cs_dbh x1.
Proof. exact main_C21_coinstats_append_remove_inverse. Qed.
Print Assumptions C21_coinstats_append_remove_inverse.

(* After ANY admissible history from the empty index: no step fails (no `return false`, no assert), the
   members equal those of a replay of the current chain from genesis, and the height index holds the
   replay's entry for every block of the chain (cs_inv). *)
Theorem C21_coinstats_state_is_replay_of_active_chain : forall i steps,
  hist_ok i [] steps ->
  exists x c, run_hist i cs_init [] steps = Ok (x, c) /\ cs_inv i x c /\ chain_wf c.
Proof. exact main_C21_coinstats_state_is_replay_of_active_chain. Qed.
Print Assumptions C21_coinstats_state_is_replay_of_active_chain.

(* index_eq_recompute: after ANY admissible history, LookUpStats of every block of the current chain
   answers, and the answer agrees with ComputeUTXOStats(MUHASH) from scratch over the UTXO set of the chain
   up to that block: same MuHash digest, same output count, same bogo size, same total amount (when the
   from-scratch CheckedAdd does not overflow) — for every chain whose ledger is valid (every spent coin is in
   the set with the recorded undo data, no outpoint created twice: utxo_of_chain = Some). *)
Theorem C21_index_eq_recompute : forall i steps x c k b u,
  hist_ok i [] steps -> run_hist i cs_init [] steps = Ok (x, c) ->
  nth_error c k = Some b -> utxo_of_chain (firstn (S k) c) = Some u ->
  exists e, cs_lookup x (b_hash b) (b_height b) = Some e /\ stats_agree e (compute_utxo_stats u) = true.
Proof. exact main_C21_index_eq_recompute. Qed.
Print Assumptions C21_index_eq_recompute.

(* the replay itself against the from-scratch statistics (the linear case, any chain) *)
Theorem C21_replay_eq_scratch : forall i c y u,
  (forall b, In b c -> ops_invertible (block_ops b)) ->
  cs_replay i c = Ok y -> utxo_of_chain c = Some u ->
  stats_agree (entry_of y) (compute_utxo_stats u) = true.
Proof. exact main_C21_replay_eq_scratch. Qed.
Print Assumptions C21_replay_eq_scratch.

(* ---------------- BlockFilterIndex (src/index/blockfilterindex.cpp) ---------------- *)

(* After ANY history of CustomAppend / CustomRemove that follows a block tree (each connected block has
   height = length of the chain and prev = hash of the top; genesis is never disconnected), LookupFilter /
   LookupFilterHeader of every block of the current chain return its filter hash and the BIP157 header chain
   computed from the chain's blocks up to it:  header_k = Hash(filter_hash_k || header_{k-1}),  header_{-1} = 0. *)
Theorem C21_blockfilter_header_chain_of_active_blocks : forall steps x c k b,
  bf_hist_ok [] steps -> bf_run bf_index0 [] steps = Ok (x, c) -> nth_error c k = Some b ->
  bf_lookup x (b_hash b) (b_height b) =
  Some {| fv_hash := b_filter_hash b; fv_header := chain_filter_header (firstn (S k) c) |}.
Proof. exact bf_lookup_chain. Qed.
Print Assumptions C21_blockfilter_header_chain_of_active_blocks.

(* ---------------- BaseIndex with restarts (src/index/base.cpp) ---------------- *)

(* Intended statement (index_follows_active_chain), NOT proved in this package for the generic BaseIndex model
   (model/Index.v: Init / Sync / Rewind / BlockConnected / ChainStateFlushed / Commit over any custom index):
     for every history of (connect, reorg, flush, restart, sync-step) events, once the index is synced its
     state equals the fold of CustomAppend over the active chain; hence txindex returns each active-chain
     transaction with its block and the block filter index returns the BIP157 header chain of the active blocks.
   It is tied by differential execution only (index_sim correspondence, which always includes the restart
   histories below).

   Witness history: an index restart after a reorganization two blocks deep that was not committed.
   - CoinStatsIndex on the current code (/repo commit b3a3ee2) follows the active chain after the restart
     (positive witness, vm_compute on the model of the current code; not a theorem over all histories).
   - CoinStatsIndex BEFORE b3a3ee2 aborted the node: this half of the statement is about the OLD code, modelled
     by cs_remove_prefix_b3a3ee2 (model/IndexCoinStats.v), kept as the record of the repaired finding
     C21-revert-fallback. *)
Theorem C21_coinstats_restart_recovers_on_fixed_code_and_aborted_prefix_b3a3ee2 :
  query_summary (sim_run sim0 refuted_no_restart) = Some (false, true, true) /\
  query_summary (sim_run sim0 refuted_restart) = Some (false, true, true) /\
  base_summary old_live = (false, true, Some [24%N]) /\ base_summary old_restarted = (true, false, Some [13%N]).
Proof. exact coinstats_restart_recovers_on_fixed_code_and_aborted_prefix_b3a3ee2. Qed.
Print Assumptions C21_coinstats_restart_recovers_on_fixed_code_and_aborted_prefix_b3a3ee2.

(* OPEN finding (current code): in the same history BlockFilterIndex::CustomInit refuses to start, because
   ReadFilterHeader reads the height index only ("Cannot read last block filter header; index may be corrupted"):
   the property is false of the code in this corner. *)
Theorem C21_blockfilter_restart_after_uncommitted_reorg_refuted :
  init_failed (sim_run sim0 (bf_refuted_prefix ++ [SvStop; SvStart false false true])) = true.
Proof. exact blockfilter_restart_after_uncommitted_reorg_init_fails. Qed.
Print Assumptions C21_blockfilter_restart_after_uncommitted_reorg_refuted.

(* the hypotheses are satisfiable by a concrete non-trivial instance: two real elements, both orders *)
Example C21_nonvacuous_muhash :
  mh_ok mh_empty /\ Permutation [[1%N]; [2%N; 3%N]] [[2%N; 3%N]; [1%N]] /\ invertible 1.
Proof. split; [ exact mh_empty_ok | split; [ apply perm_swap | exact invertible_1 ] ]. Qed.

(* hist_ok is satisfiable by a non-trivial history: genesis, one block, a second block, and its disconnection
   (blocks without transactions, so no invertibility premise is needed) *)
Example C21_nonvacuous_history :
  exists x c, run_hist 150 cs_init [] [Push rg; Push ra1; Push ra2; Pop] = Ok (x, c) /\ c = [rg; ra1].
Proof. eexists. eexists. split; [ vm_compute; reflexivity | reflexivity ]. Qed.
