(* C58  Unrequested blocks cannot fill the node's storage.
   Only statements here; each is closed by a lemma of proofs/ChainSelUnreq.v.

   Universe and states as in Properties_C08.v: arbitrary parent / work / validity-kind functions of the block id
   (positive work, valid genesis), every state reachable from genesis by any operation list, any MinimumChainWork.
   "Stored" is BLOCK_HAVE_DATA (set only by ReceivedBlockTransactions, right after WriteBlock).
   CHAINSEL_MIN_BLOCKS_TO_KEEP is MIN_BLOCKS_TO_KEEP as printed from the compiled tree (gen/Params_gen.v). *)
From BV Require Import lib.Ints gen.Params_gen model.ChainSel proofs.ChainSelInv proofs.ChainSelMain proofs.ChainSelUnreq.
Local Open Scope Z_scope.

(* An unrequested block that is not stored yet is stored  <=>  its header is acceptable (known and not failed, or new on
   a known non-failed parent), it passes CheckBlock and ContextualCheckBlock, and
   work >= work(tip)  /\  height <= height(tip) + MIN_BLOCKS_TO_KEEP  /\  work >= MinimumChainWork. *)
Theorem C58_unrequested_stored_iff :
  forall (parent_of : id -> id) (proof_of : id -> Z) (kind_of : id -> kind),
  (forall b, 0 < proof_of b) -> kind_of GENESIS = KValid ->
  forall mw ops b, let s := run parent_of proof_of kind_of (genesis_state proof_of mw) ops in
  st_data s b = false ->
  let wb := work_of_block parent_of proof_of s b in
  let hb := height_of_block parent_of s b in
  (st_data (fst (process_new_block parent_of proof_of kind_of s b false)) b = true <->
   header_acceptable parent_of s b = true /\ passes_checks kind_of b = true /\
   (wb >= work s (st_tip s) /\ hb <= height s (st_tip s) + CHAINSEL_MIN_BLOCKS_TO_KEEP /\ wb >= st_min_work s)).
Proof. exact c58_unrequested_stored_iff. Qed.
Print Assumptions C58_unrequested_stored_iff.

(* The window is the 288 of the property text (the constant is regenerated from the compiled tree on every run). *)
Theorem C58_window_is_288 : CHAINSEL_MIN_BLOCKS_TO_KEEP = 288.
Proof. exact c58_window. Qed.
Print Assumptions C58_window_is_288.

(* Otherwise (header acceptable, CheckBlock passes, condition false) the block is dropped: the call returns true with
   *fNewBlock == false and the resulting state is EXACTLY the state after delivering the header alone:
   no BLOCK_HAVE_DATA, no failure flag, and either nothing changed at all (header known) or only the new index entry. *)
Theorem C58_dropped_leaves_no_trace :
  forall (parent_of : id -> id) (proof_of : id -> Z) (kind_of : id -> kind),
  (forall b, 0 < proof_of b) -> kind_of GENESIS = KValid ->
  forall mw ops b, let s := run parent_of proof_of kind_of (genesis_state proof_of mw) ops in
  st_data s b = false -> header_acceptable parent_of s b = true -> kind_of b <> KBadCheck ->
  unrequested_store_cond s (work_of_block parent_of proof_of s b) (height_of_block parent_of s b) = false ->
  let sh := fst (process_new_block_header parent_of proof_of s b) in
  process_new_block parent_of proof_of kind_of s b false = (sh, BOkOld) /\
  st_data sh b = false /\ st_failed sh b = false /\
  (known s b = true -> sh = s) /\ (known s b = false -> sh = add_to_block_index parent_of proof_of s b).
Proof. exact c58_dropped_leaves_no_trace. Qed.
Print Assumptions C58_dropped_leaves_no_trace.

(* A block failing CheckBlock (mutated) leaves no trace at all, not even a header entry. *)
Theorem C58_badcheck_leaves_no_trace :
  forall (parent_of : id -> id) (proof_of : id -> Z) (kind_of : id -> kind),
  (forall b, 0 < proof_of b) -> kind_of GENESIS = KValid ->
  forall s b rq, kind_of b = KBadCheck -> process_new_block parent_of proof_of kind_of s b rq = (s, BFail).
Proof. exact badcheck_leaves_no_trace. Qed.
Print Assumptions C58_badcheck_leaves_no_trace.

(* Hence the same block can still be accepted later: the requested delivery after a dropped unrequested one returns
   exactly the state and result it would have returned had the unrequested delivery never happened, and any later
   history continues as if the unrequested delivery had been a header delivery. *)
Theorem C58_later_requested_delivery_unaffected :
  forall (parent_of : id -> id) (proof_of : id -> Z) (kind_of : id -> kind),
  (forall b, 0 < proof_of b) -> kind_of GENESIS = KValid ->
  forall mw ops b, let s := run parent_of proof_of kind_of (genesis_state proof_of mw) ops in
  st_data s b = false -> header_acceptable parent_of s b = true -> kind_of b <> KBadCheck ->
  unrequested_store_cond s (work_of_block parent_of proof_of s b) (height_of_block parent_of s b) = false ->
  process_new_block parent_of proof_of kind_of (fst (process_new_block parent_of proof_of kind_of s b false)) b true =
  process_new_block parent_of proof_of kind_of s b true /\
  forall later, run parent_of proof_of kind_of s (OpBlock b false :: later) = run parent_of proof_of kind_of s (OpHeader b :: later).
Proof. exact c58_later_requested_delivery_unaffected. Qed.
Print Assumptions C58_later_requested_delivery_unaffected.

(* non-vacuity: genesis 0, chain 1 <- 2 <- 3 on genesis (work 2 each, tip 3 after delivery), fork 4 <- 5 on genesis.
   Unrequested 4 (work 4 < work(tip) 8) is dropped: header only; requested 4 is then stored; with MinimumChainWork 12
   an unrequested 6 on top of 3 (work 10 >= tip) is dropped too, with MinimumChainWork 0 it is stored. *)
Definition ex58_parent (b : id) : id := if b =? 2 then 1 else if b =? 3 then 2 else if b =? 5 then 4 else if b =? 6 then 3 else 0.
Definition ex58_ops : list op := [OpBlock 1 true; OpBlock 2 true; OpBlock 3 true].
Example C58_nonvacuous :
  let s := run ex58_parent (fun _ => 2) (fun _ => KValid) (genesis_state (fun _ => 2) 0) ex58_ops in
  let s12 := run ex58_parent (fun _ => 2) (fun _ => KValid) (genesis_state (fun _ => 2) 12) ex58_ops in
  st_tip s = 3 /\ st_data s 4 = false /\ header_acceptable ex58_parent s 4 = true /\
  unrequested_store_cond s (work_of_block ex58_parent (fun _ => 2) s 4) (height_of_block ex58_parent s 4) = false /\
  st_data (fst (process_new_block ex58_parent (fun _ => 2) (fun _ => KValid) s 4 false)) 4 = false /\
  known (fst (process_new_block ex58_parent (fun _ => 2) (fun _ => KValid) s 4 false)) 4 = true /\
  st_data (run ex58_parent (fun _ => 2) (fun _ => KValid) s [OpBlock 4 false; OpBlock 4 true]) 4 = true /\
  st_data (fst (process_new_block ex58_parent (fun _ => 2) (fun _ => KValid) s 6 false)) 6 = true /\
  st_data (fst (process_new_block ex58_parent (fun _ => 2) (fun _ => KValid) s12 6 false)) 6 = false.
Proof. vm_compute. repeat split; reflexivity. Qed.
