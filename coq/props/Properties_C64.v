(* C64 — A malleated copy of a transaction cannot censor the genuine one.
   Statements only; proofs in proofs/TxDownloadMallLemmas.v, model in model/TxDownloadMall.v.
   wG is the genuine transaction's wtxid.  `ev_other wG` histories are those in which no delivered or confirmed
   transaction has wG as its txid or wtxid: every malleated copy (same txid, different / stripped / invalid
   witness, hence another wtxid), orphaned or not, every other transaction, announcements of anything by
   anybody (wG included), NOTFOUNDs, disconnections, polls, blocks and reorgs.  That no other transaction
   carries the name wG is the collision-freeness premise of the hash. *)
From BV Require Import lib.Ints model.TxDownloadMall proofs.TxDownloadMallLemmas proofs.TxDownloadMallExample.
Local Open Scope Z_scope.

(* never rejected, never "already known": after ANY such history, for ANY validation function, none of the
   lookups AlreadyHaveTx(wtxid) makes (orphanage, the three filters, the mempool by wtxid) finds wG *)
Theorem C64_genuine_never_filtered :
  forall (V : list tx -> list Z -> tx -> verdict) (wG : Z) (evs : list (event)),
  Forall (ev_other wG) evs ->
  let s := fst (run V dl_empty evs []) in
  already_have s true wG true = false /\ already_have s true wG false = false /\
  ~ In wG (rej s) /\ ~ In wG (recf s) /\ ~ In wG (conf s).
Proof.
  intros V wG evs Hall s.
  pose proof (clean_run wG V evs dl_empty [] (clean_empty wG) Hall) as Hc. fold s in Hc.
  split; [apply (clean_not_already_have wG); auto|]. split; [apply (clean_not_already_have wG); auto|].
  destruct Hc as [H1 [H2 [H3 _]]]. auto.
Qed.
Print Assumptions C64_genuine_never_filtered.

(* still requested (one step; full statement: the honest announcement stays a candidate through any further
   history in which the honest peer stays connected and does not itself answer for wG, until a poll asks for
   it — the persistence part is not proved here, C34 has the tracker's scheduling):
   after any such history, an announcement of wG by a connected peer is recorded as a candidate, and a poll
   then asks for wG *)
Theorem C64_genuine_still_requested_partial :
  forall (V : list tx -> list Z -> tx -> verdict) (wG : Z) (evs : list (event)) (p : Z),
  Forall (ev_other wG) evs ->
  let s := fst (run V dl_empty evs []) in
  mem p (peers s) = true -> tr_find s p wG = None ->
  let s1 := fst (step V s (EInv p true wG)) in
  tr_find s1 p wG = Some (mkAnn p wG true ACand) /\ In wG (snd (step V s1 EPoll)).
Proof.
  intros V wG evs p Hall s Hp Hn s1.
  pose proof (clean_run wG V evs dl_empty [] (clean_empty wG) Hall) as Hc. fold s in Hc.
  assert (Ht : tr_find s1 p wG = Some (mkAnn p wG true ACand)) by (apply (genuine_announcement_tracked wG); auto).
  split; auto. cbn [step].
  apply (poll_asks wG s1 p (mkAnn p wG true ACand)); auto.
  apply (clean_add_announcement wG); auto.
Qed.
Print Assumptions C64_genuine_still_requested_partial.

(* validated and accepted on arrival: after any such history, from any peer, if validation accepts the genuine
   transaction in the current mempool / chain then it is in the mempool afterwards *)
Theorem C64_genuine_accepted_on_arrival :
  forall (V : list tx -> list Z -> tx -> verdict) (wG : Z) (evs : list (event)) (p : Z) (g : tx),
  Forall (ev_other wG) evs -> wtxid g = wG ->
  let s := fst (run V dl_empty evs []) in
  V (pool s) (chain s) g = VOk ->
  In g (pool (fst (step V s (ETx p g)))).
Proof.
  intros V wG evs p g Hall Hw s HV. cbn [step fst].
  apply (genuine_accepted wG); auto.
  - apply (clean_run wG V evs dl_empty [] (clean_empty wG) Hall).
  - intros s' Hp Hc. rewrite Hp, Hc. exact HV.
Qed.
Print Assumptions C64_genuine_accepted_on_arrival.

(* the lookup by TXID is not protected in the same way: a witness-stripped copy (wtxid = txid) that is waiting in
   the orphanage makes AlreadyHaveTx(txid) true (the hash is "cast" to a wtxid for the orphanage lookup), so an
   announcement of the genuine transaction BY TXID, or a parent fetch by txid, is ignored while it sits there.
   Announcements by wtxid — the scope of this property — are unaffected (second conjunct). *)
Theorem C64_txid_lookup_refuted :
  exists (V : list tx -> list Z -> tx -> verdict) (evs : list event) (t wG : Z),
    Forall (ev_other wG) evs /\
    let s := fst (run V dl_empty evs []) in
    already_have s false t true = true /\ already_have s true wG true = false.
Proof.
  exists exV, [EConnect 3; ETx 3 exMstripped], 10, 11. split.
  - repeat constructor; cbn; discriminate.
  - exact ex_txid_lookup.
Qed.
Print Assumptions C64_txid_lookup_refuted.

Example C64_nonvacuous :
  Forall (ev_other 11) (firstn 11 ex_history) /\
  let r := run exV dl_empty ex_history [] in
  snd r = [[5; 11]] /\ map wtxid (pool (fst r)) = [5; 11] /\ rej (fst r) = [12] /\ orph (fst r) = [].
Proof. split; [exact ex_history_other|exact ex_run]. Qed.
