(* C17  Stored blocks and undo data read back intact or fail loudly  --  PARTIAL.
   Proved here: the obfuscation layer every block/undo file byte passes through
   (Obfuscation::operator(), util/obfuscation.h), transcribed at the word level (memcpy into a
   uint64, ^= rotated key, memcpy back; alignment prologue; 64-byte and 8-byte chunk loops).
   and the block record layer (WriteBlock's record layout, ReadRawBlock, ReadBlock up to the hash
   tests, which are a parameter `header_ok`).
   NOT proved (see LEVEL_NOTE in props/C17.py): the statements that need a model of SHA256d / merkle
   roots or of the file sequence:
     hash_mismatch_detected  : a changed header no longer hashes to the indexed block (hash premise)
     undo_checksum_detected  : a changed undo payload fails the checksum (hash premise); the model
                               function undo_read_ok_after_flip records what ReadBlockUndo looks at
     corrupt_never_connected : a changed transaction changes the merkle root or fails to parse
     FlatFileSeq allocation / file switching / pruning
   Only statements here; each is closed by `exact` of a lemma from proofs/SerStoreLemmas.v. *)
From Coq Require Import NArith.
From BV Require Import lib.Ints gen.Params_gen model.SerBase model.SerTx model.SerStore proofs.SerBaseLemmas proofs.SerStoreLemmas.
Local Open Scope Z_scope.

(* For every 8-byte key, every key offset, every buffer address (misalign = address mod 8) and every
   data: byte j of the result is data[j] XOR key[(key_offset + j) mod 8].  In particular the result
   does not depend on where the buffer lives in memory. *)
Theorem C17_obfuscation_is_keystream_xor_partial : forall key, bytes_ok key -> length key = 8%nat ->
  forall key_offset misalign data, bytes_ok data -> 0 <= key_offset -> 0 <= misalign < 8 ->
  obfuscate key key_offset misalign data = xor_stream key key_offset data.
Proof. exact obfuscate_spec. Qed.
Print Assumptions C17_obfuscation_is_keystream_xor_partial.

Theorem C17_obfuscation_address_independent_partial : forall key key_offset m1 m2 data,
  bytes_ok key -> length key = 8%nat -> bytes_ok data -> 0 <= key_offset -> 0 <= m1 < 8 -> 0 <= m2 < 8 ->
  obfuscate key key_offset m1 data = obfuscate key key_offset m2 data.
Proof. exact obf_address_independent. Qed.
Print Assumptions C17_obfuscation_address_independent_partial.

(* writing through the obfuscation and reading back through it (at the same file offset, from
   buffers at any two addresses) restores the bytes: what is read is what was written *)
Theorem C17_obfuscation_involutive_partial : forall key key_offset m1 m2 data,
  bytes_ok key -> length key = 8%nat -> bytes_ok data -> 0 <= key_offset -> 0 <= m1 < 8 -> 0 <= m2 < 8 ->
  obfuscate key key_offset m2 (obfuscate key key_offset m1 data) = data.
Proof. exact obf_involutive. Qed.
Print Assumptions C17_obfuscation_involutive_partial.

(* obfuscating a file in pieces (buffered writer / reader) with the offset advanced by the piece
   length equals obfuscating it in one go *)
Theorem C17_obfuscation_chunked_partial : forall key key_offset m m1 m2 a b,
  bytes_ok key -> length key = 8%nat -> bytes_ok a -> bytes_ok b ->
  0 <= key_offset -> 0 <= m < 8 -> 0 <= m1 < 8 -> 0 <= m2 < 8 ->
  obfuscate key key_offset m (a ++ b) =
  obfuscate key key_offset m1 a ++ obfuscate key (key_offset + Z.of_nat (length a)) m2 b.
Proof. exact obf_chunked. Qed.
Print Assumptions C17_obfuscation_chunked_partial.

(* ---- block records ---- *)

(* Read after write: wherever the record sits in its file - after any earlier records, before any
   later records or preallocated space - ReadRawBlock at the position WriteBlock returned gives
   back exactly the bytes written (every payload up to MAX_SIZE). *)
Theorem C17_read_write_block_partial : forall magic pre payload post,
  length magic = 4%nat -> Z.of_nat (length payload) <= MAX_SIZE ->
  read_raw_block magic (pre ++ write_record magic payload ++ post) (Z.of_nat (length pre) + 8) = Some payload.
Proof. exact read_write_block. Qed.
Print Assumptions C17_read_write_block_partial.

(* Framing: anything ReadRawBlock returns is the payload of a well-framed record at that position
   (network magic, size field = length of the data <= MAX_SIZE, all bytes present).  Hence a record
   whose magic was corrupted, whose size field exceeds MAX_SIZE or the data available, or a position
   below 8, is a read failure and never returned. *)
Theorem C17_framing_detected_partial : forall magic file pos data, bytes_ok file ->
  read_raw_block magic file pos = Some data ->
  8 <= pos /\ Z.of_nat (length data) <= MAX_SIZE /\
  exists pre post, file = pre ++ write_record magic data ++ post /\ Z.of_nat (length pre) = pos - 8.
Proof. exact read_raw_block_framed. Qed.
Print Assumptions C17_framing_detected_partial.

(* ReadBlock returns a block only from a well-framed record whose payload deserialises and whose
   header passes the hash tests (proof of work, equality with the indexed hash) *)
Theorem C17_read_block_checks_partial : forall header_ok magic file pos, bytes_ok file ->
  read_block header_ok magic file pos = true ->
  exists data b rest, read_raw_block magic file pos = Some data /\
    unser_block true data = Ok b rest /\ header_ok (b_header b) = true.
Proof. exact read_block_true. Qed.
Print Assumptions C17_read_block_checks_partial.

Example C17_nonvacuous :
  let key := [1; 2; 3; 4; 5; 6; 7; 8]%N in
  let data := map N.of_nat (seq 0 100) in
  obfuscate key 5 3 data = xor_stream key 5 data /\ obfuscate key 5 3 data <> data /\
  nth 0 (obfuscate key 5 3 data) 0%N = 6%N.
Proof. vm_compute. split; [reflexivity|]. split; [discriminate|reflexivity]. Qed.
