(* C17  Stored blocks and undo data read back intact or fail loudly  --  PARTIAL.
   Proved here: the obfuscation layer every block/undo file byte passes through
   (Obfuscation::operator(), util/obfuscation.h), transcribed at the word level (memcpy into a
   uint64, ^= rotated key, memcpy back; alignment prologue; 64-byte and 8-byte chunk loops).
   The full statement of C17 also covers record framing (magic, size, MAX_SIZE), the header-hash and
   undo checksum comparisons and the file sequence; those are NOT modelled here (see LEVEL_NOTE in
   props/C17.py):
     read_write_block      : after any sequence of WriteBlock calls, ReadRawBlock at each returned
                             position returns the written bytes
     framing_detected      : magic mismatch or size > MAX_SIZE  =>  ReadRawBlock fails
     hash_mismatch_detected, undo_checksum_detected, corrupt_never_connected (under hash premises)
   Only statements here; each is closed by `exact` of a lemma from proofs/SerStoreLemmas.v. *)
From Coq Require Import NArith.
From BV Require Import lib.Ints gen.Params_gen model.SerBase model.SerStore proofs.SerBaseLemmas proofs.SerStoreLemmas.
Local Open Scope Z_scope.

(* For every 8-byte key, every key offset, every buffer address (misalign = address mod 8) and every
   data: byte j of the result is data[j] XOR key[(key_offset + j) mod 8].  In particular the result
   does not depend on where the buffer lives in memory. *)
Theorem C17_obfuscation_is_keystream_xor_partial : forall key, bytes_ok key -> length key = 8%nat ->
  forall key_offset misalign data, bytes_ok data -> 0 <= key_offset -> 0 <= misalign < 8 ->
  obfuscate key key_offset misalign data = xor_stream key key_offset data.
Proof. exact obfuscate_spec. Qed.
Print Assumptions C17_obfuscation_is_keystream_xor_partial.

Theorem C17_obfuscation_address_independent_partial : forall key key_offset m1 m2 data,
  bytes_ok key -> length key = 8%nat -> bytes_ok data -> 0 <= key_offset -> 0 <= m1 < 8 -> 0 <= m2 < 8 ->
  obfuscate key key_offset m1 data = obfuscate key key_offset m2 data.
Proof. exact obf_address_independent. Qed.
Print Assumptions C17_obfuscation_address_independent_partial.

(* writing through the obfuscation and reading back through it (at the same file offset, from
   buffers at any two addresses) restores the bytes: what is read is what was written *)
Theorem C17_obfuscation_involutive_partial : forall key key_offset m1 m2 data,
  bytes_ok key -> length key = 8%nat -> bytes_ok data -> 0 <= key_offset -> 0 <= m1 < 8 -> 0 <= m2 < 8 ->
  obfuscate key key_offset m2 (obfuscate key key_offset m1 data) = data.
Proof. exact obf_involutive. Qed.
Print Assumptions C17_obfuscation_involutive_partial.

(* obfuscating a file in pieces (buffered writer / reader) with the offset advanced by the piece
   length equals obfuscating it in one go *)
Theorem C17_obfuscation_chunked_partial : forall key key_offset m m1 m2 a b,
  bytes_ok key -> length key = 8%nat -> bytes_ok a -> bytes_ok b ->
  0 <= key_offset -> 0 <= m < 8 -> 0 <= m1 < 8 -> 0 <= m2 < 8 ->
  obfuscate key key_offset m (a ++ b) =
  obfuscate key key_offset m1 a ++ obfuscate key (key_offset + Z.of_nat (length a)) m2 b.
Proof. exact obf_chunked. Qed.
Print Assumptions C17_obfuscation_chunked_partial.

Example C17_nonvacuous :
  let key := [1; 2; 3; 4; 5; 6; 7; 8]%N in
  let data := map N.of_nat (seq 0 100) in
  obfuscate key 5 3 data = xor_stream key 5 data /\ obfuscate key 5 3 data <> data /\
  nth 0 (obfuscate key 5 3 data) 0%N = 6%N.
Proof. vm_compute. split; [reflexivity|]. split; [discriminate|reflexivity]. Qed.
