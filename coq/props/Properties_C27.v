(* C27  Mempool resource and topology limits always hold -- the TRUC (version 3) topology clause.
   Full statement of the clause proved here: "With standardness enforced and in histories without block
   disconnections, every version-3 (TRUC) transaction has at most one unconfirmed parent and one unconfirmed
   child, both TRUC, within the TRUC size caps."
   Not covered by theorems in this file (kept visible; the check is registered as partial): memory usage within
   -maxmempool after every acceptance and the minimum feerate after an eviction for space (TrimToSize /
   GetMinFee), cluster count/size limits as an invariant of histories (only the decision function is modelled),
   the ephemeral-dust clauses. *)
From BV Require Import lib.Ints gen.Params_gen model.Package model.PackageAccept model.Truc
  proofs.PackageLemmas proofs.PackageAcceptLemmas proofs.TrucLemmas.
Local Open Scope Z_scope.

(* What SingleTRUCChecks accepts, for every mempool, transaction, set of mempool parents, set of direct conflicts
   and virtual size: versions are inherited both ways; a version-3 transaction is at most TRUC_MAX_VSIZE, has at
   most one mempool parent, that parent has no other ancestor, the transaction is then at most
   TRUC_CHILD_MAX_VSIZE, and the parent has no other descendant unless one of its descendants is among the direct
   conflicts (to be replaced). *)
Theorem C27_single_check_accepts_implies : forall P tx mp conf vs,
  single_truc_checks P tx mp conf vs = None ->
  (forall p, In p mp -> is_truc p = is_truc tx) /\
  (is_truc tx = true ->
     vs <= TRUC_MAX_VSIZE /\ (length mp <= 1)%nat /\
     forall p, In p mp ->
       anc_count P p + 1 <= TRUC_ANCESTOR_LIMIT /\ vs <= TRUC_CHILD_MAX_VSIZE /\
       (desc_count P p + 1 <= TRUC_DESCENDANT_LIMIT \/
        exists d, In d (desc_set P p) /\ p_txid d <> p_txid p /\ In (p_txid d) conf)).
Proof. exact single_truc_checks_none. Qed.
Print Assumptions C27_single_check_accepts_implies.

(* What PackageTRUCChecks accepts for a version-3 member at position i: size cap; at most one parent counting
   mempool and in-package parents together; a mempool parent has no other ancestor, no mempool descendant and is
   version 3; an in-package parent is version 3; and when it has a parent: child size cap, no other package member
   spends this transaction or its parent. *)
Theorem C27_package_check_accepts_implies_v3 : forall P pkg i tx vs mp,
  is_truc tx = true -> package_truc_checks P pkg i tx vs mp = None ->
  vs <= TRUC_MAX_VSIZE /\ (length mp + length (in_package_parents pkg i tx) <= 1)%nat /\
  (forall p, In p mp -> anc_count P p + 1 <= TRUC_ANCESTOR_LIMIT /\ desc_count P p <= 1 /\ is_truc p = true) /\
  (forall q, In q (in_package_parents pkg i tx) -> is_truc q = true) /\
  (mp ++ in_package_parents pkg i tx <> [] -> vs <= TRUC_CHILD_MAX_VSIZE /\
     forall j t, nth_error pkg j = Some t -> j <> i ->
       spends t (p_txid tx) = false /\ forall p, In p (mp ++ in_package_parents pkg i tx) -> spends t (p_txid p) = false).
Proof. exact package_truc_checks_none_v3. Qed.
Print Assumptions C27_package_check_accepts_implies_v3.

(* ... and for a non-version-3 member: no version-3 parent in the mempool or earlier in the package. *)
Theorem C27_package_check_accepts_implies_nonv3 : forall P pkg i tx vs mp,
  is_truc tx = false -> package_truc_checks P pkg i tx vs mp = None ->
  (forall p, In p mp -> is_truc p = false) /\ (forall q, In q (in_package_parents pkg i tx) -> is_truc q = false).
Proof. exact package_truc_checks_none_nonv3. Qed.
Print Assumptions C27_package_check_accepts_implies_nonv3.

(* The topology invariant over ALL histories made of single submissions (with replacement of conflicts and sibling
   eviction), package submissions and arbitrary removals (block connection, expiry, size limiting, block conflicts),
   acceptance being decided by the two check functions: every mempool transaction t satisfies
     version 3  => vsize <= TRUC_MAX_VSIZE, at most one mempool parent, at most one mempool child, not both,
                   parents and children version 3, and vsize <= TRUC_CHILD_MAX_VSIZE when it has a parent;
     otherwise  => no version-3 mempool parent. *)
Theorem C27_truc_topology_all_histories : forall ops,
  forallb (fun o => negb (is_force o)) ops = true ->
  forall t, In t (truc_run ops) ->
    (is_truc t = true ->
       vsize_of t <= TRUC_MAX_VSIZE /\
       (length (parents_of (truc_run ops) t) <= 1)%nat /\ (length (children_of (truc_run ops) t) <= 1)%nat /\
       (parents_of (truc_run ops) t = [] \/ children_of (truc_run ops) t = []) /\
       (forall p, In p (parents_of (truc_run ops) t) -> is_truc p = true) /\
       (forall c, In c (children_of (truc_run ops) t) -> is_truc c = true) /\
       (parents_of (truc_run ops) t <> [] -> vsize_of t <= TRUC_CHILD_MAX_VSIZE)) /\
    (is_truc t = false -> forall p, In p (parents_of (truc_run ops) t) -> is_truc p = false).
Proof. intros ops Hops t Ht. exact (truc_run_invariant ops Hops t Ht). Qed.
Print Assumptions C27_truc_topology_all_histories.

(* In the counts the code uses: no version-3 transaction ever has more than TRUC_ANCESTOR_LIMIT ancestors or
   TRUC_DESCENDANT_LIMIT descendants (itself included), i.e. every TRUC cluster has at most 2 members. *)
Theorem C27_truc_cluster_at_most_two : forall ops t,
  forallb (fun o => negb (is_force o)) ops = true ->
  In t (truc_run ops) -> is_truc t = true ->
  anc_count (truc_run ops) t <= TRUC_ANCESTOR_LIMIT /\ desc_count (truc_run ops) t <= TRUC_DESCENDANT_LIMIT.
Proof. exact truc_run_counts. Qed.
Print Assumptions C27_truc_cluster_at_most_two.

(* Single steps, from any mempool satisfying the invariant (not only reachable ones). *)
Theorem C27_single_submission_preserves : forall P tx,
  TrucInv P -> NoSelf P -> TrucInv (snd (truc_try_add P tx)) /\ NoSelf (snd (truc_try_add P tx)).
Proof. exact truc_try_add_preserves. Qed.
Print Assumptions C27_single_submission_preserves.

Theorem C27_package_submission_preserves : forall P pkg,
  TrucInv P -> NoSelf P -> TrucInv (snd (truc_try_package P pkg)) /\ NoSelf (snd (truc_try_package P pkg)).
Proof. exact truc_try_package_preserves. Qed.
Print Assumptions C27_package_submission_preserves.

Theorem C27_removal_preserves : forall R P, TrucInv P -> TrucInv (remove_set R P).
Proof. exact TrucInv_remove. Qed.
Print Assumptions C27_removal_preserves.

(* The executable recomputation the violation search runs on the implementation's mempool (the equivalent of
   test/util CheckMempoolTRUCInvariants) is implied by the invariant: a reported failure is a failure of it. *)
Theorem C27_check_predicate_follows_from_invariant : forall P, TrucInv P -> truc_holds P = true.
Proof. exact truc_holds_of_inv. Qed.
Print Assumptions C27_check_predicate_follows_from_invariant.

(* Cluster limits (ChangeSet::CheckMemPoolPolicyLimits -> TxGraph::IsOversized): the decision is exactly "every
   cluster (connected component) has at most cluster_count transactions and at most cluster_size_vbytes *
   WITNESS_SCALE_FACTOR total weight"; an addition is accepted by CheckPolicyLimits only if that holds of the mempool
   with the transaction added.  (The invariant over histories for this clause is carried by the correspondence, not by
   a theorem.) *)
Theorem C27_cluster_limit_decision : forall cluster_count cluster_size_vbytes P tx,
  check_policy_limits cluster_count cluster_size_vbytes P tx = true <->
  forall t, In t (P ++ [tx]) ->
    Z.of_nat (length (cluster_of (P ++ [tx]) t)) <= cluster_count /\
    zsum (map p_weight (cluster_of (P ++ [tx]) t)) <= cluster_size_vbytes * WITNESS_SCALE_FACTOR.
Proof. intros. unfold check_policy_limits. apply check_cluster_limits_iff. Qed.
Print Assumptions C27_cluster_limit_decision.

(* generated constants: the default limits leave room for any well-formed package and any TRUC pair *)
Theorem C27_default_limits_cover_packages_and_truc :
  MAX_PACKAGE_COUNT <= MPP_LIMITS_CLUSTER_COUNT /\
  MAX_PACKAGE_WEIGHT <= MPP_LIMITS_CLUSTER_SIZE_VBYTES * WITNESS_SCALE_FACTOR /\
  TRUC_MAX_VSIZE + TRUC_CHILD_MAX_VSIZE <= MPP_LIMITS_CLUSTER_SIZE_VBYTES /\
  TRUC_ANCESTOR_LIMIT <= MPP_LIMITS_CLUSTER_COUNT.
Proof. exact default_limits_cover_packages_and_truc. Qed.
Print Assumptions C27_default_limits_cover_packages_and_truc.

(* The clause is not claimed across block disconnections, and could not be: transactions re-added without the
   rules (bypass_limits) can give a version-3 parent two children. *)
Definition rx_parent : ptx := {| p_txid := 1; p_wtxid := 1; p_inputs := [(1000001, 0)]; p_weight := 400; p_fee := 0; p_version := 3; p_nout := 2 |}.
Definition rx_child1 : ptx := {| p_txid := 2; p_wtxid := 2; p_inputs := [(1, 0)]; p_weight := 400; p_fee := 0; p_version := 3; p_nout := 1 |}.
Definition rx_child2 : ptx := {| p_txid := 3; p_wtxid := 3; p_inputs := [(1, 1)]; p_weight := 400; p_fee := 0; p_version := 3; p_nout := 1 |}.
Theorem C27_not_across_disconnection_refuted :
  exists ops, truc_holds (truc_run ops) = false.
Proof. exists [Op_force rx_parent; Op_force rx_child1; Op_force rx_child2]. vm_compute. reflexivity. Qed.
Print Assumptions C27_not_across_disconnection_refuted.

(* under the rules the second child evicts the first (sibling eviction) and the invariant holds *)
Example C27_nonvacuous :
  truc_run [Op_add rx_parent; Op_add rx_child1; Op_add rx_child2] = [rx_parent; rx_child2] /\
  fst (truc_try_add [rx_parent; rx_child1] rx_child2) = AO_added (Some rx_child1) /\
  truc_holds (truc_run [Op_add rx_parent; Op_add rx_child1; Op_add rx_child2]) = true /\
  fst (truc_try_package [] [rx_parent; rx_child1; rx_child2]) =
    Some [(None, None); (None, Some TE_desc_limit); (None, Some TE_desc_limit)].
Proof. vm_compute. repeat split. Qed.
