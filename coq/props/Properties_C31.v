(* C31  Block subsidy follows the 21 million schedule.
   Only statements here; each is closed by `exact` of a lemma from proofs/AmountLemmas.v. *)
From BV Require Import lib.Ints lib.ChainParams gen.Params_gen model.Amount proofs.AmountLemmas.
Local Open Scope Z_scope.

(* For every built-in chain (as generated from the compiled tree) and every non-negative height:
   the subsidy is 50 BTC shifted right once per completed halving interval, zero from the 64th on. *)
Theorem C31_subsidy_is_spec : forall c h, In c all_chains -> 0 <= h ->
  chain_subsidy c h =
    (let k := h / cp_halving_interval c in if k <? 64 then (50 * 100000000) / 2 ^ k else 0).
Proof. exact chain_subsidy_spec. Qed.
Print Assumptions C31_subsidy_is_spec.

Theorem C31_subsidy_never_increases : forall c h1 h2, In c all_chains -> 0 <= h1 <= h2 ->
  chain_subsidy c h2 <= chain_subsidy c h1.
Proof. exact chain_subsidy_monotone. Qed.
Print Assumptions C31_subsidy_never_increases.

Theorem C31_subsidy_zero_from_64th_halving : forall c h, In c all_chains ->
  64 * cp_halving_interval c <= h -> chain_subsidy c h = 0.
Proof. exact chain_subsidy_zero_from_64. Qed.
Print Assumptions C31_subsidy_zero_from_64th_halving.

(* The total over the heights 0 .. n-1 is below 21,000,000 BTC for every n (hence over all heights) *)
Theorem C31_total_below_21M : forall c n, In c all_chains ->
  sum_heights (chain_subsidy c) n < 21000000 * 100000000.
Proof. exact chain_total_below_21M. Qed.
Print Assumptions C31_total_below_21M.

(* non-vacuity: the chain list is not empty and mainnet's schedule is the familiar one *)
Example C31_nonvacuous :
  In chain_main all_chains /\ chain_subsidy chain_main 0 = 5000000000 /\
  chain_subsidy chain_main 210000 = 2500000000 /\ chain_subsidy chain_main 6929999 = 1 /\
  chain_subsidy chain_main 6930000 = 0.
Proof. vm_compute. repeat split; auto. Qed.
