(* C18  UTXO database encoding preserves every spendable coin exactly.
   Only statements here; each is closed by `exact` of a lemma from proofs/SerBaseLemmas.v,
   proofs/CompressLemmas.v or proofs/CompressScriptLemmas.v.

   The models (model/SerBase.v, model/Compress.v) are transcriptions of CompressAmount,
   DecompressAmount, CompressScript, DecompressScript, ScriptCompression, AmountCompression,
   Coin::Serialize/Unserialize, TxInUndoFormatter and WriteVarInt/ReadVarInt with every uint64 /
   uint32 operation wrapped explicitly.  `fv` and `dec` stand for CPubKey::IsFullyValid and
   CPubKey::Decompress; `ec_premise fv dec` is the secp256k1 fact the uncompressed-key case needs. *)
From Coq Require Import NArith.
From BV Require Import lib.Ints gen.Params_gen model.SerBase model.Compress model.CompressEC
  proofs.SerBaseLemmas proofs.CompressLemmas proofs.CompressScriptLemmas proofs.CompressECLemmas.
From Coq Require Import Znumtheory.
Local Open Scope Z_scope.

(* ---- amounts ---- *)

(* Every amount in [0, MAX_MONEY] (the constant of the compiled tree) is recovered exactly. *)
Theorem C18_amount_roundtrip : forall n, 0 <= n <= MAX_MONEY ->
  decompress_amount (compress_amount n) = n.
Proof. exact amount_roundtrip_money. Qed.
Print Assumptions C18_amount_roundtrip.

(* ... and so is every amount up to 2049638230412172402 (about 2.05e18, far above MAX_MONEY) *)
Theorem C18_amount_roundtrip_wide : forall n, 0 <= n <= 2049638230412172402 ->
  decompress_amount (compress_amount n) = n.
Proof. exact amount_roundtrip. Qed.
Print Assumptions C18_amount_roundtrip_wide.

(* ... and, in [0, 2^64), every amount whose compressed value fits in a uint64 *)
Theorem C18_amount_roundtrip_when_no_wrap : forall n, 0 <= n < 18446744073709551616 ->
  compress_amount_unbounded n < 18446744073709551616 ->
  decompress_amount (compress_amount n) = n.
Proof. exact amount_roundtrip_nowrap. Qed.
Print Assumptions C18_amount_roundtrip_when_no_wrap.

(* The bound is sharp: the very next amount does not survive (uint64 wrap inside CompressAmount).
   It is below INT64_MAX, so there are positive CAmount values that do not round trip; none of
   them is in MoneyRange. *)
Theorem C18_amount_bound_is_sharp :
  decompress_amount (compress_amount 2049638230412172403) <> 2049638230412172403.
Proof. exact amount_wrap_example. Qed.
Print Assumptions C18_amount_bound_is_sharp.

Theorem C18_amount_compression_injective : forall a b,
  0 <= a <= 2049638230412172402 -> 0 <= b <= 2049638230412172402 ->
  compress_amount a = compress_amount b -> a = b.
Proof. exact compress_amount_injective. Qed.
Print Assumptions C18_amount_compression_injective.

(* the assert(d >= 1 && d <= 9) inside CompressAmount never fires *)
Theorem C18_compress_amount_assert_holds : forall n, 0 <= n -> compress_amount_assert n = true.
Proof. exact compress_amount_assert_holds. Qed.
Print Assumptions C18_compress_amount_assert_holds.

(* ---- VARINT (w = 32: unsigned int / uint32_t, w = 64: uint64_t) ---- *)

(* the tmp[CeilDiv(w,7)] buffer of WriteVarInt is never overrun *)
Theorem C18_varint_total : forall w n, w = 32 \/ w = 64 -> exists enc, write_varint w n = Some enc.
Proof. exact varint_total. Qed.
Print Assumptions C18_varint_total.

Theorem C18_varint_roundtrip : forall w n enc rest, w = 32 \/ w = 64 -> 0 <= n <= 2 ^ w - 1 ->
  write_varint w n = Some enc -> read_varint w (enc ++ rest) = Ok n rest.
Proof. exact varint_rt. Qed.
Print Assumptions C18_varint_roundtrip.

(* canonical / unique: whatever the reader accepts is in range and the bytes it consumed are
   exactly the writer's encoding of the result *)
Theorem C18_varint_canonical : forall w s n rest, w = 32 \/ w = 64 -> bytes_ok s ->
  read_varint w s = Ok n rest ->
  0 <= n <= 2 ^ w - 1 /\ exists enc, write_varint w n = Some enc /\ s = enc ++ rest.
Proof. exact varint_canon. Qed.
Print Assumptions C18_varint_canonical.

(* decode rejects overflow: the encoding (in any wider type) of a number above the type's maximum
   is never accepted, so the reader never returns a wrapped value *)
Theorem C18_varint_rejects_overflow : forall w fuel n enc rest v r, w = 32 \/ w = 64 ->
  2 ^ w - 1 < n -> write_varint_loop fuel n true [] = Some enc -> bytes_ok rest ->
  read_varint w (enc ++ rest) <> Ok v r.
Proof. exact varint_overflow. Qed.
Print Assumptions C18_varint_rejects_overflow.

(* the writer's bytes carry the value the format comment in serialize.h documents:
   (a[len-1] & 0x7F) + sum(i=1..len-1, 128^i * ((a[len-i-1] & 0x7F) + 1)) *)
Theorem C18_varint_matches_documented_formula : forall w n enc, w = 32 \/ w = 64 -> 0 <= n <= 2 ^ w - 1 ->
  write_varint w n = Some enc -> varint_value enc = n.
Proof. exact varint_documented_value. Qed.
Print Assumptions C18_varint_matches_documented_formula.

(* ---- scripts ---- *)

(* Every script of at most MAX_SCRIPT_SIZE bytes (every spendable script) is read back unchanged,
   with the stream positioned exactly after it; the special templates included. *)
Theorem C18_script_roundtrip : forall fv dec, ec_premise fv dec ->
  forall s prev rest, bytes_ok s -> Z.of_nat (length s) <= MAX_SCRIPT_SIZE ->
  exists enc, ser_script fv s = Some enc /\ unser_script dec prev (enc ++ rest) = Ok s rest.
Proof. exact script_roundtrip. Qed.
Print Assumptions C18_script_roundtrip.

(* the compressor's output is a tag < 6, the payload has the special size of that tag, and
   DecompressScript inverts it (the six tags never collide with the raw form size+6 >= 6) *)
Theorem C18_special_scripts_decode_to_original : forall fv dec, ec_premise fv dec ->
  forall s c, bytes_ok s -> compress_script fv s = Some c ->
  exists tag payload, c = tag :: payload /\ (tag < 6)%N /\
    length payload = special_script_size (Z.of_N tag) /\
    decompress_script dec (Z.of_N tag) payload = Some s.
Proof. exact compress_script_inv. Qed.
Print Assumptions C18_special_scripts_decode_to_original.

(* longer scripts (unspendable) come back as OP_RETURN, and the reader still consumes the record *)
Theorem C18_oversize_script_replaced : forall fv dec s prev rest,
  MAX_SCRIPT_SIZE < Z.of_nat (length s) -> Z.of_nat (length s) + N_SPECIAL_SCRIPTS <= 4294967295 ->
  exists enc, ser_script fv s = Some enc /\
              unser_script dec prev (enc ++ rest) = Ok (prev ++ [op_return]) rest.
Proof. exact script_oversize_replaced. Qed.
Print Assumptions C18_oversize_script_replaced.

(* ---- coins ---- *)

(* UTXO database record: any height < 2^31, either coinbase flag, any amount in the round-trip
   range (contains [0, MAX_MONEY]), any script up to MAX_SCRIPT_SIZE. *)
Theorem C18_coin_roundtrip : forall fv dec, ec_premise fv dec ->
  forall c prev rest,
  0 <= c_height c < 2 ^ 31 -> 0 <= c_value c <= 2049638230412172402 -> bytes_ok (c_script c) ->
  Z.of_nat (length (c_script c)) <= MAX_SCRIPT_SIZE ->
  exists enc, ser_coin fv c = Some enc /\ unser_coin dec prev (enc ++ rest) = Ok c rest.
Proof. exact coin_roundtrip. Qed.
Print Assumptions C18_coin_roundtrip.

(* undo file record (TxInUndoFormatter, with the dummy version byte when height > 0) *)
Theorem C18_undo_roundtrip : forall fv dec, ec_premise fv dec ->
  forall c prev rest,
  0 <= c_height c < 2 ^ 31 -> 0 <= c_value c <= 2049638230412172402 -> bytes_ok (c_script c) ->
  Z.of_nat (length (c_script c)) <= MAX_SCRIPT_SIZE ->
  exists enc, ser_undo fv c = Some enc /\ unser_undo dec prev (enc ++ rest) = Ok c rest.
Proof. exact undo_roundtrip. Qed.
Print Assumptions C18_undo_roundtrip.

(* ---- the secp256k1 premise, for the executable instance (the one compared with libsecp256k1) ----
   `ec_premise` holds for model/CompressEC.v given two classical facts about the field prime
   p = 2^256 - 2^32 - 977 that Coq cannot check by computation here: p is prime, and Fermat's little
   theorem for p.  (sqrt by exponent (p+1)/4, the two roots y and p-y have different parity, the
   special-form reduction fe_red equals `mod p`, big-endian 32-byte (de)serialisation.) *)
Theorem C18_secp_instance_satisfies_premise :
  prime secp_p -> (forall a, 0 <= a < secp_p -> a ^ secp_p mod secp_p = a) ->
  ec_premise secp_fully_valid secp_decompress.
Proof. exact secp_instance_premise. Qed.
Print Assumptions C18_secp_instance_satisfies_premise.

(* hence, for the extracted model itself: every coin round trips *)
Theorem C18_coin_roundtrip_secp :
  prime secp_p -> (forall a, 0 <= a < secp_p -> a ^ secp_p mod secp_p = a) ->
  forall c prev rest,
  0 <= c_height c < 2 ^ 31 -> 0 <= c_value c <= 2049638230412172402 -> bytes_ok (c_script c) ->
  Z.of_nat (length (c_script c)) <= MAX_SCRIPT_SIZE ->
  exists enc, ser_coin secp_fully_valid c = Some enc /\ unser_coin secp_decompress prev (enc ++ rest) = Ok c rest.
Proof. exact coin_roundtrip_secp. Qed.
Print Assumptions C18_coin_roundtrip_secp.

(* the executable predicate the violation search evaluates on the implementation's output is sound *)
Theorem C18_holds_predicate_sound : forall dec undo c bytes back,
  holds_coin_roundtrip dec undo c bytes back = true ->
  back = c /\ (if undo then unser_undo dec [] bytes else unser_coin dec [] bytes) = Ok c [].
Proof. exact holds_coin_roundtrip_sound. Qed.
Print Assumptions C18_holds_predicate_sound.

(* non-vacuity: a P2PKH coinbase coin of 50 BTC at height 120000 goes through the extracted
   instance, and the secp256k1 premise holds at the generator point of the curve for the
   executable instance (so `ec_premise` is not asking for the impossible). *)
Example C18_nonvacuous :
  let c := mk_coin 120000 true 5000000000
             ([118; 169; 20]%N ++ repeat 7%N 20 ++ [136; 172]%N) in
  let G := 4%N :: be_bytes 32 0x79BE667EF9DCBBAC55A06295CE870B07029BFCDB2DCE28D959F2815B16F81798
                ++ be_bytes 32 0x483ADA7726A3C4655DA4FBFC0E1108A8FD17B448A68554199C47D08FFB10D4B8 in
  match ser_coin secp_fully_valid c with
  | Some enc => length enc = 25%nat /\ unser_coin secp_decompress [] enc = Ok c []
  | None => False
  end /\
  secp_fully_valid G = true /\
  match ec_compress_pub G with
  | Some cpk => secp_decompress cpk = Some G
  | None => False
  end.
Proof. vm_compute. repeat split; reflexivity. Qed.
