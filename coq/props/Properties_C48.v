(* C48  Serialization and text encodings round-trip and match the reference format.
   Only statements here; each is closed by `exact` of a lemma from proofs/SerBaseLemmas.v,
   proofs/SerTxLemmas.v or proofs/CodecLemmas.v.
   Streams are `list N` (bytes_ok: every element < 256); a reader returns `Ok value rest` or `Err kind`. *)
From Coq Require Import NArith.
From BV Require Import lib.Ints gen.Params_gen model.SerBase model.SerTx model.Codec model.CodecMoney
  proofs.SerBaseLemmas proofs.SerTxLemmas proofs.CodecLemmas proofs.CodecBitsLemmas proofs.CodecB58Lemmas proofs.CodecMoneyLemmas.
Local Open Scope Z_scope.

(* ---- CompactSize (MAX_SIZE is the constant of the compiled tree) ---- *)

Theorem C48_compactsize_roundtrip : forall n rest, 0 <= n <= MAX_SIZE ->
  read_compact_size true (write_compact_size n ++ rest) = Ok n rest.
Proof. exact compact_size_roundtrip. Qed.
Print Assumptions C48_compactsize_roundtrip.

Theorem C48_compactsize_roundtrip_no_range_check : forall n rest, 0 <= n <= 18446744073709551615 ->
  read_compact_size false (write_compact_size n ++ rest) = Ok n rest.
Proof. exact compact_size_roundtrip_norange. Qed.
Print Assumptions C48_compactsize_roundtrip_no_range_check.

Theorem C48_compactsize_above_max_size_rejected : forall n rest, MAX_SIZE < n <= 18446744073709551615 ->
  read_compact_size true (write_compact_size n ++ rest) = Err ETooLarge.
Proof. exact compact_size_too_large. Qed.
Print Assumptions C48_compactsize_above_max_size_rejected.

(* Non-canonical compact sizes are rejected: whatever is accepted is the encoder's own output for
   the returned number (so no second encoding of any number is ever accepted). *)
Theorem C48_compactsize_canonical_only : forall range_check s n rest, bytes_ok s ->
  read_compact_size range_check s = Ok n rest ->
  s = write_compact_size n ++ rest /\ 0 <= n <= 18446744073709551615 /\ (range_check = true -> n <= MAX_SIZE).
Proof. exact compact_size_canonical. Qed.
Print Assumptions C48_compactsize_canonical_only.

Theorem C48_compactsize_decoder_injective : forall range_check s1 s2 n rest, bytes_ok s1 -> bytes_ok s2 ->
  read_compact_size range_check s1 = Ok n rest -> read_compact_size range_check s2 = Ok n rest -> s1 = s2.
Proof. exact compact_size_decode_injective. Qed.
Print Assumptions C48_compactsize_decoder_injective.

(* ---- VARINT ---- *)
Theorem C48_varint_roundtrip : forall w n enc rest, w = 32 \/ w = 64 -> 0 <= n <= 2 ^ w - 1 ->
  write_varint w n = Some enc -> read_varint w (enc ++ rest) = Ok n rest.
Proof. exact varint_rt. Qed.
Print Assumptions C48_varint_roundtrip.

Theorem C48_varint_canonical : forall w s n rest, w = 32 \/ w = 64 -> bytes_ok s ->
  read_varint w s = Ok n rest ->
  0 <= n <= 2 ^ w - 1 /\ exists enc, write_varint w n = Some enc /\ s = enc ++ rest.
Proof. exact varint_canon. Qed.
Print Assumptions C48_varint_canonical.

(* ---- byte vectors (scripts, witness items) ---- *)
Theorem C48_bytes_roundtrip : forall b rest, Z.of_nat (length b) <= MAX_SIZE ->
  unser_bytes (ser_bytes b ++ rest) = Ok b rest.
Proof. exact ser_bytes_roundtrip. Qed.
Print Assumptions C48_bytes_roundtrip.

(* ---- transactions ----
   tx_wf: the ranges the C++ field types guarantee (uint32 version/locktime/n/sequence, int64 value,
   32-byte hash, vectors of at most MAX_SIZE elements). *)

(* with witness serialization allowed (TX_WITH_WITNESS): the object read back is the object written.
   Side condition found by the proof: a transaction with NO inputs but SOME outputs is not readable
   back (its output count is read as the flags byte). *)
Theorem C48_tx_roundtrip_witness : forall t rest, tx_wf t -> (tx_vin t <> [] \/ tx_vout t = []) ->
  unser_tx true (ser_tx true t ++ rest) = Ok t rest.
Proof. exact tx_roundtrip_witness. Qed.
Print Assumptions C48_tx_roundtrip_witness.

(* without (TX_NO_WITNESS): exactly the witness stacks are dropped; no side condition *)
Theorem C48_tx_roundtrip_nowitness : forall t rest, tx_wf t ->
  unser_tx false (ser_tx false t ++ rest) = Ok (strip_witness t) rest.
Proof. exact tx_roundtrip_nowitness. Qed.
Print Assumptions C48_tx_roundtrip_nowitness.

(* Nothing deserialises that would re-serialise differently: the bytes consumed are exactly the
   serialization of the result.  Consequences: a flags byte other than 1 is never accepted, an
   extended-format transaction whose witness stacks are all empty is never accepted, no
   non-canonical count is accepted. *)
Theorem C48_tx_deser_ser : forall allow_witness s t rest, bytes_ok s ->
  unser_tx allow_witness s = Ok t rest -> s = ser_tx allow_witness t ++ rest.
Proof. exact tx_canonical. Qed.
Print Assumptions C48_tx_deser_ser.

(* ---- block headers and blocks ---- *)
Theorem C48_header_roundtrip : forall h rest, header_wf h -> unser_header (ser_header h ++ rest) = Ok h rest.
Proof. exact header_roundtrip. Qed.
Print Assumptions C48_header_roundtrip.

Theorem C48_block_roundtrip : forall b rest, header_wf (b_header b) -> Z.of_nat (length (b_vtx b)) <= MAX_SIZE ->
  Forall (fun t => tx_wf t /\ (tx_vin t <> [] \/ tx_vout t = [])) (b_vtx b) ->
  unser_block true (ser_block true b ++ rest) = Ok b rest.
Proof. exact block_roundtrip. Qed.
Print Assumptions C48_block_roundtrip.

Theorem C48_block_deser_ser : forall allow_witness s b rest, bytes_ok s ->
  unser_block allow_witness s = Ok b rest -> s = ser_block allow_witness b ++ rest.
Proof. exact block_canonical. Qed.
Print Assumptions C48_block_deser_ser.

(* ---- hex ---- *)
Theorem C48_hex_roundtrip : forall b, bytes_ok b -> try_parse_hex (hex_str b) = Some b.
Proof. exact hex_roundtrip. Qed.
Print Assumptions C48_hex_roundtrip.

(* a string that parses is, after removing white space and lower-casing, the HexStr of the result;
   everything else (odd digit count, white space inside a byte, any other character) is rejected *)
Theorem C48_hex_canonical : forall s b, try_parse_hex s = Some b -> hex_str b = hex_normal s.
Proof. exact hex_canonical. Qed.
Print Assumptions C48_hex_canonical.

(* ---- ConvertBits, base64, base32 ----
   digits_ok w l: every element of l is in [0, 2^w).  For 0 < to <= from (8->6, 8->5): the strict
   decoder inverts the padding encoder, and accepts nothing but encoder outputs. *)
Theorem C48_convertbits_roundtrip : forall from to inp, 0 < to <= from -> digits_ok from inp ->
  exists outs, convert_bits from to true inp = Some outs /\ digits_ok to outs /\
               convert_bits to from false outs = Some inp.
Proof. exact convert_bits_roundtrip. Qed.
Print Assumptions C48_convertbits_roundtrip.

Theorem C48_convertbits_canonical : forall from to outs X, 0 < to <= from -> digits_ok to outs ->
  convert_bits to from false outs = Some X ->
  digits_ok from X /\ convert_bits from to true X = Some outs.
Proof. exact convert_bits_canonical. Qed.
Print Assumptions C48_convertbits_canonical.

Theorem C48_base64_roundtrip : forall input, bytes_ok input ->
  exists s, encode_base64 input = Some s /\ decode_base64 s = Some input.
Proof. exact base64_roundtrip. Qed.
Print Assumptions C48_base64_roundtrip.

(* a string DecodeBase64 accepts is exactly EncodeBase64 of the result: wrong or missing padding,
   characters outside the alphabet (white space included) and non-zero discarded bits are rejected *)
Theorem C48_base64_canonical : forall s X, decode_base64 s = Some X -> encode_base64 X = Some s.
Proof. exact base64_canonical. Qed.
Print Assumptions C48_base64_canonical.

Theorem C48_base32_roundtrip : forall input, bytes_ok input ->
  exists s, encode_base32 true input = Some s /\ decode_base32 s = Some input.
Proof. exact base32_roundtrip. Qed.
Print Assumptions C48_base32_roundtrip.

(* ---- base58 ----
   EncodeBase58 / DecodeBase58 transcribed with their big-number arrays (b58[size], b256[size], the
   carry loops with the `length` short cut, the asserts).  `Some (Some x)`: decoded to x and no
   assert(carry == 0) fired; the arrays are always large enough (138/100 and 733/1000 bounds proved). *)
Theorem C48_base58_roundtrip : forall input max_ret_len, bytes_ok input -> Z.of_nat (length input) <= max_ret_len ->
  exists s, encode_base58 input = Some s /\ decode_base58 s max_ret_len = Some (Some input).
Proof. exact base58_roundtrip. Qed.
Print Assumptions C48_base58_roundtrip.

(* ---- money strings ---- every amount in the money range (MAX_MONEY, COIN from the compiled tree)
   survives FormatMoney then ParseMoney *)
Theorem C48_money_roundtrip : forall n, 0 <= n <= MAX_MONEY -> parse_money (format_money n) = Some n.
Proof. exact money_roundtrip. Qed.
Print Assumptions C48_money_roundtrip.

(* non-vacuity: a two-input segwit transaction with one witness stack goes through; the same bytes
   with the flags byte changed to 3 are rejected as unknown optional data; the extended encoding of
   the witness-free version (two empty stacks) is rejected as a superfluous witness record *)
Example C48_nonvacuous :
  let i1 := mk_txin (repeat 17%N 32) 1 [81%N] 4294967295 [[1; 2; 3]%N; []] in
  let i2 := mk_txin (repeat 34%N 32) 0 [] 4294967294 [] in
  let t := mk_tx 2 [i1; i2] [mk_txout 5000000000 [0; 20]%N] 500000000 in
  let b := ser_tx true t in
  let b0 := ser_tx false t in
  let body := firstn (length b0 - 8) (skipn 4 b0) in
  tx_wf t /\
  unser_tx true b = Ok t [] /\
  unser_tx true (firstn 5 b ++ [3%N] ++ skipn 6 b) = Err EUnknownOptional /\
  unser_tx true (firstn 4 b0 ++ [0; 1]%N ++ body ++ [0; 0]%N ++ skipn (length b0 - 4) b0) = Err ESuperfluous /\
  unser_tx false b0 = Ok (strip_witness t) [].
Proof.
  cbv zeta. split; [|vm_compute; repeat split; reflexivity].
  pose proof max_size_value as HM. unfold UINT32_MAX, INT64_MIN, INT64_MAX, tx_wf.
  repeat (first [split | constructor | (simpl; lia) | progress unfold txin_wf, txout_wf, bytes_ok, UINT32_MAX, INT64_MIN, INT64_MAX]).
Qed.
