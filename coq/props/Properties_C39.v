(* C39  Transaction-origin privacy is preserved.

   Relay model: coq/model/TxRelay.v (FindTxForGetData / info_for_relay / m_last_inv_sequence).  [rreach s]: s is obtained from a node with an
   empty mempool by any sequence of mempool admissions, removals, connected blocks, new peers and announcement snapshots, the uint64
   sequence counter not wrapping.  Private-broadcast queue: coq/model/PrivBcast.v (class PrivateBroadcast). *)
From BV Require Import lib.Ints gen.Params_gen model.TxRelay model.PrivBcast proofs.TxRelayLemmas proofs.PrivBcastLemmas.
Local Open Scope Z_scope.

(* The exact rule of the code: a GETDATA of peer p for tx is answered with the transaction iff p has tx relay and either tx is in the
   mempool with entry sequence < m_last_inv_sequence(p), or tx is in the most recent block. *)
Theorem C39_getdata_rule : forall s p tx,
  serve_getdata s p tx = true <->
  exists x, find_peer p (r_peers s) = Some x /\
            ((exists e, find_entry tx (r_pool s) = Some e /\ m_seq e < pr_last_inv x) \/ mem tx (r_recent s) = true).
Proof. exact serve_rule. Qed.
Print Assumptions C39_getdata_rule.

(* For all interleavings: a served unconfirmed transaction is in the most recent block, or was re-added from a disconnected block
   (entry sequence 0), or entered the mempool before the node last took an announcement snapshot for that peer. *)
Theorem C39_served_only_if_in_mempool_before_the_last_announcement_or_in_recent_block : forall s p tx,
  rreach s -> serve_getdata s p tx = true ->
  mem tx (r_recent s) = true \/
  exists x e, find_peer p (r_peers s) = Some x /\ find_entry tx (r_pool s) = Some e /\
              (m_seq e = 0 \/ exists T, pr_snap x = Some T /\ m_time e < T).
Proof. exact served_only_if_announced_or_recent. Qed.
Print Assumptions C39_served_only_if_in_mempool_before_the_last_announcement_or_in_recent_block.

(* The privacy direction stated negatively: a transaction admitted (not from a disconnected block) after the peer's last snapshot - or
   to a peer that never got one - and not in the most recent block is not handed out. *)
Theorem C39_not_served_when_admitted_after_the_last_announcement : forall s p tx x e,
  rreach s -> find_peer p (r_peers s) = Some x -> find_entry tx (r_pool s) = Some e -> m_seq e <> 0 ->
  (forall T, pr_snap x = Some T -> T <= m_time e) -> mem tx (r_recent s) = false -> serve_getdata s p tx = false.
Proof. exact not_served_if_admitted_after_snapshot. Qed.
Print Assumptions C39_not_served_when_admitted_after_the_last_announcement.

(* and the rule is not stricter than that: what was in the mempool at the last snapshot (and still is) is served *)
Theorem C39_served_when_in_mempool_at_the_last_announcement : forall s p tx x e T,
  rreach s -> find_peer p (r_peers s) = Some x -> find_entry tx (r_pool s) = Some e -> pr_snap x = Some T -> m_time e < T ->
  serve_getdata s p tx = true.
Proof. exact served_if_announced. Qed.
Print Assumptions C39_served_when_in_mempool_at_the_last_announcement.

(* A transaction enters the mempool only by the admission event (reception from the network or a submission without private broadcast):
   BroadcastTransaction(NO_MEMPOOL_PRIVATE_BROADCAST) (event EPrivate) leaves the mempool alone ... *)
Theorem C39_only_admission_puts_a_transaction_into_the_mempool : forall s ev tx e,
  find_entry tx (r_pool (rstep s ev)) = Some e -> find_entry tx (r_pool s) = None -> exists b, ev = EAdd tx b.
Proof. exact pool_grows_only_by_admission. Qed.
Print Assumptions C39_only_admission_puts_a_transaction_into_the_mempool.

(* ... so a privately submitted transaction is not handed out on ordinary connections. *)
Theorem C39_private_submission_is_not_served_to_ordinary_peers : forall s p tx,
  find_entry tx (r_pool s) = None -> mem tx (r_recent s) = false -> serve_getdata (rstep s (EPrivate tx)) p tx = false.
Proof. exact private_submission_not_served. Qed.
Print Assumptions C39_private_submission_is_not_served_to_ordinary_peers.

(* Private-broadcast queue, for every sequence of Add / Remove / PickTxForSend / NodeConfirmedReception and any limits: never more than
   max_transactions entries, never more than max_send_attempts send statuses for a transaction (they are cleared when an exhausted
   transaction is re-added), every node id recorded at most once (one transaction per connection). *)
Theorem C39_private_broadcast_queue_and_send_attempts_are_bounded : forall max_tx max_send ops,
  0 <= max_tx -> 0 <= max_send ->
  let pb := fold_left (pb_step max_tx max_send) ops [] in
  Z.of_nat (length pb) <= max_tx /\
  (forall e, In e pb -> Z.of_nat (length (t_stats e)) <= max_send) /\
  (forall n, ncount n pb <= 1) /\ NoDup (map t_tx pb).
Proof. intros mt ms ops H1 H2 pb. destruct (run_inv mt ms H1 H2 ops) as [A B C D]. auto. Qed.
Print Assumptions C39_private_broadcast_queue_and_send_attempts_are_bounded.

(* the same with the limits of the compiled tree: at most 10,000 transactions, at most 1,000 sends per (re-)addition *)
Theorem C39_private_broadcast_default_limits : forall ops,
  let pb := fold_left (pb_step PRIVBCAST_MAX_TRANSACTIONS PRIVBCAST_MAX_SEND_ATTEMPTS) ops [] in
  Z.of_nat (length pb) <= 10000 /\ (forall e, In e pb -> Z.of_nat (length (t_stats e)) <= 1000).
Proof. intros ops pb. destruct (run_inv PRIVBCAST_MAX_TRANSACTIONS PRIVBCAST_MAX_SEND_ATTEMPTS ltac:(unfold PRIVBCAST_MAX_TRANSACTIONS; lia) ltac:(unfold PRIVBCAST_MAX_SEND_ATTEMPTS; lia) ops) as [A B C D].
  unfold PRIVBCAST_MAX_TRANSACTIONS, PRIVBCAST_MAX_SEND_ATTEMPTS in *. auto. Qed.
Print Assumptions C39_private_broadcast_default_limits.

(* PickTxForSend: either it returns nothing (the node was already sent a transaction, or nothing is pending) and changes nothing, or it
   returns a pending transaction no other pending transaction has a strictly greater priority than, records exactly one new send status
   for it, and from then on GetTxForNode(node) is that transaction. *)
Theorem C39_pick_returns_a_pending_transaction_of_maximal_priority_once_per_node : forall max_tx max_send pb node addr now choice,
  0 <= max_tx -> 0 <= max_send -> PInv max_tx max_send pb ->
  let '(pb', r) := pb_pick max_send pb node addr now choice in
  PInv max_tx max_send pb' /\
  match r with
  | Some tx => ncount node pb = 0 /\ In tx (pick_candidates max_send pb) /\ pb' = upd_tx tx (appended node addr now) pb /\ pb_tx_for_node pb' node = Some tx
  | None => pb' = pb /\ (ncount node pb = 1 \/ existsb (is_pending max_send) pb = false)
  end.
Proof. intros mt ms pb node addr now choice H1 H2 PI. apply pick_spec; auto. Qed.
Print Assumptions C39_pick_returns_a_pending_transaction_of_maximal_priority_once_per_node.

Theorem C39_pick_candidates_are_the_pending_maxima : forall max_send pb tx,
  In tx (pick_candidates max_send pb) <->
  exists e, In e pb /\ t_tx e = tx /\ is_pending max_send e = true /\
            forall x, In x pb -> is_pending max_send x = true -> prio_lt (derive_priority (t_stats e)) (derive_priority (t_stats x)) = false.
Proof. exact candidates_spec. Qed.
Print Assumptions C39_pick_candidates_are_the_pending_maxima.

(* Non-vacuity: a run in which a transaction is refused before the peer's snapshot and served after it. *)
Example C39_nonvacuous :
  let s1 := fold_left rstep [EPeer 7; EAdd 100 false] rinit in
  let s2 := rstep s1 (ESnapshot 7) in
  rreach s2 /\ serve_getdata s1 7 100 = false /\ serve_getdata s2 7 100 = true.
Proof.
  assert (R0 : rreach rinit) by (apply (rreach_init 1); lia).
  assert (R1 : rreach (rstep rinit (EPeer 7))) by (apply rreach_step; [exact R0 | vm_compute; reflexivity]).
  assert (R2 : rreach (rstep (rstep rinit (EPeer 7)) (EAdd 100 false))) by (apply rreach_step; [exact R1 | vm_compute; reflexivity]).
  cbv zeta. split; [|split; vm_compute; reflexivity].
  apply rreach_step; [exact R2 | vm_compute; reflexivity].
Qed.
