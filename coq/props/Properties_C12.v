(* C12  The script interpreter implements Bitcoin script semantics.
   Only statements here; each is closed by `exact` of a lemma from proofs/Script*Lemmas.v.
   The interpreter is model/Script.v (eval_script_state = EvalScript).  In every theorem the hash functions
   (sha256 ripemd160 sha1), the flags fl, the signature/locktime checker ck and the sigversion sv are arbitrary. *)
From BV Require Import lib.Ints gen.Params_gen model.Script model.ScriptVerify
  proofs.ScriptNumLemmas proofs.ScriptLemmas proofs.ScriptInvLemmas proofs.ScriptOpLemmas proofs.ScriptCondLemmas proofs.ScriptMultisigLemmas proofs.ScriptTaprootLemmas.
Local Open Scope Z_scope.

(* ---- CScriptNum ---- *)

(* decode (encode n) = n for every integer; the encoding is made of bytes and is minimal *)
Theorem C12_scriptnum_roundtrip : forall n,
  num_decode (num_encode n) = n /\ num_minimal (num_encode n) = true /\ Forall (fun b => 0 <= b < 256) (num_encode n).
Proof. intros n. split; [apply num_decode_encode|split; [apply num_encode_minimal|apply num_encode_bytes_ok]]. Qed.
Print Assumptions C12_scriptnum_roundtrip.

(* encode is THE minimal encoding: a byte string that passes the fRequireMinimal test is the encoding of its value,
   hence two minimal strings with the same value are equal *)
Theorem C12_scriptnum_minimal_encoding_unique : forall v, Forall (fun b => 0 <= b < 256) v -> num_minimal v = true ->
  num_encode (num_decode v) = v.
Proof. exact num_encode_decode_minimal. Qed.
Print Assumptions C12_scriptnum_minimal_encoding_unique.

(* 4-byte operands are exactly the range +-(2^31 - 1); results of arithmetic on operands fit 5 bytes and do not
   wrap the int64; they can be pushed, but a result outside the range cannot be consumed as an operand again *)
Theorem C12_scriptnum_operand_range :
  (forall rm v n, Forall (fun b => 0 <= b < 256) v -> script_num rm 4 v = Ok n -> - (2 ^ 31 - 1) <= n <= 2 ^ 31 - 1) /\
  (forall rm n, - (2 ^ 31 - 1) <= n <= 2 ^ 31 - 1 -> script_num rm 4 (num_encode n) = Ok n) /\
  (forall rm n, 2 ^ 31 <= Z.abs n -> script_num rm 4 (num_encode n) = Err SE_SCRIPTNUM) /\
  (forall a b, - (2 ^ 31 - 1) <= a <= 2 ^ 31 - 1 -> - (2 ^ 31 - 1) <= b <= 2 ^ 31 - 1 ->
     wrap64 (a + b) = a + b /\ wrap64 (a - b) = a - b /\
     Z.of_nat (length (num_encode (a + b))) <= 5 /\ Z.of_nat (length (num_encode (a - b))) <= 5) /\
  SCR_DEFAULT_MAX_NUM_SIZE = 4.
Proof.
  split; [exact script_num_ok_range|]. split; [exact script_num_accepts_range|]. split; [exact script_num_rejects_out_of_range|].
  split; [exact arith_result_fits_5_bytes|reflexivity].
Qed.
Print Assumptions C12_scriptnum_operand_range.

(* ---- the interpreter ---- *)

(* Totality: every script on every stack yields Ok or one of the specific script errors.  EvalScript's catch-all
   SCRIPT_ERR_UNKNOWN_ERROR (an exception other than scriptnum_error, e.g. stack.at() out of range) is unreachable,
   provided the checker's Schnorr verdicts carry real error codes. *)
Theorem C12_eval_total_no_internal_error : forall sha256 ripemd160 sha1 fl ck sv script stack w,
  (forall a b c, chk_schnorr ck a b c <> Some SE_UNKNOWN_ERROR) ->
  eval_script_state sha256 ripemd160 sha1 fl ck sv script stack w <> Err SE_UNKNOWN_ERROR.
Proof. intros. apply eval_script_state_noU. assumption. Qed.
Print Assumptions C12_eval_total_no_internal_error.

(* Resource bounds as an invariant over execution steps: starting from a state within the limits, after ANY prefix a of
   the instruction list of a successful run, the state is within the limits (every element of both stacks is a byte
   string of at most MAX_SCRIPT_ELEMENT_SIZE bytes, stack + altstack <= MAX_STACK_SIZE, opcount <= MAX_OPS_PER_SCRIPT). *)
Theorem C12_limits_hold_in_every_execution_state : forall sha256 ripemd160 sha1,
  (forall x, bytes_ok (sha256 x) /\ lenz (sha256 x) = 32) ->
  (forall x, bytes_ok (ripemd160 x) /\ lenz (ripemd160 x) = 20) ->
  (forall x, bytes_ok (sha1 x) /\ lenz (sha1 x) = 20) ->
  forall fl ck sv a b ok st st', inv st -> Forall (fun p => bytes_ok (p_data p)) (a ++ b) ->
  eval_ops sha256 ripemd160 sha1 fl ck sv (a ++ b) ok st = Ok st' ->
  exists mid, eval_ops sha256 ripemd160 sha1 fl ck sv a true st = Ok mid /\ inv mid /\
              eval_ops sha256 ripemd160 sha1 fl ck sv b ok mid = Ok st' /\ inv st'.
Proof. exact limits_invariant_every_step. Qed.
Print Assumptions C12_limits_hold_in_every_execution_state.

Theorem C12_limits_hold_after_eval : forall sha256 ripemd160 sha1,
  (forall x, bytes_ok (sha256 x) /\ lenz (sha256 x) = 32) ->
  (forall x, bytes_ok (ripemd160 x) /\ lenz (ripemd160 x) = 20) ->
  (forall x, bytes_ok (sha1 x) /\ lenz (sha1 x) = 20) ->
  forall fl ck sv script stack w st',
  bytes_ok script -> Forall (fun e => bytes_ok e /\ lenz e <= MAX_SCRIPT_ELEMENT_SIZE) stack -> lenz stack <= MAX_STACK_SIZE ->
  eval_script_state sha256 ripemd160 sha1 fl ck sv script stack w = Ok st' ->
  Forall (fun e => bytes_ok e /\ lenz e <= MAX_SCRIPT_ELEMENT_SIZE) (st_stack st') /\
  Forall (fun e => bytes_ok e /\ lenz e <= MAX_SCRIPT_ELEMENT_SIZE) (st_alt st') /\
  lenz (st_stack st') + lenz (st_alt st') <= MAX_STACK_SIZE /\ 0 <= st_opcount st' <= MAX_OPS_PER_SCRIPT.
Proof. exact eval_script_limits. Qed.
Print Assumptions C12_limits_hold_after_eval.

(* Unbalanced conditionals are rejected: a script that evaluates successfully parses completely and its IF/NOTIF,
   ELSE, ENDIF (all of them, executed or not) are balanced: no ELSE/ENDIF without an open IF, depth 0 at the end. *)
Theorem C12_unbalanced_conditional_rejected : forall sha256 ripemd160 sha1 fl ck sv script stack w st',
  lenz script < 4294967295 ->
  eval_script_state sha256 ripemd160 sha1 fl ck sv script stack w = Ok st' ->
  cond_depth (fst (parse_script script)) 0 = Some 0 /\ snd (parse_script script) = true.
Proof. exact unbalanced_conditional_rejected. Qed.
Print Assumptions C12_unbalanced_conditional_rejected.

(* Disabled opcodes fail even in unexecuted branches: an instruction list containing one never succeeds, and the
   step itself reports DISABLED_OPCODE whatever the condition stack says ... *)
Theorem C12_disabled_opcode_never_succeeds : forall sha256 ripemd160 sha1 fl ck sv,
  (forall ops ok st p, In p ops -> decode_op (p_code p) = O_DISABLED ->
     forall st', eval_ops sha256 ripemd160 sha1 fl ck sv ops ok st <> Ok st') /\
  (forall p st, decode_op (p_code p) = O_DISABLED -> lenz (p_data p) <= MAX_SCRIPT_ELEMENT_SIZE ->
     (is_tapscript sv = true \/ st_opcount st < MAX_OPS_PER_SCRIPT) ->
     step sha256 ripemd160 sha1 fl ck sv p st = Err SE_DISABLED_OPCODE).
Proof. intros. split; [apply disabled_never_succeeds|apply step_disabled_error]. Qed.
Print Assumptions C12_disabled_opcode_never_succeeds.

(* ... while any other opcode outside IF..ENDIF in a branch that is not executed is skipped: the step succeeds and
   leaves both stacks, the condition stack and the code position untouched. *)
Theorem C12_unexecuted_branch_is_skipped : forall sha256 ripemd160 sha1 fl ck sv p st,
  cond_all_true st = false -> in_if_range (p_code p) = false ->
  (match decode_op (p_code p) with O_DISABLED => False
   | O_CODESEPARATOR => is_base sv && has fl SCR_FLAG_CONST_SCRIPTCODE = false | _ => True end) ->
  lenz (p_data p) <= MAX_SCRIPT_ELEMENT_SIZE ->
  (is_tapscript sv = true \/ p_code p <= 96 \/ st_opcount st < MAX_OPS_PER_SCRIPT) ->
  lenz (st_stack st) + lenz (st_alt st) <= MAX_STACK_SIZE ->
  exists st', step sha256 ripemd160 sha1 fl ck sv p st = Ok st' /\ st_stack st' = st_stack st /\ st_alt st' = st_alt st /\
              st_cond_size st' = st_cond_size st /\ st_cond_ff st' = st_cond_ff st /\ st_code st' = st_code st.
Proof. exact step_skipped. Qed.
Print Assumptions C12_unexecuted_branch_is_skipped.

(* The opcode decoder of the model agrees with the opcode values of the compiled tree (generated constants). *)
Theorem C12_opcode_table_matches_compiled_tree :
  decode_op SCR_OP_DUP = O_DUP /\ decode_op SCR_OP_ROLL = O_ROLL /\ decode_op SCR_OP_PICK = O_PICK /\
  decode_op SCR_OP_CHECKSIG = O_CHECKSIG /\ decode_op SCR_OP_CHECKMULTISIG = O_CHECKMULTISIG /\
  decode_op SCR_OP_CAT = O_DISABLED /\ decode_op SCR_OP_IF = O_IF /\ decode_op SCR_OP_ENDIF = O_ENDIF /\
  decode_op SCR_OP_ADD = O_BINARY B_ADD /\ decode_op SCR_OP_WITHIN = O_WITHIN /\ decode_op SCR_OP_CHECKSIGADD = O_CHECKSIGADD /\
  decode_op SCR_OP_CHECKLOCKTIMEVERIFY = O_CLTV /\ decode_op SCR_OP_CHECKSEQUENCEVERIFY = O_CSV /\ decode_op SCR_OP_NOP10 = O_NOPN /\
  (forall c, SCR_OP_1 <= c <= SCR_OP_16 -> decode_op c = O_SMALLINT (c - (SCR_OP_1 - 1))) /\
  (forall c, 0 <= c <= SCR_OP_PUSHDATA4 -> decode_op c = O_PUSHDATA) /\
  (forall c, SCR_MAX_OPCODE + 1 < c -> decode_op c = O_BAD).
Proof. pose proof decode_op_table as H. repeat split; try reflexivity; intuition. Qed.
Print Assumptions C12_opcode_table_matches_compiled_tree.

(* ---- per-opcode specifications (executed instruction, stack top first) ---- *)

Theorem C12_stack_opcodes_spec : forall sha256 ripemd160 sha1 fl ck sv p fx st,
  let X := exec_op sha256 ripemd160 sha1 fl ck sv p in
  (forall x r, st_stack st = x :: r -> X O_DUP fx st = Ok (set_stack st (x :: x :: r))) /\
  (forall x r, st_stack st = x :: r -> X O_DROP fx st = Ok (set_stack st r)) /\
  (forall x2 x1 r, st_stack st = x2 :: x1 :: r -> X O_NIP fx st = Ok (set_stack st (x2 :: r))) /\
  (forall x2 x1 r, st_stack st = x2 :: x1 :: r -> X O_OVER fx st = Ok (set_stack st (x1 :: x2 :: x1 :: r))) /\
  (forall x3 x2 x1 r, st_stack st = x3 :: x2 :: x1 :: r -> X O_ROT fx st = Ok (set_stack st (x1 :: x3 :: x2 :: r))) /\
  (forall x2 x1 r, st_stack st = x2 :: x1 :: r -> X O_SWAP fx st = Ok (set_stack st (x1 :: x2 :: r))) /\
  (forall x2 x1 r, st_stack st = x2 :: x1 :: r -> X O_TUCK fx st = Ok (set_stack st (x2 :: x1 :: x2 :: r))) /\
  (forall x2 x1 r, st_stack st = x2 :: x1 :: r -> X O_2DROP fx st = Ok (set_stack st r)) /\
  (forall x2 x1 r, st_stack st = x2 :: x1 :: r -> X O_2DUP fx st = Ok (set_stack st (x2 :: x1 :: x2 :: x1 :: r))) /\
  (forall x3 x2 x1 r, st_stack st = x3 :: x2 :: x1 :: r -> X O_3DUP fx st = Ok (set_stack st (x3 :: x2 :: x1 :: x3 :: x2 :: x1 :: r))) /\
  (forall x4 x3 x2 x1 r, st_stack st = x4 :: x3 :: x2 :: x1 :: r -> X O_2OVER fx st = Ok (set_stack st (x2 :: x1 :: x4 :: x3 :: x2 :: x1 :: r))) /\
  (forall x6 x5 x4 x3 x2 x1 r, st_stack st = x6 :: x5 :: x4 :: x3 :: x2 :: x1 :: r ->
     X O_2ROT fx st = Ok (set_stack st (x2 :: x1 :: x6 :: x5 :: x4 :: x3 :: r))) /\
  (forall x4 x3 x2 x1 r, st_stack st = x4 :: x3 :: x2 :: x1 :: r -> X O_2SWAP fx st = Ok (set_stack st (x2 :: x1 :: x4 :: x3 :: r))) /\
  (forall x r, st_stack st = x :: r -> X O_IFDUP fx st = Ok (set_stack st (if cast_to_bool x then x :: x :: r else x :: r))) /\
  X O_DEPTH fx st = Ok (set_stack st (num_encode (lenz (st_stack st)) :: st_stack st)) /\
  (forall x r, st_stack st = x :: r -> X O_SIZE fx st = Ok (set_stack st (num_encode (lenz x) :: x :: r))) /\
  (forall x r, st_stack st = x :: r -> X O_TOALTSTACK fx st = Ok (set_stacks st r (x :: st_alt st))) /\
  (forall x a, st_alt st = x :: a -> X O_FROMALTSTACK fx st = Ok (set_stacks st (x :: st_stack st) a)) /\
  (st_alt st = [] -> X O_FROMALTSTACK fx st = Err SE_INVALID_ALTSTACK_OPERATION) /\
  (forall x2 x1 r, st_stack st = x2 :: x1 :: r -> X O_EQUAL fx st = Ok (set_stack st ((if list_eq_dec Z.eq_dec x1 x2 then [1] else []) :: r))) /\
  (forall x r, st_stack st = x :: r -> X O_VERIFY fx st = if cast_to_bool x then Ok (set_stack st r) else Err SE_VERIFY) /\
  X O_RETURN fx st = Err SE_OP_RETURN /\
  (forall o n, min_depth o = Some n -> (length (st_stack st) < n)%nat -> X o fx st = Err SE_INVALID_STACK_OPERATION).
Proof.
  intros. unfold X. repeat split; intros;
    eauto using op_dup_spec, op_drop_spec, op_nip_spec, op_over_spec, op_rot_spec, op_swap_spec, op_tuck_spec, op_2drop_spec, op_2dup_spec,
      op_3dup_spec, op_2over_spec, op_2rot_spec, op_2swap_spec, op_ifdup_spec, op_depth_spec, op_size_spec, op_toaltstack_spec,
      op_fromaltstack_spec, op_fromaltstack_empty, op_equal_spec, op_verify_spec, op_return_spec, op_too_few_elements.
Qed.
Print Assumptions C12_stack_opcodes_spec.

(* OP_PICK copies, OP_ROLL moves, the n-th element (0 = top, after the index itself is popped); both require 0 <= n < size *)
Theorem C12_pick_roll_spec : forall sha256 ripemd160 sha1 fl ck sv p fx st vn r n,
  st_stack st = vn :: r -> r <> [] -> bytes_ok vn -> num4 fl vn = Ok n ->
  (0 <= n < lenz r ->
     exists x, nth_error r (Z.to_nat n) = Some x /\ r = firstn (Z.to_nat n) r ++ x :: skipn (S (Z.to_nat n)) r /\
       exec_op sha256 ripemd160 sha1 fl ck sv p O_PICK fx st = Ok (set_stack st (x :: r)) /\
       exec_op sha256 ripemd160 sha1 fl ck sv p O_ROLL fx st = Ok (set_stack st (x :: firstn (Z.to_nat n) r ++ skipn (S (Z.to_nat n)) r))) /\
  (n < 0 \/ lenz r <= n ->
     exec_op sha256 ripemd160 sha1 fl ck sv p O_PICK fx st = Err SE_INVALID_STACK_OPERATION /\
     exec_op sha256 ripemd160 sha1 fl ck sv p O_ROLL fx st = Err SE_INVALID_STACK_OPERATION).
Proof.
  intros sha256 ripemd160 sha1 fl ck sv p fx st vn r n Hs Hr Hv Hn. split.
  - intros Hrange.
    destruct (op_pick_spec sha256 ripemd160 sha1 fl ck sv p fx st vn r n Hs Hr Hv Hn Hrange) as (x & Hx & Hp).
    destruct (op_roll_spec sha256 ripemd160 sha1 fl ck sv p fx st vn r n Hs Hr Hv Hn Hrange) as (x' & Hx' & Hro).
    assert (x' = x) by congruence. subst x'. exists x. repeat split; auto. apply roll_decompose. exact Hx.
  - intros Hout. split; eapply op_pick_roll_out_of_range; eauto.
Qed.
Print Assumptions C12_pick_roll_spec.

(* arithmetic: 1ADD 1SUB NEGATE ABS NOT 0NOTEQUAL / ADD SUB BOOLAND BOOLOR NUMEQUAL NUMNOTEQUAL LESSTHAN GREATERTHAN
   LESSTHANOREQUAL GREATERTHANOREQUAL MIN MAX / NUMEQUALVERIFY / WITHIN (min <= x < max), on 4-byte operands *)
Theorem C12_arithmetic_opcodes_spec : forall sha256 ripemd160 sha1 fl ck sv p fx st,
  let X := exec_op sha256 ripemd160 sha1 fl ck sv p in
  (forall u x r n, st_stack st = x :: r -> bytes_ok x -> num4 fl x = Ok n ->
     X (O_UNARY u) fx st = Ok (set_stack st (num_encode (unop_spec u n) :: r))) /\
  (forall b x2 x1 r a1 a2, b <> B_NUMEQUALVERIFY -> st_stack st = x2 :: x1 :: r -> bytes_ok x1 -> bytes_ok x2 ->
     num4 fl x1 = Ok a1 -> num4 fl x2 = Ok a2 ->
     X (O_BINARY b) fx st = Ok (set_stack st (num_encode (binop_spec b a1 a2) :: r))) /\
  (forall x2 x1 r a1 a2, st_stack st = x2 :: x1 :: r -> bytes_ok x1 -> bytes_ok x2 -> num4 fl x1 = Ok a1 -> num4 fl x2 = Ok a2 ->
     X (O_BINARY B_NUMEQUALVERIFY) fx st = if a1 =? a2 then Ok (set_stack st r) else Err SE_NUMEQUALVERIFY) /\
  (forall x3 x2 x1 r v lo hi, st_stack st = x3 :: x2 :: x1 :: r -> num4 fl x1 = Ok v -> num4 fl x2 = Ok lo -> num4 fl x3 = Ok hi ->
     X O_WITHIN fx st = Ok (set_stack st ((if (lo <=? v) && (v <? hi) then [1] else []) :: r))) /\
  (forall u x r, st_stack st = x :: r -> 4 < lenz x -> X (O_UNARY u) fx st = Err SE_SCRIPTNUM).
Proof.
  intros. unfold X. repeat split; intros;
    eauto using op_unary_spec, op_binary_spec, op_numequalverify_spec, op_within_spec.
  eapply op_operand_too_long; eauto.
Qed.
Print Assumptions C12_arithmetic_opcodes_spec.

(* The ConditionStack of EvalScript (only a size and the position of the first false are stored) implements a stack of
   booleans vf (top first) of which "empty" and "all true" are the only observables: IF/NOTIF push, ELSE toggles the
   top, ENDIF pops.  (cond_rep vf st: the state's pair represents vf.) *)
Theorem C12_condition_stack_is_a_stack_of_booleans : forall (vf : list bool) (st : state) (b : bool), lenz vf + 1 < NO_FALSE -> cond_rep vf st ->
  (cond_all_true st = forallb (fun x => x) vf /\ cond_empty st = negb (nonempty_list vf)) /\ 
  cond_rep (b :: vf) (cond_push st b) /\ 
  (forall st2, cond_rep (b :: vf) st2 -> cond_rep vf (cond_pop st2) /\ cond_rep (negb b :: vf) (cond_toggle st2)).
Proof.
  intros vf st b Hl Hr. split; [destruct (cond_rep_observables vf st ltac:(lia) Hr) as [H1 H2]; split; [exact H1|rewrite H2; destruct vf; reflexivity]|]. split; [apply cond_rep_push; assumption|].
  intros st2 H2. split; [eapply cond_rep_pop; eauto|apply cond_rep_toggle; assumption].
Qed.
Print Assumptions C12_condition_stack_is_a_stack_of_booleans.

(* VerifyScript rules (model/ScriptVerify.v): BIP16 P2SH and SIGPUSHONLY need a push-only scriptSig; CLEANSTACK on a plain output
   leaves exactly one, true, element; a native witness program needs an empty scriptSig. *)
Theorem C12_verifyscript_rules : forall sha256 ripemd160 sha1 fl ck tap_commit scriptSig scriptPubKey witness,
  verify_script sha256 ripemd160 sha1 fl ck tap_commit scriptSig scriptPubKey witness = Some (Ok tt) ->
  (has fl SCR_FLAG_P2SH = true -> is_pay_to_script_hash scriptPubKey = true -> is_push_only scriptSig = true) /\
  (has fl SCR_FLAG_SIGPUSHONLY = true -> is_push_only scriptSig = true) /\
  (has fl SCR_FLAG_CLEANSTACK = true -> witness_program scriptPubKey = None -> is_pay_to_script_hash scriptPubKey = false ->
     exists s1 top, eval sha256 ripemd160 sha1 fl ck SV_BASE scriptSig [] = Ok s1 /\
                    eval sha256 ripemd160 sha1 fl ck SV_BASE scriptPubKey s1 = Ok [top] /\ cast_to_bool top = true) /\
  (forall ver prog, has fl SCR_FLAG_WITNESS = true -> witness_program scriptPubKey = Some (ver, prog) -> scriptSig = []).
Proof.
  intros sha256 ripemd160 sha1 fl ck tap_commit ssig spk wit H. repeat split; intros.
  - eapply p2sh_requires_pushonly; eauto.
  - eapply sigpushonly_requires_pushonly; eauto.
  - eapply cleanstack_one_element; eauto.
  - eapply witness_requires_empty_scriptsig; eauto.
Qed.
Print Assumptions C12_verifyscript_rules.

(* OP_CHECKMULTISIG's matching loop (signatures and keys listed top of stack first, the order in which the loop consumes
   them): when the encoding checks pass, it reports true exactly when all signatures can be matched, in order, to
   distinct keys in order, each pair accepted by the checker. *)
Theorem C12_checkmultisig_matching_spec : forall fl ck sv code keys sigs,
  (forall s, In s sigs -> check_signature_encoding fl s = Ok tt) ->
  (forall k, In k keys -> check_pubkey_encoding fl sv k = Ok tt) ->
  exists b, multisig_loop fl ck sv code keys sigs = Ok b /\ (b = true <-> matches ck sv code keys sigs).
Proof. intros fl ck sv code keys sigs Hs Hk. apply multisig_loop_spec. split; assumption. Qed.
Print Assumptions C12_checkmultisig_matching_spec.

(* Tapscript (ExecuteWitnessScript with SigVersion::TAPSCRIPT; has_op_success script = some instruction that parses is an
   OP_SUCCESSx).  OP_SUCCESSx overrides everything: for EVERY witness stack (any number of elements, of any sizes) and
   whatever follows in the script, the spend succeeds at once, or fails with DISCOURAGE_OP_SUCCESS under that policy flag. *)
Theorem C12_op_success_overrides_everything : forall sha256 ripemd160 sha1 fl ck stack script w,
  has_op_success script = true ->
  execute_witness_script sha256 ripemd160 sha1 fl ck SV_TAPSCRIPT stack script w =
    if has fl SCR_FLAG_DISCOURAGE_OP_SUCCESS then Err SE_DISCOURAGE_OP_SUCCESS else Ok tt.
Proof. exact op_success_overrides_everything. Qed.
Print Assumptions C12_op_success_overrides_everything.

(* Otherwise the limits are enforced before anything is executed: an unparsable script is BAD_OPCODE, more than MAX_STACK_SIZE
   initial elements is STACK_SIZE, an element above MAX_SCRIPT_ELEMENT_SIZE is PUSH_SIZE (in this order). *)
Theorem C12_tapscript_limits_without_op_success : forall sha256 ripemd160 sha1 fl ck stack script w,
  has_op_success script = false ->
  (snd (parse_script script) = false -> execute_witness_script sha256 ripemd160 sha1 fl ck SV_TAPSCRIPT stack script w = Err SE_BAD_OPCODE) /\
  (snd (parse_script script) = true -> lenz stack > MAX_STACK_SIZE ->
     execute_witness_script sha256 ripemd160 sha1 fl ck SV_TAPSCRIPT stack script w = Err SE_STACK_SIZE) /\
  (snd (parse_script script) = true -> lenz stack <= MAX_STACK_SIZE -> existsb (fun e => lenz e >? MAX_SCRIPT_ELEMENT_SIZE) stack = true ->
     execute_witness_script sha256 ripemd160 sha1 fl ck SV_TAPSCRIPT stack script w = Err SE_PUSH_SIZE).
Proof. intros s r h fl ck. exact (tapscript_limits_without_op_success s r h fl ck (fun _ _ _ => true)). Qed.
Print Assumptions C12_tapscript_limits_without_op_success.

(* A taproot script-path spend (witness = args, script, control block [, annex]) under SCRIPT_VERIFY_TAPROOT with a control
   block of a legal size (33 + 32m, m <= 128) whose commitment checks out (oracle tap_commit) and whose leaf version is 0xc0 is
   decided by ExecuteWitnessScript on the arguments, with validation weight = serialized witness size + 50; hence with an
   OP_SUCCESSx in the leaf it succeeds for every argument list. *)
Theorem C12_taproot_script_path_dispatch : forall sha256 ripemd160 sha1 fl ck tap_commit control script args prog annex,
  has fl SCR_FLAG_TAPROOT = true -> control_size_ok (lenz control) = true -> tap_commit control prog script = true ->
  leaf_is_tapscript control = true -> (match annex with Some a => is_annex a = true | None => True end) ->
  let wstack := (match annex with Some a => [a] | None => [] end) ++ control :: script :: args in
  verify_taproot sha256 ripemd160 sha1 fl ck tap_commit wstack prog =
    execute_witness_script sha256 ripemd160 sha1 fl ck SV_TAPSCRIPT args script (witness_serialize_size wstack + SCR_VALIDATION_WEIGHT_OFFSET) /\
  (has_op_success script = true -> has fl SCR_FLAG_DISCOURAGE_OP_SUCCESS = false ->
   verify_taproot sha256 ripemd160 sha1 fl ck tap_commit wstack prog = Ok tt).
Proof.
  intros sha256 ripemd160 sha1 fl ck tap_commit control script args prog annex HT Hs Hc Hl Ha. cbv zeta.
  pose proof (taproot_script_path sha256 ripemd160 sha1 fl ck tap_commit control script args prog annex HT Hs Hc Hl Ha) as H.
  cbv zeta in H. split; [exact H|]. intros Hos Hd. eapply eq_trans; [exact H|].
  rewrite (op_success_overrides_everything sha256 ripemd160 sha1 fl ck _ _ _ Hos). unfold op_success_verdict. rewrite Hd. reflexivity.
Qed.
Print Assumptions C12_taproot_script_path_dispatch.

(* FindAndDelete leaves the script unchanged when the pattern does not occur at an instruction boundary *)
Theorem C12_find_and_delete_nothing_found : forall script b r, find_and_delete script b = (r, 0) -> r = script.
Proof. exact find_and_delete_none. Qed.
Print Assumptions C12_find_and_delete_nothing_found.

(* non-vacuity: a concrete script runs to the expected stack (identity "hashes", stub checker);
   2 3 ADD 5 EQUAL leaves [01]; 1 IF 2 ELSE 3 ENDIF leaves [02]; CAT in a dead branch fails; -2147483647 1 SUB then 1ADD fails *)
Example C12_nonvacuous :
  let ev s := eval_script (fun x => x) (fun x => x) (fun x => x) 0 (stub_checker 0) SV_BASE s [] in
  ev [82; 83; 147; 85; 135] = Ok [[1]] /\
  ev [81; 99; 82; 103; 83; 104] = Ok [[2]] /\
  ev [0; 99; 126; 104; 81] = Err SE_DISABLED_OPCODE /\
  ev [0; 99; 80; 104; 81] = Ok [[1]] /\
  ev [4; 255; 255; 255; 255; 140] = Ok [[0; 0; 0; 128; 128]] /\
  ev [4; 255; 255; 255; 255; 140; 139] = Err SE_SCRIPTNUM /\
  ev [81; 82; 83; 81; 122] = Ok [[2]; [3]; [1]] /\
  ev [99] = Err SE_INVALID_STACK_OPERATION /\ ev [81; 99] = Err SE_UNBALANCED_CONDITIONAL.
Proof. vm_compute. repeat split. Qed.
