(* C55  Saving and reloading the mempool preserves it.
   Model: model/MempoolPersist.v (DumpMempool / LoadMempool of src/node/mempool_persist.cpp over an abstract
   transaction codec (T, ser, unser, txid) and an abstract normal-submission verdict `accept`).
   Premises that stay in the statements: the codec round trip `unser (ser t ++ rest) = Ok t rest` on well-formed
   transactions and, for the truncation theorem only, `a strict prefix of a serialized transaction does not parse`.
   Both are discharged for the SerTx codec, which the extracted model runs (C55_instance_codec_roundtrip,
   C55_instance_codec_prefix), so that C55_instance_truncated_file_is_a_failed_load has no codec premise left. *)
From Coq Require Import NArith.
From BV Require Import lib.Ints gen.Params_gen model.SerBase model.SerTx model.CryptoSHA256 model.MempoolPersist
                       proofs.MempoolPersistLemmas proofs.MempoolPersistPool proofs.MempoolPersistRestore
                       proofs.MempoolPersistSafety proofs.MempoolPersistTrunc proofs.MempoolPersistMain proofs.MempoolPersistTxPrefix.
Local Open Scope Z_scope.

(* The file format round-trips: every snapshot (records with times and fee deltas, extra deltas, unbroadcast set),
   both file versions, every XOR key. *)
Theorem C55_file_roundtrip :
  forall (T : Type) (ser : T -> list N) (unser : list N -> res T) (wfT : T -> Prop),
  (forall t rest, wfT t -> unser (ser t ++ rest) = Ok t rest) ->
  forall (v1 : bool) (key : list N) (d : snapshot T),
  snapshot_wf T wfT d -> length key = 8%nat ->
  parse_file T unser (encode_file T ser v1 key d) = Ok d [].
Proof. intros T ser unser wfT H v1 key d. apply (parse_file_encode T ser unser wfT H). Qed.
Print Assumptions C55_file_roundtrip.

(* LoadMempool succeeds exactly on the byte strings that parse as a file, whatever the pool, the clock and normal
   submission do; on success the pool is the saved contents applied in order: for each record PrioritiseTransaction
   (if the delta is non-zero) BEFORE the expiry test and the submission, then the extra deltas, then the unbroadcast marks. *)
Theorem C55_load_succeeds_iff_file_parses_and_applies_its_contents :
  forall (T : Type) (unser : list N -> res T) (txid : T -> list N) (accept : pool -> T -> Z -> bool)
         (now expiry : Z) (opts : load_opts) (file : list N) (p : pool),
  (lres_ok (load_file T unser txid accept now expiry opts file p) = true <-> exists d rest, parse_file T unser file = Ok d rest) /\
  (forall d rest, parse_file T unser file = Ok d rest ->
     load_file T unser txid accept now expiry opts file p = LOk (apply_snapshot T txid accept now expiry opts d p) rest).
Proof.
  intros. split; [apply load_ok_iff_parse|]. intros d rest H. apply load_parse_ok. exact H.
Qed.
Print Assumptions C55_load_succeeds_iff_file_parses_and_applies_its_contents.

(* Dump, then load with the startup options into an empty pool: the load succeeds and consumes the whole file;
   the pool holds, in saved order, exactly the saved records that are unexpired and that normal submission accepts
   when their turn comes (`accepted_recs`: submission sees the pool with the record's own delta already in mapDeltas),
   each with its saved entry time and fee delta; mapDeltas is restored for saved and for absent transactions;
   the unbroadcast set is the saved one restricted to the transactions that made it in. *)
Theorem C55_dump_then_load_restores :
  forall (T : Type) (ser : T -> list N) (unser : list N -> res T) (txid : T -> list N) (wfT : T -> Prop)
         (accept : pool -> T -> Z -> bool) (now expiry : Z),
  (forall t rest, wfT t -> unser (ser t ++ rest) = Ok t rest) ->
  forall (v1 : bool) (key : list N) (infos : list (mrec T)) (p0 : pool),
  infos_wf T txid wfT infos -> pool_wf p0 -> length key = 8%nat ->
  exists q,
    load_file T unser txid accept now expiry startup_opts (dump_file T ser txid v1 key infos p0) empty_pool = LOk q []
    /\ p_entries q = map (entry_of T txid) (accepted_recs T txid accept now expiry startup_opts empty_pool infos)
    /\ (forall r, In r infos -> dm_find (rec_id T txid r) (p_deltas q) = if r_delta r =? 0 then None else Some (r_delta r))
    /\ (forall id, ~ In id (map (rec_id T txid) infos) -> dm_find id (p_deltas q) = dm_find id (p_deltas p0))
    /\ p_unb q = filter (fun id => in_pool id q) (p_unb p0).
Proof. intros T ser unser txid wfT accept now expiry H. apply (dump_then_load T ser unser txid wfT accept now expiry H). Qed.
Print Assumptions C55_dump_then_load_restores.

(* When the verdict of normal submission does not depend on the pool state, the restored entries are exactly the
   unexpired acceptable saved ones, in saved order, with their saved times and deltas. *)
Theorem C55_restored_entries_are_the_unexpired_acceptable_ones :
  forall (T : Type) (txid : T -> list N) (accept : pool -> T -> Z -> bool) (now expiry : Z) (a : T -> Z -> bool)
         (infos : list (mrec T)),
  (forall p t tm, accept p t tm = a t tm) -> NoDup (map (rec_id T txid) infos) ->
  map (entry_of T txid) (accepted_recs T txid accept now expiry startup_opts empty_pool infos)
  = map (entry_of T txid) (filter (fun r => (r_time r >? now - expiry) && a (r_tx r) (r_time r)) infos).
Proof.
  intros T txid accept now expiry a infos SA ND. f_equal.
  apply (accepted_recs_stateless T txid accept now expiry a infos empty_pool SA ND). intros r _ [].
Qed.
Print Assumptions C55_restored_entries_are_the_unexpired_acceptable_ones.

(* The dumped file loaded into ANY pool with ANY options succeeds with the saved contents applied. *)
Theorem C55_dump_then_load_any_pool_any_options :
  forall (T : Type) (ser : T -> list N) (unser : list N -> res T) (txid : T -> list N) (wfT : T -> Prop)
         (accept : pool -> T -> Z -> bool) (now expiry : Z),
  (forall t rest, wfT t -> unser (ser t ++ rest) = Ok t rest) ->
  forall (opts : load_opts) (v1 : bool) (key : list N) (infos : list (mrec T)) (p0 p : pool),
  infos_wf T txid wfT infos -> pool_wf p0 -> length key = 8%nat ->
  load_file T unser txid accept now expiry opts (dump_file T ser txid v1 key infos p0) p
  = LOk (apply_snapshot T txid accept now expiry opts (dump_snapshot T txid infos (p_deltas p0) (p_unb p0)) p) [].
Proof. intros T ser unser txid wfT accept now expiry H. apply (dump_then_load_any T ser unser txid wfT accept now expiry H). Qed.
Print Assumptions C55_dump_then_load_any_pool_any_options.

(* EVERY strict prefix of a dumped file is reported as a failed load; what stays in the pool is the effect of the
   first m saved records for some m (possibly all of them plus the saved mapDeltas) - never anything else. *)
Theorem C55_truncated_file_is_a_failed_load :
  forall (T : Type) (ser : T -> list N) (unser : list N -> res T) (txid : T -> list N) (wfT : T -> Prop)
         (accept : pool -> T -> Z -> bool) (now expiry : Z) (opts : load_opts),
  (forall t rest, wfT t -> unser (ser t ++ rest) = Ok t rest) ->
  (forall t n, wfT t -> (n < length (ser t))%nat -> exists e, unser (firstn n (ser t)) = Err e) ->
  forall (v1 : bool) (key : list N) (d : snapshot T) (p : pool) (n : nat),
  snapshot_wf T wfT d -> length key = 8%nat -> (n < length (encode_file T ser v1 key d))%nat ->
  exists q e,
    load_file T unser txid accept now expiry opts (firstn n (encode_file T ser v1 key d)) p = LFail q e /\
    ((exists m, (m <= length (sn_recs d))%nat /\ q = fold_left (apply_rec T txid accept now expiry opts) (firstn m (sn_recs d)) p)
     \/ q = apply_deltas opts (fold_left (apply_rec T txid accept now expiry opts) (sn_recs d) p) (sn_deltas d)).
Proof.
  intros T ser unser txid wfT accept now expiry opts H1 H2 v1 key d p n W K Hn.
  exact (load_truncated T ser unser txid wfT accept now expiry opts H1 H2 v1 key d p n W K Hn).
Qed.
Print Assumptions C55_truncated_file_is_a_failed_load.

(* ARBITRARY bytes (truncated, corrupted, hostile): the loader never removes a pool entry and never changes an
   entry's time; every entry it adds passed normal submission with the time it has; the unbroadcast set only grows,
   and only by transactions that are in the pool. *)
Theorem C55_arbitrary_file_never_removes_and_adds_only_accepted :
  forall (T : Type) (unser : list N -> res T) (txid : T -> list N) (accept : pool -> T -> Z -> bool)
         (now expiry : Z) (opts : load_opts) (file : list N) (p : pool),
  let q := lres_pool (load_file T unser txid accept now expiry opts file p) in
  (exists added, idt q = idt p ++ added /\
      forall id time, In (id, time) added -> exists p' t, txid t = id /\ accept p' t time = true)
  /\ (forall id, In id (p_unb p) -> In id (p_unb q))
  /\ (forall id, In id (p_unb q) -> In id (p_unb p) \/ In id (ids_of q)).
Proof. intros T unser txid accept now expiry opts file p. apply load_file_safe. Qed.
Print Assumptions C55_arbitrary_file_never_removes_and_adds_only_accepted.

(* The transaction codec of model/SerTx.v (TX_WITH_WITNESS), which the extracted model runs, satisfies the round-trip premise. *)
Theorem C55_instance_codec_roundtrip : forall t rest, tx_ok t -> tx_unser (tx_ser t ++ rest) = Ok t rest.
Proof. exact instance_roundtrip. Qed.
Print Assumptions C55_instance_codec_roundtrip.

(* ... and the prefix premise: no strict prefix of a serialized transaction parses. *)
Theorem C55_instance_codec_prefix : forall t n, tx_ok t -> (n < length (tx_ser t))%nat -> exists e, tx_unser (firstn n (tx_ser t)) = Err e.
Proof. exact instance_prefix. Qed.
Print Assumptions C55_instance_codec_prefix.

(* The truncation theorem for the real transaction codec, without codec premises. *)
Theorem C55_instance_truncated_file_is_a_failed_load :
  forall (accept : pool -> tx -> Z -> bool) (now expiry : Z) (opts : load_opts)
         (v1 : bool) (key : list N) (d : snapshot tx) (p : pool) (n : nat),
  snapshot_wf tx tx_ok d -> length key = 8%nat -> (n < length (encode_file tx tx_ser v1 key d))%nat ->
  lres_ok (load_file tx tx_unser tx_txid accept now expiry opts (firstn n (encode_file tx tx_ser v1 key d)) p) = false.
Proof.
  intros accept now expiry opts v1 key d p n W K Hn.
  exact (load_truncated_fails tx tx_ser tx_unser tx_txid tx_ok accept now expiry opts instance_roundtrip instance_prefix v1 key d p n W K Hn).
Qed.
Print Assumptions C55_instance_truncated_file_is_a_failed_load.

(* Non-vacuity: a concrete pool of two transactions (one with a fee delta and an unbroadcast mark, one expired),
   an extra delta for an absent txid, dumped with a non-trivial key and loaded by the extracted instance. *)
Definition ex_in (b : N) : txin := mk_txin (repeat b 32) 1 [1%N; 2%N] 4294967293 [].
Definition ex_tx1 : tx := mk_tx 2 [ex_in 7%N] [mk_txout 5000 [81%N]] 0.
Definition ex_tx2 : tx := mk_tx 2 [mk_txin (repeat 9%N 32) 0 [] 4294967295 [[1%N; 2%N; 3%N]]] [mk_txout 700 [0%N; 20%N]; mk_txout 1 []] 17.
Definition ex_infos : list (mrec tx) := [mk_rec ex_tx1 1000 2500; mk_rec ex_tx2 10 0].
Definition ex_key : list N := [222; 173; 190; 239; 1; 2; 3; 4]%N.
Definition ex_p0 : pool :=
  mk_pool [mk_entry (tx_txid ex_tx1) 1000 2500; mk_entry (tx_txid ex_tx2) 10 0]
          (dm_set (tx_txid ex_tx1) 2500 [(repeat 255%N 32, -5)]) [tx_txid ex_tx1].
Example C55_nonvacuous :
  let file := dump_file tx tx_ser tx_txid false ex_key ex_infos ex_p0 in
  let r := load_file tx tx_unser tx_txid (fun _ _ _ => true) 2000 1500 startup_opts file empty_pool in
  lres_ok r = true
  /\ p_entries (lres_pool r) = [mk_entry (tx_txid ex_tx1) 1000 2500]
  /\ dm_find (repeat 255%N 32) (p_deltas (lres_pool r)) = Some (-5)
  /\ p_unb (lres_pool r) = [tx_txid ex_tx1]
  /\ lres_ok (load_file tx tx_unser tx_txid (fun _ _ _ => true) 2000 1500 startup_opts (firstn (length file - 1) file) empty_pool) = false.
Proof. vm_compute. repeat split; reflexivity. Qed.
