(* C35  The orphan pool stays bounded and peers cannot evict each other's orphans.
   Only statements here; each is closed by `exact` of a lemma from proofs/OrphanMain.v.

   Reading guide.  `orun tx_of (o_empty G R) ops` executes an arbitrary sequence `ops` of the operations AddTx /
   AddAnnouncer / EraseTx / EraseForPeer / EraseForBlock / AddChildrenToWorkSet / GetTxToReconsider on the model of
   TxOrphanageImpl (model/Orphanage.v) created by MakeTxOrphanage(G, R).  Premises kept in every statement:
   - transactions are identified by wtxid: `tx_of` maps a wtxid to the transaction data (x_wtxid (tx_of w) = w), every
     input weighs at least 164 units (41 bytes without witness discount) and weights are non-negative;
   - 0 < G <= 1,000,000 and 0 < R <= INT32_MAX (GetDosScore puts the per-peer limits into FeeFrac's int32 size; the
     defaults are 3000 and 404,000);
   - the peers that ever announce are drawn from a list PS of at most G peers: with more announcing peers than
     max_global_latency_score, MaxPeerLatencyScore() is 0 and GetDosScore's assert(max_peer_latency_score > 0) fails.
   `g_bad` is the model's flag for "an Assume/assert failed or an iterator was invalid". *)
From BV Require Import lib.Ints gen.Params_gen model.Orphanage proofs.OrphanBasics proofs.OrphanInv proofs.OrphanLimit
  proofs.OrphanSteps proofs.OrphanWork proofs.OrphanMain.
Local Open Scope Z_scope.

(* SanityCheck() holds in every reachable state and the pool is within its global limits: no failed Assume;
   (wtxid, peer) is a key; the per-peer usage / announcement count / latency score equal their recomputation; the
   number of unique orphans, their deduplicated usage and latency score equal their recomputation;
   m_outpoint_to_orphan_wtxids maps an outpoint to exactly the orphans present that spend it (no dangling entries,
   none missing); m_reconsiderable_wtxids is exactly the set of wtxids with a reconsiderable announcement; and
   TotalLatencyScore <= MaxGlobalLatencyScore, TotalOrphanUsage <= MaxGlobalUsage. *)
Theorem C35_consistent_and_within_limits_in_every_reachable_state :
  forall tx_of, (forall w, x_wtxid (tx_of w) = w) ->
  (forall w, 164 * Z.of_nat (length (x_inputs (tx_of w))) <= x_weight (tx_of w)) -> (forall w, 0 <= x_weight (tx_of w)) ->
  forall PS G R ops, 0 < G <= 1000000 -> 0 < R <= INT32_MAX -> Z.of_nat (length PS) <= G ->
  Forall (op_peer_ok PS) ops ->
  let g := fst (orun tx_of (o_empty G R) ops) in let l := g_anns g in
  g_bad g = false /\
  NoDup (map (fun a => (o_wtxid a, o_peer a)) l) /\
  (forall p, usage_by_peer g p = pd_usage (recompute_peer l p) /\ anns_from_peer g p = pd_count (recompute_peer l p) /\
             latency_from_peer g p = pd_latency (recompute_peer l p)) /\
  g_unique g = spec_unique_count l /\ g_usage g = spec_total_usage l /\ total_latency g = spec_total_latency l /\
  max_global_usage g = spec_max_global_usage (g_reserved g) l /\ max_peer_latency g = spec_max_peer_latency (g_maxlat g) l /\
  (forall k w, In w (g_outmap g k) <-> (In w (wtxids_of l) /\ In k (x_inputs (tx_of w)))) /\
  (forall w, In w (g_recon g) <-> exists a, In a l /\ o_wtxid a = w /\ o_reconsider a = true) /\
  spec_total_latency l <= g_maxlat g /\ spec_total_usage l <= spec_max_global_usage (g_reserved g) l.
Proof. exact oclause_sanity. Qed.
Print Assumptions C35_consistent_and_within_limits_in_every_reachable_state.

(* What every size-changing operation does, in any reachable state.  `entry_of_op` is the set of announcements on
   which the operation's final LimitOrphans runs: the old ones plus the new announcement (AddTx / AddAnnouncer, unless
   rejected), or the old ones without the erased wtxid (EraseTx), without ALL and ONLY the disconnected peer's
   announcements (EraseForPeer), without ALL and ONLY the announcements of orphans spending an outpoint spent by the
   block (EraseForBlock).  The result is `entry` filtered: nothing is added; an announcement that is gone after the
   operation belonged to a peer whose DoS score exceeded 1 on `entry` (so a peer within its reserved share never
   loses an announcement, whatever other peers add); and if `entry` is within the global limits nothing is evicted.
   spec_dosy / spec_needs_trim are the recomputation functions of model/Orphanage.v that the violation search also
   evaluates on the implementation's observations. *)
Theorem C35_operations_remove_exactly_what_they_should_and_evict_only_peers_over_their_share :
  forall tx_of, (forall w, x_wtxid (tx_of w) = w) ->
  (forall w, 164 * Z.of_nat (length (x_inputs (tx_of w))) <= x_weight (tx_of w)) -> (forall w, 0 <= x_weight (tx_of w)) ->
  forall PS G R ops o, 0 < G <= 1000000 -> 0 < R <= INT32_MAX -> Z.of_nat (length PS) <= G ->
  Forall (op_peer_ok PS) ops -> op_peer_ok PS o -> limiting_op o = true ->
  let g := fst (orun tx_of (o_empty G R) ops) in
  let entry := entry_of_op tx_of g o in let g' := fst (ostep tx_of g o) in
  exists keep, g_anns g' = filter keep entry /\
    (forall b, In b entry -> keep b = false -> spec_dosy (g_maxlat g) (g_reserved g) entry (o_peer b) = true) /\
    (spec_needs_trim (g_maxlat g) (g_reserved g) entry = false -> g_anns g' = entry).
Proof. exact oclause_op_effect. Qed.
Print Assumptions C35_operations_remove_exactly_what_they_should_and_evict_only_peers_over_their_share.

(* AddChildrenToWorkSet (for any random choices following the driver's rule) and GetTxToReconsider change m_reconsider
   flags only: same transactions, announcers and sequence numbers, same outpoint index *)
Theorem C35_reconsideration_changes_flags_only :
  forall tx_of, (forall w, x_wtxid (tx_of w) = w) ->
  (forall w, 164 * Z.of_nat (length (x_inputs (tx_of w))) <= x_weight (tx_of w)) -> (forall w, 0 <= x_weight (tx_of w)) ->
  forall PS G R ops o, 0 < G <= 1000000 -> 0 < R <= INT32_MAX -> Z.of_nat (length PS) <= G ->
  Forall (op_peer_ok PS) ops -> limiting_op o = false ->
  let g := fst (orun tx_of (o_empty G R) ops) in let g' := fst (ostep tx_of g o) in
  Forall2 (fun a a' => o_tx a = o_tx a' /\ o_peer a = o_peer a' /\ o_seq a = o_seq a') (g_anns g) (g_anns g') /\
  g_outmap g' = g_outmap g.
Proof. exact oclause_flag_ops. Qed.
Print Assumptions C35_reconsideration_changes_flags_only.

(* The fact behind Assume(!heap_peer_dos.empty()) in LimitOrphans ("if the global limits are exceeded, it must be that
   there is a peer whose DoS score > 1"), for the per-peer limits max_lat / reserved that were computed when at least
   as many peers were present: in a consistent state (OWF = the SanityCheck clauses, proofs/OrphanInv.v) where no peer
   has a DoS score above 1, NeedsTrim() is false. *)
Theorem C35_over_the_global_limits_implies_a_peer_over_its_share :
  forall tx_of, (forall w, x_wtxid (tx_of w) = w) ->
  (forall w, 164 * Z.of_nat (length (x_inputs (tx_of w))) <= x_weight (tx_of w)) -> (forall w, 0 <= x_weight (tx_of w)) ->
  forall g max_lat, OWF tx_of g -> 0 < max_lat -> max_lat * n_peers g <= g_maxlat g ->
  (forall q d, peer_find q (g_peers g) = Some d -> ratio_gt (dos_score d max_lat (g_reserved g)) FF_ONE = false) ->
  needs_trim g = false.
Proof. exact oclause_key. Qed.
Print Assumptions C35_over_the_global_limits_implies_a_peer_over_its_share.

(* non-vacuity: four orphans of weight 300 with reserved weight 500 per peer.  Peer 1 announces two (600 > 500, but the
   global limit 2 * 500 is not exceeded after peer 2's orphan arrives), then a third: the pool is over its limit, peer
   1 is over its share and loses its OLDEST announcement; peer 2, within its share, keeps its orphan. *)
Example C35_nonvacuous :
  let txs := fun w => mkTx w w 300 [(- w, 0)] 1 in
  let ops := [OAddTx 1 1; OAddTx 2 1; OAddTx 3 2; OAddTx 4 1] in
  map (fun a => (o_wtxid a, o_peer a)) (g_anns (fst (orun txs (o_empty 10 500) ops))) = [(2, 1); (3, 2); (4, 1)] /\
  g_bad (fst (orun txs (o_empty 10 500) ops)) = false /\
  Forall (op_peer_ok [1; 2]) ops /\ (forall w, x_wtxid (txs w) = w) /\
  (forall w, 164 * Z.of_nat (length (x_inputs (txs w))) <= x_weight (txs w)).
Proof.
  cbv zeta. split; [vm_compute; reflexivity|]. split; [vm_compute; reflexivity|]. split; [repeat (constructor; [simpl; tauto|]); constructor|].
  split; [reflexivity|]. intros w. simpl. lia.
Qed.
