(* C35 placeholder while the model is being validated *)
From BV Require Import lib.Ints model.Orphanage.
Theorem C35_placeholder : True.
Proof. exact I. Qed.
Print Assumptions C35_placeholder.
