(* C04  Block transactions are bound to the header; mutations are detected (merkle part).
   Only statements here; each is closed by `exact` of a lemma from proofs/MerkleLemmas.v.
   D = uint256, H a b = SHA256d(a || b) (inner node), deq = operator==, zero = uint256().
   The premises on H (injectivity; leaves are not inner-node values) stay in the statements. *)
From BV Require Import lib.Ints model.Merkle proofs.MerkleLemmas proofs.MerklePathLemmas proofs.MerkleBlockLemmas.

(* ComputeMerkleRoot terminates with a value on every list (the fuel of the model is enough) *)
Theorem C04_root_total : forall (D : Type) (deq : D -> D -> bool) (H : D -> D -> D) (zero : D) (l : list D),
  exists r m, compute_merkle_root D deq H zero l = Some (r, m).
Proof. exact root_total. Qed.
Print Assumptions C04_root_total.

(* Binding: two non-empty leaf lists with the same root, both reported unmutated, are the same list
   - provided H is injective and no leaf is itself an inner-node value H a b (for transaction ids
   this excludes exactly the 64-byte transactions, which IsBlockMutated rejects separately). *)
Theorem C04_merkle_binding : forall (D : Type) (deq : D -> D -> bool) (H : D -> D -> D) (zero : D),
  (forall a b, deq a b = true <-> a = b) ->
  (forall a b c d, H a b = H c d -> a = c /\ b = d) ->
  forall l1 l2 r, l1 <> [] -> l2 <> [] ->
  (forall x, In x l1 -> ~ exists a b, x = H a b) -> (forall x, In x l2 -> ~ exists a b, x = H a b) ->
  compute_merkle_root D deq H zero l1 = Some (r, false) ->
  compute_merkle_root D deq H zero l2 = Some (r, false) -> l1 = l2.
Proof. exact merkle_binding. Qed.
Print Assumptions C04_merkle_binding.

(* Every variant with the same root is flagged (all CVE-2012-2459 duplications and anything else) *)
Theorem C04_same_root_variant_is_flagged : forall (D : Type) (deq : D -> D -> bool) (H : D -> D -> D) (zero : D),
  (forall a b, deq a b = true <-> a = b) ->
  (forall a b c d, H a b = H c d -> a = c /\ b = d) ->
  forall l l' r m', l <> [] -> l' <> [] -> l' <> l ->
  (forall x, In x l -> ~ exists a b, x = H a b) -> (forall x, In x l' -> ~ exists a b, x = H a b) ->
  compute_merkle_root D deq H zero l = Some (r, false) ->
  compute_merkle_root D deq H zero l' = Some (r, m') -> m' = true.
Proof. exact same_root_variant_is_flagged. Qed.
Print Assumptions C04_same_root_variant_is_flagged.

(* CVE-2012-2459, explicit and with no premise on H: when the list is p ++ t with |p| a positive
   multiple of 2^(k+1) and |t| = 2^k (t = the leaves under the unpaired last node of level k),
   appending t once more leaves the root unchanged and sets the flag. *)
Theorem C04_cve_2012_2459_tail_dup : forall (D : Type) (deq : D -> D -> bool) (H : D -> D -> D) (zero : D),
  (forall a b, deq a b = true <-> a = b) ->
  forall (k j : nat) (p t : list D) r m, (1 <= j)%nat ->
  length p = (2 ^ (S k) * j)%nat -> length t = (2 ^ k)%nat ->
  compute_merkle_root D deq H zero (p ++ t) = Some (r, m) ->
  compute_merkle_root D deq H zero (p ++ t ++ t) = Some (r, true).
Proof. exact cve_2012_2459_tail_dup. Qed.
Print Assumptions C04_cve_2012_2459_tail_dup.

(* the flag is exactly "some level of the reduction has an aligned pair of equal neighbours" *)
Theorem C04_flag_is_reference : forall (D : Type) (deq : D -> D -> bool) (H : D -> D -> D) (zero : D) l r m,
  compute_merkle_root D deq H zero l = Some (r, m) ->
  any_level_has_equal_pair D deq H (length l) l = m.
Proof. exact flag_is_any_level. Qed.
Print Assumptions C04_flag_is_reference.

(* equal length: the root alone binds the list (used for the witness tree, whose flag is ignored) *)
Theorem C04_merkle_binding_same_length : forall (D : Type) (deq : D -> D -> bool) (H : D -> D -> D) (zero : D),
  (forall a b c d, H a b = H c d -> a = c /\ b = d) ->
  forall l1 l2 r m1 m2, length l1 = length l2 ->
  compute_merkle_root D deq H zero l1 = Some (r, m1) ->
  compute_merkle_root D deq H zero l2 = Some (r, m2) -> l1 = l2.
Proof. exact merkle_binding_same_length. Qed.
Print Assumptions C04_merkle_binding_same_length.

(* Merkle paths: for every leaf list of at most 2^31 leaves and every position inside it, the
   constant-space calculator (MerkleComputation) returns a path, and folding that path from the leaf
   (ComputeMerkleRootFromBranch) gives the merkle root.  No premise on H. *)
Theorem C04_merkle_path_correct : forall (D : Type) (deq : D -> D -> bool) (H : D -> D -> D) (zero : D) (l : list D) (pos : nat),
  (pos < length l)%nat -> (Z.of_nat (length l) <= 2 ^ 31)%Z ->
  exists path r m leaf,
    compute_merkle_path D H l (Z.of_nat pos) = Some path /\
    compute_merkle_root D deq H zero l = Some (r, m) /\
    nth_error l pos = Some leaf /\
    fold_path D H leaf (Z.of_nat pos) path = r.
Proof. exact merkle_path_correct. Qed.
Print Assumptions C04_merkle_path_correct.

(* Block level.  Two fresh blocks (cache flags unset) whose first transaction is a coinbase, that
   IsBlockMutated(block, check_witness_root = true) both accepts, with the same header merkle root and
   the same coinbase witness commitment, have the same txids, the same wtxids (coinbase excluded, as
   in BlockWitnessMerkleRoot) and the same coinbase witness stack. *)
Theorem C04_accepted_blocks_equal : forall (D : Type) (deq : D -> D -> bool) (H : D -> D -> D) (zero : D),
  (forall a b, deq a b = true <-> a = b) ->
  (forall a b c d, H a b = H c d -> a = c /\ b = d) ->
  forall (b1 b2 : block_view D) (c : D),
  (bv_checked_merkle_root D b1 = false /\ bv_checked_witness_commitment D b1 = false) ->
  (bv_checked_merkle_root D b2 = false /\ bv_checked_witness_commitment D b2 = false) ->
  bv_first_is_coinbase D b1 = true -> bv_first_is_coinbase D b2 = true ->
  bv_txs D b1 <> [] -> bv_txs D b2 <> [] ->
  (forall x, In x (map (tv_txid D) (bv_txs D b1)) -> ~ exists a b, x = H a b) ->
  (forall x, In x (map (tv_txid D) (bv_txs D b2)) -> ~ exists a b, x = H a b) ->
  bv_header_root D b1 = bv_header_root D b2 ->
  bv_commitment D b1 = Some c -> bv_commitment D b2 = Some c ->
  is_block_mutated D deq H zero b1 true = Some false ->
  is_block_mutated D deq H zero b2 true = Some false ->
  map (tv_txid D) (bv_txs D b1) = map (tv_txid D) (bv_txs D b2) /\
  map (tv_wtxid D) (tl (bv_txs D b1)) = map (tv_wtxid D) (tl (bv_txs D b2)) /\
  bv_cb_witness_stack D b1 = bv_cb_witness_stack D b2.
Proof. exact accepted_blocks_equal. Qed.
Print Assumptions C04_accepted_blocks_equal.

(* Any variant carrying the header root and commitment of an accepted block but differing in a txid
   (e.g. duplicated tail), a wtxid (stripped / altered witness) or the coinbase witness is reported
   as mutated. *)
Theorem C04_variant_reported_mutated : forall (D : Type) (deq : D -> D -> bool) (H : D -> D -> D) (zero : D),
  (forall a b, deq a b = true <-> a = b) ->
  (forall a b c d, H a b = H c d -> a = c /\ b = d) ->
  forall (b b' : block_view D) (c : D),
  (bv_checked_merkle_root D b = false /\ bv_checked_witness_commitment D b = false) ->
  (bv_checked_merkle_root D b' = false /\ bv_checked_witness_commitment D b' = false) ->
  bv_first_is_coinbase D b = true -> bv_first_is_coinbase D b' = true ->
  bv_txs D b <> [] -> bv_txs D b' <> [] ->
  (forall x, In x (map (tv_txid D) (bv_txs D b)) -> ~ exists a b0, x = H a b0) ->
  (forall x, In x (map (tv_txid D) (bv_txs D b')) -> ~ exists a b0, x = H a b0) ->
  bv_header_root D b' = bv_header_root D b ->
  bv_commitment D b = Some c -> bv_commitment D b' = Some c ->
  is_block_mutated D deq H zero b true = Some false ->
  (map (tv_txid D) (bv_txs D b') <> map (tv_txid D) (bv_txs D b) \/
   map (tv_wtxid D) (tl (bv_txs D b')) <> map (tv_wtxid D) (tl (bv_txs D b)) \/
   bv_cb_witness_stack D b' <> bv_cb_witness_stack D b) ->
  is_block_mutated D deq H zero b' true = Some true.
Proof. exact variant_reported_mutated. Qed.
Print Assumptions C04_variant_reported_mutated.

(* A block without a commitment output that is accepted carries no witness at all *)
Theorem C04_no_commitment_no_witness : forall (D : Type) (deq : D -> D -> bool) (H : D -> D -> D) (zero : D)
  (b : block_view D),
  (bv_checked_merkle_root D b = false /\ bv_checked_witness_commitment D b = false) ->
  bv_first_is_coinbase D b = true -> bv_commitment D b = None ->
  is_block_mutated D deq H zero b true = Some false ->
  forall t, In t (bv_txs D b) -> tv_has_witness D t = false.
Proof. exact no_commitment_no_witness. Qed.
Print Assumptions C04_no_commitment_no_witness.

(* 64-byte rule: a block whose first transaction is not a coinbase and that is not reported mutated
   contains no transaction of 64 bytes (the size at which a txid is an inner-node value) *)
Theorem C04_no_coinbase_no_64_byte_tx : forall (D : Type) (deq : D -> D -> bool) (H : D -> D -> D) (zero : D)
  (b : block_view D) (cw : bool),
  bv_first_is_coinbase D b = false -> is_block_mutated D deq H zero b cw = Some false ->
  forall t, In t (bv_txs D b) -> tv_nowit_size D t <> 64%Z.
Proof. exact ibm_false_no_coinbase. Qed.
Print Assumptions C04_no_coinbase_no_64_byte_tx.

(* The 64-byte rule, spelled out.  With one hash Hb on byte strings (SHA256d): inner nodes are
   Hb (enc a ++ enc b) with 32-byte encodings, txids are Hb (serialization without witness).  If Hb is
   injective, two non-empty transaction lists none of which contains a 64-byte transaction, with the
   same unflagged merkle root, are the same list of transactions. *)
Theorem C04_merkle_binding_no_64_byte_tx : forall (D byte : Type) (Hb : list byte -> D) (enc : D -> list byte)
  (deq : D -> D -> bool) (zero : D),
  (forall x y, Hb x = Hb y -> x = y) -> (forall x, length (enc x) = 32%nat) -> (forall x y, enc x = enc y -> x = y) ->
  (forall a b, deq a b = true <-> a = b) ->
  forall (txs1 txs2 : list (list byte)) r, txs1 <> [] -> txs2 <> [] ->
  (forall t, In t txs1 -> length t <> 64%nat) -> (forall t, In t txs2 -> length t <> 64%nat) ->
  compute_merkle_root D deq (fun a b => Hb (enc a ++ enc b)) zero (map Hb txs1) = Some (r, false) ->
  compute_merkle_root D deq (fun a b => Hb (enc a ++ enc b)) zero (map Hb txs2) = Some (r, false) ->
  txs1 = txs2.
Proof. exact merkle_binding_no_64_byte_tx. Qed.
Print Assumptions C04_merkle_binding_no_64_byte_tx.

(* Not proved here (full statement): "receiving a mutated variant never causes the genuine block to
   be marked invalid": for every history, ProcessNewBlock on a block whose verdict is BLOCK_MUTATED
   leaves every CBlockIndex::nStatus failure flag unchanged (InvalidBlockFound and
   ActivateBestChainStep skip BLOCK_MUTATED), so that a later delivery of the genuine block is
   processed as if the variant had never arrived.  This needs the chain-selection model (ChainSel). *)

(* non-vacuity: the free hash MNode satisfies every premise (injective, leaves are not nodes); on it
   [1,2,3] and its CVE-2012-2459 variant [1,2,3,3] have the same root, the first unflagged and the
   second flagged, and the path of leaf 2 folds to that root *)
Example C04_nonvacuous :
  (forall a b, mtree_eqb a b = true <-> a = b) /\
  (forall a b c d, MNode a b = MNode c d -> a = c /\ b = d) /\
  (forall x, In x [MLeaf 1; MLeaf 2; MLeaf 3] -> ~ exists a b, x = MNode a b) /\
  compute_merkle_root mtree mtree_eqb MNode (MLeaf 0) [MLeaf 1; MLeaf 2; MLeaf 3] =
    Some (MNode (MNode (MLeaf 1) (MLeaf 2)) (MNode (MLeaf 3) (MLeaf 3)), false) /\
  compute_merkle_root mtree mtree_eqb MNode (MLeaf 0) [MLeaf 1; MLeaf 2; MLeaf 3; MLeaf 3] =
    Some (MNode (MNode (MLeaf 1) (MLeaf 2)) (MNode (MLeaf 3) (MLeaf 3)), true) /\
  compute_merkle_path mtree MNode [MLeaf 1; MLeaf 2; MLeaf 3] 2 = Some [MLeaf 3; MNode (MLeaf 1) (MLeaf 2)] /\
  fold_path mtree MNode (MLeaf 3) 2 [MLeaf 3; MNode (MLeaf 1) (MLeaf 2)] =
    MNode (MNode (MLeaf 1) (MLeaf 2)) (MNode (MLeaf 3) (MLeaf 3)).
Proof.
  split; [exact mtree_eqb_spec|]. split; [exact mtree_node_injective|].
  split; [intros x [<-|[<-|[<-|[]]]] (a & b & E); discriminate|].
  repeat split; vm_compute; reflexivity.
Qed.
