(* C29  Package acceptance is well-formed and leaves no dangling children. *)
From BV Require Import lib.Ints gen.Params_gen model.Package model.PackageAccept model.Truc model.PackageTruc
  proofs.PackageLemmas proofs.PackageAcceptLemmas proofs.PackageTrucLemmas.
Local Open Scope Z_scope.

(* For every package that is a C++ value (size fits unsigned int; weights non-negative with
   weight * MAX_PACKAGE_COUNT <= INT32_MAX): IsWellFormedPackage accepts iff at most MAX_PACKAGE_COUNT
   transactions, total weight at most MAX_PACKAGE_WEIGHT when there are 2 or more, no two transactions with one
   txid, no transaction spending an output of itself or of a later one, every transaction has an input and no
   outpoint is spent by two transactions. *)
Theorem C29_well_formed_iff_spec : forall txns,
  Z.of_nat (length txns) <= UINT32_MAX ->
  (forall t, In t txns -> 0 <= p_weight t /\ p_weight t * MAX_PACKAGE_COUNT <= INT32_MAX) ->
  (is_well_formed txns = None <->
   Z.of_nat (length txns) <= MAX_PACKAGE_COUNT /\
   ((length txns <= 1)%nat \/ zsum (map p_weight txns) <= MAX_PACKAGE_WEIGHT) /\
   NoDup (map p_txid txns) /\
   (forall i j ti tj inp, nth_error txns i = Some ti -> nth_error txns j = Some tj -> (i <= j)%nat ->
      In inp (p_inputs ti) -> fst inp <> p_txid tj) /\
   ((forall t, In t txns -> p_inputs t <> []) /\
    forall i j ti tj o, nth_error txns i = Some ti -> nth_error txns j = Some tj -> (i < j)%nat ->
      In o (p_inputs ti) -> In o (p_inputs tj) -> False)).
Proof. exact is_well_formed_accepts_iff. Qed.
Print Assumptions C29_well_formed_iff_spec.

(* The reject reason names the first violated clause, in the order count, weight, duplicates, order, conflicts. *)
Theorem C29_reason_is_first_violated_rule : forall txns r,
  Z.of_nat (length txns) <= UINT32_MAX ->
  (forall t, In t txns -> 0 <= p_weight t /\ p_weight t * MAX_PACKAGE_COUNT <= INT32_MAX) ->
  (is_well_formed txns = r <-> first_violation_is txns r).
Proof. exact is_well_formed_reason_iff. Qed.
Print Assumptions C29_reason_is_first_violated_rule.

(* ... and equals the independent quadratic first-violated-rule function the violation search evaluates. *)
Theorem C29_reason_equals_independent_spec : forall txns,
  Z.of_nat (length txns) <= UINT32_MAX ->
  (forall t, In t txns -> 0 <= p_weight t /\ p_weight t * MAX_PACKAGE_COUNT <= INT32_MAX) ->
  is_well_formed txns = first_violation txns /\ first_violation_is txns (first_violation txns).
Proof. intros txns Hl Hw. split; [apply is_well_formed_eq_first_violation; assumption | apply first_violation_correct]. Qed.
Print Assumptions C29_reason_equals_independent_spec.

(* std::accumulate(..., 0, ...) accumulates in an int: under the count limit it cannot wrap as long as no
   transaction weighs more than INT32_MAX / MAX_PACKAGE_COUNT ... *)
Theorem C29_weight_accumulator_exact : forall txns,
  Z.of_nat (length txns) <= MAX_PACKAGE_COUNT ->
  (forall t, In t txns -> 0 <= p_weight t /\ p_weight t * MAX_PACKAGE_COUNT <= INT32_MAX) ->
  acc_weight txns = zsum (map p_weight txns).
Proof. exact acc_weight_exact. Qed.
Print Assumptions C29_weight_accumulator_exact.

(* ... which holds for every transaction that fits a P2P message ... *)
Theorem C29_p2p_weight_within_bound : forall w,
  0 <= w <= WITNESS_SCALE_FACTOR * MPP_MAX_PROTOCOL_MESSAGE_LENGTH -> w * MAX_PACKAGE_COUNT <= INT32_MAX.
Proof. exact p2p_weight_within_bound. Qed.
Print Assumptions C29_p2p_weight_within_bound.

(* ... and fails beyond it: 25 int32 weights for which the accumulator wraps and an overweight package is
   declared well-formed (transactions of 43 MB; not deliverable, recorded as an observation). *)
Theorem C29_weight_accumulator_wraps_refuted :
  exists txns, Z.of_nat (length txns) <= MAX_PACKAGE_COUNT /\
    (forall t, In t txns -> 0 <= p_weight t <= INT32_MAX) /\
    is_well_formed txns = None /\ ~ spec_weight txns.
Proof. exact weight_accumulator_wraps_refuted. Qed.
Print Assumptions C29_weight_accumulator_wraps_refuted.

(* IsChildWithParents / IsChildWithParentsTree: the package is parents ++ [child], parents non-empty, every
   parent has an output spent by the child (and, for the tree form, no parent spends an output of a parent). *)
Theorem C29_child_with_parents_iff : forall pkg,
  is_child_with_parents pkg = true <->
  exists parents child, parents <> [] /\ pkg = parents ++ [child] /\
    forall p, In p parents -> exists inp, In inp (p_inputs child) /\ fst inp = p_txid p.
Proof. exact is_child_with_parents_iff. Qed.
Print Assumptions C29_child_with_parents_iff.

Theorem C29_child_with_parents_tree_iff : forall pkg,
  is_child_with_parents_tree pkg = true <->
  exists parents child, parents <> [] /\ pkg = parents ++ [child] /\
    (forall p, In p parents -> exists inp, In inp (p_inputs child) /\ fst inp = p_txid p) /\
    (forall p q inp, In p parents -> In q parents -> In inp (p_inputs p) -> fst inp <> p_txid q).
Proof. exact is_child_with_parents_tree_iff. Qed.
Print Assumptions C29_child_with_parents_tree_iff.

(* The one-argument IsTopoSortedPackage on any list (duplicates allowed): an input naming a package txid must
   name a transaction placed strictly earlier. *)
Theorem C29_topo_sorted_meaning : forall txns,
  is_topo_sorted txns = true <->
  (forall i ti inp, nth_error txns i = Some ti -> In inp (p_inputs ti) -> In (fst inp) (map p_txid txns) ->
     In (fst inp) (map p_txid (firstn i txns))).
Proof. exact is_topo_sorted_iff. Qed.
Print Assumptions C29_topo_sorted_meaning.

(* AcceptPackage, for every way the sub-evaluations can behave within the named premises
     single_ok : a transaction evaluated alone fails and leaves the mempool alone, or is added after evicting a
                 descendant-closed set, all its inputs then being mempool outputs or confirmed coins;
     multi_ok  : a sub-package is submitted entirely or not at all, reports results only for its own
                 transactions, inputs available from the mempool, earlier sub-package members or confirmed coins;
     trim_ok   : size limiting evicts a descendant-closed set;
   and hash collision freedom on the transactions in play (a wtxid identifies the transaction):
   (1) results are reported, a sub-evaluation happens or the mempool changes only if the package is well-formed
       and (when it has more than one transaction) child-with-parents;
   (2) then the result map's keys are exactly the package's wtxids;
   (3) every reported result matches membership in the mempool afterwards (VALID / MEMPOOL_ENTRY: present by
       wtxid; DIFFERENT_WITNESS w: present by txid, w present and different; INVALID: absent by txid);
   (4) no package transaction is in the mempool while an in-package parent is neither in the mempool nor the
       confirmed owner of the spent coin. *)
Theorem C29_accept_package : forall utxo single multi trim P0 package st fin log P',
  single_ok utxo single -> multi_ok utxo multi -> trim_ok trim ->
  (forall a b, In a (P0 ++ package) -> In b (P0 ++ package) -> p_wtxid a = p_wtxid b -> a = b) ->
  pool_wf P0 -> closed utxo P0 ->
  accept_package single multi trim P0 package = ((st, fin), log, P') ->
  ((fin <> [] \/ log <> [] \/ P' <> P0) ->
     is_well_formed package = None /\ ((1 < length package)%nat -> is_child_with_parents package = true)) /\
  (is_well_formed package = None -> ((1 < length package)%nat -> is_child_with_parents package = true) ->
     (forall w, In w (keys fin) <-> In w (map p_wtxid package)) /\ NoDup (keys fin) /\
     (forall t, In t package -> exists r, rm_find (p_wtxid t) fin = Some r /\ result_matches P' t r = true) /\
     (forall t p inp, In t package -> In p package -> In t P' -> In inp (p_inputs t) -> fst inp = p_txid p ->
        has_txid P' (p_txid p) = true \/ utxo inp = true)).
Proof. exact accept_package_correct. Qed.
Print Assumptions C29_accept_package.

(* The premises are satisfiable together: the evaluator the correspondence runs (inputs available + fee rate)
   meets them for every set of confirmed coins. *)
Theorem C29_premises_satisfiable : forall utxo,
  single_ok utxo (toy_single utxo) /\ multi_ok utxo (toy_multi utxo) /\ trim_ok toy_trim.
Proof. intros utxo. split; [apply toy_single_ok | split; [apply toy_multi_ok | apply toy_trim_ok]]. Qed.
Print Assumptions C29_premises_satisfiable.

(* ... and so does the evaluator with the TRUC rules plugged in, the one the acceptance correspondences run. *)
Theorem C29_premises_satisfiable_with_truc : forall utxo,
  single_ok utxo (toy3_single utxo) /\ multi_ok utxo (toy3_multi utxo) /\ trim_ok toy_trim.
Proof. intros utxo. split; [apply toy3_single_ok | split; [apply toy3_multi_ok | apply toy_trim_ok]]. Qed.
Print Assumptions C29_premises_satisfiable_with_truc.

(* a low-fee parent carried by its child: both end up in the mempool, two results, both VALID *)
Definition ex_utxo (o : outpoint) : bool := (fst o =? 2000000) && (snd o =? 0).
Definition ex_parent : ptx := {| p_txid := 1; p_wtxid := 1001; p_inputs := [(2000000, 0)]; p_weight := 556; p_fee := 0; p_version := 2; p_nout := 2 |}.
Definition ex_child : ptx := {| p_txid := 2; p_wtxid := 2001; p_inputs := [(1, 0)]; p_weight := 384; p_fee := 10000; p_version := 2; p_nout := 1 |}.
Example C29_nonvacuous :
  toy_accept ex_utxo [] [ex_parent; ex_child] =
    ((PS_valid, [(1001, R_valid); (2001, R_valid)]), [[ex_parent]; [ex_child]; [ex_parent; ex_child]], [ex_parent; ex_child]) /\
  is_well_formed [ex_child; ex_parent] = Some package_not_sorted /\
  fst (fst (toy_accept ex_utxo [] [ex_child; ex_parent])) = (PS_policy package_not_sorted, []).
Proof. vm_compute. repeat split. Qed.
