(* C06  Accepted blocks have the required structure and respect resource limits.
   Only statements here; each is closed by `exact` of a lemma from proofs/SigOpsLemmas.v / proofs/BlockCheckLemmas.v.
   A script is the list of its bytes. *)
From BV Require Import lib.Ints gen.Params_gen model.SigOps model.BlockCheck proofs.SigOpsLemmas proofs.SigOpsEncodeLemmas proofs.BlockCheckLemmas.
Local Open Scope Z_scope.

(* What the parsed operation list of a script is: read operations with GetScriptOp (get_op: direct pushes,
   PUSHDATA1/2/4, everything else a single byte) until the end or the first operation that cannot be read
   (truncated push); the flag says whether the end was reached. *)
Theorem C06_parse_unfold : forall s,
  parse s = match s with
            | [] => ([], true)
            | _ => match get_op s with
                   | None => ([], false)
                   | Some (o, rest) => let (l, ok) := parse rest in (o :: l, ok)
                   end
            end.
Proof. exact parse_unfold. Qed.
Print Assumptions C06_parse_unfold.

(* every operation read consumes its opcode byte, its length bytes and its data: data and rest fit in what was there *)
Theorem C06_get_op_consumes : forall s o rest, get_op s = Some (o, rest) ->
  (length (op_data o) + length rest < length s)%nat.
Proof. exact get_op_len. Qed.
Print Assumptions C06_get_op_consumes.

(* GetSigOpCount(fAccurate) is the declarative count over the parsed operations: CHECKSIG(VERIFY) = 1,
   CHECKMULTISIG(VERIFY) = the value of a directly preceding OP_1..OP_16 when accurate, otherwise 20; operations after
   the first unreadable one do not exist in the parsed list, so nothing after a parse error counts, and everything
   before it does.  (For scripts up to 200,000,000 bytes, far above the 4,000,000 a block can hold.) *)
Theorem C06_sigop_count_is_declarative : forall accurate s, zlen s <= 200000000 ->
  get_sigop_count accurate s = count_ops accurate 255 (fst (parse s)).
Proof. exact get_sigop_count_spec. Qed.
Print Assumptions C06_sigop_count_is_declarative.

Theorem C06_count_ops_unfold : forall accurate prev o r,
  count_ops accurate prev (o :: r) =
  (if (op_code o =? 172) || (op_code o =? 173) then 1
   else if (op_code o =? 174) || (op_code o =? 175) then (if accurate && (81 <=? prev) && (prev <=? 96) then prev - 80 else 20)
   else 0) + count_ops accurate (op_code o) r.
Proof. exact count_ops_unfold. Qed.
Print Assumptions C06_count_ops_unfold.

(* The parsed list is the list of operations the script serializes (whatever push form each one uses: direct, PUSHDATA1,
   PUSHDATA2 or PUSHDATA4 with a length that fits), and a tail whose first operation cannot be read - a truncated push -
   ends it: everything in front is parsed, nothing of the tail. *)
Theorem C06_parse_inverts_encode : forall ops, Forall wf_op ops -> parse (encode_ops ops) = (ops, true).
Proof. exact parse_encode. Qed.
Print Assumptions C06_parse_inverts_encode.

Theorem C06_parse_stops_at_truncation : forall ops tail,
  Forall wf_op ops -> tail <> [] -> get_op tail = None -> parse (encode_ops ops ++ tail) = (ops, false).
Proof. exact parse_encode_truncated. Qed.
Print Assumptions C06_parse_stops_at_truncation.

(* so the sigops in front of a parse error count and nothing after it does *)
Theorem C06_sigops_stop_at_parse_error : forall accurate ops tail,
  Forall wf_op ops -> tail <> [] -> get_op tail = None -> zlen (encode_ops ops ++ tail) <= 200000000 ->
  get_sigop_count accurate (encode_ops ops ++ tail) = count_ops accurate 255 ops.
Proof. exact sigops_stop_at_parse_error. Qed.
Print Assumptions C06_sigops_stop_at_parse_error.

(* P2SH: for a pay-to-script-hash output, the accurate count of the redeem script = the data of the last operation
   of a scriptSig that parses completely and consists of push operations only (0 otherwise) *)
Theorem C06_p2sh_sigops : forall scriptPubKey scriptSig,
  zlen scriptPubKey <= 200000000 -> zlen scriptSig <= 200000000 ->
  p2sh_sigop_count scriptPubKey scriptSig =
  (if spec_is_p2sh scriptPubKey
   then match redeem_script scriptSig with Some rs => spec_sigops true rs | None => 0 end
   else spec_sigops true scriptPubKey).
Proof. exact p2sh_sigop_count_spec. Qed.
Print Assumptions C06_p2sh_sigops.

Theorem C06_p2sh_shape : forall s, is_p2sh s = spec_is_p2sh s.
Proof. exact is_p2sh_spec. Qed.
Print Assumptions C06_p2sh_shape.

(* witness: version-0 keyhash = 1, version-0 scripthash = accurate count of the last witness stack item, everything else
   0; the program is the scriptPubKey itself or, for P2SH, the redeem script of a push-only scriptSig *)
Theorem C06_witness_sigops : forall scriptSig scriptPubKey stack,
  script_bytes_ok scriptPubKey -> script_bytes_ok scriptSig ->
  (forall top, In top stack -> zlen top <= 200000000) ->
  count_witness_sigops true true scriptSig scriptPubKey stack =
  Some (match spec_witness_program scriptPubKey with
        | Some vp => spec_program_sigops vp stack
        | None =>
          if spec_is_p2sh scriptPubKey then
            match redeem_script scriptSig with
            | Some rs => match spec_witness_program rs with Some vp => spec_program_sigops vp stack | None => 0 end
            | None => 0
            end
          else 0
        end).
Proof. exact count_witness_sigops_spec. Qed.
Print Assumptions C06_witness_sigops.

Theorem C06_witness_program_shape : forall s, script_bytes_ok s -> is_witness_program s = spec_witness_program s.
Proof. exact is_witness_program_spec. Qed.
Print Assumptions C06_witness_program_shape.

(* the cost of a transaction = 4 * legacy + (non-coinbase: 4 * P2SH when enforced + witness when enforced) *)
Theorem C06_tx_sigop_cost : forall flag_p2sh flag_witness t,
  (flag_witness = true -> flag_p2sh = true) ->
  ins_bytes_ok (st_ins t) -> tx_script_bytes t <= 50000000 ->
  tx_sigop_cost flag_p2sh flag_witness t =
  Some (4 * spec_legacy t +
        (if st_coinbase t then 0
         else (if flag_p2sh then 4 * spec_p2sh_tx t else 0) + (if flag_witness then spec_witness_tx t else 0))).
Proof. exact tx_sigop_cost_spec. Qed.
Print Assumptions C06_tx_sigop_cost.

Theorem C06_legacy_count : forall t, tx_script_bytes t <= 50000000 ->
  legacy_sigop_count t =
  zsum (map (fun i => spec_sigops false (si_script_sig i)) (st_ins t)) + zsum (map (spec_sigops false) (st_outs t)).
Proof. exact legacy_sigop_count_spec. Qed.
Print Assumptions C06_legacy_count.

(* Block level.  CheckBlock's size / coinbase / legacy-sigop rules, ContextualCheckBlock's BIP34 and weight rules and
   ConnectBlock's running sigop cost accept a block iff: at least one transaction, 4 * count and 4 * stripped size
   within 4,000,000, exactly the first transaction is a coinbase, 4 * legacy sigops <= 80,000, the coinbase scriptSig
   starts with the serialized height once BIP34 is active, weight 3 * stripped + total <= 4,000,000 and total sigop
   cost <= 80,000.  Each bound is tight: one more is rejected (the statement is an iff). *)
Theorem C06_block_accepted_iff : forall bip34_active nHeight b, wf_blk b ->
  (block_limits_verdict bip34_active nHeight b = None <->
   1 <= zlen (b_txs b) /\ 4 * zlen (b_txs b) <= 4000000 /\ 4 * b_stripped_size b <= 4000000 /\
   (exists t0 r, b_txs b = t0 :: r /\ bt_coinbase t0 = true /\ forall t, In t r -> bt_coinbase t = false) /\
   4 * zsum (map bt_legacy_sigops (b_txs b)) <= 80000 /\
   (bip34_active = true -> is_prefix (script_push_int64 nHeight) (b_cb_script_sig b)) /\
   3 * b_stripped_size b + b_total_size b <= 4000000 /\
   zsum (map bt_cost (b_txs b)) <= 80000).
Proof. exact block_accepted_iff. Qed.
Print Assumptions C06_block_accepted_iff.

(* a rejected block is rejected for the reason it names *)
Theorem C06_block_reject_reason : forall bip34_active nHeight b r, wf_blk b ->
  block_limits_verdict bip34_active nHeight b = Some r ->
  match r with
  | bad_blk_length => zlen (b_txs b) = 0 \/ 4000000 < 4 * zlen (b_txs b) \/ 4000000 < 4 * b_stripped_size b
  | bad_cb_missing => match b_txs b with t0 :: _ => bt_coinbase t0 = false | [] => True end
  | bad_cb_multiple => match b_txs b with _ :: r => existsb bt_coinbase r = true | [] => False end
  | bad_blk_sigops => 80000 < 4 * zsum (map bt_legacy_sigops (b_txs b)) \/ 80000 < zsum (map bt_cost (b_txs b))
  | bad_cb_height => bip34_active = true /\ ~ is_prefix (script_push_int64 nHeight) (b_cb_script_sig b)
  | bad_blk_weight => 4000000 < 3 * b_stripped_size b + b_total_size b
  end.
Proof. exact block_limits_reasons. Qed.
Print Assumptions C06_block_reject_reason.

Theorem C06_block_weight : forall stripped total,
  0 <= stripped <= 4000000000 -> 0 <= total <= 4000000000 -> get_block_weight stripped total = 3 * stripped + total.
Proof. exact get_block_weight_spec. Qed.
Print Assumptions C06_block_weight.

Theorem C06_bip34_rule : forall nHeight s, bip34_ok nHeight s = true <-> is_prefix (script_push_int64 nHeight) s.
Proof. exact bip34_ok_iff. Qed.
Print Assumptions C06_bip34_rule.

(* the per-transaction numbers of a block are the counters above *)
Theorem C06_block_tx_numbers : forall flag_p2sh flag_witness t,
  (flag_witness = true -> flag_p2sh = true) -> ins_bytes_ok (st_ins t) -> tx_script_bytes t <= 50000000 ->
  btx_of flag_p2sh flag_witness t =
  Some {| bt_coinbase := st_coinbase t; bt_legacy_sigops := spec_legacy t; bt_cost := spec_tx_cost flag_p2sh flag_witness t |}.
Proof. exact btx_of_spec. Qed.
Print Assumptions C06_block_tx_numbers.

(* Concrete instances: counting, truncation, and the limits at and one above. *)
Definition cb (leg cost : Z) := {| bt_coinbase := true; bt_legacy_sigops := leg; bt_cost := cost |}.
Definition ntx (leg cost : Z) := {| bt_coinbase := false; bt_legacy_sigops := leg; bt_cost := cost |}.
Definition blk_of txs s t := {| b_txs := txs; b_stripped_size := s; b_total_size := t; b_cb_script_sig := [3; 32; 161; 7; 0] |}.
Example C06_nonvacuous :
  (* 2 <pk> <pk> 3 CHECKMULTISIG : accurate 3, inaccurate 20; CHECKSIG after OP_RETURN still counts *)
  get_sigop_count true [82; 1; 7; 1; 8; 83; 174] = 3 /\ get_sigop_count false [82; 1; 7; 1; 8; 83; 174] = 20 /\
  get_sigop_count false [106; 172; 173] = 2 /\
  (* a truncated push ends the count: the CHECKSIG before it counts, the one after (inside / behind) does not *)
  get_sigop_count false [172; 5; 172; 172] = 1 /\ parse [172; 5; 172; 172] = ([{| op_code := 172; op_data := [] |}], false) /\
  get_sigop_count false [172; 77; 1] = 1 /\
  (* P2SH: the redeem script is the last push *)
  p2sh_sigop_count ([169; 20] ++ repeat 0 20 ++ [135]) [0; 3; 172; 81; 174] = 2 /\
  p2sh_sigop_count ([169; 20] ++ repeat 0 20 ++ [135]) [0; 3; 81; 172; 174] = 21 /\
  p2sh_sigop_count ([169; 20] ++ repeat 0 20 ++ [135]) [0; 3; 172; 81; 174; 118] = 0 /\
  (* witness: P2WPKH = 1, P2WSH = accurate count of the witness script *)
  count_witness_sigops true true [] ([0; 20] ++ repeat 1 20) [] = Some 1 /\
  count_witness_sigops true true [] ([0; 32] ++ repeat 1 32) [[1]; [82; 174]] = Some 2 /\
  count_witness_sigops true true [] ([81; 32] ++ repeat 1 32) [[1]; [82; 174]] = Some 0 /\
  (* BIP34: height 500000 is pushed as 03 20 a1 07 *)
  script_push_int64 500000 = [3; 32; 161; 7] /\ script_push_int64 16 = [96] /\ script_push_int64 17 = [1; 17] /\
  script_push_int64 128 = [2; 128; 0] /\
  (* limits: exactly at the limit accepted, one above rejected *)
  block_limits_verdict true 500000 (blk_of [cb 0 0; ntx 20000 80000] 999000 1003000) = None /\
  block_limits_verdict true 500000 (blk_of [cb 0 0; ntx 20000 80001] 999000 1003000) = Some bad_blk_sigops /\
  block_limits_verdict true 500000 (blk_of [cb 1 4; ntx 20000 80000] 999000 1003000) = Some bad_blk_sigops /\
  block_limits_verdict true 500000 (blk_of [cb 0 0; ntx 5 20] 999000 1003001) = Some bad_blk_weight /\
  block_limits_verdict true 500000 (blk_of [cb 0 0; ntx 5 20] 1000000 1000000) = None /\
  block_limits_verdict true 500000 (blk_of [cb 0 0; ntx 5 20] 1000001 1000001) = Some bad_blk_length /\
  block_limits_verdict true 500001 (blk_of [cb 0 0; ntx 5 20] 1000 1000) = Some bad_cb_height /\
  block_limits_verdict true 500000 (blk_of [ntx 0 0; cb 5 20] 1000 1000) = Some bad_cb_missing /\
  block_limits_verdict true 500000 (blk_of [cb 0 0; cb 5 20] 1000 1000) = Some bad_cb_multiple /\
  wf_blk (blk_of [cb 0 0; ntx 20000 80000] 999000 1003000).
Proof.
  repeat match goal with |- _ /\ _ => split end.
  all: try match goal with |- @eq _ _ _ => vm_compute; reflexivity end.
  unfold wf_blk. repeat match goal with |- _ /\ _ => split end.
  all: try match goal with |- Z.le _ _ => vm_compute; intros; discriminate end.
  intros t [<-|[<-|[]]]; vm_compute; split; intros; discriminate.
Qed.
