(* C08  The active chain is always a most-work chain free of invalid blocks.
   Only statements here; each is closed by a lemma of proofs/ChainSelMain.v.

   Universe: `parent_of` (hashPrevBlock), `proof_of` (GetBlockProof) and `kind_of` (how the block fares against
   CheckBlock / ContextualCheckBlock / ConnectBlock) are arbitrary functions of the block id; premises: every block
   claims positive work and the genesis block is valid.  States: everything reachable from the genesis state by ANY
   list of operations  OpHeader b | OpBlock b requested? | OpInvalidate b | OpReconsider b  (model/ChainSel.v), for any
   minimum chain work.  Not modelled: pruning, assumeutxo chainstates, PreciousBlock, concurrency. *)
From BV Require Import lib.Ints gen.Params_gen model.ChainSel proofs.ChainSelInv proofs.ChainSelMain proofs.ChainSelHolds.
Local Open Scope Z_scope.

(* The CheckBlockIndex-style invariant holds after every operation sequence, the candidate set is complete and
   ActivateBestChain has run to completion (the tip is the only candidate left). *)
Theorem C08_invariant_after_any_history :
  forall (parent_of : id -> id) (proof_of : id -> Z) (kind_of : id -> kind),
  (forall b, 0 < proof_of b) -> kind_of GENESIS = KValid ->
  forall mw ops, let s := run parent_of proof_of kind_of (genesis_state proof_of mw) ops in
  Inv parent_of proof_of kind_of s /\ complete s /\ quiescent s.
Proof. exact c08_invariant. Qed.
Print Assumptions C08_invariant_after_any_history.

(* After any history: among the blocks whose whole ancestry has data and carries no failure flag, the tip has the
   greatest chainwork; it is the greatest of them in the order of CBlockIndexWorkComparator; among those of equal
   work it has the earliest sequence id (first seen). The tip itself is such a block. *)
Theorem C08_tip_is_best :
  forall (parent_of : id -> id) (proof_of : id -> Z) (kind_of : id -> kind),
  (forall b, 0 < proof_of b) -> kind_of GENESIS = KValid ->
  forall mw ops, let s := run parent_of proof_of kind_of (genesis_state proof_of mw) ops in
  clean_ancestry s (st_tip s) /\
  forall b, clean_ancestry s b ->
    work s b <= work s (st_tip s) /\
    (b <> st_tip s -> worse s b (st_tip s) = true) /\
    (b <> st_tip s -> work s b = work s (st_tip s) -> st_seq s (st_tip s) < st_seq s b).
Proof. exact c08_tip_is_best. Qed.
Print Assumptions C08_tip_is_best.

(* After any history: every block of the active chain has data, no failure flag, and neither it nor any of its
   ancestors fails a consensus check: no invalid block and no descendant of one is ever active. *)
Theorem C08_no_invalid_block_active :
  forall (parent_of : id -> id) (proof_of : id -> Z) (kind_of : id -> kind),
  (forall b, 0 < proof_of b) -> kind_of GENESIS = KValid ->
  forall mw ops, let s := run parent_of proof_of kind_of (genesis_state proof_of mw) ops in
  forall x, In x (path s (st_tip s)) ->
    st_failed s x = false /\ st_data s x = true /\
    forall a, In a (path s x) -> kind_of a = KValid /\ st_failed s a = false.
Proof. exact c08_no_invalid_block_active. Qed.
Print Assumptions C08_no_invalid_block_active.

(* invalidateblock b (b in the index, not genesis) after any history: b is flagged and is outside the active chain. *)
Theorem C08_invalidate_moves_tip :
  forall (parent_of : id -> id) (proof_of : id -> Z) (kind_of : id -> kind),
  (forall b, 0 < proof_of b) -> kind_of GENESIS = KValid ->
  forall mw ops b, let s := run parent_of proof_of kind_of (genesis_state proof_of mw) ops in
  known s b = true -> b <> GENESIS ->
  let s' := apply_op parent_of proof_of kind_of s (OpInvalidate b) in
  st_failed s' b = true /\ ~ In b (path s' (st_tip s')).
Proof. exact c08_invalidate_moves_tip. Qed.
Print Assumptions C08_invalidate_moves_tip.

(* reconsiderblock b after any history restores the most-work choice (it is an operation like any other). *)
Theorem C08_reconsider_restores_best :
  forall (parent_of : id -> id) (proof_of : id -> Z) (kind_of : id -> kind),
  (forall b, 0 < proof_of b) -> kind_of GENESIS = KValid ->
  forall mw ops b, let s' := run parent_of proof_of kind_of (genesis_state proof_of mw) (ops ++ [OpReconsider b]) in
  forall c, clean_ancestry s' c -> work s' c <= work s' (st_tip s') /\ (c <> st_tip s' -> worse s' c (st_tip s') = true).
Proof. exact c08_reconsider_restores_best. Qed.
Print Assumptions C08_reconsider_restores_best.

(* The executable predicates that the violation search evaluates on the implementation's block index hold on the dump
   (one record per index entry: parent, work, sequence id, data, failed, active, kind) of every state covered above:
   a `fail` verdict means the implementation's index is not the index of any reachable model state. *)
Theorem C08_search_predicates_hold_on_model_states :
  forall (parent_of : id -> id) (proof_of : id -> Z) (kind_of : id -> kind),
  (forall b, 0 < proof_of b) -> kind_of GENESIS = KValid ->
  forall mw ops, let s := run parent_of proof_of kind_of (genesis_state proof_of mw) ops in
  holds_tip_best (dump parent_of kind_of s) (st_tip s) = true /\
  holds_tip_most_work (dump parent_of kind_of s) (st_tip s) = true /\
  holds_active_clean (dump parent_of kind_of s) (st_tip s) = true.
Proof. exact c08_search_predicates_hold. Qed.
Print Assumptions C08_search_predicates_hold_on_model_states.

(* non-vacuity: genesis 0; blocks 1 and 2 on genesis, 3 on 2, 4 on 3 fails at connect; all with work 2.
   Delivering 1, 2, 3, 4 reorganises to 3 (4 is marked failed); invalidating 3 falls back to 1 (first seen of the
   two height-1 blocks); reconsidering 3 returns to it. *)
Definition ex_parent (b : id) : id := if b =? 3 then 2 else if b =? 4 then 3 else 0.
Definition ex_kind (b : id) : kind := if b =? 4 then KBadConnect else KValid.
Definition ex_ops : list op := [OpBlock 1 true; OpBlock 2 true; OpBlock 4 true; OpBlock 3 true; OpBlock 4 false; OpBlock 4 true].
Example C08_nonvacuous :
  let s := run ex_parent (fun _ => 2) ex_kind (genesis_state (fun _ => 2) 0) ex_ops in
  st_tip s = 3 /\ st_failed s 4 = true /\ st_data s 4 = true /\ st_data s 1 = true /\
  st_tip (apply_op ex_parent (fun _ => 2) ex_kind s (OpInvalidate 3)) = 1 /\
  st_tip (run ex_parent (fun _ => 2) ex_kind s [OpInvalidate 3; OpReconsider 3]) = 3.
Proof. vm_compute. repeat split; reflexivity. Qed.
