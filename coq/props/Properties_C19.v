(* C19  Pruning never deletes data the node still needs. *)
From BV Require Import lib.Ints gen.Params_gen model.StorePrune proofs.StorePruneLemmas.
Local Open Scope Z_scope.

(* For every block-file layout, prune target, manual height, IBD state, lock set and snapshot state:
   a file selected for deletion by the pruning step of FlushStateToDisk (automatic or manual)
   has its highest block at least 288 below the tip ... *)
Theorem C19_pruned_files_are_outside_the_288_window : forall e files manual k f,
  wf_env e -> wf_files files -> 288 <= pe_tip e ->
  In k (flush_prune e files manual) -> nth_file files k = Some f ->
  f_hlast f <= pe_tip e - 288.
Proof. exact pruned_outside_window. Qed.
Print Assumptions C19_pruned_files_are_outside_the_288_window.

(* ... lies entirely below every active prune lock (locks at height >= 2; see the _refuted theorem) ... *)
Theorem C19_pruned_files_are_below_every_prune_lock : forall e files manual k f l,
  wf_env e -> wf_files files -> 1 <= pe_tip e ->
  In k (flush_prune e files manual) -> nth_file files k = Some f ->
  In l (pe_locks e) -> l <> INT32_MAX -> 2 <= l ->
  f_hlast f < l.
Proof. exact pruned_below_locks. Qed.
Print Assumptions C19_pruned_files_are_below_every_prune_lock.

(* ... and entirely above the base of a snapshot that background validation has not validated yet. *)
Theorem C19_pruned_files_are_above_unvalidated_snapshot_base : forall e files manual k f b,
  wf_env e -> wf_files files -> 1 <= pe_tip e -> pe_snapshot_base e = Some b ->
  In k (flush_prune e files manual) -> nth_file files k = Some f ->
  b < f_hfirst f.
Proof. exact pruned_above_snapshot_base. Qed.
Print Assumptions C19_pruned_files_are_above_unvalidated_snapshot_base.

(* The exact bounds the code enforces, including its two clamps (max(0, tip-288) and max(1, lock-11)). *)
Theorem C19_exact_bounds_of_every_pruned_file : forall e files manual k,
  wf_env e -> wf_files files -> In k (flush_prune e files manual) ->
  exists f, nth_file files k = Some f /\ f_size f <> 0 /\
    f_hlast f <= Z.max 0 (pe_tip e - 288) /\
    (1 <= pe_tip e -> forall l, In l (pe_locks e) -> l <> INT32_MAX -> f_hlast f <= Z.max 1 (l - 11)) /\
    (1 <= pe_tip e -> match pe_snapshot_base e with Some b => b < f_hfirst f | None => True end).
Proof. exact pruned_files_safe. Qed.
Print Assumptions C19_exact_bounds_of_every_pruned_file.

(* Automatic pruning goes on until usage (plus the allocation buffer) is under the target or no
   eligible (non-empty, in-range) file remains unselected. *)
Theorem C19_automatic_pruning_makes_progress : forall files n usage buffer target rng,
  wrapu64 (usage_after files n usage buffer target rng + buffer) <? target = true \/
  (forall j f, nth_error files j = Some f -> f_size f <> 0 -> out_of_range f rng = false ->
               In (n + Z.of_nat j) (prune_loop files n usage buffer target rng)).
Proof. exact prune_loop_progress. Qed.
Print Assumptions C19_automatic_pruning_makes_progress.

(* The limit derived from the prune locks has a closed form (so the iteration order of the lock map is irrelevant). *)
Theorem C19_last_prune_closed_form : forall lp locks,
  (forall x, In x locks -> 0 <= x <= INT32_MAX) ->
  last_prune_of lp locks =
    if existsb effective locks then Z.max 1 (fold_right lockF lp locks) else lp.
Proof. exact last_prune_of_closed. Qed.
Print Assumptions C19_last_prune_closed_form.

(* Disconnecting the block at height h moves every prune lock back to at most h-1 and never raises one. *)
Theorem C19_locks_move_back_on_disconnect : forall h locks,
  (forall l', In l' (locks_after_disconnect h locks) -> l' <= h - 1) /\
  Forall2 (fun l l' => l' <= l) locks (locks_after_disconnect h locks).
Proof. intros h locks. split; [intros l'; apply locks_move_back | apply locks_never_raised]. Qed.
Print Assumptions C19_locks_move_back_on_disconnect.

(* The statement's window clause is FALSE of the faithful model when the tip is below 288
   (witness: tip 1, one file holding only genesis, manual prune at height 1): recorded finding. *)
Theorem C19_window_clause_refuted_below_288 :
  exists e files manual k f, wf_env e /\ wf_files files /\ In k (flush_prune e files manual) /\
    nth_file files k = Some f /\ pe_tip e - 288 < f_hlast f.
Proof. exact window_clause_refuted_below_288. Qed.
Print Assumptions C19_window_clause_refuted_below_288.

(* The lock clause is FALSE of the faithful model for a lock at height 1 (or 0): recorded finding. *)
Theorem C19_lock_clause_refuted_at_lock_1 :
  exists e files manual k f l, wf_env e /\ wf_files files /\ In k (flush_prune e files manual) /\
    nth_file files k = Some f /\ In l (pe_locks e) /\ l <> INT32_MAX /\ l <= f_hlast f.
Proof. exact lock_clause_refuted_at_lock_1. Qed.
Print Assumptions C19_lock_clause_refuted_at_lock_1.

(* non-vacuity: a layout on which the hypotheses hold and a file really is pruned, under a lock *)
Example C19_nonvacuous :
  flush_prune {| pe_tip := 1400; pe_prune_target := 576716800; pe_num_chainstates := 1; pe_prune_after_height := 1000;
                 pe_ibd := false; pe_best_header_height := 1400; pe_snapshot_base := None; pe_locks := [600] |}
              [ {| f_size := 300000000; f_undo := 1000000; f_hfirst := 0; f_hlast := 500 |};
                {| f_size := 300000000; f_undo := 1000000; f_hfirst := 501; f_hlast := 1000 |};
                {| f_size := 300000000; f_undo := 1000000; f_hfirst := 1001; f_hlast := 1400 |} ] 0 = [0].
Proof. vm_compute. reflexivity. Qed.
