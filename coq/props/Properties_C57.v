(* C57  Scripts are skipped only under the assumed-valid conditions.

   Full statement (properties.jsonl): "When an assumed-valid block is configured, the node skips script verification for
   a block only if that block is an ancestor of the assumed-valid block, lies on the best known header chain, the best
   header has at least the minimum chain work, and more than two weeks' worth of work is built on top of it in that
   header chain. Every other block, including blocks on competing branches and blocks too close to the best header,
   gets full script verification, so an invalid script there is rejected."

   script_check I cfg p is the script_check_reason computation of Chainstate::ConnectBlock over the block index I
   (parent, height, chain work, nBits of every entry), GetAncestor being the walk to the given height;
   skip_allowed is the conjunction of the conditions of the statement, the last one written without division:
   (TWO_WEEKS + 1) * proof(best header) <= (work(best header) - work(block)) * spacing. *)
From BV Require Import lib.Ints lib.ChainParams gen.Params_gen model.Pow model.AssumeValid proofs.AssumeValidLemmas.
Local Open Scope Z_scope.

(* wf_works: the spacing fits uint64 and |work difference| * spacing < 2^256 (true of any real chain: a work difference
   above 2^246 is needed to violate it with 600 s spacing); without it the 256-bit product wraps (modelled, and tied). *)

(* Scripts are skipped IF AND ONLY IF: assumevalid is configured, its block is in the index, the block is its ancestor
   (or the block itself), the block is on the best header chain, the best header has at least the minimum chain work,
   and more than two weeks of work (at the best header's difficulty) lie between the block and the best header. *)
Theorem C57_scripts_skipped_iff_all_conditions : forall I cfg p,
  wf_works I cfg p ->
  (script_check I cfg p = VSkip <-> skip_allowed I cfg p = true).
Proof. exact skip_iff. Qed.
Print Assumptions C57_scripts_skipped_iff_all_conditions.

Theorem C57_conditions_are_the_statements : forall I cfg p,
  skip_allowed I cfg p = c_ancestor I cfg p && c_best_chain I cfg p && c_min_work I cfg && c_buried I cfg p.
Proof. exact skip_allowed_conj. Qed.
Print Assumptions C57_conditions_are_the_statements.

(* Every other block gets full script verification. *)
Theorem C57_every_other_block_is_verified : forall I cfg p,
  wf_works I cfg p -> skip_allowed I cfg p = false -> script_check I cfg p <> VErr ->
  scripts_verified (script_check I cfg p) = true.
Proof. exact not_skip_verified. Qed.
Print Assumptions C57_every_other_block_is_verified.

(* In particular a block on a competing branch (not on the path from the best header to the genesis block). *)
Theorem C57_competing_branch_is_verified : forall I cfg p,
  c_best_chain I cfg p = false -> script_check I cfg p <> VSkip.
Proof. exact other_branch_verified. Qed.
Print Assumptions C57_competing_branch_is_verified.

(* A skipped block is buried: strictly more than two weeks' worth of work at the best header's difficulty ... *)
Theorem C57_skipped_block_is_buried : forall I cfg p pe he,
  wf_works I cfg p -> I p = Some pe -> I (av_best_header cfg) = Some he ->
  script_check I cfg p = VSkip ->
  TWO_WEEKS_IN_SECONDS * bits_proof (be_bits he) < (be_work he - be_work pe) * av_spacing cfg /\ 0 < bits_proof (be_bits he).
Proof. exact skip_implies_buried. Qed.
Print Assumptions C57_skipped_block_is_buried.

(* ... which with the generated 600 s spacing of every built-in chain is more than 2016 blocks of that difficulty. *)
Theorem C57_skipped_block_has_2016_blocks_on_top : forall I cfg p pe he,
  wf_works I cfg p -> av_spacing cfg = cp_target_spacing chain_main -> I p = Some pe -> I (av_best_header cfg) = Some he ->
  script_check I cfg p = VSkip ->
  2016 * bits_proof (be_bits he) < be_work he - be_work pe.
Proof. intros I cfg p pe he Hw Hs. apply skip_implies_2016_blocks; [exact Hw | rewrite Hs; reflexivity]. Qed.
Print Assumptions C57_skipped_block_has_2016_blocks_on_top.

(* GetBlockProofEquivalentTime = sign * min(INT64_MAX, floor(|work difference| * spacing / proof(tip))). *)
Theorem C57_equivalent_time_formula : forall to_w from_w proof s,
  0 < proof -> 0 <= s <= UINT64_MAX -> Z.abs (to_w - from_w) * s < 2 ^ 256 ->
  equiv_time to_w from_w proof s =
    EptOk ((if to_w >? from_w then 1 else -1) * Z.min INT64_MAX (Z.abs (to_w - from_w) * s / proof)).
Proof. exact equiv_time_spec. Qed.
Print Assumptions C57_equivalent_time_formula.

(* GetBitsProof = floor(2^256 / (target + 1)) for every valid compact target. *)
Theorem C57_block_proof_is_floor_of_2_256_over_target_plus_1 : forall nbits,
  let d := set_compact nbits in
  cd_negative d = false -> cd_overflow d = false -> 0 < cd_value d < 2 ^ 256 - 1 ->
  bits_proof nbits = 2 ^ 256 / (cd_value d + 1).
Proof. exact bits_proof_spec. Qed.
Print Assumptions C57_block_proof_is_floor_of_2_256_over_target_plus_1.

(* Each condition is needed: for each one a block index and configuration in which all the others hold, that one does
   not, and the scripts are verified (so none of them is implied by the rest). *)
Theorem C57_each_condition_is_needed :
  (script_check wI (wcfg None 100 4) 2 = VNotConfigured
     /\ c_best_chain wI (wcfg None 100 4) 2 = true /\ c_min_work wI (wcfg None 100 4) = true /\ c_buried wI (wcfg None 100 4) 2 = true) /\
  (script_check wI (wcfg (Some 99) 100 4) 2 = VNotInIndex
     /\ c_best_chain wI (wcfg (Some 99) 100 4) 2 = true /\ c_min_work wI (wcfg (Some 99) 100 4) = true /\ c_buried wI (wcfg (Some 99) 100 4) 2 = true) /\
  (script_check wI (wcfg (Some 13) 100 4) 2 = VNotAncestor /\ c_ancestor wI (wcfg (Some 13) 100 4) 2 = false
     /\ c_best_chain wI (wcfg (Some 13) 100 4) 2 = true /\ c_min_work wI (wcfg (Some 13) 100 4) = true /\ c_buried wI (wcfg (Some 13) 100 4) 2 = true) /\
  (script_check wI (wcfg (Some 4) 100 13) 2 = VNotBestChain /\ c_best_chain wI (wcfg (Some 4) 100 13) 2 = false
     /\ c_ancestor wI (wcfg (Some 4) 100 13) 2 = true /\ c_min_work wI (wcfg (Some 4) 100 13) = true /\ c_buried wI (wcfg (Some 4) 100 13) 2 = true) /\
  (script_check wI (wcfg (Some 4) 7000 4) 2 = VBelowMinWork /\ c_min_work wI (wcfg (Some 4) 7000 4) = false
     /\ c_ancestor wI (wcfg (Some 4) 7000 4) 2 = true /\ c_best_chain wI (wcfg (Some 4) 7000 4) 2 = true /\ c_buried wI (wcfg (Some 4) 7000 4) 2 = true) /\
  (script_check wI (wcfg (Some 4) 100 4) 3 = VTooRecent /\ c_buried wI (wcfg (Some 4) 100 4) 3 = false
     /\ c_ancestor wI (wcfg (Some 4) 100 4) 3 = true /\ c_best_chain wI (wcfg (Some 4) 100 4) 3 = true /\ c_min_work wI (wcfg (Some 4) 100 4) = true).
Proof.
  split; [exact configured_needed|]. split; [exact in_index_needed|]. split; [exact ancestor_needed|].
  split; [exact best_chain_needed|]. split; [exact min_work_needed | exact buried_needed].
Qed.
Print Assumptions C57_each_condition_is_needed.

(* The two-week boundary in regtest blocks (proof 2, spacing 600): 2016 blocks on top give exactly two weeks (verify),
   2017 give more (skip). *)
Theorem C57_regtest_boundary_is_2016_blocks :
  equiv_time (2 * 2016 + 10) 10 (bits_proof RB) 600 = EptOk 1209600 /\
  equiv_time (2 * 2017 + 10) 10 (bits_proof RB) 600 = EptOk 1210200 /\ bits_proof RB = 2 /\ TWO_WEEKS_IN_SECONDS = 1209600.
Proof. destruct regtest_boundary as (H1 & H2 & H3). repeat split; assumption. Qed.
Print Assumptions C57_regtest_boundary_is_2016_blocks.

(* Non-vacuity: a block index with a competing branch in which a block IS skipped, satisfying wf_works. *)
Example C57_nonvacuous :
  wf_works wI (wcfg (Some 4) 100 4) 2 /\ script_check wI (wcfg (Some 4) 100 4) 2 = VSkip /\ skip_allowed wI (wcfg (Some 4) 100 4) 2 = true.
Proof. split; [exact witness_wf | exact witness_skip]. Qed.
