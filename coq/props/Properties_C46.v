(* C46  Signing produces valid spends and never fakes a satisfaction.
   The theorems are about the Gallina transcription (model/Signing.v) of the template dispatch of SignStep /
   ProduceSignature, which the correspondence compares output-for-output with the real code on every template descriptor,
   and about the predicates the translation validation of miniscript / taproot descriptors uses.
   Only statements here; each is closed by `exact` of a lemma from proofs/SigningLemmas.v. *)
From BV Require Import lib.Ints model.Signing proofs.SigningLemmas.
Local Open Scope Z_scope.

(* For every provider and every template (P2PK, P2PKH, k-of-n multisig, P2WPKH, and any nesting under P2SH / P2WSH): the
   dispatch reports `solved` exactly when the specification says a complete spend exists with what the provider has, and then
   the scriptSig pushes and the witness are exactly the specified ones; otherwise it reports unsolved. *)
Theorem C46_dispatch_matches_spec : forall P t,
  match spec_spend P t with
  | Some (ss, w) => produce P t = mkSigRes true ss w
  | None => sr_solved (produce P t) = false
  end.
Proof. exact produce_matches_spec. Qed.
Print Assumptions C46_dispatch_matches_spec.

(* never signs with a key it does not have: every signature element in the produced scriptSig / witness - also the partial
   signatures of an unsolved multisig - is by a key whose private key is available *)
Theorem C46_signatures_only_by_available_keys : forall P t k,
  In (ESig k) (sr_ss (produce P t) ++ sr_wit (produce P t)) -> has_priv P k = true.
Proof. exact produce_sig_available. Qed.
Print Assumptions C46_signatures_only_by_available_keys.

(* the specified k-of-n spend: the CHECKMULTISIG dummy, then exactly k signatures, by available keys, in the order the keys
   have in the script *)
Theorem C46_multisig_spend_shape : forall P m ks s,
  base_stack P (TMulti m ks) = Some s ->
  exists sel, s = EEmpty :: map ESig sel /\ length sel = m /\ subseq sel ks /\ (forall k, In k sel -> has_priv P k = true).
Proof. exact multisig_spend_shape. Qed.
Print Assumptions C46_multisig_spend_shape.

(* a multisig is solved iff at least k of its keys are available *)
Theorem C46_multisig_solved_iff : forall P m ks,
  sr_solved (produce P (TMulti m ks)) = true <-> (m <= length (filter (has_priv P) ks))%nat.
Proof.
  intros P m ks. rewrite produce_solved_iff. unfold spec_spend, base_stack, avail_keys.
  destruct (m <=? length (filter (has_priv P) ks))%nat eqn:E.
  - apply Nat.leb_le in E. split; [intros _; exact E|intros _; discriminate].
  - apply Nat.leb_gt in E. split; [intros H; exfalso; apply H; reflexivity|intros H; lia].
Qed.
Print Assumptions C46_multisig_solved_iff.

(* timelocks: what the interpreter's predicates (used by the satisfier through the creator's checker) demand of the transaction *)
Theorem C46_locktime_predicate_sound : forall tx n, check_locktime tx n = true ->
  n <= tx_locktime tx /\ tx_sequence tx <> SEQUENCE_FINAL /\
  ((tx_locktime tx < LOCKTIME_THRESHOLD /\ n < LOCKTIME_THRESHOLD) \/ (LOCKTIME_THRESHOLD <= tx_locktime tx /\ LOCKTIME_THRESHOLD <= n)).
Proof. exact check_locktime_sound. Qed.
Print Assumptions C46_locktime_predicate_sound.

Theorem C46_sequence_predicate_sound : forall tx n, check_sequence tx n = true ->
  2 <= tx_version tx /\ Z.land (tx_sequence tx) SEQ_DISABLE = 0 /\ seq_masked n <= seq_masked (tx_sequence tx).
Proof. exact check_sequence_sound. Qed.
Print Assumptions C46_sequence_predicate_sound.

(* the policy oracle: more keys / preimages never turn a satisfiable policy unsatisfiable *)
Theorem C46_policy_monotone : forall P P' pre pre' tx,
  (forall k, has_priv P k = true -> has_priv P' k = true) ->
  (forall h, pre h = true -> pre' h = true) ->
  forall m, ms_sat P pre tx m = true -> ms_sat P' pre' tx m = true.
Proof. exact ms_sat_monotone. Qed.
Print Assumptions C46_policy_monotone.

(* the report predicate of the translation validation: a report it accepts never has complete without verification *)
Theorem C46_report_sound : forall complete verify_ok, report_ok complete verify_ok = true -> complete = true -> verify_ok = true.
Proof. exact report_ok_sound. Qed.
Print Assumptions C46_report_sound.

(* non-vacuity: a 2-of-3 under P2SH-P2WSH with keys 0 and 2 available is solved with [script] / [dummy, sig0, sig2, script];
   with only key 2 it is unsolved and the partial witness holds sig2 and ONE padding element (the real loop's quirk) *)
Definition exP (mask : nat -> bool) : provider := mkProv mask (fun _ => true) true.
Example C46_nonvacuous :
  produce (exP (fun k => Nat.eqb k 0 || Nat.eqb k 2)) (TSH (TWSH (TMulti 2 [0; 1; 2]%nat))) =
    mkSigRes true [EScript] [EEmpty; ESig 0%nat; ESig 2%nat; EScript] /\
  produce (exP (fun k => Nat.eqb k 2)) (TSH (TWSH (TMulti 2 [0; 1; 2]%nat))) =
    mkSigRes false [EScript] [EEmpty; ESig 2%nat; EEmpty; EScript] /\
  ms_sat (exP (fun k => Nat.eqb k 1)) (fun _ => false) (mkTx 2 0 9) (MOr (MPk 0%nat) (MAnd (MPk 1%nat) (MOlder 10))) = false /\
  ms_sat (exP (fun k => Nat.eqb k 1)) (fun _ => false) (mkTx 2 0 10) (MOr (MPk 0%nat) (MAnd (MPk 1%nat) (MOlder 10))) = true.
Proof. vm_compute. repeat split. Qed.
