(* C41  Wallet-created transactions are correct, sufficiently funded and not overpaying.
   Translation validation: the theorems are about the executable checker `valid_funding` (model/WalletSpend.v) that the
   correspondence runs on every transaction the real wallet::CreateTransaction produces.
   Only statements here; each is closed by `exact` of a lemma from proofs/WalletSpendLemmas.v. *)
From BV Require Import lib.Ints model.WalletSpend proofs.WalletSpendLemmas.
From Coq Require Import NArith.
Local Open Scope Z_scope.

(* Whatever the checker accepts satisfies the property's statement (spelled out in created_tx_statement, unfolded here):
   distinct inputs, each explicitly supplied or a spendable wallet coin (mature, in the chain / mempool, trusted unless
   unsafe inputs were requested, inside the depth limits, not locked, not spent), all supplied inputs used, value
   conservation, every non-change output a recipient's paid its amount minus its share (share 0 without subtract-fee; the
   quotient/remainder rule with it), the subtracting recipients pay exactly the fee when there is change, no dust, change to
   the wallet and worth creating, fee >= feerate x final size and <= the maximum transaction fee. *)
Theorem C41_created_tx_valid_sound : forall w e rq res,
  valid_funding w e rq res = true ->
  NoDup (map ti_id (r_ins res)) /\ r_ins res <> [] /\
  (forall i, In i (r_ins res) ->
     In (ti_id i) (rq_preset rq) \/
     (rq_allow_other rq = true /\
      exists c, In c w /\ wc_id c = ti_id i /\ wc_value c = ti_value i /\
        wc_immature c = false /\ 0 <= wc_depth c /\ (wc_depth c = 0 -> wc_inmempool c = true) /\
        (rq_include_unsafe rq = false -> wc_trusted c = true /\ (wc_depth c = 0 -> wc_replace c = false)) /\
        rq_min_depth rq <= wc_depth c <= rq_max_depth rq /\
        wc_locked c = false /\ wc_spent c = false /\ (e_spend_zc e = false -> 1 <= wc_depth c))) /\
  (forall id, In id (rq_preset rq) -> In id (map ti_id (r_ins res))) /\
  zsum (map ti_value (r_ins res)) = zsum (map to_value (r_outs res)) + r_fee res /\
  length (payouts res) = length (rq_rcps rq) /\
  (forall k rc, nth_error (rq_rcps rq) k = Some rc ->
     exists s o, nth_error (payouts res) k = Some o /\ to_spk o = rc_spk rc /\ to_value o = rc_amount rc - s /\
       (any_sffo (rq_rcps rq) = false -> s = 0) /\
       (any_sffo (rq_rcps rq) = true -> share_spec (total_reduction (rq_rcps rq) (payouts res)) (rq_rcps rq) k s)) /\
  (any_sffo (rq_rcps rq) = true ->
     match r_change_pos res with
     | Some _ => total_reduction (rq_rcps rq) (payouts res) = r_fee res
     | None => r_fee res - min_viable_change e < total_reduction (rq_rcps rq) (payouts res) <= r_fee res
     end) /\
  (forall o, In o (r_outs res) -> dust_threshold (e_dust_rate e) (to_spk o) <= to_value o) /\
  (forall p, r_change_pos res = Some p ->
     exists o, nth_error (r_outs res) p = Some o /\
       match rq_dest_change rq with Some s => to_spk o = s | None => to_mine o = true end /\
       min_viable_change e <= to_value o) /\
  get_fee (effective_rate e rq) (r_vsize res) <= r_fee res /\
  (forall r, rq_feerate rq = Some r -> 0 <= r -> get_fee r (r_vsize res) <= r_fee res) /\
  r_fee res <= e_max_fee e.
Proof. exact created_tx_valid_sound. Qed.
Print Assumptions C41_created_tx_valid_sound.

(* The subtract-fee distribution (transcribed loop of CreateTransactionInternal), for EVERY amount to distribute (it can
   be negative) and every recipient list with at least one subtracting recipient: the shares add up to exactly that
   amount; a recipient that does not subtract has share 0; the FIRST subtracting recipient's share is quotient +
   remainder, every later one's the quotient (C++ truncating division). *)
Theorem C41_subtract_share_spec : forall t rcps, any_sffo rcps = true ->
  zsum (sffo_shares t rcps) = t /\ length (sffo_shares t rcps) = length rcps /\
  (forall k s, nth_error (sffo_shares t rcps) k = Some s ->
     match nth_error rcps k with
     | None => False
     | Some rc =>
         if rc_sffo rc
         then if existsb rc_sffo (firstn k rcps) then s = cdiv t (n_sffo rcps)
              else s = cdiv t (n_sffo rcps) + cmod t (n_sffo rcps)
         else s = 0
     end).
Proof. exact subtract_share_spec. Qed.
Print Assumptions C41_subtract_share_spec.

(* value conservation seen from the recipients: inputs = (requested - total reduction) + change + fee *)
Theorem C41_funding_balance : forall w e rq res,
  valid_funding w e rq res = true ->
  sum_in res = (sum_requested (rq_rcps rq) - total_reduction (rq_rcps rq) (payouts res)) + change_value res + r_fee res.
Proof. intros w e rq res V. exact (funding_balance w e rq res (valid_funding_sound w e rq res V)). Qed.
Print Assumptions C41_funding_balance.

(* Not overpaying, exact bound 1: with a change output, or when recipients pay the fee, the fee is EXACTLY the effective
   feerate on the maximum signed size plus the ancestor bump fees; for a signed transaction that is at most the feerate
   on its real size + SIG_SLACK bytes per input. *)
Theorem C41_fee_exact_with_change_or_sffo : forall w e rq res,
  valid_funding w e rq res = true ->
  r_change_pos res <> None \/ any_sffo (rq_rcps rq) = true ->
  r_fee res = get_fee (effective_rate e rq) (r_max_vsize res) + r_bump res /\
  (r_signed res = true ->
   r_fee res <= get_fee (effective_rate e rq) (r_vsize res + SIG_SLACK * Z.of_nat (length (r_ins res))) + r_bump res).
Proof.
  intros w e rq res V H. pose proof (valid_funding_sound w e rq res V) as F. split.
  - exact (fo_fee_exact w e rq res F H).
  - intros S. exact (overpayment_bound_exact w e rq res F S H).
Qed.
Print Assumptions C41_fee_exact_with_change_or_sffo.

(* Not overpaying, exact bound 2: without change and without subtracting recipients the fee stays below the fee of the
   pieces the selection accounted for (inputs at their maximum signed sizes, the outputs and overhead) plus what
   SelectionResult::GetChange drops: change_fee + min_viable_change - 1 (rounding: one unit per piece). *)
Theorem C41_fee_bound_without_change : forall w e rq res,
  valid_funding w e rq res = true -> r_change_pos res = None -> any_sffo (rq_rcps rq) = false ->
  let rate := effective_rate e rq in
  r_fee res <= get_fee rate (zsum (map ti_size (r_ins res)) + noinputs_size (rq_rcps rq))
               + Z.of_nat (length (r_ins res)) + 1 + r_bump res
               + change_fee e rate + min_viable_change e - 1.
Proof. intros w e rq res V. exact (overpayment_bound_nochange w e rq res (valid_funding_sound w e rq res V)). Qed.
Print Assumptions C41_fee_bound_without_change.

(* the effective feerate (transcription of GetMinimumFeeRate) is never below the requested one, and never below the
   required one (max of -mintxfee and the relay minimum) unless the caller overrides *)
Theorem C41_effective_rate_bounds : forall e rq,
  (forall r, rq_feerate rq = Some r -> r <= effective_rate e rq) /\
  (rq_override rq = false -> (rq_feerate rq = None -> e_fallback e <> 0) -> required_rate e <= effective_rate e rq).
Proof. intros e rq. split; [intros r; apply effective_rate_ge_requested | apply effective_rate_ge_required]. Qed.
Print Assumptions C41_effective_rate_bounds.

(* non-vacuity: a concrete transaction (one 300000-sat legacy coin, recipients 150000 + 20000 both subtracting the fee,
   bech32 change, 3333 sat/kvB as the real wallet produced it) is accepted; the same transaction with the remainder
   charged to the LAST subtracting recipient, with the locked coin, or with the fee of the unsigned size, is rejected. *)
Definition ex_spk_b : script := [0; 20; 20; 127; 47; 138; 84; 105; 31; 188; 13; 179; 6; 250; 72; 13; 40; 74; 144; 157; 210; 92]%N.
Definition ex_spk_l : script := [118; 169; 20; 20; 127; 47; 138; 84; 105; 31; 188; 13; 179; 6; 250; 72; 13; 40; 74; 144; 157; 210; 92; 136; 172]%N.
Definition ex_spk_c : script := [0; 20; 56; 91; 67; 32; 12; 189; 194; 91; 169; 77; 47; 83; 45; 208; 233; 16; 241; 158; 154; 64]%N.
Definition ex_env : env := mkEnv 100 3000 0 1000 0 10000 10000000 true ex_spk_c 68.
Definition ex_coins : list wcoin :=
  [mkWCoin 0 100000 1 false false false true false false; mkWCoin 1 200000 1 false true false true false false;
   mkWCoin 2 300000 1 false false false true false false].
Definition ex_rq : request :=
  mkReq [mkRcp ex_spk_b 150000 true; mkRcp ex_spk_l 20000 true] [] true false 0 9999999 (Some 3333) false None.
Definition ex_res (a b fee : Z) (coin : Z) : result :=
  mkRes [mkIn coin 300000 148] [mkOut a ex_spk_b false; mkOut b ex_spk_l false; mkOut 130000 ex_spk_c true]
        fee (Some 2%nat) 253 253 0 true.
Example C41_nonvacuous :
  valid_funding ex_coins ex_env ex_rq (ex_res 149578 19578 844 2) = true /\
  valid_funding ex_coins ex_env ex_rq (ex_res 149579 19577 844 2) = false /\
  valid_funding ex_coins ex_env ex_rq (mkRes [mkIn 1 200000 68] [mkOut 149578 ex_spk_b false; mkOut 19578 ex_spk_l false; mkOut 30000 ex_spk_c true] 844 (Some 2%nat) 253 253 0 true) = false /\
  valid_funding ex_coins ex_env ex_rq (ex_res 149600 19600 800 2) = false.
Proof. vm_compute. repeat split. Qed.
