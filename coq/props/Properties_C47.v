(* C47  PSBTs round-trip, combine and finalize correctly.
   Only statements here; each is closed by `exact` of a lemma from proofs/PsbtLemmas.v.

   Proved about the model: the key-value map codec (round trip, re-encoding stability, duplicate-key rejection),
   Merge on maps / optional fields / the modifiable flags (idempotent, associative, commutative exactly when no
   value conflicts, nothing dropped or invented), and the BIP370 locktime rule of ComputeTimeLock as a decision
   table for all inputs.  The typed (de)serialization of the individual fields, and the clause "a finalized,
   extracted transaction has the unsigned transaction's txid (up to scriptSigs) and passes script verification",
   are carried by the correspondence with the real code only (see LEVEL_NOTE in props/C47.py). *)
From Coq Require Import NArith.
From BV Require Import lib.Ints model.Psbt proofs.PsbtLemmas.

(* ---- codec ---- *)
(* every well-formed map (non-empty keys, no key twice, sizes within MAX_SIZE) decodes from its encoding to
   itself, leaving exactly the bytes that followed *)
Theorem C47_kv_roundtrip : forall m rest, kv_wf m = true -> kv_decode (kv_encode m ++ rest) = KvOk m rest.
Proof. exact kv_roundtrip. Qed.
Print Assumptions C47_kv_roundtrip.

(* whatever the decoder accepts is well-formed and re-encodes to bytes that decode to the same content *)
Theorem C47_kv_accepted_reencodes_to_same_content : forall b m rest, kv_decode b = KvOk m rest ->
  kv_wf m = true /\ kv_decode (kv_encode m ++ rest) = KvOk m rest.
Proof. intros b m rest H. split; [exact (kv_decode_wf b m rest H) | exact (kv_reencode_stable b m rest H)]. Qed.
Print Assumptions C47_kv_accepted_reencodes_to_same_content.

(* a record whose key already occurred in the map is rejected as a duplicate, whatever its value *)
Theorem C47_kv_duplicate_key_rejected : forall m k v more,
  kv_wf m = true -> has_key k m = true -> k <> [] -> (N.of_nat (length k) <= MAX_SIZE)%N ->
  kv_decode (flat_map kv_enc_rec m ++ kv_enc_rec (k, v) ++ more) = KvDuplicate.
Proof. exact kv_duplicate_key_rejected. Qed.
Print Assumptions C47_kv_duplicate_key_rejected.

(* ---- merge (std::map/std::set::insert keeps the element already present) ---- *)
Theorem C47_merge_lookup : forall k a b,
  lookup k (union_keep a b) = match lookup k a with Some v => Some v | None => lookup k b end.
Proof. exact union_lookup. Qed.
Print Assumptions C47_merge_lookup.

(* combining with itself changes nothing *)
Theorem C47_merge_idempotent : forall a, union_keep a a = a.
Proof. exact union_idem. Qed.
Print Assumptions C47_merge_idempotent.

Theorem C47_merge_associative : forall k a b c,
  lookup k (union_keep (union_keep a b) c) = lookup k (union_keep a (union_keep b c)).
Proof. exact union_assoc. Qed.
Print Assumptions C47_merge_associative.

(* same result in any order when no key carries two different values *)
Theorem C47_merge_commutative_without_conflicts : forall a b, compatible a b = true ->
  forall k, lookup k (union_keep a b) = lookup k (union_keep b a).
Proof. exact union_comm. Qed.
Print Assumptions C47_merge_commutative_without_conflicts.

(* every field of either side is in the result (the first side's value wins), and nothing else is *)
Theorem C47_merge_never_drops_or_invents : forall k v a b,
  (lookup k a = Some v -> lookup k (union_keep a b) = Some v) /\
  (lookup k b = Some v -> exists v', lookup k (union_keep a b) = Some v' /\ (lookup k a = None -> v' = v)) /\
  (lookup k (union_keep a b) = Some v -> lookup k a = Some v \/ lookup k b = Some v).
Proof.
  intros k v a b. split; [exact (union_keeps_left k v a b)|]. split; [exact (union_keeps_right k v a b)|exact (union_no_invention k v a b)].
Qed.
Print Assumptions C47_merge_never_drops_or_invents.

(* the executable predicate judged on the implementation's merge result means "the union keeping the first" *)
Theorem C47_merge_predicate_sound : forall a b out, merge_spec_holds a b out = true ->
  forall k, lookup k out = lookup k (union_keep a b).
Proof. exact merge_spec_holds_sound. Qed.
Print Assumptions C47_merge_predicate_sound.

(* single-valued fields (sequence, required locktimes, fallback locktime, scripts, utxos, taproot keys):
   taken from the other side only when absent *)
Theorem C47_single_field_merge : forall (a b c : option N),
  keep_first a a = a /\ keep_first (keep_first a b) c = keep_first a (keep_first b c) /\
  ((forall x y, a = Some x -> b = Some y -> x = y) -> keep_first a b = keep_first b a) /\
  (forall x, a = Some x \/ (a = None /\ b = Some x) -> keep_first a b = Some x).
Proof.
  intros a b c. split; [exact (keep_first_idem a)|]. split; [exact (keep_first_assoc a b c)|].
  split; [exact (keep_first_comm a b)|exact (keep_first_keeps a b)].
Qed.
Print Assumptions C47_single_field_merge.

(* the modifiable flags: AND of the two (absent = 0), bit 2 OR-ed; symmetric, and idempotent on a byte *)
Theorem C47_modifiable_merge : forall a b x,
  merge_modifiable a b = merge_modifiable b a /\ ((x < 256)%N -> merge_modifiable (Some x) (Some x) = Some x).
Proof. intros a b x. split; [exact (merge_modifiable_comm a b)|exact (merge_modifiable_idem x)]. Qed.
Print Assumptions C47_modifiable_merge.

(* ---- BIP370 locktime ---- *)
(* For every list of inputs whose required locktimes are positive and every fallback: no input has a requirement ->
   the fallback (0 if absent); every input with a requirement allows a height lock -> the maximum required height
   (height preferred); else every such input allows a time lock -> the maximum required time; else undetermined. *)
Theorem C47_timelock_bip370 : forall ins fallback,
  Forall (fun i => (forall t, in_time i = Some t -> (0 < t)%Z) /\ (forall h, in_height i = Some h -> (0 < h)%Z)) ins ->
  compute_timelock 2 ins fallback =
    (if forallb no_req ins then Some (match fallback with Some f => f | None => 0%Z end)
     else if forallb height_ok ins then Some (max_height ins)
     else if forallb time_ok ins then Some (max_time ins)
     else None).
Proof. exact compute_timelock_bip370. Qed.
Print Assumptions C47_timelock_bip370.

Theorem C47_timelock_before_v2 : forall v ins fallback, (v < 2)%Z ->
  compute_timelock v ins fallback = Some (match fallback with Some f => f | None => 0%Z end).
Proof. exact compute_timelock_v0. Qed.
Print Assumptions C47_timelock_before_v2.

(* non-vacuity: a two-record map round-trips; a conflicting pair of inputs has no locktime, a compatible one the
   larger height; merging keeps the first value and adds the new key *)
Local Open Scope N_scope.
Example C47_nonvacuous :
  kv_decode (kv_encode [([48; 1], [7; 8; 9]); ([252; 1; 65; 0], [])] ++ [0]) =
    KvOk [([48; 1], [7; 8; 9]); ([252; 1; 65; 0], [])] [0] /\
  kv_decode ([1; 48; 1; 5] ++ [1; 48; 1; 6] ++ [0]) = KvDuplicate /\
  compute_timelock 2 [mkPin (Some 500000001%Z) None; mkPin None (Some 100%Z)] (Some 77%Z) = None /\
  compute_timelock 2 [mkPin (Some 500000001%Z) (Some 200%Z); mkPin None (Some 100%Z)] (Some 77%Z) = Some 200%Z /\
  union_keep [([48], [1])] [([48], [2]); ([49], [3])] = [([48], [1]); ([49], [3])].
Proof. vm_compute. repeat split; reflexivity. Qed.
