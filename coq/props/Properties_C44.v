(* C44  Wallet balances match the chain and mempool.
   Only statements here; each is closed by `exact` of a lemma from proofs/WalletBalLemmas.v.

   Full statement of the property: "after any sequence of blocks, reorgs and mempool changes the wallet's trusted,
   untrusted-pending and immature balances and its spendable coins equal those computed from the active chain and
   mempool; conflicted transactions are not counted and coins spent by them are restored".
   Proved here (C44_balances_equal_chain_view_partial): the balances clause for every wallet snapshot on which the
   executable predicate `tracks` holds (every wallet transaction's state is its true status, nothing relevant is
   missing).  NOT proved: that the wallet's notification handlers maintain `tracks` over histories - that is checked
   on every step of every generated scenario by the correspondence - and the spendable-coin list (compared per step). *)
From BV Require Import lib.Ints gen.Params_gen model.WalletBal proofs.WalletBalLemmas.
Local Open Scope Z_scope.

(* Whenever the wallet tracks the chain, the transcription of GetBalance (HowSpent, CachedTxIsTrusted, maturity,
   bucket choice) equals the balances computed directly from the active chain and the mempool. *)
Theorem C44_balances_equal_chain_view_partial : forall table chain pool tip fuel W,
  tracks table chain pool tip W = true -> (0 < fuel)%nat ->
  get_balance W tip fuel = balance_spec table chain pool tip fuel (own_pending_of W).
Proof. exact balance_is_spec. Qed.
Print Assumptions C44_balances_equal_chain_view_partial.

(* Transactions conflicted by the chain (and inactive ones) are not counted: none of their outputs reaches any balance. *)
Theorem C44_conflicted_not_counted : forall W tip fuel e,
  (exists h, e_state e = SConflicted h) \/ (exists a, e_state e = SInactive a) ->
  forall outs n, entry_balance W tip fuel e n outs = bal_zero.
Proof. exact conflicted_not_counted. Qed.
Print Assumptions C44_conflicted_not_counted.

(* Coins spent only by conflicted, abandoned or mempool-conflicted transactions are restored: HowSpent reports
   UNSPENT and IsSpent is false. *)
Theorem C44_conflict_restores_coins : forall W op,
  (forall e, In e W -> spends op (e_tx e) = true ->
             is_block_conflicted e = true \/ is_abandoned e = true \/
             (e_mconf e = true /\ is_confirmed e = false /\ in_mempool e = false)) ->
  how_spent W op = Unspent /\ is_spent W op = false.
Proof. exact conflict_restores_coins. Qed.
Print Assumptions C44_conflict_restores_coins.

(* The trust recursion agrees with its chain-based definition on every tracked wallet, for every fuel. *)
Theorem C44_trusted_is_chain_view : forall table chain pool tip W, tracks table chain pool tip W = true ->
  forall f e, In e W -> is_trusted W f e = trusted_spec table chain pool f (e_tx e).
Proof. exact is_trusted_spec. Qed.
Print Assumptions C44_trusted_is_chain_view.

(* Sufficient fuel for CachedTxIsTrusted: with inputs referring to earlier transactions any fuel above the id suffices. *)
Theorem C44_trust_fuel_sufficient : forall W,
  (forall e, In e W -> forall op, In op (t_ins (e_tx e)) -> (fst op < t_id (e_tx e))%nat) ->
  forall f1 f2 e, In e W -> (t_id (e_tx e) < f1)%nat -> (f1 <= f2)%nat -> is_trusted W f1 e = is_trusted W f2 e.
Proof. exact is_trusted_fuel_irrelevant. Qed.
Print Assumptions C44_trust_fuel_sufficient.

(* non-vacuity: a received coin (tx 1, confirmed at 102) spent by an own transaction in the mempool (tx 2, change back)
   and by a conflicted one (tx 3): tracks holds, the trusted balance is tx 2's change, from both computations *)
Example C44_nonvacuous :
  let t0 := mkTx 0 true [] [mkOut 5000000000 false] in
  let t1 := mkTx 1 false [(0%nat, 0%nat)] [mkOut 100000000 true; mkOut 4899990000 false] in
  let t2 := mkTx 2 false [(1%nat, 0%nat)] [mkOut 30000000 true; mkOut 69980000 false] in
  let t3 := mkTx 3 false [(1%nat, 0%nat)] [mkOut 99000000 true] in
  let table := [t0; t1; t2; t3] in
  let W := [mkEntry t1 (SConfirmed 102) false; mkEntry t2 SMempool false; mkEntry t3 (SInactive false) true] in
  tracks table [(50, [0%nat]); (102, [1%nat])] [2%nat] 103 W = true /\
  get_balance W 103 5 = mkBal 30000000 0 0 /\
  balance_spec table [(50, [0%nat]); (102, [1%nat])] [2%nat] 103 5 (own_pending_of W) = mkBal 30000000 0 0.
Proof. vm_compute. repeat split; reflexivity. Qed.
