(* C62: the wallet never hands out the same new address twice.
   Statements only; proofs in proofs/KeyPoolLemmas.v, model in model/KeyPool.v.

   `run (init size) ops` is ANY sequence of wallet operations on a freshly created descriptor wallet with keypool
   size `size`: new receiving / change addresses of every descriptor, reservations that are kept or returned,
   top-ups, payments seen to look-ahead addresses, clean restarts and crashes, where EVERY mutating database call
   (TxnBegin, WriteKey, TxnCommit) of every operation succeeds or fails as an arbitrary oracle says.
   `handed outs` are the (descriptor, index) pairs whose addresses were returned for use (returned by
   GetNewDestination / GetNewChangeDestination, or reserved and kept). *)
From Coq Require Import ZArith List Bool Lia.
From BV Require Import lib.Ints model.KeyPool proofs.KeyPoolLemmas.
Import ListNotations.
Open Scope Z_scope.

(* the property: premise = the address derivation is injective on (descriptor, index) (hash / EC premise) *)
Theorem C62_no_address_handed_out_twice :
  forall (A : Type) (addr : nat -> Z -> A),
    (forall s i s' i', addr s i = addr s' i' -> s = s' /\ i = i') ->
    forall size ops,
      NoDup (map (fun p => addr (fst p) (snd p)) (handed (fst (run (init size) ops)))).
Proof. exact no_repeat_addresses. Qed.
Print Assumptions C62_no_address_handed_out_twice.

Theorem C62_no_index_handed_out_twice :
  forall size ops, NoDup (handed (fst (run (init size) ops))).
Proof. exact no_repeat. Qed.
Print Assumptions C62_no_index_handed_out_twice.

(* why restarts and crashes are safe: at every point of every history (every prefix of a run is a run) each index
   handed out so far is below the in-memory next_index AND below the next_index stored in the database record,
   from which the next session starts *)
Theorem C62_handed_out_below_persisted_next_index :
  forall size ops outs st,
    run (init size) ops = (outs, st) ->
    forall s i, In (s, i) (handed outs) -> i < k_next (w_kp st s) /\ i < k_pnext (w_kp st s).
Proof. exact handed_protected. Qed.
Print Assumptions C62_handed_out_below_persisted_next_index.

(* the assert in TopUpWithDB never fires, the "keypool ran out" branch of GetNewDestination is dead, and every
   counter stays a non-negative int32 (so the model's unbounded arithmetic is the C++ arithmetic; the model answers
   OUb instead of issuing where an int32 sum would overflow) *)
Theorem C62_counters_well_formed :
  forall size ops outs st,
    1 <= size <= INT32_MAX -> run (init size) ops = (outs, st) ->
    ~ In OAssert outs /\ (forall n, ~ In (OErrOut n) outs) /\
    forall s, let k := w_kp st s in
      k_maxc k = k_rend k - 1 /\ 0 <= k_next k <= INT32_MAX /\ 0 <= k_rend k <= INT32_MAX /\
      0 <= k_pnext k <= INT32_MAX /\ 0 <= k_prend k <= INT32_MAX.
Proof. exact run_well_formed. Qed.
Print Assumptions C62_counters_well_formed.

(* the predicate evaluated on the implementation's output is the property *)
Theorem C62_predicate_sound : forall l, holds_distinct l = true <-> NoDup l.
Proof. exact holds_distinct_sound. Qed.
Print Assumptions C62_predicate_sound.

(* when no database call of the request fails, the address handed out is one the wallet watches *)
Theorem C62_fault_free_address_is_watched :
  forall size k c k' i m o', 1 <= size -> kwf k -> get_new size k ([], c) = (k', GN_addr i m, o') -> m = true.
Proof. exact fault_free_watched. Qed.
Print Assumptions C62_fault_free_address_is_watched.

(* ... but when TxnBegin of the top-up fails, indices at or beyond range_end are handed out whose scripts are not in
   m_map_script_pub_keys (distinctness is unaffected) *)
Theorem C62_failed_begin_hands_out_unwatched :
  exists ops, In (OAddr 2 2 false 2) (fst (run (init 2) ops)).
Proof. exists [OpNew 2 [false]; OpNew 2 [false]; OpNew 2 [false]]. vm_compute. right; right; left; reflexivity. Qed.
Print Assumptions C62_failed_begin_hands_out_unwatched.

(* by design: a reservation that was returned unused is issued again (it was never handed out for use) *)
Theorem C62_returned_reservation_is_reissued :
  exists ops, fst (run (init 2) ops) = [ORes 6 0 true 4; ORet 1; OAddr 6 0 true 4].
Proof. exists [OpRes 0 6 []; OpRet 0 []; OpNew 6 []]. vm_compute. reflexivity. Qed.
Print Assumptions C62_returned_reservation_is_reissued.

(* the code before the fix (result of the WriteDescriptor that persists next_index ignored): new; new with that write
   failing; restart; new -- index 1 twice.  With the check the second request is an error and index 1 is issued once. *)
Theorem C62_unchecked_write_would_repeat :
  let '(k1, _, _) := get_new_gen false 3 (init_kp 3) ([], 0%nat) in
  let '(k2, r2, _) := get_new_gen false 3 k1 ([true; true; true; false], 0%nat) in
  let '(_, r3, _) := get_new_gen false 3 (load_slot 3 k2) ([], 0%nat) in
  r2 = GN_addr 1 true /\ r3 = GN_addr 1 true.
Proof. exact unchecked_write_witness. Qed.
Print Assumptions C62_unchecked_write_would_repeat.

Theorem C62_checked_write_witness :
  let '(k1, _, _) := get_new_gen true 3 (init_kp 3) ([], 0%nat) in
  let '(k2, r2, _) := get_new_gen true 3 k1 ([true; true; true; false], 0%nat) in
  let '(_, r3, _) := get_new_gen true 3 (load_slot 3 k2) ([], 0%nat) in
  r2 = GN_werr /\ r3 = GN_addr 1 true.
Proof. exact checked_write_witness. Qed.
Print Assumptions C62_checked_write_witness.

(* non-vacuity: an injective address function exists and a concrete history with failing writes, a kept reservation,
   a crash and a restart hands out five distinct indices *)
Example C62_nonvacuous :
  (forall s i s' i', (fun (s : nat) (i : Z) => (s, i)) s i = (fun s i => (s, i)) s' i' -> s = s' /\ i = i') /\
  handed (fst (run (init 3) [OpNew 2 []; OpNew 2 [true; true; true; false]; OpCrash; OpNew 2 [];
                             OpRes 7 6 []; OpNew 6 [false]; OpKeep 7; OpReload; OpChg 6 []]))
  = [(2%nat, 0); (2%nat, 1); (6%nat, 1); (6%nat, 0); (6%nat, 2)].
Proof. split; [intros s i s' i' E; inversion E; auto|vm_compute; reflexivity]. Qed.
