(* C59  Inbound eviction never picks a protected peer.
   Only statements here; each is closed by lemmas from proofs/Eviction*.v.

   [select_node_to_evict srt l] is SelectNodeToEvict (src/node/eviction.cpp) with std::sort
   replaced by [srt]; every theorem holds for EVERY [srt] that returns a permutation of its input
   sorted w.r.t. the comparator ([sort_spec], what std::sort guarantees for a strict weak ordering;
   the seven comparators are proved to be strict weak orderings), i.e. for every ordering of ties.
   [Ok (Some c)] = the id of candidate c is returned, [Ok None] = std::nullopt,
   [Stuck _] = the model ran out of loop fuel / the code's assert fired / front() of an empty vector. *)
From BV Require Import lib.Ints gen.Params_gen model.Eviction proofs.EvictionBase proofs.EvictionLemmas
  proofs.EvictionRatio proofs.EvictionPick proofs.EvictionMain.
From Coq Require Import Sorting.Permutation Sorting.Sorted.
Local Open Scope Z_scope.

(* The sorter premise is satisfiable: the stable insertion sort run by the correspondence is one. *)
Theorem C59_stable_sort_is_a_sort : sort_spec stable_sorter.
Proof. exact stable_sorter_spec. Qed.
Print Assumptions C59_stable_sort_is_a_sort.

(* ... and std::sort's contract applies to every comparator the function uses: each is a strict weak ordering *)
Theorem C59_comparators_are_strict_weak_orderings :
  swo cmp_netgroup /\ swo cmp_rev_min_ping /\ swo cmp_tx_time /\ swo cmp_block_relay_only_time /\ swo cmp_block_time /\
  swo cmp_rev_connected /\ forall is_local network, swo (cmp_network_time is_local network).
Proof. exact comparators_swo. Qed.
Print Assumptions C59_comparators_are_strict_weak_orderings.

(* The function always returns (the while loop terminates, the assert holds, front() is applied to
   a non-empty vector). *)
Theorem C59_never_stuck : forall srt l, sort_spec srt -> exists r, select_node_to_evict srt l = Ok r.
Proof. exact sel_never_stuck. Qed.
Print Assumptions C59_never_stuck.

(* The evicted peer is one of the candidates, has no noban permission and is inbound. *)
Theorem C59_never_noban_or_outbound : forall srt l c, sort_spec srt ->
  select_node_to_evict srt l = Ok (Some c) ->
  In c l /\ c_noban c = false /\ c_conn_type c = EVICT_CONN_INBOUND.
Proof. exact sel_never_noban_or_outbound. Qed.
Print Assumptions C59_never_noban_or_outbound.

(* The four rules of the property, comparator form (the strongest): a candidate that every
   comparator-sorted order of the eligible (inbound, not noban) candidates places among the last
   4 by CompareNetGroupKeyed / last 8 by ReverseCompareNodeMinPingTime / last 4 by CompareNodeTXTime /
   last 4 by CompareNodeBlockTime is never selected. *)
Theorem C59_protected_by_rule : forall srt l c, sort_spec srt ->
  (surely_last_k cmp_netgroup 4 c (filter eligible l) = true \/
   surely_last_k cmp_rev_min_ping 8 c (filter eligible l) = true \/
   surely_last_k cmp_tx_time 4 c (filter eligible l) = true \/
   surely_last_k cmp_block_time 4 c (filter eligible l) = true) ->
  select_node_to_evict srt l <> Ok (Some c).
Proof. exact sel_protected_by_rule. Qed.
Print Assumptions C59_protected_by_rule.

(* The same in the words of the property: among ALL candidates and counting every tie against the
   peer, one of the 4 with the highest keyed net group, the 8 with the lowest minimum ping time,
   the 4 with the latest transaction time or the 4 with the latest block time is never selected. *)
Theorem C59_protected_among_all_candidates : forall srt l c, sort_spec srt ->
  (count_if (fun x => c_netgroup c <=? c_netgroup x) l <= 4 \/
   count_if (fun x => c_min_ping x <=? c_min_ping c) l <= 8 \/
   count_if (fun x => c_last_tx c <=? c_last_tx x) l <= 4 \/
   count_if (fun x => c_last_block c <=? c_last_block x) l <= 4) ->
  select_node_to_evict srt l <> Ok (Some c).
Proof. exact sel_protected_among_all. Qed.
Print Assumptions C59_protected_among_all_candidates.

(* Up to 8 non-tx-relay peers with relevant services are protected by block time. *)
Theorem C59_protected_block_relay_only : forall srt l c, sort_spec srt ->
  c_relay_txs c = false -> c_relevant c = true ->
  surely_last_k cmp_block_relay_only_time 8 c (filter eligible l) = true ->
  select_node_to_evict srt l <> Ok (Some c).
Proof. exact sel_protected_block_relay_only. Qed.
Print Assumptions C59_protected_block_relay_only.

(* ProtectEvictionCandidatesByRatio on n candidates: it first removes [num] <= n/4 candidates, all of
   them onion/localhost/I2P/CJDNS peers, then the n/2 - num last ones by connection time
   (no size_t underflow in that subtraction, the assert holds); exactly n - n/2 are left; a peer
   that is surely among the n/2 - n/4 longest connected ones is always protected. *)
Theorem C59_ratio_protection : forall srt l, sort_spec srt ->
  exists cands num,
    protect_by_ratio (erase_last_k srt) l =
      Ok (erase_last_k srt cmp_rev_connected (zlen l / 2 - num) pred_all cands) /\
    subp (fun c => disadvantaged c = true) cands l /\ num = zlen l - zlen cands /\
    0 <= num <= zlen l / 2 / 2 /\
    zlen (erase_last_k srt cmp_rev_connected (zlen l / 2 - num) pred_all cands) = zlen l - zlen l / 2.
Proof. exact sel_ratio_protection. Qed.
Print Assumptions C59_ratio_protection.

Theorem C59_ratio_protects_longest_connected : forall srt l c rem, sort_spec srt ->
  protect_by_ratio (erase_last_k srt) l = Ok rem ->
  surely_last_k cmp_rev_connected (zlen l / 2 - zlen l / 2 / 2) c l = true -> ~ In c rem.
Proof. exact sel_ratio_longest. Qed.
Print Assumptions C59_ratio_protects_longest_connected.

(* nullopt is returned exactly when the fixed protections leave nothing; never with 29 or more
   eligible candidates, always with 20 or fewer. *)
Theorem C59_none_iff_nothing_left : forall srt l, sort_spec srt ->
  (select_node_to_evict srt l = Ok None <-> protect_fixed (erase_last_k srt) l = []) /\
  (count_if eligible l <= 20 -> select_node_to_evict srt l = Ok None) /\
  (29 <= count_if eligible l -> exists c, select_node_to_evict srt l = Ok (Some c)).
Proof. exact sel_none_iff. Qed.
Print Assumptions C59_none_iff_nothing_left.

(* The evicted peer belongs to the most populous net group among the candidates left after all
   protections (only the prefer_evict ones when there is any), and within the groups of that size
   no member is more recently connected. *)
Theorem C59_evicted_is_youngest_of_largest_group : forall srt l c, sort_spec srt ->
  select_node_to_evict srt l = Ok (Some c) ->
  exists rem, protect_all (erase_last_k srt) l = Ok rem /\
    let rem' := prefer_filtered rem in
    In c rem' /\
    (existsb c_prefer_evict rem = true -> c_prefer_evict c = true) /\
    forall x, In x rem' ->
      group_size rem' x < group_size rem' c \/
      (group_size rem' x = group_size rem' c /\ c_connected x <= c_connected c).
Proof. exact sel_pick. Qed.
Print Assumptions C59_evicted_is_youngest_of_largest_group.

(* The executable predicate evaluated on the implementation's answer by the violation search is
   implied by the model for every sorter: a failing predicate is a failing property. *)
Theorem C59_holds_sound : forall srt l r, sort_spec srt -> ids_unique l = true ->
  select_node_to_evict srt l = Ok r -> holds_C59 l (option_map c_id r) = true.
Proof. exact sel_holds_sound. Qed.
Print Assumptions C59_holds_sound.

(* non-vacuity: 40 eligible inbound peers in 3 net groups; the stable-sort instance evicts peer 37;
   the predicate rejects the noban peer 38, the outbound peer 39, the protected peer 0 and the unknown id 42 *)
Definition nv_cand (i : Z) : cand :=
  mkCand i (1000 + i) (50 + i) (if i <? 10 then 500 + i else 0) (if i mod 3 =? 0 then 700 + i else 0)
         (i mod 2 =? 0) (negb (i mod 5 =? 0)) false (i mod 3) false (i =? 7) (if i =? 9 then EVICT_NET_ONION else 1)
         (i =? 38) (if i =? 39 then 1 else EVICT_CONN_INBOUND).
Definition nv_list : list cand := map (fun n => nv_cand (Z.of_nat n)) (seq 0 42).
Example C59_nonvacuous :
  ids_unique nv_list = true /\ count_if eligible nv_list = 40 /\
  option_map c_id (match select_node_to_evict_stable nv_list with Ok r => r | Stuck _ => None end) = Some 37 /\
  holds_C59 nv_list (Some 37) = true /\ holds_C59 nv_list (Some 38) = false /\ holds_C59 nv_list (Some 39) = false /\
  holds_C59 nv_list (Some 0) = false /\ holds_C59 nv_list (Some 42) = false /\ holds_C59 nv_list None = false.
Proof. vm_compute. repeat split; reflexivity. Qed.
