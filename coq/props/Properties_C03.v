(* C03  Context-free transaction checks accept exactly the spec-valid transactions. *)
From BV Require Import lib.Ints gen.Params_gen model.Amount model.TxCheck proofs.TxCheckLemmas.
Local Open Scope Z_scope.

(* For every representable transaction (sizes non-negative, values int64, indices uint32): accepted iff
   >=1 input, >=1 output, non-witness size*4 <= 4,000,000, every output value in [0, 21M BTC] and
   their sum too, no outpoint spent twice, and either a coinbase with a 2..100 byte scriptSig or no
   input with a null prevout. *)
Theorem C03_accepts_iff_spec : forall t, wf_tx t ->
  (check_transaction t = None <->
   vin t <> [] /\ vout t <> [] /\
   nowit_size t * 4 <= 4000000 /\
   (forall o, In o (vout t) -> 0 <= value o <= 21000000 * 100000000) /\
   0 <= zsum (map value (vout t)) <= 21000000 * 100000000 /\
   NoDup (map outpoint (vin t)) /\
   ((exists i, vin t = [i] /\ null_prevout i /\ 2 <= script_sig_len i <= 100)
    \/ (forall i, In i (vin t) -> ~ null_prevout i))).
Proof. exact check_transaction_accepts_iff. Qed.
Print Assumptions C03_accepts_iff_spec.

(* The reject reason names the first violated rule in the stated order. *)
Theorem C03_reason_is_first_violated_rule : forall t r, wf_tx t ->
  (check_transaction t = Some r <-> first_violation t = Some r).
Proof. exact check_transaction_reason. Qed.
Print Assumptions C03_reason_is_first_violated_rule.

(* The running int64 output total cannot overflow under the loop's own guards. *)
Theorem C03_output_total_never_overflows : forall acc o,
  0 <= acc <= 21000000 * 100000000 -> 0 <= value o <= 21000000 * 100000000 ->
  INT64_MIN <= acc + value o <= INT64_MAX.
Proof. exact outputs_loop_no_overflow. Qed.
Print Assumptions C03_output_total_never_overflows.

Definition ex_tx : tx := {| vin := [ {| prev_hash := 7; prev_n := 0; script_sig_len := 107 |};
                                     {| prev_hash := 7; prev_n := 1; script_sig_len := 0 |} ];
                            vout := [ {| value := 5000; spk_len := 25 |}; {| value := 2099999999995000; spk_len := 22 |} ] |}.
Example C03_nonvacuous : check_transaction ex_tx = None /\ nowit_size ex_tx = 264 /\
  check_transaction {| vin := vin ex_tx; vout := vout ex_tx ++ [ {| value := 1; spk_len := 1 |} ] |} = Some bad_txns_txouttotal_toolarge.
Proof. vm_compute. repeat split. Qed.
