(* C26  Replacements only happen when they pay for themselves and improve the mempool.
   Rule model (PaysForRBF, conflict collection incl. the TRUC sibling, descendant closure) with theorems,
   and the soundness of the check that is applied to every replacement the real node accepts
   (AcceptToMemoryPool / ProcessNewPackage on a regtest node): rbf_accept_ok = true implies every clause
   of the property for that acceptance. *)
From Coq Require Import QArith.
From BV Require Import lib.Ints gen.Params_gen model.Fee model.Lin model.Rbf
  proofs.FeeLemmas proofs.FeeChunkLemmas proofs.LinLemmas proofs.RbfLemmas.
Local Open Scope Z_scope.

(* PaysForRBF with the node's incremental relay feerate (generated from the compiled tree) accepts exactly
   when the replacement pays at least the original fees and the ADDITIONAL fees cover
   incremental_relay_fee (sat/kvB) for the replacement's own vsize: additional*1000 >= rate*vsize,
   i.e. additional >= ceil(rate*vsize/1000). *)
Theorem C26_pays_for_rbf_iff : forall original_fees replacement_fees replacement_vsize,
  is_i64 original_fees -> is_i64 replacement_fees -> is_i64 (replacement_fees - original_fees) ->
  0 <= replacement_vsize <= INT32_MAX ->
  (pays_for_rbf original_fees replacement_fees replacement_vsize RBF_INCREMENTAL_RELAY_FEE = true <->
   original_fees <= replacement_fees /\
   RBF_INCREMENTAL_RELAY_FEE * replacement_vsize <= (replacement_fees - original_fees) * 1000).
Proof. exact pays_for_rbf_iff. Qed.
Print Assumptions C26_pays_for_rbf_iff.

(* the one-pass descendant marking computes exactly the descendant closure (for a mempool in acceptance
   order: every in-mempool parent precedes its children) *)
Theorem C26_evicted_is_descendant_closure : forall pool start,
  wf_pool pool [] -> incl start (ids pool) ->
  forall x, In x (mark_desc pool start) <-> exists d, In d start /\ desc pool d x.
Proof. exact mark_desc_iff. Qed.
Print Assumptions C26_evicted_is_descendant_closure.

(* the direct input conflicts are exactly the mempool transactions that spend an outpoint the candidate spends *)
Theorem C26_input_conflicts_exact : forall pool cand_ins x,
  In x (input_conflicts pool cand_ins) <->
  exists e, In e pool /\ e_id e = x /\ exists op, In op (e_ins e) /\ In op cand_ins.
Proof. exact input_conflicts_spec. Qed.
Print Assumptions C26_input_conflicts_exact.

(* soundness of the check applied to every accepted replacement *)
Theorem C26_accept_check_sound :
  forall pool cand_ids cand_fee cand_vsize cand_ver cand_ins repl after diag_before diag_after,
  rbf_accept_ok pool cand_ids cand_fee cand_vsize cand_ver cand_ins repl after diag_before diag_after = true ->
  let dc := direct_conflicts pool cand_ver cand_ins in
  exists ev,
    NoDup ev /\
    (forall x, In x ev <-> exists d, In d dc /\ desc pool d x) /\
    (forall x, In x repl <-> In x ev) /\
    (forall x, In x after <-> In x cand_ids \/ (In x (ids pool) /\ ~ In x ev)) /\
    (dc <> [] ->
       fees_of pool ev <= cand_fee /\
       RBF_INCREMENTAL_RELAY_FEE * cand_vsize <= (cand_fee - fees_of pool ev) * 1000 /\
       (forall t, In t (tx_parents cand_ins) -> ~ In t ev) /\
       (exists reps, Z.of_nat (length reps) <= RBF_MAX_REPLACEMENT_CANDIDATES /\
                     forall d, In d dc -> exists r, In r reps /\ same_cluster pool r d) /\
       ((forall x : Q, (0 <= x)%Q -> (diagram diag_before x <= diagram diag_after x)%Q) /\
        (exists x : Q, (0 <= x)%Q /\ (diagram diag_before x < diagram diag_after x)%Q))).
Proof. exact rbf_accept_ok_sound. Qed.
Print Assumptions C26_accept_check_sound.

(* non-vacuity: mempool a(id 0: spends coin 0, 2 outputs) <- c(id 1: spends a:0), c prioritised;
   candidate spends coin 0 again *)
Example C26_nonvacuous :
  let pool := [mk_entry 0 1000 139 2 [(0, 0)]; mk_entry 1 5500 96 2 [(1, 0)]]%nat in
  direct_conflicts pool 2 [(0, 0)]%nat = [0]%nat /\
  mark_desc pool [0]%nat = [1; 0]%nat /\ fees_of pool [1; 0]%nat = 6500 /\
  pays_for_rbf 6500 6509 96 RBF_INCREMENTAL_RELAY_FEE = false /\
  pays_for_rbf 6500 6510 96 RBF_INCREMENTAL_RELAY_FEE = true /\
  rbf_accept_ok pool [2]%nat 6510 96 2 [(0, 0)]%nat [0; 1]%nat [2]%nat [(6500, 934)] [(6510, 381)] = true /\
  rbf_accept_ok pool [2]%nat 6509 96 2 [(0, 0)]%nat [0; 1]%nat [2]%nat [(6500, 934)] [(6509, 381)] = false /\
  rbf_accept_ok pool [2]%nat 6510 96 2 [(0, 0)]%nat [0]%nat [2; 1]%nat [(6500, 934)] [(6510, 381)] = false.
Proof. vm_compute. repeat split. Qed.
