(* C25 -- The transaction graph answers like a naive graph with a consistent linearization.
   Level: translation validation. The theorems are about
   (a) the interface-level model of TxGraph (model/TxGraph.v: a naive graph + the two documented
       deviations: pending dependencies reordered after removals, sticky oversizedness of main), for
       ALL operation sequences: invariants, agreement with the eager naive graph under the header's
       condition on removals, a witness that the condition is necessary, staging commit / abort,
       ancestors/descendants duality, clusters = equivalence classes, meaning of "oversized";
   (b) the validators the correspondence runs on what the REAL TxGraph answered: soundness of the
       structural comparison, of the Trim check, of the ordering checks (CompareMainOrder, chunk
       feerates, block builder, worst chunk), of the builder walk with skips and of the diagrams.
   Nothing is claimed about TxGraphImpl's internals (cluster data structures, linearizer). *)
From Coq Require Import List ZArith Bool Arith Lia Relations Permutation.
From BV Require Import lib.Ints model.Fee model.Lin model.TxGraph proofs.LinLemmas
  proofs.TxGraphRel proofs.TxGraphCluster proofs.TxGraphInv proofs.TxGraphSpec proofs.TxGraphValid
  proofs.TxGraphStruct proofs.TxGraphHolds.
Import ListNotations.

(* every reachable state is well formed: applied ancestry transitively closed and between live
   transactions, pending dependencies between live transactions, ids unique *)
Theorem C25_reachable_states_well_formed : forall mc ms ops, st_inv (run (init_state mc ms) ops).
Proof. intros mc ms ops. apply run_inv, init_inv. Qed.
Print Assumptions C25_reachable_states_well_formed.

(* For every operation sequence whose removals are closed (each removed transaction / Trim set goes
   with all its descendants or all its ancestors -- txgraph.h's condition), at both levels the
   ancestry the model answers from is exactly the eager naive graph: the transitive closure of all
   accepted dependencies, through transactions removed since, restricted to the live ones. *)
Theorem C25_agrees_with_naive_graph : forall mc ms ops,
  safe_run (init_state mc ms) ops -> st_agrees (run (init_state mc ms) ops).
Proof. intros mc ms ops S. apply (run_from_init_agrees mc ms ops S). Qed.
Print Assumptions C25_agrees_with_naive_graph.

(* The condition is necessary: with a cluster limit of 2, A <- B <- C leaves the dependencies
   pending (oversized); removing the middle transaction B then drops them, so C no longer descends
   from A, while the eager naive graph keeps A <- C. (Replayed on the real TxGraph: corpus/C25.) *)
Theorem C25_naive_graph_without_closed_removals_refuted :
  exists mc ms ops, ~ st_agrees (run (init_state mc ms) ops).
Proof.
  exists 2%Z, 100%Z, [OAdd 0 10 10; OAdd 1 50 10; OAdd 2 5 10; ODep 0 1; ODep 1 2; OQuery; ORm 1; OQuery].
  intros [Am _]. specialize (Am 0%nat 2%nat). vm_compute in Am. destruct Am as [_ Am].
  destruct (Am (or_introl eq_refl)).
Qed.
Print Assumptions C25_naive_graph_without_closed_removals_refuted.

Theorem C25_ancestors_descendants_inverse : forall lv a d, lv_wf lv ->
  (In d (q_descendants lv a) <-> In a (q_ancestors lv d)).
Proof. exact anc_desc_dual. Qed.
Print Assumptions C25_ancestors_descendants_inverse.

Theorem C25_ancestors_are_naive_closure : forall lv x a, agrees lv ->
  (In a (q_ancestors lv x) <-> In x (ids lv) /\ (a = x \/ (In (a, x) (l_H lv) /\ In a (ids lv)))).
Proof. exact ancestors_naive. Qed.
Print Assumptions C25_ancestors_are_naive_closure.

(* l_H is the transitive closure through removed transactions: an accepted dependency closes it
   transitively, a removal leaves it untouched *)
Theorem C25_closure_through_removed : forall lv p c a d i, lv_wf lv ->
  Nat.eqb p c || rmem (c, p) (l_H lv) = false -> live lv p && live lv c = true ->
  (In (a, d) (l_H (lv_dep p c lv)) <-> tc ((p, c) :: l_H lv) a d) /\ l_H (lv_rm i lv) = l_H lv.
Proof. intros lv p c a d i W G L. split; [apply H_dep; assumption | reflexivity]. Qed.
Print Assumptions C25_closure_through_removed.

Theorem C25_cluster_is_equivalence_class : forall lv, lv_wf lv ->
  (forall x y, In x (ids lv) -> (In y (q_cluster lv x) <-> In y (ids lv) /\ conn (l_A lv ++ l_P lv) x y)) /\
  (forall x, In x (ids lv) -> In x (q_cluster lv x)) /\
  (forall x y, In x (ids lv) -> In y (q_cluster lv x) -> In x (q_cluster lv y)) /\
  (forall x y z, In x (ids lv) -> In y (q_cluster lv x) -> In z (q_cluster lv y) -> In z (q_cluster lv x)) /\
  (forall x a, In a (q_ancestors lv x) -> In a (q_cluster lv x)) /\
  (forall x d, In d (q_descendants lv x) -> In d (q_cluster lv x)) /\
  (forall x, ~ In x (ids lv) -> q_cluster lv x = []).
Proof.
  intros lv W. split; [intros x y Hx; apply (cluster_iff lv x y W Hx) |].
  split; [intros x Hx; apply cluster_refl; assumption |].
  split; [intros x y; apply cluster_sym; assumption |].
  split; [intros x y z; apply cluster_trans; assumption |].
  split; [intros x a; apply ancestors_in_cluster; assumption |].
  split; [intros x d; apply descendants_in_cluster; assumption | intros x; apply cluster_dead; assumption].
Qed.
Print Assumptions C25_cluster_is_equivalence_class.

Theorem C25_count_distinct_clusters : forall lv x y, lv_wf lv ->
  q_count_distinct lv [x] = (if live lv x then 1%Z else 0%Z) /\
  (In x (ids lv) -> In y (ids lv) -> (q_count_distinct lv [x; y] = 1%Z <-> conn (l_A lv ++ l_P lv) x y)).
Proof. intros lv x y W. split; [apply count_distinct_single; exact W | apply count_distinct_pair; exact W]. Qed.
Print Assumptions C25_count_distinct_clusters.

Theorem C25_oversized_meaning : forall mc ms lv,
  oversized_calc mc ms lv = true <->
  exists x, In x (ids lv) /\
            let c := cluster_txs (l_txs lv) (lv_labels lv) x in
            (mc < Z.of_nat (length c) \/ ms < total_size c)%Z.
Proof. exact oversized_iff. Qed.
Print Assumptions C25_oversized_meaning.

Theorem C25_staging_commit_applies_staged_ops : forall s ops, s_stag s = None -> Forall plain ops ->
  let r1 := step (run (step s OStart) ops) OCommit in
  let r2 := run (normalize s) ops in
  s_main r1 = s_main r2 /\ s_stag r1 = None /\ s_stag r2 = None /\ s_used r1 = s_used r2.
Proof. exact staging_commit. Qed.
Print Assumptions C25_staging_commit_applies_staged_ops.

Theorem C25_staging_abort_restores_main : forall s ops, s_stag s = None -> Forall plain ops ->
  let r := step (run (step s OStart) ops) OAbort in
  s_main r = fold_left main_effect ops (s_main (normalize s)) /\ s_stag r = None.
Proof. exact staging_abort. Qed.
Print Assumptions C25_staging_abort_restores_main.

(* ---- validators ---- *)
Theorem C25_holds_query_is_all_clauses : forall s subsets o, holds_query s subsets o = true ->
  q_st o = (match s_stag s with Some _ => true | None => false end) /\ fr_ok s (q_fr o) = true /\
  forallb snd (struct_checks (s_main s) (main_oversized s) subsets (q_main o)) = true /\
  (match s_stag s, q_stag o with
   | Some l, Some ol => forallb snd (struct_checks l (stag_oversized s) subsets ol) = true
   | None, None => True
   | _, _ => False
   end) /\
  (match q_order o with
   | Some b => main_oversized s = false /\
               forallb snd (order_checks (s_main s) (o_ex (q_main o)) (o_clu (q_main o)) b) = true /\
               forallb snd (walk_checks (s_main s) b) = true
   | None => main_oversized s = true
   end) /\
  (match q_diag o, s_stag s, q_stag o with
   | Some dg, Some l, Some ol => main_oversized s = false /\ stag_oversized s = false /\
                                  forallb snd (diagram_checks (s_main s) l (o_clu (q_main o)) (o_clu ol) dg) = true
   | None, Some _, _ => main_oversized s || stag_oversized s = true
   | None, None, _ => True
   | Some _, _, _ => False
   end).
Proof. exact holds_query_parts. Qed.
Print Assumptions C25_holds_query_is_all_clauses.

Theorem C25_structural_answers_sound : forall lv ov subsets o,
  forallb snd (struct_checks lv ov subsets o) = true ->
  o_n o = Z.of_nat (length (l_txs lv)) /\ o_ov o = ov /\ same_set (o_ex o) (ids lv) /\
  (ov = false ->
   (forall i, In i (ids lv) ->
      exists la ld lc, assoc i (o_anc o) = Some la /\ same_set la (q_ancestors lv i) /\
                       assoc i (o_desc o) = Some ld /\ same_set ld (q_descendants lv i) /\
                       assoc i (o_clu o) = Some lc /\ same_set lc (q_cluster lv i)) /\
   o_ne o = [] /\
   o_cdc o = map (q_count_distinct lv) subsets /\
   Forall2 same_set (o_au o) (map (q_anc_union lv) subsets) /\
   Forall2 same_set (o_du o) (map (q_desc_union lv) subsets)).
Proof. exact struct_checks_sound. Qed.
Print Assumptions C25_structural_answers_sound.

Theorem C25_structural_answers_are_naive : forall lv subsets o i, agrees lv ->
  forallb snd (struct_checks lv false subsets o) = true -> In i (ids lv) ->
  exists la ld, assoc i (o_anc o) = Some la /\ assoc i (o_desc o) = Some ld /\ NoDup la /\ NoDup ld /\
    (forall a, In a la <-> a = i \/ (In (a, i) (l_H lv) /\ In a (ids lv))) /\
    (forall d, In d ld <-> d = i \/ (In (i, d) (l_H lv) /\ In d (ids lv))).
Proof. exact struct_answers_naive. Qed.
Print Assumptions C25_structural_answers_are_naive.

Theorem C25_trim_validator_sound : forall mc ms lv removed, lv_wf lv ->
  forallb snd (trim_checks mc ms lv removed) = true ->
  let lv' := fold_left (fun l i => lv_rm i l) removed lv in
  (oversized_calc mc ms lv = true <-> removed <> []) /\
  NoDup removed /\ (forall x, In x removed -> In x (ids lv)) /\
  (forall p c, In (p, c) (would lv) -> In p removed -> In c removed) /\
  (forall x, In x removed -> over_limits mc ms (cluster_txs (l_txs lv) (lv_labels lv) x) = true) /\
  (forall x, In x (ids lv') ->
     let c := cluster_txs (l_txs lv') (lv_labels lv') x in (Z.of_nat (length c) <= mc /\ total_size c <= ms)%Z) /\
  (forall a d, In (a, d) (would lv') <-> In (a, d) (would lv) /\ ~ In a removed /\ ~ In d removed).
Proof. exact trim_checks_sound. Qed.
Print Assumptions C25_trim_validator_sound.

Theorem C25_order_validator_sound : forall lv exl clu b, lv_wf lv ->
  forallb snd (order_checks lv exl clu b) = true ->
  let ord := order_of b in
  NoDup ord /\ (forall i, In i ord <-> In i (ids lv)) /\
  (forall a d, In (a, d) (would lv) -> before a d ord) /\
  cmp_is_position_order ord exl (b_cmp b) /\
  (forall x, In x (ids lv) -> exists lin, cluster_lin_ok lv clu ord x lin) /\
  chunks_spec (l_txs lv) ord (b_bb b) /\
  (forall c, In c (b_bb b) ->
     connected (would lv) (fst c) /\
     (forall y, In y (fst c) -> assoc y (b_cf b) = Some (snd c)) /\
     exists x lin cs, In x (fst c) /\ assoc x clu = Some lin /\ lin_chunks (l_txs lv) lin = Some cs /\ In c cs) /\
  (match rev (b_bb b) with
   | [] => b_wc b = ([], (0, 0)%Z)
   | c :: _ => b_wc b = (rev (fst c), snd c)
   end).
Proof. exact order_checks_sound. Qed.
Print Assumptions C25_order_validator_sound.

Theorem C25_chunk_feerate_is_chunk_sum : forall lv exl clu b x, lv_wf lv ->
  forallb snd (order_checks lv exl clu b) = true -> In x (ids lv) ->
  exists c lf, In c (b_bb b) /\ In x (fst c) /\ assoc x (b_cf b) = Some (snd c) /\
               with_fees (l_txs lv) (fst c) = Some lf /\ snd c = fsum (map snd lf).
Proof. exact chunk_feerate_is_chunk_sum. Qed.
Print Assumptions C25_chunk_feerate_is_chunk_sum.

(* a smaller position means strictly earlier: CompareMainOrder = Lt is "before in the order" *)
Theorem C25_position_order_is_before : forall l x y a b, NoDup l ->
  index_of x l = Some a -> index_of y l = Some b -> (a < b)%nat -> before x y l.
Proof. exact index_of_lt_before. Qed.
Print Assumptions C25_position_order_is_before.

Theorem C25_builder_walk_sound : forall lv b, b_has_walk b = true ->
  forallb snd (walk_checks lv b) = true ->
  closed_prefix (would lv) (walk_included (b_walk b)) /\
  (existsb fst (b_walk b) = false ->
   NoDup (walk_included (b_walk b)) /\ forall i, In i (walk_included (b_walk b)) <-> In i (ids lv)).
Proof. exact walk_checks_sound. Qed.
Print Assumptions C25_builder_walk_sound.

Theorem C25_diagram_validator_sound : forall m st clu_m clu_s dg,
  forallb snd (diagram_checks m st clu_m clu_s dg) = true ->
  exists fm fs omitted_m omitted_s,
    level_chunk_feerates m clu_m = Some fm /\ level_chunk_feerates st clu_s = Some fs /\
    Permutation fm (fst dg ++ omitted_m) /\ Permutation fs (snd dg ++ omitted_s) /\
    Permutation omitted_m omitted_s /\
    feerates_nonincreasing (fst dg) = true /\ feerates_nonincreasing (snd dg) = true.
Proof. exact diagram_checks_sound. Qed.
Print Assumptions C25_diagram_validator_sound.

(* non-vacuity: a concrete history (chain A <- B <- C, then staging with a fourth transaction) whose
   removals are closed, and a concrete dump -- the one the real TxGraph printed for it -- that
   satisfies every clause *)
Definition ex_ops : list op :=
  [OAdd 0 10 10; OAdd 1 50 10; OAdd 2 5 10; ODep 0 1; ODep 1 2; OQuery; ORm 2; OStart; OAdd 3 100 10; ODep 1 3; OQuery].
Definition ex_obs : qobs :=
  mkQobs true [(0%nat, (10, 10)); (1%nat, (50, 10)); (3%nat, (100, 10))]%Z
    (mkLobs 2 false [0; 1]%nat true
       [(0, [0]); (1, [0; 1])]%nat [(0, [0; 1]); (1, [1])]%nat [(0, [0; 1]); (1, [0; 1])]%nat [] [1%Z] [[0; 1]%nat] [[1]%nat])
    (Some (mkLobs 3 false [0; 1; 3]%nat true
       [(0, [0]); (1, [0; 1]); (3, [0; 1; 3])]%nat [(0, [0; 1; 3]); (1, [1; 3]); (3, [3])]%nat
       [(0, [0; 1; 3]); (1, [0; 1; 3]); (3, [0; 1; 3])]%nat [] [1%Z] [[0; 1]%nat] [[1; 3]%nat]))
    (Some (mkOobs [(0%nat, (60, 20)); (1%nat, (60, 20))]%Z [[Eq; Lt]; [Gt; Eq]] [([0; 1]%nat, (60, 20)%Z)]
                  true [(true, ([0; 1]%nat, (60, 20)%Z))] ([1; 0]%nat, (60, 20)%Z)))
    (Some ([(60, 20)]%Z, [(160, 30)]%Z)).
Example C25_nonvacuous :
  safe_run (init_state 3 100) ex_ops /\
  holds_query (run (init_state 3 100) ex_ops) [[1%nat]] ex_obs = true /\
  holds_trim (run (init_state 2 100) [OAdd 0 10 10; OAdd 1 50 10; OAdd 2 5 10; ODep 0 1; ODep 1 2]) [2%nat] = true.
Proof.
  split; [| split; vm_compute; reflexivity].
  simpl. repeat split; auto.
  left. intros a d H. vm_compute in H. destruct H as [H | [H | [H | []]]]; inversion H; subst; vm_compute; discriminate.
Qed.
