(* C51  Probabilistic filters never produce false negatives.
   Only statements here; each is closed by `exact` of a lemma from proofs/{Bloom,Pmt,Gcs}Lemmas.v.
   The hash functions (MurmurHash3, SipHash, SHA256d inner-node hash) are universally quantified. *)
From BV Require Import lib.Ints gen.Params_gen model.Merkle model.Pmt model.Bloom model.Gcs
  proofs.MerkleLemmas proofs.BloomLemmas proofs.BloomRollingLemmas proofs.PmtLemmas proofs.GcsLemmas.
Local Open Scope Z_scope.

(* CBloomFilter: after any sequence of insert() calls on any filter (any size, any number of hash
   functions, any tweak, any MurmurHash3), contains(x) is true for every inserted x. *)
Theorem C51_bloom_no_false_negative : forall (K : Type) (murmur : Z -> K -> Z) (keys : list K) (f : bloom) (x : K),
  In x keys -> bloom_contains K murmur (fold_left (bloom_insert K murmur) keys f) x = Some true.
Proof. exact bloom_no_false_negative. Qed.
Print Assumptions C51_bloom_no_false_negative.

(* CRollingBloomFilter: on a filter whose fields are as the constructor leaves them (an even, non-zero
   number of 64-bit words, generation 1..3, nEntriesThisGeneration <= nEntriesPerGeneration =
   CeilDiv(nElements, 2)), after any sequence of insert() calls each of the last nElements inserted
   keys (position d < nElements counted from the most recent) is contained - for every MurmurHash3. *)
Theorem C51_rolling_last_nelements : forall (K : Type) (murmur : Z -> K -> Z) (nElements : Z) (f0 : rolling)
  (keys : list K) (d : nat) (x : K),
  (1 <= rb_per_gen f0 < 2 ^ 30 /\ 0 <= rb_this_gen f0 <= rb_per_gen f0 /\ 1 <= rb_gen f0 <= 3 /\
   0 < Z.of_nat (length (rb_data f0)) < 2 ^ 32 /\ Z.even (Z.of_nat (length (rb_data f0))) = true) ->
  rb_per_gen f0 = (nElements + 1) / 2 ->
  nth_error (rev keys) d = Some x -> Z.of_nat d < nElements ->
  rolling_contains K murmur (fold_left (rolling_insert K murmur) keys f0) x = Some true.
Proof. exact rolling_last_nelements. Qed.
Print Assumptions C51_rolling_last_nelements.

(* CPartialMerkleTree: for every list of distinct txids (1 .. MAX_BLOCK_WEIGHT / MIN_TRANSACTION_WEIGHT of
   them) and every match vector of the same length, ExtractMatches on the tree built by the
   constructor succeeds, returns the merkle root of the txids (as ComputeMerkleRoot computes it) and
   exactly the matched txids with their positions, in order.  H injective, deq is equality. *)
Theorem C51_pmt_roundtrip : forall (D : Type) (deq : D -> D -> bool) (H : D -> D -> D) (zero : D),
  (forall a b, deq a b = true <-> a = b) ->
  (forall a b c d, H a b = H c d -> a = c /\ b = d) ->
  forall (txids : list D) (matches : list bool),
  length matches = length txids -> NoDup txids ->
  0 < Z.of_nat (length txids) <= cdiv MAX_BLOCK_WEIGHT MIN_TRANSACTION_WEIGHT ->
  exists t root m,
    pmt_build D H txids matches = Some t /\
    pmt_extract D deq H zero t = X_ok D root (matched_from D txids matches 0) /\
    compute_merkle_root D deq H zero txids = Some (root, m).
Proof. exact pmt_roundtrip. Qed.
Print Assumptions C51_pmt_roundtrip.

(* ... and for ANY tree (e.g. one received from a peer): whenever ExtractMatches succeeds, every
   reported (txid, position) is connected to the returned root by a merkle branch whose length is the
   tree height computed from nTransactions (so a peer cannot make a transaction appear in a block
   whose header root it does not hash up to).  Failure cases (unconsumed hashes or flag bytes,
   identical sibling hashes, overflowing counts) are in the model pmt_extract as in the code. *)
Theorem C51_pmt_extract_sound : forall (D : Type) (deq : D -> D -> bool) (H : D -> D -> D) (zero : D) (t : pmt D) root ms,
  pmt_extract D deq H zero t = X_ok D root ms ->
  exists h, tree_height (pmt_ntx D t) = Some h /\
    forall tx p, In (tx, p) ms -> exists path, length path = h /\ fold_path D H tx p path = root.
Proof. exact pmt_extract_sound. Qed.
Print Assumptions C51_pmt_extract_sound.

(* BitStreamWriter / BitStreamReader: Write(x, n) appends the low n bits of x (most significant first)
   to the bits written so far; Read(n) on a stream that starts with those bits returns x mod 2^n and
   leaves the rest.  (WInv / RInv: the objects' offsets are in range, as after construction.) *)
Theorem C51_bitstream_write : forall (w : bitwriter) (data n : Z), WInv w -> 0 <= n <= 64 ->
  exists w', bw_write w data n = Some w' /\ WInv w' /\ wbits w' = wbits w ++ bits_msb (Z.to_nat n) data.
Proof. exact bw_write_spec. Qed.
Print Assumptions C51_bitstream_write.

Theorem C51_bitstream_read : forall (r : bitreader) (n x : Z) (rest : list bool), RInv r -> 0 <= n <= 64 ->
  rdbits r = bits_msb (Z.to_nat n) x ++ rest ->
  exists r', br_read r n = Some (x mod 2 ^ n, r') /\ RInv r' /\ rdbits r' = rest.
Proof. exact br_read_written. Qed.
Print Assumptions C51_bitstream_read.

(* Golomb-Rice: for every P < 64 and every 64-bit x, GolombRiceEncode appends gbits P x (quotient in
   unary, a zero, P remainder bits) wherever the writer stands, and GolombRiceDecode on any reader
   whose remaining bits start with gbits P x returns x and stops right after them. *)
Theorem C51_golomb_roundtrip : forall (P x : Z) (w : bitwriter), WInv w -> 0 <= P < 64 -> 0 <= x < 2 ^ 64 ->
  exists w', golomb_rice_encode w P x = Some w' /\ WInv w' /\ wbits w' = wbits w ++ gbits P x /\
    forall r rest fuel, RInv r -> rdbits r = gbits P x ++ rest -> (Z.to_nat (Z.shiftr x P) < fuel)%nat ->
      exists r', golomb_rice_decode_fuel fuel r P = Some (x, r') /\ RInv r' /\ rdbits r' = rest.
Proof. exact golomb_roundtrip. Qed.
Print Assumptions C51_golomb_roundtrip.

(* GCSFilter: every element of the set the filter was built from matches (Match), and MatchAny is
   true for every query set that contains one of them - for every SipHash, every P < 64, every M. *)
Theorem C51_gcs_match_inserted : forall (K : Type) (sip : K -> Z) (P M : Z), 0 <= P < 64 ->
  forall (elements : list K) (e : K), Z.of_nat (length elements) <= UINT32_MAX -> In e elements ->
  exists g, gcs_build K sip P M elements = Some g /\ gcs_match K sip P g e = Some true.
Proof. exact gcs_match_inserted. Qed.
Print Assumptions C51_gcs_match_inserted.

Theorem C51_gcs_match_any_inserted : forall (K : Type) (sip : K -> Z) (P M : Z), 0 <= P < 64 ->
  forall (elements queries : list K) (e : K), Z.of_nat (length elements) <= UINT32_MAX ->
  In e elements -> In e queries ->
  exists g, gcs_build K sip P M elements = Some g /\ gcs_match_any K sip P g queries = Some true.
Proof. exact gcs_match_any_inserted. Qed.
Print Assumptions C51_gcs_match_any_inserted.

(* non-vacuity: concrete instances on which the functions compute and the premises hold *)
Example C51_nonvacuous :
  (* bloom: 2-byte filter, 3 hash functions, toy hash: the inserted key is found, another one is not *)
  (let f := fold_left (bloom_insert Z (fun s k => s * 7 + k)) [5] {| bl_data := [0; 0]; bl_nhash := 3; bl_tweak := 1 |} in
   bloom_contains Z (fun s k => s * 7 + k) f 5 = Some true /\ bloom_contains Z (fun s k => s * 7 + k) f 6 = Some false) /\
  (* partial merkle tree over the free hash: 3 distinct txids, the last one matched *)
  (let t := {| pmt_ntx := 3; pmt_bits := [true; false; true; true];
               pmt_hashes := [MNode (MLeaf 1) (MLeaf 2); MLeaf 3]; pmt_bad := false |} in
   pmt_build mtree MNode [MLeaf 1; MLeaf 2; MLeaf 3] [false; false; true] = Some t /\
   pmt_extract mtree mtree_eqb MNode (MLeaf 0) t =
     X_ok mtree (MNode (MNode (MLeaf 1) (MLeaf 2)) (MNode (MLeaf 3) (MLeaf 3))) [(MLeaf 3, 2)]) /\
  NoDup [MLeaf 1; MLeaf 2; MLeaf 3] /\
  (* Golomb-coded set with P = 2, M = 5 and a toy hash: the elements match, another value does not *)
  (match gcs_build Z (fun k => k * 2 ^ 61) 2 5 [1; 2; 3] with
   | Some g => gcs_encoded g = [3; 41; 0] /\ gcs_match Z (fun k => k * 2 ^ 61) 2 g 2 = Some true /\
               gcs_match Z (fun k => k * 2 ^ 61) 2 g 7 = Some false
   | None => False
   end).
Proof.
  split; [vm_compute; split; reflexivity|].
  split; [vm_compute; split; reflexivity|].
  split.
  - constructor; [intros [E|[E|[]]]; discriminate|]. constructor; [intros [E|[]]; discriminate|].
    constructor; [intros []|]. constructor.
  - vm_compute. repeat split; reflexivity.
Qed.
